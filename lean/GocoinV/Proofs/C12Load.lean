/-
  Proofs.C12Load — the refused MempoolLoad / InitMempool of Model/MempoolLoad.lean (`initMempool`, `loadPartial`,
  `loadRefused`): the state it leaves is the freshly initialised pool over the unchanged chain side (only the sticky
  panic flag may have been raised while the rejected records were read), whatever the position at which the file was
  cut, and it satisfies the three invariants the C12 theorems carry:

    Full      (InvR + ChainOK + PGoodP, Proofs/C12Run)      initMempool_full    loadRefused_inv
    RejInv    (Proofs/C12RejInv)                            initMempool_rejInv
    SortInvP  (Proofs/C12SortDef)                           initMempool_sort

  Core Lean only.
-/
import GocoinV.Model.MempoolLoad
import GocoinV.Proofs.C12Run
import GocoinV.Proofs.C12RejInv
import GocoinV.Proofs.C12SortRun
namespace GocoinV.Mempool

/-! ### the freshly initialised pool, with any value of the sticky panic flag -/

theorem fresh_full {K : Keys} {W : Tx → Prop} {u0 : UT} {ν : OutPoint → Nat} (s : State) (p : Bool)
    (f : Full K W u0 ν s) : Full K W u0 ν { initMempool s with panicked := p } := by
  have hI : InvR K W { initMempool s with panicked := p } := by
    refine ⟨⟨?_, ?_, ?_⟩, by simp [initMempool], ?_, ?_, ?_⟩
    · intro b t h; simp [initMempool, AList.get?] at h
    · intro u b h; simp [initMempool, AList.get?] at h
    · intro b t h; simp [initMempool, AList.get?] at h
    · intro b t h; simp [initMempool, AList.get?] at h
    · intro b r t h; simp [initMempool, AList.get?] at h
    · exact f.inv.undoW
  refine ⟨hI, ⟨f.chain.c1, f.chain.c2, f.chain.c3, f.chain.val, f.chain.nd⟩, ?_⟩
  intro _
  refine ⟨⟨hI, ?_, ?_, ?_, rfl⟩, ?_⟩
  · intro b t h; simp [initMempool, AList.get?] at h
  · intro b t h; simp [initMempool, AList.get?] at h
  · intro b t h; simp [initMempool, AList.get?] at h
  · intro b t h; simp [initMempool, AList.get?] at h

theorem fresh_rejInv (K : Keys) (s : State) (p : Bool) (hcap : 2 ≤ s.cfg.ringCap) :
    RejInv K { initMempool s with panicked := p } := by
  refine ⟨hcap, List.nodup_nil, List.nodup_nil, ?_, ?_, ?_, ?_, ?_, ?_, ?_, ?_⟩
  · intro b h; simp [initMempool] at h
  · intro b r h; simp [initMempool, AList.get?] at h
  · intro b r h; simp [initMempool, AList.get?] at h
  · intro u l h; simp [initMempool, AList.get?] at h
  · intro b r t h; simp [initMempool, AList.get?] at h
  · intro k id ids h; simp [initMempool, AList.get?] at h
  · intro b r w h; simp [initMempool, AList.get?] at h
  · intro b x h; simp [initMempool, AList.get?] at h

theorem fresh_sort (K : Keys) (s : State) (p : Bool) : SortInvP K { initMempool s with panicked := p } := by
  intro _ _ _
  refine ⟨List.Pairwise.nil, ?_, ?_, List.Pairwise.nil, ?_⟩
  · intro b hb; cases hb
  · intro b; simp [initMempool, AList.get?]
  · intro b t hb; simp [initMempool, AList.get?] at hb

theorem initMempool_eq (s : State) : initMempool s = { initMempool s with panicked := s.panicked } := rfl

/-! ### InitMempool() -/

theorem initMempool_full {K : Keys} {W : Tx → Prop} {u0 : UT} {ν : OutPoint → Nat} (s : State)
    (f : Full K W u0 ν s) : Full K W u0 ν (initMempool s) := fresh_full s s.panicked f

theorem initMempool_rejInv (K : Keys) (s : State) (r : RejInv K s) : RejInv K (initMempool s) :=
  fresh_rejInv K s s.panicked r.cap

theorem initMempool_sort (K : Keys) (s : State) : SortInvP K (initMempool s) := fresh_sort K s s.panicked

/-! ### the partial load touches nothing InitMempool() keeps, except the panic flag -/

/-- the fields a second InitMempool() keeps (but for `panicked`) are those of the first -/
def SameKept (s s' : State) : Prop :=
  s'.cfg = s.cfg ∧ s'.sortDisabled = s.sortDisabled ∧ s'.utxo = s.utxo ∧ s'.height = s.height ∧ s'.undo = s.undo

theorem SameKept.trans {a b c : State} (h1 : SameKept a b) (h2 : SameKept b c) : SameKept a c :=
  ⟨h2.1.trans h1.1, h2.2.1.trans h1.2.1, h2.2.2.1.trans h1.2.2.1, h2.2.2.2.1.trans h1.2.2.2.1,
   h2.2.2.2.2.trans h1.2.2.2.2⟩

theorem rejDelete_kept (K : Keys) (s : State) (r : Rej) : SameKept s (rejDelete K s r) := by
  unfold rejDelete
  cases r.tx <;> exact ⟨rfl, rfl, rfl, rfl, rfl⟩

theorem rejEvictOldest_kept (K : Keys) (s : State) : SameKept s (rejEvictOldest K s) := by
  unfold rejEvictOldest
  split
  · split
    · split
      · exact rejDelete_kept K s _
      · exact ⟨rfl, rfl, rfl, rfl, rfl⟩
    · exact ⟨rfl, rfl, rfl, rfl, rfl⟩
  · exact ⟨rfl, rfl, rfl, rfl, rfl⟩

theorem rejAddRefs_kept (K : Keys) (s : State) (r : Rej) : SameKept s (rejAddRefs K s r) := by
  unfold rejAddRefs
  cases r.tx with
  | none => exact ⟨rfl, rfl, rfl, rfl, rfl⟩
  | some t => exact ⟨rfl, rfl, rfl, rfl, rfl⟩

theorem rejAdd_kept (K : Keys) (s : State) (r : Rej) : SameKept s (rejAdd K s r) := by
  unfold rejAdd
  have h0 : SameKept s { s with ring := s.ring ++ [some (K.bidx r.id)], rej := s.rej.set (K.bidx r.id) r } :=
    ⟨rfl, rfl, rfl, rfl, rfl⟩
  exact (h0.trans (rejEvictOldest_kept K _)).trans (rejAddRefs_kept K _ r)

theorem foldl_kept {α : Type} (f : State → α → State) (hf : ∀ s a, SameKept s (f s a)) :
    ∀ (l : List α) (s : State), SameKept s (l.foldl f s) := by
  intro l
  induction l with
  | nil => intro s; exact ⟨rfl, rfl, rfl, rfl, rfl⟩
  | cons a r ih => intro s; exact (hf s a).trans (ih _)

theorem loadPartial_chain (K : Keys) (s : State) (k : Nat) (j : Option Nat) :
    (loadPartial K s k j).cfg = s.cfg ∧ (loadPartial K s k j).sortDisabled = s.sortDisabled ∧
    (loadPartial K s k j).utxo = s.utxo ∧ (loadPartial K s k j).height = s.height ∧
    (loadPartial K s k j).undo = s.undo := by
  cases j with
  | none => exact ⟨rfl, rfl, rfl, rfl, rfl⟩
  | some n =>
    simp only [loadPartial]
    refine SameKept.trans (a := s) ⟨rfl, rfl, rfl, rfl, rfl⟩ (foldl_kept _ (fun st r => rejAdd_kept K st _) _ _)

/-! ### MempoolLoad returning false -/

/-- the state a refused load leaves does not depend on where the file was cut, except through the panic flag -/
theorem loadRefused_eq (K : Keys) (s : State) (k : Nat) (j : Option Nat) :
    loadRefused K s k j = { initMempool s with panicked := (loadPartial K s k j).panicked } := by
  obtain ⟨h1, h2, h3, h4, h5⟩ := loadPartial_chain K s k j
  unfold loadRefused
  show initMempool (loadPartial K s k j) = _
  simp only [initMempool, h1, h2, h3, h4, h5]

theorem loadRefused_eq_none (K : Keys) (s : State) (k : Nat) : loadRefused K s k none = initMempool s := rfl

theorem loadRefused_inv {K : Keys} {W : Tx → Prop} {u0 : UT} {ν : OutPoint → Nat} (s : State) (k : Nat)
    (j : Option Nat) (f : Full K W u0 ν s) (r : RejInv K s) :
    Full K W u0 ν (loadRefused K s k j) ∧ RejInv K (loadRefused K s k j) ∧ SortInvP K (loadRefused K s k j) := by
  rw [loadRefused_eq]
  exact ⟨fresh_full s _ f, fresh_rejInv K s _ r.cap, fresh_sort K s _⟩

end GocoinV.Mempool
