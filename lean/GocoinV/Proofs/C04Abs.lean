/-
  Proofs.C04Abs — the abstraction DB → (OutPoint ⇀ Coin): association-list facts, `aGet (absList db) = absGet db`
  for a well-formed map, and what `UnspentDB.del` / `do_add` (dbDel / dbAdd, applyChanges) do to `absGet`.
-/
import GocoinV.Proofs.C04Basic
namespace GocoinV.Proofs.C04
open GocoinV GocoinV.Connect
open GocoinV.Spec.Connect (Coin Utxo absGet absList recCoins)

/-! ### association lists: keys -/

def keys {κ β : Type} (l : List (κ × β)) : List κ := l.map Prod.fst

theorem aGet_none_iff {κ β : Type} [DecidableEq κ] (l : List (κ × β)) (k : κ) :
    aGet l k = none ↔ k ∉ keys l := by
  induction l with
  | nil => simp [aGet, keys]
  | cons p r ih =>
    obtain ⟨a, b⟩ := p
    simp only [aGet, keys, List.map_cons, List.mem_cons, not_or] at *
    by_cases h : a = k
    · simp [h]
    · simp only [h, ↓reduceIte, ih]
      constructor
      · intro hr; exact ⟨fun hk => h hk.symm, hr⟩
      · intro hr; exact hr.2

theorem aGet_mem {κ β : Type} [DecidableEq κ] (l : List (κ × β)) (k : κ) (v : β) (h : aGet l k = some v) :
    (k, v) ∈ l := by
  induction l with
  | nil => simp [aGet] at h
  | cons p r ih =>
    obtain ⟨a, b⟩ := p
    simp only [aGet] at h
    by_cases hk : a = k
    · simp only [hk, ↓reduceIte, Option.some.injEq] at h
      subst hk; subst h; simp
    · simp only [hk, ↓reduceIte] at h
      exact List.mem_cons_of_mem _ (ih h)

theorem aSet_keys {κ β : Type} [DecidableEq κ] (l : List (κ × β)) (k : κ) (v : β) :
    keys (aSet l k v) = if k ∈ keys l then keys l else keys l ++ [k] := by
  induction l with
  | nil => simp [aSet, keys]
  | cons p r ih =>
    obtain ⟨a, b⟩ := p
    simp only [aSet]
    by_cases h : a = k
    · subst h; simp [keys]
    · have hne : ¬ k = a := fun hk => h hk.symm
      simp only [h, ↓reduceIte]
      simp only [keys, List.map_cons, List.mem_cons, hne, false_or] at ih ⊢
      rw [ih]
      by_cases hm : k ∈ List.map Prod.fst r <;> simp [hm]

theorem aSet_keys_nodup {κ β : Type} [DecidableEq κ] (l : List (κ × β)) (k : κ) (v : β) (h : (keys l).Nodup) :
    (keys (aSet l k v)).Nodup := by
  rw [aSet_keys]
  split
  · exact h
  · rename_i hk
    rw [List.nodup_append]
    refine ⟨h, by simp, ?_⟩
    intro x hx y hy
    simp only [List.mem_singleton] at hy
    subst hy
    intro hxy; subst hxy; exact hk hx

theorem aGet_of_mem_nodup {κ β : Type} [DecidableEq κ] (l : List (κ × β)) (k : κ) (v : β)
    (hn : (keys l).Nodup) (hm : (k, v) ∈ l) : aGet l k = some v := by
  induction l with
  | nil => simp at hm
  | cons p r ih =>
    obtain ⟨a, b⟩ := p
    simp only [keys, List.map_cons, List.nodup_cons] at hn
    simp only [List.mem_cons, Prod.mk.injEq] at hm
    simp only [aGet]
    rcases hm with ⟨h1, h2⟩ | hm
    · simp [h1, h2]
    · have : a ≠ k := by
        intro hak; subst hak
        exact hn.1 (List.mem_map.mpr ⟨(a, v), hm, rfl⟩)
      simp only [this, ↓reduceIte]
      exact ih hn.2 hm

/-! ### the coin view of a record -/

/-- the coin that output `o` of record `r` stands for -/
def recCoin (mtpOf : Nat → Nat) (r : Rec) (o : TxOut) : Coin := ⟨o.value, o.script, r.height, r.coinbase, mtpOf r.height⟩

/-- the coins of a record, by vout -/
def recGet (mtpOf : Nat → Nat) (r : Rec) (v : Nat) : Option Coin := (r.outs.getD v none).map (recCoin mtpOf r)

theorem absGet_eq (mtpOf : Nat → Nat) (db : DB) (op : OutPoint) :
    absGet mtpOf db op =
      match aGet db (key8 op.hash) with
      | none => none
      | some r => if r.txid = op.hash then recGet mtpOf r op.vout else none := by
  unfold absGet recGet recCoin
  rfl

/-- well-formedness of the record map: every record is filed under the key of its txid, and (being a Go map) keys
    are unique -/
structure WF (db : DB) : Prop where
  filed : ∀ kr ∈ db, kr.1 = key8 kr.2.txid
  nodup : (keys db).Nodup

theorem aGet_append {κ β : Type} [DecidableEq κ] (l1 l2 : List (κ × β)) (k : κ) :
    aGet (l1 ++ l2) k = match aGet l1 k with | some v => some v | none => aGet l2 k := by
  induction l1 with
  | nil => simp [aGet]
  | cons p r ih =>
    obtain ⟨a, b⟩ := p
    simp only [List.cons_append, aGet]
    by_cases h : a = k
    · simp [h]
    · simp [h, ih]

theorem aGet_recCoins (mtpOf : Nat → Nat) (r : Rec) (outs : List (Option TxOut)) (i : Nat) (op : OutPoint) :
    aGet (recCoins mtpOf r outs i) op =
      if r.txid = op.hash ∧ i ≤ op.vout then (outs.getD (op.vout - i) none).map (recCoin mtpOf r) else none := by
  induction outs generalizing i with
  | nil => simp [recCoins, aGet]
  | cons o t ih =>
    cases o with
    | none =>
      simp only [recCoins, ih]
      by_cases h1 : r.txid = op.hash
      · by_cases h2 : i + 1 ≤ op.vout
        · have h3 : i ≤ op.vout := by omega
          have h4 : op.vout - i = (op.vout - (i + 1)) + 1 := by omega
          simp only [h1, h2, h3, and_self, ↓reduceIte]
          rw [h4, List.getD_cons_succ]
        · by_cases h3 : i ≤ op.vout
          · have h4 : op.vout - i = 0 := by omega
            simp [h1, h2, h3, h4]
          · simp [h1, h2, h3]
      · simp [h1]
    | some o =>
      simp only [recCoins, aGet, ih]
      by_cases h0 : (⟨r.txid, i⟩ : OutPoint) = op
      · subst h0
        simp [recCoin]
      · simp only [h0, ↓reduceIte]
        by_cases h1 : r.txid = op.hash
        · have hne : i ≠ op.vout := by
            intro hi; apply h0; cases op; simp_all
          by_cases h2 : i + 1 ≤ op.vout
          · have h3 : i ≤ op.vout := by omega
            have h4 : op.vout - i = (op.vout - (i + 1)) + 1 := by omega
            simp only [h1, h2, h3, and_self, ↓reduceIte]
            rw [h4, List.getD_cons_succ]
          · have h3 : ¬ i ≤ op.vout := by omega
            simp [h1, h2, h3]
        · simp [h1]

theorem aGet_absList_none (mtpOf : Nat → Nat) (db : DB) (op : OutPoint) (h : ∀ kr ∈ db, kr.2.txid ≠ op.hash) :
    aGet (absList mtpOf db) op = none := by
  induction db with
  | nil => simp [absList, aGet]
  | cons kr rest ih =>
    have h1 : kr.2.txid ≠ op.hash := h kr (by simp)
    have h2 := ih (fun x hx => h x (List.mem_cons_of_mem _ hx))
    unfold absList at h2 ⊢
    simp only [List.flatMap_cons, aGet_append, aGet_recCoins, h1, false_and, ↓reduceIte, h2]

/-- for a well-formed map the executable association list means what `absGet` says -/
theorem aGet_absList (mtpOf : Nat → Nat) (db : DB) (hw : WF db) (op : OutPoint) :
    aGet (absList mtpOf db) op = absGet mtpOf db op := by
  induction db with
  | nil => simp [absList, aGet, absGet]
  | cons kr rest ih =>
    obtain ⟨k, r⟩ := kr
    have hk : k = key8 r.txid := hw.filed (k, r) (by simp)
    have hn := hw.nodup
    simp only [keys, List.map_cons, List.nodup_cons] at hn
    have hw' : WF rest := ⟨fun x hx => hw.filed x (List.mem_cons_of_mem _ hx), hn.2⟩
    have ih' := ih hw'
    rw [absGet_eq] at ih' ⊢
    unfold absList at ih' ⊢
    simp only [List.flatMap_cons, aGet_append, aGet_recCoins, Nat.zero_le, and_true, Nat.sub_zero, aGet]
    by_cases h1 : r.txid = op.hash
    · have hkk : k = key8 op.hash := by rw [hk, h1]
      have hrest : ∀ x ∈ rest, x.2.txid ≠ op.hash := by
        intro x hx hxe
        apply hn.1
        have : x.1 = k := by rw [hw.filed x (List.mem_cons_of_mem _ hx), hxe, hkk]
        exact List.mem_map.mpr ⟨x, hx, this⟩
      have hnone := aGet_absList_none mtpOf rest op hrest
      unfold absList at hnone
      simp only [h1, ↓reduceIte, hkk, recGet]
      cases hg : (r.outs.getD op.vout none).map (recCoin mtpOf r) with
      | some c => rfl
      | none => simp [hnone]
    · have hkk : k ≠ key8 op.hash ∨ k = key8 op.hash := by
        by_cases h : k = key8 op.hash
        · exact Or.inr h
        · exact Or.inl h
      simp only [h1, ↓reduceIte]
      rcases hkk with hkk | hkk
      · simp only [hkk, ↓reduceIte]; exact ih'
      · simp only [hkk, ↓reduceIte, h1]
        -- no record of the rest has this txid (it would be filed under the same key)
        show aGet (absList mtpOf rest) op = none
        apply aGet_absList_none mtpOf rest op
        intro x hx hxe
        apply hn.1
        have : x.1 = k := by rw [hw.filed x (List.mem_cons_of_mem _ hx), hxe, hkk]
        exact List.mem_map.mpr ⟨x, hx, this⟩

end GocoinV.Proofs.C04
