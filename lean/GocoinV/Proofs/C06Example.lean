/-
  Proofs.C06Example — a concrete block tree with a fork satisfying `BlockTree` (non-vacuity of the hypotheses of the
  C06 theorems): root 0; x1 on the root; a2 and b2 on x1; b3 on b2; b2 spends an unknown output, so the branch b2-b3
  is invalid once connected (a delivery of x1, a2, b2, b3 ends in a failed reorganisation).
-/
import GocoinV.Spec.ChainReplay
namespace GocoinV.ChainTree
open GocoinV.UtxoOps

def exBits : Nat := 0x207fffff
def exCb (id : Nat) : Tx := { txid := id, ins := [], outs := [{ value := 5000000000, script := "51" }], scriptsOk := true }
def exT1 : List Tx := [exCb 1001]
def exT2 : List Tx := [exCb 1002]
def exT3 : List Tx := [exCb 1003, { txid := 2000, ins := [{ txid := 999, vout := 0 }], outs := [], scriptsOk := true }]
def exT4 : List Tx := [exCb 1004]

def exU : List Block :=
  [ { id := 1, parent := 0, bits := exBits, txs := exT1 },
    { id := 2, parent := 1, bits := exBits, txs := exT2 },
    { id := 3, parent := 1, bits := exBits, txs := exT3 },
    { id := 4, parent := 3, bits := exBits, txs := exT4 } ]

theorem exU_inv {e : PE} {rest : List PE} (h : UChain exU 0 (e :: rest)) :
    ((e.id = 1 ∧ e.txs = exT1 ∧ headR 0 rest = 0) ∨ (e.id = 2 ∧ e.txs = exT2 ∧ headR 0 rest = 1) ∨
     (e.id = 3 ∧ e.txs = exT3 ∧ headR 0 rest = 1) ∨ (e.id = 4 ∧ e.txs = exT4 ∧ headR 0 rest = 3)) ∧ UChain exU 0 rest := by
  obtain ⟨⟨b, hb, h1, h2, h3⟩, hr⟩ := h
  refine ⟨?_, hr⟩
  simp only [exU, List.mem_cons, List.mem_nil_iff, or_false] at hb
  rcases hb with rfl | rfl | rfl | rfl
  · exact Or.inl ⟨h1.symm, h2.symm, h3.symm⟩
  · exact Or.inr (Or.inl ⟨h1.symm, h2.symm, h3.symm⟩)
  · exact Or.inr (Or.inr (Or.inl ⟨h1.symm, h2.symm, h3.symm⟩))
  · exact Or.inr (Or.inr (Or.inr ⟨h1.symm, h2.symm, h3.symm⟩))

theorem exU_head0 {rest : List PE} (h : UChain exU 0 rest) (h0 : headR 0 rest = 0) : rest = [] := by
  cases rest with
  | nil => rfl
  | cons e r =>
    have := (exU_inv h).1
    simp only [headR] at h0
    omega

theorem exU_head1 {rest : List PE} (h : UChain exU 0 rest) (h1 : headR 0 rest = 1) : rest = [⟨1, exT1⟩] := by
  cases rest with
  | nil => cases h1
  | cons e r =>
    obtain ⟨hc, hr⟩ := exU_inv h
    simp only [headR] at h1
    rcases hc with ⟨a, b, c⟩ | ⟨a, _, _⟩ | ⟨a, _, _⟩ | ⟨a, _, _⟩
    · have := exU_head0 hr c
      subst this
      cases e; simp only at a b; subst a; subst b; rfl
    all_goals omega

theorem exU_head3 {rest : List PE} (h : UChain exU 0 rest) (h3 : headR 0 rest = 3) : rest = [⟨3, exT3⟩, ⟨1, exT1⟩] := by
  cases rest with
  | nil => cases h3
  | cons e r =>
    obtain ⟨hc, hr⟩ := exU_inv h
    simp only [headR] at h3
    rcases hc with ⟨a, _, _⟩ | ⟨a, _, _⟩ | ⟨a, b, c⟩ | ⟨a, _, _⟩
    · omega
    · omega
    · have := exU_head1 hr c
      subst this
      cases e; simp only at a b; subst a; subst b; rfl
    · omega

theorem exU_chains {p : List PE} (h : UChain exU 0 p) :
    p = [] ∨ p = [⟨1, exT1⟩] ∨ p = [⟨2, exT2⟩, ⟨1, exT1⟩] ∨ p = [⟨3, exT3⟩, ⟨1, exT1⟩] ∨
    p = [⟨4, exT4⟩, ⟨3, exT3⟩, ⟨1, exT1⟩] := by
  cases p with
  | nil => exact Or.inl rfl
  | cons e r =>
    obtain ⟨hc, hr⟩ := exU_inv h
    rcases hc with ⟨a, b, c⟩ | ⟨a, b, c⟩ | ⟨a, b, c⟩ | ⟨a, b, c⟩
    · have := exU_head0 hr c; subst this
      cases e; simp only at a b; subst a; subst b; exact Or.inr (Or.inl rfl)
    · have := exU_head1 hr c; subst this
      cases e; simp only at a b; subst a; subst b; exact Or.inr (Or.inr (Or.inl rfl))
    · have := exU_head1 hr c; subst this
      cases e; simp only at a b; subst a; subst b; exact Or.inr (Or.inr (Or.inr (Or.inl rfl)))
    · have := exU_head3 hr c; subst this
      cases e; simp only at a b; subst a; subst b; exact Or.inr (Or.inr (Or.inr (Or.inr rfl)))

theorem exFresh1 : Fresh [⟨1, exT1⟩] := by
  refine ⟨?_, trivial⟩
  intro u hu t ht
  have : replay [] = some [] := rfl
  rw [this] at hu; cases hu; rfl

theorem exReplay1 : replay [⟨1, exT1⟩] =
    some [{ txid := 1001, height := 1, coinbase := true, outs := [some ⟨5000000000, "51"⟩] }] := by rfl

theorem exFresh2 : Fresh [⟨2, exT2⟩, ⟨1, exT1⟩] := by
  refine ⟨?_, exFresh1⟩
  intro u hu t ht
  rw [exReplay1] at hu; cases hu
  simp only [exT2, exCb, List.map_cons, List.map_nil, List.mem_cons, List.mem_nil_iff, or_false] at ht
  subst ht; rfl

theorem exFresh3 : Fresh [⟨3, exT3⟩, ⟨1, exT1⟩] := by
  refine ⟨?_, exFresh1⟩
  intro u hu t ht
  rw [exReplay1] at hu; cases hu
  simp only [exT3, exCb, List.map_cons, List.map_nil, List.mem_cons, List.mem_nil_iff, or_false] at ht
  rcases ht with rfl | rfl <;> rfl

theorem exReplay3 : replay [⟨3, exT3⟩, ⟨1, exT1⟩] = none := by rfl

theorem exFresh4 : Fresh [⟨4, exT4⟩, ⟨3, exT3⟩, ⟨1, exT1⟩] := by
  refine ⟨?_, exFresh3⟩
  intro u hu
  rw [exReplay3] at hu; cases hu

/-- the example block tree satisfies every assumption of the C06 theorems -/
theorem exU_blockTree : BlockTree 0 exU := by
  refine ⟨?_, ?_, ?_, ?_, ?_⟩
  · intro b1 h1 b2 h2 hid
    simp only [exU, List.mem_cons, List.mem_nil_iff, or_false] at h1 h2
    rcases h1 with rfl | rfl | rfl | rfl <;> rcases h2 with rfl | rfl | rfl | rfl <;> first | rfl | (simp at hid)
  · intro b hb
    simp only [exU, List.mem_cons, List.mem_nil_iff, or_false] at hb
    rcases hb with rfl | rfl | rfl | rfl <;> simp [exT1, exT2, exT3, exT4]
  · intro b hb
    simp only [exU, List.mem_cons, List.mem_nil_iff, or_false] at hb
    rcases hb with rfl | rfl | rfl | rfl <;> decide
  · intro p hp
    rcases exU_chains hp with rfl | rfl | rfl | rfl | rfl
    · trivial
    · exact exFresh1
    · exact exFresh2
    · exact exFresh3
    · exact exFresh4
  · intro p hp
    rcases exU_chains hp with rfl | rfl | rfl | rfl | rfl <;> simp [UnwindBufLen]

end GocoinV.ChainTree
