/-
  Proofs.C15Fits — the Go buffer of len*138/100+1 bytes in Encodeb58 is always large enough.
-/
import GocoinV.Proofs.C15Base58
namespace GocoinV.Base58

theorem digits_length_le (L : Nat) : ∀ v, v < 58 ^ L → (digits v).length ≤ L := by
  induction L with
  | zero => intro v h; have : v = 0 := by simpa using h
            subst this; rw [digits]; simp
  | succ L ih =>
    intro v h
    rw [digits]
    split
    · simp
    · have : v / 58 < 58 ^ L := by
        rw [Nat.div_lt_iff_lt_mul (by omega)]; rw [Nat.pow_succ] at h; exact h
      have := ih _ this
      simp only [List.length_append, List.length_cons, List.length_nil]; omega

theorem leVal_append_zero (l : Bytes) : leVal (l ++ [0]) = leVal l := by
  induction l with
  | nil => simp [leVal]
  | cons x t ih => simp only [List.cons_append, leVal, ih]

theorem beVal_dropWhile (a : Bytes) : beVal a = beVal (a.dropWhile (· == 0)) := by
  induction a with
  | nil => rfl
  | cons x t ih =>
    by_cases hx : (x == 0) = true
    · rw [List.dropWhile_cons_of_pos (p := (· == 0)) hx, ← ih]
      have : x = 0 := by simpa using hx
      subst this
      simp only [beVal, List.reverse_cons]
      exact leVal_append_zero _
    · rw [List.dropWhile_cons_of_neg (p := (· == 0)) hx]

theorem beVal_lt (a : Bytes) : beVal a < 256 ^ (a.length - leadingZeros a) := by
  rw [beVal_dropWhile]
  have h := leVal_lt (a.dropWhile (· == 0)).reverse
  have hl : (a.dropWhile (· == 0)).length = a.length - leadingZeros a := by
    have := congrArg List.length (List.takeWhile_append_dropWhile (p := (· == 0)) (l := a))
    simp only [List.length_append] at this
    unfold leadingZeros; omega
  simpa [beVal, hl] using h

theorem pow100 : (256 : Nat) ^ 100 < 58 ^ 138 := by decide

theorem pow_resid : ∀ r : Fin 100, (256 : Nat) ^ r.val ≤ 58 ^ (r.val * 138 / 100 + 1) := by decide +kernel

/-- 256^m ≤ 58^(m*138/100+1) for every m -/
theorem pow_bound (m : Nat) : (256 : Nat) ^ m ≤ 58 ^ (m * 138 / 100 + 1) := by
  have hq : m = 100 * (m / 100) + m % 100 := (Nat.div_add_mod m 100).symm
  generalize m / 100 = q at hq
  have hr : m % 100 < 100 := Nat.mod_lt _ (by omega)
  generalize m % 100 = r at hq hr
  subst hq
  have e : (100 * q + r) * 138 / 100 + 1 = 138 * q + (r * 138 / 100 + 1) := by omega
  rw [e, Nat.pow_add, Nat.pow_add, Nat.pow_mul, Nat.pow_mul]
  exact Nat.mul_le_mul (Nat.pow_le_pow_left (Nat.le_of_lt pow100) q) (pow_resid ⟨r, hr⟩)

theorem encode_length_le (a : Bytes) : (encode a).length ≤ a.length * 138 / 100 + 1 := by
  unfold encode
  simp only [List.length_append, List.length_replicate, List.length_map]
  have hz : leadingZeros a ≤ a.length := by
    have := congrArg List.length (List.takeWhile_append_dropWhile (p := (· == 0)) (l := a))
    simp only [List.length_append] at this
    unfold leadingZeros; omega
  have hv := Nat.lt_of_lt_of_le (beVal_lt a) (pow_bound (a.length - leadingZeros a))
  have := digits_length_le _ _ hv
  omega

end GocoinV.Base58
