/-
  Proofs.C13 — helper lemmas for Props/C13.lean (core only).
-/
import GocoinV.Model.WalletTx
namespace GocoinV.WalletTx

def owned (ks : List KeyRec) (u : Coin) : Bool := (pkscrToKey ks u.script).isSome
def valSum (cs : List Coin) : Nat := (cs.map (·.value)).sum
def ownedSum (ks : List KeyRec) (cs : List Coin) : Nat := valSum (cs.filter (owned ks))
def amtSum (ds : List Dest) : Nat := (ds.map (·.amount)).sum
def outSum (os : List TxOut) : Nat := (os.map (·.value)).sum
def outpoint (u : Coin) : Bytes × Nat := (u.txid, u.vout)

theorem u64_of_lt {n : Nat} (h : n < 2^64) : u64 n = n := Nat.mod_eq_of_lt h

/-! ### the selection loop -/

theorem select_spec (ks : List KeyRec) (useAll : Bool) (need : Nat) :
    ∀ (cs : List Coin) (sofar : Nat), sofar + ownedSum ks cs < 2^64 →
      (select ks useAll need cs sofar).total = sofar + valSum (select ks useAll need cs sofar).picked ∧
      (select ks useAll need cs sofar).picked.Sublist cs ∧
      (∀ u ∈ (select ks useAll need cs sofar).picked, owned ks u = true) ∧
      valSum (select ks useAll need cs sofar).picked ≤ ownedSum ks cs := by
  intro cs
  induction cs with
  | nil => intro sofar _; simp [select, valSum, ownedSum]
  | cons c cs ih =>
    intro sofar hlt
    unfold select
    cases hk : pkscrToKey ks c.script with
    | none =>
      have hown : owned ks c = false := by simp [owned, hk]
      have hs : ownedSum ks (c :: cs) = ownedSum ks cs := by simp [ownedSum, List.filter, hown]
      rw [hs] at hlt
      obtain ⟨h1, h2, h3, h4⟩ := ih sofar hlt
      simp only []
      refine ⟨h1, h2.cons _, h3, ?_⟩
      rw [hs]; exact h4
    | some k =>
      have hown : owned ks c = true := by simp [owned, hk]
      have hs : ownedSum ks (c :: cs) = c.value + ownedSum ks cs := by
        simp [ownedSum, List.filter, hown, valSum]
      rw [hs] at hlt
      have hu : u64 (sofar + c.value) = sofar + c.value := u64_of_lt (by omega)
      simp only [hu]
      split
      · refine ⟨by simp [valSum], ?_, ?_, ?_⟩
        · exact (List.Sublist.cons_cons c (List.nil_sublist cs))
        · intro u hu'; simp at hu'; subst hu'; exact hown
        · rw [hs]; simp [valSum]
      · obtain ⟨h1, h2, h3, h4⟩ := ih (sofar + c.value) (by omega)
        refine ⟨?_, h2.cons_cons _, ?_, ?_⟩
        · simp only [h1, valSum, List.map_cons, List.sum_cons]; omega
        · intro u hu'
          simp only [List.mem_cons] at hu'
          rcases hu' with rfl | hu'
          · exact hown
          · exact h3 u hu'
        · rw [hs]; simp only [valSum, List.map_cons, List.sum_cons] at h4 ⊢; omega

/-- the lines that stay in unspent.txt and the picked ones partition the list (as multisets of positions):
    lengths add up. -/
theorem select_lengths (ks : List KeyRec) (useAll : Bool) (need : Nat) :
    ∀ (cs : List Coin) (sofar : Nat),
      (select ks useAll need cs sofar).picked.length + (select ks useAll need cs sofar).rest.length = cs.length := by
  intro cs
  induction cs with
  | nil => intro _; simp [select]
  | cons c cs ih =>
    intro sofar
    unfold select
    cases hk : pkscrToKey ks c.script with
    | none => simp only [List.length_cons]; have := ih sofar; omega
    | some k =>
      simp only []
      split
      · simp; omega
      · simp only [List.length_cons]; have := ih (u64 (sofar + c.value)); omega

/-! ### destinations -/

abbrev PaysTo (d : Dest) (o : TxOut) : Prop := o.value = d.amount ∧ Addr.outScript d.addr = some o.script

/-- the outputs pay the destinations one by one, in order: same length, same amounts, the address's script -/
inductive PaysAll : List Dest → List TxOut → Prop
  | nil : PaysAll [] []
  | cons {d o ds os} : PaysTo d o → PaysAll ds os → PaysAll (d :: ds) (o :: os)

theorem destOuts_spec : ∀ (ds : List Dest) (os : List TxOut), destOuts ds = .ok os → PaysAll ds os := by
  intro ds
  induction ds with
  | nil => intro os h; simp [destOuts] at h; subst h; exact .nil
  | cons d ds ih =>
    intro os h
    unfold destOuts at h
    unfold outOf at h
    cases hs : Addr.outScript d.addr with
    | none => simp [hs] at h
    | some s =>
      simp only [hs] at h
      cases hr : destOuts ds with
      | error e => simp [hr] at h
      | ok os' =>
        simp only [hr, Except.ok.injEq] at h
        subst h
        exact .cons ⟨rfl, hs⟩ (ih os' hr)

theorem forall2_outSum : ∀ (ds : List Dest) (os : List TxOut), PaysAll ds os → outSum os = amtSum ds := by
  intro ds os h
  induction h with
  | nil => rfl
  | cons hd _ ih =>
    simp only [outSum, amtSum, List.map_cons, List.sum_cons] at ih ⊢
    rw [hd.1, ih]

/-! ### request parsing keeps spendBtc = Σ amounts (mod 2^64) -/

def ReqInv (st : Req) : Prop := st.2 = u64 (amtSum st.1)

theorem reqInv_step (st : Req) (d : Dest) (h : ReqInv st) :
    ReqInv (st.1 ++ [d], u64 (st.2 + d.amount)) := by
  unfold ReqInv at *
  simp only [amtSum, List.map_append, List.sum_append, List.map_cons, List.map_nil, List.sum_cons, List.sum_nil,
    Nat.add_zero]
  rw [h]
  unfold u64 amtSum
  omega

theorem parseSendItem_inv (H : Addr.Hashes) (c : Cfg) (i : Nat) (item : Bytes) (st st' : Req)
    (hi : ReqInv st) (h : parseSendItem H c i item st = .ok st') : ReqInv st' := by
  unfold parseSendItem at h
  split at h
  · split at h
    · simp at h
    · split at h
      · split at h
        · simp at h
        · simp only [Except.ok.injEq] at h
          subst h
          exact reqInv_step st _ hi
      · simp at h
  · simp at h

theorem parseSendItems_inv (H : Addr.Hashes) (c : Cfg) :
    ∀ (its : List Bytes) (i : Nat) (st st' : Req), ReqInv st → parseSendItems H c i its st = .ok st' → ReqInv st' := by
  intro its
  induction its with
  | nil => intro i st st' hi h; simp [parseSendItems] at h; subst h; exact hi
  | cons it its ih =>
    intro i st st' hi h
    unfold parseSendItems at h
    cases hp : parseSendItem H c i it st with
    | error e => simp [hp] at h
    | ok st1 =>
      simp only [hp] at h
      exact ih (i + 1) st1 st' (parseSendItem_inv H c i it st st1 hi hp) h

theorem parseBatchLine_inv (H : Addr.Hashes) (c : Cfg) (line : Bytes) (st st' : Req)
    (hi : ReqInv st) (h : parseBatchLine H c line st = .ok st') : ReqInv st' := by
  unfold parseBatchLine at h
  split at h
  · split at h
    · simp at h
    · split at h
      · simp only [Except.ok.injEq] at h; subst h; exact hi
      · split at h
        · simp at h
        · split at h
          · simp only [Except.ok.injEq] at h
            subst h
            exact reqInv_step st _ hi
          · simp at h
  · simp at h

theorem parseBatch_inv (H : Addr.Hashes) (c : Cfg) :
    ∀ (ls : List Bytes) (st st' : Req), ReqInv st → parseBatch H c ls st = .ok st' → ReqInv st' := by
  intro ls
  induction ls with
  | nil => intro st st' hi h; simp [parseBatch] at h; subst h; exact hi
  | cons l ls ih =>
    intro st st' hi h
    unfold parseBatch at h
    cases hp : parseBatchLine H c l st with
    | error e => simp [hp] at h
    | ok st1 =>
      simp only [hp] at h
      exact ih st1 st' (parseBatchLine_inv H c l st st1 hi hp) h

theorem sendRequest_inv (H : Addr.Hashes) (c : Cfg) (send : Option Bytes) (batch : Option (List Bytes)) (req : Req)
    (h : sendRequest H c send batch = .ok req) : ReqInv req := by
  unfold sendRequest at h
  have h0 : ReqInv (([], 0) : Req) := by simp [ReqInv, amtSum, u64]
  cases send with
  | none =>
    simp only at h
    cases batch with
    | none => simp only [Except.ok.injEq] at h; subst h; exact h0
    | some ls => exact parseBatch_inv H c ls _ _ h0 h
  | some s =>
    simp only at h
    cases hp : parseSpend H c s ([], 0) with
    | error e => simp [hp] at h
    | ok st =>
      simp only [hp] at h
      have h1 : ReqInv st := parseSendItems_inv H c _ 0 _ _ h0 hp
      cases batch with
      | none => simp only [Except.ok.injEq] at h; subst h; exact h1
      | some ls => exact parseBatch_inv H c ls _ _ h1 h

/-! ### make_signed_tx up to signing -/

theorem build_spec (H : Addr.Hashes) (c : Cfg) (ks : List KeyRec) (coins : List Coin) (req : Req) (b : Built)
    (hb : build H c ks coins req = .ok b) (hbal : ownedSum ks coins < 2^64) :
    ∃ outs chg,
      PaysAll req.1 outs ∧
      b.tx.outs = outs ++ chg ++ (if c.msg.isEmpty then [] else [{ value := 0, script := msgScript c.msg }]) ∧
      (b.change = 0 → chg = []) ∧
      (0 < b.change → ∃ a s, changeAddr H c ks coins = .ok a ∧ Addr.outScript a = some s ∧
          chg = [{ value := b.change, script := s }]) ∧
      b.tx.ins = b.spent.map (fun u => { txid := u.txid, vout := u.vout, scriptSig := [], sequence := c.seq }) ∧
      b.tx.version = c.version ∧ b.tx.lockTime = c.lockTime ∧ b.tx.wit = none ∧
      b.spent.Sublist coins ∧ (∀ u ∈ b.spent, owned ks u = true) ∧
      valSum b.spent = u64 (req.2 + c.fee) + b.change := by
  unfold build at hb
  simp only [] at hb
  obtain ⟨hs1, hs2, hs3, _⟩ := select_spec ks c.useAll (u64 (req.2 + c.fee)) coins 0 (by omega)
  split at hb
  · simp at hb
  · rename_i hge
    cases hd : destOuts req.1 with
    | error e => simp [hd] at hb
    | ok outs =>
      simp only [hd] at hb
      split at hb
      · simp at hb
      · rename_i chg hchg
        simp only [Except.ok.injEq] at hb
        subst hb
        refine ⟨outs, chg, destOuts_spec _ _ hd, rfl, ?_, ?_, rfl, rfl, rfl, rfl, hs2, hs3, ?_⟩
        · intro h0
          simp only at h0
          have : ¬ ((select ks c.useAll (u64 (req.2 + c.fee)) coins 0).total - u64 (req.2 + c.fee) > 0) := by omega
          simp only [this, ↓reduceIte, Except.ok.injEq] at hchg
          exact hchg.symm
        · intro hpos
          simp only at hpos
          have : ((select ks c.useAll (u64 (req.2 + c.fee)) coins 0).total - u64 (req.2 + c.fee) > 0) := hpos
          simp only [this, ↓reduceIte] at hchg
          cases ha : changeAddr H c ks coins with
          | error e => simp [ha] at hchg
          | ok a =>
            simp only [ha] at hchg
            unfold outOf at hchg
            cases hsc : Addr.outScript a with
            | none => simp [hsc] at hchg
            | some sc =>
              simp only [hsc, Except.ok.injEq] at hchg
              exact ⟨a, sc, rfl, hsc, hchg.symm⟩
        · simp only
          rw [Nat.zero_add] at hs1
          omega

/-- funds insufficient ⇒ make_signed_tx exits before anything is built -/
theorem build_insufficient (H : Addr.Hashes) (c : Cfg) (ks : List KeyRec) (coins : List Coin) (req : Req)
    (hnw : req.2 + c.fee < 2^64) (hlow : ownedSum ks coins < req.2 + c.fee) :
    build H c ks coins req = .error .exit1 := by
  unfold build
  simp only []
  obtain ⟨hs1, _, _, hs4⟩ := select_spec ks c.useAll (u64 (req.2 + c.fee)) coins 0 (by omega)
  rw [u64_of_lt hnw] at hs1 hs4 ⊢
  rw [Nat.zero_add] at hs1
  have : (select ks c.useAll (req.2 + c.fee) coins 0).total < req.2 + c.fee := by omega
  simp [this]

/-! ### signing touches nothing but scriptSig and witness -/

theorem applyIns_outpoints : ∀ (ins : List TxIn) (rs : List InSign),
    (applyIns ins rs).map (fun i => (i.txid, i.vout, i.sequence)) = ins.map (fun i => (i.txid, i.vout, i.sequence)) := by
  intro ins
  induction ins with
  | nil => intro rs; simp [applyIns]
  | cons i is ih =>
    intro rs
    cases rs with
    | nil => simp [applyIns]
    | cons r rs => simp [applyIns, ih]

theorem signTx_skeleton (H : Addr.Hashes) (c : Cfg) (ks : List KeyRec) (sig : Skeleton → SigFn) (ms : MsFn)
    (t : Tx) (spent : List (Option TxOut)) : skeleton (signTx H c ks sig ms t spent).1 = skeleton t := by
  simp [signTx, skeleton, applyIns_outpoints]

end GocoinV.WalletTx
