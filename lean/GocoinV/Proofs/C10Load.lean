/-
  Proofs.C10Load — the loader with its retry (Model/UtxoLoad.lean) loads exactly the first readable file.
-/
import GocoinV.Model.UtxoLoad
import GocoinV.Proofs.C10Snap
namespace GocoinV.UtxoRec
open GocoinV.CompactSize

theorem slots_length (b : List Bytes) (n : Nat) : (slots b n).length = n := by
  simp [slots]; omega

theorem slots_zero (b : List Bytes) : slots b 0 = [] := by simp [slots]

theorem slots_setSlot (b : List Bytes) (i : Nat) (x : Bytes) :
    slots (setSlot b i x) (i + 1) = slots b i ++ [x] := by
  have hl := slots_length b i
  unfold setSlot
  generalize slots b i = L at hl
  have h1 : (L ++ x :: List.drop (i + 1) b).take (i + 1) = L ++ [x] := by
    rw [List.take_append]
    have : i + 1 - L.length = 1 := by omega
    rw [List.take_of_length_le (by omega), this]; simp
  have h2 : i + 1 - (L ++ x :: List.drop (i + 1) b).length = 0 := by simp; omega
  unfold slots
  rw [h1, h2]; simp

theorem dataSizeOf_cons (x : Bytes) (l : List Bytes) : dataSizeOf (x :: l) = x.length + dataSizeOf l := by
  simp [dataSizeOf]

theorem decRecs_length : ∀ (n : Nat) (b : Bytes) (recs : List Bytes), decRecs n b = some recs → recs.length = n
  | 0, _, recs, h => by simp [decRecs] at h; subst h; rfl
  | n + 1, b, recs, h => by
    simp only [decRecs] at h
    split at h
    · cases h
    · split at h
      · cases h
      · split at h
        · cases h
        · rename_i l hl
          injection h with h; subst h
          simp [decRecs_length n _ l hl]

theorem readVLen_length_lt (b : Bytes) (le : Nat) (r : Bytes) (h : readVLen b = some (le, r)) : r.length < b.length := by
  unfold readVLen at h
  split at h
  · cases h
  · rename_i hd t
    split at h
    · injection h with h; injection h with _ h; subst h; simp
    · simp only at h
      split at h
      · cases h
      · injection h with h; injection h with _ h; subst h
        have := Nat.two_pow_pos (2 - (0xff - hd.toNat))
        simp [Nat.shiftLeft_eq] at *; omega

theorem decRecs_count_le : ∀ (n : Nat) (b : Bytes) (recs : List Bytes), decRecs n b = some recs → n ≤ b.length
  | 0, _, _, _ => Nat.zero_le _
  | n + 1, b, recs, h => by
    simp only [decRecs] at h
    split at h
    · cases h
    · rename_i le r hv
      split at h
      · cases h
      · split at h
        · cases h
        · rename_i l hl
          have := decRecs_count_le n _ l hl
          have := readVLen_length_lt b le r hv
          simp only [List.length_drop] at *
          omega

/-- a readable record area: the loop ends normally, the packs sent plus the unsent rest are what was there before
    followed by the records of the file, in order -/
theorem readLoop_ok (sh : RetryShape) (fsize : Nat) :
    ∀ (n : Nat) (b : Bytes) (st : LoopSt) (recs : List Bytes), decRecs n b = some recs → st.recIdx < sh.pack →
      b.length ≤ fsize →
      ∃ st', readLoop sh fsize n b st = (true, st') ∧ st'.recIdx < sh.pack ∧
        st'.ins ++ slots st'.cur st'.recIdx = st.ins ++ slots st.cur st.recIdx ++ recs ∧
        st'.dataSize = st.dataSize + dataSizeOf recs
  | 0, _, st, recs, h, hi, _ => by
    simp [decRecs] at h; subst h
    exact ⟨st, rfl, hi, by simp, by simp [dataSizeOf]⟩
  | n + 1, b, st, recs, h, hi, hb => by
    simp only [decRecs] at h
    split at h
    · cases h
    · rename_i le r hv
      split at h
      · cases h
      · rename_i hs
        split at h
        · cases h
        · rename_i l hl
          injection h with h; subst h
          have hle : le ≤ r.length := (shorter_false_iff r le).mp (by simpa using hs)
          have hlen : (r.take le).length = le := by simp; omega
          have hrl := readVLen_length_lt b le r hv
          have hg : (sh.boundsLen && decide (fsize < le)) = false := by
            have : ¬ fsize < le := by omega
            simp [this]
          have hb' : (r.drop le).length ≤ fsize := by simp; omega
          simp only [readLoop, hv, hs, hg]
          by_cases hr : st.recIdx + 1 = sh.pack
          · simp only [hr, ↓reduceIte]
            have hp : 0 < sh.pack := by omega
            obtain ⟨st', e, hi', hins, hds⟩ := readLoop_ok sh fsize n (r.drop le)
              ⟨0, (st.poolIdx + 1) % sh.buffers, updPool st.pool st.poolIdx (setSlot st.cur st.recIdx (r.take le)),
                updPool st.pool st.poolIdx (setSlot st.cur st.recIdx (r.take le)) ((st.poolIdx + 1) % sh.buffers),
                st.ins ++ slots (setSlot st.cur st.recIdx (r.take le)) sh.pack, st.dataSize + le⟩ l hl hp hb'
            refine ⟨st', by simpa using e, hi', ?_, ?_⟩
            · rw [hins]; simp only [slots_zero, List.append_nil]
              rw [← hr, slots_setSlot]; simp
            · rw [hds, dataSizeOf_cons, hlen]; simp only; omega
          · simp only [hr, ↓reduceIte]
            obtain ⟨st', e, hi', hins, hds⟩ := readLoop_ok sh fsize n (r.drop le)
              ⟨st.recIdx + 1, st.poolIdx, st.pool, setSlot st.cur st.recIdx (r.take le), st.ins, st.dataSize + le⟩ l hl
              (by simp only; omega) hb'
            refine ⟨st', by simpa using e, hi', ?_, ?_⟩
            · rw [hins]; simp only; rw [slots_setSlot]; simp
            · rw [hds, dataSizeOf_cons, hlen]; simp only; omega

/-- an unreadable record area: `goto fatal_error` -/
theorem readLoop_fail (sh : RetryShape) (fsize : Nat) :
    ∀ (n : Nat) (b : Bytes) (st : LoopSt), decRecs n b = none → (readLoop sh fsize n b st).1 = false
  | 0, _, _, h => by simp [decRecs] at h
  | n + 1, b, st, h => by
    simp only [decRecs] at h
    split at h
    · rename_i hv; simp [readLoop, hv]
    · rename_i le r hv
      split at h
      · rename_i hs
        simp only [readLoop, hv, hs]
        split <;> simp
      · rename_i hs
        split at h
        · rename_i hn
          simp only [readLoop, hv, hs]
          split
          · rfl
          · by_cases hr : st.recIdx + 1 = sh.pack
            · simp only [hr, ↓reduceIte, Bool.false_eq_true]; exact readLoop_fail sh fsize n _ _ hn
            · simp only [hr, ↓reduceIte, Bool.false_eq_true]; exact readLoop_fail sh fsize n _ _ hn
        · cases h

/-- nothing of an earlier attempt is left in the variables -/
def LoadVars.Clean (v : LoadVars) : Prop := v.recIdx = 0 ∧ v.dataSize = 0 ∧ v.totalTxs = 0

/-- the clean-up that makes a retry start like a first attempt -/
def RetryShape.Cleans (sh : RetryShape) : Prop :=
  0 < sh.pack ∧ sh.rewindRecIdx = true ∧ sh.resetDataSize = true ∧ sh.resetTotalTxs = true ∧ sh.freshMaps = true

theorem attempt_ok (sh : RetryShape) (hc : sh.Cleans) (v : LoadVars) (hv : v.Clean) (f : Bytes) (s : Snap)
    (h : snapDecode f = some s) : attempt sh v (some f) = .ok (loadedOf s) := by
  obtain ⟨hp, _, _, _, hf⟩ := hc
  obtain ⟨h0, hd, _⟩ := hv
  unfold snapDecode at h
  unfold attempt
  split at h
  · cases h
  · rename_i hl
    simp only [hl, ↓reduceIte]
    simp only at h
    split at h
    · cases h
    · rename_i recs hr
      injection h with h; subst h
      have hcnt := decRecs_count_le _ _ recs hr
      have hg : (sh.boundsCount && decide (f.length < leVal ((f.drop 40).take 8))) = false := by
        have : ¬ f.length < leVal ((f.drop 40).take 8) := by simp only [List.length_drop] at hcnt; omega
        simp [this]
      simp only [hg, Bool.false_eq_true, ↓reduceIte]
      obtain ⟨st', e, _, hins, hds⟩ := readLoop_ok sh f.length _ _
        ⟨v.recIdx, v.poolIdx, v.pool, v.pool v.poolIdx, if sh.freshMaps = true then [] else v.ins, v.dataSize⟩ recs hr
        (by simp only; omega) (by simp)
      simp only [h0, hd, hf, ↓reduceIte, slots_zero, List.nil_append, Nat.zero_add, List.append_nil] at e hins hds
      simp only [h0, hd, hf, ↓reduceIte, e, loadedOf, hins, hds, decRecs_length _ _ _ hr]

theorem attempt_fail (sh : RetryShape) (hc : sh.Cleans) (v : LoadVars) (hv : v.Clean) (file : Option Bytes)
    (h : file.bind snapDecode = none) : ∃ v', attempt sh v file = .fail v' ∧ v'.Clean := by
  obtain ⟨_, hr, hd, htt, _⟩ := hc
  cases file with
  | none => exact ⟨v, rfl, hv⟩
  | some f =>
    simp only [Option.bind_some] at h
    unfold snapDecode at h
    unfold attempt
    split at h
    · rename_i hl; exact ⟨v, by simp [hl], hv⟩
    · rename_i hl
      simp only [hl, ↓reduceIte]
      simp only at h
      split at h
      · rename_i hn
        split
        · exact ⟨v, rfl, hv⟩
        generalize hres : readLoop sh _ _ _ _ = res
        have h1 : res.1 = false := by rw [← hres]; exact readLoop_fail sh _ _ _ _ hn
        obtain ⟨ok, st⟩ := res
        simp only at h1; subst h1
        exact ⟨_, rfl, by simp [LoadVars.Clean, hr, hd, htt]⟩
      · cases h

theorem loadDir_exact (sh : RetryShape) (hc : sh.Cleans) (db old : Option Bytes) (c : Bool) :
    loadDir sh db old c = loadedOf (loadDirSpec db old c) := by
  have hi : LoadVars.init.Clean := ⟨rfl, rfl, rfl⟩
  unfold loadDir loadDirSpec
  cases h1 : db.bind snapDecode with
  | some s =>
    obtain ⟨f, rfl, hf⟩ : ∃ f, db = some f ∧ snapDecode f = some s := by
      cases db with
      | none => simp at h1
      | some f => exact ⟨f, rfl, by simpa using h1⟩
    simp [attempt_ok sh hc _ hi f s hf]
  | none =>
    obtain ⟨v1, e1, hv1⟩ := attempt_fail sh hc _ hi db h1
    simp only [e1]
    cases h2 : old.bind snapDecode with
    | some s =>
      obtain ⟨f, rfl, hf⟩ : ∃ f, old = some f ∧ snapDecode f = some s := by
        cases old with
        | none => simp at h2
        | some f => exact ⟨f, rfl, by simpa using h2⟩
      simp [attempt_ok sh hc _ hv1 f s hf]
    | none =>
      obtain ⟨v2, e2, hv2⟩ := attempt_fail sh hc _ hv1 old h2
      simp only [e2]
      obtain ⟨_, hd, ht⟩ := hv2
      simp [loadedOf, hd, ht, dataSizeOf]

/-! ### what the loader asks the allocator for -/

theorem mallocs_le (sh : RetryShape) (hb : sh.boundsLen = true) (fsize : Nat) :
    ∀ (n : Nat) (b : Bytes), ∀ le ∈ mallocs sh fsize n b, le ≤ fsize
  | 0, _, le, h => by simp [mallocs] at h
  | n + 1, b, x, h => by
    simp only [mallocs] at h
    split at h
    · simp at h
    · rename_i le r hv
      by_cases hg : fsize < le
      · simp [hb, hg] at h
      · simp only [hb, hg, decide_false, Bool.and_false, Bool.false_eq_true, ↓reduceIte] at h
        split at h
        · simp at h; omega
        · simp only [List.mem_cons] at h
          rcases h with h | h
          · omega
          · exact mallocs_le sh hb fsize n _ x h

theorem mallocs_sum (sh : RetryShape) (hb : sh.boundsLen = true) (fsize : Nat) :
    ∀ (n : Nat) (b : Bytes), (mallocs sh fsize n b).sum ≤ b.length + fsize
  | 0, _ => by simp [mallocs]
  | n + 1, b => by
    simp only [mallocs]
    split
    · simp
    · rename_i le r hv
      have hrl := readVLen_length_lt b le r hv
      by_cases hg : fsize < le
      · simp [hb, hg]
      · simp only [hb, hg, decide_false, Bool.and_false, Bool.false_eq_true, ↓reduceIte]
        split
        · simp; omega
        · rename_i hs
          have hle : le ≤ r.length := (shorter_false_iff r le).mp (by simpa using hs)
          have := mallocs_sum sh hb fsize n (r.drop le)
          simp only [List.sum_cons, List.length_drop] at *
          omega

/-- on a readable record area the requests are exactly the lengths of the records -/
theorem mallocs_of_ok (sh : RetryShape) (fsize : Nat) :
    ∀ (n : Nat) (b : Bytes) (recs : List Bytes), decRecs n b = some recs → b.length ≤ fsize →
      mallocs sh fsize n b = recs.map List.length
  | 0, _, recs, h, _ => by simp [decRecs] at h; subst h; rfl
  | n + 1, b, recs, h, hb => by
    simp only [decRecs] at h
    split at h
    · cases h
    · rename_i le r hv
      split at h
      · cases h
      · rename_i hs
        split at h
        · cases h
        · rename_i l hl
          injection h with h; subst h
          have hle : le ≤ r.length := (shorter_false_iff r le).mp (by simpa using hs)
          have hrl := readVLen_length_lt b le r hv
          have hg : ¬ fsize < le := by omega
          have ih := mallocs_of_ok sh fsize n (r.drop le) l hl (by simp; omega)
          simp only [mallocs, hv, hg, decide_false, Bool.and_false, Bool.false_eq_true, ↓reduceIte, hs, ih,
            List.map_cons, List.length_take]
          congr 1; omega

theorem memAsk_bounded (sh : RetryShape) (hc : sh.boundsCount = true) (hl : sh.boundsLen = true) (f : Bytes) :
    (∀ c, (memAsk sh (some f)).mapsFor = some c → c ≤ f.length) ∧
    (∀ le ∈ (memAsk sh (some f)).mallocs, le ≤ f.length) ∧
    (memAsk sh (some f)).mallocs.sum ≤ 2 * f.length := by
  unfold memAsk
  by_cases h48 : f.length < 48
  · simp [h48]
  · by_cases hg : f.length < leVal ((f.drop 40).take 8)
    · simp [h48, hc, hg]
    · simp only [h48, ↓reduceIte, hc, hg, decide_false, Bool.and_false, Bool.false_eq_true]
      refine ⟨fun c h => by injection h with h; omega, mallocs_le sh hl _ _ _, ?_⟩
      have := mallocs_sum sh hl f.length (leVal ((f.drop 40).take 8)) (f.drop 48)
      simp only [List.length_drop] at this
      omega

/-! ### a snapshot file that was cut short is never taken for a complete one -/

theorem readVLen_take_putULe (n k : Nat) (hk : k < (putULe n).length) :
    readVLen ((putULe n).take k) = none := by
  cases k with
  | zero => simp [readVLen]
  | succ j =>
    unfold putULe at hk ⊢
    by_cases h1 : n < 0xfd
    · simp [h1] at hk
    · by_cases h2 : n < 0x10000
      · simp only [h1, h2, ↓reduceIte, List.length_cons, leBytes_length] at hk
        simp only [h1, h2, ↓reduceIte, List.take_succ_cons, readVLen]
        have hs : shorter ((leBytes 2 n).take j) 2 = true := (shorter_iff _ _).mpr (by simp; omega)
        simp [hs]
      · by_cases h3 : n < 0x100000000
        · simp only [h1, h2, h3, ↓reduceIte, List.length_cons, leBytes_length] at hk
          simp only [h1, h2, h3, ↓reduceIte, List.take_succ_cons, readVLen]
          have hs : shorter ((leBytes 4 n).take j) 4 = true := (shorter_iff _ _).mpr (by simp; omega)
          simp [hs]
        · simp only [h1, h2, h3, ↓reduceIte, List.length_cons, leBytes_length] at hk
          simp only [h1, h2, h3, ↓reduceIte, List.take_succ_cons, readVLen]
          have hs : shorter ((leBytes 8 n).take j) 8 = true := (shorter_iff _ _).mpr (by simp; omega)
          simp [hs]

theorem decRecs_take_none (recs : List Bytes) (hr : ∀ r ∈ recs, r.length < 2 ^ 64) :
    ∀ k, k < (encRecs recs).length → decRecs recs.length ((encRecs recs).take k) = none := by
  induction recs with
  | nil => intro k hk; simp [encRecs] at hk
  | cons r t ih =>
    intro k hk
    have ht : ∀ r ∈ t, r.length < 2 ^ 64 := fun x hx => hr x (List.mem_cons_of_mem _ hx)
    simp only [encRecs, List.length_append] at hk
    simp only [encRecs, List.length_cons, decRecs]
    by_cases h1 : k < (putULe r.length).length
    · rw [List.take_append_of_le_length (by omega), readVLen_take_putULe _ _ h1]
    · rw [List.take_append, List.take_of_length_le (by omega),
        readVLen_putULe r.length (hr r (by simp))]
      simp only
      generalize hk' : k - (putULe r.length).length = k'
      by_cases h2 : k' < r.length
      · have hs : shorter ((r ++ encRecs t).take k') r.length = true :=
          (shorter_iff _ _).mpr (by simp; omega)
        simp [hs]
      · have e : (r ++ encRecs t).take k' = r ++ (encRecs t).take (k' - r.length) := by
          rw [List.take_append, List.take_of_length_le (by omega)]
        have hs : shorter (r ++ (encRecs t).take (k' - r.length)) r.length = false :=
          shorter_eq_false _ _ (by simp)
        rw [e]
        simp only [hs, Bool.false_eq_true, ↓reduceIte, List.drop_left', ih ht (k' - r.length) (by omega)]

theorem snapDecode_frame (u cnt : Nat) (hash body : Bytes) (hu : u < 2 ^ 64) (hc : cnt < 2 ^ 64)
    (hh : hash.length = 32) :
    snapDecode (leBytes 8 u ++ (hash ++ (leBytes 8 cnt ++ body))) =
      (decRecs cnt body).map fun recs => ⟨u / 2 ^ 63 % 2 == 1, u % 2 ^ 32, hash, recs⟩ := by
  unfold snapDecode
  have hlen : ¬ ((leBytes 8 u ++ (hash ++ (leBytes 8 cnt ++ body))).length < 48) := by simp [hh]; omega
  have t8 : (leBytes 8 u ++ (hash ++ (leBytes 8 cnt ++ body))).take 8 = leBytes 8 u := by
    rw [List.take_append_of_le_length (by simp)]; exact List.take_of_length_le (by simp)
  have d8 : (leBytes 8 u ++ (hash ++ (leBytes 8 cnt ++ body))).drop 8 = hash ++ (leBytes 8 cnt ++ body) := by
    simp
  have d40 : (leBytes 8 u ++ (hash ++ (leBytes 8 cnt ++ body))).drop 40 = leBytes 8 cnt ++ body := by
    have e : 40 = 8 + 32 := rfl
    rw [e, ← List.drop_drop, d8, ← hh]; simp
  have d48 : (leBytes 8 u ++ (hash ++ (leBytes 8 cnt ++ body))).drop 48 = body := by
    have e : 48 = 40 + 8 := rfl
    rw [e, ← List.drop_drop, d40]
    simp
  have th : (hash ++ (leBytes 8 cnt ++ body)).take 32 = hash := by rw [← hh]; simp
  have tc : (leBytes 8 cnt ++ body).take 8 = leBytes 8 cnt := by
    rw [List.take_append_of_le_length (by simp)]; exact List.take_of_length_le (by simp)
  have p8 : (256 : Nat) ^ 8 = 2 ^ 64 := by decide
  simp only [hlen, ↓reduceIte, t8, d8, d40, d48, th, tc, leVal_leBytes, p8, Nat.mod_eq_of_lt hu, Nat.mod_eq_of_lt hc]
  cases decRecs cnt body <;> rfl

theorem snapDecode_take_none (s : Snap) (h : WFSnap s) (k : Nat) (hk : k < (snapEncode s).length) :
    snapDecode ((snapEncode s).take k) = none := by
  obtain ⟨hh, hhash, hcnt, hrecs⟩ := h
  by_cases h48 : k < 48
  · unfold snapDecode
    have : ((snapEncode s).take k).length < 48 := by simp; omega
    simp only [this, ↓reduceIte]
  · unfold snapEncode at hk ⊢
    generalize hu : s.height + (if s.compressed then 2 ^ 63 else 0) = u at hk ⊢
    have hu64 : u < 2 ^ 64 := by subst hu; split <;> omega
    simp only [List.length_append, leBytes_length, hhash] at hk
    have e : (leBytes 8 u ++ (s.hash ++ (leBytes 8 s.recs.length ++ encRecs s.recs))).take k
        = leBytes 8 u ++ (s.hash ++ (leBytes 8 s.recs.length ++ (encRecs s.recs).take (k - 48))) := by
      rw [List.take_append, List.take_of_length_le (by simp; omega), List.take_append,
        List.take_of_length_le (by simp [hhash]; omega), List.take_append, List.take_of_length_le (by simp [hhash]; omega)]
      simp only [leBytes_length, hhash]
      have : k - 8 - 32 - 8 = k - 48 := by omega
      rw [this]
    rw [e, snapDecode_frame u _ _ _ hu64 hcnt hhash, decRecs_take_none s.recs hrecs (k - 48) (by omega)]
    rfl

end GocoinV.UtxoRec
