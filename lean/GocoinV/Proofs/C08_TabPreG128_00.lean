/- C08 table proof chunk (written once by Proofs/mk_c08_tab.py; static). -/
import GocoinV.Proofs.C08_TabDefs
import GocoinV.Gen.TablesPreG12800
namespace GocoinV.C08
open GocoinV.Gen

theorem preG128_00 : chainOK (Secp.dbl g128) (pts Tables.preG12800) = true := by decide +kernel
theorem preG128_00_ne : pts Tables.preG12800 ≠ [] := by decide +kernel

end GocoinV.C08
