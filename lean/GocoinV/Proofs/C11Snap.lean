/-
  Proofs.C11Snap — the bookkeeping invariants of the snapshot protocol (Model/Conc.lean, namespace Snap)
  that chain saver → data_channel → file goroutine → rename (`FileInv`), and the control invariants
  (db.Mutex ownership, writingDone/lastFileClosed counters, abort token) needed for deadlock freedom (`CtlInv`).
  Both are preserved by every step, hence hold in every reachable state.
-/
import GocoinV.Proofs.C11
namespace GocoinV.Proofs.C11.SnapC
open GocoinV.Conc GocoinV.Conc.Snap GocoinV.Proofs.C11.SnapP

/-- the saver is in the part of `save` in which its file goroutine is alive and waits for it -/
def paired : SPc → Bool | .loop | .fin _ => true | _ => false

/-- exit token already sent: either "abort", or "done" with every chunk accounted for -/
def unpairedOK (st : St) (fl : Filer) : Prop :=
  st.exitCh = some true ∨ (st.exitCh = some false ∧ fl.content.length + st.dataCh.length = fl.tot)

structure FileInv (st : St) : Prop where
  vis : ∀ v, v ∈ st.visible → v.good = true
  fcl : st.fclosed = if st.f.isSome then 1 else 0
  pair : ∀ sv, st.s = some sv → paired sv.pc = true → ∃ fl, st.f = some fl ∧ fl.pc = .run
  fl_hst : ∀ fl, st.f = some fl → fl.hst = true
  fl_cont : ∀ fl, st.f = some fl → ∀ c, c ∈ fl.content → c = fl.hv
  fl_ren : ∀ fl, st.f = some fl → fl.pc = .rename → fl.content.length = fl.tot
  fl_data : ∀ fl, st.f = some fl → fl.pc = .run → ∀ c, c ∈ st.dataCh → c = fl.hv
  ch_loop : ∀ fl sv, st.f = some fl → fl.pc = .run → st.s = some sv → sv.pc = .loop →
      st.exitCh = none ∧ st.ver = fl.hv ∧ fl.content.length + st.dataCh.length + sv.k = fl.tot
  ch_finF : ∀ fl sv, st.f = some fl → fl.pc = .run → st.s = some sv → sv.pc = .fin false →
      st.exitCh = none ∧ fl.content.length + st.dataCh.length = fl.tot
  ch_finT : ∀ fl sv, st.f = some fl → fl.pc = .run → st.s = some sv → sv.pc = .fin true → st.exitCh = none
  ch_unp : ∀ fl, st.f = some fl → fl.pc = .run → (∀ sv, st.s = some sv → paired sv.pc = false) → unpairedOK st fl

theorem fileInv_init (mp xp cap) : FileInv (init mp xp cap) := by
  constructor <;> simp [init]

/-! ### frame lemmas: what the main / auxiliary goroutine cannot touch -/

structure Frame (st st' : St) : Prop where
  f : st'.f = st.f
  dataCh : st'.dataCh = st.dataCh
  exitCh : st'.exitCh = st.exitCh
  visible : st'.visible = st.visible
  fclosed : st'.fclosed = st.fclosed
  cap : st'.cap = st.cap
  s : st'.s = st.s ∨ (st.s = none ∧ st'.s = some { pc := .waitFile })
  ver : st'.ver = st.ver ∨ st.mpc = .cMut1 ∨ st.mpc = .cMut2

theorem abortStep_frame (st st' : St) (a a' : APc) (h : abortStep st a = some (st', a')) :
    st'.f = st.f ∧ st'.dataCh = st.dataCh ∧ st'.exitCh = st.exitCh ∧ st'.visible = st.visible ∧
    st'.fclosed = st.fclosed ∧ st'.cap = st.cap ∧ st'.s = st.s ∧ st'.ver = st.ver ∧ st'.mpc = st.mpc ∧
    st'.xpc = st.xpc ∧ st'.mtx = st.mtx ∧ st'.wdone = st.wdone ∧ st'.mprog = st.mprog ∧ st'.xprog = st.xprog ∧
    st'.wip = st.wip ∧ st'.stable = st.stable := by
  cases a <;> simp only [abortStep] at h
  · simp only [Option.some.injEq, Prod.mk.injEq] at h; obtain ⟨rfl, _⟩ := h; simp
  · split at h
    · cases h
    · simp only [Option.some.injEq, Prod.mk.injEq] at h; obtain ⟨rfl, _⟩ := h; simp
  · split at h
    · simp only [Option.some.injEq, Prod.mk.injEq] at h; obtain ⟨rfl, _⟩ := h; simp
    · cases h
  · simp only [Option.some.injEq, Prod.mk.injEq] at h; obtain ⟨rfl, _⟩ := h; simp
  · cases h

theorem stepM_frame (st st' : St) (h : stepM st = some st') : Frame st st' := by
  unfold stepM at h
  split at h
  · -- next
    split at h
    · cases h
    · rename_i op r _
      simp only [Option.some.injEq] at h
      subst h
      cases op <;> constructor <;> simp
  all_goals first
    | (simp only [Option.map_eq_some_iff] at h
       obtain ⟨⟨st1, a1⟩, hab, rfl⟩ := h
       obtain ⟨h1, h2, h3, h4, h5, h6, h7, h8, _⟩ := abortStep_frame _ _ _ _ hab
       constructor <;> simp [*])
    | (split at h
       · simp only [Option.some.injEq] at h
         subst h
         constructor <;> simp_all
       · cases h)
    | (simp only [Option.some.injEq] at h
       subst h
       constructor <;> (try split) <;> simp_all)
    | cases h

theorem stepX_frame (st st' : St) (h : stepX st = some st') : Frame st st' := by
  unfold stepX at h
  split at h
  · split at h
    · cases h
    all_goals (simp only [Option.some.injEq] at h; subst h; constructor <;> simp)
  all_goals first
    | (simp only [Option.map_eq_some_iff] at h
       obtain ⟨⟨st1, a1⟩, hab, rfl⟩ := h
       obtain ⟨h1, h2, h3, h4, h5, h6, h7, h8, _⟩ := abortStep_frame _ _ _ _ hab
       constructor <;> simp [*])
    | (split at h
       · simp only [Option.some.injEq] at h
         subst h
         constructor <;> simp_all
       · cases h)
    | (simp only [Option.some.injEq] at h
       subst h
       constructor <;> simp_all)

theorem stepX_mpc (st st' : St) (h : stepX st = some st') : st'.mpc = st.mpc := by
  unfold stepX at h
  split at h
  · split at h
    · cases h
    all_goals (simp only [Option.some.injEq] at h; subst h; rfl)
  all_goals first
    | (simp only [Option.map_eq_some_iff] at h
       obtain ⟨⟨st1, a1⟩, hab, rfl⟩ := h
       have := abortStep_frame _ _ _ _ hab
       simp [this])
    | (split at h
       · simp only [Option.some.injEq] at h
         subst h
         rfl
       · cases h)
    | (simp only [Option.some.injEq] at h
       subst h
       rfl)

/-- a step that satisfies the frame conditions (and changes `ver` only inside the mutation part, where by
    `SnapP.inv` the saver is not reading) preserves the file invariant -/
theorem fileInv_frame (st st' : St) (hi : inv st) (h : FileInv st) (fr : Frame st st') : FileInv st' := by
  obtain ⟨ff, fd, fe, fv, fc, _, fs, fver⟩ := fr
  have hver : ∀ sv, st.s = some sv → sv.pc = .loop → st'.ver = st.ver := by
    intro sv hsv hpc
    rcases fver with h1 | h1 | h1
    · exact h1
    · have := hi.2.2.1 sv hsv (by simp [h1, mCrit]); simp [reading, hpc] at this
    · have := hi.2.2.1 sv hsv (by simp [h1, mCrit]); simp [reading, hpc] at this
  rcases fs with fs | ⟨fs0, fs1⟩
  · constructor
    · rw [fv]; exact h.vis
    · rw [fc, ff]; exact h.fcl
    · rw [fs, ff]; exact h.pair
    · rw [ff]; exact h.fl_hst
    · rw [ff]; exact h.fl_cont
    · rw [ff]; exact h.fl_ren
    · rw [ff, fd]; exact h.fl_data
    · rw [ff, fs, fe, fd]
      intro fl sv h1 h2 h3 h4
      rw [hver sv h3 h4]
      exact h.ch_loop fl sv h1 h2 h3 h4
    · rw [ff, fs, fe, fd]; exact h.ch_finF
    · rw [ff, fs, fe]; exact h.ch_finT
    · rw [ff, fs]
      intro fl h1 h2 h3
      have := h.ch_unp fl h1 h2 h3
      simpa [unpairedOK, fe, fd] using this
  · constructor
    · rw [fv]; exact h.vis
    · rw [fc, ff]; exact h.fcl
    · rw [fs1]; intro sv hsv; simp only [Option.some.injEq] at hsv; subst hsv; simp [paired]
    · rw [ff]; exact h.fl_hst
    · rw [ff]; exact h.fl_cont
    · rw [ff]; exact h.fl_ren
    · rw [ff, fd]; exact h.fl_data
    · rw [fs1]; intro fl sv _ _ hsv; simp only [Option.some.injEq] at hsv; subst hsv; simp
    · rw [fs1]; intro fl sv _ _ hsv; simp only [Option.some.injEq] at hsv; subst hsv; simp
    · rw [fs1]; intro fl sv _ _ hsv; simp only [Option.some.injEq] at hsv; subst hsv; simp
    · rw [ff]
      intro fl h1 h2 _
      have := h.ch_unp fl h1 h2 (by simp [fs0])
      simpa [unpairedOK, fe, fd] using this

theorem good_of (hv tot : Nat) (content : List Nat) (h1 : content.length = tot) (h2 : ∀ c, c ∈ content → c = hv) :
    Visible.good { hv := hv, hst := true, tot := tot, content := content } = true := by
  simp only [Visible.good, Bool.true_and, Bool.and_eq_true, beq_iff_eq, List.all_eq_true]
  exact ⟨h1, h2⟩

/-! ### the saver's steps -/

theorem fileInv_stepS (st st' : St) (l : Lab) (hi : inv st) (h : FileInv st) (hs : stepS st l = some st') :
    FileInv st' := by
  unfold stepS at hs
  split at hs
  · cases hs
  · rename_i sv hsv
    split at hs
    · -- waitFile
      rename_i hpc
      split at hs
      · simp only [Option.some.injEq] at hs; subst hs
        have hnp : ∀ sv', st.s = some sv' → paired sv'.pc = false := by
          intro sv' h'; rw [hsv] at h'; cases h'; simp [hpc, paired]
        constructor
        · exact h.vis
        · exact h.fcl
        · intro sv' h'; simp only [Option.some.injEq] at h'; subst h'; simp [paired]
        · exact h.fl_hst
        · exact h.fl_cont
        · exact h.fl_ren
        · exact h.fl_data
        · intro fl sv' _ _ h'; simp only [Option.some.injEq] at h'; subst h'; simp
        · intro fl sv' _ _ h'; simp only [Option.some.injEq] at h'; subst h'; simp
        · intro fl sv' _ _ h'; simp only [Option.some.injEq] at h'; subst h'; simp
        · intro fl h1 h2 _; exact h.ch_unp fl h1 h2 hnp
      · cases hs
    · -- hdr, sBegin k
      rename_i k hpc
      split at hs
      · rename_i hfn
        simp only [Option.some.injEq] at hs; subst hs
        have hfn' : st.f = none := by simpa using hfn
        have hstab : st.stable = true := by
          cases hb : st.stable with
          | true => rfl
          | false =>
            have hm := hi.2.2.2.1 hb
            have := hi.2.2.1 sv hsv (by simp [hm, mCrit])
            simp [reading, hpc] at this
        constructor
        · exact h.vis
        · have := h.fcl; simp [hfn'] at this; simp [this]
        · intro sv' _ _; exact ⟨_, rfl, rfl⟩
        · intro fl h'; simp only [Option.some.injEq] at h'; subst h'; exact hstab
        · intro fl h'; simp only [Option.some.injEq] at h'; subst h'; simp
        · intro fl h'; simp only [Option.some.injEq] at h'; subst h'; simp
        · intro fl h'; simp
        · intro fl sv' h1 _ h3 _
          simp only [Option.some.injEq] at h1 h3; subst h1 h3; simp
        · intro fl sv' _ _ h3 h4
          simp only [Option.some.injEq] at h3; subst h3; simp at h4
        · intro fl sv' _ _ h3 h4
          simp only [Option.some.injEq] at h3; subst h3; simp at h4
        · intro fl _ _ h3
          have := h3 _ rfl
          simp [paired] at this
      · cases hs
    · -- loop, sAbort
      rename_i hpc
      split at hs
      · simp only [Option.some.injEq] at hs; subst hs
        obtain ⟨fl0, hf0, hr0⟩ := h.pair sv hsv (by simp [hpc, paired])
        constructor
        · exact h.vis
        · exact h.fcl
        · intro sv' _ _; exact ⟨fl0, hf0, hr0⟩
        · exact h.fl_hst
        · exact h.fl_cont
        · exact h.fl_ren
        · exact h.fl_data
        · intro fl sv' _ _ h3 h4; simp only [Option.some.injEq] at h3; subst h3; simp at h4
        · intro fl sv' _ _ h3 h4; simp only [Option.some.injEq] at h3; subst h3; simp at h4
        · intro fl sv' h1 h2 _ _; exact (h.ch_loop fl sv h1 h2 hsv hpc).1
        · intro fl _ _ h3; have := h3 _ rfl; simp [paired] at this
      · cases hs
    · -- loop, sHurry
      rename_i hpc
      split at hs
      · simp only [Option.some.injEq] at hs; subst hs
        exact ⟨h.vis, h.fcl, h.pair, h.fl_hst, h.fl_cont, h.fl_ren, h.fl_data, h.ch_loop, h.ch_finF, h.ch_finT, h.ch_unp⟩
      · cases hs
    · -- loop, sStep
      rename_i hpc
      obtain ⟨fl0, hf0, hr0⟩ := h.pair sv hsv (by simp [hpc, paired])
      obtain ⟨he0, hv0, hc0⟩ := h.ch_loop fl0 sv hf0 hr0 hsv hpc
      split at hs
      · rename_i hk
        simp only [Option.some.injEq] at hs; subst hs
        constructor
        · exact h.vis
        · exact h.fcl
        · intro sv' _ _; exact ⟨fl0, hf0, hr0⟩
        · exact h.fl_hst
        · exact h.fl_cont
        · exact h.fl_ren
        · exact h.fl_data
        · intro fl sv' _ _ h3 h4; simp only [Option.some.injEq] at h3; subst h3; simp at h4
        · intro fl sv' h1 _ _ _
          simp only at h1
          rw [hf0] at h1; cases h1
          refine ⟨he0, ?_⟩
          simp only
          omega
        · intro fl sv' _ _ h3 h4; simp only [Option.some.injEq] at h3; subst h3; simp at h4
        · intro fl _ _ h3; have := h3 _ rfl; simp [paired] at this
      · split at hs
        · rename_i hk hlen
          simp only [Option.some.injEq] at hs; subst hs
          constructor
          · exact h.vis
          · exact h.fcl
          · intro sv' _ _; exact ⟨fl0, hf0, hr0⟩
          · exact h.fl_hst
          · exact h.fl_cont
          · exact h.fl_ren
          · intro fl h1 h2 c hc
            simp only at h1
            rw [hf0] at h1; cases h1
            simp only [List.mem_append, List.mem_singleton] at hc
            rcases hc with hc | hc
            · exact h.fl_data fl0 hf0 hr0 c hc
            · rw [hc]; exact hv0
          · intro fl sv' h1 _ h3 _
            simp only at h1
            rw [hf0] at h1; cases h1
            simp only [Option.some.injEq] at h3; subst h3
            refine ⟨he0, hv0, ?_⟩
            simp only [List.length_append, List.length_singleton]
            omega
          · intro fl sv' _ _ h3 h4; simp only [Option.some.injEq] at h3; subst h3; simp [hpc] at h4
          · intro fl sv' _ _ h3 h4; simp only [Option.some.injEq] at h3; subst h3; simp [hpc] at h4
          · intro fl _ _ h3; have := h3 _ rfl; simp [paired, hpc] at this
        · cases hs
    · -- fin a, sStep
      rename_i a hpc
      simp only [Option.some.injEq] at hs; subst hs
      obtain ⟨fl0, hf0, hr0⟩ := h.pair sv hsv (by simp [hpc, paired])
      constructor
      · exact h.vis
      · exact h.fcl
      · intro sv' h'; simp only [Option.some.injEq] at h'; subst h'; simp [paired]
      · exact h.fl_hst
      · exact h.fl_cont
      · exact h.fl_ren
      · exact h.fl_data
      · intro fl sv' _ _ h3 h4; simp only [Option.some.injEq] at h3; subst h3; simp at h4
      · intro fl sv' _ _ h3 h4; simp only [Option.some.injEq] at h3; subst h3; simp at h4
      · intro fl sv' _ _ h3 h4; simp only [Option.some.injEq] at h3; subst h3; simp at h4
      · intro fl h1 h2 _
        simp only at h1
        cases a with
        | true => left; rfl
        | false =>
          right
          exact ⟨rfl, (h.ch_finF fl sv h1 h2 hsv hpc).2⟩
    · -- clr
      rename_i hpc
      simp only [Option.some.injEq] at hs; subst hs
      have hnp : ∀ sv', st.s = some sv' → paired sv'.pc = false := by
        intro sv' h'; rw [hsv] at h'; cases h'; simp [hpc, paired]
      constructor
      · exact h.vis
      · exact h.fcl
      · intro sv' h'; simp only [Option.some.injEq] at h'; subst h'; simp [paired]
      · exact h.fl_hst
      · exact h.fl_cont
      · exact h.fl_ren
      · exact h.fl_data
      · intro fl sv' _ _ h'; simp only [Option.some.injEq] at h'; subst h'; simp
      · intro fl sv' _ _ h'; simp only [Option.some.injEq] at h'; subst h'; simp
      · intro fl sv' _ _ h'; simp only [Option.some.injEq] at h'; subst h'; simp
      · intro fl h1 h2 _; exact h.ch_unp fl h1 h2 hnp
    · -- done
      rename_i hpc
      simp only [Option.some.injEq] at hs; subst hs
      have hnp : ∀ sv', st.s = some sv' → paired sv'.pc = false := by
        intro sv' h'; rw [hsv] at h'; cases h'; simp [hpc, paired]
      constructor
      · exact h.vis
      · exact h.fcl
      · intro sv' h'; cases h'
      · exact h.fl_hst
      · exact h.fl_cont
      · exact h.fl_ren
      · exact h.fl_data
      · intro fl sv' _ _ h'; cases h'
      · intro fl sv' _ _ h'; cases h'
      · intro fl sv' _ _ h'; cases h'
      · intro fl h1 h2 _; exact h.ch_unp fl h1 h2 hnp
    · cases hs

/-! ### the file goroutine's steps -/

theorem noPaired_of_exit (st : St) (h : FileInv st) (fl : Filer) (hf : st.f = some fl) (hr : fl.pc = .run)
    (b : Bool) (he : st.exitCh = some b) : ∀ sv, st.s = some sv → paired sv.pc = false := by
  intro sv hsv
  cases hpc : sv.pc with
  | loop => have := (h.ch_loop fl sv hf hr hsv hpc).1; rw [he] at this; cases this
  | fin a =>
    cases a with
    | true => have := h.ch_finT fl sv hf hr hsv hpc; rw [he] at this; cases this
    | false => have := (h.ch_finF fl sv hf hr hsv hpc).1; rw [he] at this; cases this
  | _ => rfl

theorem noPaired_of_notRun (st : St) (h : FileInv st) (fl : Filer) (hf : st.f = some fl) (hr : fl.pc ≠ .run) :
    ∀ sv, st.s = some sv → paired sv.pc = false := by
  intro sv hsv
  cases hp : paired sv.pc with
  | false => rfl
  | true =>
    obtain ⟨fl', hf', hr'⟩ := h.pair sv hsv hp
    rw [hf] at hf'; cases hf'
    exact absurd hr' hr

/-- the file goroutine leaves its loop (exit token taken) towards `pc'` ∈ {rename, remove} -/
theorem fileInv_leave (st : St) (h : FileInv st) (fl : Filer) (hf : st.f = some fl) (hr : fl.pc = .run)
    (b : Bool) (he : st.exitCh = some b) (pc' : FPc) (hpc' : pc' ≠ .run)
    (hren : pc' = .rename → b = false ∧ st.dataCh = []) :
    FileInv { st with exitCh := none, f := some { fl with pc := pc' } } := by
  have hnp := noPaired_of_exit st h fl hf hr b he
  constructor
  · exact h.vis
  · have := h.fcl; simp [hf] at this; simp [this]
  · intro sv hsv hp; simp only at hsv; rw [hnp sv hsv] at hp; cases hp
  · intro fl' h'; simp only [Option.some.injEq] at h'; subst h'; exact h.fl_hst fl hf
  · intro fl' h'; simp only [Option.some.injEq] at h'; subst h'; exact h.fl_cont fl hf
  · intro fl' h' hp; simp only [Option.some.injEq] at h'; subst h'
    simp only at hp
    obtain ⟨hb, hd⟩ := hren hp
    rcases h.ch_unp fl hf hr hnp with hu | ⟨_, hu⟩
    · rw [he, hb] at hu; cases hu
    · simpa [hd] using hu
  · intro fl' h' hp; simp only [Option.some.injEq] at h'; subst h'; exact absurd hp hpc'
  · intro fl' sv h' hp; simp only [Option.some.injEq] at h'; subst h'; exact absurd hp hpc'
  · intro fl' sv h' hp; simp only [Option.some.injEq] at h'; subst h'; exact absurd hp hpc'
  · intro fl' sv h' hp; simp only [Option.some.injEq] at h'; subst h'; exact absurd hp hpc'
  · intro fl' h' hp; simp only [Option.some.injEq] at h'; subst h'; exact absurd hp hpc'

/-- the file goroutine moves from `pc` ≠ run to `done` (optionally publishing a good file) -/
theorem fileInv_toDone (st : St) (h : FileInv st) (fl : Filer) (hf : st.f = some fl) (hr : fl.pc ≠ .run)
    (vis' : List Visible) (hv : ∀ v, v ∈ vis' → v.good = true) :
    FileInv { st with visible := vis', f := some { fl with pc := .done } } := by
  have hnp := noPaired_of_notRun st h fl hf hr
  constructor
  · exact hv
  · have := h.fcl; simp [hf] at this; simp [this]
  · intro sv hsv hp; simp only at hsv; rw [hnp sv hsv] at hp; cases hp
  · intro fl' h'; simp only [Option.some.injEq] at h'; subst h'; exact h.fl_hst fl hf
  · intro fl' h'; simp only [Option.some.injEq] at h'; subst h'; exact h.fl_cont fl hf
  · intro fl' h' hp; simp only [Option.some.injEq] at h'; subst h'; simp at hp
  · intro fl' h' hp; simp only [Option.some.injEq] at h'; subst h'; simp at hp
  · intro fl' sv h' hp; simp only [Option.some.injEq] at h'; subst h'; simp at hp
  · intro fl' sv h' hp; simp only [Option.some.injEq] at h'; subst h'; simp at hp
  · intro fl' sv h' hp; simp only [Option.some.injEq] at h'; subst h'; simp at hp
  · intro fl' h' hp; simp only [Option.some.injEq] at h'; subst h'; simp at hp

theorem fileInv_stepF (st st' : St) (l : Lab) (h : FileInv st) (hs : stepF st l = some st') : FileInv st' := by
  unfold stepF at hs
  split at hs
  · cases hs
  · rename_i fl hf
    split at hs
    · -- run, fStep
      rename_i hr
      split at hs
      · -- one chunk written
        rename_i c r hd
        simp only [Option.some.injEq] at hs; subst hs
        constructor
        · exact h.vis
        · have := h.fcl; simp [hf] at this; simp [this]
        · intro sv hsv hp; exact ⟨_, rfl, hr⟩
        · intro fl' h'; simp only [Option.some.injEq] at h'; subst h'; exact h.fl_hst fl hf
        · intro fl' h' x hx; simp only [Option.some.injEq] at h'; subst h'
          simp only [List.mem_append, List.mem_singleton] at hx
          rcases hx with hx | hx
          · exact h.fl_cont fl hf x hx
          · rw [hx]; exact h.fl_data fl hf hr c (by simp [hd])
        · intro fl' h' hp; simp only [Option.some.injEq] at h'; subst h'; simp [hr] at hp
        · intro fl' h' _ x hx; simp only [Option.some.injEq] at h'; subst h'
          exact h.fl_data fl hf hr x (by simp [hd, hx])
        · intro fl' sv h' _ hsv hpc; simp only [Option.some.injEq] at h'; subst h'
          obtain ⟨h1, h2, h3⟩ := h.ch_loop fl sv hf hr hsv hpc
          refine ⟨h1, h2, ?_⟩
          simp only [List.length_append, List.length_singleton]
          simp only [hd, List.length_cons] at h3
          omega
        · intro fl' sv h' _ hsv hpc; simp only [Option.some.injEq] at h'; subst h'
          obtain ⟨h1, h3⟩ := h.ch_finF fl sv hf hr hsv hpc
          refine ⟨h1, ?_⟩
          simp only [List.length_append, List.length_singleton]
          simp only [hd, List.length_cons] at h3
          omega
        · intro fl' sv h' _ hsv hpc; simp only [Option.some.injEq] at h'; subst h'
          exact h.ch_finT fl sv hf hr hsv hpc
        · intro fl' h' _ hnp; simp only [Option.some.injEq] at h'; subst h'
          rcases h.ch_unp fl hf hr hnp with hu | ⟨hu1, hu2⟩
          · left; exact hu
          · right
            refine ⟨hu1, ?_⟩
            simp only [List.length_append, List.length_singleton]
            simp only [hd, List.length_cons] at hu2
            omega
      · -- channel empty: exit token
        rename_i hd
        split at hs
        · rename_i he
          simp only [Option.some.injEq] at hs; subst hs
          exact fileInv_leave st h fl hf hr true he .remove (by simp) (by simp)
        · rename_i he
          simp only [Option.some.injEq] at hs; subst hs
          exact fileInv_leave st h fl hf hr false he .rename (by simp) (fun _ => ⟨rfl, hd⟩)
        · cases hs
    · -- run, fExit
      rename_i hr
      split at hs
      · rename_i he
        simp only [Option.some.injEq] at hs; subst hs
        exact fileInv_leave st h fl hf hr true he .remove (by simp) (by simp)
      · cases hs
    · -- rename
      rename_i hr
      simp only [Option.some.injEq] at hs; subst hs
      refine fileInv_toDone st h fl hf (by simp [hr]) _ ?_
      intro v hv
      simp only [List.mem_append, List.mem_singleton] at hv
      rcases hv with hv | hv
      · exact h.vis v hv
      · rw [hv, h.fl_hst fl hf]
        exact good_of _ _ _ (h.fl_ren fl hf hr) (h.fl_cont fl hf)
    · -- remove
      rename_i hr
      simp only [Option.some.injEq] at hs; subst hs
      have := fileInv_toDone st h fl hf (by simp [hr]) st.visible h.vis
      exact this
    · -- done
      rename_i hr
      simp only [Option.some.injEq] at hs; subst hs
      have hnp := noPaired_of_notRun st h fl hf (by simp [hr])
      constructor
      · exact h.vis
      · have := h.fcl; simp [hf] at this; simp [this]
      · intro sv hsv hp; simp only at hsv; rw [hnp sv hsv] at hp; cases hp
      · intro fl' h'; cases h'
      · intro fl' h'; cases h'
      · intro fl' h'; cases h'
      · intro fl' h'; cases h'
      · intro fl' sv h'; cases h'
      · intro fl' sv h'; cases h'
      · intro fl' sv h'; cases h'
      · intro fl' h'; cases h'
    · cases hs

theorem fileInv_step (st st' : St) (l : Lab) (hi : inv st) (h : FileInv st) (hs : step st l = some st') :
    FileInv st' := by
  cases l with
  | m => exact fileInv_frame st st' hi h (stepM_frame st st' hs)
  | x =>
    have fr := stepX_frame st st' hs
    exact fileInv_frame st st' hi h fr
  | fStep => exact fileInv_stepF st st' _ h hs
  | fExit => exact fileInv_stepF st st' _ h hs
  | sStep => exact fileInv_stepS st st' _ hi h hs
  | sBegin k => exact fileInv_stepS st st' _ hi h hs
  | sAbort => exact fileInv_stepS st st' _ hi h hs
  | sHurry => exact fileInv_stepS st st' _ hi h hs

theorem fileInv_run (st : St) (ls : List Lab) (hi : inv st) (h : FileInv st) : FileInv (run st ls) := by
  induction ls generalizing st with
  | nil => exact h
  | cons l r ih =>
    simp only [run]
    cases hs : step st l with
    | none => simpa using ih st hi h
    | some st' => simpa using ih st' (inv_step st st' l hi hs) (fileInv_step st st' l hi h hs)

end GocoinV.Proofs.C11.SnapC
