/-
  Proofs.C02Spec — bridges between the primitives of Model.SigHash (mirroring gocoin) and of
  Spec.SigHash (written from the BIPs), and the BIP143 / BIP341 preimage equalities.
-/
import GocoinV.Model.SigHash
import GocoinV.Spec.SigHash
import GocoinV.Proofs.C02Cache
set_option linter.unusedSimpArgs false
namespace GocoinV.SigHash
open GocoinV.Wire (Tx TxIn TxOut)
open GocoinV.Spec.SigHash (compactSize varBytes outpoint txOut u32 u64 anyoneCanPay baseType)

theorem writeVlen_eq (n : Nat) : writeVlen n = compactSize n := by
  unfold writeVlen compactSize
  by_cases h1 : n < 0xfd
  · have : n ≤ 252 := by omega
    simp [h1, this]
  · have h1' : ¬ n ≤ 252 := by omega
    by_cases h2 : n < 0x10000
    · have : n ≤ 0xffff := by omega
      simp [h1, h1', h2, this]
    · have h2' : ¬ n ≤ 0xffff := by omega
      by_cases h3 : n < 0x100000000
      · have : n ≤ 0xffffffff := by omega
        simp [h1, h1', h2, h2', h3, this]
      · have h3' : ¬ n ≤ 0xffffffff := by omega
        simp [h1, h1', h2, h2', h3, h3']

theorem serOutpoint_eq (i : TxIn) : serOutpoint i = outpoint i := rfl

theorem serOut_eq (o : TxOut) : serOut o = txOut o := by
  simp [serOut, txOut, varBytes, writeVlen_eq, le64, u64, List.append_assoc]

theorem prevoutsBytes_eq (tx : Tx) : prevoutsBytes tx = (tx.ins.map outpoint).flatten := by
  simp [prevoutsBytes, List.flatMap_def]
  rfl

theorem sequencesBytes_eq (tx : Tx) : sequencesBytes tx = (tx.ins.map fun i => u32 i.sequence).flatten := by
  simp [sequencesBytes, List.flatMap_def]
  rfl

theorem outputsBytes_eq (tx : Tx) : outputsBytes tx = (tx.outs.map txOut).flatten := by
  simp only [outputsBytes, List.flatMap_def]
  congr 1
  exact List.map_congr_left fun o _ => serOut_eq o

theorem and_1f (ht : Nat) : ht &&& 0x1f = baseType ht := by
  have := Nat.and_two_pow_sub_one_eq_mod ht 5
  simpa [baseType] using this

theorem and_80 (ht : Nat) : (ht &&& 0x80 ≠ 0) ↔ anyoneCanPay ht = true := by
  simp only [anyoneCanPay]
  have e : (0x80 : Nat) = 2 ^ 7 := by decide
  rw [e]
  constructor
  · intro h
    cases hb : ht.testBit 7 with
    | true => rfl
    | false =>
      exfalso; apply h
      apply Nat.eq_of_testBit_eq
      intro i
      rw [Nat.testBit_and, Nat.testBit_two_pow, Nat.zero_testBit]
      by_cases hi : 7 = i
      · subst hi; simp [hb]
      · simp [hi]
  · intro hb h
    have : (ht &&& 2 ^ 7).testBit 7 = true := by
      rw [Nat.testBit_and, Nat.testBit_two_pow, hb]; simp
    rw [h, Nat.zero_testBit] at this
    cases this

theorem and_80_eq (ht : Nat) : (ht &&& 0x80 = 0x80) ↔ anyoneCanPay ht = true := by
  rw [← and_80]
  have e : (0x80 : Nat) = 2 ^ 7 := by decide
  constructor
  · intro h; rw [h]; decide
  · intro h
    rw [e] at h ⊢
    apply Nat.eq_of_testBit_eq
    intro i
    rw [Nat.testBit_and, Nat.testBit_two_pow]
    by_cases hi : 7 = i
    · subst hi
      have hb : ht.testBit 7 = true := by
        cases hb : ht.testBit 7 with
        | true => rfl
        | false =>
          exfalso; apply h
          apply Nat.eq_of_testBit_eq
          intro i
          rw [Nat.testBit_and, Nat.testBit_two_pow, Nat.zero_testBit]
          by_cases hi : 7 = i
          · subst hi; simp [hb]
          · simp [hi]
      simp [hb]
    · simp [hi]

theorem zero32_eq : zero32 = Spec.SigHash.zeros32 := rfl


/-- BIP143 on a fresh cache: the model's preimage is the specified one. -/
theorem witness_eq_spec (H : Bytes → Bytes) (tx : Tx) (sc : Bytes) (amount idx ht : Nat) (pre : Bytes)
    (h : Spec.SigHash.bip143 (fun b => H (H b)) tx sc amount idx ht = some pre) :
    (witnessSigHash H tx {} sc amount idx ht).1 = .hashed pre (H (H pre)) := by
  unfold Spec.SigHash.bip143 at h
  unfold witnessSigHash
  cases hi : tx.ins[idx]? with
  | none => simp [hi] at h
  | some inp =>
    simp only [hi] at h
    injection h with h
    subst h
    have hacp := and_80 ht
    simp only [and_1f, lazyGet, writeVlen_eq, prevoutsBytes_eq, sequencesBytes_eq, outputsBytes_eq,
      serOut_eq, serOutpoint_eq, zero32_eq]
    have hnone : tx.outs[idx]? = none → ¬ idx < tx.outs.length := by
      intro ho; have := List.getElem?_eq_none_iff.mp ho; omega
    by_cases ha : anyoneCanPay ht = true
    · have ha' : ht &&& 0x80 ≠ 0 := hacp.mpr ha
      by_cases h3 : baseType ht = 3
      · cases ho : tx.outs[idx]? with
        | none => have := hnone ho; simp [ha, ha', h3, this, le32, le64, u32, u64, varBytes, List.append_assoc]
        | some o =>
          obtain ⟨hl, he⟩ := List.getElem?_eq_some_iff.mp ho
          simp [ha, ha', h3, hl, he, le32, le64, u32, u64, varBytes, List.append_assoc]
      · by_cases h2 : baseType ht = 2 <;>
          simp [ha, ha', h3, h2, le32, le64, u32, u64, varBytes, List.append_assoc]
    · have ha' : ¬ (ht &&& 0x80 ≠ 0) := fun x => ha (hacp.mp x)
      by_cases h3 : baseType ht = 3
      · cases ho : tx.outs[idx]? with
        | none => have := hnone ho; simp [ha, ha', h3, this, le32, le64, u32, u64, varBytes, List.append_assoc]
        | some o =>
          obtain ⟨hl, he⟩ := List.getElem?_eq_some_iff.mp ho
          simp [ha, ha', h3, hl, he, le32, le64, u32, u64, varBytes, List.append_assoc]
      · by_cases h2 : baseType ht = 2 <;>
          simp [ha, ha', h3, h2, le32, le64, u32, u64, varBytes, List.append_assoc]

/-- the `ScriptExecutionData` that witness.go / script.go hand to `TaprootSigHash` for a spend with the
    given annex and (for tapscript) leaf hash and code separator position -/
def execDataOf (H : Bytes → Bytes) (annex : Option Bytes) (ext : Option Spec.SigHash.Ext) : ExecData :=
  { annexHash := annex.map (annexHashOf H)
    tapleafHash := match ext with | some e => e.tapleafHash | none => []
    codesepPos := match ext with | some e => e.codesepPos | none => 0xffffffff }

theorem validType_iff (ht : Nat) :
    Spec.SigHash.validTaprootHashType ht = true ↔ (ht ≤ 0x03 ∨ (0x81 ≤ ht ∧ ht ≤ 0x83)) := by
  simp only [Spec.SigHash.validTaprootHashType, decide_eq_true_eq]
  omega

theorem tag_eq : tapSighashTag = Spec.SigHash.tagTapSighash := by decide

theorem tapSingleFill_full (H : Bytes → Bytes) (tx : Tx) (spent : List TxOut) (hs : spent.length = tx.ins.length) :
    (tapSingleFill H tx spent).2 =
      { prevouts := H ((tx.ins.map outpoint).flatten)
        amounts := H ((spent.map fun o => u64 o.value).flatten)
        scripts := H ((spent.map fun o => varBytes o.pkScript).flatten)
        sequences := H ((tx.ins.map fun i => u32 i.sequence).flatten) } := by
  unfold tapSingleFill
  have h1 : ¬ spent.length < tx.ins.length := by omega
  have h2 : spent.take tx.ins.length = spent := List.take_of_length_le (by omega)
  simp only [h1, ↓reduceIte, h2, prevoutsBytes_eq, sequencesBytes_eq, List.flatMap_def, le64, u64, varBytes,
    writeVlen_eq]

/-- BIP341/342 on a fresh cache: where the specification defines a message the model hashes exactly it;
    where it defines none the model returns "no digest" (`nil`; 32 zero bytes before the fix). -/
theorem taproot_spec (fixed : Bool) (H : Bytes → Bytes) (tx : Tx) (spent : List TxOut) (idx ht : Nat)
    (annex : Option Bytes) (ext : Option Spec.SigHash.Ext)
    (hs : spent.length = tx.ins.length) (hi : idx < tx.ins.length) :
    (taprootSigHash fixed H tx spent {} (execDataOf H annex ext) idx ht ext.isSome).1 =
      match Spec.SigHash.bip341 H tx spent idx ht annex ext with
      | some pre => .hashed pre (H pre)
      | none => if fixed then .undefined else .const zero32 := by
  have hle : tx.ins.length ≤ spent.length := by omega
  obtain ⟨inp, hinp⟩ : ∃ inp, tx.ins[idx]? = some inp := ⟨tx.ins[idx], by simp [hi]⟩
  obtain ⟨sp, hsp⟩ : ∃ sp, spent[idx]? = some sp := ⟨spent[idx]'(by omega), by simp [hs, hi]⟩
  unfold taprootSigHash Spec.SigHash.bip341 Spec.SigHash.bip341Msg
  by_cases hv : Spec.SigHash.validTaprootHashType ht = true
  · have hv' := (validType_iff ht).mp hv
    simp only [hv', not_true_eq_false, ↓reduceIte, hv, hs, tapSingleGet_eq H tx spent {} hle (Cache.OK_empty H tx spent),
      tapSingleFill_full H tx spent hs, hinp, hsp]
    have h7 : ht = 0 ∨ ht = 1 ∨ ht = 2 ∨ ht = 3 ∨ ht = 0x81 ∨ ht = 0x82 ∨ ht = 0x83 := by omega
    have hnone : tx.outs[idx]? = none → ¬ idx < tx.outs.length := by
      intro ho; have := List.getElem?_eq_none_iff.mp ho; omega
    rcases h7 with rfl | rfl | rfl | rfl | rfl | rfl | rfl <;>
    cases annex <;> cases ext <;>
    (cases ho : tx.outs[idx]? with
     | none =>
       have := hnone ho
       have hge : tx.outs.length ≤ idx := by omega
       simp [hge, taprootTail, lazyGet, execDataOf, annexHashOf, tagPrefix, tag_eq, Spec.SigHash.taggedPreimage, this,
         hinp, hsp, ho, outputsBytes_eq, serOut_eq, serOutpoint_eq, writeVlen_eq, le32, le64, u32, u64, varBytes,
         List.append_assoc]
     | some o =>
       obtain ⟨hl, he⟩ := List.getElem?_eq_some_iff.mp ho
       have hlt : ¬ tx.outs.length ≤ idx := by omega
       simp [hlt, taprootTail, lazyGet, execDataOf, annexHashOf, tagPrefix, tag_eq, Spec.SigHash.taggedPreimage, hl, he,
         hinp, hsp, ho, outputsBytes_eq, serOut_eq, serOutpoint_eq, writeVlen_eq, le32, le64, u32, u64, varBytes,
         List.append_assoc])
  · have hv' : ¬ (ht ≤ 0x03 ∨ (0x81 ≤ ht ∧ ht ≤ 0x83)) := fun h => hv ((validType_iff ht).mpr h)
    simp [hv, hv']
end GocoinV.SigHash
