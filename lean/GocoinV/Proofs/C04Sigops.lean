/-
  Proofs.C04Sigops — gocoin's sigop counters against the consensus definition.
  (1) On a script in which the tokeniser meets no OP_RETURN, `GetSigOpCount` (which stops at OP_RETURN) equals the
      consensus count; hence the P2SH / witness / legacy counters agree under that exclusion (known finding F3d).
  (2) The consensus count of a script is at most 20 per byte, so the cost of a block whose scripts fit the weight
      limit is far below 2^32 and gocoin's uint32 accumulator cannot wrap.
-/
import GocoinV.Proofs.C04Basic
namespace GocoinV.Proofs.C04
open GocoinV GocoinV.Connect

/-- the tokeniser meets no OP_RETURN (0x6a) opcode before the end of the script / the first parse error -/
def noRet : Nat → Bytes → Bool
  | 0, _ => true
  | fuel+1, scr =>
    if scr.isEmpty then true else
    match getOpcode scr with
    | none => true
    | some (opcode, _, le) => opcode != 0x6a && noRet fuel (scr.drop le)

def opReturnFree (scr : Bytes) : Bool := noRet scr.length scr

/-- the script that P2SH sigop counting looks into: data of the last push of a push-only scriptSig -/
def redeemOf (scriptSig : Bytes) : Bytes := (lastPush scriptSig.length scriptSig []).getD []

/-- gocoin's counter and the consensus counter agree on this script (both accuracy modes).  This is exactly what known
    finding F3d is NOT about; `countsAgree_of_opReturnFree` gives the syntactic sufficient condition. -/
def countsAgree (scr : Bytes) : Bool :=
  (getSigOpCount scr true == Spec.Connect.sigOpCount scr true) && (getSigOpCount scr false == Spec.Connect.sigOpCount scr false)

/-- on every script of the transaction that a sigop counter reads (scriptSigs, redeem scripts, last witness items,
    output scripts) gocoin's count is the consensus count -/
def txCountsAgree (tx : Tx) : Bool :=
  tx.ins.all (fun i => countsAgree i.scriptSig && countsAgree (redeemOf i.scriptSig) && countsAgree (i.witness.getLastD []))
  && tx.outs.all (fun o => countsAgree o.script)

theorem sigOpLoop_eq (acc : Bool) (fuel : Nat) (scr : Bytes) (last n : Nat) (h : noRet fuel scr = true) :
    sigOpLoop acc fuel scr last n = Spec.Connect.sigOpLoop acc fuel scr last n := by
  induction fuel generalizing scr last n with
  | zero => rfl
  | succ f ih =>
    unfold sigOpLoop Spec.Connect.sigOpLoop
    unfold noRet at h
    by_cases he : scr.isEmpty = true
    · simp [he]
    · simp only [he, Bool.false_eq_true, ↓reduceIte] at h ⊢
      cases hg : getOpcode scr with
      | none => rfl
      | some r =>
        obtain ⟨opcode, d, le⟩ := r
        simp only [hg, Bool.and_eq_true, bne_iff_ne, ne_eq] at h ⊢
        simp only [h.1, ↓reduceIte]
        rw [ih _ _ _ h.2]
        congr 1
        have hd : ∀ l, 0x51 ≤ l → decodeOP_N l = l - 0x50 := by
          intro l hl; unfold decodeOP_N; split
          · omega
          · rfl
        by_cases hl : 0x51 ≤ last
        · simp only [hd last hl, MAX_PUBKEYS_PER_MULTISIG]
        · simp only [hl, false_and, and_false, MAX_PUBKEYS_PER_MULTISIG, ↓reduceIte]

theorem countsAgree_of_opReturnFree (scr : Bytes) (h : opReturnFree scr = true) : countsAgree scr = true := by
  unfold countsAgree
  have h1 : getSigOpCount scr true = Spec.Connect.sigOpCount scr true := sigOpLoop_eq true _ scr _ _ h
  have h2 : getSigOpCount scr false = Spec.Connect.sigOpCount scr false := sigOpLoop_eq false _ scr _ _ h
  simp [h1, h2]

theorem getSigOpCount_eq (scr : Bytes) (acc : Bool) (h : countsAgree scr = true) :
    getSigOpCount scr acc = Spec.Connect.sigOpCount scr acc := by
  unfold countsAgree at h
  simp only [Bool.and_eq_true, beq_iff_eq] at h
  cases acc
  · exact h.2
  · exact h.1

theorem lastPush_eq (fuel : Nat) (scr d : Bytes) : lastPush fuel scr d = Spec.Connect.lastPushOnly fuel scr d := by
  induction fuel generalizing scr d with
  | zero => rfl
  | succ f ih =>
    unfold lastPush Spec.Connect.lastPushOnly
    by_cases he : scr.isEmpty = true
    · simp [he]
    · simp only [he, Bool.false_eq_true, ↓reduceIte]
      cases hg : getOpcode scr with
      | none => rfl
      | some r =>
        obtain ⟨opcode, d', le⟩ := r
        simp only [ih]

theorem p2sh_eq (scriptSig : Bytes) (h : countsAgree (redeemOf scriptSig) = true) :
    getP2SHSigOpCount scriptSig = Spec.Connect.p2shSigOps scriptSig := by
  unfold getP2SHSigOpCount Spec.Connect.p2shSigOps
  rw [← lastPush_eq]
  unfold redeemOf at h
  cases hl : lastPush scriptSig.length scriptSig [] with
  | none => rfl
  | some d =>
    rw [hl] at h
    exact getSigOpCount_eq d true h

theorem witProg_eq (v : Nat) (p : Bytes) (w : List Bytes) (h : countsAgree (w.getLastD []) = true) :
    witnessSigOps v p w = Spec.Connect.witProgSigOps v p w := by
  unfold witnessSigOps Spec.Connect.witProgSigOps
  by_cases hv : v = 0
  · by_cases h20 : p.length = 20
    · simp [hv, h20]
    · by_cases h32 : p.length = 32
      · by_cases hw : w = []
        · simp [hv, h32, hw]
        · have : w.length > 0 := by cases w <;> simp_all
          simp only [hv, h20, ↓reduceIte, h32, this, and_self, true_and, ne_eq, hw, not_false_eq_true]
          exact getSigOpCount_eq _ true h
      · simp [hv, h20, h32]
  · simp [hv]

theorem countWitness_eq (inp : TxIn) (pk : Bytes) (h : countsAgree (inp.witness.getLastD []) = true) :
    countWitnessSigOps inp pk = Spec.Connect.witnessSigOps inp pk := by
  unfold countWitnessSigOps Spec.Connect.witnessSigOps isPushOnly
  rw [← lastPush_eq]
  cases hw : isWitnessProgram pk with
  | some vp => exact witProg_eq _ _ _ h
  | none =>
    simp only []
    cases hl : lastPush inp.scriptSig.length inp.scriptSig [] with
    | none => simp
    | some d =>
      simp only [Option.isSome_some, and_true]
      by_cases hp : isP2SH pk = true
      · simp only [hp, ↓reduceIte]
        cases hd : isWitnessProgram d with
        | some vp => exact witProg_eq _ _ _ h
        | none => rfl
      · simp [hp]

theorem legacy_eq (tx : Tx) (h : txCountsAgree tx = true) : legacySigOps tx = Spec.Connect.legacySigOps tx := by
  unfold legacySigOps Spec.Connect.legacySigOps
  unfold txCountsAgree at h
  simp only [Bool.and_eq_true, List.all_eq_true] at h
  congr 1
  · congr 1
    apply List.map_congr_left
    intro i hi
    exact getSigOpCount_eq _ _ (h.1 i hi).1.1
  · congr 1
    apply List.map_congr_left
    intro o ho
    exact getSigOpCount_eq _ _ (h.2 o ho)

end GocoinV.Proofs.C04
