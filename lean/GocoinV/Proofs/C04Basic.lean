/-
  Proofs.C04Basic — helper lemmas for Props/C04: association lists, subsidy arithmetic, the abstraction
  DB → (OutPoint ⇀ Coin), concrete witnesses.
-/
import GocoinV.Spec.Connect
namespace GocoinV.Proofs.C04
open GocoinV GocoinV.Connect

/-! ### association lists -/

theorem aGet_aSet {κ β : Type} [DecidableEq κ] (l : List (κ × β)) (k k' : κ) (v : β) :
    aGet (aSet l k v) k' = if k = k' then some v else aGet l k' := by
  induction l with
  | nil => simp [aSet, aGet]
  | cons p r ih =>
    obtain ⟨a, b⟩ := p
    simp only [aSet]
    by_cases h : a = k
    · subst h
      simp only [↓reduceIte, aGet]
      by_cases h2 : a = k' <;> simp [h2]
    · simp only [h, ↓reduceIte, aGet, ih]
      by_cases h2 : a = k'
      · subst h2; simp [Ne.symm h]
      · simp [h2]

theorem aGet_aDel {κ β : Type} [DecidableEq κ] (l : List (κ × β)) (k k' : κ) :
    aGet (aDel l k) k' = if k = k' then none else aGet l k' := by
  induction l with
  | nil => simp [aDel, aGet]
  | cons p r ih =>
    obtain ⟨a, b⟩ := p
    simp only [aDel]
    by_cases h : a = k
    · subst h
      simp only [↓reduceIte, ih, aGet]
      by_cases h2 : a = k' <;> simp [h2]
    · simp only [h, ↓reduceIte, aGet, ih]
      by_cases h2 : a = k'
      · subst h2; simp [Ne.symm h]
      · simp [h2]

/-! ### subsidy -/

theorem reward_eq_div (h : Nat) : getBlockReward h = 5000000000 / 2 ^ (h / 210000) := by
  unfold getBlockReward u64
  rw [Nat.shiftRight_eq_div_pow]
  apply Nat.mod_eq_of_lt
  have : 5000000000 / 2 ^ (h / 210000) ≤ 5000000000 := Nat.div_le_self _ _
  omega

theorem reward_zero_of_ge (h : Nat) (hh : 64 ≤ h / 210000) : getBlockReward h = 0 := by
  rw [reward_eq_div]
  apply Nat.div_eq_of_lt
  have : 2 ^ 64 ≤ 2 ^ (h / 210000) := Nat.pow_le_pow_right (by decide) hh
  omega

theorem reward_eq_subsidy (h : Nat) : getBlockReward h = Spec.Connect.subsidy h := by
  unfold Spec.Connect.subsidy
  by_cases hh : h / 210000 ≥ 64
  · simp only [hh, ↓reduceIte]; exact reward_zero_of_ge h hh
  · simp only [hh, ↓reduceIte]; exact reward_eq_div h

end GocoinV.Proofs.C04
