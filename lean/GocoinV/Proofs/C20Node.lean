/-
  Proofs.C20Node — the node-level wiring invariant of Model/AllocNode.lean.
-/
import GocoinV.Model.AllocNode
namespace GocoinV.AllocNode

/-- The wiring is sound: Malloc and Free are bound to the same place, that place is the allocator the node
reports on (or the Go heap when there is none), every live record was allocated there, and the reported
`Allocs` is the number of live records. -/
structure Wired (s : Node) : Prop where
  same : s.mallocTo = s.freeTo
  nodup : (s.live.map (·.1)).Nodup
  fresh : ∀ r ∈ s.live, r.1 < s.nextRec
  rep : match s.reporting with
    | some id => s.mallocTo = .arena id ∧ id < s.arenas.length ∧ s.arenas.getD id 0 = s.live.length ∧
                 ∀ r ∈ s.live, r.2 = .arena id
    | none => s.mallocTo = .goHeap ∧ ∀ r ∈ s.live, r.2 = .goHeap

/-- the facts under which the wiring never changes after start-up -/
def Facts.Stable (f : Facts) : Prop :=
  f.resetRewires = false ∧ f.runtimeRewires = false ∧ f.initOnce = true ∧ f.paired = true

theorem getD_bump_same (l : List Int) (id : Nat) (d : Int) (h : id < l.length) :
    (bump l id d).getD id 0 = l.getD id 0 + d := by
  simp [bump, List.getD, h]

theorem length_bump (l : List Int) (id : Nat) (d : Int) : (bump l id d).length = l.length := by
  simp [bump]

theorem filter_ne_length (l : List (Nat × Target)) (r : Nat) (nd : (l.map (·.1)).Nodup)
    (h : l.any (·.1 == r) = true) : ((l.filter (·.1 != r)).length : Int) = (l.length : Int) - 1 := by
  induction l with
  | nil => simp at h
  | cons a t ih =>
    simp only [List.map_cons, List.nodup_cons] at nd
    by_cases ha : a.1 = r
    · subst ha
      have hnot : ∀ x ∈ t, x.1 ≠ a.1 := by
        intro x hx e
        exact nd.1 (e ▸ List.mem_map_of_mem hx)
      have hfil : t.filter (·.1 != a.1) = t := by
        apply List.filter_eq_self.2
        intro x hx
        simp [hnot x hx]
      simp [hfil]
    · have h' : t.any (·.1 == r) = true := by
        simpa [List.any_cons, ha] using h
      have := ih nd.2 h'
      simp [ha]
      omega

theorem wired_init (f : Facts) (hf : f.Stable) (g : Bool) : Wired (step f Node.empty (.initConfig g)) := by
  obtain ⟨_, _, _, hp⟩ := hf
  cases g
  · simp only [step, Node.empty, rewire, hp]
    constructor <;> simp
  · simp only [step, Node.empty, rewire]
    constructor <;> simp

theorem started_init (f : Facts) (g : Bool) : (step f Node.empty (.initConfig g)).started = true := by
  simp [step, Node.empty]

theorem started_step (f : Facts) (s : Node) (op : Op) (h : s.started = true) : (step f s op).started = true := by
  cases op <;> simp only [step] <;> (repeat' split) <;> simp_all [rewire]
  all_goals (try split) <;> simp_all

theorem wired_step (f : Facts) (hf : f.Stable) (s : Node) (op : Op) (hs : s.started = true) (w : Wired s) :
    Wired (step f s op) := by
  obtain ⟨hr, ho, hi, _⟩ := hf
  cases op with
  | initConfig g => simp [step, hs, hi]; exact w
  | reset g => simp [step, hr]; exact w
  | other g => simp [step, ho]; exact w
  | defrag => exact w
  | malloc =>
    obtain ⟨same, nodup, fresh, rep⟩ := w
    have nd' : ((s.nextRec, s.mallocTo) :: s.live |>.map (·.1)).Nodup := by
      simp only [List.map_cons, List.nodup_cons]
      refine ⟨?_, nodup⟩
      intro hm
      obtain ⟨x, hx, e⟩ := List.mem_map.1 hm
      have := fresh x hx
      omega
    have fr' : ∀ r ∈ (s.nextRec, s.mallocTo) :: s.live, r.1 < s.nextRec + 1 := by
      intro r hr
      rcases List.mem_cons.1 hr with e | hr
      · subst e; simp
      · have := fresh r hr; omega
    cases hrep : s.reporting with
    | none =>
      rw [hrep] at rep
      obtain ⟨hm, hall⟩ := rep
      rw [hm] at nd' 
      refine ⟨?_, ?_, ?_, ?_⟩
      · simpa [step, hm] using same
      · simpa [step, hm] using nd'
      · simpa [step, hm] using fr'
      · simp only [step, hm, hrep]
        refine ⟨trivial, ?_⟩
        intro r hr
        rcases List.mem_cons.1 hr with e | hr
        · subst e; rfl
        · exact hall r hr
    | some id =>
      rw [hrep] at rep
      obtain ⟨hm, hlt, hcnt, hall⟩ := rep
      rw [hm] at nd'
      refine ⟨?_, ?_, ?_, ?_⟩
      · simpa [step, hm] using same
      · simpa [step, hm] using nd'
      · simpa [step, hm] using fr'
      · simp only [step, hm, hrep]
        refine ⟨trivial, by simpa [length_bump] using hlt, ?_, ?_⟩
        · rw [getD_bump_same _ _ _ hlt, hcnt]; simp
        · intro r hr
          rcases List.mem_cons.1 hr with e | hr
          · subst e; rfl
          · exact hall r hr
  | free r =>
    obtain ⟨same, nodup, fresh, rep⟩ := w
    by_cases hany : s.live.any (·.1 == r) = true
    · have hlen := filter_ne_length s.live r nodup hany
      have nd' : ((s.live.filter (·.1 != r)).map (·.1)).Nodup :=
        (List.filter_sublist.map _).nodup nodup
      have fr' : ∀ x ∈ s.live.filter (·.1 != r), x.1 < s.nextRec :=
        fun x hx => fresh x (List.mem_filter.1 hx).1
      cases hrep : s.reporting with
      | none =>
        rw [hrep] at rep
        obtain ⟨hm, hall⟩ := rep
        have hf' : s.freeTo = .goHeap := by rw [← same, hm]
        simp only [step, hany, if_true, hf']
        refine ⟨by simpa [hf'] using same, nd', fr', ?_⟩
        simp only [hrep]
        exact ⟨hm, fun x hx => hall x (List.mem_filter.1 hx).1⟩
      | some id =>
        rw [hrep] at rep
        obtain ⟨hm, hlt, hcnt, hall⟩ := rep
        have hf' : s.freeTo = .arena id := by rw [← same, hm]
        simp only [step, hany, if_true, hf']
        refine ⟨by simpa [hf'] using same, nd', fr', ?_⟩
        simp only [hrep]
        refine ⟨hm, by simpa [length_bump] using hlt, ?_, fun x hx => hall x (List.mem_filter.1 hx).1⟩
        rw [getD_bump_same _ _ _ hlt, hcnt, hlen]
        omega
    · simp only [step, hany]
      exact ⟨same, nodup, fresh, rep⟩

theorem wired_run (f : Facts) (hf : f.Stable) (ops : List Op) (s : Node) (hs : s.started = true) (w : Wired s) :
    Wired (run f s ops) ∧ (run f s ops).started = true := by
  induction ops generalizing s with
  | nil => exact ⟨w, hs⟩
  | cons op t ih =>
    simp only [run, List.foldl_cons]
    exact ih (step f s op) (started_step f s op hs) (wired_step f hf s op hs w)

/-- the reporting allocator never changes after start-up -/
theorem reporting_step (f : Facts) (hf : f.Stable) (s : Node) (op : Op) (hs : s.started = true) :
    (step f s op).reporting = s.reporting ∧ (step f s op).mallocTo = s.mallocTo ∧ (step f s op).freeTo = s.freeTo := by
  obtain ⟨hr, ho, hi, _⟩ := hf
  cases op <;> simp only [step, hs, hr, ho, hi] <;> (repeat' split) <;> simp_all

theorem reporting_run (f : Facts) (hf : f.Stable) (ops : List Op) (s : Node) (hs : s.started = true) :
    (run f s ops).reporting = s.reporting ∧ (run f s ops).mallocTo = s.mallocTo ∧ (run f s ops).freeTo = s.freeTo := by
  induction ops generalizing s with
  | nil => exact ⟨rfl, rfl, rfl⟩
  | cons op t ih =>
    simp only [run, List.foldl_cons]
    have h1 := reporting_step f hf s op hs
    have h2 := ih (step f s op) (started_step f s op hs)
    simp only [run] at h2
    exact ⟨h2.1.trans h1.1, h2.2.1.trans h1.2.1, h2.2.2.trans h1.2.2⟩

end GocoinV.AllocNode
