/- C08 table proof chunk (written once by Proofs/mk_c08_tab.py; static). -/
import GocoinV.Proofs.C08_TabDefs
import GocoinV.Gen.TablesPreG12807
import GocoinV.Gen.TablesPreG12806
namespace GocoinV.C08
open GocoinV.Gen

theorem preG128_07 : chainOK (Secp.dbl g128) ((pts Tables.preG12806).getLastD none :: pts Tables.preG12807) = true := by
  decide +kernel
theorem preG128_07_ne : pts Tables.preG12807 ≠ [] := by decide +kernel

end GocoinV.C08
