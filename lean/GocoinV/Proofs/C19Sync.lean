/-
  Proofs.C19Sync — what sync() does to the directory and to the index, as a pure plan.
-/
import GocoinV.Proofs.C19Log
namespace GocoinV.Proofs.C19
open GocoinV GocoinV.Qdb GocoinV.QdbSpec

variable {eg : Bool}

/-- the result of sync's loop over the pending keys: new index, log entries, bytes appended to the data file -/
def syncPlan (seq : Nat) : List (Key × Rec) → List Key → Nat → List (Key × Rec) × List LogEntry × Bytes
  | idx, [], _ => (idx, [], [])
  | idx, k :: t, pos =>
    match ilookup k idx with
    | some rc =>
      let r := syncPlan seq (iset k { rc with pos := u32 pos, seq := seq } idx) t (pos + (rc.data.getD []).length)
      (r.1, .put k { rc with pos := u32 pos, seq := seq } :: r.2.1, rc.data.getD [] ++ r.2.2)
    | none =>
      let r := syncPlan seq idx t pos
      (r.1, .del k :: r.2.1, r.2.2)

/-- the data-file writes of sync's loop, in order -/
def planW (seq : Nat) : List (Key × Rec) → List Key → Nat → List Effect
  | _, [], _ => []
  | idx, k :: t, pos =>
    match ilookup k idx with
    | some rc =>
      .writeDat seq pos (rc.data.getD []) ::
        planW seq (iset k { rc with pos := u32 pos, seq := seq } idx) t (pos + (rc.data.getD []).length)
    | none => planW seq idx t pos

/-- the parts of the state the sync loop leaves alone -/
def syncRest (seq : Nat) (db : DB) :=
  (db.fs.idx0, db.fs.idx1, db.fs.log, (fun t => if t = seq then none else dlookup t db.fs.dats),
   db.dataSeq, db.failed, db.datIdx, db.verSeq, db.logOpen, db.datOpen, db.volatile, db.opts, db.pending,
   db.extra, db.need, db.noSync)

theorem syncKey_exact_some (d : DB) (bidx : Bytes) (k : Key) (rc : Rec) (v f : Bytes)
    (hf : d.failed = none) (hl : ilookup k d.index = some rc) (hd : rc.data = some v)
    (hnc : hasFlag rc.flags (ncOf d.eager) = false)
    (hfile : dlookup d.dataSeq d.fs.dats = some f) (hpos : d.lastPos = f.length) :
    ∃ d', syncKey (d, bidx) k = (d', bidx ++ encRec k { rc with pos := u32 d.lastPos, seq := d.dataSeq }) ∧
      d'.index = iset k { rc with pos := u32 d.lastPos, seq := d.dataSeq } d.index ∧
      dlookup d.dataSeq d'.fs.dats = some (f ++ v) ∧ d'.lastPos = d.lastPos + v.length ∧
      syncRest d.dataSeq d' = syncRest d.dataSeq d ∧
      d'.effs = d.effs ++ [("qdb.sync:data-written", .writeDat d.dataSeq d.lastPos v)] := by
  obtain ⟨rd, rs, rp, rl, rfl'⟩ := rc
  simp only at hd hnc
  subst hd
  refine ⟨{ emit d "qdb.sync:data-written" (.writeDat d.dataSeq d.lastPos v) with
      lastPos := d.lastPos + v.length,
      index := iset k ⟨some v, d.dataSeq, u32 d.lastPos, rl, rfl'⟩ d.index }, ?_, ?_, ?_, ?_, ?_, rfl⟩
  · unfold syncKey
    simp only [hf, hl]
    unfold syncRec
    have hee : (emit d "qdb.sync:data-written" (.writeDat d.dataSeq d.lastPos v)).eager = d.eager := rfl
    simp only [hee, hnc, Bool.false_eq_true, ↓reduceIte]
    rfl
  · rfl
  · show dlookup d.dataSeq (d.fs.apply (.writeDat d.dataSeq d.lastPos v)).dats = _
    unfold FS.apply
    simp only [hfile, dlookup_dset_same, hpos, writeAt_end]
  · rfl
  · unfold syncRest
    simp only [Prod.mk.injEq]
    refine ⟨?_, ?_, ?_, ?_, rfl, rfl, rfl, rfl, rfl, rfl, rfl, rfl, rfl, rfl, rfl, rfl⟩
    · show (d.fs.apply (.writeDat d.dataSeq d.lastPos v)).idx0 = _
      unfold FS.apply; simp [hfile]
    · show (d.fs.apply (.writeDat d.dataSeq d.lastPos v)).idx1 = _
      unfold FS.apply; simp [hfile]
    · show (d.fs.apply (.writeDat d.dataSeq d.lastPos v)).log = _
      unfold FS.apply; simp [hfile]
    · funext t
      show (if t = d.dataSeq then none else dlookup t (d.fs.apply (.writeDat d.dataSeq d.lastPos v)).dats) = _
      unfold FS.apply
      by_cases ht : t = d.dataSeq
      · simp [ht]
      · simp [ht, hfile, dlookup_dset_other _ _ _ _ ht]

theorem syncRest_dataSeq {seq : Nat} {a b : DB} (h : syncRest seq a = syncRest seq b) : a.dataSeq = b.dataSeq := by
  have := congrArg (fun x => x.2.2.2.2.1) h
  exact this

theorem syncFold_plan (ks : List Key) (d : DB) (bidx f : Bytes) (hc : Cached d)
    (hfile : dlookup d.dataSeq d.fs.dats = some f) (hpos : d.lastPos = f.length) :
    ∃ d', ks.foldl syncKey (d, bidx) = (d', bidx ++ encLog (syncPlan d.dataSeq d.index ks d.lastPos).2.1) ∧
      d'.index = (syncPlan d.dataSeq d.index ks d.lastPos).1 ∧
      dlookup d.dataSeq d'.fs.dats = some (f ++ (syncPlan d.dataSeq d.index ks d.lastPos).2.2) ∧
      d'.lastPos = d.lastPos + (syncPlan d.dataSeq d.index ks d.lastPos).2.2.length ∧
      syncRest d.dataSeq d' = syncRest d.dataSeq d ∧
      (∃ ws, d'.effs = d.effs ++ ws ∧ ws.map (·.2) = planW d.dataSeq d.index ks d.lastPos) := by
  induction ks generalizing d bidx f with
  | nil => exact ⟨d, by simp [syncPlan, encLog], rfl, by simp [syncPlan, hfile], by simp [syncPlan], rfl,
      [], by simp, rfl⟩
  | cons k t ih =>
    cases hl : ilookup k d.index with
    | none =>
      have hstep : syncKey (d, bidx) k = (d, bidx ++ encDel k) := by
        unfold syncKey; simp only [hc.1, hl]
      obtain ⟨d', h1, h2, h3, h4, h5, h6⟩ := ih d (bidx ++ encDel k) f hc hfile hpos
      refine ⟨d', ?_, ?_, ?_, ?_, h5, ?_⟩
      · simp only [List.foldl_cons, hstep, h1, syncPlan, hl]
        simp [encLog, encEntry, List.append_assoc]
      · simp only [syncPlan, hl]; exact h2
      · simp only [syncPlan, hl]; exact h3
      · simp only [syncPlan, hl]; exact h4
      · simp only [planW, hl]; exact h6
    | some rc =>
      have hrc := allCached_lookup hc.2 k rc hl
      cases hd : rc.data with
      | none => have := hrc.1; simp [hd] at this
      | some v =>
        obtain ⟨d1, s1, s2, s3, s4, s5, s6⟩ := syncKey_exact_some d bidx k rc v f hc.1 hl hd hrc.2 hfile hpos
        have hc1 : Cached d1 := by
          have := (syncKey_cached (d, bidx) k hc).cached
          rw [s1] at this
          exact this
        have hds : d1.dataSeq = d.dataSeq := syncRest_dataSeq s5
        obtain ⟨d', h1, h2, h3, h4, h5, ws, h6, h7⟩ := ih d1 (bidx ++ encRec k { rc with pos := u32 d.lastPos, seq := d.dataSeq })
          (f ++ v) hc1 (by rw [hds]; exact s3) (by rw [s4, hpos]; simp)
        have hv : rc.data.getD [] = v := by simp [hd]
        rw [hds, s2, s4] at h1 h2 h3 h4 h7
        rw [hds] at h5
        refine ⟨d', ?_, ?_, ?_, ?_, h5.trans s5,
          ("qdb.sync:data-written", .writeDat d.dataSeq d.lastPos v) :: ws, by rw [h6, s6]; simp, ?_⟩
        rotate_right
        · simp only [planW, hl, hv, List.map_cons]; rw [h7]
        · simp only [List.foldl_cons, s1, h1, syncPlan, hl, hv]
          simp [encLog, encEntry, List.append_assoc]
        · simp only [syncPlan, hl, hv]; exact h2
        · simp only [syncPlan, hl, hv]; rw [h3]; simp [List.append_assoc]
        · simp only [syncPlan, hl, hv]; rw [h4]; simp [List.length_append]; omega

/-! ### properties of the plan -/

theorem nodup_applyEntryL (D : List (Key × Rec)) (e : LogEntry) (h : (Keys D).Nodup) : (Keys (applyEntryL D e)).Nodup := by
  cases e with
  | put k r => exact nodup_iset k r D h
  | del k => exact nodup_ierase k D h

/-- lookups after replaying the plan's entries on the disk index, and in the plan's index -/
theorem plan_lookup (seq : Nat) (ks : List Key) (hnd : ks.Nodup) (idx : List (Key × Rec)) (pos : Nat)
    (D : List (Key × Rec)) (hD : (Keys D).Nodup) (k : Key) :
    ilookup k (applyEntriesL D ((syncPlan seq idx ks pos).2.1.map stripE)) =
      (if k ∈ ks then (ilookup k (syncPlan seq idx ks pos).1).map strip else ilookup k D) ∧
    (k ∉ ks → ilookup k (syncPlan seq idx ks pos).1 = ilookup k idx) := by
  induction ks generalizing idx pos D with
  | nil => simp [syncPlan, applyEntriesL]
  | cons j t ih =>
    have hj : j ∉ t := (List.nodup_cons.mp hnd).1
    have ht : t.Nodup := (List.nodup_cons.mp hnd).2
    cases hl : ilookup j idx with
    | none =>
      have hplan : syncPlan seq idx (j :: t) pos =
          ((syncPlan seq idx t pos).1, .del j :: (syncPlan seq idx t pos).2.1, (syncPlan seq idx t pos).2.2) := by
        simp [syncPlan, hl]
      rw [hplan]
      obtain ⟨a, b⟩ := ih ht idx pos (ierase j D) (nodup_ierase j D hD)
      simp only [List.map_cons, stripE, applyEntriesL, List.foldl_cons, applyEntryL] at a ⊢
      constructor
      · rw [a]
        by_cases hk : k = j
        · subst hk
          have hb : ilookup k (syncPlan seq idx t pos).1 = ilookup k idx := (ih ht idx pos (ierase k D) (nodup_ierase k D hD)).2 hj
          simp [hj, ilookup_ierase _ _ _ hD, hb, hl]
        · have hk' : ¬ j = k := fun e => hk e.symm
          by_cases hkt : k ∈ t
          · simp [hkt]
          · simp [hkt, hk, ilookup_ierase _ _ _ hD, hk']
      · intro hk
        simp only [List.mem_cons, not_or] at hk
        exact b hk.2
    | some rc =>
      let rc' : Rec := { rc with pos := u32 pos, seq := seq }
      have hplan : syncPlan seq idx (j :: t) pos =
          ((syncPlan seq (iset j rc' idx) t (pos + (rc.data.getD []).length)).1,
           .put j rc' :: (syncPlan seq (iset j rc' idx) t (pos + (rc.data.getD []).length)).2.1,
           rc.data.getD [] ++ (syncPlan seq (iset j rc' idx) t (pos + (rc.data.getD []).length)).2.2) := by
        simp [syncPlan, hl, rc']
      rw [hplan]
      obtain ⟨a, b⟩ := ih ht (iset j rc' idx) (pos + (rc.data.getD []).length) (iset j (strip rc') D)
        (nodup_iset j (strip rc') D hD)
      simp only [List.map_cons, stripE, applyEntriesL, List.foldl_cons, applyEntryL] at a ⊢
      constructor
      · rw [a]
        by_cases hk : k = j
        · subst hk
          have hb := (ih ht (iset k rc' idx) (pos + (rc.data.getD []).length) (iset k (strip rc') D)
            (nodup_iset k (strip rc') D hD)).2 hj
          simp [hj, ilookup_iset, hb]
        · have hk' : ¬ j = k := fun e => hk e.symm
          by_cases hkt : k ∈ t
          · simp [hkt]
          · simp [hkt, hk, ilookup_iset, hk']
      · intro hk
        simp only [List.mem_cons, not_or] at hk
        rw [b hk.2, ilookup_iset]
        have hk' : ¬ j = k := fun e => hk.1 e.symm
        simp [hk']

/-- the record's bytes are in the file at [pos, pos+len), without uint32 wrap-around -/
def ReadsBack (file : Bytes) (r : Rec) (v : Bytes) : Prop :=
  r.pos + r.len ≤ file.length ∧ r.pos + r.len < 2^32 ∧ (file.drop r.pos).take r.len = v

theorem ReadsBack.append {file : Bytes} {r : Rec} {v : Bytes} (h : ReadsBack file r v) (g : Bytes) :
    ReadsBack (file ++ g) r v := by
  obtain ⟨h1, h2, h3⟩ := h
  refine ⟨by simp only [List.length_append]; omega, h2, ?_⟩
  rw [List.drop_append_of_le_length (by omega), List.take_append_of_le_length (by simp only [List.length_drop]; omega)]
  exact h3

/-- every record the plan wrote can be read back from the extended data file -/
theorem plan_reads (seq : Nat) (ks : List Key) (hnd : ks.Nodup) (idx : List (Key × Rec)) (f : Bytes)
    (hwf : ∀ kr ∈ idx, kr.2.len = (kr.2.data.getD []).length)
    (hsmall : f.length + (syncPlan seq idx ks f.length).2.2.length < 2^32)
    (k : Key) (hk : k ∈ ks) (r : Rec) (hr : ilookup k (syncPlan seq idx ks f.length).1 = some r) :
    r.seq = seq ∧ ReadsBack (f ++ (syncPlan seq idx ks f.length).2.2) r (r.data.getD []) := by
  induction ks generalizing idx f with
  | nil => cases hk
  | cons j t ih =>
    have hj : j ∉ t := (List.nodup_cons.mp hnd).1
    have ht : t.Nodup := (List.nodup_cons.mp hnd).2
    cases hl : ilookup j idx with
    | none =>
      have hplan : syncPlan seq idx (j :: t) f.length =
          ((syncPlan seq idx t f.length).1, .del j :: (syncPlan seq idx t f.length).2.1, (syncPlan seq idx t f.length).2.2) := by
        simp [syncPlan, hl]
      rw [hplan] at hr hsmall ⊢
      simp only at hr hsmall ⊢
      by_cases hkj : k = j
      · subst hkj
        have := (plan_lookup seq t ht idx f.length [] (by simp [Keys]) k).2 hj
        rw [this, hl] at hr
        cases hr
      · have hkt : k ∈ t := by
          rcases List.mem_cons.mp hk with h | h
          · exact absurd h hkj
          · exact h
        exact ih ht idx f hwf hsmall hkt hr
    | some rc =>
      let rc' : Rec := { rc with pos := u32 f.length, seq := seq }
      let v := rc.data.getD []
      have hplan : syncPlan seq idx (j :: t) f.length =
          ((syncPlan seq (iset j rc' idx) t (f.length + v.length)).1,
           .put j rc' :: (syncPlan seq (iset j rc' idx) t (f.length + v.length)).2.1,
           v ++ (syncPlan seq (iset j rc' idx) t (f.length + v.length)).2.2) := by
        simp [syncPlan, hl, rc', v]
      rw [hplan] at hr hsmall ⊢
      simp only [List.length_append] at hr hsmall ⊢
      have hlen : (f ++ v).length = f.length + v.length := by simp
      have hwf' : ∀ kr ∈ iset j rc' idx, kr.2.len = (kr.2.data.getD []).length := by
        intro kr hkr
        rcases mem_iset j rc' idx kr hkr with h | h
        · rw [h]
          obtain ⟨j', hm⟩ := ilookup_mem j rc idx hl
          exact hwf (j', rc) hm
        · exact hwf kr h
      by_cases hkj : k = j
      · subst hkj
        have hb := (plan_lookup seq t ht (iset k rc' idx) (f.length + v.length) [] (by simp [Keys]) k).2 hj
        rw [hb, ilookup_iset] at hr
        simp only [↓reduceIte, Option.some.injEq] at hr
        subst hr
        have hrl : rc.len = v.length := by
          obtain ⟨j', hm⟩ := ilookup_mem k rc idx hl
          exact hwf (j', rc) hm
        have hu : u32 f.length = f.length := Nat.mod_eq_of_lt (by omega)
        refine ⟨rfl, ?_, ?_, ?_⟩
        · show u32 f.length + rc.len ≤ _
          rw [hu, hrl]; simp only [List.length_append]; omega
        · show u32 f.length + rc.len < 2^32
          rw [hu, hrl]; omega
        · show ((f ++ (v ++ _)).drop (u32 f.length)).take rc.len = v
          rw [hu, hrl, List.drop_left' rfl]
          exact List.take_left' rfl
      · have hkt : k ∈ t := by
          rcases List.mem_cons.mp hk with h | h
          · exact absurd h hkj
          · exact h
        have := ih ht (iset j rc' idx) (f ++ v) hwf' (by rw [hlen]; omega) hkt (by rw [hlen]; exact hr)
        rw [hlen] at this
        simpa [List.append_assoc] using this

/-- every entry of the plan is one `loadlog` parses back -/
theorem plan_fits (seq : Nat) (hseq : seq < 2^32) (ks : List Key) (hks : ∀ k ∈ ks, k < 2^64)
    (idx : List (Key × Rec)) (hwf : ∀ kr ∈ idx, RecWF kr) (pos : Nat) (hpos : 4 ≤ pos)
    (hsmall : pos + (syncPlan seq idx ks pos).2.2.length < 2^32) :
    ∀ e ∈ (syncPlan seq idx ks pos).2.1, EntryFits e := by
  induction ks generalizing idx pos with
  | nil => intro e he; simp [syncPlan] at he
  | cons j t ih =>
    have hjk := hks j List.mem_cons_self
    have hkt : ∀ k ∈ t, k < 2^64 := fun k hk => hks k (List.mem_cons_of_mem _ hk)
    cases hl : ilookup j idx with
    | none =>
      have hplan : syncPlan seq idx (j :: t) pos =
          ((syncPlan seq idx t pos).1, .del j :: (syncPlan seq idx t pos).2.1, (syncPlan seq idx t pos).2.2) := by
        simp [syncPlan, hl]
      rw [hplan] at hsmall ⊢
      intro e he
      simp only [List.mem_cons] at he
      rcases he with rfl | he
      · exact hjk
      · exact ih hkt idx hwf pos hpos hsmall e he
    | some rc =>
      let rc' : Rec := { rc with pos := u32 pos, seq := seq }
      let v := rc.data.getD []
      have hplan : syncPlan seq idx (j :: t) pos =
          ((syncPlan seq (iset j rc' idx) t (pos + v.length)).1,
           .put j rc' :: (syncPlan seq (iset j rc' idx) t (pos + v.length)).2.1,
           v ++ (syncPlan seq (iset j rc' idx) t (pos + v.length)).2.2) := by
        simp [syncPlan, hl, rc', v]
      rw [hplan] at hsmall ⊢
      simp only [List.length_append] at hsmall
      obtain ⟨j', hm⟩ := ilookup_mem j rc idx hl
      obtain ⟨_, hfl, hlen⟩ := hwf (j', rc) hm
      have hwf' : ∀ kr ∈ iset j rc' idx, RecWF kr := by
        intro kr hkr
        rcases mem_iset j rc' idx kr hkr with h | h
        · rw [h]; exact ⟨hjk, hfl, hlen⟩
        · exact hwf kr h
      intro e he
      simp only [List.mem_cons] at he
      rcases he with rfl | he
      · have hu : u32 pos = pos := Nat.mod_eq_of_lt (by omega)
        refine ⟨⟨hjk, ?_, ?_, hseq, hfl⟩, ?_⟩
        · show u32 pos < 2^32; exact u32_lt _
        · show rc.len < 2^32
          have : rc.len = v.length := hlen
          omega
        · show u32 pos ≠ 0; rw [hu]; omega
      · exact ih hkt (iset j rc' idx) hwf' (pos + v.length) (by omega) (by omega) e he

end GocoinV.Proofs.C19
