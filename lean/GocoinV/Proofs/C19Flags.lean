/-
  Proofs.C19Flags — lemmas for the second audit-fix pass of C19:
  * browsing-flag changes touch memory only (no file operation, nothing pending), and NewDBExt gives every record the
    flag word of its newest index entry on disk (`diskIndex`): the rule behind the known finding flag-change-not-durable;
  * a crash-free history at the level of the plain map (`DurOK` along `ops.map .op` pins the in-memory map to `vrun`);
  * the directory left by a crash inside an operation that follows any history satisfies `OpenOK`.
-/
import GocoinV.Proofs.C19Lz
import GocoinV.Proofs.C19Abort
namespace GocoinV.Proofs.C19
open GocoinV GocoinV.Qdb GocoinV.QdbSpec

/-! ### flag changes write nothing -/

theorem fail_keeps (db : DB) (why : String) :
    (fail db why).fs = db.fs ∧ (fail db why).effs = db.effs ∧ (fail db why).pending = db.pending := by
  unfold fail
  split <;> exact ⟨rfl, rfl, rfl⟩

theorem applyFlags_keeps (db : DB) (k : Key) (fl : Nat) :
    (applyFlags db k fl).fs = db.fs ∧ (applyFlags db k fl).effs = db.effs ∧ (applyFlags db k fl).pending = db.pending := by
  unfold applyFlags
  split
  · exact ⟨rfl, rfl, rfl⟩
  · split <;> exact ⟨rfl, rfl, rfl⟩

theorem get_keeps (db : DB) (k : Key) :
    (Qdb.get db k).1.fs = db.fs ∧ (Qdb.get db k).1.effs = db.effs ∧ (Qdb.get db k).1.pending = db.pending := by
  unfold Qdb.get
  split
  · exact ⟨rfl, rfl, rfl⟩
  · split
    · exact ⟨rfl, rfl, rfl⟩
    · split
      · exact fail_keeps db "exit"
      · exact ⟨rfl, rfl, rfl⟩

theorem browseStep_keeps (all : Bool) (w : List (Key × Nat)) (vs : Option (List Key))
    (st : DB × List (Key × Rec) × List (Key × Bytes)) (kr : Key × Rec) :
    (browseStep all w vs st kr).1.fs = st.1.fs ∧ (browseStep all w vs st kr).1.effs = st.1.effs ∧
    (browseStep all w vs st kr).1.pending = st.1.pending := by
  obtain ⟨d, a, o⟩ := st
  unfold browseStep
  dsimp only
  split
  · exact ⟨rfl, rfl, rfl⟩
  · split
    · exact ⟨rfl, rfl, rfl⟩
    · split
      · exact fail_keeps d "exit"
      · exact ⟨rfl, rfl, rfl⟩

theorem browseGen_keeps (all : Bool) (db : DB) (w : List (Key × Nat)) :
    (browseGen all db w).1.fs = db.fs ∧ (browseGen all db w).1.effs = db.effs ∧
    (browseGen all db w).1.pending = db.pending := by
  have hf : ∀ (vs : Option (List Key)) (l : List (Key × Rec)) (st : DB × List (Key × Rec) × List (Key × Bytes)),
      (l.foldl (browseStep all w vs) st).1.fs = st.1.fs ∧ (l.foldl (browseStep all w vs) st).1.effs = st.1.effs ∧
      (l.foldl (browseStep all w vs) st).1.pending = st.1.pending := by
    intro vs l
    induction l with
    | nil => intro st; exact ⟨rfl, rfl, rfl⟩
    | cons kr t ih =>
      intro st
      simp only [List.foldl_cons]
      obtain ⟨a, b, c⟩ := ih (browseStep all w vs st kr)
      obtain ⟨a', b', c'⟩ := browseStep_keeps all w vs st kr
      exact ⟨a.trans a', b.trans b', c.trans c'⟩
  unfold browseGen
  split
  · exact ⟨rfl, rfl, rfl⟩
  · have h := hf (visitSet Rec.flags all db.index w) db.index (db, [], [])
    generalize db.index.foldl (browseStep all w (visitSet Rec.flags all db.index w)) (db, [], []) = X at h
    obtain ⟨d, i, o⟩ := X
    dsimp only at h ⊢
    split <;> exact h

/-! ### NewDBExt: every record comes up with the flag word of its newest index entry on disk -/

def kf (kr : Key × Rec) : Key × Nat := (kr.1, kr.2.flags)

theorem loadOne_failed_sticky (l : List (Key × Rec)) (st : DB × List (Key × Rec)) (h : st.1.failed ≠ none) :
    (l.foldl loadOne st).1.failed ≠ none := by
  induction l generalizing st with
  | nil => exact h
  | cons kr t ih =>
    simp only [List.foldl_cons]
    apply ih
    unfold loadOne
    split
    · exact h
    · rename_i hn; exact absurd hn h

theorem fail_failed (db : DB) (why : String) : (fail db why).failed ≠ none := by
  unfold fail
  split
  · rename_i x hx; rw [hx]; simp
  · simp

theorem loadOne_flags (l : List (Key × Rec)) (st : DB × List (Key × Rec)) (h : (l.foldl loadOne st).1.failed = none) :
    (l.foldl loadOne st).2.map kf = st.2.map kf ++ l.map kf := by
  induction l generalizing st with
  | nil => simp
  | cons kr t ih =>
    simp only [List.foldl_cons] at h ⊢
    have hs : (loadOne st kr).1.failed = none := by
      cases hf : (loadOne st kr).1.failed with
      | none => rfl
      | some x => exact absurd h (loadOne_failed_sticky t _ (by rw [hf]; simp))
    rw [ih _ h]
    have key : (loadOne st kr).2.map kf = st.2.map kf ++ [kf kr] := by
      cases hf0 : st.1.failed with
      | some x =>
        have e : (loadOne st kr).1.failed = some x := by
          unfold loadOne
          simp only [hf0]
        rw [e] at hs
        cases hs
      | none =>
        revert hs
        unfold loadOne
        simp only [hf0]
        split
        · intro _; simp
        · split
          · intro hc; exact absurd hc (fail_failed _ _)
          · split
            · intro hc; exact absurd hc (fail_failed _ _)
            · intro _; simp [kf]
    rw [key]
    simp

theorem ilookup_kf (k : Key) (l : List (Key × Rec)) : ilookup k (l.map kf) = (ilookup k l).map (·.flags) :=
  ilookup_mapKV (fun _ r => r.flags) k l

/-- NewDBExt (any directory, any mode, any LoadData — `eg` is the ghost field): when it does not fail, every record it
    holds carries exactly the flag word of the key's entry in `diskIndex F` = newest valid snapshot + index log -/
theorem open_flags (F : FS) (vol load : Bool) (opts : Opts) (h : (openDB F vol load opts eg).failed = none) (k : Key) :
    (ilookup k (openDB F vol load opts eg).index).map (·.flags) = (ilookup k (diskIndex F)).map (·.flags) := by
  have hi := openIndex_index (eg := eg) F vol opts
  generalize hX : openIndex { fs := F, volatile := vol, opts := opts, eager := eg } = X at hi
  cases load with
  | false =>
    have e : (openDB F vol false opts eg).index = X.index := by
      unfold openDB; simp only [hX]; rfl
    rw [e, hi]
  | true =>
    have e : openDB F vol true opts eg = { loadAll X with dataSeq := u32 ((loadAll X).maxSeq + 1) } := by
      unfold openDB; simp only [hX]; rfl
    rw [e] at h ⊢
    have hl : (loadAll X).failed = none := h
    show (ilookup k (loadAll X).index).map (·.flags) = _
    unfold loadAll at hl ⊢
    generalize hY : X.index.foldl loadOne (X, []) = Y at hl ⊢
    dsimp only at hl ⊢
    have hfl : Y.1.failed = none := by
      cases hf : Y.1.failed with
      | none => rfl
      | some x => simp only [hf] at hl; cases hl
    have hk := loadOne_flags X.index (X, []) (by rw [hY]; exact hfl)
    rw [hY] at hk
    simp only [hfl]
    show (ilookup k Y.2).map (·.flags) = _
    rw [← ilookup_kf, hk, List.map_nil, List.nil_append, ilookup_kf, hi]

/-! ### crash-free histories at the level of the plain map -/

theorem durOK_crashfree (ops : List Op) (vol : Bool) (m d m' d' : Key → Option Bytes)
    (h : DurOK vol m d (ops.map HItem.op) m' d') : m' = vrun m ops := by
  induction ops generalizing vol m d with
  | nil => exact h.1
  | cons o t ih =>
    simp only [List.map_cons, DurOK] at h
    show m' = List.foldl vstep (vstep m o) t
    rcases h with h | ⟨_, h⟩
    · exact ih _ _ _ h
    · exact ih _ _ _ h

theorem vstep_twinOp (m : Key → Option Bytes) (o : Op) : vstep m (twinOp o) = vstep m o := by
  cases o <;> rfl

theorem vrun_twinOp (ops : List Op) (m : Key → Option Bytes) : vrun m (ops.map twinOp) = vrun m ops := by
  induction ops generalizing m with
  | nil => rfl
  | cons o t ih =>
    show vrun (vstep m (twinOp o)) (t.map twinOp) = vrun (vstep m o) t
    rw [vstep_twinOp, ih]

theorem twin_ops (ops : List Op) : twin (ops.map HItem.op) = (ops.map twinOp).map HItem.op := by
  unfold twin
  rw [List.map_map, List.map_map]
  rfl

theorem hrun_ops (db : DB) (ops : List Op) : hrun db (ops.map HItem.op) = run db ops := by
  induction ops generalizing db with
  | nil => rfl
  | cons o t ih => exact ih (step db o)

theorem hrun_append (db : DB) (H1 H2 : List HItem) : hrun db (H1 ++ H2) = hrun (hrun db H1) H2 := by
  unfold hrun
  rw [List.foldl_append]

/-! ### the raw crash directory after any history -/

/-- after any history, the directory left by a crash inside a further operation `o` (after any number of its file
    operations) and by any number of crashed recovery attempts is one NewDBExt can open (`OpenOK` for the eager ghost),
    and its durable map is — for all keys at once — the one from before `o` or the complete in-memory map after `o` -/
theorem crash_dir_openOK (a g : DB) (h : Twin a g) (o : Op) (oko : OpOK5 o) (f1 : OpFits3 g (twinOp o))
    (f2 : DFits (preSync g (twinOp o))) (n : Nat) (ms : List Nat) (ropts : Opts) :
    OpenOK true (recrash ropts (crashDir a o n) ms) ∧
    ((∀ k, diskValue (recrash ropts (crashDir a o n) ms) k = diskValue a.fs k) ∨
     (∀ k, diskValue (recrash ropts (crashDir a o n) ms) k = vstep (vals g) o k)) := by
  have hs := twin_step a g h o oko f1 f2
  have hge : g.eager = true := h.ge
  have hcd : crashDir a o n = crashDir g (twinOp o) n := by
    unfold crashDir opEffs
    rw [h.fs, h.effs, hs.effs]
  have S := stepOK g h.sinv (twinOp o) (by rw [hge]; exact opOK3_twin o oko) f1 f2
  obtain ⟨es, e1, A⟩ := S.atomic
  have hcd2 : crashDir g (twinOp o) n = g.fs.applyAll ((es.map (·.2)).take n) := by
    unfold crashDir opEffs
    rw [e1, List.drop_left]
  obtain ⟨o1, o1v⟩ := A n
  rw [← hcd2] at o1 o1v
  obtain ⟨o2, o2v⟩ := recrash_ok ropts ms _ o1
  rw [hge] at o2
  rw [hcd, h.fs]
  refine ⟨o2, ?_⟩
  rcases o1v with hv | hv
  · exact Or.inl (fun k => (o2v k).trans (hv k))
  · refine Or.inr (fun k => ?_)
    rw [o2v k, hv k, S.vals k, vstep_twinOp]

/-- a Browse changes flag words only: the values of the map stay -/
theorem mget_mbrowseState (m : M) (w : List (Key × Nat)) (k : Key) : mget (mbrowseState m w) k = mget m k := by
  unfold mget
  cases hl : ilookup k m with
  | some vf =>
    obtain ⟨v, f⟩ := vf
    rw [mbrowseState_lookup m w k v f hl]
    rfl
  | none =>
    unfold mbrowseState
    generalize mvisitSet false m w = vs
    have : (m.map fun (x : Key × (Bytes × Nat)) =>
        match x with
        | (k, v, f) => if skipB false vs f k = true then (k, v, f) else (k, v, applyBrowsingFlags f (walkRes w k))) =
        m.map fun kr => (kr.1, browseGM w vs kr.1 kr.2) := by
      apply List.map_congr_left
      intro x _
      obtain ⟨k, v, f⟩ := x
      simp only [browseGM]
      split <;> rfl
    rw [this, ilookup_mapKV (browseGM w vs) k m, hl]
    rfl

theorem hfits_append (db : DB) (H1 H2 : List HItem) (h : HFits db (H1 ++ H2)) :
    HFits db H1 ∧ HFits (hrun db H1) H2 := by
  induction H1 generalizing db with
  | nil => exact ⟨trivial, h⟩
  | cons i t ih =>
    cases i with
    | op o =>
      obtain ⟨f1, f2, f3⟩ := h
      obtain ⟨a, b⟩ := ih (step db o) f3
      exact ⟨⟨f1, f2, a⟩, b⟩
    | crash o n ms vol opts =>
      obtain ⟨f1, f2, f3, f4⟩ := h
      obtain ⟨a, b⟩ := ih (hstep db (.crash o n ms vol opts)) f4
      exact ⟨⟨f1, f2, f3, a⟩, b⟩

end GocoinV.Proofs.C19
