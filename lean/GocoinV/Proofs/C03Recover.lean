/-
  Proofs.C03Recover — public-key recovery on ARBITRARY (r, s, m, recid) yields a key under which the
  signature verifies, for both choices of the nonce point's x-coordinate (x = r and x = r + n ≥ n).
  This is the direction of the ECDSA equation in which the reduction "x(R) mod n" matters: with
  recid bit 1 set the nonce point has n ≤ x(R) < p and the signature carries r = x(R) − n.

  The only hypothesis is that the reconstructed nonce point R has order dividing n (n·R = ∞). Every
  point of secp256k1 has (the group has prime order n — cofactor 1), but that is a point count, not
  proved here; for a concrete R it is a kernel evaluation (see the example in Props/C03.lean).
-/
import GocoinV.Proofs.C03Ecdsa
namespace GocoinV.Proofs.C03
open GocoinV GocoinV.Secp GocoinV.Model GocoinV.Model.Sig

/-- the nonce point `Signature.recover` reconstructs from (r, recid): x = r (+ n when bit 1 is set),
    y = the square root with the parity of bit 0 -/
def recoverNonce (r recid : Nat) : Point :=
  let rx := if recid &&& 2 ≠ 0 then r + n else r
  some (rx % p, setXO rx (decide (recid &&& 1 ≠ 0)))

theorem setXO_lt (x : Nat) (odd : Bool) : setXO x odd < p := by
  unfold setXO
  simp only
  split
  · exact Nat.mod_lt _ p_pos
  · exact sqrtCand_lt _

theorem fld_rv {F : Type} [Field F] (r s m : F) (hr : r ≠ 0) (hs : s ≠ 0) :
    (r⁻¹ * s) * (s⁻¹ * r) = 1 ∧ (-(r⁻¹ * m)) * (s⁻¹ * r) + s⁻¹ * m = 0 := by
  constructor
  · field_simp
  · field_simp
    ring

section
variable [L : SecpGroupLaw]

/-- scalars act modulo n on a point of order dividing n -/
theorem nsmul_congr_of_order (R : CurvePt) (hR : n • R = 0) (a b : Nat)
    (h : (a : ZMod n) = (b : ZMod n)) : a • R = b • R := by
  have hm : a % n = b % n := (mod_eq_iff_cast n a b).mpr h
  have red : ∀ c : Nat, c • R = (c % n) • R := by
    intro c
    conv_lhs => rw [← Nat.mod_add_div c n]
    rw [add_nsmul, mul_nsmul, hR, smul_zero, add_zero]
  rw [red a, red b, hm]

/-- the group computation: the verifier's point for the recovered key is the nonce point -/
theorem recover_verify_pt (R : CurvePt) (hR : n • R = 0) (r s m : Nat)
    (hr0 : 0 < r) (hrn : r < n) (hs0 : 0 < s) (hsn : s < n) :
    add (mul (modInvN s * r % n % n)
          (add (mul (modInvN r * s % n % n) R.1) (mul ((n - modInvN r * m % n) % n) G)))
        (mul (modInvN s * m % n % n) G) = R.1 := by
  have hRr := cast_ne_zero_of_lt r hr0 hrn
  have hSs := cast_ne_zero_of_lt s hs0 hsn
  obtain ⟨k1, k2⟩ := fld_rv (r : ZMod n) (s : ZMod n) (m : ZMod n) hRr hSs
  have hle : modInvN r * m % n ≤ n := Nat.le_of_lt (Nat.mod_lt _ n_pos)
  -- lift to the group of curve points
  rw [mul_eq_nsmul (modInvN r * s % n % n) R, mul_G ((n - modInvN r * m % n) % n), ← val_add,
    mul_eq_nsmul (modInvN s * r % n % n), mul_G (modInvN s * m % n % n), ← val_add]
  refine congrArg Subtype.val ?_
  rw [smul_add, ← mul_nsmul, ← mul_nsmul, add_assoc, ← add_nsmul]
  have e1 : ((modInvN r * s % n % n * (modInvN s * r % n % n) : Nat) : ZMod n) = ((1 : Nat) : ZMod n) := by
    unfold modInvN
    simp only [ZMod.natCast_mod, Nat.cast_mul, invN_cast, Nat.cast_one]
    exact k1
  have e2 : (((n - modInvN r * m % n) % n * (modInvN s * r % n % n) + modInvN s * m % n % n : Nat) : ZMod n)
      = ((0 : Nat) : ZMod n) := by
    unfold modInvN at hle ⊢
    simp only [ZMod.natCast_mod, Nat.cast_mul, Nat.cast_add, Nat.cast_sub hle, ZMod.natCast_self,
      invN_cast, zero_sub, Nat.cast_zero]
    exact k2
  rw [nsmul_congr_of_order R hR _ _ e1, nsmul_G_congr _ _ e2, one_nsmul, zero_nsmul, add_zero]

/-- `RecoverPublicKey(r, s, h, recid)` returned the finite point Q and the nonce point it went
    through has order dividing n: then `Signature.Verify` accepts (r, s) for Q and h. -/
theorem recover_verifies_core_legacy (r s recid : Nat) (hb : Bytes) (Q : Nat × Nat)
    (h : recoverPublicKeyLegacy r s hb recid = some (some Q))
    (hord : mul n (recoverNonce r recid) = none) :
    sigVerify true r s (some Q) (beVal hb) = true := by
  unfold recoverPublicKeyLegacy at h
  by_cases hrange : r = 0 ∨ r ≥ n ∨ s = 0 ∨ s ≥ n
  · rw [if_pos hrange] at h; exact absurd h (by simp)
  rw [if_neg hrange] at h
  have hpn : n < p := by decide
  unfold recoverLegacy at h
  unfold recoverNonce at hord
  generalize hrx : (if recid &&& 2 ≠ 0 then r + n else r) = rx at h hord
  simp only at h hord
  generalize hy : setXO rx (decide (recid &&& 1 ≠ 0)) = y at h hord
  have hyp : y < p := by rw [← hy]; exact setXO_lt _ _
  by_cases hbig : recid &&& 2 ≠ 0 ∧ rx ≥ p
  · rw [if_pos hbig] at h; exact absurd h (by simp)
  rw [if_neg hbig] at h
  have hxp : rx < p := by
    by_cases h2 : recid &&& 2 ≠ 0
    · have : ¬ rx ≥ p := fun hge => hbig ⟨h2, hge⟩
      omega
    · rw [if_neg h2] at hrx; omega
  have hxn : rx % n = r := by
    by_cases h2 : recid &&& 2 ≠ 0
    · rw [if_pos h2] at hrx
      rw [← hrx, Nat.add_mod_right, Nat.mod_eq_of_lt (by omega)]
    · rw [if_neg h2] at hrx
      rw [← hrx, Nat.mod_eq_of_lt (by omega)]
  cases hv : isValid rx y with
  | false => rw [hv] at h; simp at h
  | true =>
    rw [hv] at h
    simp only [Bool.not_true, Bool.false_eq_true, ↓reduceIte, Option.some.injEq, ecmult_nat,
      Nat.mod_eq_of_lt hxp] at h
    rw [Nat.mod_eq_of_lt hxp] at hord
    have hon : OnC (some (rx, y)) := by
      unfold OnC; rw [← isValid_eq_onCurve rx y hxp hyp]; exact hv
    let R : CurvePt := ⟨some (rx, y), hon⟩
    have hR : n • R = 0 := Subtype.ext (by rw [← mul_eq_nsmul]; exact hord)
    have hpt := recover_verify_pt R hR r s (beVal hb) (by omega) (by omega) (by omega) (by omega)
    rw [h] at hpt
    unfold sigVerify
    have hrange' : ¬ (true = true ∧ (r = 0 ∨ r ≥ n ∨ s = 0 ∨ s ≥ n)) := fun hh => hrange hh.2
    rw [if_neg hrange', recompute_eq r s (beVal hb) (some Q) rx y hpt, hxn]
    simp

/-- the same for the current code (which additionally refuses a result at infinity) -/
theorem recover_verifies_core (r s recid : Nat) (hb : Bytes) (Q : Nat × Nat)
    (h : recoverPublicKey r s hb recid = some (some Q))
    (hord : mul n (recoverNonce r recid) = none) :
    sigVerify true r s (some Q) (beVal hb) = true := by
  rw [recoverPublicKey_eq] at h
  refine recover_verifies_core_legacy r s recid hb Q ?_ hord
  cases hl : recoverPublicKeyLegacy r s hb recid with
  | none => rw [hl] at h; simp at h
  | some P =>
    cases P with
    | none => rw [hl] at h; simp at h
    | some q => rw [hl] at h; simpa using h

omit L in
/-- the current code never hands out the point at infinity as a recovered key -/
theorem recover_ne_infinity (r s recid : Nat) (hb : Bytes) :
    recoverPublicKey r s hb recid ≠ some none := by
  rw [recoverPublicKey_eq]
  cases hl : recoverPublicKeyLegacy r s hb recid with
  | none => simp
  | some P => cases P <;> simp

end
end GocoinV.Proofs.C03
