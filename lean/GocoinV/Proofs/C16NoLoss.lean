/-
  Proofs.C16NoLoss — retention off (`keep = 0` in every session): no data file is ever removed, renamed into oldat/ or
  shadowed, so the ghost `FS.lost` stays empty and the retention-aware claim `claimR` is the unconditional claim `claim`
  of the durable-map specification. This turns the general retention theorem into the `keep = 0` theorems.
-/
import GocoinV.Proofs.C16Refine
namespace GocoinV.BlockDB

def NoLoss (s : State) : Prop := s.fs.lost = [] ∧ s.fs.olds = [] ∧ s.opts.keep = 0

def Op.keep0 : Op → Prop
  | .reopen o => o.keep = 0
  | _ => True

theorem noloss_same (s s' : State) (h : NoLoss s) (h1 : s'.fs.lost = s.fs.lost) (h2 : s'.fs.olds = s.fs.olds)
    (h3 : s'.opts = s.opts) : NoLoss s' := by
  unfold NoLoss; rw [h1, h2, h3]; exact h

theorem addToCache_noloss (s : State) (k : Key) (d : Bytes) (h : NoLoss s) : NoLoss (addToCache s k d) := by
  obtain ⟨_, _, g3, g4, _⟩ := addToCache_fields s k d
  exact noloss_same s _ h (by rw [g3]) (by rw [g3]) g4

theorem maybeRoll_noloss (s : State) (n : Nat) (h : NoLoss s) : NoLoss (maybeRoll s n) := by
  unfold maybeRoll
  split
  · unfold rollOver
    have hk : ¬ (s.opts.keep ≠ 0 ∧ s.maxdatfileidx ≥ s.opts.keep) := by rw [h.2.2]; simp
    simp only [hk, ↓reduceIte]
    exact h
  · exact h

theorem writeRecord_noloss (s : State) (b : B2W) (r0 : Rec) (cbts : Bytes) (h : NoLoss s) :
    NoLoss (writeRecord s b r0 cbts) := by
  unfold writeRecord
  exact h

theorem writeOne_noloss (env : Env) (s s' : State) (h : NoLoss s) (hw : writeOne env s = some s') : NoLoss s' := by
  unfold writeOne at hw
  split at hw
  · cases hw
  · simp only at hw
    split at hw
    · cases hw; exact h
    · split at hw
      · cases hw; exact h
      · simp only [Option.some.injEq] at hw
        subst hw
        exact writeRecord_noloss _ _ _ _ (maybeRoll_noloss _ _ h)

theorem writeAll_noloss (env : Env) : ∀ (f : Nat) (s : State), NoLoss s → NoLoss (writeAll env f s) := by
  intro f
  induction f with
  | zero => intro s h; exact h
  | succ f ih =>
    intro s h
    unfold writeAll
    split
    · exact h
    · rename_i s' hw
      exact ih s' (writeOne_noloss env s s' h hw)

theorem flush_noloss (env : Env) (s : State) (h : NoLoss s) : NoLoss (flush env s) := writeAll_noloss env _ s h

theorem setBlockFlag_noloss (s : State) (k : Key) (r0 : Rec) (fl : Nat) (h : NoLoss s) : NoLoss (setBlockFlag s k r0 fl) := by
  obtain ⟨_, _, _, i3, i4, _⟩ := setBlockFlag_fields s k r0 fl
  exact noloss_same s _ h i3.2.2 i3.2.1 i4

theorem blockTrusted_noloss (s : State) (hash : Bytes) (h : NoLoss s) : NoLoss (blockTrusted s hash) := by
  unfold blockTrusted
  simp only
  split
  · exact h
  · split
    · exact h
    · exact setBlockFlag_noloss s _ _ _ h

theorem blockAdd_noloss (env : Env) (s : State) (hash : Bytes) (ht tx : Nat) (tr : Bool) (raw : Bytes) (h : NoLoss s) :
    NoLoss (blockAdd env s hash ht tx tr raw) := by
  unfold blockAdd
  simp only
  split
  · have h1 : NoLoss (addToCache { s with index := AL.set s.index (keyOf hash) { ipos := none, trusted := tr, olen := raw.length, seq := s.nextSeq } } (keyOf hash) raw) :=
      addToCache_noloss _ _ _ h
    split
    · exact flush_noloss env _ h1
    · exact h1
  · split
    · split
      · exact h
      · exact blockTrusted_noloss s hash h
    · exact h

theorem blockInvalid_noloss (s : State) (hash : Bytes) (h : NoLoss s) : NoLoss (blockInvalid s hash).1 := by
  unfold blockInvalid
  simp only
  split
  · exact h
  · split
    · exact h
    · split
      · exact h
      · exact setBlockFlag_noloss s _ _ _ h

theorem blockGet_noloss (env : Env) (s : State) (hash : Bytes) (h : NoLoss s) : NoLoss (blockGet env s hash).1 := by
  unfold blockGet
  simp only
  split
  · exact h
  · split
    · exact h
    · split
      · exact h
      · split
        · exact h
        · split
          · exact h
          · split
            · exact h
            · generalize decodeStored env _ _ = ble
              obtain ⟨bl, err⟩ := ble
              simp only
              split <;> exact addToCache_noloss _ _ _ h

theorem blockLength_noloss (env : Env) (s : State) (hash : Bytes) (d : Bool) (h : NoLoss s) :
    NoLoss (blockLength env s hash d).1 := by
  unfold blockLength
  simp only
  split
  · exact h
  · split
    · exact h
    · split
      · exact h
      · have := blockGet_noloss env s hash h
        generalize blockGet env s hash = res at this ⊢
        obtain ⟨s', out⟩ := res
        cases out <;> exact this

theorem reopen_noloss (env : Env) (fs : FS) (o : Opts) (h1 : fs.lost = []) (h2 : fs.olds = []) (hk : o.keep = 0) :
    NoLoss (reopen env fs o).1 := by
  have hk' : (if o.maxCached = 0 then { o with maxCached := 100 } else o).keep = 0 := by split <;> exact hk
  have e : (reopen env fs o).1.opts = (if o.maxCached = 0 then { o with maxCached := 100 } else o) := by
    unfold reopen; rfl
  refine ⟨?_, ?_, by rw [e]; exact hk'⟩
  · rw [reopen_fs]
    unfold loadCleanup
    simp only [hk', ne_eq, not_true_eq_false, false_and, ↓reduceIte]
    rw [(createCur_noolds fs _ h2).1]; exact h1
  · rw [reopen_fs]
    unfold loadCleanup
    simp only [hk', ne_eq, not_true_eq_false, false_and, ↓reduceIte]
    exact (createCur_noolds fs _ h2).2

theorem step_noloss (env : Env) (s : State) (op : Op) (h : NoLoss s) (hk : op.keep0) : NoLoss (step env s op).1 := by
  unfold step
  cases op with
  | reopen o =>
    simp only
    split
    · exact h
    · exact reopen_noloss env s.fs o h.1 h.2.1 hk
  | add hash ht tx tr raw =>
    simp only
    split
    · exact h
    · split
      · exact h
      · exact blockAdd_noloss env s hash ht tx tr raw h
  | get hash => simp only; split; exact h; exact blockGet_noloss env s hash h
  | length hash d => simp only; split; exact h; exact blockLength_noloss env s hash d h
  | trusted hash => simp only; split; exact h; exact blockTrusted_noloss s hash h
  | invalid hash => simp only; split; exact h; exact blockInvalid_noloss s hash h
  | idle => simp only; split; exact h; exact flush_noloss env s h
  | close =>
    simp only
    split
    · exact h
    · exact flush_noloss env s h

theorem claimR_eq_claim (s : State) (sp : Spec) (op : Op) (h : s.fs.lost = []) : claimR s sp op = claim sp op := by
  have hk : ∀ k, keyLost s k = false := by
    intro k
    unfold keyLost
    split
    · rw [h]; simp
    · rfl
  cases op with
  | get hash => simp only [claimR, hk, Bool.false_eq_true, ↓reduceIte]
  | length hash d => simp only [claimR, hk, Bool.false_eq_true, ↓reduceIte]
  | add _ _ _ _ _ => simp only [claimR, claim]; split <;> rfl
  | trusted _ => simp only [claimR, claim]; split <;> rfl
  | invalid _ => simp only [claimR, claim]; split <;> rfl
  | idle => simp only [claimR, claim]; split <;> rfl
  | close => simp only [claimR, claim]; split <;> rfl
  | reopen _ => simp only [claimR, claim]; split <;> rfl

/-- retention off: the retention-aware claims along a history are the unconditional ones -/
theorem specRunR_eq_specRun (env : Env) : ∀ (ops : List Op) (s : State) (sp : Spec), NoLoss s → (∀ op ∈ ops, op.keep0) →
    specRunR env s sp ops = specRun env s sp ops := by
  intro ops
  induction ops with
  | nil => intro s sp _ _; rfl
  | cons op ops ih =>
    intro s sp h hk
    unfold specRunR specRun
    rw [claimR_eq_claim s sp op h.1, ih _ _ (step_noloss env s op h (hk op (by simp))) (fun op' hop' => hk op' (by simp [hop']))]

theorem init_noloss : NoLoss init := ⟨rfl, rfl, rfl⟩

theorem keep0_of_not_reopen (op : Op) (h : op.isReopen = false) : op.keep0 := by
  cases op <;> simp [Op.isReopen] at h <;> trivial

end GocoinV.BlockDB
