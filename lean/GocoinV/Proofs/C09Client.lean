/-
  Proofs.C09Client — (A) the install / discard statement lists regenerated from client/network (Gen/C09Client.lean):
  an abstract interpretation of a statement list (what is known about Raw, about the pair TxCount/TxOffset and about
  Txs after it), proved sound for `applyStmts`, decides for the GENERATED lists that every discard branch leaves the
  object "idle" (bare header, count not parsed, no transactions) and every install place leaves exactly the copy with a
  count pair that belongs to it; hence any number of refused copies does not reach the decode of the next copy.
  (B) the disk cache: `diskCacheGet` with a complete side file, or one of any other length, is the plain decode.
  Core tactics only.
-/
import GocoinV.Model.WireClient
import GocoinV.Proofs.C09Obj
namespace GocoinV.Wire
open GocoinV GocoinV.CompactSize GocoinV.Gen.C09Client

/-! ### (A) statement lists -/

inductive RawAbs | hdr | copy | other
deriving DecidableEq, Repr
inductive CntAbs | zero | ofRaw | unknown
deriving DecidableEq, Repr

/-- what is known about the object after some statements -/
structure Abs where
  raw : RawAbs
  cnt : CntAbs
  txsNil : Bool
deriving DecidableEq, Repr

def absArg : Arg → RawAbs
  | .copy => .copy
  | .prevRaw => .hdr
  | .header => .hdr

def absStep : Stmt → Abs → Abs
  | .rawAssign x, A => { A with raw := absArg x, cnt := if A.cnt = .zero then .zero else .unknown }
  | .updateContent x, A => { A with raw := absArg x, cnt := if absArg x = .hdr then .zero else .ofRaw }
  | .zeroTxCount, A => { A with cnt := .zero }
  | .zeroTxOffset, A => { A with cnt := if A.cnt = .zero then .zero else .unknown }
  | .nilTxs, A => { A with txsNil := true }
  | .zeroBlockWeight, A => A
  | .zeroTotalInputs, A => A

def absRun : List Stmt → Abs → Abs
  | [], A => A
  | st :: l, A => absRun l (absStep st A)

def Abs.Holds (A : Abs) (a : Args) (s : BlockObj) : Prop :=
  (match A.raw with | .hdr => s.raw = a.prevRaw | .copy => s.raw = a.copy | .other => True) ∧
  (match A.cnt with | .zero => s.txCount = 0 | .ofRaw => s.Inv | .unknown => True) ∧
  (A.txsNil = true → s.txs = none)

theorem txs_update (d : Bytes) (s : BlockObj) : (updateContent d s).1.txs = s.txs := by
  unfold updateContent
  by_cases h : d.length < 80
  · simp [h]
  · simp only [h, ↓reduceIte]
    split
    · split <;> rfl
    · rfl

theorem update_80 (d : Bytes) (s : BlockObj) (h : d.length = 80) :
    (updateContent d s).1.raw = d ∧ (updateContent d s).1.txCount = 0 := by
  unfold updateContent
  have h1 : ¬ d.length < 80 := by omega
  have h2 : ¬ d.length > 80 := by omega
  simp [h1, h2]

theorem argBytes_hdr (a : Args) (hp : a.prevRaw.length = 80) (x : Arg) (hx : absArg x = .hdr) :
    argBytes a x = a.prevRaw := by
  cases x with
  | copy => simp [absArg] at hx
  | prevRaw => rfl
  | header =>
    show a.prevRaw.take 80 = a.prevRaw
    exact List.take_of_length_le (by omega)

theorem argBytes_copy (a : Args) (x : Arg) (hx : absArg x = .copy) : argBytes a x = a.copy := by
  cases x <;> simp [absArg] at hx
  rfl

theorem abs_step_sound (a : Args) (hp : a.prevRaw.length = 80) (hc : 80 ≤ a.copy.length)
    (st : Stmt) (A : Abs) (s : BlockObj) (h : A.Holds a s) : (absStep st A).Holds a (applyStmt a st s) := by
  obtain ⟨hr, hn, ht⟩ := h
  cases st with
  | rawAssign x =>
    refine ⟨?_, ?_, ht⟩
    · show (match absArg x with | .hdr => argBytes a x = a.prevRaw | .copy => argBytes a x = a.copy | .other => True)
      cases hx : absArg x with
      | hdr => exact argBytes_hdr a hp x hx
      | copy => exact argBytes_copy a x hx
      | other => trivial
    · show (match (if A.cnt = .zero then CntAbs.zero else CntAbs.unknown) with
        | .zero => s.txCount = 0 | .ofRaw => _ | .unknown => True)
      by_cases hz : A.cnt = .zero
      · simp only [hz, ↓reduceIte]
        rw [hz] at hn
        exact hn
      · simp only [hz, ↓reduceIte]
  | updateContent x =>
    cases hx : absArg x with
    | hdr =>
      have e := argBytes_hdr a hp x hx
      have u := update_80 (argBytes a x) s (by rw [e]; exact hp)
      refine ⟨?_, ?_, ?_⟩
      · show (match absArg x with | .hdr => (updateContent (argBytes a x) s).1.raw = a.prevRaw | .copy => _ | .other => True)
        rw [hx]
        show (updateContent (argBytes a x) s).1.raw = a.prevRaw
        rw [u.1, e]
      · show (match (if absArg x = .hdr then CntAbs.zero else CntAbs.ofRaw) with
          | .zero => (updateContent (argBytes a x) s).1.txCount = 0 | .ofRaw => _ | .unknown => True)
        simp only [hx, ↓reduceIte]
        exact u.2
      · intro h'
        show (updateContent (argBytes a x) s).1.txs = none
        rw [txs_update]; exact ht h'
    | copy =>
      have e := argBytes_copy a x hx
      refine ⟨?_, ?_, ?_⟩
      · show (match absArg x with | .hdr => _ | .copy => (updateContent (argBytes a x) s).1.raw = a.copy | .other => True)
        rw [hx]
        show (updateContent (argBytes a x) s).1.raw = a.copy
        rw [raw_update, e]
        have : ¬ a.copy.length < 80 := by omega
        simp [this]
      · show (match (if absArg x = .hdr then CntAbs.zero else CntAbs.ofRaw) with
          | .zero => _ | .ofRaw => (updateContent (argBytes a x) s).1.Inv | .unknown => True)
        simp only [hx, reduceCtorEq, ↓reduceIte]
        exact inv_update _ s (Or.inr (by rw [e]; exact hc))
      · intro h'
        show (updateContent (argBytes a x) s).1.txs = none
        rw [txs_update]; exact ht h'
    | other => cases x <;> simp [absArg] at hx
  | zeroBlockWeight =>
    refine ⟨hr, ?_, ht⟩
    show (match A.cnt with | .zero => s.txCount = 0 | .ofRaw => s.Inv | .unknown => True)
    exact hn
  | zeroTotalInputs =>
    refine ⟨hr, ?_, ht⟩
    show (match A.cnt with | .zero => s.txCount = 0 | .ofRaw => s.Inv | .unknown => True)
    exact hn
  | zeroTxCount => exact ⟨hr, rfl, ht⟩
  | zeroTxOffset =>
    refine ⟨hr, ?_, ht⟩
    show (match (if A.cnt = .zero then CntAbs.zero else CntAbs.unknown) with
        | .zero => s.txCount = 0 | .ofRaw => _ | .unknown => True)
    by_cases hz : A.cnt = .zero
    · simp only [hz, ↓reduceIte]
      rw [hz] at hn
      exact hn
    · simp only [hz, ↓reduceIte]
  | nilTxs => exact ⟨hr, hn, fun _ => rfl⟩

theorem abs_sound (a : Args) (hp : a.prevRaw.length = 80) (hc : 80 ≤ a.copy.length) :
    ∀ (l : List Stmt) (A : Abs) (s : BlockObj), A.Holds a s → (absRun l A).Holds a (applyStmts a l s)
  | [], _, _, h => h
  | st :: l, A, s, h => abs_sound a hp hc l _ _ (abs_step_sound a hp hc st A s h)

def absTop : Abs := ⟨.other, .unknown, false⟩
def absIdle : Abs := ⟨.hdr, .zero, true⟩

/-- a discard branch, run on an object in ANY state, leaves the bare header, "count not parsed" and no transactions -/
def discardOK (l : List Stmt) : Bool := absRun l absTop == absIdle

/-- an install place, run on an idle object, leaves the copy with a count pair that is unparsed or belongs to it,
    and still no transactions (so that PostCheckBlock parses) -/
def installOK (l : List Stmt) : Bool :=
  let A := absRun l absIdle
  A.raw == .copy && (A.cnt == .zero || A.cnt == .ofRaw) && A.txsNil

/-- THE FACT about the regenerated lists (kernel-evaluated on whatever gen_c09 wrote) -/
theorem client_lists_ok (v : Via) : discardOK (discardOf v) = true ∧ installOK (installOf v) = true := by
  cases v <;> decide

theorem postCheckMinRawLen_le : postCheckMinRawLen ≤ 81 := by decide

/-- between two copies: bare header `hdr`, count not parsed, no transactions -/
def Idle (hdr : Bytes) (s : BlockObj) : Prop :=
  s.raw = hdr ∧ hdr.length = 80 ∧ s.txCount = 0 ∧ s.txs = none

theorem idle_new (hdr : Bytes) (h : hdr.length = 80) : Idle hdr (updateContent hdr emptyObj).1 := by
  have u := update_80 hdr emptyObj h
  exact ⟨u.1, h, u.2, by rw [txs_update]; rfl⟩

theorem idle_refused (H : Bytes → Bytes) (hdr : Bytes) (c : Copy) (hc : 80 ≤ c.data.length) (s : BlockObj)
    (hs : Idle hdr s) : Idle hdr (refusedCopy H c s) := by
  obtain ⟨hr, hl, _, _⟩ := hs
  have hp : ({ copy := c.data, prevRaw := s.raw } : Args).prevRaw.length = 80 := by show s.raw.length = 80; rw [hr]; exact hl
  have top : absTop.Holds { copy := c.data, prevRaw := s.raw } (deliver H c s).1 := ⟨trivial, trivial, fun h => by cases h⟩
  have := abs_sound _ hp hc (discardOf c.via) absTop _ top
  have ok := (client_lists_ok c.via).1
  unfold discardOK at ok
  rw [beq_iff_eq] at ok
  rw [ok] at this
  obtain ⟨h1, h2, h3⟩ := this
  exact ⟨h1.trans hr, hl, h2, h3 rfl⟩

theorem idle_run (H : Bytes → Bytes) (hdr : Bytes) : ∀ (l : List Copy), (∀ c ∈ l, 80 ≤ c.data.length) →
    ∀ s, Idle hdr s → Idle hdr (clientRun H l s)
  | [], _, _, hs => hs
  | c :: l, hw, s, hs =>
    idle_run H hdr l (fun x hx => hw x (List.mem_cons_of_mem _ hx)) _
      (idle_refused H hdr c (hw c List.mem_cons_self) s hs)

/-- delivering a copy to an idle object = the pure decode of the copy -/
theorem deliver_idle (H : Bytes → Bytes) (hdr : Bytes) (c : Copy) (hc : 81 ≤ c.data.length) (s : BlockObj)
    (hs : Idle hdr s) :
    let r := decodeBlockExt H true c.data
    let res := deliver H c s
    res.1.raw = c.data ∧ res.2 = outcomeOf r.err ∧ res.2 ≠ .panic ∧ res.2 ≠ .tooShort ∧
    (res.2 ≠ .badCount → res.1.txCount = r.txCount ∧ res.1.txOffset = 80 + vlenSize r.txCount ∧
        res.1.txs = some r.txs ∧ res.1.weight = r.weight) := by
  intro r res
  obtain ⟨hr, hl, hz, hn⟩ := hs
  have hp : ({ copy := c.data, prevRaw := s.raw } : Args).prevRaw.length = 80 := by show s.raw.length = 80; rw [hr]; exact hl
  have idle : absIdle.Holds { copy := c.data, prevRaw := s.raw } s := ⟨rfl, hz, fun _ => hn⟩
  have h1 := abs_sound _ hp (by show 80 ≤ c.data.length; omega) (installOf c.via) absIdle s idle
  have ok := (client_lists_ok c.via).2
  unfold installOK at ok
  simp only [Bool.and_eq_true, Bool.or_eq_true, beq_iff_eq] at ok
  obtain ⟨⟨ok1, ok2⟩, ok3⟩ := ok
  generalize hs1 : applyStmts { copy := c.data, prevRaw := s.raw } (installOf c.via) s = s1 at h1
  obtain ⟨a1, a2, a3⟩ := h1
  rw [ok1] at a1
  have raw1 : s1.raw = c.data := a1
  have txs1 : s1.txs = none := a3 ok3
  have inv1 : s1.Inv := by
    rcases ok2 with e | e
    · rw [e] at a2
      have : s1.txCount = 0 := a2
      exact ⟨by rw [raw1]; omega, fun hne => absurd this hne⟩
    · rw [e] at a2; exact a2
  have hres : res = buildTxListExt H true s1 := by
    show postCheckParse H (applyStmts { copy := c.data, prevRaw := s.raw } (installOf c.via) s) = _
    rw [hs1]
    unfold postCheckParse
    have : ¬ s1.raw.length < postCheckMinRawLen := by
      have := postCheckMinRawLen_le
      rw [raw1]; omega
    simp [this, txs1]
  have bp := build_pure H true s1 inv1
  rw [raw1] at bp
  rw [hres]
  refine ⟨by rw [raw_build]; exact raw1, bp.1, bp.2.1, bp.2.2.1, bp.2.2.2.2⟩

/-! ### (B) the disk cache -/

theorem outcomeOf_ok (e : Option BlockErr) : outcomeOf e = .ok ↔ e = none := by
  cases e with
  | none => simp [outcomeOf]
  | some x => cases x <;> simp [outcomeOf]

theorem take_app (a b : Bytes) (n : Nat) (h : a.length = n) : (a ++ b).take n = a := by
  subst h; simp

theorem drop_app (a b : Bytes) (n : Nat) (h : a.length = n) : (a ++ b).drop n = b := by
  subst h; simp

theorem blockTxIds_len (H : Bytes → Bytes) (hH : ∀ b, (H b).length = 32) (f : Bool) (d : Decoded) (raw : Bytes) :
    (blockTxIds H f d raw).hash.length = 32 ∧ (blockTxIds H f d raw).wtxid.length = 32 := by
  unfold blockTxIds
  split
  · refine ⟨hH _, ?_⟩
    by_cases hf : f = true
    · simp [hf]
    · simp [hf, hH]
  · exact ⟨hH _, hH _⟩

/-- the side file of a block built with hashing has the expected length, which only depends on which
    transactions carry a witness -/
theorem hashesFile_length (H : Bytes → Bytes) (hH : ∀ b, (H b).length = 32) :
    ∀ (l : List (Decoded × Bytes)) (f : Bool),
      (hashesFile (mkBlockTxs H f l)).length = hashesLen (mkBlockTxsExt H false l)
  | [], _ => by simp [mkBlockTxs, mkBlockTxsExt, hashesFile, hashesLen]
  | (d, raw) :: l, f => by
    have ih := hashesFile_length H hH l false
    have hl := blockTxIds_len H hH f d raw
    simp only [mkBlockTxsExt, Bool.false_eq_true, ↓reduceIte, List.map_cons] at ih ⊢
    simp only [mkBlockTxs, hashesFile, hashesLen, List.length_append, ih]
    cases hw : d.tx.witness <;> simp [hl.1, hl.2]

/-- restoring from the complete side file gives exactly the ids of the build with hashing -/
theorem restore_complete (H : Bytes → Bytes) (hH : ∀ b, (H b).length = 32) :
    ∀ (l : List (Decoded × Bytes)) (f : Bool),
      restoreHashes (mkBlockTxsExt H false l) (hashesFile (mkBlockTxs H f l)) = mkBlockTxs H f l
  | [], _ => by simp [mkBlockTxs, mkBlockTxsExt, restoreHashes]
  | (d, raw) :: l, f => by
    have ih := restore_complete H hH l false
    have hl := blockTxIds_len H hH f d raw
    simp only [mkBlockTxsExt, Bool.false_eq_true, ↓reduceIte, List.map_cons] at ih ⊢
    simp only [mkBlockTxs, hashesFile, restoreHashes]
    cases hw : d.tx.witness with
    | none =>
      simp only []
      rw [take_app _ _ 32 hl.1, drop_app _ _ 32 hl.1, ih]
      congr 1
      simp only [blockTxIds, hw, blockTxIdsNoHash]
    | some w =>
      simp only []
      rw [List.append_assoc, take_app _ _ 32 hl.2, drop_app _ _ 32 hl.2, take_app _ _ 32 hl.1]
      have e64 : ((blockTxIds H f d raw).wtxid ++ ((blockTxIds H f d raw).hash ++ hashesFile (mkBlockTxs H false l))).drop 64 =
          hashesFile (mkBlockTxs H false l) := by
        rw [← List.append_assoc]
        exact drop_app _ _ 64 (by simp [hl.1, hl.2])
      rw [e64, ih]
      congr 1
      simp only [blockTxIds, hw, blockTxIdsNoHash]

/-- the two pure decodes of a content that decodes completely, in terms of the same transaction list -/
theorem decodeBlockExt_shape (H : Bytes → Bytes) (d : Bytes) (he : (decodeBlockExt H true d).err = none) :
    ∃ l, (decodeBlockExt H true d).txs = mkBlockTxs H true l ∧ (decodeBlockExt H false d).txs = mkBlockTxsExt H false l := by
  unfold decodeBlockExt at he ⊢
  by_cases h80 : d.length < 80
  · simp [h80] at he
  · simp only [h80, ↓reduceIte] at he ⊢
    cases hv : vlenWire (d.drop 80) with
    | none => simp [hv] at he
    | some p =>
      obtain ⟨v, r⟩ := p
      by_cases hz : v = 0
      · simp [hv, hz] at he
      · simp only [hz, ↓reduceIte]
        exact ⟨(decodeTxs v r).1, by simp [mkBlockTxsExt], rfl⟩

theorem update_not_ok (d : Bytes) (s : BlockObj) (h80 : 80 ≤ d.length) (h : (updateContent d s).2 ≠ .ok) :
    vlenWire (d.drop 80) = none := by
  unfold updateContent at h
  have h1 : ¬ d.length < 80 := by omega
  simp only [h1, ↓reduceIte] at h
  by_cases hg : d.length > 80
  · simp only [hg, ↓reduceIte] at h
    cases hv : vlenWire (d.drop 80) with
    | none => rfl
    | some p =>
      obtain ⟨v, r⟩ := p
      rw [vlenWireGo_some hv] at h
      have h1' := (vlenWire_rest_obj hv).2.2
      have hl : (d.drop 80).length = d.length - 80 := by simp
      rw [hl] at h1'
      have hne : ¬ (d.length - 80 - r.length = 0) := by omega
      simp [hne] at h
  · simp [hg] at h

/-- `get_block_from_disk_cache` with the side file missing, complete, or of any OTHER LENGTH than the complete one:
    it panics exactly when the block file does not decode completely, and otherwise returns the block with the ids,
    sizes and weight of `decodeBlock` (NewBlock + BuildTxList of the file). -/
theorem disk_cache_get_spec (H : Bytes → Bytes) (hH : ∀ b, (H b).length = 32) (d : Bytes) (h : Option Bytes)
    (hh : ∀ x, h = some x → x = hashesFile (decodeBlock H d).txs ∨ x.length ≠ (hashesFile (decodeBlock H d).txs).length) :
    match diskCacheGet H (some d) h with
    | none => (decodeBlock H d).err ≠ none
    | some s => (decodeBlock H d).err = none ∧ s.raw = d ∧ s.txCount = (decodeBlock H d).txCount ∧
        s.txs = some (decodeBlock H d).txs ∧ s.weight = (decodeBlock H d).weight := by
  obtain ⟨eT1, eT2, eT3, eT4⟩ := decodeBlockExt_true H d
  try dsimp only at eT1 eT2 eT3 eT4
  rw [← eT1, ← eT2, ← eT3, ← eT4]
  rw [← eT3] at hh
  by_cases h80 : d.length < 80
  · simp [diskCacheGet, newBlock, h80, decodeBlockExt]
  · have hge : 80 ≤ d.length := by omega
    have inv0 : (updateContent d emptyObj).1.Inv := inv_update d emptyObj (Or.inr hge)
    have raw0 : (updateContent d emptyObj).1.raw = d := by rw [raw_update]; simp [h80]
    have bpT := build_pure H true _ inv0
    have bpF := build_pure H false _ inv0
    rw [raw0] at bpT bpF
    try dsimp only at bpT bpF
    obtain ⟨eF1, eF2, eF3, _, _⟩ := decodeBlockExt_false H d
    try dsimp only at eF1 eF2 eF3
    generalize hs0 : updateContent d emptyObj = p0 at inv0 raw0 bpT bpF
    obtain ⟨s0, o0⟩ := p0
    try dsimp only at inv0 raw0 bpT bpF
    -- the fall-back / no-side-file path
    have full_spec : match (if (buildTxListExt H true s0).2 = .ok then some (buildTxListExt H true s0).1 else none : Option BlockObj) with
        | none => (decodeBlockExt H true d).err ≠ none
        | some s => (decodeBlockExt H true d).err = none ∧ s.raw = d ∧ s.txCount = (decodeBlockExt H true d).txCount ∧
            s.txs = some (decodeBlockExt H true d).txs ∧ s.weight = (decodeBlockExt H true d).weight := by
      by_cases hok : (buildTxListExt H true s0).2 = .ok
      · simp only [hok, ↓reduceIte]
        have e : (decodeBlockExt H true d).err = none := (outcomeOf_ok _).1 (by rw [← bpT.1]; exact hok)
        have nb : (buildTxListExt H true s0).2 ≠ .badCount := by rw [hok]; simp
        obtain ⟨c1, _, c3, c4⟩ := bpT.2.2.2.2 nb
        exact ⟨e, by rw [raw_build]; exact raw0, c1, c3, c4⟩
      · simp only [hok, ↓reduceIte]
        intro e
        exact hok (by rw [bpT.1]; exact (outcomeOf_ok _).2 e)
    unfold diskCacheGet
    simp only [newBlock, h80, ↓reduceIte, hs0]
    by_cases ho : o0 = .ok
    · simp only [ho, ne_eq, not_true_eq_false, ↓reduceIte]
      cases h with
      | none => exact full_spec
      | some x =>
        simp only []
        by_cases hok : (buildTxListExt H false s0).2 = .ok
        · simp only [hok, ne_eq, not_true_eq_false, ↓reduceIte]
          have e : (decodeBlockExt H false d).err = none := (outcomeOf_ok _).1 (by rw [← bpF.1]; exact hok)
          have eT : (decodeBlockExt H true d).err = none := by rw [← eF1]; exact e
          have nb : (buildTxListExt H false s0).2 ≠ .badCount := by rw [hok]; simp
          obtain ⟨c1, _, c3, c4⟩ := bpF.2.2.2.2 nb
          obtain ⟨l, hlT, hlF⟩ := decodeBlockExt_shape H d eT
          simp only [c3]
          have hlen : (hashesFile (decodeBlockExt H true d).txs).length = hashesLen (decodeBlockExt H false d).txs := by
            rw [hlT, hlF]; exact hashesFile_length H hH l true
          by_cases hx : hashesLen (decodeBlockExt H false d).txs = x.length
          · simp only [hx, ↓reduceIte]
            have hx' : x = hashesFile (decodeBlockExt H true d).txs := by
              rcases hh x rfl with e' | e'
              · exact e'
              · exact absurd (by rw [hlen]; exact hx.symm) e'
            refine ⟨eT, by rw [raw_build]; exact raw0, by rw [c1]; exact eF2, ?_, by rw [c4]; exact eF3⟩
            show some (restoreHashes (decodeBlockExt H false d).txs x) = some (decodeBlockExt H true d).txs
            rw [hx', hlT, hlF, restore_complete H hH l true]
          · simp only [hx, ↓reduceIte]
            exact full_spec
        · simp only [hok, ne_eq, not_false_eq_true, ↓reduceIte]
          intro e
          apply hok
          rw [bpF.1, eF1]
          exact (outcomeOf_ok _).2 e
    · simp only [ho, ne_eq, not_false_eq_true, ↓reduceIte]
      have hv : vlenWire (d.drop 80) = none := by
        have := update_not_ok d emptyObj hge (by rw [hs0]; exact ho)
        exact this
      simp [decodeBlockExt, h80, hv]

/-! ### concrete instances for the non-vacuity examples of Props/C09.lean (kernel-evaluated there) -/
namespace Example

/-- a 32-byte "hash" the kernel can evaluate: the first 32 bytes, zero-padded -/
def H : Bytes → Bytes := fun b => (b ++ List.replicate 32 0).take 32
/-- a 60-byte transaction: one input, one output, version byte `v` -/
def tx (v : UInt8) : Bytes :=
  [v,0,0,0, 1] ++ List.replicate 32 7 ++ [0,0,0,0, 0, 0xff,0xff,0xff,0xff, 1, 9,0,0,0,0,0,0,0, 0, 0,0,0,0]
def hdr : Bytes := List.replicate 80 0
/-- a block of two transactions (201 bytes) -/
def blk : Bytes := hdr ++ [2] ++ tx 1 ++ tx 2
/-- two copies behind the same header: a complete one-transaction block, and a list that ends inside its count of 5 -/
def bad : List Copy := [⟨.cmpctB, hdr ++ [1] ++ tx 1⟩, ⟨.full, hdr ++ [5] ++ tx 2⟩]
/-- the side file netBlockReceived writes for `blk` -/
def side : Bytes := hashesFile (decodeBlock H blk).txs
def view (l : List BlockTx) : List (Bytes × Bytes × Nat × Nat × Bytes) :=
  l.map fun t => (t.ids.hash, t.ids.wtxid, t.ids.size, t.ids.noWitSize, t.raw)
/-- what `get_block_from_disk_cache` returns for `blk` and side file `h`: TxCount, the ids, and whether `Txs` (ids, sizes,
    raw bytes) equal those of `decodeBlock` -/
def got (h : Option Bytes) : Option (Nat × Option (List Bytes) × Bool) :=
  (diskCacheGet H (some blk) h).map fun s => (s.txCount, s.txs.map (fun l => l.map (·.ids.hash)),
    s.txs.map view == some (view (decodeBlock H blk).txs))

end Example

end GocoinV.Wire
