/-
  Proofs.C12Flags — OneTxToSend.mined / unmined: clearing / setting the MemInputs flag of the children keeps the
  full pool invariant, the "unflagged input is available" predicate moving with the block
  (helper lemmas for Props/C12 `pool_inv`).  Core Lean only.
-/
import GocoinV.Proofs.C12Ops
namespace GocoinV.Mempool

/-! ### lists of flags -/

theorem getD_set_bool (l : List Bool) (idx k : Nat) (v : Bool) (h : idx < l.length) :
    (l.set idx v).getD k false = if k = idx then v else l.getD k false := by
  rw [List.getD_eq_getElem?_getD, List.getElem?_set, List.getD_eq_getElem?_getD]
  by_cases e : idx = k
  · subst e; simp [h]
  · have : ¬ k = idx := fun e' => e e'.symm
    simp [e, this]

theorem count_set_false : ∀ (l : List Bool) (idx : Nat), l.getD idx false = true →
    ((l.set idx false).filter id).length + 1 = (l.filter id).length := by
  intro l
  induction l with
  | nil => intro idx h; simp at h
  | cons a r ih =>
    intro idx h
    cases idx with
    | zero =>
      simp only [List.getD_cons_zero] at h
      subst h
      simp
    | succ n =>
      simp only [List.getD_cons_succ] at h
      have := ih n h
      cases a <;> simp [List.filter_cons] <;> omega

theorem count_set_true : ∀ (l : List Bool) (idx : Nat), l.getD idx false = false → idx < l.length →
    ((l.set idx true).filter id).length = (l.filter id).length + 1 := by
  intro l
  induction l with
  | nil => intro idx _ h; simp at h
  | cons a r ih =>
    intro idx h hl
    cases idx with
    | zero =>
      simp only [List.getD_cons_zero] at h
      subst h
      simp
    | succ n =>
      simp only [List.getD_cons_succ] at h
      have := ih n h (by simpa using hl)
      cases a <;> simp [List.filter_cons] <;> omega

theorem getD_true_lt (l : List Bool) (idx : Nat) (h : l.getD idx false = true) : idx < l.length := by
  apply Classical.byContradiction
  intro hn
  rw [List.getD_eq_getElem?_getD, List.getElem?_eq_none (by omega)] at h
  cases h

theorem posOf_spec (b : Nat) : ∀ (l : List Nat) (start p : Nat), posOf b l start = some p →
    ∃ j, p = start + j ∧ l[j]? = some b := by
  intro l
  induction l with
  | nil => intro start p h; simp [posOf] at h
  | cons x r ih =>
    intro start p h
    simp only [posOf] at h
    split at h
    · rename_i e
      cases h
      exact ⟨0, rfl, by simp [e]⟩
    · obtain ⟨j, hj, hb⟩ := ih (start + 1) p h
      exact ⟨j + 1, by omega, by simpa using hb⟩

theorem iidx_spec (K : Keys) (r : T2S) (u idx : Nat) (h : iidx K r u = some idx) :
    ∃ i, r.tx.ins[idx]? = some i ∧ K.uidx i.prev i.vout = u := by
  unfold iidx at h
  obtain ⟨j, hj, hb⟩ := posOf_spec u _ 0 idx h
  have : idx = j := by omega
  subst this
  rw [List.getElem?_map] at hb
  cases hi : r.tx.ins[idx]? with
  | none => rw [hi] at hb; cases hb
  | some i => rw [hi] at hb; exact ⟨i, rfl, by simpa using hb⟩

/-- in a transaction without duplicate inputs an outpoint has one position -/
theorem nodup_pos (t : Tx) (h : t.inOps.Nodup) (k j : Nat) (a b : TxIn) (hk : t.ins[k]? = some a)
    (hj : t.ins[j]? = some b) (e1 : a.prev = b.prev) (e2 : a.vout = b.vout) : k = j := by
  have hkl : k < t.inOps.length := by
    apply Classical.byContradiction
    intro hn
    have : t.ins.length ≤ k := by simpa [Tx.inOps] using hn
    rw [List.getElem?_eq_none this] at hk
    cases hk
  apply (List.getElem?_inj hkl h).mp
  unfold Tx.inOps
  rw [List.getElem?_map, List.getElem?_map, hk, hj]
  simp [TxIn.op, e1, e2]

/-! ### replacing one record by one with other flags -/

theorem setRec_ok {val : Nat} {K : Keys} {W : Tx → Prop} {ν : OutPoint → Nat} {A0 A : OutPoint → Prop} {Cf : TxId → Prop}
    {s s' : State} (h : PoolOK K W ν A0 Cf s)
    (hmono : ∀ b x, b ≠ val → s.pool.get? b = some x → ∀ k i, x.tx.ins[k]? = some i → flag x k = false →
      A0 (i.prev, i.vout) → A (i.prev, i.vout)) (r r' : T2S)
    (hr : s.pool.get? val = some r) (htx : r'.tx = r.tx)
    (e1 : s'.pool = s.pool.set val r') (e2 : s'.spent = s.spent) (e3 : s'.rej = s.rej) (e4 : s'.undo = s.undo)
    (e5 : s'.weightTotal = s.weightTotal) (hl : RecL ν r')
    (hp : ∀ k i, r.tx.ins[k]? = some i → flag r' k = true →
      ∃ p, s.pool.get? (K.bidx i.prev) = some p ∧ p.tx.id = i.prev ∧ i.vout < p.tx.outs.length)
    (hu : ∀ k i, r.tx.ins[k]? = some i → flag r' k = false → A (i.prev, i.vout)) :
    PoolOK K W ν A Cf s' := by
  obtain ⟨hI, look⟩ := setRec_InvR h.w.base val r' e1 (by rw [hr, htx]; rfl) e2 e3 e4
  have back : ∀ b x, s'.pool.get? b = some x → (b = val ∧ x = r') ∨ (b ≠ val ∧ s.pool.get? b = some x) := by
    intro b x hx
    rw [e1] at hx
    by_cases e : b = val
    · rw [e, AList.get?_set_self] at hx; cases hx; exact Or.inl ⟨e, rfl⟩
    · rw [AList.get?_set_other _ _ _ _ e] at hx; exact Or.inr ⟨e, hx⟩
  have lift : ∀ i : TxIn, (∃ p, s.pool.get? (K.bidx i.prev) = some p ∧ p.tx.id = i.prev ∧ i.vout < p.tx.outs.length) →
      ∃ p, s'.pool.get? (K.bidx i.prev) = some p ∧ p.tx.id = i.prev ∧ i.vout < p.tx.outs.length := by
    rintro i ⟨p, h1, h2, h3⟩
    obtain ⟨p', h1', e⟩ := look _ p h1
    exact ⟨p', h1', by rw [e]; exact h2, by rw [e]; exact h3⟩
  refine ⟨⟨hI, ?_, ?_, ?_, ?_⟩, ?_⟩
  · intro b x hx
    rcases back b x hx with ⟨_, rfl⟩ | ⟨_, h2⟩
    · exact hl
    · exact h.w.loc b x h2
  · intro b x hx k i hk hf
    rcases back b x hx with ⟨_, rfl⟩ | ⟨hne, h2⟩
    · rw [htx] at hk; exact hu k i hk hf
    · exact hmono b x hne h2 k i hk hf (h.w.unf b x h2 k i hk hf)
  · intro b x hx
    rcases back b x hx with ⟨_, rfl⟩ | ⟨_, h2⟩
    · rw [htx]; exact h.w.ncf val r hr
    · exact h.w.ncf b x h2
  · rw [e5, e1, poolWeight_set_same _ _ r r' h.w.base.nodup hr (by rw [htx]), h.w.wt]
  · intro b x hx k i hk hf
    rcases back b x hx with ⟨_, rfl⟩ | ⟨_, h2⟩
    · rw [htx] at hk; exact lift i (hp k i hk hf)
    · exact lift i (h.par b x h2 k i hk hf)

/-! ### mined: clear the flags of the children -/

/-- the child's record after `mined` cleared flag `idx` -/
def clrRec (r : T2S) (idx : Nat) : T2S :=
  { r with mem := if r.memCnt - 1 = 0 then [] else r.mem.set idx false, memCnt := r.memCnt - 1 }

/-- one iteration of OneTxToSend.mined -/
def minedStep (K : Keys) (t : T2S) (s : State) (vout : Nat) : State :=
  let u := K.uidx t.tx.id vout
  match s.spent.get? u with
  | none => s
  | some val => match s.pool.get? val with
    | none => s
    | some r =>
      match iidx K r u with
      | none => { s with panicked := true }
      | some idx =>
        if r.mem.isEmpty then { s with panicked := true }
        else
          { s with pool := s.pool.set val (clrRec r idx), sortDirty := true }

theorem minedFlags_eq (K : Keys) (s : State) (t : T2S) :
    minedFlags K s t = (iota t.tx.outs.length).foldl (minedStep K t) s := rfl

theorem minedStep_env (K : Keys) (t : T2S) (s : State) (v : Nat) : Env s (minedStep K t s v) := by
  unfold minedStep
  dsimp only
  repeat' split
  all_goals first
    | exact Env.refl s
    | exact ⟨rfl, rfl, fun _ => rfl⟩
    | exact ⟨rfl, rfl, id⟩

/-- unflagged inputs: available by `A`, or one of the first `n` outputs of `id` -/
def AMined (A : OutPoint → Prop) (id : TxId) (n : Nat) (o : OutPoint) : Prop := A o ∨ (o.1 = id ∧ o.2 < n)

/-- the loop invariant of `mined` after the outputs `< n` -/
structure MinedInv (K : Keys) (W : Tx → Prop) (ν : OutPoint → Nat) (A : OutPoint → Prop) (Cf : TxId → Prop)
    (t : T2S) (n : Nat) (s : State) : Prop where
  ok : PoolOK K W ν (AMined A t.tx.id n) Cf s
  self : ∃ t', s.pool.get? (K.bidx t.tx.id) = some t' ∧ t'.tx = t.tx
  prog : ∀ b r, s.pool.get? b = some r → ∀ k i, r.tx.ins[k]? = some i → flag r k = true → i.prev = t.tx.id →
    n ≤ i.vout

theorem minedStep_ok {K : Keys} {W : Tx → Prop} {rank : TxId → Nat} {u0 : UT} {ν : OutPoint → Nat}
    {A : OutPoint → Prop} {Cf : TxId → Prop} (U : Univ2 K W rank u0 ν) (hAC : ∀ o, A o → Cf o.1)
    (t : T2S) (n : Nat) (hn : n < t.tx.outs.length) (s : State) (h : MinedInv K W ν A Cf t n s)
    (hp : (minedStep K t s n).panicked = false) : MinedInv K W ν A Cf t (n + 1) (minedStep K t s n) := by
  have hb := h.ok.w.base
  obtain ⟨t', ht', htx⟩ := h.self
  have htW : W t.tx := by rw [← htx]; exact hb.poolW _ _ ht'
  have mono : PoolOK K W ν (AMined A t.tx.id (n + 1)) Cf s :=
    ⟨h.ok.w.mono (fun _ _ _ _ _ _ _ ha => by
      rcases ha with ha | ⟨h1, h2⟩
      · exact Or.inl ha
      · exact Or.inr ⟨h1, by omega⟩) (fun _ _ _ hc => hc), h.ok.par⟩
  -- no record other than the spender registered in SpentOutputs has the input (t.id, n)
  have other : ∀ b (r : T2S), s.pool.get? b = some r → ∀ (k : Nat) (i : TxIn), r.tx.ins[k]? = some i → i.prev = t.tx.id → i.vout = n →
      s.spent.get? (K.uidx t.tx.id n) = some b := by
    intro b r hr k i hk e1 e2
    rw [← e1, ← e2]
    exact hb.str.complete b r hr _ (List.mem_map.mpr ⟨i, List.mem_of_getElem? hk, rfl⟩)
  unfold minedStep at hp ⊢
  dsimp only at hp ⊢
  split
  · rename_i hnone
    refine ⟨mono, ⟨t', ht', htx⟩, ?_⟩
    intro b r hr k i hk hf e
    have := h.prog b r hr k i hk hf e
    have hne : i.vout ≠ n := by
      intro e2
      rw [other b r hr k i hk e e2] at hnone; cases hnone
    omega
  · rename_i val hval
    split
    · rename_i hnone
      obtain ⟨x, hx, _⟩ := hb.str.sound _ _ hval
      rw [hnone] at hx; cases hx
    · rename_i r hr
      rw [hval] at hp
      simp only [hr] at hp
      split
      · rename_i hi
        rw [hi] at hp; simp at hp
      · rename_i idx hidx
        rw [hidx] at hp
        split
        · rename_i he
          simp [he] at hp
        · rename_i hne
          obtain ⟨j, hj, hju⟩ := iidx_spec K r _ idx hidx
          have hjm : j ∈ r.tx.ins := List.mem_of_getElem? hj
          have hrW := hb.poolW _ _ hr
          obtain ⟨jp, jv⟩ := U.uidx_play _ _ _ _ (Play.prev hrW hjm) (Play.self htW) (VPlay.vin hrW hjm) (VPlay.out htW hn) hju
          have rl := h.ok.w.loc _ _ hr
          -- the flag is set
          have hfl : flag r idx = true := by
            cases hf : flag r idx with
            | true => rfl
            | false =>
              exfalso
              rcases h.ok.w.unf _ _ hr idx j hj hf with ha | ⟨_, h2⟩
              · have := hAC _ ha
                rw [jp, ← htx] at this
                exact h.ok.w.ncf _ _ ht' this
              · rw [jv] at h2; exact Nat.lt_irrefl _ h2
          have hlt : idx < r.mem.length := getD_true_lt _ _ hfl
          have hcnt := count_set_false r.mem idx hfl
          -- the flags of the new record
          have hflag : ∀ k, flag (clrRec r idx) k = if k = idx then false else flag r k := by
            intro k
            unfold flag clrRec
            dsimp only
            split
            · rename_i hz
              have hz' : ((r.mem.set idx false).filter id).length = 0 := by rw [rl.memCnt] at hz; omega
              have := count_zero_getD _ k hz'
              rw [getD_set_bool _ _ _ _ hlt] at this
              simp only [List.getD_nil]
              split
              · rfl
              · rename_i hk; simp only [hk, if_false] at this; exact this.symm
            · exact getD_set_bool _ _ _ _ hlt
          have hl' : RecL ν (clrRec r idx) := by
            refine ⟨?_, ?_, rl.nodupIn, rl.vol, rl.fee⟩
            · unfold clrRec
              dsimp only
              split
              · exact Or.inl rfl
              · right
                rcases rl.memLen with e | e
                · rw [e] at hlt; simp at hlt
                · simpa using e
            · unfold clrRec
              dsimp only
              split
              · rename_i hz; rw [hz]; rfl
              · rw [rl.memCnt]; omega
          have ok' := setRec_ok (s' := { s with pool := s.pool.set val (clrRec r idx), sortDirty := true })
            mono (fun _ _ _ _ _ _ _ _ ha => ha) r (clrRec r idx) hr rfl rfl rfl rfl rfl rfl hl'
            (by
              intro k i hk hf
              rw [hflag] at hf
              split at hf
              · cases hf
              · exact h.ok.par _ _ hr k i hk hf)
            (by
              intro k i hk hf
              rw [hflag] at hf
              split at hf
              · rename_i e
                rw [e, hj] at hk
                cases hk
                exact Or.inr ⟨jp, by rw [jv]; omega⟩
              · exact mono.w.unf _ _ hr k i hk hf)
          refine ⟨ok', ?_, ?_⟩
          · obtain ⟨_, look⟩ := setRec_InvR hb val (clrRec r idx) (s' := { s with pool := s.pool.set val (clrRec r idx), sortDirty := true })
              rfl (by rw [hr]; rfl) rfl rfl rfl
            obtain ⟨x', hx', e⟩ := look _ t' ht'
            exact ⟨x', hx', e.trans htx⟩
          · intro b x hx k i hk hf e
            have hx' : (s.pool.set val (clrRec r idx)).get? b = some x := hx
            by_cases eb : b = val
            · rw [eb, AList.get?_set_self] at hx'
              cases hx'
              rw [hflag] at hf
              split at hf
              · cases hf
              · rename_i hk'
                have := h.prog _ _ hr k i hk hf e
                have hne : i.vout ≠ n := by
                  intro e2
                  exact hk' (nodup_pos r.tx rl.nodupIn k idx i j hk hj (by rw [e, jp]) (by rw [e2, jv]))
                omega
            · rw [AList.get?_set_other _ _ _ _ eb] at hx'
              have := h.prog b x hx' k i hk hf e
              have hne : i.vout ≠ n := by
                intro e2
                have := other b x hx' k i hk e e2
                rw [hval] at this
                exact eb (Option.some.inj this).symm
              omega

theorem minedFlags_ok {K : Keys} {W : Tx → Prop} {rank : TxId → Nat} {u0 : UT} {ν : OutPoint → Nat}
    {A : OutPoint → Prop} {Cf : TxId → Prop} (U : Univ2 K W rank u0 ν) (hAC : ∀ o, A o → Cf o.1)
    (t : T2S) (s : State) (h : PoolOK K W ν A Cf s) (hin : s.pool.get? (K.bidx t.tx.id) = some t)
    (hp : (minedFlags K s t).panicked = false) :
    MinedInv K W ν A Cf t t.tx.outs.length (minedFlags K s t) := by
  rw [minedFlags_eq] at hp ⊢
  unfold iota at hp ⊢
  have gen : ∀ n, n ≤ t.tx.outs.length → Env s ((List.range n).foldl (minedStep K t) s) ∧
      (((List.range n).foldl (minedStep K t) s).panicked = false →
        MinedInv K W ν A Cf t n ((List.range n).foldl (minedStep K t) s)) := by
    intro n
    induction n with
    | zero =>
      intro _
      refine ⟨Env.refl s, fun _ => ⟨⟨h.w.mono (fun _ _ _ _ _ _ _ ha => Or.inl ha) (fun _ _ _ hc => hc), h.par⟩,
        ⟨t, hin, rfl⟩, fun _ _ _ _ _ _ _ _ => Nat.zero_le _⟩⟩
    | succ n ih =>
      intro hle
      rw [List.range_succ, List.foldl_append]
      simp only [List.foldl_cons, List.foldl_nil]
      have e2 := minedStep_env K t ((List.range n).foldl (minedStep K t) s) n
      obtain ⟨i1, i2⟩ := ih (by omega)
      refine ⟨i1.trans e2, fun hp' => ?_⟩
      exact minedStep_ok U hAC t n (by omega) _ (i2 (alive_of_env e2 hp')) hp'
  exact (gen _ (Nat.le_refl _)).2 hp

/-! ### unmined: set the flags of the children -/

def memOf (r : T2S) : List Bool := if r.mem.isEmpty then List.replicate r.tx.ins.length false else r.mem

def setRecF (r : T2S) (idx : Nat) : T2S := { r with mem := (memOf r).set idx true, memCnt := r.memCnt + 1 }

def memRec (r : T2S) : T2S := { r with mem := memOf r }

/-- one iteration of OneTxToSend.unmined -/
def unminedStep (K : Keys) (t : T2S) (s : State) (vout : Nat) : State :=
  let u := K.uidx t.tx.id vout
  match s.spent.get? u with
  | none => s
  | some val => match s.pool.get? val with
    | none => s
    | some r =>
      match iidx K r u with
      | none => { s with panicked := true }
      | some idx =>
        if (memOf r).getD idx false then { s with pool := s.pool.set val (memRec r) }
        else { s with pool := s.pool.set val (setRecF r idx), sortDirty := true }

theorem unminedFlags_eq (K : Keys) (s : State) (t : T2S) :
    unminedFlags K s t = (iota t.tx.outs.length).foldl (unminedStep K t) s := rfl

theorem unminedStep_env (K : Keys) (t : T2S) (s : State) (v : Nat) : Env s (unminedStep K t s v) := by
  unfold unminedStep
  dsimp only
  repeat' split
  all_goals first
    | exact Env.refl s
    | exact ⟨rfl, rfl, fun _ => rfl⟩
    | exact ⟨rfl, rfl, id⟩

theorem memOf_getD (r : T2S) (k : Nat) : (memOf r).getD k false = flag r k := by
  unfold memOf flag
  split
  · rename_i he
    have : r.mem = [] := by simpa using he
    rw [this, List.getD_eq_getElem?_getD]
    by_cases hk : k < r.tx.ins.length
    · simp [List.getElem?_replicate, hk]
    · simp [List.getElem?_replicate, hk]
  · rfl

theorem memOf_spec (ν : OutPoint → Nat) (r : T2S) (h : RecL ν r) :
    (memOf r).length = r.tx.ins.length ∧ ((memOf r).filter id).length = (r.mem.filter id).length := by
  unfold memOf
  split
  · rename_i he
    have : r.mem = [] := by simpa using he
    rw [this]
    simp
  · rename_i hne
    rcases h.memLen with e | e
    · rw [e] at hne; simp at hne
    · exact ⟨e, rfl⟩

/-- unflagged inputs: available by `B`, or one of the outputs `n ≤ · < m` of `id` -/
def AUnm (B : OutPoint → Prop) (id : TxId) (m n : Nat) (o : OutPoint) : Prop := B o ∨ (o.1 = id ∧ n ≤ o.2 ∧ o.2 < m)

structure UnmInv (K : Keys) (W : Tx → Prop) (ν : OutPoint → Nat) (B : OutPoint → Prop) (Cf : TxId → Prop)
    (t : T2S) (n : Nat) (s : State) : Prop where
  ok : PoolOK K W ν (AUnm B t.tx.id t.tx.outs.length n) Cf s
  self : ∃ t', s.pool.get? (K.bidx t.tx.id) = some t' ∧ t'.tx = t.tx

theorem unminedStep_ok {K : Keys} {W : Tx → Prop} {rank : TxId → Nat} {u0 : UT} {ν : OutPoint → Nat}
    {B : OutPoint → Prop} {Cf : TxId → Prop} (U : Univ2 K W rank u0 ν)
    (t : T2S) (n : Nat) (hn : n < t.tx.outs.length) (s : State) (h : UnmInv K W ν B Cf t n s)
    (hp : (unminedStep K t s n).panicked = false) : UnmInv K W ν B Cf t (n + 1) (unminedStep K t s n) := by
  have hb := h.ok.w.base
  obtain ⟨t', ht', htx⟩ := h.self
  have htW : W t.tx := by rw [← htx]; exact hb.poolW _ _ ht'
  have other : ∀ b (r : T2S), s.pool.get? b = some r → ∀ (k : Nat) (i : TxIn), r.tx.ins[k]? = some i →
      i.prev = t.tx.id → i.vout = n → s.spent.get? (K.uidx t.tx.id n) = some b := by
    intro b r hr k i hk e1 e2
    rw [← e1, ← e2]
    exact hb.str.complete b r hr _ (List.mem_map.mpr ⟨i, List.mem_of_getElem? hk, rfl⟩)
  -- an unflagged input that is not (t.id, n) stays available
  have shrink : ∀ (i : TxIn), AUnm B t.tx.id t.tx.outs.length n (i.prev, i.vout) → ¬ (i.prev = t.tx.id ∧ i.vout = n) →
      AUnm B t.tx.id t.tx.outs.length (n + 1) (i.prev, i.vout) := by
    intro i ha hne
    rcases ha with ha | ⟨h1, h2, h3⟩
    · exact Or.inl ha
    · refine Or.inr ⟨h1, ?_, h3⟩
      have : i.vout ≠ n := fun e => hne ⟨h1, e⟩
      show n + 1 ≤ i.vout
      have h2' : n ≤ i.vout := h2
      omega
  unfold unminedStep at hp ⊢
  dsimp only at hp ⊢
  split
  · rename_i hnone
    refine ⟨⟨h.ok.w.mono (fun b x hx k i hk _ ha => shrink i ha (fun ⟨e1, e2⟩ => by
      rw [other b x hx k i hk e1 e2] at hnone; cases hnone)) (fun _ _ _ hc => hc), h.ok.par⟩, ⟨t', ht', htx⟩⟩
  · rename_i val hval
    split
    · rename_i hnone
      obtain ⟨x, hx, _⟩ := hb.str.sound _ _ hval
      rw [hnone] at hx; cases hx
    · rename_i r hr
      rw [hval] at hp
      simp only [hr] at hp
      split
      · rename_i hi
        rw [hi] at hp; simp at hp
      · rename_i idx hidx
        obtain ⟨j, hj, hju⟩ := iidx_spec K r _ idx hidx
        have hjm : j ∈ r.tx.ins := List.mem_of_getElem? hj
        have hrW := hb.poolW _ _ hr
        obtain ⟨jp, jv⟩ := U.uidx_play _ _ _ _ (Play.prev hrW hjm) (Play.self htW) (VPlay.vin hrW hjm) (VPlay.out htW hn) hju
        have rl := h.ok.w.loc _ _ hr
        obtain ⟨ml, mc⟩ := memOf_spec ν r rl
        have hidxlt : idx < (memOf r).length := by
          rw [ml]
          apply Classical.byContradiction
          intro hc
          rw [List.getElem?_eq_none (by omega)] at hj; cases hj
        have hmono : ∀ b x, b ≠ val → s.pool.get? b = some x → ∀ k i, x.tx.ins[k]? = some i → flag x k = false →
            AUnm B t.tx.id t.tx.outs.length n (i.prev, i.vout) →
            AUnm B t.tx.id t.tx.outs.length (n + 1) (i.prev, i.vout) := by
          intro b x hne hx k i hk _ ha
          apply shrink i ha
          rintro ⟨e1, e2⟩
          have := other b x hx k i hk e1 e2
          rw [hval] at this
          exact hne (Option.some.inj this).symm
        have selfk : ∀ k i, r.tx.ins[k]? = some i → k ≠ idx → ¬ (i.prev = t.tx.id ∧ i.vout = n) := by
          rintro k i hk hne ⟨e1, e2⟩
          exact hne (nodup_pos r.tx rl.nodupIn k idx i j hk hj (by rw [e1, jp]) (by rw [e2, jv]))
        split
        · rename_i hset
          have hfl : flag r idx = true := by rw [← memOf_getD]; exact hset
          have hflag : ∀ k, flag (memRec r) k = flag r k := by
            intro k; rw [← memOf_getD r k]; rfl
          have ok' := setRec_ok (s' := { s with pool := s.pool.set val (memRec r) }) h.ok hmono r (memRec r) hr rfl
            rfl rfl rfl rfl rfl
            ⟨Or.inr ml, by show r.memCnt = ((memOf r).filter id).length; rw [mc]; exact rl.memCnt, rl.nodupIn, rl.vol, rl.fee⟩
            (by intro k i hk hf; rw [hflag] at hf; exact h.ok.par _ _ hr k i hk hf)
            (by
              intro k i hk hf
              rw [hflag] at hf
              apply shrink i (h.ok.w.unf _ _ hr k i hk hf)
              apply selfk k i hk
              intro e; rw [e, hfl] at hf; cases hf)
          refine ⟨ok', ?_⟩
          obtain ⟨_, look⟩ := setRec_InvR hb val (memRec r) (s' := { s with pool := s.pool.set val (memRec r) })
            rfl (by rw [hr]; rfl) rfl rfl rfl
          obtain ⟨x', hx', e⟩ := look _ t' ht'
          exact ⟨x', hx', e.trans htx⟩
        · rename_i hset
          have hfl : (memOf r).getD idx false = false := by simpa using hset
          have hflag : ∀ k, flag (setRecF r idx) k = if k = idx then true else flag r k := by
            intro k
            rw [← memOf_getD r k]
            exact getD_set_bool _ _ _ _ hidxlt
          have ok' := setRec_ok (s' := { s with pool := s.pool.set val (setRecF r idx), sortDirty := true }) h.ok hmono
            r (setRecF r idx) hr rfl rfl rfl rfl rfl rfl
            ⟨Or.inr (by show ((memOf r).set idx true).length = r.tx.ins.length; rw [List.length_set]; exact ml),
             by show r.memCnt + 1 = (((memOf r).set idx true).filter id).length
                rw [count_set_true _ _ hfl hidxlt, mc, rl.memCnt], rl.nodupIn, rl.vol, rl.fee⟩
            (by
              intro k i hk hf
              rw [hflag] at hf
              split at hf
              · rename_i e
                rw [e, hj] at hk
                cases hk
                refine ⟨t', by rw [jp]; exact ht', by rw [htx, jp], ?_⟩
                rw [htx, jv]; exact hn
              · exact h.ok.par _ _ hr k i hk hf)
            (by
              intro k i hk hf
              rw [hflag] at hf
              split at hf
              · cases hf
              · rename_i hk'
                exact shrink i (h.ok.w.unf _ _ hr k i hk hf) (selfk k i hk hk'))
          refine ⟨ok', ?_⟩
          obtain ⟨_, look⟩ := setRec_InvR hb val (setRecF r idx)
            (s' := { s with pool := s.pool.set val (setRecF r idx), sortDirty := true })
            rfl (by rw [hr]; rfl) rfl rfl rfl
          obtain ⟨x', hx', e⟩ := look _ t' ht'
          exact ⟨x', hx', e.trans htx⟩

theorem unminedFlags_ok {K : Keys} {W : Tx → Prop} {rank : TxId → Nat} {u0 : UT} {ν : OutPoint → Nat}
    {B : OutPoint → Prop} {Cf : TxId → Prop} (U : Univ2 K W rank u0 ν)
    (t : T2S) (s : State) (h : PoolOK K W ν (AUnm B t.tx.id t.tx.outs.length 0) Cf s)
    (hin : s.pool.get? (K.bidx t.tx.id) = some t)
    (hp : (unminedFlags K s t).panicked = false) : PoolOK K W ν B Cf (unminedFlags K s t) := by
  rw [unminedFlags_eq] at hp ⊢
  unfold iota at hp ⊢
  have gen : ∀ n, n ≤ t.tx.outs.length → Env s ((List.range n).foldl (unminedStep K t) s) ∧
      (((List.range n).foldl (unminedStep K t) s).panicked = false →
        UnmInv K W ν B Cf t n ((List.range n).foldl (unminedStep K t) s)) := by
    intro n
    induction n with
    | zero => intro _; exact ⟨Env.refl s, fun _ => ⟨h, ⟨t, hin, rfl⟩⟩⟩
    | succ n ih =>
      intro hle
      rw [List.range_succ, List.foldl_append]
      simp only [List.foldl_cons, List.foldl_nil]
      have e2 := unminedStep_env K t ((List.range n).foldl (unminedStep K t) s) n
      obtain ⟨i1, i2⟩ := ih (by omega)
      refine ⟨i1.trans e2, fun hp' => ?_⟩
      exact unminedStep_ok U t n (by omega) _ (i2 (alive_of_env e2 hp')) hp'
  have fin := (gen _ (Nat.le_refl _)).2 hp
  exact ⟨fin.ok.w.mono (fun _ _ _ _ _ _ _ ha => by
    rcases ha with ha | ⟨_, h2, h3⟩
    · exact ha
    · exact absurd h3 (by have h2' : t.tx.outs.length ≤ _ := h2; omega)) (fun _ _ _ hc => hc), fin.ok.par⟩

/-! ### LoadRawTx's "make as own" -/

theorem markLocal_good {K : Keys} {W : Tx → Prop} {u0 : UT} {ν : OutPoint → Nat} (s : State) (id : TxId)
    (h : PGood K W u0 ν s) : PGood K W u0 ν (markLocal K s id) := by
  have e := markLocal_env K s id
  refine PGood.of_env ?_ e
  unfold markLocal
  split
  · rename_i r hr
    have rl := h.w.loc _ _ hr
    exact setRec_ok (val := K.bidx id) h (fun _ _ _ _ _ _ _ _ ha => ha) r { r with loc := true } hr rfl rfl rfl rfl rfl rfl
      ⟨rl.memLen, rl.memCnt, rl.nodupIn, rl.vol, rl.fee⟩
      (fun k i hk hf => h.par _ _ hr k i hk hf) (fun k i hk hf => h.w.unf _ _ hr k i hk hf)
  · exact h

theorem submitLocal_good {K : Keys} {W : Tx → Prop} {rank : TxId → Nat} {u0 : UT} {ν : OutPoint → Nat}
    (U : Univ2 K W rank u0 ν) (mf : Nat) (s : State) (t : Tx) (hc : ChainOK u0 ν s)
    (h : PGoodP K W u0 ν s) (ht : W t) : PGoodP K W u0 ν (submitLocal K mf s t).2 := by
  unfold submitLocal
  dsimp only
  have e1 := rejDeleteByIdx_env K s (K.bidx t.id)
  have g1 : PGoodP K W u0 ν (rejDeleteByIdx K s (K.bidx t.id)) :=
    PGoodP.lift e1 (fun g => g.frame (rejDeleteByIdx_frame K W s _)) h
  have c1 := hc.of_env e1
  split
  · exact PGoodP.lift (markLocal_env K _ _) (fun g => markLocal_good _ t.id g) g1
  · have e2 := processTx_env K mf (rejDeleteByIdx K s (K.bidx t.id)) t { trusted := true, loc := true }
    have g2 : PGoodP K W u0 ν (processTx K mf (rejDeleteByIdx K s (K.bidx t.id)) t { trusted := true, loc := true }).2 :=
      PGoodP.lift e2 (fun g => processTx_good U mf _ t _ c1 g ht (by intro hu; cases hu)) g1
    split
    · exact txAccepted_good U mf _ _ (c1.of_env e2) g2
    · exact g2

end GocoinV.Mempool
