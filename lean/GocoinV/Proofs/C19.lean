/-
  Proofs.C19 — helper lemmas for Props/C19 (qdb). Part 1: frame lemmas (the disk-level functions do not
  touch the index / failure flag) and the in-memory refinement for stores all of whose records are cached.
-/
import GocoinV.Spec.QdbMap
namespace GocoinV.Proofs.C19
open GocoinV GocoinV.Qdb GocoinV.QdbSpec

variable {eg : Bool}

/-! ### the part of the state that the refinement looks at -/

/-- two states agree on everything except the directory, the effect list and disk bookkeeping -/
structure Frame (a b : DB) : Prop where
  index : a.index = b.index
  failed : a.failed = b.failed
  volatile : a.volatile = b.volatile
  opts : a.opts = b.opts
  noSync : a.noSync = b.noSync
  pending : a.pending = b.pending
  eager : a.eager = b.eager

theorem Frame.refl (a : DB) : Frame a a := ⟨rfl, rfl, rfl, rfl, rfl, rfl, rfl⟩

theorem Frame.trans {a b c : DB} (h1 : Frame a b) (h2 : Frame b c) : Frame a c :=
  ⟨h1.index.trans h2.index, h1.failed.trans h2.failed, h1.volatile.trans h2.volatile,
   h1.opts.trans h2.opts, h1.noSync.trans h2.noSync, h1.pending.trans h2.pending, h1.eager.trans h2.eager⟩

theorem frame_emit (db : DB) (t : String) (e : Effect) : Frame (emit db t e) db :=
  ⟨rfl, rfl, rfl, rfl, rfl, rfl, rfl⟩

theorem frame_checkDat (db : DB) : Frame (checkDat db) db := by
  unfold checkDat
  split
  · exact Frame.refl _
  · exact ⟨rfl, rfl, rfl, rfl, rfl, rfl, rfl⟩

theorem frame_checkLog (db : DB) : Frame (checkLog db) db := by
  unfold checkLog
  split
  · exact Frame.refl _
  · exact ⟨rfl, rfl, rfl, rfl, rfl, rfl, rfl⟩

theorem frame_foldl {α : Type} (f : DB → α → DB) (hf : ∀ d a, Frame (f d a) d) (l : List α) (db : DB) :
    Frame (l.foldl f db) db := by
  induction l generalizing db with
  | nil => exact Frame.refl _
  | cons a t ih => exact (ih (f db a)).trans (hf db a)

theorem frame_cleanupold (db : DB) (used : List Nat) : Frame (cleanupold db used) db := by
  unfold cleanupold
  apply frame_foldl
  intro d s
  split
  · exact frame_emit _ _ _
  · exact Frame.refl _

/-- a sink is framed when it only emits -/
def SinkFramed (sink : DB → Bytes → DB) : Prop := ∀ d b, Frame (sink d b) d

theorem frame_bufWrite (sink : DB → Bytes → DB) (hs : SinkFramed sink) (db : DB) (w : BufW) (p : Bytes) :
    Frame (bufWrite sink db w p).1 db := by
  unfold bufWrite
  split
  · exact Frame.refl _
  · split
    · exact hs _ _
    · dsimp only
      split
      · exact (hs _ _).trans (hs _ _)
      · exact hs _ _

theorem frame_bufFlush (sink : DB → Bytes → DB) (hs : SinkFramed sink) (db : DB) (w : BufW) :
    Frame (bufFlush sink db w) db := by
  unfold bufFlush
  split
  · exact Frame.refl _
  · exact hs _ _

theorem frame_bufWriteAll (sink : DB → Bytes → DB) (hs : SinkFramed sink) (ps : List Bytes) (db : DB) (w : BufW) :
    Frame (bufWriteAll sink db w ps).1 db := by
  unfold bufWriteAll
  induction ps generalizing db w with
  | nil => exact Frame.refl _
  | cons p t ih =>
    simp only [List.foldl_cons]
    exact (ih _ _).trans (frame_bufWrite sink hs db w p)

theorem idxSink_framed (i : Nat) : SinkFramed (idxSink i) := fun _ _ => frame_emit _ _ _

theorem frame_writedatfile (db : DB) : Frame (writedatfile db) db := by
  unfold writedatfile
  dsimp only
  refine (frame_emit _ _ _).trans ((frame_emit _ _ _).trans ?_)
  refine Frame.trans (b := bufFlush _ _ _) ⟨rfl, rfl, rfl, rfl, rfl, rfl, rfl⟩ ?_
  refine (frame_bufFlush _ (idxSink_framed _) _ _).trans ?_
  refine (frame_bufWriteAll _ (idxSink_framed _) _ _ _).trans ?_
  exact ⟨rfl, rfl, rfl, rfl, rfl, rfl, rfl⟩

/-! ### cached stores: every record has its data in memory and no NO_CACHE flag -/


theorem loadrec_cached (fs : FS) (r : Rec) (h : RecCached eg r) : loadrec fs r = some r := by
  unfold loadrec
  obtain ⟨h1, _⟩ := h
  cases hd : r.data with
  | none => simp [hd] at h1
  | some v => rfl

theorem freerec_cached (e : Bool) (r : Rec) (h : hasFlag r.flags (ncOf e) = false) : freerec e r = r := by
  unfold freerec
  simp [h]

theorem defragSink_framed (seq : Nat) : SinkFramed (defragSink seq) := fun _ _ => frame_emit _ _ _

theorem defragRec_cached (sink : DB → Bytes → DB) (hs : SinkFramed sink) (d : DB) (w : BufW)
    (acc : List (Key × Rec)) (kr : Key × Rec) (hf : d.failed = none) (he : d.eager = eg) (hc : RecCached eg kr.2) :
    ∃ d' w' r', defragRec sink (d, w, acc) kr = (d', w', acc ++ [(kr.1, r')]) ∧ Frame d' d ∧
      absRec r' = absRec kr.2 ∧ RecCached eg r' := by
  unfold defragRec
  simp only [hf, loadrec_cached d.fs kr.2 hc]
  refine ⟨_, _, _, rfl, ?_, ?_, ?_⟩
  · have h := frame_bufWrite sink hs d w (kr.2.data.getD [])
    exact ⟨h.index, h.failed, h.volatile, h.opts, h.noSync, h.pending, h.eager⟩
  · rw [(frame_bufWrite sink hs d w (kr.2.data.getD [])).eager, he, freerec_cached _ _ (by exact hc.2)]; rfl
  · rw [(frame_bufWrite sink hs d w (kr.2.data.getD [])).eager, he, freerec_cached _ _ (by exact hc.2)]; exact hc

theorem defrag_fold_cached (sink : DB → Bytes → DB) (hs : SinkFramed sink) (l : List (Key × Rec))
    (hl : AllCached eg l) (d : DB) (w : BufW) (acc : List (Key × Rec)) (hf : d.failed = none) (he : d.eager = eg) :
    ∃ d' w' l', l.foldl (defragRec sink) (d, w, acc) = (d', w', acc ++ l') ∧ Frame d' d ∧
      l'.map absE = l.map absE ∧ AllCached eg l' := by
  induction l generalizing d w acc with
  | nil => exact ⟨d, w, [], by simp, Frame.refl _, rfl, by intro _ h; cases h⟩
  | cons kr t ih =>
    obtain ⟨d1, w1, r1, h1, hfr1, habs1, hc1⟩ :=
      defragRec_cached sink hs d w acc kr hf he (hl kr (List.mem_cons_self))
    have hf1 : d1.failed = none := by rw [hfr1.failed]; exact hf
    obtain ⟨d2, w2, l2, h2, hfr2, habs2, hc2⟩ :=
      ih (fun x hx => hl x (List.mem_cons_of_mem _ hx)) d1 w1 (acc ++ [(kr.1, r1)]) hf1 (hfr1.eager.trans he)
    refine ⟨d2, w2, (kr.1, r1) :: l2, ?_, hfr2.trans hfr1, ?_, ?_⟩
    · simp only [List.foldl_cons, h1, h2, List.append_assoc, List.singleton_append]
    · simp only [List.map_cons, habs2]
      congr 1
      simp only [absE, habs1]
    · intro x hx
      cases hx with
      | head => exact hc1
      | tail _ hx => exact hc2 x hx

theorem Cached.of_frame {a b : DB} (h : Frame a b) (hc : Cached b) : Cached a :=
  ⟨h.failed.trans hc.1, by rw [h.eager, AllCached, h.index]; exact hc.2⟩

/-- what the refinement needs to know about a disk-level operation on a cached store -/
structure Keeps (a b : DB) : Prop where
  cached : Cached a
  abs : absv a = absv b
  volatile : a.volatile = b.volatile
  opts : a.opts = b.opts
  eager : a.eager = b.eager

theorem Keeps.of_frame {a b : DB} (h : Frame a b) (hc : Cached b) : Keeps a b :=
  ⟨Cached.of_frame h hc, by simp only [absv, h.index], h.volatile, h.opts, h.eager⟩

theorem Keeps.trans {a b c : DB} (h1 : Keeps a b) (h2 : Keeps b c) : Keeps a c :=
  ⟨h1.cached, h1.abs.trans h2.abs, h1.volatile.trans h2.volatile, h1.opts.trans h2.opts, h1.eager.trans h2.eager⟩

theorem defragStart_frame (db : DB) : Frame (defragStart db) db :=
  (frame_checkDat _).trans ⟨rfl, rfl, rfl, rfl, rfl, rfl, rfl⟩

theorem defragFinish_spec (seq : Nat) (d : DB) (w : BufW) (recs : List (Key × Rec)) :
    (defragFinish seq d w recs).index = recs ∧ (defragFinish seq d w recs).failed = d.failed ∧
    (defragFinish seq d w recs).volatile = d.volatile ∧ (defragFinish seq d w recs).opts = d.opts ∧
    (defragFinish seq d w recs).noSync = d.noSync ∧ (defragFinish seq d w recs).pending = [] ∧
    (defragFinish seq d w recs).eager = d.eager := by
  have h := (frame_cleanupold (writedatfile (bufFlush (defragSink seq) { d with index := recs } w))
      (if recs.isEmpty then [] else [seq])).trans
    ((frame_writedatfile _).trans (frame_bufFlush _ (defragSink_framed seq) { d with index := recs } w))
  exact ⟨h.index, h.failed, h.volatile, h.opts, h.noSync, rfl, h.eager⟩

theorem defrag_cached (db : DB) (h : Cached db) : Keeps (defrag db) db := by
  have hfr0 := defragStart_frame db
  obtain ⟨d', w', l', hfold, hfr, habs, hc⟩ :=
    defrag_fold_cached (defragSink (defragStart db).dataSeq) (defragSink_framed _) db.index h.2
      (defragStart db) {} [] (hfr0.failed.trans h.1) hfr0.eager
  have hf' : d'.failed = none := (hfr.trans hfr0).failed.trans h.1
  have hd : defrag db = defragFinish (defragStart db).dataSeq d' w' l' := by
    unfold defrag
    simp only [hfr0.index, hfold, List.nil_append, hf']
  obtain ⟨hi, hfa, hv, ho, _, _, hfe⟩ := defragFinish_spec (defragStart db).dataSeq d' w' l'
  rw [hd]
  have hee : (defragFinish (defragStart db).dataSeq d' w' l').eager = db.eager := hfe.trans (hfr.trans hfr0).eager
  refine ⟨⟨hfa.trans hf', ?_⟩, ?_, hv.trans (hfr.trans hfr0).volatile, ho.trans (hfr.trans hfr0).opts, hee⟩
  · show AllCached _ _
    rw [hi, hee]; exact hc
  · show List.map absE _ = _
    rw [hi, habs]; rfl

/-! ### association-list lemmas -/

def mapV {α β : Type} (f : α → β) (l : List (Key × α)) : List (Key × β) := l.map fun kr => (kr.1, f kr.2)

theorem mapV_iset {α β : Type} (f : α → β) (k : Key) (r : α) (l : List (Key × α)) :
    mapV f (iset k r l) = iset k (f r) (mapV f l) := by
  induction l with
  | nil => rfl
  | cons h t ih =>
    obtain ⟨j, q⟩ := h
    by_cases hj : j = k
    · simp [iset, mapV, hj]
    · simp only [iset, mapV, hj, ↓reduceIte, List.map_cons] at ih ⊢
      rw [ih]

theorem mapV_ierase {α β : Type} (f : α → β) (k : Key) (l : List (Key × α)) :
    mapV f (ierase k l) = ierase k (mapV f l) := by
  induction l with
  | nil => rfl
  | cons h t ih =>
    obtain ⟨j, q⟩ := h
    by_cases hj : j = k
    · simp [ierase, mapV, hj]
    · simp only [ierase, mapV, hj, ↓reduceIte, List.map_cons] at ih ⊢
      rw [ih]

theorem ilookup_mapV {α β : Type} (f : α → β) (k : Key) (l : List (Key × α)) :
    ilookup k (mapV f l) = (ilookup k l).map f := by
  induction l with
  | nil => rfl
  | cons h t ih =>
    obtain ⟨j, q⟩ := h
    by_cases hj : j = k
    · simp [ilookup, mapV, hj]
    · simp only [ilookup, mapV, hj, ↓reduceIte, List.map_cons] at ih ⊢
      rw [ih]

theorem iset_same {α : Type} (k : Key) (x : α) (l : List (Key × α)) (h : ilookup k l = some x) :
    iset k x l = l := by
  induction l with
  | nil => simp [ilookup] at h
  | cons hd t ih =>
    obtain ⟨j, q⟩ := hd
    by_cases hj : j = k
    · simp only [ilookup, hj, ↓reduceIte, Option.some.injEq] at h
      simp [iset, hj, h]
    · simp only [ilookup, hj, ↓reduceIte] at h
      simp only [iset, hj, ↓reduceIte, ih h]

theorem ilookup_mem {α : Type} (k : Key) (x : α) (l : List (Key × α)) (h : ilookup k l = some x) :
    ∃ j, (j, x) ∈ l := by
  induction l with
  | nil => simp [ilookup] at h
  | cons hd t ih =>
    obtain ⟨j, q⟩ := hd
    by_cases hj : j = k
    · simp only [ilookup, hj, ↓reduceIte, Option.some.injEq] at h
      exact ⟨j, by simp [h]⟩
    · simp only [ilookup, hj, ↓reduceIte] at h
      obtain ⟨j', hm⟩ := ih h
      exact ⟨j', List.mem_cons_of_mem _ hm⟩

theorem mem_iset {α : Type} (k : Key) (r : α) (l : List (Key × α)) (x : Key × α) (h : x ∈ iset k r l) :
    x = (k, r) ∨ x ∈ l := by
  induction l with
  | nil => simp [iset] at h; exact Or.inl h
  | cons hd t ih =>
    obtain ⟨j, q⟩ := hd
    by_cases hj : j = k
    · simp only [iset, hj, ↓reduceIte, List.mem_cons] at h
      rcases h with h | h
      · exact Or.inl h
      · exact Or.inr (List.mem_cons_of_mem _ h)
    · simp only [iset, hj, ↓reduceIte, List.mem_cons] at h
      rcases h with h | h
      · exact Or.inr (by simp [h])
      · rcases ih h with h | h
        · exact Or.inl h
        · exact Or.inr (List.mem_cons_of_mem _ h)

theorem mem_ierase {α : Type} (k : Key) (l : List (Key × α)) (x : Key × α) (h : x ∈ ierase k l) : x ∈ l := by
  induction l with
  | nil => simp [ierase] at h
  | cons hd t ih =>
    obtain ⟨j, q⟩ := hd
    by_cases hj : j = k
    · simp only [ierase, hj, ↓reduceIte] at h
      exact List.mem_cons_of_mem _ h
    · simp only [ierase, hj, ↓reduceIte, List.mem_cons] at h
      rcases h with h | h
      · simp [h]
      · exact List.mem_cons_of_mem _ (ih h)

theorem absv_eq_mapV (db : DB) : absv db = mapV absRec db.index := rfl

theorem allCached_iset {l : List (Key × Rec)} (h : AllCached eg l) (k : Key) (r : Rec) (hr : RecCached eg r) :
    AllCached eg (iset k r l) := by
  intro x hx
  rcases mem_iset k r l x hx with h1 | h1
  · rw [h1]; exact hr
  · exact h x h1

theorem allCached_ierase {l : List (Key × Rec)} (h : AllCached eg l) (k : Key) : AllCached eg (ierase k l) :=
  fun x hx => h x (mem_ierase k l x hx)

theorem allCached_lookup {l : List (Key × Rec)} (h : AllCached eg l) (k : Key) (r : Rec)
    (hl : ilookup k l = some r) : RecCached eg r := by
  obtain ⟨j, hm⟩ := ilookup_mem k r l hl
  exact h (j, r) hm

/-! ### sync on a cached store -/

theorem Keeps.refl {a : DB} (h : Cached a) : Keeps a a := ⟨h, rfl, rfl, rfl, rfl⟩

theorem syncKey_cached (st : DB × Bytes) (k : Key) (h : Cached st.1) :
    Keeps (syncKey st k).1 st.1 := by
  unfold syncKey
  simp only [h.1]
  cases hl : ilookup k st.1.index with
  | none => exact Keeps.refl h
  | some rc =>
    have hrc := allCached_lookup h.2 k rc hl
    cases hd : rc.data with
    | none => have := hrc.1; simp [hd] at this
    | some val =>
      simp only [hd]
      unfold syncRec
      have hnc : hasFlag rc.flags (ncOf st.1.eager) = false := hrc.2
      have hee : (emit st.1 "qdb.sync:data-written" (.writeDat st.1.dataSeq st.1.lastPos val)).eager = st.1.eager := rfl
      simp only [hee, hnc]
      refine ⟨⟨h.1, ?_⟩, ?_, rfl, rfl, rfl⟩
      · exact allCached_iset h.2 k _ ⟨by simp [hd], hrc.2⟩
      · show mapV absRec (iset k _ st.1.index) = mapV absRec st.1.index
        rw [mapV_iset]
        apply iset_same
        rw [ilookup_mapV, hl]
        simp [absRec, hd]

theorem syncFold_cached (ks : List Key) (st : DB × Bytes) (h : Cached st.1) :
    Keeps (ks.foldl syncKey st).1 st.1 := by
  induction ks generalizing st with
  | nil => exact Keeps.refl h
  | cons k t ih =>
    simp only [List.foldl_cons]
    have h1 := syncKey_cached st k h
    exact (ih (syncKey st k) h1.cached).trans h1

theorem syncFinish_cached (db : DB) (bidx : Bytes) (h : Cached db) : Keeps (syncFinish db bidx) db := by
  have h2 : Keeps { emit (checkLog db) "qdb.sync:log-written" (.appendLog bidx) with pending := [] } db := by
    have := (frame_emit (checkLog db) "qdb.sync:log-written" (.appendLog bidx)).trans (frame_checkLog db)
    exact ⟨⟨this.failed.trans h.1, by
        show AllCached (emit (checkLog db) "qdb.sync:log-written" (.appendLog bidx)).eager _
        rw [this.eager, AllCached]; intro kr hkr; exact h.2 kr (this.index ▸ hkr)⟩,
      by unfold absv; dsimp only; rw [this.index], this.volatile, this.opts, this.eager⟩
  unfold syncFinish
  dsimp only
  split
  · exact (defrag_cached _ h2.cached).trans h2
  · exact h2

theorem sync_cached (db : DB) (h : Cached db) : Keeps (sync db) db := by
  unfold sync
  split
  · exact Keeps.refl h
  · split
    · exact Keeps.refl h
    · have h0 : Keeps (checkDat db) db := Keeps.of_frame (frame_checkDat db) h
      have h1 := (syncFold_cached db.pending (checkDat db, []) h0.cached).trans h0
      simp only [h1.cached.1]
      exact (syncFinish_cached _ _ h1.cached).trans h1

/-! ### flags -/

theorem hasFlag_true (fl bit : Nat) : hasFlag fl bit = true ↔ (fl / bit) % 2 = 1 := by simp [hasFlag]
theorem hasFlag_false (fl bit : Nat) : hasFlag fl bit = false ↔ (fl / bit) % 2 = 0 := by
  simp only [hasFlag, beq_eq_false_iff_ne, ne_eq]; omega

theorem applyBF_keeps_noNC (fl res : Nat) (h1 : hasFlag fl NO_CACHE = false) (h2 : hasFlag res NO_CACHE = false) :
    hasFlag (applyBrowsingFlags fl res) NO_CACHE = false := by
  have e1 : hasFlag (setFlag fl NO_BROWSE) NO_CACHE = false := by
    rw [hasFlag_false] at h1 ⊢
    unfold setFlag
    split
    · exact h1
    · rename_i hb
      have : ¬ (fl / NO_BROWSE) % 2 = 1 := fun h => hb ((hasFlag_true _ _).mpr h)
      simp only [NO_BROWSE, NO_CACHE, Nat.div_one] at *
      omega
  have e2 : hasFlag (clrFlag fl NO_BROWSE) NO_CACHE = false := by
    rw [hasFlag_false] at h1 ⊢
    unfold clrFlag
    split
    · rename_i hb
      have := (hasFlag_true _ _).mp hb
      simp only [NO_BROWSE, NO_CACHE, Nat.div_one] at *
      omega
    · exact h1
  have e3 : ∀ x, hasFlag x NO_CACHE = false → hasFlag (clrFlag x NO_CACHE) NO_CACHE = false := by
    intro x hx
    unfold clrFlag
    simp [hx]
  unfold applyBrowsingFlags
  simp only [h2, Bool.false_eq_true, ↓reduceIte]
  have hA : hasFlag (if hasFlag res NO_BROWSE = true then setFlag fl NO_BROWSE
      else if hasFlag res YES_BROWSE = true then clrFlag fl NO_BROWSE else fl) NO_CACHE = false := by
    split
    · exact e1
    · split
      · exact e2
      · exact h1
  split
  · exact e3 _ hA
  · exact hA

/-! ### the public operations on a cached store -/

theorem hasFlag_big_of_lt (x : Nat) (h : x < 2^40) : hasFlag x (2^40) = false := by
  rw [hasFlag_false, Nat.div_eq_of_lt h]

theorem applyBF_big (fl res : Nat) (h1 : hasFlag fl (2^40) = false) : hasFlag (applyBrowsingFlags fl res) (2^40) = false := by
  have hs : ∀ x b, (b = 1 ∨ b = 2) → hasFlag x (2^40) = false → hasFlag (setFlag x b) (2^40) = false := by
    intro x b hb hx
    unfold setFlag
    split
    · exact hx
    · rename_i hn
      have hn' : hasFlag x b = false := by simpa using hn
      rw [hasFlag_false] at hx hn' ⊢
      rcases hb with rfl | rfl <;> omega
  have hc : ∀ x b, (b = 1 ∨ b = 2) → hasFlag x (2^40) = false → hasFlag (clrFlag x b) (2^40) = false := by
    intro x b hb hx
    unfold clrFlag
    split
    · rename_i hn
      rw [hasFlag_true] at hn
      rw [hasFlag_false] at hx ⊢
      rcases hb with rfl | rfl <;> omega
    · exact hx
  unfold applyBrowsingFlags
  have hA : hasFlag (if hasFlag res NO_BROWSE = true then setFlag fl NO_BROWSE
      else if hasFlag res YES_BROWSE = true then clrFlag fl NO_BROWSE else fl) (2^40) = false := by
    split
    · exact hs _ _ (Or.inl rfl) h1
    · split
      · exact hc _ _ (Or.inl rfl) h1
      · exact h1
  dsimp only
  split
  · exact hs _ _ (Or.inr rfl) hA
  · split
    · exact hc _ _ (Or.inr rfl) hA
    · exact hA

/-- `applyBrowsingFlags` does not set the tested flag unless asked to -/
theorem applyBF_keeps (e : Bool) (fl res : Nat) (h1 : hasFlag fl (ncOf e) = false) (h2 : hasFlag res (ncOf e) = false) :
    hasFlag (applyBrowsingFlags fl res) (ncOf e) = false := by
  cases e with
  | false => exact applyBF_keeps_noNC fl res h1 h2
  | true => exact applyBF_big fl res h1

theorem yesCache_ok (e : Bool) : hasFlag YES_CACHE (ncOf e) = false := by cases e <;> decide
theorem zeroFlags_ok (e : Bool) : hasFlag 0 (ncOf e) = false := by cases e <;> decide

theorem memput_eager (db : DB) (k : Key) (r : Rec) : (memput db k r).eager = db.eager := by
  unfold memput
  cases ilookup k db.index <;> dsimp only <;> (repeat' split) <;> rfl

theorem memdel_eager (db : DB) (k : Key) : (memdel db k).eager = db.eager := by
  unfold memdel
  cases ilookup k db.index <;> dsimp only <;> (repeat' split) <;> rfl

theorem addPending_eager (db : DB) (k : Key) : (addPending db k).eager = db.eager := by
  unfold addPending
  split <;> rfl

theorem memput_spec (db : DB) (k : Key) (r : Rec) :
    (memput db k r).index = iset k r db.index ∧ (memput db k r).failed = db.failed ∧
    (memput db k r).volatile = db.volatile ∧ (memput db k r).opts = db.opts := by
  unfold memput
  cases ilookup k db.index <;> dsimp only <;> (repeat' split) <;> exact ⟨rfl, rfl, rfl, rfl⟩

theorem ierase_absent {α : Type} (k : Key) (l : List (Key × α)) (h : ilookup k l = none) : ierase k l = l := by
  induction l with
  | nil => rfl
  | cons hd t ih =>
    obtain ⟨j, q⟩ := hd
    by_cases hj : j = k
    · simp [ilookup, hj] at h
    · simp only [ilookup, hj, ↓reduceIte] at h
      simp only [ierase, hj, ↓reduceIte, ih h]

theorem memdel_spec (db : DB) (k : Key) :
    (memdel db k).index = ierase k db.index ∧ (memdel db k).failed = db.failed ∧
    (memdel db k).volatile = db.volatile ∧ (memdel db k).opts = db.opts := by
  unfold memdel
  cases hl : ilookup k db.index with
  | none => exact ⟨(ierase_absent k db.index hl).symm, rfl, rfl, rfl⟩
  | some cur => dsimp only; split <;> exact ⟨rfl, rfl, rfl, rfl⟩

theorem addPending_frame (db : DB) (k : Key) :
    (addPending db k).index = db.index ∧ (addPending db k).failed = db.failed ∧
    (addPending db k).volatile = db.volatile ∧ (addPending db k).opts = db.opts := by
  unfold addPending
  split <;> exact ⟨rfl, rfl, rfl, rfl⟩

theorem afterChange_cached (db : DB) (k : Key) (h : Cached db) : Keeps (afterChange db k) db := by
  obtain ⟨hi, hf, hv, ho⟩ := addPending_frame db k
  have h1 : Keeps (addPending db k) db :=
    ⟨⟨hf.trans h.1, by rw [addPending_eager, AllCached, hi]; exact h.2⟩, by rw [absv, absv, hi], hv, ho,
     addPending_eager db k⟩
  unfold afterChange
  split
  · exact ⟨h, rfl, rfl, rfl, rfl⟩
  · split
    · exact (sync_cached _ h1.cached).trans h1
    · exact h1

theorem putExt_cached (db : DB) (k : Key) (v : Bytes) (f : Nat) (h : Cached db) (hf : hasFlag f (ncOf db.eager) = false) :
    Cached (putExt db k v f) ∧ absv (putExt db k v f) = iset k (v, f) (absv db) := by
  unfold putExt
  simp only [h.1, Option.isSome_none, Bool.false_eq_true, ↓reduceIte]
  obtain ⟨hi, hfa, _, _⟩ := memput_spec db k (newRec v f)
  have hc : Cached (memput db k (newRec v f)) :=
    ⟨hfa.trans h.1, by rw [memput_eager, AllCached, hi]; exact allCached_iset h.2 k _ ⟨rfl, hf⟩⟩
  have hk := afterChange_cached _ k hc
  refine ⟨hk.cached, hk.abs.trans ?_⟩
  rw [absv_eq_mapV, hi, mapV_iset]; rfl

theorem del_cached (db : DB) (k : Key) (h : Cached db) :
    Cached (del db k) ∧ absv (del db k) = ierase k (absv db) := by
  unfold del
  simp only [h.1, Option.isSome_none, Bool.false_eq_true, ↓reduceIte]
  obtain ⟨hi, hfa, _, _⟩ := memdel_spec db k
  have hc : Cached (memdel db k) := ⟨hfa.trans h.1, by rw [memdel_eager, AllCached, hi]; exact allCached_ierase h.2 k⟩
  have hk := afterChange_cached _ k hc
  refine ⟨hk.cached, hk.abs.trans ?_⟩
  rw [absv_eq_mapV, hi, mapV_ierase]; rfl

theorem ilookup_absv (db : DB) (k : Key) : ilookup k (absv db) = (ilookup k db.index).map absRec :=
  ilookup_mapV absRec k db.index

theorem get_cached (db : DB) (k : Key) (h : Cached db) :
    Cached (Qdb.get db k).1 ∧ absv (Qdb.get db k).1 = mstep (absv db) (.get k) ∧
    (Qdb.get db k).2 = mget (absv db) k := by
  unfold Qdb.get mget
  simp only [h.1, Option.isSome_none, Bool.false_eq_true, ↓reduceIte, mstep, ilookup_absv]
  cases hl : ilookup k db.index with
  | none => exact ⟨h, rfl, rfl⟩
  | some r =>
    have hr := allCached_lookup h.2 k r hl
    simp only [loadrec_cached db.fs r hr, Option.map_some]
    refine ⟨⟨rfl, ?_⟩, ?_, ?_⟩
    · exact allCached_iset h.2 k _ ⟨hr.1, applyBF_keeps _ _ _ hr.2 (yesCache_ok _)⟩
    · show mapV absRec (iset k _ db.index) = _
      rw [mapV_iset]; rfl
    · obtain ⟨h1, _⟩ := hr
      cases hd : r.data with
      | none => simp [hd] at h1
      | some v => simp [absRec, hd]

theorem applyFlags_cached (db : DB) (k : Key) (fl : Nat) (h : Cached db) (hf : hasFlag fl (ncOf db.eager) = false) :
    Cached (applyFlags db k fl) ∧ absv (applyFlags db k fl) = mstep (absv db) (.applyFlags k fl) := by
  unfold applyFlags
  simp only [h.1, Option.isSome_none, Bool.false_eq_true, ↓reduceIte, mstep, ilookup_absv]
  cases hl : ilookup k db.index with
  | none => exact ⟨h, rfl⟩
  | some r =>
    have hr := allCached_lookup h.2 k r hl
    simp only [Option.map_some]
    refine ⟨⟨rfl, ?_⟩, ?_⟩
    · exact allCached_iset h.2 k _ ⟨hr.1, applyBF_keeps _ _ _ hr.2 hf⟩
    · show mapV absRec (iset k _ db.index) = _
      rw [mapV_iset]; rfl


theorem walkRes_ok (w : List (Key × Nat)) (hw : WalkOK eg w) (k : Key) : hasFlag (walkRes w k) (ncOf eg) = false := by
  unfold walkRes
  cases hf : w.find? (·.1 = k) with
  | none => exact zeroFlags_ok eg
  | some kf => exact hw kf (List.mem_of_find?_eq_some hf)

/-- what Browse does to one record of a cached store (`vs`: the visit set, Model.Qdb.visitSet) -/
def browseRec (all : Bool) (w : List (Key × Nat)) (vs : Option (List Key)) (kr : Key × Rec) : Key × Rec :=
  if skipB all vs kr.2.flags kr.1 then kr
  else (kr.1, { kr.2 with flags := applyBrowsingFlags kr.2.flags (walkRes w kr.1) })

def browseOut (all : Bool) (vs : Option (List Key)) (kr : Key × Rec) : Option (Key × Bytes) :=
  if skipB all vs kr.2.flags kr.1 then none else some (kr.1, kr.2.data.getD [])

/-- the visit set of a browse that starts on `db` -/
def vsOf (all : Bool) (db : DB) (w : List (Key × Nat)) : Option (List Key) := visitSet Rec.flags all db.index w

theorem skipB_none (all : Bool) (fl : Nat) (k : Key) : skipB all none fl k = (!all && hasFlag fl NO_BROWSE) := by
  simp [skipB]

theorem browseFold_cached (all : Bool) (w : List (Key × Nat)) (vs : Option (List Key)) (hw : WalkOK eg w)
    (l : List (Key × Rec))
    (hl : AllCached eg l) (db : DB) (hf : db.failed = none) (he : db.eager = eg) (acc : List (Key × Rec))
    (out : List (Key × Bytes)) :
    l.foldl (browseStep all w vs) (db, acc, out) =
      (db, acc ++ l.map (browseRec all w vs), out ++ l.filterMap (browseOut all vs)) := by
  induction l generalizing acc out with
  | nil => simp
  | cons kr t ih =>
    have hc := hl kr List.mem_cons_self
    have hstep : browseStep all w vs (db, acc, out) kr =
        (db, acc ++ [browseRec all w vs kr], out ++ (browseOut all vs kr).toList) := by
      unfold browseStep browseRec browseOut
      simp only [hf]
      split
      · simp
      · simp only [loadrec_cached db.fs kr.2 hc]
        rw [he, freerec_cached _ _ (applyBF_keeps _ _ _ hc.2 (walkRes_ok w hw kr.1))]
        simp
    simp only [List.foldl_cons, hstep]
    rw [ih (fun x hx => hl x (List.mem_cons_of_mem _ hx))]
    cases hb : browseOut all vs kr <;> simp [hb]

theorem browseGen_cached (all : Bool) (db : DB) (w : List (Key × Nat)) (h : Cached db) (hw : WalkOK db.eager w) :
    (browseGen all db w).1 = { db with index := db.index.map (browseRec all w (vsOf all db w)) } ∧
    (browseGen all db w).2 = db.index.filterMap (browseOut all (vsOf all db w)) := by
  unfold browseGen vsOf
  simp only [h.1, Option.isSome_none, Bool.false_eq_true, ↓reduceIte]
  rw [browseFold_cached all w _ hw db.index h.2 db h.1 rfl [] []]
  simp [h.1]

theorem absE_browseRec (w : List (Key × Nat)) (vs : Option (List Key)) (kr : Key × Rec) :
    absE (browseRec false w vs kr) =
      (fun (x : Key × (Bytes × Nat)) => if skipB false vs x.2.2 x.1 then x
        else (x.1, x.2.1, applyBrowsingFlags x.2.2 (walkRes w x.1))) (absE kr) := by
  unfold browseRec absE absRec
  by_cases hb : skipB false vs kr.2.flags kr.1 = true
  · simp only [hb, ↓reduceIte]
  · simp only [hb, Bool.false_eq_true, ↓reduceIte]

/-- eligibility and the visit set only look at keys and flag words: the store's and its abstract map's agree -/
theorem eligible_absE (all : Bool) (l : List (Key × Rec)) (k : Key) :
    eligible (α := Bytes × Nat) (·.2) all (l.map absE) k = eligible Rec.flags all l k := by
  unfold eligible
  induction l with
  | nil => rfl
  | cons x t ih =>
    simp only [List.map_cons, ilookup, absE]
    by_cases hk : x.1 = k
    · simp [hk, absRec]
    · simp only [hk, ↓reduceIte]; exact ih

theorem visitSetAux_congr (e1 e2 : Key → Bool) (h : ∀ k, e1 k = e2 k) (w : List (Key × Nat)) (seen : List Key) :
    visitSetAux e1 w seen = visitSetAux e2 w seen := by
  have : e1 = e2 := funext h
  rw [this]

theorem mvisitSet_absv (all : Bool) (db : DB) (w : List (Key × Nat)) :
    mvisitSet all (absv db) w = vsOf all db w := by
  unfold mvisitSet vsOf visitSet absv
  exact visitSetAux_congr _ _ (eligible_absE all db.index) w []

theorem browse_cached (db : DB) (w : List (Key × Nat)) (h : Cached db) (hw : WalkOK db.eager w) :
    Cached (browse db w).1 ∧ absv (browse db w).1 = mstep (absv db) (.browse w) ∧
    (browse db w).2 = mbrowseOutW w (absv db) := by
  obtain ⟨h1, h2⟩ := browseGen_cached false db w h hw
  unfold browse
  rw [h1, h2]
  refine ⟨⟨h.1, ?_⟩, ?_, ?_⟩
  · intro x hx
    obtain ⟨kr, hkr, rfl⟩ := List.mem_map.mp hx
    have hc := h.2 kr hkr
    unfold browseRec
    split
    · exact hc
    · exact ⟨hc.1, applyBF_keeps _ _ _ hc.2 (walkRes_ok w hw kr.1)⟩
  · show List.map absE (List.map (browseRec false w (vsOf false db w)) db.index) = mbrowseState (absv db) w
    unfold mbrowseState
    rw [mvisitSet_absv]
    unfold absv
    simp only [List.map_map]
    apply List.map_congr_left
    intro kr _
    simp only [Function.comp, absE_browseRec]
  · show _ = mbrowseOutW w (absv db)
    unfold mbrowseOutW
    rw [mvisitSet_absv]
    unfold mbrowseOutV absv
    generalize vsOf false db w = vs
    induction db.index with
    | nil => rfl
    | cons kr t ih =>
      simp only [List.filterMap_cons, List.map_cons, ih]
      simp only [browseOut, absE, absRec]
      by_cases hb : skipB false vs kr.2.flags kr.1 = true <;> simp [hb]

/-- a walk function none of whose answers carries BR_ABORT -/
def NoAbort (w : List (Key × Nat)) : Prop := ∀ kf ∈ w, hasFlag kf.2 BR_ABORT = false

theorem visitSetAux_noAbort (el : Key → Bool) (w : List (Key × Nat)) (h : NoAbort w) (seen : List Key) :
    visitSetAux el w seen = none := by
  induction w generalizing seen with
  | nil => rfl
  | cons x t ih =>
    obtain ⟨k, f⟩ := x
    have hf : hasFlag f BR_ABORT = false := h (k, f) List.mem_cons_self
    have ht : NoAbort t := fun kf hkf => h kf (List.mem_cons_of_mem _ hkf)
    simp only [visitSetAux, hf]
    split
    · exact ih ht _
    · simp only [Bool.false_eq_true, ↓reduceIte]; exact ih ht _

/-- without a BR_ABORT answer the browse is the plain one: every record not flagged NO_BROWSE -/
theorem mbrowseOutW_noAbort (w : List (Key × Nat)) (h : NoAbort w) (m : M) : mbrowseOutW w m = mbrowseOut m := by
  unfold mbrowseOutW mvisitSet visitSet
  rw [visitSetAux_noAbort _ w h]
  unfold mbrowseOutV mbrowseOut
  simp only [skipB_none, Bool.not_false, Bool.true_and]

theorem notFailed {db : DB} (h : Cached db) : ¬ (db.failed.isSome = true) := by simp [h.1]

theorem step_cached (db : DB) (op : Op) (h : Cached db) (ok : OpOK db.eager op) :
    Cached (step db op) ∧ absv (step db op) = mstep (absv db) op := by
  cases op with
  | put k v => exact putExt_cached db k v 0 h (zeroFlags_ok _)
  | putExt k v f => exact putExt_cached db k v f h ok
  | del k => exact del_cached db k h
  | get k => exact ⟨(get_cached db k h).1, (get_cached db k h).2.1⟩
  | browse w => exact ⟨(browse_cached db w h ok).1, (browse_cached db w h ok).2.1⟩
  | applyFlags k fl => exact applyFlags_cached db k fl h ok
  | defrag f =>
    show Cached (defragOp db f).1 ∧ absv (defragOp db f).1 = absv db
    unfold defragOp
    rw [if_neg (notFailed h)]
    split
    · exact ⟨h, rfl⟩
    · dsimp only
      split
      · exact ⟨(defrag_cached db h).cached, (defrag_cached db h).abs⟩
      · exact ⟨h, rfl⟩
  | sync =>
    show Cached (syncOp db) ∧ absv (syncOp db) = absv db
    unfold syncOp
    rw [if_neg (notFailed h)]
    split
    · exact ⟨h, rfl⟩
    · have h' : Cached { db with noSync := false } := h
      exact ⟨(sync_cached _ h').cached, (sync_cached _ h').abs⟩
  | noSync =>
    show Cached (noSyncOp db) ∧ absv (noSyncOp db) = absv db
    unfold noSyncOp
    rw [if_neg (notFailed h)]
    split
    · exact ⟨h, rfl⟩
    · exact ⟨h, rfl⟩
  | reopen a b c => exact absurd ok (by simp [OpOK])

theorem close_eager (db : DB) (h : Cached db) : (close db).eager = db.eager := by
  unfold close
  rw [if_neg (by simp [h.1])]
  have hd : (if db.volatile = true then (if db.noSync = true then defrag db else db) else sync db).eager = db.eager := by
    split
    · split
      · exact (defrag_cached db h).eager
      · rfl
    · exact (sync_cached db h).eager
  generalize (if db.volatile = true then (if db.noSync = true then defrag db else db) else sync db) = d at hd
  dsimp only
  cases d.failed with
  | some w => exact hd
  | none => exact hd

theorem memput_cachedC (db : DB) (k : Key) (v : Bytes) (f : Nat) (h : Cached db)
    (hf : hasFlag f (ncOf db.eager) = false) : Cached (memput db k (newRec v f)) := by
  obtain ⟨hi, hfa, _, _⟩ := memput_spec db k (newRec v f)
  exact ⟨hfa.trans h.1, by rw [memput_eager, AllCached, hi]; exact allCached_iset h.2 k _ ⟨rfl, hf⟩⟩

theorem memdel_cachedC (db : DB) (k : Key) (h : Cached db) : Cached (memdel db k) := by
  obtain ⟨hi, hfa, _, _⟩ := memdel_spec db k
  exact ⟨hfa.trans h.1, by rw [memdel_eager, AllCached, hi]; exact allCached_ierase h.2 k⟩

/-- the ghost field never changes -/
theorem step_eager (db : DB) (op : Op) (h : Cached db) (ok : OpOK db.eager op) : (step db op).eager = db.eager := by
  cases op with
  | put k v =>
    show (putExt db k v 0).eager = _
    unfold putExt
    rw [if_neg (notFailed h)]
    exact (afterChange_cached _ k (memput_cachedC db k v 0 h (zeroFlags_ok _))).eager.trans (memput_eager _ _ _)
  | putExt k v f =>
    show (putExt db k v f).eager = _
    unfold putExt
    rw [if_neg (notFailed h)]
    exact (afterChange_cached _ k (memput_cachedC db k v f h ok)).eager.trans (memput_eager _ _ _)
  | del k =>
    show (del db k).eager = _
    unfold del
    rw [if_neg (notFailed h)]
    exact (afterChange_cached _ k (memdel_cachedC db k h)).eager.trans (memdel_eager _ _)
  | get k =>
    show (Qdb.get db k).1.eager = _
    unfold Qdb.get
    rw [if_neg (notFailed h)]
    cases hl : ilookup k db.index with
    | none => rfl
    | some r => simp only [loadrec_cached db.fs r (allCached_lookup h.2 k r hl)]
  | browse w =>
    show (browse db w).1.eager = _
    obtain ⟨h1, _⟩ := browseGen_cached false db w h ok
    unfold browse
    rw [h1]
  | applyFlags k fl =>
    show (applyFlags db k fl).eager = _
    unfold applyFlags
    rw [if_neg (notFailed h)]
    cases ilookup k db.index <;> rfl
  | defrag f =>
    show (defragOp db f).1.eager = _
    unfold defragOp
    rw [if_neg (notFailed h)]
    split
    · rfl
    · dsimp only
      split
      · exact (defrag_cached db h).eager
      · rfl
  | sync =>
    show (syncOp db).eager = _
    unfold syncOp
    rw [if_neg (notFailed h)]
    split
    · rfl
    · have h' : Cached { db with noSync := false } := h
      exact (sync_cached _ h').eager
  | noSync =>
    show (noSyncOp db).eager = _
    unfold noSyncOp
    rw [if_neg (notFailed h)]
    split <;> rfl
  | reopen a b c => exact absurd ok (by simp [OpOK])

theorem run_cached (ops : List Op) (db : DB) (h : Cached db) (ok : ∀ op ∈ ops, OpOK db.eager op) :
    Cached (run db ops) ∧ absv (run db ops) = mrun (absv db) ops := by
  induction ops generalizing db with
  | nil => exact ⟨h, rfl⟩
  | cons op t ih =>
    obtain ⟨h1, h2⟩ := step_cached db op h (ok op List.mem_cons_self)
    have he := step_eager db op h (ok op List.mem_cons_self)
    obtain ⟨h3, h4⟩ := ih (step db op) h1 (fun o ho => by rw [he]; exact ok o (List.mem_cons_of_mem _ ho))
    refine ⟨h3, ?_⟩
    show absv (run (step db op) t) = mrun (mstep (absv db) op) t
    rw [h4, h2]

theorem run_eager (ops : List Op) (db : DB) (h : Cached db) (ok : ∀ op ∈ ops, OpOK db.eager op) :
    (run db ops).eager = db.eager := by
  induction ops generalizing db with
  | nil => rfl
  | cons op t ih =>
    obtain ⟨h1, _⟩ := step_cached db op h (ok op List.mem_cons_self)
    have he := step_eager db op h (ok op List.mem_cons_self)
    exact (ih (step db op) h1 (fun o ho => by rw [he]; exact ok o (List.mem_cons_of_mem _ ho))).trans he

end GocoinV.Proofs.C19
