/-
  Proofs.C20Inv — the allocator invariant `InvG` and its preservation by every primitive transition of
  Model/Alloc.lean.
-/
import GocoinV.Model.Alloc
namespace GocoinV.Alloc
open GocoinV.Gen.MemClasses
variable {V : Type}

/-! ### the invariant -/

structure PageOk (s : State V) (p : Nat) (h : Page) : Prop where
  cls_lt : h.cls < nClasses
  in_plist : p ∈ (s.K h.cls).plist
  lt_next : p < s.nextPage
  brk_le : h.brk ≤ capOf h.cls
  fl_nodup : h.freeList.Nodup
  fl_lt : ∀ i, i ∈ h.freeList → i < h.brk
  ne : h.evac = false → (∀ i, i < h.brk → (i ∈ h.freeList ↔ ¬ s.isLive (.sh p i))) ∧
        h.freeList.length + h.used = h.brk ∧ h.used + h.free = capOf h.cls
  ev : h.evac = true → h.freeList = [] ∧
        (∀ i, i < h.brk → (s.isLive (.sh p i) ↔ (h.scan ≤ i ∧ i ∉ h.saved)))

structure ClassOk (s : State V) (c : Nat) : Prop where
  pl_nodup : (s.K c).plist.Nodup
  pl_pages : ∀ p, p ∈ (s.K c).plist → ∃ h, s.pages.get? p = some h ∧ h.cls = c
  count : (s.K c).pageCount = (s.K c).plist.length
  gl_nodup : (s.K c).glist.Nodup
  gl_iff : ∀ p i, (p, i) ∈ (s.K c).glist ↔
      ∃ h, s.pages.get? p = some h ∧ h.cls = c ∧ h.evac = false ∧ i ∈ h.freeList
  cur_ok : ∀ p, (s.K c).cur = some p →
      ∃ h, s.pages.get? p = some h ∧ h.cls = c ∧ h.evac = false ∧ h.brk < capOf c

def LiveOk (s : State V) (a : Addr) (l : LiveRec V) : Prop :=
  ∃ m, s.mem.get? a = some m ∧ m.data = some a ∧ m.len = l.size ∧ m.val = l.val ∧ l.size ≤ m.cap ∧
    match a with
    | .sh p i => ∃ h, s.pages.get? p = some h ∧ i < h.brk ∧ m.cap + sliceHdrLen = slotSize h.cls
    | .pv id => ∃ sz, s.privs.get? id = some sz ∧ m.cap + sliceHdrLen = sz ∧ maxShared < sz

structure InvG (s : State V) : Prop where
  pages : ∀ p h, s.pages.get? p = some h → PageOk s p h
  classes : ∀ c, ClassOk s c
  live : ∀ a l, s.live.get? a = some l → LiveOk s a l
  privs : ∀ id sz, s.privs.get? id = some sz → id < s.nextPage ∧ s.pages.get? id = none

/-- the invariant between trace steps: `InvG` and no page is being evacuated -/
structure Inv (s : State V) : Prop where
  g : InvG s
  allocs : s.allocs = s.live.size
  noEvac : ∀ p h, s.pages.get? p = some h → h.evac = false

/-! ### basic lemmas -/

theorem K_set (s : State V) (cls' : KMap Nat ClassSt) (c c' : Nat) (k : ClassSt)
    (h : cls' = s.cls.set c k) :
    (cls'.get? c').getD {} = if c = c' then k else s.K c' := by
  subst h; simp only [State.K, KMap.get?_set]; split <;> rfl

theorem isLive_def (s : State V) (a : Addr) : s.isLive a ↔ (s.live.get? a).isSome = true := Iff.rfl

theorem clobber_get (m : KMap Addr (SlotMem V)) (wr : List Addr) (a : Addr) (h : a ∉ wr) :
    (clobber m wr).get? a = m.get? a := by
  induction wr generalizing m with
  | nil => rfl
  | cons b bs ih =>
    simp only [clobber]
    rw [ih]
    · rw [KMap.get?_set]; split
      · next e => subst e; simp at h
      · rfl
    · intro hh; exact h (List.mem_cons_of_mem _ hh)

theorem init_invG : InvG (init : State V) := by
  refine ⟨?_, ?_, ?_, ?_⟩
  · intro p h hp; simp [init] at hp
  · intro c
    refine ⟨?_, ?_, ?_, ?_, ?_, ?_⟩ <;> simp [init, State.K]
  · intro a l hl; simp [init] at hl
  · intro id sz h; simp [init] at h

theorem init_inv : Inv (init : State V) := ⟨init_invG, by simp [init], by intro p h hp; simp [init] at hp⟩


/-! ### transfer lemmas: what `PageOk/ClassOk/LiveOk` depend on -/

theorem PageOk.transfer {s s' : State V} {p : Nat} {h : Page} (ok : PageOk s p h)
    (hpl : ∀ x, x ∈ (s.K h.cls).plist → x ∈ (s'.K h.cls).plist)
    (hn : s.nextPage ≤ s'.nextPage)
    (hl : ∀ i, s'.isLive (.sh p i) ↔ s.isLive (.sh p i)) : PageOk s' p h := by
  refine ⟨ok.cls_lt, hpl _ ok.in_plist, Nat.lt_of_lt_of_le ok.lt_next hn, ok.brk_le, ok.fl_nodup, ok.fl_lt, ?_, ?_⟩
  · intro he; have := ok.ne he
    refine ⟨?_, this.2⟩
    intro i hi; rw [hl]; exact this.1 i hi
  · intro he; have := ok.ev he
    refine ⟨this.1, ?_⟩
    intro i hi; rw [hl]; exact this.2 i hi

theorem ClassOk.transfer {s s' : State V} {c : Nat} (ok : ClassOk s c) (hk : s'.K c = s.K c)
    (hp : ∀ p h, h.cls = c → (s'.pages.get? p = some h ↔ s.pages.get? p = some h)) : ClassOk s' c := by
  have ex : ∀ p (P : Page → Prop), (∃ h, s'.pages.get? p = some h ∧ h.cls = c ∧ P h) ↔
      (∃ h, s.pages.get? p = some h ∧ h.cls = c ∧ P h) := by
    intro p P
    constructor
    · rintro ⟨h, h1, h2, h3⟩; exact ⟨h, (hp p h h2).1 h1, h2, h3⟩
    · rintro ⟨h, h1, h2, h3⟩; exact ⟨h, (hp p h h2).2 h1, h2, h3⟩
  refine ⟨by rw [hk]; exact ok.pl_nodup, ?_, by rw [hk]; exact ok.count, by rw [hk]; exact ok.gl_nodup, ?_, ?_⟩
  · intro p hpp; rw [hk] at hpp
    obtain ⟨h, h1, h2⟩ := ok.pl_pages p hpp
    exact ⟨h, (hp p h h2).2 h1, h2⟩
  · intro p i; rw [hk, ok.gl_iff]
    exact (ex p (fun h => h.evac = false ∧ i ∈ h.freeList)).symm
  · intro p hc; rw [hk] at hc
    exact (ex p (fun h => h.evac = false ∧ h.brk < capOf c)).2 (ok.cur_ok p hc)

theorem LiveOk.transfer {s s' : State V} {a : Addr} {l : LiveRec V} (ok : LiveOk s a l)
    (hm : s'.mem.get? a = s.mem.get? a)
    (hp : ∀ p i, a = .sh p i → ∀ h, s.pages.get? p = some h →
        ∃ h', s'.pages.get? p = some h' ∧ h.brk ≤ h'.brk ∧ h'.cls = h.cls)
    (hv : ∀ id, a = .pv id → s'.privs.get? id = s.privs.get? id) : LiveOk s' a l := by
  obtain ⟨m, h1, h2, h3, h4, h5, h6⟩ := ok
  refine ⟨m, by rw [hm]; exact h1, h2, h3, h4, h5, ?_⟩
  cases a with
  | sh p i =>
    obtain ⟨h, g1, g2, g3⟩ := h6
    obtain ⟨h', k1, k2, k3⟩ := hp p i rfl h g1
    exact ⟨h', k1, Nat.lt_of_lt_of_le g2 k2, by rw [k3]; exact g3⟩
  | pv id =>
    obtain ⟨sz, g1, g2, g3⟩ := h6
    exact ⟨sz, by rw [hv id rfl]; exact g1, g2, g3⟩

/-! ### newPage -/

theorem newPage_K (s : State V) (c c' : Nat) :
    (newPage s c).K c' = if c = c' then
      { s.K c with plist := (s.K c).plist ++ [s.nextPage], pageCount := (s.K c).pageCount + 1,
                   freeSlots := (s.K c).freeSlots + capOf c, cur := some s.nextPage }
      else s.K c' := by
  simp only [newPage, State.K, KMap.get?_set]; split <;> rfl

theorem newPage_pages (s : State V) (c q : Nat) :
    (newPage s c).pages.get? q =
      if s.nextPage = q then some { cls := c, free := capOf c } else s.pages.get? q := by
  simp only [newPage, KMap.get?_set]

theorem newPage_invG {s : State V} (inv : InvG s) {c : Nat} (hc : c < nClasses) (hcap : 0 < capOf c) :
    InvG (newPage s c) := by
  have fresh : ∀ q h, s.pages.get? q = some h → s.nextPage ≠ q := by
    intro q h hq e; have := (inv.pages q h hq).lt_next; omega
  have liveEq : ∀ a, (newPage s c).isLive a ↔ s.isLive a := fun a => Iff.rfl
  refine ⟨?_, ?_, ?_, ?_⟩
  · intro q h hq
    rw [newPage_pages] at hq
    split at hq
    · next e =>
      cases hq; subst e
      refine ⟨hc, ?_, ?_, ?_, ?_, ?_, ?_, ?_⟩
      · simp [newPage_K]
      · simp [newPage]
      · simp
      · simp
      · simp
      · intro _; simp
      · intro he; simp at he
    · next ne =>
      refine (inv.pages q h hq).transfer ?_ (by simp [newPage]) (fun i => liveEq _)
      intro x hx; rw [newPage_K]; split
      · next e => subst e; simp [hx]
      · exact hx
  · intro c'
    by_cases e : c = c'
    · subst e
      have ok := inv.classes c
      have notin : s.nextPage ∉ (s.K c).plist := by
        intro hin; obtain ⟨h, h1, _⟩ := ok.pl_pages _ hin; exact fresh _ h h1 rfl
      refine ⟨?_, ?_, ?_, ?_, ?_, ?_⟩
      · simp only [newPage_K, if_true]
        rw [List.nodup_append]
        refine ⟨ok.pl_nodup, by simp, ?_⟩
        intro a ha b hb; simp at hb; subst hb; intro e; subst e; exact notin ha
      · intro p hp; simp only [newPage_K, if_true, List.mem_append, List.mem_singleton] at hp
        rw [newPage_pages]
        rcases hp with hp | hp
        · obtain ⟨h, h1, h2⟩ := ok.pl_pages p hp
          rw [if_neg (fresh p h h1)]; exact ⟨h, h1, h2⟩
        · subst hp; simp
      · simp [newPage_K, ok.count]
      · simp only [newPage_K, if_true]; exact ok.gl_nodup
      · intro p i; simp only [newPage_K, if_true]; rw [ok.gl_iff, newPage_pages]
        split
        · next e =>
          subst e
          constructor
          · rintro ⟨h, h1, _⟩; exact absurd rfl (fresh _ h h1)
          · rintro ⟨h, h1, _, _, h4⟩; cases h1; simp at h4
        · exact Iff.rfl
      · intro p hp; simp only [newPage_K, if_true] at hp; cases hp
        rw [newPage_pages]; simp; exact hcap
    · refine (inv.classes c').transfer (by rw [newPage_K, if_neg e]) ?_
      intro p h hcls; rw [newPage_pages]; split
      · next e2 =>
        subst e2
        constructor
        · intro hh; cases hh; exact absurd hcls e
        · intro hh; exact absurd rfl (fresh _ h hh)
      · exact Iff.rfl
  · intro a l hl
    refine (inv.live a l hl).transfer rfl ?_ (fun _ _ => rfl)
    intro p i _ h hp
    exact ⟨h, by rw [newPage_pages, if_neg (fresh p h hp)]; exact hp, Nat.le_refl _, rfl⟩
  · intro id sz hid
    have := inv.privs id sz hid
    refine ⟨by simp [newPage]; omega, ?_⟩
    rw [newPage_pages, if_neg (by omega)]; exact this.2


/-! ### taking a slot (bump or pop) and making it live -/

theorem take_invG {s : State V} (inv : InvG s) {c p i : Nat} {h h' : Page} {k' : ClassSt}
    {mem' : KMap Addr (SlotMem V)} {M : SlotMem V} {L : LiveRec V}
    (hp : s.pages.get? p = some h) (hcls : h.cls = c) (hev : h.evac = false)
    (h'cls : h'.cls = c) (h'ev : h'.evac = false)
    (hbrk : h.brk ≤ h'.brk) (hbrk' : h'.brk ≤ capOf c) (hi : i < h'.brk)
    (hnew : ∀ j, h.brk ≤ j → j < h'.brk → j = i)
    (notlive : ¬ s.isLive (.sh p i))
    (fl' : h'.freeList.Nodup)
    (fl'mem : ∀ j, j ∈ h'.freeList ↔ (j ∈ h.freeList ∧ j ≠ i))
    (cnt : h'.freeList.length + h'.used = h'.brk) (cnt2 : h'.used + h'.free = capOf c)
    (kpl : k'.plist = (s.K c).plist) (kcount : k'.pageCount = (s.K c).pageCount)
    (kgl_nodup : k'.glist.Nodup)
    (kgl : ∀ q j, (q, j) ∈ k'.glist ↔ ((q, j) ∈ (s.K c).glist ∧ ¬ (q = p ∧ j = i)))
    (kcur : ∀ q, k'.cur = some q → (q = p ∧ h'.brk < capOf c) ∨ (q ≠ p ∧ (s.K c).cur = some q))
    (hmem : ∀ b, s.isLive b → mem'.get? b = s.mem.get? b)
    (M1 : M.data = some (.sh p i)) (M2 : M.len = L.size) (M3 : M.val = L.val) (M4 : L.size ≤ M.cap)
    (M5 : M.cap + sliceHdrLen = slotSize c) :
    InvG { s with pages := s.pages.set p h', cls := s.cls.set c k',
                  mem := mem'.set (.sh p i) M, live := s.live.set (.sh p i) L } := by
  generalize hs' : ({ s with pages := s.pages.set p h', cls := s.cls.set c k', mem := mem'.set (.sh p i) M, live := s.live.set (.sh p i) L } : State V) = s'
  have e1 : s'.pages = s.pages.set p h' := by subst hs'; rfl
  have e2 : s'.cls = s.cls.set c k' := by subst hs'; rfl
  have e3 : s'.mem = mem'.set (.sh p i) M := by subst hs'; rfl
  have e4 : s'.live = s.live.set (.sh p i) L := by subst hs'; rfl
  have e5 : s'.privs = s.privs := by subst hs'; rfl
  have e6 : s'.nextPage = s.nextPage := by subst hs'; rfl
  clear hs'
  have hK : ∀ c', s'.K c' = if c = c' then k' else s.K c' := by
    intro c'; simp only [State.K, e2, KMap.get?_set]; split <;> rfl
  have hP : ∀ q, s'.pages.get? q = if p = q then some h' else s.pages.get? q := by
    intro q; simp only [e1, KMap.get?_set]
  have hL : ∀ b, s'.isLive b ↔ (b = .sh p i ∨ s.isLive b) := by
    intro b; simp only [State.isLive, e4, KMap.get?_set]
    split
    · next e => subst e; simp
    · next ne => constructor
                 · intro x; exact Or.inr x
                 · rintro (x | x)
                   · exact absurd x.symm ne
                   · exact x
  have okp := inv.pages p h hp
  have okc := inv.classes c
  refine ⟨?_, ?_, ?_, ?_⟩
  · intro q hq hqq
    rw [hP] at hqq
    split at hqq
    · next e =>
      subst e; cases hqq
      refine ⟨by rw [h'cls, ← hcls]; exact okp.cls_lt, ?_, by rw [e6]; exact okp.lt_next, by rw [h'cls]; exact hbrk', fl', ?_, ?_, ?_⟩
      · rw [h'cls, hK, if_pos rfl, kpl, ← hcls]; exact okp.in_plist
      · intro j hj; have := (fl'mem j).1 hj; exact Nat.lt_of_lt_of_le (okp.fl_lt j this.1) hbrk
      · intro _
        refine ⟨?_, cnt, by rw [h'cls]; exact cnt2⟩
        intro j hj
        rw [fl'mem, hL]
        by_cases hjb : j < h.brk
        · have := (okp.ne hev).1 j hjb
          rw [this]
          constructor
          · rintro ⟨a, b⟩ (x | x)
            · cases x; exact b rfl
            · exact a x
          · intro x; exact ⟨fun y => x (Or.inr y), fun e => x (Or.inl (by rw [e]))⟩
        · have e := hnew j (by omega) hj
          subst e
          constructor
          · intro x; exact absurd rfl x.2
          · intro x; exact absurd (Or.inl rfl) x
      · intro he; rw [h'ev] at he; cases he
    · next ne =>
      refine (inv.pages q hq hqq).transfer ?_ (by rw [e6]; exact Nat.le_refl _) ?_
      · intro x hx; rw [hK]; split
        · next e => rw [kpl, e]; exact hx
        · exact hx
      · intro j; rw [hL]
        constructor
        · rintro (x | x)
          · cases x; exact absurd rfl ne
          · exact x
        · exact Or.inr
  · intro c'
    by_cases e : c = c'
    · subst e
      refine ⟨?_, ?_, ?_, ?_, ?_, ?_⟩
      · rw [hK, if_pos rfl, kpl]; exact okc.pl_nodup
      · intro q hq; rw [hK, if_pos rfl, kpl] at hq
        obtain ⟨h0, a, b⟩ := okc.pl_pages q hq
        rw [hP]; split
        · exact ⟨h', rfl, h'cls⟩
        · exact ⟨h0, a, b⟩
      · rw [hK, if_pos rfl, kpl, kcount]; exact okc.count
      · rw [hK, if_pos rfl]; exact kgl_nodup
      · intro q j; rw [hK, if_pos rfl, kgl, okc.gl_iff, hP]
        split
        · next e =>
          subst e
          constructor
          · rintro ⟨⟨h0, a, b, c1, d⟩, ne⟩
            rw [hp] at a; cases a
            exact ⟨h', rfl, h'cls, h'ev, (fl'mem j).2 ⟨d, fun e => ne ⟨rfl, e⟩⟩⟩
          · rintro ⟨h0, a, b, c1, d⟩
            cases a
            have := (fl'mem j).1 d
            exact ⟨⟨h, hp, hcls, hev, this.1⟩, fun x => this.2 x.2⟩
        · next ne =>
          constructor
          · rintro ⟨x, _⟩; exact x
          · intro x; exact ⟨x, fun y => ne y.1.symm⟩
      · intro q hq; rw [hK, if_pos rfl] at hq
        rw [hP]
        rcases kcur q hq with ⟨a, b⟩ | ⟨a, b⟩
        · subst a; rw [if_pos rfl]; exact ⟨h', rfl, h'cls, h'ev, b⟩
        · rw [if_neg (fun x => a x.symm)]; exact okc.cur_ok q b
    · refine (inv.classes c').transfer (by rw [hK, if_neg e]) ?_
      intro q h0 h0c; rw [hP]; split
      · next e2 =>
        subst e2
        constructor
        · intro x; cases x; exact absurd (h'cls.symm.trans h0c) e
        · intro x; rw [hp] at x; cases x; exact absurd (hcls.symm.trans h0c) e
      · exact Iff.rfl
  · intro b l hl
    simp only [e4, KMap.get?_set] at hl
    split at hl
    · next e =>
      cases hl; subst e
      refine ⟨M, by simp only [e3, KMap.get?_set, if_true], M1, M2, M3, M4, ?_⟩
      exact ⟨h', by rw [hP, if_pos rfl], hi, by rw [h'cls]; exact M5⟩
    · next ne =>
      have lb : s.isLive b := by simp [State.isLive, hl]
      refine (inv.live b l hl).transfer ?_ ?_ (fun _ _ => by rw [e5])
      · simp only [e3, KMap.get?_set, if_neg ne]; exact hmem b lb
      · intro q j _ h0 hq; rw [hP]; split
        · next e => subst e; rw [hp] at hq; cases hq; exact ⟨h', rfl, hbrk, by rw [h'cls, hcls]⟩
        · exact ⟨h0, hq, Nat.le_refl _, rfl⟩
  · intro id sz hid
    rw [e5] at hid
    have := inv.privs id sz hid
    refine ⟨by rw [e6]; exact this.1, ?_⟩
    rw [hP]; split
    · next e => subst e; rw [hp] at this; cases this.2
    · exact this.2


theorem nbrs_subset (l : List Nat) (x y : Nat) (h : y ∈ nbrs l x) : y ∈ l := by
  induction l with
  | nil => simp [nbrs] at h
  | cons a t ih =>
    cases t with
    | nil => simp [nbrs] at h
    | cons b r =>
      simp only [nbrs, List.mem_append] at h
      rcases h with (h | h) | h
      · split at h <;> simp at h; subst h; simp
      · split at h <;> simp at h; subst h; simp
      · exact List.mem_cons_of_mem _ (ih h)

theorem headAddrs_mem (l : List (Nat × Nat)) (a : Addr) (h : a ∈ headAddrs l) :
    ∃ q j, a = .sh q j ∧ (q, j) ∈ l := by
  cases l with
  | nil => simp [headAddrs] at h
  | cons x r => obtain ⟨q, j⟩ := x; simp [headAddrs] at h; exact ⟨q, j, h, by simp⟩

theorem headSlots_mem (p : Nat) (l : List Nat) (a : Addr) (h : a ∈ headSlots p l) :
    ∃ j, a = .sh p j ∧ j ∈ l := by
  cases l with
  | nil => simp [headSlots] at h
  | cons x r => simp [headSlots] at h; exact ⟨x, h, by simp⟩

theorem fl_not_live {s : State V} (inv : InvG s) {q j : Nat} {h : Page}
    (hq : s.pages.get? q = some h) (he : h.evac = false) (hj : j ∈ h.freeList) :
    ¬ s.isLive (.sh q j) := by
  have ok := inv.pages q h hq
  exact ((ok.ne he).1 j (ok.fl_lt j hj)).1 hj

theorem gl_not_live {s : State V} (inv : InvG s) {c q j : Nat} (h : (q, j) ∈ (s.K c).glist) :
    ¬ s.isLive (.sh q j) := by
  obtain ⟨h0, a, _, c1, d⟩ := ((inv.classes c).gl_iff q j).1 h
  exact fl_not_live inv a c1 d

theorem live_lt_brk {s : State V} (inv : InvG s) {p i : Nat} {h : Page}
    (hp : s.pages.get? p = some h) (hl : s.isLive (.sh p i)) : i < h.brk := by
  simp only [State.isLive] at hl
  cases hq : s.live.get? (.sh p i) with
  | none => simp [hq] at hl
  | some l =>
    obtain ⟨m, _, _, _, _, _, h6⟩ := inv.live _ l hq
    obtain ⟨h', a, b, _⟩ := h6
    rw [hp] at a; cases a; exact b

/-- allocLive preserves the invariant; the returned slot was not live and is a shared slot. -/
theorem allocLive_invG {s s' : State V} {c size cap : Nat} {val : Option V} {a : Addr}
    (inv : InvG s) (hc : c < nClasses) (hcap : 0 < capOf c) (hsz : size ≤ cap)
    (hcs : cap + sliceHdrLen = slotSize c)
    (hr : allocLive s c size cap val = .ok (s', a)) :
    InvG s' ∧ ¬ s.isLive a ∧ s'.live = s.live.set a ⟨size, val⟩ ∧ (∃ p i, a = .sh p i) ∧
      s'.allocs = s.allocs ∧ s'.privs = s.privs ∧ s'.relog = s.relog ∧
      (∀ b, s.isLive b → s'.mem.get? b = s.mem.get? b) ∧
      s'.mem.get? a = some ⟨some a, size, cap, val⟩ := by
  unfold allocLive at hr
  simp only [] at hr
  generalize hs1 : (if (s.K c).glist.isEmpty && (s.K c).cur.isNone then newPage s c else s) = s1 at hr
  have inv1 : InvG s1 := by
    subst hs1; split
    · exact newPage_invG inv hc hcap
    · exact inv
  have l1 : s1.live = s.live := by subst hs1; split <;> rfl
  have a1 : s1.allocs = s.allocs := by subst hs1; split <;> rfl
  have p1 : s1.privs = s.privs := by subst hs1; split <;> rfl
  have r1 : s1.relog = s.relog := by subst hs1; split <;> rfl
  have m1 : s1.mem = s.mem := by subst hs1; split <;> rfl
  have lv : ∀ b, s1.isLive b ↔ s.isLive b := by intro b; simp only [State.isLive, l1]
  clear hs1
  have okc := inv1.classes c
  unfold allocSlot at hr
  simp only [] at hr
  cases hcur : (s1.K c).cur with
  | some p =>
    simp only [hcur] at hr
    obtain ⟨h, hp, hcl, hev, hb⟩ := okc.cur_ok p hcur
    simp only [hp] at hr
    cases hr
    have okp := inv1.pages p h hp
    have nl : ¬ s1.isLive (.sh p h.brk) := fun x => Nat.lt_irrefl _ (live_lt_brk inv1 hp x)
    have ne := okp.ne hev
    have := take_invG (s := s1) inv1 (c := c) (p := p) (i := h.brk) (h := h)
      (h' := { h with used := h.used + 1, brk := h.brk + 1, free := h.free - 1 })
      (k' := { s1.K c with freeSlots := (s1.K c).freeSlots - 1,
                           cur := if h.brk + 1 = capOf c then none else some p })
      (mem' := s1.mem) (M := ⟨some (.sh p h.brk), size, cap, val⟩) (L := ⟨size, val⟩)
      hp hcl hev hcl hev (by simp) (by simp; omega) (by simp) (by intro j a b; simp at b; omega) nl
      okp.fl_nodup
      (by intro j; simp; intro x e; have := okp.fl_lt j x; omega)
      (by simp; omega) (by simp; rw [hcl] at ne; omega) rfl rfl okc.gl_nodup
      (by intro q j; simp; intro x e
          obtain ⟨h0, a, _, _, d⟩ := (okc.gl_iff q j).1 x
          rw [e, hp] at a; cases a; have := okp.fl_lt j d; omega)
      (by intro q hq; simp at hq; left; exact ⟨hq.2.symm, by simp; omega⟩)
      (fun b _ => rfl) rfl rfl rfl hsz hcs
    refine ⟨this, by rw [← lv]; exact nl, by rw [← l1], ⟨p, h.brk, rfl⟩, a1, p1, r1, ?_, ?_⟩
    · intro b hb; simp only [KMap.get?_set]; split
      · next e => subst e; exact absurd ((lv _).2 hb) nl
      · rw [m1]
    · simp only [KMap.get?_set, if_true]
  | none =>
    simp only [hcur] at hr
    cases hgl : (s1.K c).glist with
    | nil => simp only [hgl] at hr; cases hr
    | cons pi rest =>
      obtain ⟨p, i⟩ := pi
      simp only [hgl] at hr
      have hin : (p, i) ∈ (s1.K c).glist := by rw [hgl]; simp
      obtain ⟨h, hp, hcl, hev, hi⟩ := (okc.gl_iff p i).1 hin
      simp only [hp] at hr
      cases hr
      have okp := inv1.pages p h hp
      have nl : ¬ s1.isLive (.sh p i) := fl_not_live inv1 hp hev hi
      have ne := okp.ne hev
      have nd := okc.gl_nodup; rw [hgl] at nd
      have hlen : 0 < h.freeList.length := List.length_pos_of_mem hi
      have hmemc : ∀ b, s1.isLive b → (clobber s1.mem
          (headAddrs rest ++ (nbrs h.freeList i).map (Addr.sh p))).get? b = s1.mem.get? b := by
        intro b hb
        apply clobber_get
        intro hin2
        rw [List.mem_append] at hin2
        rcases hin2 with x | x
        · obtain ⟨q, j, e, hm⟩ := headAddrs_mem _ _ x
          subst e
          exact gl_not_live inv1 (c := c) (by rw [hgl]; exact List.mem_cons_of_mem _ hm) hb
        · simp only [List.mem_map] at x
          obtain ⟨j, hj, e⟩ := x; subst e
          exact fl_not_live inv1 hp hev (nbrs_subset _ _ _ hj) hb
      have := take_invG (s := s1) inv1 (c := c) (p := p) (i := i) (h := h)
        (h' := { h with freeList := h.freeList.erase i, used := h.used + 1, free := h.free - 1 })
        (k' := { s1.K c with glist := rest, freeSlots := (s1.K c).freeSlots - 1, cur := none })
        (mem' := clobber s1.mem (headAddrs rest ++ (nbrs h.freeList i).map (Addr.sh p)))
        (M := ⟨some (.sh p i), size, cap, val⟩) (L := ⟨size, val⟩)
        hp hcl hev hcl hev (by simp) (by simp; rw [← hcl]; exact okp.brk_le) (by simp; exact okp.fl_lt i hi)
        (by intro j a b; simp at b; omega) nl
        (okp.fl_nodup.erase i)
        (by intro j; simp only; rw [okp.fl_nodup.mem_erase_iff]; exact And.comm)
        (by simp only; rw [List.length_erase_of_mem hi]; omega)
        (by simp only; have := okp.brk_le; have := ne.2; rw [← hcl]; omega) rfl rfl
        (by simp only; exact (List.nodup_cons.1 nd).2)
        (by intro q j; simp only; rw [hgl]; simp only [List.mem_cons, Prod.mk.injEq]
            constructor
            · intro x; refine ⟨Or.inr x, ?_⟩
              rintro ⟨e1, e2⟩; subst e1; subst e2; exact (List.nodup_cons.1 nd).1 x
            · rintro ⟨x | x, y⟩
              · exact absurd x y
              · exact x)
        (by intro q hq; cases hq)
        hmemc rfl rfl rfl hsz hcs
      refine ⟨this, by rw [← lv]; exact nl, by rw [← l1], ⟨p, i, rfl⟩, a1, p1, r1, ?_, ?_⟩
      · intro b hb; simp only [KMap.get?_set]; split
        · next e => subst e; exact absurd ((lv _).2 hb) nl
        · rw [hmemc b ((lv b).2 hb), m1]
      · simp only [KMap.get?_set, if_true]


/-! ### facts about the generated table -/

theorem table_facts : 0 < nClasses ∧ ∀ c, c < nClasses →
    0 < capOf c ∧ slotSize c ≤ maxShared ∧ sliceHdrLen ≤ slotSize c := by decide +kernel

theorem classOf_spec (n : Nat) (h : n ≤ maxShared) : classOf n < nClasses ∧ n ≤ slotSize (classOf n) := by
  have hex : ∃ x, x ∈ slotSizes ∧ decide (n ≤ x) = true := by
    cases hl : slotSizes.getLast? with
    | none =>
      have : slotSizes = [] := List.getLast?_eq_none_iff.1 hl
      have h0 := table_facts.1; simp [nClasses, this] at h0
    | some x =>
      refine ⟨x, List.mem_of_getLast? hl, ?_⟩
      simp only [maxShared, hl, Option.getD_some] at h
      simpa using h
  have hlt : classOf n < slotSizes.length := List.findIdx_lt_length_of_exists hex
  refine ⟨hlt, ?_⟩
  have := List.findIdx_getElem (w := hlt)
  simp only [decide_eq_true_eq] at this
  simp only [slotSize, List.getD_eq_getElem?_getD]
  rw [List.getElem?_eq_getElem (by exact hlt)]
  exact this

theorem roundup_ge (n : Nat) : n ≤ roundup n osPageSize := by
  simp only [roundup, osPageSize]; omega

/-! ### Malloc -/

theorem malloc_invG {s s' : State V} {size : Nat} {a : Addr} (inv : InvG s)
    (hr : malloc s size = .ok (s', a)) :
    InvG s' ∧ ¬ s.isLive a ∧ s'.live = s.live.set a ⟨size, none⟩ ∧ s'.allocs = s.allocs + 1 := by
  unfold malloc at hr
  simp only [] at hr
  split at hr
  · next hbig =>
    cases hr
    have nl : ¬ s.isLive (.pv s.nextPage) := by
      intro hl; simp only [State.isLive] at hl
      cases hq : s.live.get? (.pv s.nextPage) with
      | none => simp [hq] at hl
      | some l =>
        obtain ⟨m, _, _, _, _, _, sz, g1, _⟩ := inv.live _ l hq
        have := (inv.privs _ sz g1).1; omega
    refine ⟨?_, nl, rfl, rfl⟩
    have rg := roundup_ge (size + sliceHdrLen)
    refine ⟨?_, ?_, ?_, ?_⟩
    · intro q h hq
      refine (inv.pages q h hq).transfer (fun x hx => hx) (by simp) ?_
      intro i; simp only [State.isLive, KMap.get?_set]; simp
    · intro c; exact (inv.classes c).transfer rfl (fun _ _ _ => Iff.rfl)
    · intro b l hl
      simp only [KMap.get?_set] at hl
      split at hl
      · next e =>
        subst e; cases hl
        refine ⟨⟨some (.pv s.nextPage), size, roundup (size + sliceHdrLen) osPageSize - sliceHdrLen, none⟩,
          by simp only [KMap.get?_set, if_true], rfl, rfl, rfl, ?_, ?_⟩
        · simp only [sliceHdrLen] at *; omega
        · refine ⟨roundup (size + sliceHdrLen) osPageSize, by simp only [KMap.get?_set, if_true], ?_, ?_⟩
          · simp only [sliceHdrLen] at *; omega
          · omega
      · next ne =>
        refine (inv.live b l hl).transfer (by simp only [KMap.get?_set, if_neg ne]) ?_ ?_
        · intro p i _ h hp; exact ⟨h, hp, Nat.le_refl _, rfl⟩
        · intro id e; subst e
          simp only [KMap.get?_set]; split
          · next e2 => subst e2; exact absurd rfl ne
          · rfl
    · intro id sz hid
      simp only [KMap.get?_set] at hid
      split at hid
      · next e =>
        subst e
        refine ⟨by simp, ?_⟩
        cases hq : s.pages.get? s.nextPage with
        | none => rfl
        | some h => have := (inv.pages _ h hq).lt_next; omega
      · have := inv.privs id sz hid
        exact ⟨by simp; omega, this.2⟩
  · next hsmall =>
    have hn : size + sliceHdrLen ≤ maxShared := by omega
    obtain ⟨c1, c2⟩ := classOf_spec _ hn
    obtain ⟨t1, t2, t3⟩ := table_facts.2 _ c1
    have inv0 : InvG ({ s with allocs := s.allocs + 1 } : State V) :=
      ⟨fun p h hp => (inv.pages p h hp).transfer (fun x hx => hx) (Nat.le_refl _) (fun _ => Iff.rfl),
       fun c => (inv.classes c).transfer rfl (fun _ _ _ => Iff.rfl),
       fun b l hl => (inv.live b l hl).transfer rfl (fun p i _ h hp => ⟨h, hp, Nat.le_refl _, rfl⟩) (fun _ _ => rfl),
       inv.privs⟩
    obtain ⟨i1, i2, i3, _, i5, _⟩ := allocLive_invG inv0 c1 t1 (by omega) (by omega) hr
    exact ⟨i1, i2, i3, i5⟩

/-! ### Free -/

theorem nodup_bound : ∀ (n : Nat) (l : List Nat), l.Nodup → (∀ x, x ∈ l → x < n) → l.length ≤ n := by
  intro n
  induction n with
  | zero => intro l _ h; cases l with
    | nil => simp
    | cons a t => exact absurd (h a (by simp)) (by omega)
  | succ n ih =>
    intro l nd h
    have h1 := ih (l.erase n) (nd.erase n) (by
      intro x hx
      have := (nd.mem_erase_iff).1 hx
      have := h x this.2
      omega)
    have := List.length_erase (a := n) (l := l)
    split at this <;> omega

/-- removing a live shared allocation and running the `used ≥ 1` branch of uintptrFreeShared on a page
    that is not being evacuated -/
theorem freeShared_invG {s : State V} (inv : InvG s) {p i : Nat} {h : Page}
    (hp : s.pages.get? p = some h) (hev : h.evac = false) (hl : s.isLive (.sh p i)) (hu : 1 ≤ h.used) :
    InvG (freeSlot ({ s with allocs := s.allocs - 1, live := s.live.del (.sh p i) } : State V) p i h) := by
  generalize hs0 : ({ s with allocs := s.allocs - 1, live := s.live.del (.sh p i) } : State V) = s0
  have f1 : s0.pages = s.pages := by subst hs0; rfl
  have f2 : s0.cls = s.cls := by subst hs0; rfl
  have f3 : s0.mem = s.mem := by subst hs0; rfl
  have f4 : s0.live = s.live.del (.sh p i) := by subst hs0; rfl
  have f5 : s0.privs = s.privs := by subst hs0; rfl
  have f6 : s0.nextPage = s.nextPage := by subst hs0; rfl
  have fK : ∀ c, s0.K c = s.K c := by intro c; simp only [State.K, f2]
  clear hs0
  generalize hs' : freeSlot s0 p i h = s'
  have e1 : s'.pages = s.pages.set p { h with used := h.used - 1, free := h.free + 1, freeList := i :: h.freeList } := by
    subst hs'; simp [freeSlot, hev, f1]
  have e2 : s'.cls = s.cls.set h.cls { s.K h.cls with freeSlots := (s.K h.cls).freeSlots + 1, glist := (p, i) :: (s.K h.cls).glist } := by
    subst hs'; simp [freeSlot, hev, f2, fK]
  have e3 : s'.mem = clobber s.mem ([Addr.sh p i] ++ headAddrs (s.K h.cls).glist ++ headSlots p h.freeList) := by
    subst hs'; simp [freeSlot, hev, f3, fK]
  have e4 : s'.live = s.live.del (.sh p i) := by subst hs'; simp [freeSlot, hev, f4]
  have e5 : s'.privs = s.privs := by subst hs'; simp [freeSlot, hev, f5]
  have e6 : s'.nextPage = s.nextPage := by subst hs'; simp [freeSlot, hev, f6]
  clear hs' f1 f2 f3 f4 f5 f6 fK s0
  have hK : ∀ c', s'.K c' = if h.cls = c' then
      { s.K h.cls with freeSlots := (s.K h.cls).freeSlots + 1, glist := (p, i) :: (s.K h.cls).glist } else s.K c' := by
    intro c'; simp only [State.K, e2, KMap.get?_set]; split <;> rfl
  have hP : ∀ q, s'.pages.get? q = if p = q then
      some { h with used := h.used - 1, free := h.free + 1, freeList := i :: h.freeList } else s.pages.get? q := by
    intro q; simp only [e1, KMap.get?_set]
  have hL : ∀ b, s'.isLive b ↔ (b ≠ .sh p i ∧ s.isLive b) := by
    intro b; simp only [State.isLive, e4, KMap.get?_del]
    split
    · next e => subst e; simp
    · next ne => constructor
                 · intro x; exact ⟨fun y => ne y.symm, x⟩
                 · intro x; exact x.2
  have okp := inv.pages p h hp
  have okc := inv.classes h.cls
  have ne := okp.ne hev
  have ib : i < h.brk := live_lt_brk inv hp hl
  have inl : i ∉ h.freeList := fun x => ((ne.1 i ib).1 x) hl
  refine ⟨?_, ?_, ?_, ?_⟩
  · intro q hq hqq
    rw [hP] at hqq
    split at hqq
    · next e =>
      subst e; cases hqq
      refine ⟨okp.cls_lt, ?_, by rw [e6]; exact okp.lt_next, okp.brk_le, ?_, ?_, ?_, ?_⟩
      · show p ∈ (s'.K h.cls).plist
        rw [hK, if_pos rfl]; exact okp.in_plist
      · exact List.nodup_cons.2 ⟨inl, okp.fl_nodup⟩
      · intro j hj; simp only [List.mem_cons] at hj
        rcases hj with e | e
        · subst e; exact ib
        · exact okp.fl_lt j e
      · intro _
        refine ⟨?_, by simp only [List.length_cons]; omega, by show h.used - 1 + (h.free + 1) = capOf h.cls; omega⟩
        intro j hj
        simp only [List.mem_cons]
        rw [hL, (ne.1 j hj)]
        constructor
        · rintro (e | e) ⟨a, b⟩
          · subst e; exact a rfl
          · exact e b
        · intro x
          by_cases e : j = i
          · exact Or.inl e
          · right; intro y; exact x ⟨fun z => e (by cases z; rfl), y⟩
      · intro he; have : h.evac = true := he; rw [hev] at this; cases this
    · next ne2 =>
      refine (inv.pages q hq hqq).transfer ?_ (by rw [e6]; exact Nat.le_refl _) ?_
      · intro x hx; rw [hK]; split
        · next e => subst e; exact hx
        · exact hx
      · intro j; rw [hL]
        constructor
        · exact fun x => x.2
        · intro x; exact ⟨fun y => by cases y; exact ne2 rfl, x⟩
  · intro c'
    by_cases e : h.cls = c'
    · subst e
      refine ⟨?_, ?_, ?_, ?_, ?_, ?_⟩
      · rw [hK, if_pos rfl]; exact okc.pl_nodup
      · intro q hq; rw [hK, if_pos rfl] at hq
        obtain ⟨h0, a, b⟩ := okc.pl_pages q hq
        rw [hP]; split
        · exact ⟨_, rfl, rfl⟩
        · exact ⟨h0, a, b⟩
      · rw [hK, if_pos rfl]; exact okc.count
      · rw [hK, if_pos rfl]
        refine List.nodup_cons.2 ⟨?_, okc.gl_nodup⟩
        intro x
        obtain ⟨h0, a, _, _, d⟩ := (okc.gl_iff p i).1 x
        rw [hp] at a; cases a; exact inl d
      · intro q j; rw [hK, if_pos rfl]
        simp only [List.mem_cons, Prod.mk.injEq]
        rw [okc.gl_iff, hP]
        split
        · next e =>
          subst e
          constructor
          · rintro (⟨_, e2⟩ | ⟨h0, a, b, c1, d⟩)
            · subst e2; exact ⟨_, rfl, rfl, hev, by simp⟩
            · rw [hp] at a; cases a; exact ⟨_, rfl, rfl, hev, by simp [d]⟩
          · rintro ⟨h0, a, b, c1, d⟩
            cases a
            simp only [List.mem_cons] at d
            rcases d with d | d
            · exact Or.inl ⟨rfl, d⟩
            · exact Or.inr ⟨h, hp, rfl, hev, d⟩
        · next ne2 =>
          constructor
          · rintro (⟨e2, _⟩ | x)
            · exact absurd e2.symm ne2
            · exact x
          · exact Or.inr
      · intro q hq; rw [hK, if_pos rfl] at hq
        obtain ⟨h0, a, b, c1, d⟩ := okc.cur_ok q hq
        rw [hP]; split
        · next e => subst e; rw [hp] at a; cases a; exact ⟨_, rfl, rfl, hev, d⟩
        · exact ⟨h0, a, b, c1, d⟩
    · refine (inv.classes c').transfer (by rw [hK, if_neg e]) ?_
      intro q h0 h0c; rw [hP]; split
      · next e2 =>
        subst e2
        constructor
        · intro x; cases x; exact absurd h0c e
        · intro x; rw [hp] at x; cases x; exact absurd h0c e
      · exact Iff.rfl
  · intro b l hlb
    simp only [e4, KMap.get?_del] at hlb
    split at hlb
    · cases hlb
    · next ne2 =>
      have lb : s.isLive b := by simp [State.isLive, hlb]
      refine (inv.live b l hlb).transfer ?_ ?_ (fun _ _ => by rw [e5])
      · rw [e3]; apply clobber_get
        intro hin
        simp only [List.mem_append, List.mem_singleton] at hin
        rcases hin with (x | x) | x
        · exact ne2 x.symm
        · obtain ⟨q, j, e, hm⟩ := headAddrs_mem _ _ x
          subst e; exact gl_not_live inv hm lb
        · obtain ⟨j, e, hm⟩ := headSlots_mem _ _ _ x
          subst e; exact fl_not_live inv hp hev hm lb
      · intro q j _ h0 hq; rw [hP]; split
        · next e => subst e; rw [hp] at hq; cases hq; exact ⟨_, rfl, Nat.le_refl _, rfl⟩
        · exact ⟨h0, hq, Nat.le_refl _, rfl⟩
  · intro id sz hid
    rw [e5] at hid
    have := inv.privs id sz hid
    refine ⟨by rw [e6]; exact this.1, ?_⟩
    rw [hP]; split
    · next e => subst e; rw [hp] at this; cases this.2
    · exact this.2

end GocoinV.Alloc
