/-
  Proofs.C20Inv — the allocator invariant `InvG` and its preservation by every primitive transition of
  Model/Alloc.lean.
-/
import GocoinV.Model.Alloc
namespace GocoinV.Alloc
open GocoinV.Gen.MemClasses
variable {V : Type}

/-! ### the invariant -/

structure PageOk (s : State V) (p : Nat) (h : Page) : Prop where
  cls_lt : h.cls < nClasses
  in_plist : p ∈ (s.K h.cls).plist
  lt_next : p < s.nextPage
  brk_le : h.brk ≤ capOf h.cls
  fl_nodup : h.freeList.Nodup
  fl_lt : ∀ i, i ∈ h.freeList → i < h.brk
  ne : h.evac = false → (∀ i, i < h.brk → (i ∈ h.freeList ↔ ¬ s.isLive (.sh p i))) ∧
        h.freeList.length + h.used = h.brk ∧ h.used + h.free = capOf h.cls
  ev : h.evac = true → h.freeList = [] ∧
        (∀ i, i < h.brk → (s.isLive (.sh p i) ↔ (h.scan ≤ i ∧ i ∉ h.saved)))

structure ClassOk (s : State V) (c : Nat) : Prop where
  pl_nodup : (s.K c).plist.Nodup
  pl_pages : ∀ p, p ∈ (s.K c).plist → ∃ h, s.pages.get? p = some h ∧ h.cls = c
  count : (s.K c).pageCount = (s.K c).plist.length
  gl_nodup : (s.K c).glist.Nodup
  gl_iff : ∀ p i, (p, i) ∈ (s.K c).glist ↔
      ∃ h, s.pages.get? p = some h ∧ h.cls = c ∧ h.evac = false ∧ i ∈ h.freeList
  cur_ok : ∀ p, (s.K c).cur = some p →
      ∃ h, s.pages.get? p = some h ∧ h.cls = c ∧ h.evac = false ∧ h.brk < capOf c

def LiveOk (s : State V) (a : Addr) (l : LiveRec V) : Prop :=
  ∃ m, s.mem.get? a = some m ∧ m.data = some a ∧ m.len = l.size ∧ m.val = l.val ∧ l.size ≤ m.cap ∧
    match a with
    | .sh p i => ∃ h, s.pages.get? p = some h ∧ i < h.brk ∧ m.cap + sliceHdrLen = slotSize h.cls
    | .pv id => ∃ sz, s.privs.get? id = some sz ∧ m.cap + sliceHdrLen = sz ∧ maxShared < sz

structure InvG (s : State V) : Prop where
  pages : ∀ p h, s.pages.get? p = some h → PageOk s p h
  classes : ∀ c, ClassOk s c
  live : ∀ a l, s.live.get? a = some l → LiveOk s a l
  privs : ∀ id sz, s.privs.get? id = some sz → id < s.nextPage ∧ s.pages.get? id = none

/-- the invariant between trace steps: `InvG` and no page is being evacuated -/
structure Inv (s : State V) : Prop where
  g : InvG s
  allocs : s.allocs = s.live.size
  noEvac : ∀ p h, s.pages.get? p = some h → h.evac = false

/-! ### basic lemmas -/

theorem K_set (s : State V) (cls' : KMap Nat ClassSt) (c c' : Nat) (k : ClassSt)
    (h : cls' = s.cls.set c k) :
    (cls'.get? c').getD {} = if c = c' then k else s.K c' := by
  subst h; simp only [State.K, KMap.get?_set]; split <;> rfl

theorem isLive_def (s : State V) (a : Addr) : s.isLive a ↔ (s.live.get? a).isSome = true := Iff.rfl

theorem clobber_get (m : KMap Addr (SlotMem V)) (wr : List Addr) (a : Addr) (h : a ∉ wr) :
    (clobber m wr).get? a = m.get? a := by
  induction wr generalizing m with
  | nil => rfl
  | cons b bs ih =>
    simp only [clobber]
    rw [ih]
    · rw [KMap.get?_set]; split
      · next e => subst e; simp at h
      · rfl
    · intro hh; exact h (List.mem_cons_of_mem _ hh)

theorem init_invG : InvG (init : State V) := by
  refine ⟨?_, ?_, ?_, ?_⟩
  · intro p h hp; simp [init] at hp
  · intro c
    refine ⟨?_, ?_, ?_, ?_, ?_, ?_⟩ <;> simp [init, State.K]
  · intro a l hl; simp [init] at hl
  · intro id sz h; simp [init] at h

theorem init_inv : Inv (init : State V) := ⟨init_invG, by simp [init], by intro p h hp; simp [init] at hp⟩


/-! ### transfer lemmas: what `PageOk/ClassOk/LiveOk` depend on -/

theorem PageOk.transfer {s s' : State V} {p : Nat} {h : Page} (ok : PageOk s p h)
    (hpl : p ∈ (s.K h.cls).plist → p ∈ (s'.K h.cls).plist)
    (hn : s.nextPage ≤ s'.nextPage)
    (hl : ∀ i, s'.isLive (.sh p i) ↔ s.isLive (.sh p i)) : PageOk s' p h := by
  refine ⟨ok.cls_lt, hpl ok.in_plist, Nat.lt_of_lt_of_le ok.lt_next hn, ok.brk_le, ok.fl_nodup, ok.fl_lt, ?_, ?_⟩
  · intro he; have := ok.ne he
    refine ⟨?_, this.2⟩
    intro i hi; rw [hl]; exact this.1 i hi
  · intro he; have := ok.ev he
    refine ⟨this.1, ?_⟩
    intro i hi; rw [hl]; exact this.2 i hi

theorem ClassOk.transfer {s s' : State V} {c : Nat} (ok : ClassOk s c) (hk : s'.K c = s.K c)
    (hp : ∀ p h, h.cls = c → (s'.pages.get? p = some h ↔ s.pages.get? p = some h)) : ClassOk s' c := by
  have ex : ∀ p (P : Page → Prop), (∃ h, s'.pages.get? p = some h ∧ h.cls = c ∧ P h) ↔
      (∃ h, s.pages.get? p = some h ∧ h.cls = c ∧ P h) := by
    intro p P
    constructor
    · rintro ⟨h, h1, h2, h3⟩; exact ⟨h, (hp p h h2).1 h1, h2, h3⟩
    · rintro ⟨h, h1, h2, h3⟩; exact ⟨h, (hp p h h2).2 h1, h2, h3⟩
  refine ⟨by rw [hk]; exact ok.pl_nodup, ?_, by rw [hk]; exact ok.count, by rw [hk]; exact ok.gl_nodup, ?_, ?_⟩
  · intro p hpp; rw [hk] at hpp
    obtain ⟨h, h1, h2⟩ := ok.pl_pages p hpp
    exact ⟨h, (hp p h h2).2 h1, h2⟩
  · intro p i; rw [hk, ok.gl_iff]
    exact (ex p (fun h => h.evac = false ∧ i ∈ h.freeList)).symm
  · intro p hc; rw [hk] at hc
    exact (ex p (fun h => h.evac = false ∧ h.brk < capOf c)).2 (ok.cur_ok p hc)

theorem LiveOk.transfer {s s' : State V} {a : Addr} {l : LiveRec V} (ok : LiveOk s a l)
    (hm : s'.mem.get? a = s.mem.get? a)
    (hp : ∀ p i, a = .sh p i → ∀ h, s.pages.get? p = some h →
        ∃ h', s'.pages.get? p = some h' ∧ h.brk ≤ h'.brk ∧ h'.cls = h.cls)
    (hv : ∀ id, a = .pv id → s'.privs.get? id = s.privs.get? id) : LiveOk s' a l := by
  obtain ⟨m, h1, h2, h3, h4, h5, h6⟩ := ok
  refine ⟨m, by rw [hm]; exact h1, h2, h3, h4, h5, ?_⟩
  cases a with
  | sh p i =>
    obtain ⟨h, g1, g2, g3⟩ := h6
    obtain ⟨h', k1, k2, k3⟩ := hp p i rfl h g1
    exact ⟨h', k1, Nat.lt_of_lt_of_le g2 k2, by rw [k3]; exact g3⟩
  | pv id =>
    obtain ⟨sz, g1, g2, g3⟩ := h6
    exact ⟨sz, by rw [hv id rfl]; exact g1, g2, g3⟩

/-! ### newPage -/

theorem newPage_K (s : State V) (c c' : Nat) :
    (newPage s c).K c' = if c = c' then
      { s.K c with plist := (s.K c).plist ++ [s.nextPage], pageCount := (s.K c).pageCount + 1,
                   freeSlots := (s.K c).freeSlots + capOf c, cur := some s.nextPage }
      else s.K c' := by
  simp only [newPage, State.K, KMap.get?_set]; split <;> rfl

theorem newPage_pages (s : State V) (c q : Nat) :
    (newPage s c).pages.get? q =
      if s.nextPage = q then some { cls := c, free := capOf c } else s.pages.get? q := by
  simp only [newPage, KMap.get?_set]

theorem newPage_invG {s : State V} (inv : InvG s) {c : Nat} (hc : c < nClasses) (hcap : 0 < capOf c) :
    InvG (newPage s c) := by
  have fresh : ∀ q h, s.pages.get? q = some h → s.nextPage ≠ q := by
    intro q h hq e; have := (inv.pages q h hq).lt_next; omega
  have liveEq : ∀ a, (newPage s c).isLive a ↔ s.isLive a := fun a => Iff.rfl
  refine ⟨?_, ?_, ?_, ?_⟩
  · intro q h hq
    rw [newPage_pages] at hq
    split at hq
    · next e =>
      cases hq; subst e
      refine ⟨hc, ?_, ?_, ?_, ?_, ?_, ?_, ?_⟩
      · simp [newPage_K]
      · simp [newPage]
      · simp
      · simp
      · simp
      · intro _; simp
      · intro he; simp at he
    · next ne =>
      refine (inv.pages q h hq).transfer ?_ (by simp [newPage]) (fun i => liveEq _)
      intro hx; rw [newPage_K]; split
      · next e => subst e; simp [hx]
      · exact hx
  · intro c'
    by_cases e : c = c'
    · subst e
      have ok := inv.classes c
      have notin : s.nextPage ∉ (s.K c).plist := by
        intro hin; obtain ⟨h, h1, _⟩ := ok.pl_pages _ hin; exact fresh _ h h1 rfl
      refine ⟨?_, ?_, ?_, ?_, ?_, ?_⟩
      · simp only [newPage_K, if_true]
        rw [List.nodup_append]
        refine ⟨ok.pl_nodup, by simp, ?_⟩
        intro a ha b hb; simp at hb; subst hb; intro e; subst e; exact notin ha
      · intro p hp; simp only [newPage_K, if_true, List.mem_append, List.mem_singleton] at hp
        rw [newPage_pages]
        rcases hp with hp | hp
        · obtain ⟨h, h1, h2⟩ := ok.pl_pages p hp
          rw [if_neg (fresh p h h1)]; exact ⟨h, h1, h2⟩
        · subst hp; simp
      · simp [newPage_K, ok.count]
      · simp only [newPage_K, if_true]; exact ok.gl_nodup
      · intro p i; simp only [newPage_K, if_true]; rw [ok.gl_iff, newPage_pages]
        split
        · next e =>
          subst e
          constructor
          · rintro ⟨h, h1, _⟩; exact absurd rfl (fresh _ h h1)
          · rintro ⟨h, h1, _, _, h4⟩; cases h1; simp at h4
        · exact Iff.rfl
      · intro p hp; simp only [newPage_K, if_true] at hp; cases hp
        rw [newPage_pages]; simp; exact hcap
    · refine (inv.classes c').transfer (by rw [newPage_K, if_neg e]) ?_
      intro p h hcls; rw [newPage_pages]; split
      · next e2 =>
        subst e2
        constructor
        · intro hh; cases hh; exact absurd hcls e
        · intro hh; exact absurd rfl (fresh _ h hh)
      · exact Iff.rfl
  · intro a l hl
    refine (inv.live a l hl).transfer rfl ?_ (fun _ _ => rfl)
    intro p i _ h hp
    exact ⟨h, by rw [newPage_pages, if_neg (fresh p h hp)]; exact hp, Nat.le_refl _, rfl⟩
  · intro id sz hid
    have := inv.privs id sz hid
    refine ⟨by simp [newPage]; omega, ?_⟩
    rw [newPage_pages, if_neg (by omega)]; exact this.2


/-! ### taking a slot (bump or pop) and making it live -/

theorem take_invG {s : State V} (inv : InvG s) {c p i : Nat} {h h' : Page} {k' : ClassSt}
    {mem' : KMap Addr (SlotMem V)} {M : SlotMem V} {L : LiveRec V} {hh : Heap}
    (hp : s.pages.get? p = some h) (hcls : h.cls = c) (hev : h.evac = false)
    (h'cls : h'.cls = c) (h'ev : h'.evac = false)
    (hbrk : h.brk ≤ h'.brk) (hbrk' : h'.brk ≤ capOf c) (hi : i < h'.brk)
    (hnew : ∀ j, h.brk ≤ j → j < h'.brk → j = i)
    (notlive : ¬ s.isLive (.sh p i))
    (fl' : h'.freeList.Nodup)
    (fl'mem : ∀ j, j ∈ h'.freeList ↔ (j ∈ h.freeList ∧ j ≠ i))
    (cnt : h'.freeList.length + h'.used = h'.brk) (cnt2 : h'.used + h'.free = capOf c)
    (kpl : k'.plist = (s.K c).plist) (kcount : k'.pageCount = (s.K c).pageCount)
    (kgl_nodup : k'.glist.Nodup)
    (kgl : ∀ q j, (q, j) ∈ k'.glist ↔ ((q, j) ∈ (s.K c).glist ∧ ¬ (q = p ∧ j = i)))
    (kcur : ∀ q, k'.cur = some q → (q = p ∧ h'.brk < capOf c) ∨ (q ≠ p ∧ (s.K c).cur = some q))
    (hmem : ∀ b, s.isLive b → mem'.get? b = s.mem.get? b)
    (M1 : M.data = some (.sh p i)) (M2 : M.len = L.size) (M3 : M.val = L.val) (M4 : L.size ≤ M.cap)
    (M5 : M.cap + sliceHdrLen = slotSize c) :
    InvG { s with pages := s.pages.set p h', cls := s.cls.set c k',
                  mem := mem'.set (.sh p i) M, live := s.live.set (.sh p i) L, heap := hh } := by
  generalize hs' : ({ s with pages := s.pages.set p h', cls := s.cls.set c k', mem := mem'.set (.sh p i) M, live := s.live.set (.sh p i) L, heap := hh } : State V) = s'
  have e1 : s'.pages = s.pages.set p h' := by subst hs'; rfl
  have e2 : s'.cls = s.cls.set c k' := by subst hs'; rfl
  have e3 : s'.mem = mem'.set (.sh p i) M := by subst hs'; rfl
  have e4 : s'.live = s.live.set (.sh p i) L := by subst hs'; rfl
  have e5 : s'.privs = s.privs := by subst hs'; rfl
  have e6 : s'.nextPage = s.nextPage := by subst hs'; rfl
  clear hs'
  have hK : ∀ c', s'.K c' = if c = c' then k' else s.K c' := by
    intro c'; simp only [State.K, e2, KMap.get?_set]; split <;> rfl
  have hP : ∀ q, s'.pages.get? q = if p = q then some h' else s.pages.get? q := by
    intro q; simp only [e1, KMap.get?_set]
  have hL : ∀ b, s'.isLive b ↔ (b = .sh p i ∨ s.isLive b) := by
    intro b; simp only [State.isLive, e4, KMap.get?_set]
    split
    · next e => subst e; simp
    · next ne => constructor
                 · intro x; exact Or.inr x
                 · rintro (x | x)
                   · exact absurd x.symm ne
                   · exact x
  have okp := inv.pages p h hp
  have okc := inv.classes c
  refine ⟨?_, ?_, ?_, ?_⟩
  · intro q hq hqq
    rw [hP] at hqq
    split at hqq
    · next e =>
      subst e; cases hqq
      refine ⟨by rw [h'cls, ← hcls]; exact okp.cls_lt, ?_, by rw [e6]; exact okp.lt_next, by rw [h'cls]; exact hbrk', fl', ?_, ?_, ?_⟩
      · rw [h'cls, hK, if_pos rfl, kpl, ← hcls]; exact okp.in_plist
      · intro j hj; have := (fl'mem j).1 hj; exact Nat.lt_of_lt_of_le (okp.fl_lt j this.1) hbrk
      · intro _
        refine ⟨?_, cnt, by rw [h'cls]; exact cnt2⟩
        intro j hj
        rw [fl'mem, hL]
        by_cases hjb : j < h.brk
        · have := (okp.ne hev).1 j hjb
          rw [this]
          constructor
          · rintro ⟨a, b⟩ (x | x)
            · cases x; exact b rfl
            · exact a x
          · intro x; exact ⟨fun y => x (Or.inr y), fun e => x (Or.inl (by rw [e]))⟩
        · have e := hnew j (by omega) hj
          subst e
          constructor
          · intro x; exact absurd rfl x.2
          · intro x; exact absurd (Or.inl rfl) x
      · intro he; rw [h'ev] at he; cases he
    · next ne =>
      refine (inv.pages q hq hqq).transfer ?_ (by rw [e6]; exact Nat.le_refl _) ?_
      · intro hx; rw [hK]; split
        · next e => rw [kpl, e]; exact hx
        · exact hx
      · intro j; rw [hL]
        constructor
        · rintro (x | x)
          · cases x; exact absurd rfl ne
          · exact x
        · exact Or.inr
  · intro c'
    by_cases e : c = c'
    · subst e
      refine ⟨?_, ?_, ?_, ?_, ?_, ?_⟩
      · rw [hK, if_pos rfl, kpl]; exact okc.pl_nodup
      · intro q hq; rw [hK, if_pos rfl, kpl] at hq
        obtain ⟨h0, a, b⟩ := okc.pl_pages q hq
        rw [hP]; split
        · exact ⟨h', rfl, h'cls⟩
        · exact ⟨h0, a, b⟩
      · rw [hK, if_pos rfl, kpl, kcount]; exact okc.count
      · rw [hK, if_pos rfl]; exact kgl_nodup
      · intro q j; rw [hK, if_pos rfl, kgl, okc.gl_iff, hP]
        split
        · next e =>
          subst e
          constructor
          · rintro ⟨⟨h0, a, b, c1, d⟩, ne⟩
            rw [hp] at a; cases a
            exact ⟨h', rfl, h'cls, h'ev, (fl'mem j).2 ⟨d, fun e => ne ⟨rfl, e⟩⟩⟩
          · rintro ⟨h0, a, b, c1, d⟩
            cases a
            have := (fl'mem j).1 d
            exact ⟨⟨h, hp, hcls, hev, this.1⟩, fun x => this.2 x.2⟩
        · next ne =>
          constructor
          · rintro ⟨x, _⟩; exact x
          · intro x; exact ⟨x, fun y => ne y.1.symm⟩
      · intro q hq; rw [hK, if_pos rfl] at hq
        rw [hP]
        rcases kcur q hq with ⟨a, b⟩ | ⟨a, b⟩
        · subst a; rw [if_pos rfl]; exact ⟨h', rfl, h'cls, h'ev, b⟩
        · rw [if_neg (fun x => a x.symm)]; exact okc.cur_ok q b
    · refine (inv.classes c').transfer (by rw [hK, if_neg e]) ?_
      intro q h0 h0c; rw [hP]; split
      · next e2 =>
        subst e2
        constructor
        · intro x; cases x; exact absurd (h'cls.symm.trans h0c) e
        · intro x; rw [hp] at x; cases x; exact absurd (hcls.symm.trans h0c) e
      · exact Iff.rfl
  · intro b l hl
    simp only [e4, KMap.get?_set] at hl
    split at hl
    · next e =>
      cases hl; subst e
      refine ⟨M, by simp only [e3, KMap.get?_set, if_true], M1, M2, M3, M4, ?_⟩
      exact ⟨h', by rw [hP, if_pos rfl], hi, by rw [h'cls]; exact M5⟩
    · next ne =>
      have lb : s.isLive b := by simp [State.isLive, hl]
      refine (inv.live b l hl).transfer ?_ ?_ (fun _ _ => by rw [e5])
      · simp only [e3, KMap.get?_set, if_neg ne]; exact hmem b lb
      · intro q j _ h0 hq; rw [hP]; split
        · next e => subst e; rw [hp] at hq; cases hq; exact ⟨h', rfl, hbrk, by rw [h'cls, hcls]⟩
        · exact ⟨h0, hq, Nat.le_refl _, rfl⟩
  · intro id sz hid
    rw [e5] at hid
    have := inv.privs id sz hid
    refine ⟨by rw [e6]; exact this.1, ?_⟩
    rw [hP]; split
    · next e => subst e; rw [hp] at this; cases this.2
    · exact this.2


theorem nbrs_subset (l : List Nat) (x y : Nat) (h : y ∈ nbrs l x) : y ∈ l := by
  induction l with
  | nil => simp [nbrs] at h
  | cons a t ih =>
    cases t with
    | nil => simp [nbrs] at h
    | cons b r =>
      simp only [nbrs] at h
      split at h
      · simp at h; subst h; simp
      · split at h
        · cases r with
          | nil => simp at h; subst h; simp
          | cons c r' =>
            simp at h
            rcases h with h | h <;> subst h <;> simp
        · exact List.mem_cons_of_mem _ (ih h)

theorem headAddrs_mem (l : List (Nat × Nat)) (a : Addr) (h : a ∈ headAddrs l) :
    ∃ q j, a = .sh q j ∧ (q, j) ∈ l := by
  cases l with
  | nil => simp [headAddrs] at h
  | cons x r => obtain ⟨q, j⟩ := x; simp [headAddrs] at h; exact ⟨q, j, h, by simp⟩

theorem headSlots_mem (p : Nat) (l : List Nat) (a : Addr) (h : a ∈ headSlots p l) :
    ∃ j, a = .sh p j ∧ j ∈ l := by
  cases l with
  | nil => simp [headSlots] at h
  | cons x r => simp [headSlots] at h; exact ⟨x, h, by simp⟩

theorem fl_not_live {s : State V} (inv : InvG s) {q j : Nat} {h : Page}
    (hq : s.pages.get? q = some h) (he : h.evac = false) (hj : j ∈ h.freeList) :
    ¬ s.isLive (.sh q j) := by
  have ok := inv.pages q h hq
  exact ((ok.ne he).1 j (ok.fl_lt j hj)).1 hj

theorem gl_not_live {s : State V} (inv : InvG s) {c q j : Nat} (h : (q, j) ∈ (s.K c).glist) :
    ¬ s.isLive (.sh q j) := by
  obtain ⟨h0, a, _, c1, d⟩ := ((inv.classes c).gl_iff q j).1 h
  exact fl_not_live inv a c1 d

theorem live_lt_brk {s : State V} (inv : InvG s) {p i : Nat} {h : Page}
    (hp : s.pages.get? p = some h) (hl : s.isLive (.sh p i)) : i < h.brk := by
  simp only [State.isLive] at hl
  cases hq : s.live.get? (.sh p i) with
  | none => simp [hq] at hl
  | some l =>
    obtain ⟨m, _, _, _, _, _, h6⟩ := inv.live _ l hq
    obtain ⟨h', a, b, _⟩ := h6
    rw [hp] at a; cases a; exact b

/-- allocLive preserves the invariant; the returned slot was not live and is a shared slot. -/
theorem allocLive_invG {s s' : State V} {c size cap : Nat} {val : Option V} {a : Addr}
    (inv : InvG s) (hc : c < nClasses) (hcap : 0 < capOf c) (hsz : size ≤ cap)
    (hcs : cap + sliceHdrLen = slotSize c)
    (hr : allocLive s c size cap val = .ok (s', a)) :
    InvG s' ∧ ¬ s.isLive a ∧ s'.live = s.live.set a ⟨size, val⟩ ∧ (∃ p i, a = .sh p i) ∧
      s'.allocs = s.allocs ∧ s'.privs = s.privs ∧ s'.relog = s.relog ∧
      (∀ b, s.isLive b → s'.mem.get? b = s.mem.get? b) ∧
      s'.mem.get? a = some ⟨some a, size, cap, val⟩ ∧
      (∀ q hq, s'.pages.get? q = some hq → hq.evac = true → s.pages.get? q = some hq) ∧
      (∀ q hq, s.pages.get? q = some hq → hq.evac = true → s'.pages.get? q = some hq) ∧
      (∃ p i h', a = .sh p i ∧ s'.pages.get? p = some h' ∧ h'.evac = false ∧ h'.cls = c) ∧
      (∀ q hq', s'.pages.get? q = some hq' →
        (∃ hq, s.pages.get? q = some hq ∧ hq.cls = hq'.cls ∧ hq.evac = hq'.evac) ∨
        (s.pages.get? q = none ∧ q = s.nextPage ∧ hq'.evac = false ∧ hq'.cls = c)) ∧
      s.nextPage ≤ s'.nextPage ∧
      (∀ q, s.pages.get? q = none → q ≠ s.nextPage → s'.pages.get? q = none) := by
  unfold allocLive at hr
  simp only [] at hr
  generalize hs1 : (if (s.K c).glist.isEmpty && (s.K c).cur.isNone then newPage s c else s) = s1 at hr
  have inv1 : InvG s1 := by
    subst hs1; split
    · exact newPage_invG inv hc hcap
    · exact inv
  have l1 : s1.live = s.live := by subst hs1; split <;> rfl
  have a1 : s1.allocs = s.allocs := by subst hs1; split <;> rfl
  have p1 : s1.privs = s.privs := by subst hs1; split <;> rfl
  have r1 : s1.relog = s.relog := by subst hs1; split <;> rfl
  have m1 : s1.mem = s.mem := by subst hs1; split <;> rfl
  have lv : ∀ b, s1.isLive b ↔ s.isLive b := by intro b; simp only [State.isLive, l1]
  have pg1 : ∀ q hq, s1.pages.get? q = some hq → hq.evac = true → s.pages.get? q = some hq := by
    subst hs1; intro q hq h1 h2; split at h1
    · rw [newPage_pages] at h1; split at h1
      · cases h1; cases h2
      · exact h1
    · exact h1
  have pg2 : ∀ q hq, s.pages.get? q = some hq → s1.pages.get? q = some hq := by
    subst hs1; intro q hq h1; split
    · rw [newPage_pages, if_neg]; exact h1
      intro e; have := (inv.pages q hq h1).lt_next; omega
    · exact h1
  have sA2 : ∀ q hq, s1.pages.get? q = some hq → s.pages.get? q = some hq ∨
      (s.pages.get? q = none ∧ q = s.nextPage ∧ hq.evac = false ∧ hq.cls = c) := by
    subst hs1; intro q hq h1; split at h1
    · rw [newPage_pages] at h1; split at h1
      · next e =>
        cases h1; right
        refine ⟨?_, e.symm, rfl, rfl⟩
        cases hx : s.pages.get? q with
        | none => rfl
        | some hh => have := (inv.pages q hh hx).lt_next; omega
      · exact Or.inl h1
    · exact Or.inl h1
  have sA3 : s.nextPage ≤ s1.nextPage := by
    subst hs1; split
    · simp [newPage]
    · exact Nat.le_refl _
  have sA4 : ∀ q, s.pages.get? q = none → q ≠ s.nextPage → s1.pages.get? q = none := by
    subst hs1; intro q h1 h2; split
    · rw [newPage_pages, if_neg (fun e => h2 e.symm)]; exact h1
    · exact h1
  clear hs1
  have okc := inv1.classes c
  unfold allocSlot at hr
  simp only [] at hr
  cases hcur : (s1.K c).cur with
  | some p =>
    simp only [hcur] at hr
    obtain ⟨h, hp, hcl, hev, hb⟩ := okc.cur_ok p hcur
    simp only [hp] at hr
    cases hr
    have okp := inv1.pages p h hp
    have nl : ¬ s1.isLive (.sh p h.brk) := fun x => Nat.lt_irrefl _ (live_lt_brk inv1 hp x)
    have ne := okp.ne hev
    have := take_invG (s := s1) inv1 (c := c) (p := p) (i := h.brk) (h := h) (hh := s1.heap)
      (h' := { h with used := h.used + 1, brk := h.brk + 1, free := h.free - 1 })
      (k' := { s1.K c with freeSlots := (s1.K c).freeSlots - 1,
                           cur := if h.brk + 1 = capOf c then none else some p })
      (mem' := s1.mem) (M := ⟨some (.sh p h.brk), size, cap, val⟩) (L := ⟨size, val⟩)
      hp hcl hev hcl hev (by simp) (by simp; omega) (by simp) (by intro j a b; simp at b; omega) nl
      okp.fl_nodup
      (by intro j; simp; intro x e; have := okp.fl_lt j x; omega)
      (by simp; omega) (by simp; rw [hcl] at ne; omega) rfl rfl okc.gl_nodup
      (by intro q j; simp; intro x e
          obtain ⟨h0, a, _, _, d⟩ := (okc.gl_iff q j).1 x
          rw [e, hp] at a; cases a; have := okp.fl_lt j d; omega)
      (by intro q hq; simp at hq; left; exact ⟨hq.2.symm, by simp; omega⟩)
      (fun b _ => rfl) rfl rfl rfl hsz hcs
    refine ⟨this, by rw [← lv]; exact nl, by rw [← l1], ⟨p, h.brk, rfl⟩, a1, p1, r1, ?_, ?_, ?_, ?_⟩
    · intro b hb; simp only [KMap.get?_set]; split
      · next e => subst e; exact absurd ((lv _).2 hb) nl
      · rw [m1]
    · simp only [KMap.get?_set, if_true]
    · intro q hq h1 h2; simp only [KMap.get?_set] at h1; split at h1
      · cases h1; simp only [hev] at h2; cases h2
      · exact pg1 q hq h1 h2
    · refine ⟨?_, ⟨p, h.brk, { h with used := h.used + 1, brk := h.brk + 1, free := h.free - 1 }, rfl, by simp only [KMap.get?_set, if_true], hev, hcl⟩, ?_, sA3, ?_⟩
      · intro q hq h1 h2; simp only [KMap.get?_set]; split
        · next e => subst e; have := pg2 _ _ h1; rw [hp] at this; cases this; rw [hev] at h2; cases h2
        · exact pg2 _ _ h1
      · intro q hq' h1; simp only [KMap.get?_set] at h1; split at h1
        · next e =>
          subst e; cases h1
          rcases sA2 _ _ hp with x | ⟨x1, x2, x3, x4⟩
          · exact Or.inl ⟨h, x, rfl, rfl⟩
          · exact Or.inr ⟨x1, x2, hev, hcl⟩
        · rcases sA2 _ _ h1 with x | x
          · exact Or.inl ⟨hq', x, rfl, rfl⟩
          · exact Or.inr x
      · intro q h1 h2; simp only [KMap.get?_set]; split
        · next e => subst e; have := sA4 _ h1 h2; rw [hp] at this; cases this
        · exact sA4 _ h1 h2
  | none =>
    simp only [hcur] at hr
    cases hgl : (s1.K c).glist with
    | nil => simp only [hgl] at hr; cases hr
    | cons pi rest =>
      obtain ⟨p, i⟩ := pi
      simp only [hgl] at hr
      have hin : (p, i) ∈ (s1.K c).glist := by rw [hgl]; simp
      obtain ⟨h, hp, hcl, hev, hi⟩ := (okc.gl_iff p i).1 hin
      simp only [hp] at hr
      cases hr
      have okp := inv1.pages p h hp
      have nl : ¬ s1.isLive (.sh p i) := fl_not_live inv1 hp hev hi
      have ne := okp.ne hev
      have nd := okc.gl_nodup; rw [hgl] at nd
      have hlen : 0 < h.freeList.length := List.length_pos_of_mem hi
      have hmemc : ∀ b, s1.isLive b → (clobber s1.mem
          (headAddrs rest ++ (nbrs h.freeList i).map (Addr.sh p))).get? b = s1.mem.get? b := by
        intro b hb
        apply clobber_get
        intro hin2
        rw [List.mem_append] at hin2
        rcases hin2 with x | x
        · obtain ⟨q, j, e, hm⟩ := headAddrs_mem _ _ x
          subst e
          exact gl_not_live inv1 (c := c) (by rw [hgl]; exact List.mem_cons_of_mem _ hm) hb
        · simp only [List.mem_map] at x
          obtain ⟨j, hj, e⟩ := x; subst e
          exact fl_not_live inv1 hp hev (nbrs_subset _ _ _ hj) hb
      have := take_invG (s := s1) inv1 (c := c) (p := p) (i := i) (h := h) (hh := hPop s1.heap c)
        (h' := { h with freeList := h.freeList.erase i, used := h.used + 1, free := h.free - 1 })
        (k' := { s1.K c with glist := rest, freeSlots := (s1.K c).freeSlots - 1, cur := none })
        (mem' := clobber s1.mem (headAddrs rest ++ (nbrs h.freeList i).map (Addr.sh p)))
        (M := ⟨some (.sh p i), size, cap, val⟩) (L := ⟨size, val⟩)
        hp hcl hev hcl hev (by simp) (by simp; rw [← hcl]; exact okp.brk_le) (by simp; exact okp.fl_lt i hi)
        (by intro j a b; simp at b; omega) nl
        (okp.fl_nodup.erase i)
        (by intro j; simp only; rw [okp.fl_nodup.mem_erase_iff]; exact And.comm)
        (by simp only; rw [List.length_erase_of_mem hi]; omega)
        (by simp only; have := okp.brk_le; have := ne.2; rw [← hcl]; omega) rfl rfl
        (by simp only; exact (List.nodup_cons.1 nd).2)
        (by intro q j; simp only; rw [hgl]; simp only [List.mem_cons, Prod.mk.injEq]
            constructor
            · intro x; refine ⟨Or.inr x, ?_⟩
              rintro ⟨e1, e2⟩; subst e1; subst e2; exact (List.nodup_cons.1 nd).1 x
            · rintro ⟨x | x, y⟩
              · exact absurd x y
              · exact x)
        (by intro q hq; cases hq)
        hmemc rfl rfl rfl hsz hcs
      refine ⟨this, by rw [← lv]; exact nl, by rw [← l1], ⟨p, i, rfl⟩, a1, p1, r1, ?_, ?_, ?_, ?_⟩
      · intro b hb; simp only [KMap.get?_set]; split
        · next e => subst e; exact absurd ((lv _).2 hb) nl
        · rw [hmemc b ((lv b).2 hb), m1]
      · simp only [KMap.get?_set, if_true]
      · intro q hq h1 h2; simp only [KMap.get?_set] at h1; split at h1
        · cases h1; simp only [hev] at h2; cases h2
        · exact pg1 q hq h1 h2
      · refine ⟨?_, ⟨p, i, { h with freeList := h.freeList.erase i, used := h.used + 1, free := h.free - 1 }, rfl, by simp only [KMap.get?_set, if_true], hev, hcl⟩, ?_, sA3, ?_⟩
        · intro q hq h1 h2; simp only [KMap.get?_set]; split
          · next e => subst e; have := pg2 _ _ h1; rw [hp] at this; cases this; rw [hev] at h2; cases h2
          · exact pg2 _ _ h1
        · intro q hq' h1; simp only [KMap.get?_set] at h1; split at h1
          · next e =>
            subst e; cases h1
            rcases sA2 _ _ hp with x | ⟨x1, x2, x3, x4⟩
            · exact Or.inl ⟨h, x, rfl, rfl⟩
            · exact Or.inr ⟨x1, x2, hev, hcl⟩
          · rcases sA2 _ _ h1 with x | x
            · exact Or.inl ⟨hq', x, rfl, rfl⟩
            · exact Or.inr x
        · intro q h1 h2; simp only [KMap.get?_set]; split
          · next e => subst e; have := sA4 _ h1 h2; rw [hp] at this; cases this
          · exact sA4 _ h1 h2


/-! ### facts about the generated table -/

theorem table_facts : 0 < nClasses ∧ ∀ c, c < nClasses →
    0 < capOf c ∧ slotSize c ≤ maxShared ∧ sliceHdrLen ≤ slotSize c := by decide +kernel

theorem classOf_spec (n : Nat) (h : n ≤ maxShared) : classOf n < nClasses ∧ n ≤ slotSize (classOf n) := by
  have hex : ∃ x, x ∈ slotSizes ∧ decide (n ≤ x) = true := by
    cases hl : slotSizes.getLast? with
    | none =>
      have : slotSizes = [] := List.getLast?_eq_none_iff.1 hl
      have h0 := table_facts.1; simp [nClasses, this] at h0
    | some x =>
      refine ⟨x, List.mem_of_getLast? hl, ?_⟩
      simp only [maxShared, hl, Option.getD_some] at h
      simpa using h
  have hlt : classOf n < slotSizes.length := List.findIdx_lt_length_of_exists hex
  refine ⟨hlt, ?_⟩
  have := List.findIdx_getElem (w := hlt)
  simp only [decide_eq_true_eq] at this
  simp only [slotSize, List.getD_eq_getElem?_getD]
  rw [List.getElem?_eq_getElem (by exact hlt)]
  exact this

theorem roundup_ge (n : Nat) : n ≤ roundup n osPageSize := by
  simp only [roundup, osPageSize]; omega

/-! ### Malloc -/

theorem malloc_invG {s s' : State V} {size : Nat} {a : Addr} (inv : InvG s)
    (hr : malloc s size = .ok (s', a)) :
    InvG s' ∧ ¬ s.isLive a ∧ s'.live = s.live.set a ⟨size, none⟩ ∧ s'.allocs = s.allocs + 1 ∧
      (∀ q hq, s'.pages.get? q = some hq → hq.evac = true → s.pages.get? q = some hq) := by
  unfold malloc at hr
  simp only [] at hr
  split at hr
  · next hbig =>
    cases hr
    have nl : ¬ s.isLive (.pv s.nextPage) := by
      intro hl; simp only [State.isLive] at hl
      cases hq : s.live.get? (.pv s.nextPage) with
      | none => simp [hq] at hl
      | some l =>
        obtain ⟨m, _, _, _, _, _, sz, g1, _⟩ := inv.live _ l hq
        have := (inv.privs _ sz g1).1; omega
    refine ⟨?_, nl, rfl, rfl, fun q hq h1 _ => h1⟩
    have rg := roundup_ge (size + sliceHdrLen)
    refine ⟨?_, ?_, ?_, ?_⟩
    · intro q h hq
      refine (inv.pages q h hq).transfer (fun hx => hx) (by simp) ?_
      intro i; simp only [State.isLive, KMap.get?_set]; simp
    · intro c; exact (inv.classes c).transfer rfl (fun _ _ _ => Iff.rfl)
    · intro b l hl
      simp only [KMap.get?_set] at hl
      split at hl
      · next e =>
        subst e; cases hl
        refine ⟨⟨some (.pv s.nextPage), size, roundup (size + sliceHdrLen) osPageSize - sliceHdrLen, none⟩,
          by simp only [KMap.get?_set, if_true], rfl, rfl, rfl, ?_, ?_⟩
        · simp only [sliceHdrLen] at *; omega
        · refine ⟨roundup (size + sliceHdrLen) osPageSize, by simp only [KMap.get?_set, if_true], ?_, ?_⟩
          · simp only [sliceHdrLen] at *; omega
          · omega
      · next ne =>
        refine (inv.live b l hl).transfer (by simp only [KMap.get?_set, if_neg ne]) ?_ ?_
        · intro p i _ h hp; exact ⟨h, hp, Nat.le_refl _, rfl⟩
        · intro id e; subst e
          simp only [KMap.get?_set]; split
          · next e2 => subst e2; exact absurd rfl ne
          · rfl
    · intro id sz hid
      simp only [KMap.get?_set] at hid
      split at hid
      · next e =>
        subst e
        refine ⟨by simp, ?_⟩
        cases hq : s.pages.get? s.nextPage with
        | none => rfl
        | some h => have := (inv.pages _ h hq).lt_next; omega
      · have := inv.privs id sz hid
        exact ⟨by simp; omega, this.2⟩
  · next hsmall =>
    have hn : size + sliceHdrLen ≤ maxShared := by omega
    obtain ⟨c1, c2⟩ := classOf_spec _ hn
    obtain ⟨t1, t2, t3⟩ := table_facts.2 _ c1
    have inv0 : InvG ({ s with allocs := s.allocs + 1 } : State V) :=
      ⟨fun p h hp => (inv.pages p h hp).transfer (fun hx => hx) (Nat.le_refl _) (fun _ => Iff.rfl),
       fun c => (inv.classes c).transfer rfl (fun _ _ _ => Iff.rfl),
       fun b l hl => (inv.live b l hl).transfer rfl (fun p i _ h hp => ⟨h, hp, Nat.le_refl _, rfl⟩) (fun _ _ => rfl),
       inv.privs⟩
    obtain ⟨i1, i2, i3, _, i5, _, _, _, _, i6, _⟩ := allocLive_invG inv0 c1 t1 (by omega) (by omega) hr
    exact ⟨i1, i2, i3, i5, i6⟩

/-- allocLive never runs into a nil / unmapped page -/
theorem allocLive_total {s : State V} (inv : InvG s) {c : Nat} (hc : c < nClasses) (hcap : 0 < capOf c)
    (size cap : Nat) (val : Option V) : ∃ r, allocLive s c size cap val = .ok r := by
  unfold allocLive
  simp only []
  generalize hs1 : (if (s.K c).glist.isEmpty && (s.K c).cur.isNone then newPage s c else s) = s1
  have inv1 : InvG s1 := by
    subst hs1; split
    · exact newPage_invG inv hc hcap
    · exact inv
  have hne : (s1.K c).cur ≠ none ∨ (s1.K c).glist ≠ [] := by
    subst hs1; split
    · left; rw [newPage_K, if_pos rfl]; simp
    · next hcond =>
      simp only [Bool.and_eq_true, not_and, List.isEmpty_iff, Option.isNone_iff_eq_none] at hcond
      by_cases e : (s.K c).glist = []
      · left; exact hcond e
      · right; exact e
  clear hs1
  have okc := inv1.classes c
  unfold allocSlot
  simp only []
  cases hcur : (s1.K c).cur with
  | some p =>
    obtain ⟨h, hp, _⟩ := okc.cur_ok p hcur
    simp only [hp]; exact ⟨_, rfl⟩
  | none =>
    cases hgl : (s1.K c).glist with
    | nil => rcases hne with x | x
             · exact absurd hcur x
             · exact absurd hgl x
    | cons pi rest =>
      obtain ⟨p, i⟩ := pi
      obtain ⟨h, hp, _⟩ := (okc.gl_iff p i).1 (by rw [hgl]; simp)
      simp only [hp]; exact ⟨_, rfl⟩

theorem malloc_total {s : State V} (inv : InvG s) (size : Nat) : ∃ s' a, malloc s size = .ok (s', a) := by
  unfold malloc
  simp only []
  split
  · exact ⟨_, _, rfl⟩
  · next hsmall =>
    have hn : size + sliceHdrLen ≤ maxShared := by omega
    obtain ⟨c1, c2⟩ := classOf_spec _ hn
    obtain ⟨t1, t2, t3⟩ := table_facts.2 _ c1
    have inv0 : InvG ({ s with allocs := s.allocs + 1 } : State V) :=
      ⟨fun p h hp => (inv.pages p h hp).transfer (fun hx => hx) (Nat.le_refl _) (fun _ => Iff.rfl),
       fun c => (inv.classes c).transfer rfl (fun _ _ _ => Iff.rfl),
       fun b l hl => (inv.live b l hl).transfer rfl (fun p i _ h hp => ⟨h, hp, Nat.le_refl _, rfl⟩) (fun _ _ => rfl),
       inv.privs⟩
    obtain ⟨⟨s', a⟩, hr⟩ := allocLive_total inv0 c1 t1 size (slotSize (classOf (size + sliceHdrLen)) - sliceHdrLen) none
    exact ⟨s', a, hr⟩

/-! ### Free -/

theorem nodup_bound : ∀ (n : Nat) (l : List Nat), l.Nodup → (∀ x, x ∈ l → x < n) → l.length ≤ n := by
  intro n
  induction n with
  | zero => intro l _ h; cases l with
    | nil => simp
    | cons a t => exact absurd (h a (by simp)) (by omega)
  | succ n ih =>
    intro l nd h
    have h1 := ih (l.erase n) (nd.erase n) (by
      intro x hx
      have := (nd.mem_erase_iff).1 hx
      have := h x this.2
      omega)
    have := List.length_erase (a := n) (l := l)
    split at this <;> omega

/-- removing a live shared allocation and running the `used ≥ 1` branch of uintptrFreeShared on a page
    that is not being evacuated -/
theorem freeShared_invG {s : State V} (inv : InvG s) {p i : Nat} {h : Page}
    (hp : s.pages.get? p = some h) (hev : h.evac = false) (hl : s.isLive (.sh p i)) (hu : 1 ≤ h.used) :
    InvG (freeSlot ({ s with allocs := s.allocs - 1, live := s.live.del (.sh p i) } : State V) p i h) := by
  generalize hs0 : ({ s with allocs := s.allocs - 1, live := s.live.del (.sh p i) } : State V) = s0
  have f1 : s0.pages = s.pages := by subst hs0; rfl
  have f2 : s0.cls = s.cls := by subst hs0; rfl
  have f3 : s0.mem = s.mem := by subst hs0; rfl
  have f4 : s0.live = s.live.del (.sh p i) := by subst hs0; rfl
  have f5 : s0.privs = s.privs := by subst hs0; rfl
  have f6 : s0.nextPage = s.nextPage := by subst hs0; rfl
  have fK : ∀ c, s0.K c = s.K c := by intro c; simp only [State.K, f2]
  clear hs0
  generalize hs' : freeSlot s0 p i h = s'
  have e1 : s'.pages = s.pages.set p { h with used := h.used - 1, free := h.free + 1, freeList := i :: h.freeList } := by
    subst hs'; simp [freeSlot, hev, f1]
  have e2 : s'.cls = s.cls.set h.cls { s.K h.cls with freeSlots := (s.K h.cls).freeSlots + 1, glist := (p, i) :: (s.K h.cls).glist } := by
    subst hs'; simp [freeSlot, hev, f2, fK]
  have e3 : s'.mem = clobber s.mem ([Addr.sh p i] ++ headAddrs (s.K h.cls).glist ++ headSlots p h.freeList) := by
    subst hs'; simp [freeSlot, hev, f3, fK]
  have e4 : s'.live = s.live.del (.sh p i) := by subst hs'; simp [freeSlot, hev, f4]
  have e5 : s'.privs = s.privs := by subst hs'; simp [freeSlot, hev, f5]
  have e6 : s'.nextPage = s.nextPage := by subst hs'; simp [freeSlot, hev, f6]
  clear hs' f1 f2 f3 f4 f5 f6 fK s0
  have hK : ∀ c', s'.K c' = if h.cls = c' then
      { s.K h.cls with freeSlots := (s.K h.cls).freeSlots + 1, glist := (p, i) :: (s.K h.cls).glist } else s.K c' := by
    intro c'; simp only [State.K, e2, KMap.get?_set]; split <;> rfl
  have hP : ∀ q, s'.pages.get? q = if p = q then
      some { h with used := h.used - 1, free := h.free + 1, freeList := i :: h.freeList } else s.pages.get? q := by
    intro q; simp only [e1, KMap.get?_set]
  have hL : ∀ b, s'.isLive b ↔ (b ≠ .sh p i ∧ s.isLive b) := by
    intro b; simp only [State.isLive, e4, KMap.get?_del]
    split
    · next e => subst e; simp
    · next ne => constructor
                 · intro x; exact ⟨fun y => ne y.symm, x⟩
                 · intro x; exact x.2
  have okp := inv.pages p h hp
  have okc := inv.classes h.cls
  have ne := okp.ne hev
  have ib : i < h.brk := live_lt_brk inv hp hl
  have inl : i ∉ h.freeList := fun x => ((ne.1 i ib).1 x) hl
  refine ⟨?_, ?_, ?_, ?_⟩
  · intro q hq hqq
    rw [hP] at hqq
    split at hqq
    · next e =>
      subst e; cases hqq
      refine ⟨okp.cls_lt, ?_, by rw [e6]; exact okp.lt_next, okp.brk_le, ?_, ?_, ?_, ?_⟩
      · show p ∈ (s'.K h.cls).plist
        rw [hK, if_pos rfl]; exact okp.in_plist
      · exact List.nodup_cons.2 ⟨inl, okp.fl_nodup⟩
      · intro j hj; simp only [List.mem_cons] at hj
        rcases hj with e | e
        · subst e; exact ib
        · exact okp.fl_lt j e
      · intro _
        refine ⟨?_, by simp only [List.length_cons]; omega, by show h.used - 1 + (h.free + 1) = capOf h.cls; omega⟩
        intro j hj
        simp only [List.mem_cons]
        rw [hL, (ne.1 j hj)]
        constructor
        · rintro (e | e) ⟨a, b⟩
          · subst e; exact a rfl
          · exact e b
        · intro x
          by_cases e : j = i
          · exact Or.inl e
          · right; intro y; exact x ⟨fun z => e (by cases z; rfl), y⟩
      · intro he; have : h.evac = true := he; rw [hev] at this; cases this
    · next ne2 =>
      refine (inv.pages q hq hqq).transfer ?_ (by rw [e6]; exact Nat.le_refl _) ?_
      · intro hx; rw [hK]; split
        · next e => rw [e]; exact hx
        · exact hx
      · intro j; rw [hL]
        constructor
        · exact fun x => x.2
        · intro x; exact ⟨fun y => by cases y; exact ne2 rfl, x⟩
  · intro c'
    by_cases e : h.cls = c'
    · subst e
      refine ⟨?_, ?_, ?_, ?_, ?_, ?_⟩
      · rw [hK, if_pos rfl]; exact okc.pl_nodup
      · intro q hq; rw [hK, if_pos rfl] at hq
        obtain ⟨h0, a, b⟩ := okc.pl_pages q hq
        rw [hP]; split
        · exact ⟨_, rfl, rfl⟩
        · exact ⟨h0, a, b⟩
      · rw [hK, if_pos rfl]; exact okc.count
      · rw [hK, if_pos rfl]
        refine List.nodup_cons.2 ⟨?_, okc.gl_nodup⟩
        intro x
        obtain ⟨h0, a, _, _, d⟩ := (okc.gl_iff p i).1 x
        rw [hp] at a; cases a; exact inl d
      · intro q j; rw [hK, if_pos rfl]
        simp only [List.mem_cons, Prod.mk.injEq]
        rw [okc.gl_iff, hP]
        split
        · next e =>
          subst e
          constructor
          · rintro (⟨_, e2⟩ | ⟨h0, a, b, c1, d⟩)
            · subst e2; exact ⟨_, rfl, rfl, hev, by simp⟩
            · rw [hp] at a; cases a; exact ⟨_, rfl, rfl, hev, by simp [d]⟩
          · rintro ⟨h0, a, b, c1, d⟩
            cases a
            simp only [List.mem_cons] at d
            rcases d with d | d
            · exact Or.inl ⟨rfl, d⟩
            · exact Or.inr ⟨h, hp, rfl, hev, d⟩
        · next ne2 =>
          constructor
          · rintro (⟨e2, _⟩ | x)
            · exact absurd e2.symm ne2
            · exact x
          · exact Or.inr
      · intro q hq; rw [hK, if_pos rfl] at hq
        obtain ⟨h0, a, b, c1, d⟩ := okc.cur_ok q hq
        rw [hP]; split
        · next e => subst e; rw [hp] at a; cases a; exact ⟨_, rfl, rfl, hev, d⟩
        · exact ⟨h0, a, b, c1, d⟩
    · refine (inv.classes c').transfer (by rw [hK, if_neg e]) ?_
      intro q h0 h0c; rw [hP]; split
      · next e2 =>
        subst e2
        constructor
        · intro x; cases x; exact absurd h0c e
        · intro x; rw [hp] at x; cases x; exact absurd h0c e
      · exact Iff.rfl
  · intro b l hlb
    simp only [e4, KMap.get?_del] at hlb
    split at hlb
    · cases hlb
    · next ne2 =>
      have lb : s.isLive b := by simp [State.isLive, hlb]
      refine (inv.live b l hlb).transfer ?_ ?_ (fun _ _ => by rw [e5])
      · rw [e3]; apply clobber_get
        intro hin
        simp only [List.mem_append, List.mem_singleton] at hin
        rcases hin with (x | x) | x
        · exact ne2 x.symm
        · obtain ⟨q, j, e, hm⟩ := headAddrs_mem _ _ x
          subst e; exact gl_not_live inv hm lb
        · obtain ⟨j, e, hm⟩ := headSlots_mem _ _ _ x
          subst e; exact fl_not_live inv hp hev hm lb
      · intro q j _ h0 hq; rw [hP]; split
        · next e => subst e; rw [hp] at hq; cases hq; exact ⟨_, rfl, Nat.le_refl _, rfl⟩
        · exact ⟨h0, hq, Nat.le_refl _, rfl⟩
  · intro id sz hid
    rw [e5] at hid
    have := inv.privs id sz hid
    refine ⟨by rw [e6]; exact this.1, ?_⟩
    rw [hP]; split
    · next e => subst e; rw [hp] at this; cases this.2
    · exact this.2


theorem KMap.size_pos {κ α : Type} [BEq κ] [Hashable κ] [LawfulBEq κ] [LawfulHashable κ]
    (m : KMap κ α) (k : κ) (h : (m.get? k).isSome = true) : 0 < m.size := by
  have hm : k ∈ m.m := by
    simp only [KMap.get?] at h
    exact Std.HashMap.mem_iff_isSome_getElem?.2 h
  have : m.m.isEmpty = false := Std.HashMap.isEmpty_eq_false_iff_exists_mem.2 ⟨k, hm⟩
  rw [Std.HashMap.isEmpty_eq_size_eq_zero] at this
  simp only [KMap.size]
  simp at this; omega

theorem free_inv {s s' : State V} {a : Addr} (inv : Inv s) (hr : free s a = .ok s') :
    Inv s' ∧ s.isLive a ∧ s'.live = s.live.del a := by
  unfold free at hr
  split at hr
  · cases hr
  · next hlive =>
    have hl : s.isLive a := by
      simp only [State.isLive]; cases hq : s.live.get? a <;> simp_all
    simp only [] at hr
    have hsz := KMap.size_pos s.live a hl
    have hallocs : (s.allocs - 1 : Int) = ((s.live.del a).size : Int) := by
      rw [KMap.size_del, inv.allocs]; simp only [State.isLive] at hl; rw [hl]; simp; omega
    cases hq : s.live.get? a with
    | none => simp [State.isLive, hq] at hl
    | some l =>
    obtain ⟨m, hm, _, _, _, _, h6⟩ := inv.g.live a l hq
    simp only [hm] at hr
    split at hr
    · next hbig =>
      cases a with
      | sh p i => cases hr
      | pv id =>
        simp only [] at hr; cases hr
        obtain ⟨sz, g1, g2, g3⟩ := h6
        refine ⟨⟨?_, hallocs, ?_⟩, hl, rfl⟩
        · refine ⟨?_, ?_, ?_, ?_⟩
          · intro q h hq2
            refine (inv.g.pages q h hq2).transfer (fun hx => hx) (Nat.le_refl _) ?_
            intro i; simp only [State.isLive, KMap.get?_del]; simp
          · intro c; exact (inv.g.classes c).transfer rfl (fun _ _ _ => Iff.rfl)
          · intro b lb hlb
            simp only [KMap.get?_del] at hlb
            split at hlb
            · cases hlb
            · next ne =>
              refine (inv.g.live b lb hlb).transfer (by simp only [KMap.get?_del, if_neg ne]) ?_ ?_
              · intro p i _ h hp; exact ⟨h, hp, Nat.le_refl _, rfl⟩
              · intro id' e; subst e
                simp only [KMap.get?_del]; split
                · next e2 => subst e2; exact absurd rfl ne
                · rfl
          · intro id' sz' hid
            simp only [KMap.get?_del] at hid
            split at hid
            · cases hid
            · exact inv.g.privs id' sz' hid
        · exact inv.noEvac
    · next hsmall =>
      cases a with
      | pv id =>
        obtain ⟨sz, g1, g2, g3⟩ := h6
        omega
      | sh p i =>
        simp only [] at hr
        obtain ⟨h, g1, g2, g3⟩ := h6
        simp only [g1] at hr
        split at hr
        · next hu =>
          cases hr
          have hev := inv.noEvac p h g1
          refine ⟨⟨freeShared_invG inv.g g1 hev hl hu, ?_, ?_⟩, hl, ?_⟩
          · simp only [freeSlot, hev]; exact hallocs
          · intro q hq2 hqq
            simp only [freeSlot, hev, Bool.false_eq_true, if_false, KMap.get?_set] at hqq
            split at hqq
            · cases hqq; first | rfl | exact hev
            · exact inv.noEvac q hq2 hqq
          · simp only [freeSlot, hev]; rfl
        · cases hr

theorem free_total {s : State V} {a : Addr} (inv : Inv s) (hl : s.isLive a) : ∃ s', free s a = .ok s' := by
  unfold free
  simp only [State.isLive] at hl
  cases hq : s.live.get? a with
  | none => simp [hq] at hl
  | some l =>
  simp only [Option.isNone_some, Bool.false_eq_true, if_false]
  obtain ⟨m, hm, _, _, _, _, h6⟩ := inv.g.live a l hq
  simp only [hm]
  cases a with
  | pv id =>
    obtain ⟨sz, g1, g2, g3⟩ := h6
    rw [if_pos (by omega)]; exact ⟨_, rfl⟩
  | sh p i =>
    obtain ⟨h, g1, g2, g3⟩ := h6
    have okp := inv.g.pages p h g1
    have t := (table_facts.2 _ okp.cls_lt).2.1
    rw [if_neg (by omega)]
    simp only [g1]
    have hev := inv.noEvac p h g1
    have ne := okp.ne hev
    -- pigeonhole: slot i is live, so the free list cannot hold all brk slots
    have hlive : s.isLive (.sh p i) := by simp [State.isLive, hq]
    have inl : i ∉ h.freeList := fun x => ((ne.1 i g2).1 x) hlive
    have := nodup_bound h.brk (i :: h.freeList) (List.nodup_cons.2 ⟨inl, okp.fl_nodup⟩) (by
      intro x hx; simp only [List.mem_cons] at hx
      rcases hx with e | e
      · subst e; exact g2
      · exact okp.fl_lt x e)
    simp only [List.length_cons] at this
    rw [if_pos (by omega)]; exact ⟨_, rfl⟩

theorem write_inv {s s' : State V} {a : Addr} {v : V} (inv : Inv s) (hr : write s a v = .ok s') :
    Inv s' ∧ ∃ l, s.live.get? a = some l ∧ s'.live = s.live.set a { l with val := some v } := by
  unfold write at hr
  cases hq : s.live.get? a with
  | none => simp [hq] at hr
  | some l =>
  cases hm : s.mem.get? a with
  | none => simp [hq, hm] at hr
  | some m =>
  simp only [hq, hm] at hr
  cases hr
  refine ⟨⟨?_, ?_, inv.noEvac⟩, l, rfl, rfl⟩
  · have hL : ∀ b, ({ s with mem := s.mem.set a { m with val := some v }, live := s.live.set a { l with val := some v } } : State V).isLive b ↔ s.isLive b := by
      intro b; simp only [State.isLive, KMap.get?_set]; split
      · next e => subst e; simp [hq]
      · rfl
    refine ⟨?_, ?_, ?_, inv.g.privs⟩
    · intro q h hq2
      exact (inv.g.pages q h hq2).transfer (fun hx => hx) (Nat.le_refl _) (fun i => hL _)
    · intro c; exact (inv.g.classes c).transfer rfl (fun _ _ _ => Iff.rfl)
    · intro b lb hlb
      simp only [KMap.get?_set] at hlb
      split at hlb
      · next e =>
        subst e; cases hlb
        obtain ⟨m0, h1, h2, h3, h4, h5, h6⟩ := inv.g.live _ l hq
        rw [hm] at h1; cases h1
        exact ⟨{ m with val := some v }, by simp only [KMap.get?_set, if_true], h2, h3, rfl, h5, h6⟩
      · next ne =>
        exact (inv.g.live b lb hlb).transfer (by simp only [KMap.get?_set, if_neg ne])
          (fun p i _ h hp => ⟨h, hp, Nat.le_refl _, rfl⟩) (fun _ _ => rfl)
  · show s.allocs = (s.live.set a { l with val := some v }).size
    rw [KMap.size_set, hq]; exact inv.allocs

theorem malloc_inv {s s' : State V} {size : Nat} {a : Addr} (inv : Inv s)
    (hr : malloc s size = .ok (s', a)) :
    Inv s' ∧ ¬ s.isLive a ∧ s'.live = s.live.set a ⟨size, none⟩ := by
  obtain ⟨i1, i2, i3, i4, i5⟩ := malloc_invG inv.g hr
  refine ⟨⟨i1, ?_, ?_⟩, i2, i3⟩
  · rw [i4, i3, KMap.size_set, inv.allocs]
    simp only [State.isLive] at i2
    cases hq : s.live.get? a <;> simp_all
  · intro q hq h1
    cases he : hq.evac with
    | false => rfl
    | true => have := inv.noEvac q hq (i5 q hq h1 he); rw [this] at he; cases he


/-! ### defragmentation steps -/

theorem ClassOk.transfer' {s s' : State V} {c : Nat} (ok : ClassOk s c)
    (k1 : (s'.K c).plist = (s.K c).plist) (k2 : (s'.K c).pageCount = (s.K c).pageCount)
    (k3 : (s'.K c).glist = (s.K c).glist) (k4 : (s'.K c).cur = (s.K c).cur)
    (hp1 : ∀ p h, s.pages.get? p = some h → h.cls = c → ∃ h', s'.pages.get? p = some h' ∧ h'.cls = c ∧
        h'.evac = h.evac ∧ h'.freeList = h.freeList ∧ h'.brk = h.brk)
    (hp2 : ∀ p h', s'.pages.get? p = some h' → h'.cls = c → ∃ h, s.pages.get? p = some h ∧ h.cls = c ∧
        h'.evac = h.evac ∧ h'.freeList = h.freeList ∧ h'.brk = h.brk) : ClassOk s' c := by
  refine ⟨by rw [k1]; exact ok.pl_nodup, ?_, by rw [k1, k2]; exact ok.count, by rw [k3]; exact ok.gl_nodup, ?_, ?_⟩
  · intro p hpp; rw [k1] at hpp
    obtain ⟨h, h1, h2⟩ := ok.pl_pages p hpp
    obtain ⟨h', a, b, _⟩ := hp1 p h h1 h2
    exact ⟨h', a, b⟩
  · intro p i; rw [k3, ok.gl_iff]
    constructor
    · rintro ⟨h, h1, h2, h3, h4⟩
      obtain ⟨h', a, b, c1, d, _⟩ := hp1 p h h1 h2
      exact ⟨h', a, b, by rw [c1]; exact h3, by rw [d]; exact h4⟩
    · rintro ⟨h', h1, h2, h3, h4⟩
      obtain ⟨h, a, b, c1, d, _⟩ := hp2 p h' h1 h2
      exact ⟨h, a, b, by rw [← c1]; exact h3, by rw [← d]; exact h4⟩
  · intro p hc; rw [k4] at hc
    obtain ⟨h, h1, h2, h3, h4⟩ := ok.cur_ok p hc
    obtain ⟨h', a, b, c1, _, e⟩ := hp1 p h h1 h2
    exact ⟨h', a, b, by rw [c1]; exact h3, by rw [e]; exact h4⟩

theorem beginEvac_invG {s s' : State V} {c pg : Nat} (inv : InvG s) (hr : beginEvac s c pg = .ok s') :
    InvG s' ∧ s'.live = s.live ∧ s'.allocs = s.allocs ∧ s'.relog = s.relog ∧
    (∀ q hq, s'.pages.get? q = some hq → hq.evac = true → (q = pg ∧ hq.cls = c) ∨ s.pages.get? q = some hq) ∧
    (∃ h, s.pages.get? pg = some h ∧ h.cls = c ∧ h.evac = false) ∧
    (∀ b, s.isLive b → s'.mem.get? b = s.mem.get? b) := by
  unfold beginEvac at hr
  cases hp : s.pages.get? pg with
  | none => simp [hp] at hr
  | some h =>
  simp only [hp] at hr
  split at hr
  · cases hr
  · next hcond =>
    simp only [not_or, Decidable.not_not, Bool.not_eq_true] at hcond
    obtain ⟨hcl, hev⟩ := hcond
    cases hr
    have okp := inv.pages pg h hp
    have okc := inv.classes c
    have ne := okp.ne hev
    refine ⟨?_, rfl, rfl, rfl, ?_, ⟨h, rfl, hcl, hev⟩, ?_⟩
    · have hK : ∀ c', State.K (V := V) { s with
          pages := s.pages.set pg { h with evac := true, saved := h.freeList, freeList := [], scan := 0 },
          cls := s.cls.set c { s.K c with cur := if (s.K c).cur = some pg then none else (s.K c).cur,
                                          glist := (s.K c).glist.filter (fun (q, _) => q ≠ pg) },
          mem := clobber s.mem ((s.K c).glist.map (fun (q, j) => Addr.sh q j)),
          heap := hPurge s.heap c pg h.brk } c' =
          if c = c' then { s.K c with cur := if (s.K c).cur = some pg then none else (s.K c).cur,
                                      glist := (s.K c).glist.filter (fun (q, _) => q ≠ pg) } else s.K c' := by
        intro c'; simp only [State.K, KMap.get?_set]; split <;> rfl
      refine ⟨?_, ?_, ?_, ?_⟩
      · intro q hq hqq
        simp only [KMap.get?_set] at hqq
        split at hqq
        · next e =>
          subst e; cases hqq
          refine ⟨okp.cls_lt, ?_, okp.lt_next, okp.brk_le, by simp, by simp, ?_, ?_⟩
          · show pg ∈ (State.K _ h.cls).plist
            rw [hK]; split
            · next e => subst e; exact okp.in_plist
            · exact okp.in_plist
          · intro he; cases he
          · intro _
            refine ⟨rfl, ?_⟩
            intro i hi
            show s.isLive (.sh pg i) ↔ (0 ≤ i ∧ i ∉ h.freeList)
            rw [ne.1 i hi]
            simp only [Nat.zero_le, true_and]
            exact ⟨fun x y => y x, fun x => Classical.not_not.1 x⟩
        · next ne2 =>
          refine (inv.pages q hq hqq).transfer ?_ (Nat.le_refl _) (fun _ => Iff.rfl)
          intro hx; rw [hK]; split
          · next e => rw [← e] at hx; exact hx
          · exact hx
      · intro c'
        by_cases e : c = c'
        · subst e
          refine ⟨?_, ?_, ?_, ?_, ?_, ?_⟩
          · rw [hK, if_pos rfl]; exact okc.pl_nodup
          · intro q hq; rw [hK, if_pos rfl] at hq
            obtain ⟨h0, a, b⟩ := okc.pl_pages q hq
            simp only [KMap.get?_set]; split
            · exact ⟨_, rfl, hcl⟩
            · exact ⟨h0, a, b⟩
          · rw [hK, if_pos rfl]; exact okc.count
          · rw [hK, if_pos rfl]; exact okc.gl_nodup.sublist List.filter_sublist
          · intro q j; rw [hK, if_pos rfl]
            simp only [List.mem_filter, decide_eq_true_eq, KMap.get?_set]
            rw [okc.gl_iff]
            split
            · next e =>
              subst e
              constructor
              · rintro ⟨_, x⟩; exact absurd rfl x
              · rintro ⟨h0, a, _, c1, _⟩; cases a; cases c1
            · next ne2 =>
              constructor
              · exact fun x => x.1
              · exact fun x => ⟨x, fun y => ne2 y.symm⟩
          · intro q hq; rw [hK, if_pos rfl] at hq
            simp only at hq
            split at hq
            · cases hq
            · next ncur =>
              obtain ⟨h0, a, b, c1, d⟩ := okc.cur_ok q hq
              simp only [KMap.get?_set]; split
              · next e => subst e; exact absurd hq ncur
              · exact ⟨h0, a, b, c1, d⟩
        · refine (inv.classes c').transfer (by rw [hK, if_neg e]) ?_
          intro q h0 h0c; simp only [KMap.get?_set]; split
          · next e2 =>
            subst e2
            constructor
            · intro x; cases x; exact absurd (hcl.symm.trans h0c) e
            · intro x; rw [hp] at x; cases x; exact absurd (hcl.symm.trans h0c) e
          · exact Iff.rfl
      · intro b l hlb
        have lb : s.isLive b := by simp [State.isLive, hlb]
        refine (inv.live b l hlb).transfer ?_ ?_ (fun _ _ => rfl)
        · apply clobber_get
          intro hin; simp only [List.mem_map] at hin
          obtain ⟨⟨q, j⟩, hm, e⟩ := hin
          subst e; exact gl_not_live inv hm lb
        · intro q j _ h0 hq; simp only [KMap.get?_set]; split
          · next e => subst e; rw [hp] at hq; cases hq; exact ⟨_, rfl, Nat.le_refl _, rfl⟩
          · exact ⟨h0, hq, Nat.le_refl _, rfl⟩
      · intro id sz hid
        have := inv.privs id sz hid
        refine ⟨this.1, ?_⟩
        simp only [KMap.get?_set]; split
        · next e => subst e; rw [hp] at this; cases this.2
        · exact this.2
    · intro q hq h1 h2
      simp only [KMap.get?_set] at h1; split at h1
      · next e => cases h1; exact Or.inl ⟨e.symm, hcl⟩
      · exact Or.inr h1
    · intro b lb
      apply clobber_get
      intro hin; simp only [List.mem_map] at hin
      obtain ⟨⟨q, j⟩, hm, e⟩ := hin
      subst e; exact gl_not_live inv hm lb


/-- one step of the slot loop of an evacuating page, stated extensionally: slot `scan` stops being
    live (it was relocated, or it was free all along) and `scan` advances. -/
theorem evac_advance {s1 s3 : State V} (inv : InvG s1) {pg : Nat} {h h3 : Page}
    (hp : s1.pages.get? pg = some h) (hev : h.evac = true) (hsc : h.scan < h.brk)
    (g1 : h3.cls = h.cls) (g2 : h3.evac = true) (g3 : h3.brk = h.brk) (g4 : h3.freeList = h.freeList)
    (g5 : h3.saved = h.saved) (g6 : h3.scan = h.scan + 1)
    (hpages : ∀ q, s3.pages.get? q = if pg = q then some h3 else s1.pages.get? q)
    (hK : ∀ c, (s3.K c).plist = (s1.K c).plist ∧ (s3.K c).pageCount = (s1.K c).pageCount ∧
        (s3.K c).glist = (s1.K c).glist ∧ (s3.K c).cur = (s1.K c).cur)
    (hlive : ∀ b, s3.live.get? b = if b = .sh pg h.scan then none else s1.live.get? b)
    (hmem : s3.mem = s1.mem) (hprivs : s3.privs = s1.privs) (hnext : s3.nextPage = s1.nextPage) :
    InvG s3 := by
  have okp := inv.pages pg h hp
  have hL : ∀ b, s3.isLive b ↔ (b ≠ .sh pg h.scan ∧ s1.isLive b) := by
    intro b; simp only [State.isLive, hlive]; split
    · next e => simp [e]
    · next ne => simp [ne]
  refine ⟨?_, ?_, ?_, ?_⟩
  · intro q hq hqq
    rw [hpages] at hqq
    split at hqq
    · next e =>
      subst e; cases hqq
      have ev := okp.ev hev
      refine ⟨by rw [g1]; exact okp.cls_lt, by rw [g1, (hK _).1]; exact okp.in_plist,
        by rw [hnext]; exact okp.lt_next, by rw [g1, g3]; exact okp.brk_le, by rw [g4]; exact okp.fl_nodup,
        by rw [g4, g3]; exact okp.fl_lt, ?_, ?_⟩
      · intro he; rw [g2] at he; cases he
      · intro _
        refine ⟨by rw [g4]; exact ev.1, ?_⟩
        intro i hi; rw [g3] at hi
        rw [hL, ev.2 i hi, g6, g5]
        constructor
        · rintro ⟨a, b, c1⟩
          refine ⟨?_, c1⟩
          have : i ≠ h.scan := fun e => a (by rw [e])
          omega
        · rintro ⟨a, b⟩
          exact ⟨fun e => by cases e; omega, by omega, b⟩
    · next ne2 =>
      refine (inv.pages q hq hqq).transfer ?_ (by rw [hnext]; exact Nat.le_refl _) ?_
      · intro hx; rw [(hK _).1]; exact hx
      · intro j; rw [hL]
        constructor
        · exact fun x => x.2
        · intro x; exact ⟨fun y => by cases y; exact ne2 rfl, x⟩
  · intro c
    obtain ⟨k1, k2, k3, k4⟩ := hK c
    refine (inv.classes c).transfer' k1 k2 k3 k4 ?_ ?_
    · intro q h0 hq hc; rw [hpages]; split
      · next e => subst e; rw [hp] at hq; cases hq
                  exact ⟨h3, rfl, by rw [g1]; exact hc, by rw [g2, hev], g4, g3⟩
      · exact ⟨h0, hq, hc, rfl, rfl, rfl⟩
    · intro q h0 hq hc; rw [hpages] at hq; split at hq
      · next e => subst e; cases hq
                  exact ⟨h, hp, by rw [← g1]; exact hc, by rw [g2, hev], g4, g3⟩
      · exact ⟨h0, hq, hc, rfl, rfl, rfl⟩
  · intro b l hlb
    rw [hlive] at hlb
    split at hlb
    · cases hlb
    · next ne2 =>
      refine (inv.live b l hlb).transfer (by rw [hmem]) ?_ (fun _ _ => by rw [hprivs])
      intro q j _ h0 hq; rw [hpages]; split
      · next e => subst e; rw [hp] at hq; cases hq; exact ⟨h3, rfl, by rw [g3]; exact Nat.le_refl _, g1⟩
      · exact ⟨h0, hq, Nat.le_refl _, rfl⟩
  · intro id sz hid
    rw [hprivs] at hid
    have := inv.privs id sz hid
    refine ⟨by rw [hnext]; exact this.1, ?_⟩
    rw [hpages]; split
    · next e => subst e; rw [hp] at this; cases this.2
    · exact this.2

theorem evac_finish {s s3 : State V} (inv : InvG s) {c pg : Nat} {h : Page}
    (hp : s.pages.get? pg = some h) (hev : h.evac = true) (hsc : h.scan = h.brk) (hcl : h.cls = c)
    (hpages : ∀ q, s3.pages.get? q = if pg = q then none else s.pages.get? q)
    (hKc : (s3.K c).plist = (s.K c).plist.erase pg ∧ (s3.K c).pageCount = (s.K c).pageCount - 1 ∧
        (s3.K c).glist = (s.K c).glist ∧ (s3.K c).cur = if (s.K c).cur = some pg then none else (s.K c).cur)
    (hK : ∀ c', c ≠ c' → s3.K c' = s.K c')
    (hlive : s3.live = s.live) (hmem : s3.mem = s.mem) (hprivs : s3.privs = s.privs)
    (hnext : s3.nextPage = s.nextPage) : InvG s3 := by
  have okp := inv.pages pg h hp
  have okc := inv.classes c
  have ev := okp.ev hev
  have hL : ∀ b, s3.isLive b ↔ s.isLive b := by intro b; simp only [State.isLive, hlive]
  have nolive : ∀ i, ¬ s.isLive (.sh pg i) := by
    intro i hl
    have ib := live_lt_brk inv hp hl
    have := (ev.2 i ib).1 hl
    omega
  have pgin : pg ∈ (s.K c).plist := by rw [← hcl]; exact okp.in_plist
  obtain ⟨k1, k2, k3, k4⟩ := hKc
  refine ⟨?_, ?_, ?_, ?_⟩
  · intro q hq hqq
    rw [hpages] at hqq
    split at hqq
    · cases hqq
    · next ne2 =>
      refine (inv.pages q hq hqq).transfer ?_ (by rw [hnext]; exact Nat.le_refl _) (fun _ => hL _)
      intro hx
      by_cases e : c = hq.cls
      · rw [← e, k1]; rw [← e] at hx
        exact (okc.pl_nodup.mem_erase_iff).2 ⟨fun x => ne2 x.symm, hx⟩
      · rw [hK _ e]; exact hx
  · intro c'
    by_cases e : c = c'
    · subst e
      refine ⟨?_, ?_, ?_, ?_, ?_, ?_⟩
      · rw [k1]; exact okc.pl_nodup.erase pg
      · intro q hq; rw [k1, okc.pl_nodup.mem_erase_iff] at hq
        obtain ⟨h0, a, b⟩ := okc.pl_pages q hq.2
        rw [hpages, if_neg (fun x => hq.1 x.symm)]; exact ⟨h0, a, b⟩
      · rw [k1, k2, okc.count, List.length_erase_of_mem pgin]
      · rw [k3]; exact okc.gl_nodup
      · intro q j; rw [k3, okc.gl_iff, hpages]
        split
        · next e =>
          subst e
          constructor
          · rintro ⟨h0, a, _, c1, _⟩; rw [hp] at a; cases a; rw [hev] at c1; cases c1
          · rintro ⟨h0, a, _⟩; cases a
        · exact Iff.rfl
      · intro q hq; rw [k4] at hq
        split at hq
        · cases hq
        · next ncur =>
          obtain ⟨h0, a, b, c1, d⟩ := okc.cur_ok q hq
          rw [hpages]; split
          · next e => subst e; exact absurd hq ncur
          · exact ⟨h0, a, b, c1, d⟩
    · refine (inv.classes c').transfer (hK c' e) ?_
      intro q h0 h0c; rw [hpages]; split
      · next e2 =>
        subst e2
        constructor
        · intro x; cases x
        · intro x; rw [hp] at x; cases x; exact absurd (hcl.symm.trans h0c) e
      · exact Iff.rfl
  · intro b l hlb
    rw [hlive] at hlb
    have lb : s.isLive b := by simp [State.isLive, hlb]
    refine (inv.live b l hlb).transfer (by rw [hmem]) ?_ (fun _ _ => by rw [hprivs])
    intro q j e h0 hq; subst e
    rw [hpages]; split
    · next e => subst e; exact absurd lb (nolive j)
    · exact ⟨h0, hq, Nat.le_refl _, rfl⟩
  · intro id sz hid
    rw [hprivs] at hid
    have := inv.privs id sz hid
    refine ⟨by rw [hnext]; exact this.1, ?_⟩
    rw [hpages]; split
    · rfl
    · exact this.2

theorem endEvac_invG {s s' : State V} {c pg : Nat} (inv : InvG s) (hr : endEvac s c pg = .ok s') :
    InvG s' ∧ s'.live = s.live ∧ s'.allocs = s.allocs ∧ s'.relog = s.relog ∧ s'.mem = s.mem ∧
    (∀ q hq, s'.pages.get? q = some hq → q ≠ pg ∧ s.pages.get? q = some hq) := by
  unfold endEvac at hr
  cases hp : s.pages.get? pg with
  | none => simp [hp] at hr
  | some h =>
  simp only [hp] at hr
  split at hr
  · cases hr
  · next hcond =>
    simp only [Bool.or_eq_true, Bool.not_eq_true', decide_eq_true_eq, not_or, Decidable.not_not,
      Bool.not_eq_false, bne_iff_ne, ne_eq] at hcond
    obtain ⟨⟨hsc, hev⟩, hcl⟩ := hcond
    cases hr
    refine ⟨?_, rfl, rfl, rfl, rfl, ?_⟩
    · refine evac_finish inv hp hev hsc hcl (by intro q; simp only [KMap.get?_del]) ?_ ?_ rfl rfl rfl rfl
      · simp [State.K, KMap.get?_set]
      · intro c' e; simp only [State.K, KMap.get?_set, if_neg e]
    · intro q hq h1
      simp only [KMap.get?_del] at h1; split at h1
      · cases h1
      · next ne2 => exact ⟨fun e => ne2 e.symm, h1⟩


/-- What one iteration of the slot loop does (`moveNext`): the invariant is kept, the number of live
    allocations and `Allocs` are unchanged, no other page becomes evacuating, and either nothing was
    relocated (slot was on the saved free set) or exactly one live allocation `old` on the page moved
    to a slot `new` that was not live, with the same size and last-written value, `new`'s memory holding
    that value with a correct slice header, and `relocate(old,new)` logged once. -/
theorem moveNext_invG {s s' : State V} {c pg : Nat} (inv : InvG s) (hc : c < nClasses)
    (hcls : ∀ h, s.pages.get? pg = some h → h.evac = true → h.cls = c)
    (hr : moveNext s c pg = .ok s') :
    InvG s' ∧ s'.allocs = s.allocs ∧ s'.live.size = s.live.size ∧
    (∃ h h', s.pages.get? pg = some h ∧ s'.pages.get? pg = some h' ∧ h'.scan = h.scan + 1 ∧
        h'.brk = h.brk ∧ h'.evac = true ∧ h.evac = true ∧ h'.cls = h.cls ∧ h.scan < h.brk) ∧
    (∀ q hq, s'.pages.get? q = some hq → hq.evac = true → q = pg ∨ s.pages.get? q = some hq) ∧
    ((∀ q hq', s'.pages.get? q = some hq' →
        (∃ hq, s.pages.get? q = some hq ∧ hq.cls = hq'.cls ∧ hq.evac = hq'.evac) ∨
        (s.pages.get? q = none ∧ s.nextPage ≤ q ∧ hq'.evac = false ∧ hq'.cls = c)) ∧
      s.nextPage ≤ s'.nextPage ∧
      (∀ q, s.pages.get? q = none → q < s.nextPage → s'.pages.get? q = none) ∧
      (∀ o n, s'.relog = (o, n) :: s.relog →
        ∃ np ni h', n = .sh np ni ∧ s'.pages.get? np = some h' ∧ h'.evac = false ∧ h'.cls = c)) ∧
    ((s'.live = s.live ∧ s'.relog = s.relog ∧ s'.mem = s.mem) ∨
     (∃ i new l, s.live.get? (.sh pg i) = some l ∧ ¬ s.isLive new ∧
        s'.relog = (.sh pg i, new) :: s.relog ∧
        s'.live.get? new = some l ∧ s'.live.get? (.sh pg i) = none ∧
        (∀ b, b ≠ new → b ≠ .sh pg i → s'.live.get? b = s.live.get? b) ∧
        (∀ b, s.isLive b → s'.mem.get? b = s.mem.get? b))) := by
  unfold moveNext at hr
  cases hp : s.pages.get? pg with
  | none => simp [hp] at hr
  | some h =>
  simp only [hp] at hr
  split at hr
  · cases hr
  · next hcond =>
    simp only [Bool.or_eq_true, Bool.not_eq_true', decide_eq_true_eq, not_or, Bool.not_eq_false,
      Nat.not_le, ge_iff_le] at hcond
    obtain ⟨hev, hsc⟩ := hcond
    have okp := inv.pages pg h hp
    have ev := okp.ev hev
    split at hr
    · next hsaved =>
      -- slot is on the saved free set: only `scan` advances
      cases hr
      have hin : h.scan ∈ h.saved := by simpa using hsaved
      have nl : s.live.get? (.sh pg h.scan) = none := by
        have := (ev.2 h.scan hsc)
        cases hq : s.live.get? (.sh pg h.scan) with
        | none => rfl
        | some l => exact absurd ((this.1 (by simp [State.isLive, hq])).2) (fun x => x hin)
      have PF : (∀ q hq', (s.pages.set pg { h with scan := h.scan + 1 }).get? q = some hq' →
          (∃ hq, s.pages.get? q = some hq ∧ hq.cls = hq'.cls ∧ hq.evac = hq'.evac) ∨
          (s.pages.get? q = none ∧ s.nextPage ≤ q ∧ hq'.evac = false ∧ hq'.cls = c)) ∧
          s.nextPage ≤ s.nextPage ∧
          (∀ q, s.pages.get? q = none → q < s.nextPage → (s.pages.set pg { h with scan := h.scan + 1 }).get? q = none) ∧
          (∀ o n, s.relog = (o, n) :: s.relog →
            ∃ np ni h', n = .sh np ni ∧ (s.pages.set pg { h with scan := h.scan + 1 }).get? np = some h' ∧ h'.evac = false ∧ h'.cls = c) := by
        refine ⟨?_, Nat.le_refl _, ?_, ?_⟩
        · intro q hq' h1; simp only [KMap.get?_set] at h1; split at h1
          · next e => subst e; cases h1; exact Or.inl ⟨h, hp, rfl, rfl⟩
          · exact Or.inl ⟨hq', h1, rfl, rfl⟩
        · intro q h1 _; simp only [KMap.get?_set]; split
          · next e => subst e; rw [hp] at h1; cases h1
          · exact h1
        · intro o n e; exact absurd e.symm (List.cons_ne_self _ _)
      refine ⟨?_, rfl, rfl, ⟨h, { h with scan := h.scan + 1 }, rfl, by simp only [KMap.get?_set, if_true], rfl, rfl, hev, hev, rfl, hsc⟩,
        ?_, PF, Or.inl ⟨rfl, rfl, rfl⟩⟩
      · refine evac_advance inv hp hev hsc (h3 := { h with scan := h.scan + 1 }) rfl hev rfl rfl rfl rfl
          (by intro q; simp only [KMap.get?_set]) (fun c' => ⟨rfl, rfl, rfl, rfl⟩) ?_ rfl rfl rfl
        intro b; split
        · next e => subst e; exact nl
        · rfl
      · intro q hq h1 h2
        simp only [KMap.get?_set] at h1; split at h1
        · next e => exact Or.inl e.symm
        · exact Or.inr h1
    · next hsaved =>
      have hnin : h.scan ∉ h.saved := by simpa using hsaved
      have hlive : s.isLive (.sh pg h.scan) := (ev.2 h.scan hsc).2 ⟨Nat.le_refl _, hnin⟩
      cases hq : s.live.get? (.sh pg h.scan) with
      | none => simp [State.isLive, hq] at hlive
      | some l =>
      obtain ⟨m, hm, m1, m2, m3, m4, h0, g1, g2, g3⟩ := inv.live _ l hq
      rw [hp] at g1; cases g1
      simp only [hm, hq] at hr
      cases hal : allocLive s c m.len m.cap m.val with
      | error e => simp [hal] at hr
      | ok r =>
      obtain ⟨s1, new⟩ := r
      simp only [hal] at hr
      -- the class of the page must be the class asked for (beginEvac checked it); otherwise the slot
      -- sizes differ: we only need cap + hdr = slotSize c for allocLive_invG, so require it
      by_cases hcc : h.cls = c
      · have t := table_facts.2 c hc
        obtain ⟨i1, i2, i3, ⟨np, ni, hnew⟩, i5, i6, i7, i8, i9, i10, i11⟩ :=
          allocLive_invG inv hc t.1 (by rw [m2]; exact m4) (by rw [← hcc]; exact g3) hal
        have hp1 : s1.pages.get? pg = some h := i11.1 pg h hp hev
        simp only [hp1] at hr
        cases hr
        have hne : new ≠ .sh pg h.scan := fun e => i2 (by rw [e]; exact hlive)
        have l1new : s1.live.get? new = some ⟨m.len, m.val⟩ := by rw [i3, KMap.get?_set, if_pos rfl]
        have l1old : s1.live.get? (.sh pg h.scan) = some l := by
          rw [i3, KMap.get?_set, if_neg hne]; exact hq
        have hfs : ∀ (s2 : State V) (h2 : Page), h2.evac = true → freeSlot s2 pg h.scan h2 =
            { s2 with pages := s2.pages.set pg { h2 with used := h2.used - 1, free := h2.free + 1 },
                      cls := s2.cls.set h2.cls { s2.K h2.cls with freeSlots := (s2.K h2.cls).freeSlots + 1 } } := by
          intro s2 h2 e; simp only [freeSlot, e, if_true]
        rw [hfs _ _ (by exact hev)]
        obtain ⟨i11a, ⟨np', ni', hn', A1a, A1b, A1c, A1d⟩, A2, A3, A4⟩ := i11
        have PF : (∀ q hq', (s1.pages.set pg { h with scan := h.scan + 1, used := h.used - 1, free := h.free + 1 }).get? q = some hq' →
            (∃ hq, s.pages.get? q = some hq ∧ hq.cls = hq'.cls ∧ hq.evac = hq'.evac) ∨
            (s.pages.get? q = none ∧ s.nextPage ≤ q ∧ hq'.evac = false ∧ hq'.cls = c)) ∧
            s.nextPage ≤ s1.nextPage ∧
            (∀ q, s.pages.get? q = none → q < s.nextPage →
              (s1.pages.set pg { h with scan := h.scan + 1, used := h.used - 1, free := h.free + 1 }).get? q = none) ∧
            (∀ o n, (Addr.sh pg h.scan, new) :: s1.relog = (o, n) :: s.relog →
              ∃ np ni h', n = .sh np ni ∧
                (s1.pages.set pg { h with scan := h.scan + 1, used := h.used - 1, free := h.free + 1 }).get? np = some h' ∧
                h'.evac = false ∧ h'.cls = c) := by
          refine ⟨?_, A3, ?_, ?_⟩
          · intro q hq' h1; simp only [KMap.get?_set] at h1; split at h1
            · next e => subst e; cases h1; exact Or.inl ⟨h, hp, rfl, rfl⟩
            · rcases A2 q hq' h1 with ⟨hq, x1, x2, x3⟩ | ⟨x1, x2, x3, x4⟩
              · exact Or.inl ⟨hq, x1, x2, x3⟩
              · exact Or.inr ⟨x1, by omega, x3, x4⟩
          · intro q h1 h2; simp only [KMap.get?_set]; split
            · next e => subst e; rw [hp] at h1; cases h1
            · exact A4 q h1 (by omega)
          · intro o n e
            have e2 := (List.cons.inj e).1
            cases e2
            refine ⟨np', ni', hn', A1a, ?_, A1c, A1d⟩
            simp only [KMap.get?_set]; split
            · next e3 => subst e3; rw [hp1] at A1b; cases A1b; rw [hev] at A1c; cases A1c
            · exact A1b
        refine ⟨?_, by simp only [i5], ?_, ⟨h, { h with scan := h.scan + 1, used := h.used - 1, free := h.free + 1 }, rfl, by simp only [KMap.get?_set, if_true], rfl, rfl, hev, hev, rfl, hsc⟩, ?_, PF, Or.inr ?_⟩
        · refine evac_advance i1 hp1 hev hsc
            (h3 := { h with scan := h.scan + 1, used := h.used - 1, free := h.free + 1 }) rfl hev rfl rfl rfl rfl
            (by intro q; simp only [KMap.get?_set]) ?_ ?_ rfl rfl rfl
          · intro c'
            simp only [State.K, KMap.get?_set]
            split
            · next e => subst e; exact ⟨rfl, rfl, rfl, rfl⟩
            · exact ⟨rfl, rfl, rfl, rfl⟩
          · intro b
            simp only [KMap.get?_set, KMap.get?_del]
            split
            · next e =>
              subst e; rw [if_neg hne, l1new, m2, m3]
            · next ne1 =>
              split
              · next e => subst e; rw [if_pos rfl]
              · next ne2 => rw [if_neg (fun x => ne2 x.symm)]
        · show ((s1.live.del (.sh pg h.scan)).set new ⟨l.size, l.val⟩).size = s.live.size
          have e1 : ((s1.live.del (.sh pg h.scan)).get? new).isSome = true := by
            rw [KMap.get?_del, if_neg (fun x => hne x.symm), l1new]; rfl
          have e2 : (s1.live.get? (.sh pg h.scan)).isSome = true := by rw [l1old]; rfl
          have e3 : (s.live.get? new).isSome = false := by
            simp only [State.isLive] at i2; cases hx : (s.live.get? new).isSome <;> simp_all
          rw [KMap.size_set, e1]; simp only [if_true]
          rw [KMap.size_del, e2]; simp only [if_true]
          rw [i3, KMap.size_set, e3]; simp
        · intro q hq2 h1 h2
          simp only [KMap.get?_set] at h1; split at h1
          · next e => exact Or.inl e.symm
          · exact Or.inr (i10 q hq2 h1 h2)
        · refine ⟨h.scan, new, l, hq, i2, by simp only [i7], ?_, ?_, ?_, ?_⟩
          · simp only [KMap.get?_set, if_true]
          · simp only [KMap.get?_set, KMap.get?_del, if_neg hne, if_true]
          · intro b b1 b2
            have n1 : ¬ new = b := fun x => b1 x.symm
            have n2 : ¬ Addr.sh pg h.scan = b := fun x => b2 x.symm
            simp only [KMap.get?_set, KMap.get?_del, if_neg n1, if_neg n2]
            rw [i3, KMap.get?_set, if_neg n1]
          · intro b hb; exact i8 b hb
      · exact absurd (hcls h (by first | rfl | exact hp) hev) hcc


/-! ### loops -/

theorem foldE_inv {σ α : Type} (P : σ → List α → Prop) (f : σ → α → Except Err σ)
    (hstep : ∀ s a rest s', P s (a :: rest) → f s a = .ok s' → P s' rest) :
    ∀ (l : List α) (s s' : σ), P s l → foldE f s l = .ok s' → P s' [] := by
  intro l
  induction l with
  | nil => intro s s' hp h; simp only [foldE] at h; cases h; exact hp
  | cons a rest ih =>
    intro s s' hp h
    simp only [foldE] at h
    cases hf : f s a with
    | error e => simp [hf] at h
    | ok s1 => simp only [hf] at h; exact ih s1 s' (hstep s a rest s1 hp hf) h

theorem iter_inv {σ : Type} (P : σ → Prop) (f : σ → Except Err σ)
    (hstep : ∀ s s', P s → f s = .ok s' → P s') :
    ∀ (n : Nat) (s s' : σ), P s → iter f n s = .ok s' → P s' := by
  intro n
  induction n with
  | zero => intro s s' hp h; simp only [iter] at h; cases h; exact hp
  | succ n ih =>
    intro s s' hp h
    simp only [iter] at h
    cases hf : f s with
    | error e => simp [hf] at h
    | ok s1 => simp only [hf] at h; exact ih s1 s' (hstep s s1 hp hf) h

/-- invariant while class c is being defragmented: evacuating pages all belong to class c and to E -/
structure DInv (s : State V) (c : Nat) (E : List Nat) : Prop where
  g : InvG s
  allocs : s.allocs = s.live.size
  evac : ∀ q hq, s.pages.get? q = some hq → hq.evac = true → q ∈ E ∧ hq.cls = c

theorem evacPage_dinv {s s' : State V} {c pg : Nat} {rest : List Nat} (hc : c < nClasses)
    (d : DInv s c (pg :: rest)) (hr : evacPage s c pg = .ok s') : DInv s' c rest := by
  unfold evacPage at hr
  cases hp : s.pages.get? pg with
  | none => simp [hp] at hr
  | some h =>
  simp only [hp] at hr
  cases hi : iter (fun s => moveNext s c pg) h.brk s with
  | error e => simp [hi] at hr
  | ok s1 =>
  simp only [hi] at hr
  have d1 : DInv s1 c (pg :: rest) := by
    refine iter_inv (fun s => DInv s c (pg :: rest)) _ ?_ h.brk s s1 d hi
    intro t t' dt ht
    obtain ⟨j1, j2, j3, j4, j5, _⟩ := moveNext_invG dt.g hc (fun h0 a b => (dt.evac pg h0 a b).2) ht
    refine ⟨j1, by rw [j2, j3]; exact dt.allocs, ?_⟩
    intro q hq a b
    rcases j5 q hq a b with e | e
    · subst e
      obtain ⟨h0, h0', x1, x2, _, _, _, x6, x7, _⟩ := j4
      rw [a] at x2; cases x2
      exact ⟨by simp, by rw [x7]; exact (dt.evac q h0 x1 x6).2⟩
    · exact dt.evac q hq e b
  obtain ⟨k1, k2, k3, _, _, k6⟩ := endEvac_invG d1.g hr
  refine ⟨k1, by rw [k3, k2]; exact d1.allocs, ?_⟩
  intro q hq a b
  obtain ⟨ne, a'⟩ := k6 q hq a
  have := d1.evac q hq a' b
  refine ⟨?_, this.2⟩
  have hm := this.1
  simp only [List.mem_cons] at hm
  rcases hm with e | e
  · exact absurd e ne
  · exact e

theorem relogClear_inv {s : State V} (inv : Inv s) : Inv ({ s with relog := [] } : State V) :=
  ⟨⟨fun p h hp => (inv.g.pages p h hp).transfer (fun hx => hx) (Nat.le_refl _) (fun _ => Iff.rfl),
    fun c => (inv.g.classes c).transfer rfl (fun _ _ _ => Iff.rfl),
    fun b l hl => (inv.g.live b l hl).transfer rfl (fun p i _ h hp => ⟨h, hp, Nat.le_refl _, rfl⟩) (fun _ _ => rfl),
    inv.g.privs⟩, inv.allocs, inv.noEvac⟩

theorem defragClass_inv {s s' : State V} {c : Nat} {ev : List Nat} (hc : c < nClasses) (inv : Inv s)
    (hr : defragClass s c ev = .ok s') : Inv s' := by
  unfold defragClass at hr
  simp only [] at hr
  split at hr
  · split at hr
    · cases hr; exact inv
    · cases hr
  · split at hr
    · split at hr
      · cases hr; exact inv
      · cases hr
    · split at hr
      · cases hr
      · cases h1 : foldE (fun s pg => beginEvac s c pg) s ev with
        | error e => simp [h1] at hr
        | ok s1 =>
          simp only [h1] at hr
          -- phase 1: mark the pages
          have p1 : DInv s1 c ev := by
            have := foldE_inv (fun (t : State V) (l : List Nat) => (∀ x, x ∈ l → x ∈ ev) ∧ DInv t c ev)
              (fun s pg => beginEvac s c pg) ?_ ev s s1
              ⟨fun _ hx => hx, ⟨inv.g, inv.allocs, fun q hq a b => by rw [inv.noEvac q hq a] at b; cases b⟩⟩ h1
            exact this.2
            intro t pg rest t' ⟨hsub, dt⟩ ht
            obtain ⟨j1, j2, j3, _, j5, _⟩ := beginEvac_invG dt.g ht
            refine ⟨fun x hx => hsub x (List.mem_cons_of_mem _ hx), j1, by rw [j3, j2]; exact dt.allocs, ?_⟩
            intro q hq a b
            rcases j5 q hq a b with ⟨e1, e2⟩ | e
            · exact ⟨by rw [e1]; exact hsub pg (by simp), e2⟩
            · exact dt.evac q hq e b
          -- phase 2: evacuate and unmap them
          have p2 := foldE_inv (fun (t : State V) (l : List Nat) => DInv t c l)
            (fun s pg => evacPage s c pg) (fun t pg rest t' dt ht => evacPage_dinv hc dt ht) ev s1 s' p1 hr
          refine ⟨p2.g, p2.allocs, ?_⟩
          intro q hq a
          cases he : hq.evac with
          | false => rfl
          | true => have := (p2.evac q hq a he).1; simp at this

theorem defragAll_inv {s s' : State V} {ch : List (Nat × List Nat)} (inv : Inv s)
    (hr : defragAll s ch = .ok s') : Inv s' := by
  unfold defragAll at hr
  have := foldE_inv (fun (t : State V) (l : List Nat) => (∀ x, x ∈ l → x < nClasses) ∧ Inv t) _ ?_
    (List.range nClasses) _ s' ⟨fun x hx => List.mem_range.1 hx, relogClear_inv inv⟩ hr
  exact this.2
  intro t c rest t' ⟨hsub, it⟩ ht
  refine ⟨fun x hx => hsub x (List.mem_cons_of_mem _ hx), ?_⟩
  split at ht
  · exact defragClass_inv (hsub c (by simp)) it ht
  · split at ht
    · cases ht; exact it
    · cases ht


/-! ### what a whole pass does to the live allocations -/

/-- `Chain r a b`: b is reached from a by following logged relocations (old,new) ∈ r -/
inductive Chain (r : List (Addr × Addr)) : Addr → Addr → Prop where
  | refl (a : Addr) : Chain r a a
  | step {a b c : Addr} : (a, b) ∈ r → Chain r b c → Chain r a c

theorem Chain.mono {r r' : List (Addr × Addr)} (h : ∀ x, x ∈ r → x ∈ r') {a b : Addr}
    (c : Chain r a b) : Chain r' a b := by
  induction c with
  | refl a => exact .refl a
  | step m _ ih => exact .step (h _ m) ih

theorem Chain.snoc {r : List (Addr × Addr)} {a b c : Addr} (h : Chain r a b) (m : (b, c) ∈ r) :
    Chain r a c := by
  induction h with
  | refl a => exact .step m (.refl _)
  | step m' _ ih => exact .step m' (ih m)

/-- every allocation live in s0 is live in t with the same record, at an address reached through the
    relocation log of t -/
def Moved (s0 t : State V) : Prop :=
  ∀ a l, s0.live.get? a = some l → ∃ a', t.live.get? a' = some l ∧ Chain t.relog a a'

theorem Moved.same {s0 t t' : State V} (m : Moved s0 t) (hl : t'.live = t.live) (hr : t'.relog = t.relog) :
    Moved s0 t' := by
  intro a l h; obtain ⟨a', x, y⟩ := m a l h; exact ⟨a', by rw [hl]; exact x, by rw [hr]; exact y⟩

theorem moveNext_moved {s0 t t' : State V} {c pg : Nat} (inv : InvG t) (hc : c < nClasses)
    (hcls : ∀ h, t.pages.get? pg = some h → h.evac = true → h.cls = c)
    (hr : moveNext t c pg = .ok t') (m : Moved s0 t) : Moved s0 t' := by
  obtain ⟨_, _, _, _, _, _, f⟩ := moveNext_invG inv hc hcls hr
  rcases f with ⟨f1, f2, _⟩ | ⟨i, new, lo, f1, f2, f3, f4, f5, f6, _⟩
  · exact m.same f1 f2
  · intro a l h
    obtain ⟨a', x, y⟩ := m a l h
    have mono : ∀ z, z ∈ t.relog → z ∈ t'.relog := by intro z hz; rw [f3]; exact List.mem_cons_of_mem _ hz
    by_cases e : a' = .sh pg i
    · subst e
      rw [f1] at x; cases x
      exact ⟨new, f4, (y.mono mono).snoc (by rw [f3]; simp)⟩
    · have : a' ≠ new := by
        intro e2; subst e2; exact f2 (by simp [State.isLive, x])
      exact ⟨a', by rw [f6 a' this e]; exact x, y.mono mono⟩

theorem moveNext_dinv {t t' : State V} {c pg : Nat} {E : List Nat} (hc : c < nClasses)
    (dt : DInv t c E) (ht : moveNext t c pg = .ok t') : DInv t' c E := by
  obtain ⟨j1, j2, j3, j4, j5, _⟩ := moveNext_invG dt.g hc (fun h0 a b => (dt.evac pg h0 a b).2) ht
  refine ⟨j1, by rw [j2, j3]; exact dt.allocs, ?_⟩
  intro q hq a b
  rcases j5 q hq a b with e | e
  · subst e
    obtain ⟨h0, h0', x1, x2, _, _, _, x6, x7, _⟩ := j4
    rw [a] at x2; cases x2
    have := dt.evac q h0 x1 x6
    exact ⟨this.1, by rw [x7]; exact this.2⟩
  · exact dt.evac q hq e b

theorem evacPage_moved {s0 s s' : State V} {c pg : Nat} {E : List Nat} (hc : c < nClasses)
    (d : DInv s c E) (m : Moved s0 s) (hr : evacPage s c pg = .ok s') : Moved s0 s' := by
  unfold evacPage at hr
  cases hp : s.pages.get? pg with
  | none => simp [hp] at hr
  | some h =>
  simp only [hp] at hr
  cases hi : iter (fun s => moveNext s c pg) h.brk s with
  | error e => simp [hi] at hr
  | ok s1 =>
  simp only [hi] at hr
  have d1 : DInv s1 c E ∧ Moved s0 s1 := by
    refine iter_inv (fun s => DInv s c E ∧ Moved s0 s) _ ?_ h.brk s s1 ⟨d, m⟩ hi
    intro t t' ⟨dt, mt⟩ ht
    exact ⟨moveNext_dinv hc dt ht, moveNext_moved dt.g hc (fun h0 a b => (dt.evac pg h0 a b).2) ht mt⟩
  obtain ⟨_, k2, _, k4, _⟩ := endEvac_invG d1.1.g hr
  exact d1.2.same k2 k4

theorem defragClass_moved {s0 s s' : State V} {c : Nat} {ev : List Nat} (hc : c < nClasses) (inv : Inv s)
    (m : Moved s0 s) (hr : defragClass s c ev = .ok s') : Moved s0 s' := by
  unfold defragClass at hr
  simp only [] at hr
  split at hr
  · split at hr
    · cases hr; exact m
    · cases hr
  · split at hr
    · split at hr
      · cases hr; exact m
      · cases hr
    · split at hr
      · cases hr
      · cases h1 : foldE (fun s pg => beginEvac s c pg) s ev with
        | error e => simp [h1] at hr
        | ok s1 =>
          simp only [h1] at hr
          have p1 : DInv s1 c ev ∧ Moved s0 s1 := by
            have := foldE_inv (fun (t : State V) (l : List Nat) => (∀ x, x ∈ l → x ∈ ev) ∧ DInv t c ev ∧ Moved s0 t)
              (fun s pg => beginEvac s c pg) ?_ ev s s1
              ⟨fun _ hx => hx, ⟨inv.g, inv.allocs, fun q hq a b => by rw [inv.noEvac q hq a] at b; cases b⟩, m⟩ h1
            exact this.2
            intro t pg rest t' ⟨hsub, dt, mt⟩ ht
            obtain ⟨j1, j2, j3, j4, j5, _⟩ := beginEvac_invG dt.g ht
            refine ⟨fun x hx => hsub x (List.mem_cons_of_mem _ hx), ⟨j1, by rw [j3, j2]; exact dt.allocs, ?_⟩, mt.same j2 j4⟩
            intro q hq a b
            rcases j5 q hq a b with ⟨e1, e2⟩ | e
            · exact ⟨by rw [e1]; exact hsub pg (by simp), e2⟩
            · exact dt.evac q hq e b
          have p2 := foldE_inv (fun (t : State V) (l : List Nat) => DInv t c l ∧ Moved s0 t)
            (fun s pg => evacPage s c pg)
            (fun t pg rest t' ⟨dt, mt⟩ ht => ⟨evacPage_dinv hc dt ht, evacPage_moved hc dt mt ht⟩) ev s1 s' p1 hr
          exact p2.2

theorem defragAll_moved {s s' : State V} {ch : List (Nat × List Nat)} (inv : Inv s)
    (hr : defragAll s ch = .ok s') : Moved s s' := by
  unfold defragAll at hr
  have m0 : Moved s ({ s with relog := [] } : State V) := fun a l h => ⟨a, h, .refl a⟩
  have := foldE_inv (fun (t : State V) (l : List Nat) => (∀ x, x ∈ l → x < nClasses) ∧ Inv t ∧ Moved s t) _ ?_
    (List.range nClasses) _ s' ⟨fun x hx => List.mem_range.1 hx, relogClear_inv inv, m0⟩ hr
  exact this.2.2
  intro t c rest t' ⟨hsub, it, mt⟩ ht
  refine ⟨fun x hx => hsub x (List.mem_cons_of_mem _ hx), ?_⟩
  split at ht
  · exact ⟨defragClass_inv (hsub c (by simp)) it ht, defragClass_moved (hsub c (by simp)) it mt ht⟩
  · split at ht
    · cases ht; exact ⟨it, mt⟩
    · cases ht

end GocoinV.Alloc
