/-
  Proofs.C12Env — the pool-side functions of Model/Mempool.lean never touch the chain side (confirmed set, undo
  stack) and never clear the sticky `panicked` flag (helper lemmas for Props/C12).  Core Lean only.
-/
import GocoinV.Proofs.C12Inv
namespace GocoinV.Mempool

/-- `s'` has the chain side of `s`, and is panicked if `s` was -/
structure Env (s s' : State) : Prop where
  utxo : s'.utxo = s.utxo
  undo : s'.undo = s.undo
  sticky : s.panicked = true → s'.panicked = true

theorem Env.refl (s : State) : Env s s := ⟨rfl, rfl, id⟩

theorem Env.trans {a b c : State} (h1 : Env a b) (h2 : Env b c) : Env a c :=
  ⟨h2.utxo.trans h1.utxo, h2.undo.trans h1.undo, fun h => h2.sticky (h1.sticky h)⟩

theorem foldl_env {α : Type} (f : State → α → State) (hf : ∀ s a, Env s (f s a)) :
    ∀ (l : List α) (s : State), Env s (l.foldl f s) := by
  intro l
  induction l with
  | nil => intro s; exact Env.refl s
  | cons a r ih => intro s; exact (hf s a).trans (ih _)

theorem rejDelete_env (K : Keys) (s : State) (r : Rej) : Env s (rejDelete K s r) := by
  unfold rejDelete
  cases r.tx <;> exact ⟨rfl, rfl, id⟩

theorem rejDeleteByIdx_env (K : Keys) (s : State) (b : Nat) : Env s (rejDeleteByIdx K s b) := by
  unfold rejDeleteByIdx
  split
  · exact rejDelete_env K s _
  · exact Env.refl s

theorem rejEvictOldest_env (K : Keys) (s : State) : Env s (rejEvictOldest K s) := by
  unfold rejEvictOldest
  split
  · split
    · split
      · exact rejDelete_env K s _
      · exact ⟨rfl, rfl, fun _ => rfl⟩
    · exact ⟨rfl, rfl, id⟩
  · exact Env.refl s

theorem rejAddRefs_env (K : Keys) (s : State) (r : Rej) : Env s (rejAddRefs K s r) := by
  unfold rejAddRefs
  cases r.tx with
  | none => exact Env.refl s
  | some t => exact ⟨rfl, rfl, id⟩

theorem rejAdd_env (K : Keys) (s : State) (r : Rej) : Env s (rejAdd K s r) := by
  unfold rejAdd
  have h0 : Env s { s with ring := s.ring ++ [some (K.bidx r.id)], rej := s.rej.set (K.bidx r.id) r } :=
    ⟨rfl, rfl, id⟩
  exact (h0.trans (rejEvictOldest_env K _)).trans (rejAddRefs_env K _ r)

theorem rejectTx_env (K : Keys) (s : State) (t : Tx) (why : Nat) (m : Option TxId) :
    Env s (rejectTx K s t why m) := rejAdd_env K s _

theorem addToSort_env (K : Keys) (s : State) (b : Nat) (t : T2S) : Env s (addToSort K s b t) :=
  have h := addToSort_sortOnly K s b t
  ⟨h.utxo, h.undo, h.sticky⟩

theorem delFromSort_env (s : State) (b : Nat) : Env s (delFromSort s b) := by
  unfold delFromSort
  split
  · exact Env.refl s
  · split <;> exact ⟨rfl, rfl, id⟩

theorem addT2S_env (K : Keys) (s : State) (t : T2S) : Env s (addT2S K s t) := by
  unfold addT2S
  exact Env.trans (b := { s with
      spent := t.tx.ins.foldl (fun (m : AList Nat Nat) i => m.set (K.uidx i.prev i.vout) (K.bidx t.tx.id)) s.spent,
      pool := s.pool.set (K.bidx t.tx.id) t, weightTotal := s.weightTotal + t.tx.weight }) ⟨rfl, rfl, id⟩
    (addToSort_env K _ _ t)

theorem delOne_env (K : Keys) (s : State) (t : T2S) (reason : Nat) : Env s (delOne K s t reason) := by
  unfold delOne
  simp only
  generalize hs1 : ({ s with spent := t.tx.ins.foldl (fun (m : AList Nat Nat) i => m.del (K.uidx i.prev i.vout)) s.spent,
                             pool := s.pool.del (K.bidx t.tx.id) } : State) = s1
  have e1 : Env s s1 := by rw [← hs1]; exact ⟨rfl, rfl, id⟩
  have e2 := delFromSort_env s1 (K.bidx t.tx.id)
  have e3 : Env (delFromSort s1 (K.bidx t.tx.id))
      { delFromSort s1 (K.bidx t.tx.id) with weightTotal := (delFromSort s1 (K.bidx t.tx.id)).weightTotal - t.tx.weight } :=
    ⟨rfl, rfl, id⟩
  split
  · exact ((e1.trans e2).trans e3).trans (rejectTx_env K _ _ _ _)
  · exact (e1.trans e2).trans e3

theorem delWithChildren_env (K : Keys) (reason : Nat) : ∀ (fuel : Nat) (s : State) (t : T2S),
    Env s (delWithChildren K reason fuel s t) := by
  intro fuel
  induction fuel with
  | zero => intro s t; exact ⟨rfl, rfl, fun _ => rfl⟩
  | succ n ih =>
    intro s t
    unfold delWithChildren
    dsimp only
    refine Env.trans (foldl_env _ ?_ _ s) (delOne_env K _ t reason)
    intro s v
    split
    · exact Env.refl s
    · split
      · exact Env.refl s
      · exact ih _ _

theorem delKeys_env (K : Keys) (reason : Nat) (s : State) (l : List Nat) : Env s (delKeys K reason s l) := by
  unfold delKeys
  apply foldl_env
  intro s b
  split
  · exact delOne_env K s _ reason
  · exact Env.refl s

theorem deleteRbf_env (K : Keys) (s : State) (rbf : List Nat) : Env s (deleteRbf K s rbf) :=
  delKeys_env K R_REPLACED s rbf.reverse

theorem processTx_env (K : Keys) (mf : Nat) (s : State) (t : Tx) (fl : Flags) : Env s (processTx K mf s t fl).2 := by
  have fr : ∀ (c why : Nat) m, Env s (c, rejectTx K s t why m).2 := fun _ why m => rejectTx_env K s t why m
  unfold processTx
  split
  · exact fr _ _ _
  · split
    · exact fr _ _ _
    · split
      · dsimp only
        split
        · exact fr 0 _ _
        · split
          · exact ⟨rfl, rfl, fun _ => rfl⟩
          · exact Env.refl s
      · dsimp only
        split
        · exact fr _ _ _
        · split
          · exact fr _ _ _
          · split
            · exact Env.refl s
            · split
              · exact fr _ _ _
              · split
                · exact Env.refl s
                · exact (deleteRbf_env K s _).trans (addT2S_env K _ _)

theorem txAcceptedAux_env (K : Keys) (mf : Nat) : ∀ (fuel : Nat) (s : State) (recs : List Nat) (d : Nat),
    Env s (txAcceptedAux K mf fuel s recs d) := by
  intro fuel
  induction fuel with
  | zero => intro s recs d; exact ⟨rfl, rfl, fun _ => rfl⟩
  | succ n ih =>
    intro s recs d
    unfold txAcceptedAux
    split
    · exact Env.refl s
    · split
      · exact ih _ _ _
      · split
        · exact ⟨rfl, rfl, fun _ => rfl⟩
        · split
          · exact ⟨rfl, rfl, fun _ => rfl⟩
          · rename_i txr _
            have h1 := rejDelete_env K s txr
            dsimp only
            split
            · exact h1.trans ⟨rfl, rfl, fun _ => rfl⟩
            · rename_i t _
              have h2 := h1.trans (processTx_env K mf _ t {})
              refine Env.trans ?_ (ih _ _ _)
              split
              · split
                · split
                  · exact h2.trans ((rejDeleteByIdx_env K _ _).trans (rejectTx_env K _ t _ _))
                  · exact h2
                · exact h2
              · exact h2

theorem txAccepted_env (K : Keys) (mf : Nat) (s : State) (b : Nat) : Env s (txAccepted K mf s b) :=
  txAcceptedAux_env K mf _ s _ _

theorem submitNet_env (K : Keys) (mf : Nat) (s : State) (t : Tx) (tr : Bool) : Env s (submitNet K mf s t tr).2 := by
  unfold submitNet
  dsimp only
  split
  · exact Env.refl s
  · have h2 := processTx_env K mf s t { trusted := tr }
    split
    · exact h2.trans (txAccepted_env K mf _ _)
    · exact h2

theorem markLocal_env (K : Keys) (s : State) (id : TxId) : Env s (markLocal K s id) := by
  unfold markLocal
  split
  · exact ⟨rfl, rfl, fun h => h⟩
  · exact Env.refl s

theorem submitLocal_env (K : Keys) (mf : Nat) (s : State) (t : Tx) : Env s (submitLocal K mf s t).2 := by
  unfold submitLocal
  dsimp only
  have h1 := rejDeleteByIdx_env K s (K.bidx t.id)
  split
  · exact h1.trans (markLocal_env K _ _)
  · have h2 := h1.trans (processTx_env K mf _ t { trusted := true, loc := true })
    split
    · exact h2.trans (txAccepted_env K mf _ _)
    · exact h2

theorem minedFlags_env (K : Keys) (s : State) (t : T2S) : Env s (minedFlags K s t) := by
  unfold minedFlags
  apply foldl_env
  intro s v
  dsimp only
  repeat' split
  all_goals first
    | exact Env.refl s
    | exact ⟨rfl, rfl, fun _ => rfl⟩
    | exact ⟨rfl, rfl, id⟩

theorem unminedFlags_env (K : Keys) (s : State) (t : T2S) : Env s (unminedFlags K s t) := by
  unfold unminedFlags
  apply foldl_env
  intro s v
  dsimp only
  repeat' split
  all_goals first
    | exact Env.refl s
    | exact ⟨rfl, rfl, fun _ => rfl⟩
    | exact ⟨rfl, rfl, id⟩

theorem foldl_pair_env {α : Type} (f : Bool × State → α → Bool × State)
    (hf : ∀ acc a, Env acc.2 (f acc a).2) : ∀ (l : List α) (acc : Bool × State), Env acc.2 (l.foldl f acc).2 := by
  intro l
  induction l with
  | nil => intro acc; exact Env.refl _
  | cons a r ih => intro acc; exact (hf acc a).trans (ih _)

theorem txMinedStep_env (K : Keys) (b : Nat) (wasIn : Bool) (acc : Bool × State) (i : TxIn) :
    Env acc.2 (txMinedStep K b wasIn acc i).2 := by
  unfold txMinedStep
  dsimp only
  have h1 : Env acc.2 (if wasIn then acc.2 else
      match acc.2.spent.get? (K.uidx i.prev i.vout) with
      | none => acc.2
      | some val => match acc.2.pool.get? val with
        | some r => delWithChildren K 0 (acc.2.pool.length + 1) acc.2 r
        | none => { acc.2 with spent := acc.2.spent.del (K.uidx i.prev i.vout) }) := by
    split
    · exact Env.refl _
    · split
      · exact Env.refl _
      · split
        · exact delWithChildren_env K 0 _ _ _
        · exact ⟨rfl, rfl, id⟩
  generalize (if wasIn then acc.2 else
      match acc.2.spent.get? (K.uidx i.prev i.vout) with
      | none => acc.2
      | some val => match acc.2.pool.get? val with
        | some r => delWithChildren K 0 (acc.2.pool.length + 1) acc.2 r
        | none => { acc.2 with spent := acc.2.spent.del (K.uidx i.prev i.vout) }) = s1 at h1 ⊢
  split
  · exact h1
  · rename_i lst _
    have h2 := foldl_pair_env (fun (acc : Bool × State) rb =>
      match acc.2.rej.get? rb with
      | some txr => (acc.1 || rb = b, rejDelete K acc.2 txr)
      | none => (acc.1, acc.2)) (by
        intro a rb
        split
        · exact rejDelete_env K _ _
        · exact Env.refl _) lst (acc.1, s1)
    exact (h1.trans h2).trans ⟨rfl, rfl, id⟩

theorem txMined_env_aux (K : Keys) (s : State) (t : Tx) (p : Bool × State) (hp : Env s p.2) :
    Env s (if (t.ins.foldl (txMinedStep K (K.bidx t.id) p.1) (false, p.2)).1 || p.1
      then (t.ins.foldl (txMinedStep K (K.bidx t.id) p.1) (false, p.2)).2
      else rejDeleteByIdx K (t.ins.foldl (txMinedStep K (K.bidx t.id) p.1) (false, p.2)).2 (K.bidx t.id)) := by
  have hq := foldl_pair_env (txMinedStep K (K.bidx t.id) p.1)
    (fun acc i => txMinedStep_env K _ _ acc i) t.ins (false, p.2)
  split
  · exact hp.trans hq
  · exact (hp.trans hq).trans (rejDeleteByIdx_env K _ _)

theorem txMined_env (K : Keys) (s : State) (t : Tx) : Env s (txMined K s t) := by
  rw [txMined_eq]
  unfold txMined'
  apply txMined_env_aux
  split
  · exact (minedFlags_env K s _).trans (delOne_env K _ _ 0)
  · exact Env.refl s

theorem expire_env (K : Keys) (s : State) (old : List Nat) : Env s (expire K s old) := by
  unfold expire
  apply foldl_env
  intro s b
  split
  · exact delWithChildren_env K 0 _ _ _
  · exact Env.refl s

theorem evict_env (K : Keys) : ∀ (l : List Nat) (s s' : State), evict K s l = some s' → Env s s' := by
  intro l
  induction l with
  | nil => intro s s' he; simp [evict] at he; rw [← he]; exact Env.refl s
  | cons b r ih =>
    intro s s' he
    simp only [evict, List.foldlM_cons] at he
    cases hb : s.pool.get? b with
    | none => simp [hb] at he
    | some t =>
      simp only [hb] at he
      by_cases hc : hasNoChildren K s t = true
      · simp only [hc, if_true, Option.bind_eq_bind, Option.bind_some] at he
        exact (delOne_env K s t 0).trans (ih _ s' he)
      · simp [hc] at he

theorem reload_env (K : Keys) (s : State) : Env s (reload K s) := by
  rw [reload_eq]
  refine Env.trans (b := reloadBase K s) ⟨rfl, rfl, id⟩ (foldl_env _ ?_ _ _)
  intro st slot
  unfold reloadRej
  split
  · exact Env.refl st
  · split
    · exact Env.refl st
    · exact rejAdd_env K st _

theorem buildSorted_env (K : Keys) (s : State) : Env s (buildSorted K s) := by
  unfold buildSorted
  split
  · exact ⟨rfl, rfl, id⟩
  · exact Env.refl s

theorem blockMined_env (K : Keys) (mf : Nat) (s : State) (txs : List Tx) : Env s (blockMined K mf s txs) := by
  unfold blockMined
  split
  · exact Env.refl s
  · dsimp only
    exact (foldl_env _ (fun s t => txMined_env K s t) _ s).trans
      (foldl_env _ (fun s t => txAccepted_env K mf s _) _ _)

/-- one iteration of BlockUndone, named -/
def undoneStep (K : Keys) (mf : Nat) (s : State) (t : Tx) : State :=
  let s := rejDeleteByIdx K s (K.bidx t.id)
  let (res, s) := processTx K mf s t { trusted := true, unmined := true }
  if res = 0 then
    match s.pool.get? (K.bidx t.id) with
    | some r => unminedFlags K s r
    | none => { s with panicked := true }
  else { s with panicked := true }

theorem blockUndone_eq (K : Keys) (mf : Nat) (s : State) (txs : List Tx) :
    blockUndone K mf s txs = if txs.isEmpty then s else txs.foldl (undoneStep K mf) s := rfl

theorem undoneStep_env (K : Keys) (mf : Nat) (s : State) (t : Tx) : Env s (undoneStep K mf s t) := by
  unfold undoneStep
  dsimp only
  have h2 := (rejDeleteByIdx_env K s (K.bidx t.id)).trans
    (processTx_env K mf _ t { trusted := true, unmined := true })
  split
  · split
    · exact h2.trans (unminedFlags_env K _ _)
    · exact h2.trans ⟨rfl, rfl, fun _ => rfl⟩
  · exact h2.trans ⟨rfl, rfl, fun _ => rfl⟩

theorem blockUndone_env (K : Keys) (mf : Nat) (s : State) (txs : List Tx) : Env s (blockUndone K mf s txs) := by
  rw [blockUndone_eq]
  split
  · exact Env.refl s
  · exact foldl_env _ (undoneStep_env K mf) _ s

theorem blockUndoneAt_env (K : Keys) (mf : Nat) (s : State) (uh : Nat) (txs : List Tx) :
    Env s (blockUndoneAt K mf s uh txs) :=
  (blockUndone_env K mf s txs).trans (expire_env K _ _)

end GocoinV.Mempool
