/-
  Proofs.C12SortIns — AddToSort keeps the invariant of the non-dirty sorted list: the SortRank arithmetic of
  fixIndex / reindexDown / reindexEverything keeps the ranks strictly increasing, findWorstParent (largest SortRank)
  therefore finds the LAST flagged parent on the list, and insertDownFromHere puts the new record below it.
  Core Lean only.
-/
import GocoinV.Proofs.C12SortDef
namespace GocoinV.Mempool

/-- rank lookup in a rank table -/
def G (rk : AList Nat Nat) (x : Nat) : Nat := (rk.get? x).getD 0

theorem rankOf_eq (s : State) : rankOf s = G s.ranks := rfl

theorem U64_pos : 0 < U64 := Nat.two_pow_pos 64

theorem G_set_self (rk : AList Nat Nat) (b r : Nat) : G (rk.set b r) b = r := by
  unfold G; rw [AList.get?_set_self]; rfl

theorem G_set_other (rk : AList Nat Nat) (b r x : Nat) (h : x ≠ b) : G (rk.set b r) x = G rk x := by
  unfold G; rw [AList.get?_set_other _ _ _ _ h]

theorem G_del_self (rk : AList Nat Nat) (b : Nat) : G (rk.del b) b = 0 := by
  unfold G; rw [AList.get?_del_self]; rfl

theorem G_del_other (rk : AList Nat Nat) (b x : Nat) (h : x ≠ b) : G (rk.del b) x = G rk x := by
  unfold G; rw [AList.get?_del_other _ _ _ h]

theorem map_G_set (rk : AList Nat Nat) (b r : Nat) : ∀ (l : List Nat), b ∉ l → l.map (G (rk.set b r)) = l.map (G rk) := by
  intro l
  induction l with
  | nil => intro _; rfl
  | cons x t ih =>
    intro h
    simp only [List.mem_cons, not_or] at h
    simp only [List.map_cons]
    rw [G_set_other _ _ _ _ (fun e => h.1 e.symm), ih h.2]

theorem map_G_del (rk : AList Nat Nat) (b : Nat) : ∀ (l : List Nat), b ∉ l → l.map (G (rk.del b)) = l.map (G rk) := by
  intro l
  induction l with
  | nil => intro _; rfl
  | cons x t ih =>
    intro h
    simp only [List.mem_cons, not_or] at h
    simp only [List.map_cons]
    rw [G_del_other _ _ _ (fun e => h.1 e.symm), ih h.2]

/-! ### rankFrom (buildSortedList, reindexEverything) -/

theorem G_rankFrom_notin (step : Nat) : ∀ (l : List Nat) (r x : Nat), x ∉ l → G (rankFrom step r l) x = 0 := by
  intro l
  induction l with
  | nil => intro r x _; rfl
  | cons b t ih =>
    intro r x h
    simp only [List.mem_cons, not_or] at h
    unfold G rankFrom AList.get?
    rw [if_neg (fun e => h.1 e.symm)]
    exact ih (r + step) x h.2

/-- the ranks of `rankFrom` along a duplicate-free list: r, r+step, … (strictly increasing, in range) -/
theorem rankFrom_asc (step : Nat) (hs : 1 ≤ step) : ∀ (l : List Nat) (r : Nat), l.Nodup → r + l.length * step < U64 + step →
    (l.map (G (rankFrom step r l))).Pairwise (· < ·) ∧
    ∀ x ∈ l, r ≤ G (rankFrom step r l) x ∧ G (rankFrom step r l) x < U64 := by
  intro l
  induction l with
  | nil => intro r _ _; exact ⟨List.Pairwise.nil, by simp⟩
  | cons b t ih =>
    intro r hn hb
    obtain ⟨hbt, hnt⟩ := List.nodup_cons.mp hn
    simp only [List.length_cons] at hb
    have hb' : r + step + t.length * step < U64 + step := by
      have : (t.length + 1) * step = t.length * step + step := Nat.succ_mul _ _
      omega
    have hr : r < U64 := by
      have : (t.length + 1) * step = t.length * step + step := Nat.succ_mul _ _
      omega
    obtain ⟨i1, i2⟩ := ih (r + step) hnt hb'
    have hhead : G (rankFrom step r (b :: t)) b = r := by
      unfold G rankFrom AList.get?
      rw [if_pos rfl]
      show r % U64 = r
      exact Nat.mod_eq_of_lt hr
    have htail : ∀ x ∈ t, G (rankFrom step r (b :: t)) x = G (rankFrom step (r + step) t) x := by
      intro x hx
      have hne : b ≠ x := fun e => hbt (e ▸ hx)
      unfold G
      conv => lhs; unfold rankFrom AList.get?
      rw [if_neg hne]
    have hmap : t.map (G (rankFrom step r (b :: t))) = t.map (G (rankFrom step (r + step) t)) :=
      List.map_congr_left htail
    refine ⟨?_, ?_⟩
    · simp only [List.map_cons]
      rw [hhead, hmap]
      refine List.Pairwise.cons ?_ i1
      intro y hy
      obtain ⟨x, hx, rfl⟩ := List.mem_map.mp hy
      have := (i2 x hx).1
      omega
    · intro x hx
      rcases List.mem_cons.mp hx with rfl | hx
      · rw [hhead]; exact ⟨Nat.le_refl _, hr⟩
      · rw [htail x hx]
        have := i2 x hx
        exact ⟨by omega, this.2⟩

theorem rankRoom_spec (step len : Nat) (h : rankRoom step len = true) : 1 ≤ step ∧ SORT_START + len * step < U64 := by
  unfold rankRoom at h
  simpa using h

/-! ### reindexDown -/

theorem reindexWalk_spec (st : Nat) (hst : 1 ≤ st) : ∀ (l : List Nat) (index : Nat) (rk rk' : AList Nat Nat),
    l.Nodup → (l.map (G rk)).Pairwise (· < ·) → (∀ x ∈ l, G rk x < U64) →
    reindexWalk st index l rk = some rk' →
    (∀ y, y ∉ l → G rk' y = G rk y) ∧ (l.map (G rk')).Pairwise (· < ·) ∧ ∀ x ∈ l, index < G rk' x ∧ G rk' x < U64 := by
  intro l
  induction l with
  | nil =>
    intro index rk rk' _ _ _ h
    simp only [reindexWalk, Option.some.injEq] at h
    subst h
    exact ⟨fun _ _ => rfl, List.Pairwise.nil, by simp⟩
  | cons x r ih =>
    intro index rk rk' hn hp hb h
    obtain ⟨hxr, hnr⟩ := List.nodup_cons.mp hn
    simp only [List.map_cons, List.pairwise_cons] at hp
    obtain ⟨hx1, hp1⟩ := hp
    unfold reindexWalk at h
    dsimp only at h
    split at h
    · cases h
    · rename_i hov
      split at h
      · rename_i hge
        simp only [Option.some.injEq] at h
        subst h
        refine ⟨fun _ _ => rfl, ?_, ?_⟩
        · simp only [List.map_cons, List.pairwise_cons]; exact ⟨hx1, hp1⟩
        · intro y hy
          have hgx : index < (rk.get? x).getD 0 := by omega
          rcases List.mem_cons.mp hy with rfl | hy
          · exact ⟨hgx, hb _ List.mem_cons_self⟩
          · have := hx1 (G rk y) (List.mem_map.mpr ⟨y, hy, rfl⟩)
            refine ⟨?_, hb y (List.mem_cons_of_mem _ hy)⟩
            show index < G rk y
            have : G rk x < G rk y := this
            unfold G at this ⊢
            omega
      · rename_i hlt
        have hmap : r.map (G (rk.set x (index + st))) = r.map (G rk) := map_G_set rk x _ r hxr
        obtain ⟨j1, j2, j3⟩ := ih (index + st) (rk.set x (index + st)) rk' hnr (by rw [hmap]; exact hp1)
          (by intro y hy; rw [G_set_other _ _ _ _ (fun e => hxr (by subst e; exact hy))]; exact hb y (List.mem_cons_of_mem _ hy)) h
        have hx' : G rk' x = index + st := by rw [j1 x hxr, G_set_self]
        refine ⟨?_, ?_, ?_⟩
        · intro y hy
          simp only [List.mem_cons, not_or] at hy
          rw [j1 y hy.2, G_set_other _ _ _ _ hy.1]
        · simp only [List.map_cons, List.pairwise_cons]
          refine ⟨?_, j2⟩
          intro v hv
          obtain ⟨y, hy, rfl⟩ := List.mem_map.mp hv
          rw [hx']; exact (j3 y hy).1
        · intro y hy
          rcases List.mem_cons.mp hy with rfl | hy
          · rw [hx']; omega
          · have := j3 y hy; omega

/-! ### fixIndex: the ranks stay strictly increasing -/

theorem pairwise_mid {a : Nat} {l1 l2 : List Nat} (h : (l1 ++ l2).Pairwise (· < ·))
    (h1 : ∀ x ∈ l1, x < a) (h2 : ∀ y ∈ l2, a < y) : (l1 ++ a :: l2).Pairwise (· < ·) := by
  rw [List.pairwise_append] at h ⊢
  obtain ⟨p1, p2, p3⟩ := h
  refine ⟨p1, List.Pairwise.cons h2 p2, ?_⟩
  intro x hx y hy
  rcases List.mem_cons.mp hy with rfl | hy
  · exact h1 x hx
  · exact p3 x hx y hy

theorem getLast?_eq_some_append {l : List Nat} {p : Nat} (h : l.getLast? = some p) : ∃ l', l = l' ++ [p] := by
  rw [List.getLast?_eq_some_iff] at h
  exact h

theorem head?_eq_some_cons {l : List Nat} {w : Nat} (h : l.head? = some w) : ∃ l', l = w :: l' := by
  cases l with
  | nil => simp at h
  | cons a t => simp at h; exact ⟨t, by rw [h]⟩

/-- what `fixIndex` has to deliver for the list `pre ++ b :: post` -/
def FixPost (s2 : State) (b : Nat) (pre post : List Nat) : Prop :=
  s2.sorted = pre ++ b :: post ∧ ((pre ++ b :: post).map (G s2.ranks)).Pairwise (· < ·) ∧
  ∀ x ∈ pre ++ b :: post, G s2.ranks x < U64

/-- a new rank strictly between the neighbours -/
theorem setcase (rk : AList Nat Nat) (b : Nat) (pre post : List Nat) (hbpre : b ∉ pre) (hbpost : b ∉ post)
    (hasc : ((pre ++ post).map (G rk)).Pairwise (· < ·)) (hbnd : ∀ x ∈ pre ++ post, G rk x < U64)
    (r : Nat) (h1 : ∀ x ∈ pre, G rk x < r) (h2 : ∀ y ∈ post, r < G rk y) (h3 : r < U64) :
    ((pre ++ b :: post).map (G (rk.set b r))).Pairwise (· < ·) ∧ ∀ x ∈ pre ++ b :: post, G (rk.set b r) x < U64 := by
  refine ⟨?_, ?_⟩
  · rw [List.map_append, List.map_cons, map_G_set _ _ _ _ hbpre, map_G_set _ _ _ _ hbpost, G_set_self]
    rw [List.map_append] at hasc
    apply pairwise_mid hasc
    · intro v hv; obtain ⟨x, hx, rfl⟩ := List.mem_map.mp hv; exact h1 x hx
    · intro v hv; obtain ⟨x, hx, rfl⟩ := List.mem_map.mp hv; exact h2 x hx
  · intro x hx
    rcases List.mem_append.mp hx with hx | hx
    · rw [G_set_other _ _ _ _ (fun e => by rw [e] at hx; exact hbpre hx)]
      exact hbnd x (List.mem_append_left _ hx)
    · rcases List.mem_cons.mp hx with rfl | hx
      · rw [G_set_self]; exact h3
      · rw [G_set_other _ _ _ _ (fun e => by rw [e] at hx; exact hbpost hx)]
        exact hbnd x (List.mem_append_right _ hx)

/-- reindexEverything -/
theorem allcase (s0 : State) (l : List Nat) (hnd : l.Nodup) (h0 : s0.sorted = l) (hw0 : (reindexAll s0).rankWrap = false) :
    (reindexAll s0).sorted = l ∧ (l.map (G (reindexAll s0).ranks)).Pairwise (· < ·) ∧
    ∀ x ∈ l, G (reindexAll s0).ranks x < U64 := by
  unfold reindexAll at hw0 ⊢
  dsimp only at hw0 ⊢
  have hroom : rankRoom (stepFor s0.pool.length) s0.sorted.length = true := by
    cases hr : rankRoom (stepFor s0.pool.length) s0.sorted.length with
    | true => rfl
    | false => rw [hr] at hw0; simp at hw0
  obtain ⟨r1, r2⟩ := rankRoom_spec _ _ hroom
  rw [h0] at r2 ⊢
  obtain ⟨a1, a2⟩ := rankFrom_asc _ r1 l SORT_START hnd (by omega)
  exact ⟨rfl, a1, fun x hx => (a2 x hx).2⟩

theorem mod_sub_U64 (a b : Nat) (h1 : b ≤ a) (h2 : a < U64) : (a + U64 - b) % U64 = a - b := by
  have : a + U64 - b = (a - b) + U64 := by omega
  rw [this, Nat.add_mod_right, Nat.mod_eq_of_lt (by omega)]

/-- fixIndex, new best element -/
theorem fix_ns (s : State) (b w : Nat) (post' : List Nat) (hs : s.sorted = b :: w :: post')
    (hnd : (b :: w :: post').Nodup)
    (hasc : ((w :: post').map (G s.ranks)).Pairwise (· < ·)) (hbnd : ∀ x ∈ w :: post', G s.ranks x < U64)
    (hw : (fixIndex s b none (some w) (b :: w :: post')).rankWrap = false) :
    FixPost (fixIndex s b none (some w) (b :: w :: post')) b [] (w :: post') := by
  have hbpost : b ∉ w :: post' := (List.nodup_cons.mp hnd).1
  have hwlt : ∀ y ∈ w :: post', G s.ranks w ≤ G s.ranks y := by
    intro y hy
    simp only [List.map_cons, List.pairwise_cons] at hasc
    rcases List.mem_cons.mp hy with rfl | hy
    · exact Nat.le_refl _
    · exact Nat.le_of_lt (hasc.1 _ (List.mem_map.mpr ⟨y, hy, rfl⟩))
  have hwb : G s.ranks w < U64 := hbnd w List.mem_cons_self
  have hR : rankOf s w = G s.ranks w := rfl
  unfold fixIndex at hw ⊢
  dsimp only at hw ⊢
  rw [hR] at hw ⊢
  by_cases hgt : G s.ranks w > s.sortStep
  · rw [if_pos hgt] at hw ⊢
    have hst : s.sortStep ≠ 0 := by intro e; simp [e] at hw
    obtain ⟨c1, c2⟩ := setcase s.ranks b [] (w :: post') (by simp) hbpost hasc hbnd (G s.ranks w - s.sortStep)
      (by simp) (by intro y hy; have := hwlt y hy; omega) (by omega)
    exact ⟨hs, c1, c2⟩
  · rw [if_neg hgt] at hw ⊢
    by_cases hz : G s.ranks w / 2 = G s.ranks w
    · rw [if_pos hz] at hw ⊢
      exact allcase _ _ hnd hs hw
    · rw [if_neg hz]
      obtain ⟨c1, c2⟩ := setcase s.ranks b [] (w :: post') (by simp) hbpost hasc hbnd (G s.ranks w / 2)
        (by simp) (by intro y hy; have := hwlt y hy; omega) (by omega)
      exact ⟨hs, c1, c2⟩

/-- fixIndex, appended at the end -/
theorem fix_sn (s : State) (b p : Nat) (pre' : List Nat) (hs : s.sorted = (pre' ++ [p]) ++ [b])
    (hnd : ((pre' ++ [p]) ++ [b]).Nodup)
    (hasc : ((pre' ++ [p]).map (G s.ranks)).Pairwise (· < ·)) (hbnd : ∀ x ∈ pre' ++ [p], G s.ranks x < U64)
    (hw : (fixIndex s b (some p) none [b]).rankWrap = false) :
    FixPost (fixIndex s b (some p) none [b]) b (pre' ++ [p]) [] := by
  have hbpre : b ∉ pre' ++ [p] := by
    intro h
    rw [List.nodup_append] at hnd
    exact hnd.2.2 b h b (by simp) rfl
  have hR : rankOf s p = G s.ranks p := rfl
  unfold fixIndex at hw ⊢
  dsimp only at hw ⊢
  rw [hR] at hw ⊢
  have hnw : ¬ ((G s.ranks p + s.sortStep) % U64 ≤ G s.ranks p) := by
    intro e; simp [e] at hw
  have hple : ∀ x ∈ pre' ++ [p], G s.ranks x ≤ G s.ranks p := by
    intro x hx
    rw [List.map_append, List.pairwise_append] at hasc
    rcases List.mem_append.mp hx with hx | hx
    · exact Nat.le_of_lt (hasc.2.2 _ (List.mem_map.mpr ⟨x, hx, rfl⟩) _ (by simp))
    · simp at hx; rw [hx]; exact Nat.le_refl _
  obtain ⟨c1, c2⟩ := setcase s.ranks b (pre' ++ [p]) [] hbpre (by simp) (by simpa using hasc)
    (by simpa using hbnd) ((G s.ranks p + s.sortStep) % U64)
    (by intro x hx; have := hple x hx; omega) (by simp) (Nat.mod_lt _ U64_pos)
  exact ⟨by rw [hs], c1, c2⟩

/-- fixIndex, in between two elements -/
theorem fix_ss (s : State) (b p w : Nat) (pre' post' : List Nat) (hs : s.sorted = (pre' ++ [p]) ++ b :: w :: post')
    (hb0 : G s.ranks b = 0) (hnd : ((pre' ++ [p]) ++ b :: w :: post').Nodup)
    (hasc : (((pre' ++ [p]) ++ (w :: post')).map (G s.ranks)).Pairwise (· < ·))
    (hbnd : ∀ x ∈ (pre' ++ [p]) ++ (w :: post'), G s.ranks x < U64)
    (hw : (fixIndex s b (some p) (some w) (b :: w :: post')).rankWrap = false) :
    FixPost (fixIndex s b (some p) (some w) (b :: w :: post')) b (pre' ++ [p]) (w :: post') := by
  have hnd0 := hnd
  rw [List.nodup_append] at hnd
  have hbpre : b ∉ pre' ++ [p] := fun h => hnd.2.2 b h b List.mem_cons_self rfl
  have hbpost : b ∉ w :: post' := (List.nodup_cons.mp hnd.2.1).1
  have hasc' := hasc
  rw [List.map_append, List.pairwise_append] at hasc'
  obtain ⟨q1, q2, q3⟩ := hasc'
  have hpw : G s.ranks p < G s.ranks w :=
    q3 _ (List.mem_map.mpr ⟨p, by simp, rfl⟩) _ (List.mem_map.mpr ⟨w, by simp, rfl⟩)
  have hwb : G s.ranks w < U64 := hbnd w (by simp)
  have hple : ∀ x ∈ pre' ++ [p], G s.ranks x ≤ G s.ranks p := by
    intro x hx
    rw [List.map_append, List.pairwise_append] at q1
    rcases List.mem_append.mp hx with hx | hx
    · exact Nat.le_of_lt (q1.2.2 _ (List.mem_map.mpr ⟨x, hx, rfl⟩) _ (by simp))
    · simp at hx; rw [hx]; exact Nat.le_refl _
  have hwle : ∀ y ∈ w :: post', G s.ranks w ≤ G s.ranks y := by
    intro y hy
    simp only [List.map_cons, List.pairwise_cons] at q2
    rcases List.mem_cons.mp hy with rfl | hy
    · exact Nat.le_refl _
    · exact Nat.le_of_lt (q2.1 _ (List.mem_map.mpr ⟨y, hy, rfl⟩))
  have hRp : rankOf s p = G s.ranks p := rfl
  have hRw : rankOf s w = G s.ranks w := rfl
  unfold fixIndex at hw ⊢
  dsimp only at hw ⊢
  rw [hRp, hRw, mod_sub_U64 _ _ (Nat.le_of_lt hpw) hwb] at hw ⊢
  by_cases hge : G s.ranks w - G s.ranks p ≥ 2
  · rw [if_pos hge]
    have hlt : G s.ranks p + (G s.ranks w - G s.ranks p) / 2 < U64 := by omega
    rw [Nat.mod_eq_of_lt hlt]
    obtain ⟨c1, c2⟩ := setcase s.ranks b (pre' ++ [p]) (w :: post') hbpre hbpost hasc hbnd
      (G s.ranks p + (G s.ranks w - G s.ranks p) / 2)
      (by intro x hx; have := hple x hx; omega) (by intro y hy; have := hwle y hy; omega) hlt
    exact ⟨hs, c1, c2⟩
  · rw [if_neg hge] at hw ⊢
    unfold reindexDown at hw ⊢
    dsimp only at hw ⊢
    cases hrk : reindexWalk (s.sortStep / 16) (G s.ranks p) (b :: w :: post') s.ranks with
    | none =>
      rw [hrk] at hw
      dsimp only at hw ⊢
      exact allcase s _ hnd0 hs hw
    | some rk =>
      rw [hrk] at hw
      dsimp only at hw ⊢
      have hst : 1 ≤ s.sortStep / 16 := by
        have : ¬ (s.sortStep / 16 = 0) := by intro e; simp [e] at hw
        omega
      have hp2 : ((b :: w :: post').map (G s.ranks)).Pairwise (· < ·) := by
        rw [List.map_cons, List.pairwise_cons]
        refine ⟨?_, q2⟩
        intro v hv
        obtain ⟨y, hy, rfl⟩ := List.mem_map.mp hv
        rw [hb0]
        have := hwle y hy
        omega
      have hb2 : ∀ x ∈ b :: w :: post', G s.ranks x < U64 := by
        intro x hx
        rcases List.mem_cons.mp hx with rfl | hx
        · rw [hb0]; exact U64_pos
        · exact hbnd x (List.mem_append_right _ hx)
      obtain ⟨j1, j2, j3⟩ := reindexWalk_spec _ hst (b :: w :: post') (G s.ranks p) s.ranks rk hnd.2.1 hp2 hb2 hrk
      have hpre1 : ∀ x ∈ pre' ++ [p], G rk x = G s.ranks x := by
        intro x hx
        apply j1
        intro hm
        exact hnd.2.2 x hx x hm rfl
      have hpre : (pre' ++ [p]).map (G rk) = (pre' ++ [p]).map (G s.ranks) := List.map_congr_left hpre1
      show s.sorted = (pre' ++ [p]) ++ b :: w :: post' ∧
        (((pre' ++ [p]) ++ b :: w :: post').map (G rk)).Pairwise (· < ·) ∧
        ∀ x ∈ (pre' ++ [p]) ++ b :: w :: post', G rk x < U64
      refine ⟨hs, ?_, ?_⟩
      · rw [List.map_append, List.pairwise_append]
        refine ⟨by rw [hpre]; exact q1, j2, ?_⟩
        intro u hu v hv
        rw [hpre] at hu
        obtain ⟨x, hx, rfl⟩ := List.mem_map.mp hu
        obtain ⟨y, hy, rfl⟩ := List.mem_map.mp hv
        have a1 := hple x hx
        have a2 := (j3 y hy).1
        omega
      · intro x hx
        rcases List.mem_append.mp hx with hx | hx
        · rw [hpre1 x hx]; exact hbnd x (List.mem_append_left _ hx)
        · exact (j3 x hx).2

/-- the rank table after `fixIndex` for the new element `b` linked in between `pre` and `post` -/
theorem fixIndex_asc (s : State) (b : Nat) (pre post : List Nat)
    (hs : s.sorted = pre ++ b :: post) (hb0 : G s.ranks b = 0) (hnd : (pre ++ b :: post).Nodup)
    (hasc : ((pre ++ post).map (G s.ranks)).Pairwise (· < ·)) (hbnd : ∀ x ∈ pre ++ post, G s.ranks x < U64)
    (hne : pre ++ post ≠ [])
    (hw : (fixIndex s b pre.getLast? post.head? (b :: post)).rankWrap = false) :
    FixPost (fixIndex s b pre.getLast? post.head? (b :: post)) b pre post := by
  cases hbt : pre.getLast? with
  | none =>
    have h1 : pre = [] := by simpa using hbt
    subst h1
    cases hwr : post.head? with
    | none =>
      exfalso
      have h2 : post = [] := by simpa using hwr
      rw [h2] at hne; exact hne rfl
    | some w =>
      obtain ⟨post', h2⟩ := head?_eq_some_cons hwr
      subst h2
      rw [hbt, hwr] at hw
      exact fix_ns s b w post' hs hnd (by simpa using hasc) (by simpa using hbnd) hw
  | some p =>
    obtain ⟨pre', h1⟩ := getLast?_eq_some_append hbt
    subst h1
    cases hwr : post.head? with
    | none =>
      have h2 : post = [] := by simpa using hwr
      subst h2
      rw [hbt, hwr] at hw
      exact fix_sn s b p pre' hs hnd (by simpa using hasc) (by simpa using hbnd) hw
    | some w =>
      obtain ⟨post', h2⟩ := head?_eq_some_cons hwr
      subst h2
      rw [hbt, hwr] at hw
      exact fix_ss s b p w pre' post' hs hb0 hnd hasc hbnd hw

end GocoinV.Mempool
