/-
  Proofs.C08_Primes — p and n of secp256k1 are prime: Pratt certificates (complete recursive
  factorisation of q−1 for every prime q > 2^16 in the tree, computed once with sympy) checked by
  Mathlib's `lucas_primality`; the modular powers are evaluated in the kernel by `pm` (binary
  square-and-multiply) which `pm_spec` proves equal to `b^e % m`.
-/
import Mathlib.NumberTheory.LucasPrimality
import Mathlib.Tactic.NormNum.Prime
import Mathlib.Data.ZMod.Basic

namespace GocoinV.C08

/-- square-and-multiply with fuel (structural), evaluated by the kernel -/
def pmAux (m : Nat) : Nat → Nat → Nat → Nat → Nat
  | 0, _, _, acc => acc
  | fuel+1, b, e, acc =>
    if e = 0 then acc
    else pmAux m fuel (b * b % m) (e / 2) (if e % 2 = 1 then acc * b % m else acc)

def pm (b e m : Nat) : Nat := pmAux m 300 b e 1 % m

theorem pmAux_spec (m : Nat) : ∀ (fuel b e acc : Nat), e < 2 ^ fuel →
    pmAux m fuel b e acc % m = acc * b ^ e % m := by
  intro fuel
  induction fuel with
  | zero =>
    intro b e acc he
    have : e = 0 := by omega
    subst this
    simp [pmAux]
  | succ f ih =>
    intro b e acc he
    unfold pmAux
    by_cases h0 : e = 0
    · subst h0; simp
    · simp only [h0, if_false]
      have he2 : e / 2 < 2 ^ f := by
        rw [Nat.pow_succ] at he; omega
      rw [ih _ _ _ he2]
      have hb : (b * b % m) ^ (e / 2) % m = (b * b) ^ (e / 2) % m := by
        rw [Nat.pow_mod, Nat.mod_mod, ← Nat.pow_mod]
      have hsq : (b * b) ^ (e / 2) = b ^ (2 * (e / 2)) := by
        rw [← Nat.pow_two, ← Nat.pow_mul]
      by_cases h1 : e % 2 = 1
      · simp only [h1, if_true]
        have hE : e = 2 * (e / 2) + 1 := by omega
        conv_rhs => rw [hE, Nat.pow_succ]
        rw [Nat.mul_mod, Nat.mod_mod, hb, hsq, ← Nat.mul_mod]
        congr 1
        rw [Nat.mul_assoc, Nat.mul_comm b, ← Nat.mul_assoc]
      · simp only [h1, if_false]
        have hE : e = 2 * (e / 2) := by omega
        conv_rhs => rw [hE]
        rw [Nat.mul_mod, hb, hsq, ← Nat.mul_mod]

theorem pm_spec (b e m : Nat) (he : e < 2 ^ 300) : pm b e m = b ^ e % m := by
  unfold pm
  rw [pmAux_spec m 300 b e 1 he, Nat.one_mul]

/-- Lucas test from a complete factorisation of p−1 (with multiplicity) into proven primes -/
theorem lucas_list (p a : ℕ) (fl : List ℕ) (hp : p < 2 ^ 300) (hfl : ∀ q ∈ fl, Nat.Prime q)
    (hprod : fl.prod = p - 1) (h1 : pm a (p - 1) p = 1) (hq : ∀ q ∈ fl, pm a ((p - 1) / q) p ≠ 1)
    (hp1 : 1 < p) : Nat.Prime p := by
  have cast_pow : ∀ e : ℕ, e < 2 ^ 300 → ((a : ZMod p) ^ e = 1 ↔ pm a e p = 1) := by
    intro e he
    rw [pm_spec a e p he, ← Nat.cast_pow]
    have : ((1 : ℕ) : ZMod p) = 1 := Nat.cast_one
    rw [← this, ZMod.natCast_eq_natCast_iff', Nat.mod_eq_of_lt hp1]
  apply lucas_primality p (a : ZMod p)
  · exact (cast_pow (p - 1) (by omega)).mpr h1
  · intro q hqp hdvd
    have hmem : q ∈ fl := by
      rw [← hprod] at hdvd
      obtain ⟨r, hr, hqr⟩ := (Prime.dvd_prod_iff hqp.prime).mp hdvd
      have := (Nat.prime_dvd_prime_iff_eq hqp (hfl r hr)).mp hqr
      rw [this]; exact hr
    intro hcontra
    have hlt : (p - 1) / q < 2 ^ 300 := lt_of_le_of_lt (Nat.div_le_self _ _) (by omega)
    exact hq q hmem ((cast_pow _ hlt).mp hcontra)

theorem prime_2 : Nat.Prime 2 := by norm_num
theorem prime_3 : Nat.Prime 3 := by norm_num
theorem prime_5 : Nat.Prime 5 := by norm_num
theorem prime_7 : Nat.Prime 7 := by norm_num
theorem prime_11 : Nat.Prime 11 := by norm_num
theorem prime_17 : Nat.Prime 17 := by norm_num
theorem prime_19 : Nat.Prime 19 := by norm_num
theorem prime_29 : Nat.Prime 29 := by norm_num
theorem prime_31 : Nat.Prime 31 := by norm_num
theorem prime_41 : Nat.Prime 41 := by norm_num
theorem prime_53 : Nat.Prime 53 := by norm_num
theorem prime_59 : Nat.Prime 59 := by norm_num
theorem prime_97 : Nat.Prime 97 := by norm_num
theorem prime_101 : Nat.Prime 101 := by norm_num
theorem prime_109 : Nat.Prime 109 := by norm_num
theorem prime_113 : Nat.Prime 113 := by norm_num
theorem prime_149 : Nat.Prime 149 := by norm_num
theorem prime_239 : Nat.Prime 239 := by norm_num
theorem prime_293 : Nat.Prime 293 := by norm_num
theorem prime_461 : Nat.Prime 461 := by norm_num
theorem prime_631 : Nat.Prime 631 := by norm_num
theorem prime_797 : Nat.Prime 797 := by norm_num
theorem prime_971 : Nat.Prime 971 := by norm_num
theorem prime_1373 : Nat.Prime 1373 := by norm_num
theorem prime_1627 : Nat.Prime 1627 := by norm_num
theorem prime_1871 : Nat.Prime 1871 := by norm_num
theorem prime_2011 : Nat.Prime 2011 := by norm_num
theorem prime_2621 : Nat.Prime 2621 := by norm_num
theorem prime_2657 : Nat.Prime 2657 := by norm_num
theorem prime_2731 : Nat.Prime 2731 := by norm_num
theorem prime_2861 : Nat.Prime 2861 := by norm_num
theorem prime_4051 : Nat.Prime 4051 := by norm_num
theorem prime_4423 : Nat.Prime 4423 := by norm_num
theorem prime_5323 : Nat.Prime 5323 := by norm_num
theorem prime_7723 : Nat.Prime 7723 := by norm_num
theorem prime_9349 : Nat.Prime 9349 := by norm_num
theorem prime_13441 : Nat.Prime 13441 := by norm_num
theorem prime_16699 : Nat.Prime 16699 := by norm_num
theorem prime_20113 : Nat.Prime 20113 := by norm_num
theorem prime_24809 : Nat.Prime 24809 := by norm_num
theorem prime_28181 : Nat.Prime 28181 := by norm_num
theorem prime_41201 : Nat.Prime 41201 := by norm_num
theorem prime_85831 : Nat.Prime 85831 :=
  lucas_list 85831 3 [2, 3, 5, 2861] (by decide +kernel)
    (by intro q hq; simp only [List.mem_cons, List.not_mem_nil, or_false] at hq
        rcases hq with rfl | rfl | rfl | rfl
        exacts [prime_2, prime_3, prime_5, prime_2861])
    (by decide +kernel) (by decide +kernel) (by decide +kernel) (by decide +kernel)
theorem prime_96557 : Nat.Prime 96557 :=
  lucas_list 96557 2 [2, 2, 101, 239] (by decide +kernel)
    (by intro q hq; simp only [List.mem_cons, List.not_mem_nil, or_false] at hq
        rcases hq with rfl | rfl | rfl | rfl
        exacts [prime_2, prime_2, prime_101, prime_239])
    (by decide +kernel) (by decide +kernel) (by decide +kernel) (by decide +kernel)
theorem prime_120233 : Nat.Prime 120233 :=
  lucas_list 120233 3 [2, 2, 2, 7, 19, 113] (by decide +kernel)
    (by intro q hq; simp only [List.mem_cons, List.not_mem_nil, or_false] at hq
        rcases hq with rfl | rfl | rfl | rfl | rfl | rfl
        exacts [prime_2, prime_2, prime_2, prime_7, prime_19, prime_113])
    (by decide +kernel) (by decide +kernel) (by decide +kernel) (by decide +kernel)
theorem prime_305873 : Nat.Prime 305873 :=
  lucas_list 305873 3 [2, 2, 2, 2, 7, 2731] (by decide +kernel)
    (by intro q hq; simp only [List.mem_cons, List.not_mem_nil, or_false] at hq
        rcases hq with rfl | rfl | rfl | rfl | rfl | rfl
        exacts [prime_2, prime_2, prime_2, prime_2, prime_7, prime_2731])
    (by decide +kernel) (by decide +kernel) (by decide +kernel) (by decide +kernel)
theorem prime_1206781 : Nat.Prime 1206781 :=
  lucas_list 1206781 10 [2, 2, 3, 5, 20113] (by decide +kernel)
    (by intro q hq; simp only [List.mem_cons, List.not_mem_nil, or_false] at hq
        rcases hq with rfl | rfl | rfl | rfl | rfl
        exacts [prime_2, prime_2, prime_3, prime_5, prime_20113])
    (by decide +kernel) (by decide +kernel) (by decide +kernel) (by decide +kernel)
theorem prime_1627771 : Nat.Prime 1627771 :=
  lucas_list 1627771 3 [2, 3, 5, 29, 1871] (by decide +kernel)
    (by intro q hq; simp only [List.mem_cons, List.not_mem_nil, or_false] at hq
        rcases hq with rfl | rfl | rfl | rfl | rfl
        exacts [prime_2, prime_3, prime_5, prime_29, prime_1871])
    (by decide +kernel) (by decide +kernel) (by decide +kernel) (by decide +kernel)
theorem prime_4681609 : Nat.Prime 4681609 :=
  lucas_list 4681609 23 [2, 2, 2, 3, 97, 2011] (by decide +kernel)
    (by intro q hq; simp only [List.mem_cons, List.not_mem_nil, or_false] at hq
        rcases hq with rfl | rfl | rfl | rfl | rfl | rfl
        exacts [prime_2, prime_2, prime_2, prime_3, prime_97, prime_2011])
    (by decide +kernel) (by decide +kernel) (by decide +kernel) (by decide +kernel)
theorem prime_7240687 : Nat.Prime 7240687 :=
  lucas_list 7240687 3 [2, 3, 1206781] (by decide +kernel)
    (by intro q hq; simp only [List.mem_cons, List.not_mem_nil, or_false] at hq
        rcases hq with rfl | rfl | rfl
        exacts [prime_2, prime_3, prime_1206781])
    (by decide +kernel) (by decide +kernel) (by decide +kernel) (by decide +kernel)
theorem prime_13331831 : Nat.Prime 13331831 :=
  lucas_list 13331831 13 [2, 5, 971, 1373] (by decide +kernel)
    (by intro q hq; simp only [List.mem_cons, List.not_mem_nil, or_false] at hq
        rcases hq with rfl | rfl | rfl | rfl
        exacts [prime_2, prime_5, prime_971, prime_1373])
    (by decide +kernel) (by decide +kernel) (by decide +kernel) (by decide +kernel)
theorem prime_44706919 : Nat.Prime 44706919 :=
  lucas_list 44706919 6 [2, 3, 797, 9349] (by decide +kernel)
    (by intro q hq; simp only [List.mem_cons, List.not_mem_nil, or_false] at hq
        rcases hq with rfl | rfl | rfl | rfl
        exacts [prime_2, prime_3, prime_797, prime_9349])
    (by decide +kernel) (by decide +kernel) (by decide +kernel) (by decide +kernel)
theorem prime_107590001 : Nat.Prime 107590001 :=
  lucas_list 107590001 3 [2, 2, 2, 2, 5, 5, 5, 5, 7, 29, 53] (by decide +kernel)
    (by intro q hq; simp only [List.mem_cons, List.not_mem_nil, or_false] at hq
        rcases hq with rfl | rfl | rfl | rfl | rfl | rfl | rfl | rfl | rfl | rfl | rfl
        exacts [prime_2, prime_2, prime_2, prime_2, prime_5, prime_5, prime_5, prime_5, prime_7, prime_29, prime_53])
    (by decide +kernel) (by decide +kernel) (by decide +kernel) (by decide +kernel)
theorem prime_545358713 : Nat.Prime 545358713 :=
  lucas_list 545358713 5 [2, 2, 2, 41, 59, 28181] (by decide +kernel)
    (by intro q hq; simp only [List.mem_cons, List.not_mem_nil, or_false] at hq
        rcases hq with rfl | rfl | rfl | rfl | rfl | rfl
        exacts [prime_2, prime_2, prime_2, prime_41, prime_59, prime_28181])
    (by decide +kernel) (by decide +kernel) (by decide +kernel) (by decide +kernel)
theorem prime_297159362677 : Nat.Prime 297159362677 :=
  lucas_list 297159362677 2 [2, 2, 3, 3, 11, 461, 1627771] (by decide +kernel)
    (by intro q hq; simp only [List.mem_cons, List.not_mem_nil, or_false] at hq
        rcases hq with rfl | rfl | rfl | rfl | rfl | rfl | rfl
        exacts [prime_2, prime_2, prime_3, prime_3, prime_11, prime_461, prime_1627771])
    (by decide +kernel) (by decide +kernel) (by decide +kernel) (by decide +kernel)
theorem prime_107361793816595537 : Nat.Prime 107361793816595537 :=
  lucas_list 107361793816595537 3 [2, 2, 2, 2, 16699, 85831, 4681609] (by decide +kernel)
    (by intro q hq; simp only [List.mem_cons, List.not_mem_nil, or_false] at hq
        rcases hq with rfl | rfl | rfl | rfl | rfl | rfl | rfl
        exacts [prime_2, prime_2, prime_2, prime_2, prime_16699, prime_85831, prime_4681609])
    (by decide +kernel) (by decide +kernel) (by decide +kernel) (by decide +kernel)
theorem prime_173378833005251801 : Nat.Prime 173378833005251801 :=
  lucas_list 173378833005251801 6 [2, 2, 2, 5, 5, 2621, 24809, 13331831] (by decide +kernel)
    (by intro q hq; simp only [List.mem_cons, List.not_mem_nil, or_false] at hq
        rcases hq with rfl | rfl | rfl | rfl | rfl | rfl | rfl | rfl
        exacts [prime_2, prime_2, prime_2, prime_5, prime_5, prime_2621, prime_24809, prime_13331831])
    (by decide +kernel) (by decide +kernel) (by decide +kernel) (by decide +kernel)
theorem prime_174723607534414371449 : Nat.Prime 174723607534414371449 :=
  lucas_list 174723607534414371449 3 [2, 2, 2, 17, 59, 4051, 120233, 44706919] (by decide +kernel)
    (by intro q hq; simp only [List.mem_cons, List.not_mem_nil, or_false] at hq
        rcases hq with rfl | rfl | rfl | rfl | rfl | rfl | rfl | rfl
        exacts [prime_2, prime_2, prime_2, prime_17, prime_59, prime_4051, prime_120233, prime_44706919])
    (by decide +kernel) (by decide +kernel) (by decide +kernel) (by decide +kernel)
theorem prime_22149492674086928081353 : Nat.Prime 22149492674086928081353 :=
  lucas_list 22149492674086928081353 5 [2, 2, 2, 3, 5323, 173378833005251801] (by decide +kernel)
    (by intro q hq; simp only [List.mem_cons, List.not_mem_nil, or_false] at hq
        rcases hq with rfl | rfl | rfl | rfl | rfl | rfl
        exacts [prime_2, prime_2, prime_2, prime_3, prime_5323, prime_173378833005251801])
    (by decide +kernel) (by decide +kernel) (by decide +kernel) (by decide +kernel)
theorem prime_132896956044521568488119 : Nat.Prime 132896956044521568488119 :=
  lucas_list 132896956044521568488119 6 [2, 3, 22149492674086928081353] (by decide +kernel)
    (by intro q hq; simp only [List.mem_cons, List.not_mem_nil, or_false] at hq
        rcases hq with rfl | rfl | rfl
        exacts [prime_2, prime_3, prime_22149492674086928081353])
    (by decide +kernel) (by decide +kernel) (by decide +kernel) (by decide +kernel)
theorem prime_29047611873442575647497758179 : Nat.Prime 29047611873442575647497758179 :=
  lucas_list 29047611873442575647497758179 2 [2, 293, 305873, 545358713, 297159362677] (by decide +kernel)
    (by intro q hq; simp only [List.mem_cons, List.not_mem_nil, or_false] at hq
        rcases hq with rfl | rfl | rfl | rfl | rfl
        exacts [prime_2, prime_293, prime_305873, prime_545358713, prime_297159362677])
    (by decide +kernel) (by decide +kernel) (by decide +kernel) (by decide +kernel)
theorem prime_341948486974166000522343609283189 : Nat.Prime 341948486974166000522343609283189 :=
  lucas_list 341948486974166000522343609283189 2 [2, 2, 3, 3, 3, 109, 29047611873442575647497758179] (by decide +kernel)
    (by intro q hq; simp only [List.mem_cons, List.not_mem_nil, or_false] at hq
        rcases hq with rfl | rfl | rfl | rfl | rfl | rfl | rfl
        exacts [prime_2, prime_2, prime_3, prime_3, prime_3, prime_109, prime_29047611873442575647497758179])
    (by decide +kernel) (by decide +kernel) (by decide +kernel) (by decide +kernel)
theorem prime_255515944373312847190720520512484175977 : Nat.Prime 255515944373312847190720520512484175977 :=
  lucas_list 255515944373312847190720520512484175977 3 [2, 2, 2, 7, 7, 11, 1627, 2657, 4423, 41201, 96557, 7240687, 107590001] (by decide +kernel)
    (by intro q hq; simp only [List.mem_cons, List.not_mem_nil, or_false] at hq
        rcases hq with rfl | rfl | rfl | rfl | rfl | rfl | rfl | rfl | rfl | rfl | rfl | rfl | rfl
        exacts [prime_2, prime_2, prime_2, prime_7, prime_7, prime_11, prime_1627, prime_2657, prime_4423, prime_41201, prime_96557, prime_7240687, prime_107590001])
    (by decide +kernel) (by decide +kernel) (by decide +kernel) (by decide +kernel)
theorem prime_205115282021455665897114700593932402728804164701536103180137503955397371 : Nat.Prime 205115282021455665897114700593932402728804164701536103180137503955397371 :=
  lucas_list 205115282021455665897114700593932402728804164701536103180137503955397371 10 [2, 3, 5, 29, 29, 31, 7723, 132896956044521568488119, 255515944373312847190720520512484175977] (by decide +kernel)
    (by intro q hq; simp only [List.mem_cons, List.not_mem_nil, or_false] at hq
        rcases hq with rfl | rfl | rfl | rfl | rfl | rfl | rfl | rfl | rfl
        exacts [prime_2, prime_3, prime_5, prime_29, prime_29, prime_31, prime_7723, prime_132896956044521568488119, prime_255515944373312847190720520512484175977])
    (by decide +kernel) (by decide +kernel) (by decide +kernel) (by decide +kernel)
theorem prime_115792089237316195423570985008687907852837564279074904382605163141518161494337 : Nat.Prime 115792089237316195423570985008687907852837564279074904382605163141518161494337 :=
  lucas_list 115792089237316195423570985008687907852837564279074904382605163141518161494337 7 [2, 2, 2, 2, 2, 2, 3, 149, 631, 107361793816595537, 174723607534414371449, 341948486974166000522343609283189] (by decide +kernel)
    (by intro q hq; simp only [List.mem_cons, List.not_mem_nil, or_false] at hq
        rcases hq with rfl | rfl | rfl | rfl | rfl | rfl | rfl | rfl | rfl | rfl | rfl | rfl
        exacts [prime_2, prime_2, prime_2, prime_2, prime_2, prime_2, prime_3, prime_149, prime_631, prime_107361793816595537, prime_174723607534414371449, prime_341948486974166000522343609283189])
    (by decide +kernel) (by decide +kernel) (by decide +kernel) (by decide +kernel)
theorem prime_115792089237316195423570985008687907853269984665640564039457584007908834671663 : Nat.Prime 115792089237316195423570985008687907853269984665640564039457584007908834671663 :=
  lucas_list 115792089237316195423570985008687907853269984665640564039457584007908834671663 3 [2, 3, 7, 13441, 205115282021455665897114700593932402728804164701536103180137503955397371] (by decide +kernel)
    (by intro q hq; simp only [List.mem_cons, List.not_mem_nil, or_false] at hq
        rcases hq with rfl | rfl | rfl | rfl | rfl
        exacts [prime_2, prime_3, prime_7, prime_13441, prime_205115282021455665897114700593932402728804164701536103180137503955397371])
    (by decide +kernel) (by decide +kernel) (by decide +kernel) (by decide +kernel)

theorem secp_p_prime : Nat.Prime 0xFFFFFFFFFFFFFFFFFFFFFFFFFFFFFFFFFFFFFFFFFFFFFFFFFFFFFFFEFFFFFC2F :=
  prime_115792089237316195423570985008687907853269984665640564039457584007908834671663

theorem secp_n_prime : Nat.Prime 0xFFFFFFFFFFFFFFFFFFFFFFFFFFFFFFFEBAAEDCE6AF48A03BBFD25E8CD0364141 :=
  prime_115792089237316195423570985008687907852837564279074904382605163141518161494337

end GocoinV.C08
