/-
  Proofs.C13Sig — evaluation of the address / witness-program recognisers on the four owned templates, key
  look-up lemmas and list-index lemmas used by `signatures_verify` (core only).
-/
import GocoinV.Proofs.C13
import GocoinV.Spec.WalletTx
namespace GocoinV.WalletTx
open GocoinV.WalletSpec

theorem len20 (h : Bytes) (hl : h.length = 20) :
    ∃ x0 x1 x2 x3 x4 x5 x6 x7 x8 x9 x10 x11 x12 x13 x14 x15 x16 x17 x18 x19, h = [x0, x1, x2, x3, x4, x5, x6, x7, x8, x9, x10, x11, x12, x13, x14, x15, x16, x17, x18, x19] := by
  match h, hl with
  | [x0, x1, x2, x3, x4, x5, x6, x7, x8, x9, x10, x11, x12, x13, x14, x15, x16, x17, x18, x19], _ => exact ⟨_, _, _, _, _, _, _, _, _, _, _, _, _, _, _, _, _, _, _, _, rfl⟩

theorem len32 (h : Bytes) (hl : h.length = 32) :
    ∃ x0 x1 x2 x3 x4 x5 x6 x7 x8 x9 x10 x11 x12 x13 x14 x15 x16 x17 x18 x19 x20 x21 x22 x23 x24 x25 x26 x27 x28 x29 x30 x31, h = [x0, x1, x2, x3, x4, x5, x6, x7, x8, x9, x10, x11, x12, x13, x14, x15, x16, x17, x18, x19, x20, x21, x22, x23, x24, x25, x26, x27, x28, x29, x30, x31] := by
  match h, hl with
  | [x0, x1, x2, x3, x4, x5, x6, x7, x8, x9, x10, x11, x12, x13, x14, x15, x16, x17, x18, x19, x20, x21, x22, x23, x24, x25, x26, x27, x28, x29, x30, x31], _ => exact ⟨_, _, _, _, _, _, _, _, _, _, _, _, _, _, _, _, _, _, _, _, _, _, _, _, _, _, _, _, _, _, _, _, rfl⟩


def p2wpkhScript (h : Bytes) : Bytes := [0, 20] ++ h
def p2shScript (sh : Bytes) : Bytes := [0xa9, 20] ++ sh ++ [0x87]
def p2trScript (q : Bytes) : Bytes := [0x51, 32] ++ q

theorem fromPkScript_p2pkh (H : Addr.Hashes) (h : Bytes) (hl : h.length = 20) (tn : Bool) :
    Addr.fromPkScript H (p2pkhScript h) tn = some (.b58 (verPubkey tn) h none) := by
  obtain ⟨x0, x1, x2, x3, x4, x5, x6, x7, x8, x9, x10, x11, x12, x13, x14, x15, x16, x17, x18, x19, rfl⟩ := len20 h hl
  simp [Addr.fromPkScript, p2pkhScript, Addr.isWitnessProgram, verPubkey]

theorem isWitnessProgram_p2pkh (h : Bytes) (hl : h.length = 20) : Addr.isWitnessProgram (p2pkhScript h) = none := by
  obtain ⟨x0, x1, x2, x3, x4, x5, x6, x7, x8, x9, x10, x11, x12, x13, x14, x15, x16, x17, x18, x19, rfl⟩ := len20 h hl
  simp [p2pkhScript, Addr.isWitnessProgram]

theorem p2pkh_shape (h : Bytes) (hl : h.length = 20) :
    (p2pkhScript h).length = 25 ∧ ((p2pkhScript h).drop 3).take 20 = h := by
  obtain ⟨x0, x1, x2, x3, x4, x5, x6, x7, x8, x9, x10, x11, x12, x13, x14, x15, x16, x17, x18, x19, rfl⟩ := len20 h hl
  simp [p2pkhScript]

theorem fromPkScript_p2sh (H : Addr.Hashes) (h : Bytes) (hl : h.length = 20) (tn : Bool) :
    Addr.fromPkScript H (p2shScript h) tn = some (.b58 (verScript tn) h none) := by
  obtain ⟨x0, x1, x2, x3, x4, x5, x6, x7, x8, x9, x10, x11, x12, x13, x14, x15, x16, x17, x18, x19, rfl⟩ := len20 h hl
  simp [Addr.fromPkScript, p2shScript, Addr.isWitnessProgram, verScript]

theorem isWitnessProgram_p2sh (h : Bytes) (hl : h.length = 20) : Addr.isWitnessProgram (p2shScript h) = none := by
  obtain ⟨x0, x1, x2, x3, x4, x5, x6, x7, x8, x9, x10, x11, x12, x13, x14, x15, x16, x17, x18, x19, rfl⟩ := len20 h hl
  simp [p2shScript, Addr.isWitnessProgram]

theorem p2sh_shape (h : Bytes) (hl : h.length = 20) :
    (p2shScript h).length = 23 ∧ ((p2shScript h).drop 2).take 20 = h := by
  obtain ⟨x0, x1, x2, x3, x4, x5, x6, x7, x8, x9, x10, x11, x12, x13, x14, x15, x16, x17, x18, x19, rfl⟩ := len20 h hl
  simp [p2shScript]

theorem isWitnessProgram_p2wpkh (h : Bytes) (hl : h.length = 20) :
    Addr.isWitnessProgram (p2wpkhScript h) = some (0, h) := by
  obtain ⟨x0, x1, x2, x3, x4, x5, x6, x7, x8, x9, x10, x11, x12, x13, x14, x15, x16, x17, x18, x19, rfl⟩ := len20 h hl
  simp [p2wpkhScript, Addr.isWitnessProgram]

theorem isWitnessProgram_p2tr (q : Bytes) (hl : q.length = 32) :
    Addr.isWitnessProgram (p2trScript q) = some (1, q) := by
  obtain ⟨x0, x1, x2, x3, x4, x5, x6, x7, x8, x9, x10, x11, x12, x13, x14, x15, x16, x17, x18, x19, x20, x21, x22, x23, x24, x25, x26, x27, x28, x29, x30, x31, rfl⟩ := len32 q hl
  simp [p2trScript, Addr.isWitnessProgram]

/-! ### key look-ups -/

theorem findIdx?_of_getElem? {α} (p : α → Bool) : ∀ (l : List α) (k : Nat) (x : α), l[k]? = some x → p x = true →
    ∃ j y, l.findIdx? p = some j ∧ l[j]? = some y ∧ p y = true := by
  intro l
  induction l with
  | nil => intro k x h; simp at h
  | cons a l ih =>
    intro k x h hp
    rw [List.findIdx?_cons]
    by_cases ha : p a = true
    · exact ⟨0, a, by simp [ha], by simp, ha⟩
    · cases k with
      | zero => simp at h; subst h; exact absurd hp ha
      | succ k =>
        simp only [List.getElem?_cons_succ] at h
        obtain ⟨j, y, h1, h2, h3⟩ := ih k x h hp
        refine ⟨j + 1, y, ?_, by simpa using h2, h3⟩
        simp [ha, h1]

theorem getD_of_getElem? (ks : List KeyRec) (j : Nat) (kr d : KeyRec) (h : ks[j]? = some kr) : ks.getD j d = kr := by
  simp [List.getD, h]

/-- for a compressed key the SegWit entry of the table is what make_wallet computes (a key that is not compressed has none) -/
theorem mkKey_seg_of_33 (H : Addr.Hashes) (b : Bool) (p : Bytes) (h : p.length = 33) :
    (mkKey H b p).segH160 = if b then [] else H.hash160 ([0, 20] ++ H.hash160 p) := by
  simp [mkKey, h]

theorem keyTable_getElem? (H : Addr.Hashes) (b : Bool) (pubs : List Bytes) (k : Nat) (kr : KeyRec)
    (h : (keyTable H b pubs)[k]? = some kr) : ∃ p, pubs[k]? = some p ∧ kr = mkKey H b p := by
  unfold keyTable at h
  rw [List.getElem?_map] at h
  cases hp : pubs[k]? with
  | none => simp [hp] at h
  | some p => simp [hp] at h; exact ⟨p, rfl, h.symm⟩

/-! ### positions in the lists built by sign_tx -/

theorem signIns_getElem? (H : Addr.Hashes) (c : Cfg) (ks : List KeyRec) (sig : SigFn) (ms : MsFn) :
    ∀ (ins : List TxIn) (sp : List (Option TxOut)) (n j : Nat) (inp : TxIn), ins[j]? = some inp →
      (signIns H c ks sig ms n ins sp)[j]? = some (signOne H c ks sig ms (n + j) ((sp[j]?).getD none)) := by
  intro ins
  induction ins with
  | nil => intro sp n j inp h; simp at h
  | cons a ins ih =>
    intro sp n j inp h
    cases j with
    | zero =>
      simp only [signIns, List.getElem?_cons_zero, Nat.add_zero]
      cases sp <;> simp [List.headD]
    | succ j =>
      simp only [List.getElem?_cons_succ] at h
      simp only [signIns, List.getElem?_cons_succ]
      rw [ih sp.tail (n + 1) j inp h]
      have : sp.tail[j]? = sp[j + 1]? := by cases sp <;> simp
      rw [this]
      congr 2
      omega

theorem applyIns_getElem? : ∀ (ins : List TxIn) (rs : List InSign) (j : Nat) (inp : TxIn) (r : InSign),
    ins[j]? = some inp → rs[j]? = some r →
    (applyIns ins rs)[j]? = some { inp with scriptSig := r.scriptSig.getD inp.scriptSig } := by
  intro ins
  induction ins with
  | nil => intro rs j inp r h; simp at h
  | cons a ins ih =>
    intro rs j inp r h hr
    cases rs with
    | nil => simp at hr
    | cons r0 rs =>
      cases j with
      | zero => simp at h hr; subst h; subst hr; simp [applyIns]
      | succ j =>
        simp only [List.getElem?_cons_succ] at h hr
        simp only [applyIns, List.getElem?_cons_succ]
        exact ih rs j inp r h hr

theorem applyWit_getElem? : ∀ (rs : List InSign) (j : Nat) (r : InSign), rs[j]? = some r →
    (applyWit rs [])[j]? = some (r.witness.getD []) := by
  intro rs
  induction rs with
  | nil => intro j r h; simp at h
  | cons r0 rs ih =>
    intro j r h
    cases j with
    | zero => simp at h; subst h; simp [applyWit]
    | succ j =>
      simp only [List.getElem?_cons_succ] at h
      simp only [applyWit, List.tail_nil, List.getElem?_cons_succ]
      exact ih j r h

/-- the witness stack of input `j` in the signed transaction, when the transaction came without witness data -/
theorem signed_wit_at (rs : List InSign) (j : Nat) (r : InSign) (h : rs[j]? = some r) :
    ((if (none : Option (List (List Bytes))).isSome || rs.any (·.witness.isSome) then some (applyWit rs ((none : Option (List (List Bytes))).getD []))
      else none).getD []).getD j [] = r.witness.getD [] := by
  simp only [Option.isSome_none, Bool.false_or, Option.getD_none]
  split
  · simp [List.getD, applyWit_getElem? rs j r h]
  · rename_i hany
    have : r.witness = none := by
      cases hw : r.witness with
      | none => rfl
      | some w =>
        exfalso; apply hany
        rw [List.any_eq_true]
        exact ⟨r, List.mem_of_getElem? h, by simp [hw]⟩
    simp [this]

/-! ### pushes -/

theorem parsePush_push1 (b rest : Bytes) (h1 : 1 ≤ b.length) (h2 : b.length ≤ 75) :
    parsePush (push1 b ++ rest) = some (b, rest) := by
  have e : (UInt8.ofNat b.length).toNat = b.length := by simp [UInt8.toNat_ofNat']; omega
  simp only [push1, List.cons_append, parsePush, e]
  have : 1 ≤ b.length ∧ b.length ≤ 75 ∧ b.length ≤ (b ++ rest).length := by simp; omega
  simp [this]

/-! ### the owned output types and what sign_tx produces for each -/

/-- the four output types the wallet owns, for a key of the table -/
inductive OwnScript (c : Cfg) (ks : List KeyRec) : Bytes → Prop
  | p2pkh (k : Nat) (kr : KeyRec) : ks[k]? = some kr → OwnScript c ks (p2pkhScript kr.h160)
  | p2wpkh (k : Nat) (kr : KeyRec) : ks[k]? = some kr → OwnScript c ks (p2wpkhScript kr.h160)
  | p2sh (k : Nat) (kr : KeyRec) : ks[k]? = some kr → c.bech32 = false → OwnScript c ks (p2shScript kr.segH160)
  | p2tr (k : Nat) (kr : KeyRec) : ks[k]? = some kr → OwnScript c ks (p2trScript ((kr.pub.drop 1).take 32))

theorem ver_ne (tn : Bool) : verPubkey tn ≠ verScript tn := by cases tn <;> decide

/-- pubhash_to_key_idx finds a key with THAT public-key hash (no hypothesis about other hashes of the table: since the
    fix the look-up reads nothing else) -/
theorem lookup_h160 (ks : List KeyRec) (k : Nat) (kr : KeyRec) (hk : ks[k]? = some kr) :
    ∃ j krj, pubHashToKeyIdx ks kr.h160 = some j ∧ ks[j]? = some krj ∧ krj.h160 = kr.h160 := by
  obtain ⟨j, krj, h1, h2, h3⟩ := findIdx?_of_getElem? (fun x : KeyRec => x.h160 == kr.h160) ks k kr hk (by simp)
  exact ⟨j, krj, h1, h2, by simpa using h3⟩

theorem lookup_seg (ks : List KeyRec) (k : Nat) (kr : KeyRec) (hk : ks[k]? = some kr) (hne : kr.segH160 ≠ []) :
    ∃ j krj, scriptHashToKeyIdx ks kr.segH160 = some j ∧ ks[j]? = some krj ∧ krj.segH160 = kr.segH160 := by
  obtain ⟨j, krj, h1, h2, h3⟩ := findIdx?_of_getElem? (fun x : KeyRec => x.segH160 != [] && x.segH160 == kr.segH160) ks k kr hk
    (by simp [hne])
  refine ⟨j, krj, h1, h2, ?_⟩
  simp only [Bool.and_eq_true, beq_iff_eq] at h3
  exact h3.2

theorem lookup_xo (ks : List KeyRec) (k : Nat) (kr : KeyRec) (hk : ks[k]? = some kr) :
    ∃ j krj, xoToKeyIdx ks ((kr.pub.drop 1).take 32) = some j ∧ ks[j]? = some krj ∧
      (krj.pub.drop 1).take 32 = (kr.pub.drop 1).take 32 := by
  obtain ⟨j, krj, h1, h2, h3⟩ := findIdx?_of_getElem? (fun x : KeyRec => (x.pub.drop 1).take 32 == (kr.pub.drop 1).take 32) ks k kr hk (by simp)
  exact ⟨j, krj, h1, h2, by simpa using h3⟩

theorem signInput_p2pkh (H : Addr.Hashes) (c : Cfg) (ks : List KeyRec) (sig : SigFn) (i k : Nat) (kr : KeyRec) (v : Nat)
    (hk : ks[k]? = some kr) (hl : kr.h160.length = 20) :
    ∃ j krj, ks[j]? = some krj ∧ krj.h160 = kr.h160 ∧
      signInput H c ks sig i (some { value := v, script := p2pkhScript kr.h160 }) =
        { scriptSig := some (push1 (sig i (.legacy j (p2pkhScript kr.h160)) ++ [1]) ++ push1 krj.pub),
          witness := none, signed := true } := by
  obtain ⟨j, krj, h1, h2, h3⟩ := lookup_h160 ks k kr hk
  refine ⟨j, krj, h2, h3, ?_⟩
  unfold signInput
  have hv := ver_ne c.testnet
  simp only [fromPkScript_p2pkh H _ hl, isWitnessProgram_p2pkh _ hl, hv, ↓reduceIte, h1, getD_of_getElem? ks j krj _ h2]
  simp

theorem signInput_p2wpkh (H : Addr.Hashes) (c : Cfg) (ks : List KeyRec) (sig : SigFn) (i k : Nat) (kr : KeyRec) (v : Nat)
    (hk : ks[k]? = some kr) (hl : kr.h160.length = 20) (adr : Addr.Addr)
    (ha : Addr.fromPkScript H (p2wpkhScript kr.h160) c.testnet = some adr) :
    ∃ j krj, ks[j]? = some krj ∧ krj.h160 = kr.h160 ∧
      signInput H c ks sig i (some { value := v, script := p2wpkhScript kr.h160 }) =
        { scriptSig := none, witness := some [sig i (.witv0 j (p2pkhScript krj.h160) v) ++ [1], krj.pub],
          signed := true } := by
  obtain ⟨j, krj, h1, h2, h3⟩ := lookup_h160 ks k kr hk
  refine ⟨j, krj, h2, h3, ?_⟩
  unfold signInput
  simp only [ha, isWitnessProgram_p2wpkh _ hl, hl, h1, getD_of_getElem? ks j krj _ h2]
  simp

theorem signInput_p2sh (H : Addr.Hashes) (c : Cfg) (ks : List KeyRec) (sig : SigFn) (i k : Nat) (kr : KeyRec) (v : Nat)
    (hk : ks[k]? = some kr) (hl : kr.segH160.length = 20) (hb : c.bech32 = false) :
    ∃ j krj, ks[j]? = some krj ∧ krj.segH160 = kr.segH160 ∧
      signInput H c ks sig i (some { value := v, script := p2shScript kr.segH160 }) =
        { scriptSig := some ([22, 0, 20] ++ krj.h160),
          witness := some [sig i (.witv0 j (p2pkhScript krj.h160) v) ++ [1], krj.pub], signed := true } := by
  have hne : kr.segH160 ≠ [] := by intro e; rw [e] at hl; simp at hl
  obtain ⟨j, krj, h1, h2, h3⟩ := lookup_seg ks k kr hk hne
  refine ⟨j, krj, h2, h3, ?_⟩
  unfold signInput
  simp only [fromPkScript_p2sh H _ hl, isWitnessProgram_p2sh _ hl, ↓reduceIte, h1, getD_of_getElem? ks j krj _ h2]
  simp [hb, h3]

theorem signInput_p2tr (H : Addr.Hashes) (c : Cfg) (ks : List KeyRec) (sig : SigFn) (i k : Nat) (kr : KeyRec) (v : Nat)
    (hk : ks[k]? = some kr) (hl : ((kr.pub.drop 1).take 32).length = 32) (adr : Addr.Addr)
    (ha : Addr.fromPkScript H (p2trScript ((kr.pub.drop 1).take 32)) c.testnet = some adr)
    (h64 : ∀ j, (sig i (.taproot j)).length = 64) :
    ∃ j krj, ks[j]? = some krj ∧ (krj.pub.drop 1).take 32 = (kr.pub.drop 1).take 32 ∧
      signInput H c ks sig i (some { value := v, script := p2trScript ((kr.pub.drop 1).take 32) }) =
        { scriptSig := none, witness := some [sig i (.taproot j)], signed := true } := by
  obtain ⟨j, krj, h1, h2, h3⟩ := lookup_xo ks k kr hk
  refine ⟨j, krj, h2, h3, ?_⟩
  unfold signInput
  simp only [ha, isWitnessProgram_p2tr _ hl, hl, h1]
  simp [h64]

/-! ### the signed transaction at position `i` -/

theorem signed_at (H : Addr.Hashes) (c : Cfg) (ks : List KeyRec) (sig : Skeleton → SigFn) (ms : MsFn)
    (t : Tx) (spent : List TxOut) (i : Nat) (inp : TxIn) (uo : TxOut)
    (hwit : t.wit = none) (hin : t.ins[i]? = some inp) (hsp : spent[i]? = some uo) (hms : ms i = none) :
    let r := signInput H c ks (sig (skeleton t)) i (some uo)
    let t' := (signTx H c ks sig ms t (spent.map some)).1
    t'.ins[i]? = some { inp with scriptSig := r.scriptSig.getD inp.scriptSig } ∧
    (t'.wit.getD []).getD i [] = r.witness.getD [] ∧ skeleton t' = skeleton t := by
  intro r t'
  have hr : (signIns H c ks (sig (skeleton t)) ms 0 t.ins (spent.map some))[i]? = some r := by
    rw [signIns_getElem? H c ks _ ms t.ins _ 0 i inp hin]
    simp [signOne, hms, hsp, r]
  refine ⟨?_, ?_, signTx_skeleton H c ks sig ms t _⟩
  · have := applyIns_getElem? t.ins _ i inp r hin hr
    simpa [t', signTx] using this
  · have := signed_wit_at _ i r hr
    simp only [t', signTx, hwit]
    exact this

theorem ecdsaOk_intro (C : Crypto) (pub sg : Bytes) (digest : Nat → Bytes) (h1 : 1 ≤ sg.length)
    (hv : C.ecdsaVerify pub sg (digest 1) = true) : ecdsaOk C pub (sg ++ [1]) digest = true := by
  unfold ecdsaOk
  simp [hv]
  omega

theorem verify_aux (H : Addr.Hashes) (C : Crypto) (S : Signer) (c : Cfg) (pubs : List Bytes) (ms : MsFn)
    (t : Tx) (spent : List TxOut) (i : Nat) (inp : TxIn) (uo : TxOut)
    (hash_same : C.hash160 = H.hash160) (hash_len : ∀ b, (H.hash160 b).length = 20)
    (sign_verify_ecdsa : ∀ k kr, (keyTable H c.bech32 pubs)[k]? = some kr → ∀ d, C.ecdsaVerify kr.pub (S.ecdsa k d) d = true)
    (der_len : ∀ k d, 1 ≤ (S.ecdsa k d).length ∧ (S.ecdsa k d).length ≤ 74)
    (sign_verify_schnorr : ∀ k kr, (keyTable H c.bech32 pubs)[k]? = some kr → ∀ d,
        C.schnorrVerify ((kr.pub.drop 1).take 32) (S.schnorr k d) d = true)
    (schnorr_len : ∀ k d, (S.schnorr k d).length = 64)
    (pub_len : ∀ p ∈ pubs, p.length = 33)
    (hwit : t.wit = none) (hin : t.ins[i]? = some inp) (hsp : spent[i]? = some uo) (hms : ms i = none)
    (hown : OwnScript c (keyTable H c.bech32 pubs) uo.script)
    (haddr : (Addr.fromPkScript H uo.script c.testnet).isSome)
    (hss : inp.scriptSig = [] ∨ uo.script.length = 25 ∨ uo.script.length = 23) :
    verifyInput C (signTx H c (keyTable H c.bech32 pubs) (sigOf C S spent) ms t (spent.map some)).1 spent i = true := by
  obtain ⟨h1, h2, h3⟩ := signed_at H c (keyTable H c.bech32 pubs) (sigOf C S spent) ms t spent i inp uo hwit hin hsp hms
  have keyfacts : ∀ (k : Nat) (kr : KeyRec), (keyTable H c.bech32 pubs)[k]? = some kr →
      kr.pub.length = 33 ∧ kr.h160 = H.hash160 kr.pub ∧ kr.h160.length = 20 ∧ (c.bech32 = false → kr.segH160.length = 20) ∧
      (c.bech32 = false → kr.segH160 = H.hash160 ([0, 20] ++ kr.h160)) := by
    intro k kr hk
    obtain ⟨p, hp, rfl⟩ := keyTable_getElem? H c.bech32 pubs k kr hk
    have hp33 : p.length = 33 := pub_len p (List.mem_of_getElem? hp)
    refine ⟨hp33, rfl, hash_len _, ?_, ?_⟩
    · intro hb; rw [mkKey_seg_of_33 H _ p hp33]; simp [hb, hash_len]
    · intro hb; rw [mkKey_seg_of_33 H _ p hp33]; simp [mkKey, hb]
  unfold verifyInput
  rw [h1, hsp]
  simp only [h2, h3]
  obtain ⟨val, scr⟩ := uo
  simp only at hown haddr hss ⊢
  cases hown with
  | p2pkh k kr hk =>
    obtain ⟨_, _, hl, _, _⟩ := keyfacts k kr hk
    obtain ⟨j, krj, hj, hje, hsi⟩ := signInput_p2pkh H c _ (sigOf C S spent (skeleton t)) i k kr val hk hl
    obtain ⟨hjl, hjh, _, _, _⟩ := keyfacts j krj hj
    rw [hsi]
    simp only [sigOf]
    obtain ⟨hs1, hs2⟩ := p2pkh_shape kr.h160 hl
    have dl := der_len j (C.legacyDigest (skeleton t) i (p2pkhScript kr.h160) 1)
    simp only [hs1, hs2, true_and, ↓reduceIte, Option.getD_some, Option.getD_none, List.isEmpty_nil, Bool.true_and]
    rw [parsePush_push1 _ _ (by simp) (by simp; omega)]
    simp only []
    have := parsePush_push1 krj.pub [] (by omega) (by omega)
    rw [List.append_nil] at this
    rw [this]
    simp only [hash_same, ← hjh, hje, beq_self_eq_true, Bool.true_and]
    exact ecdsaOk_intro C _ _ _ dl.1 (sign_verify_ecdsa j krj hj _)
  | p2wpkh k kr hk =>
    obtain ⟨_, _, hl, _, _⟩ := keyfacts k kr hk
    obtain ⟨adr, ha⟩ := Option.isSome_iff_exists.mp haddr
    obtain ⟨j, krj, hj, hje, hsi⟩ := signInput_p2wpkh H c _ (sigOf C S spent (skeleton t)) i k kr val hk hl adr ha
    obtain ⟨hjl, hjh, _, _, _⟩ := keyfacts j krj hj
    rw [hsi]
    simp only [sigOf]
    have hs : inp.scriptSig = [] := by
      rcases hss with h | h | h
      · exact h
      · simp [p2wpkhScript, hl] at h
      · simp [p2wpkhScript, hl] at h
    have dl := der_len j (C.witnessDigest (skeleton t) i (p2pkhScript krj.h160) val 1)
    have l22 : (p2wpkhScript kr.h160).length = 22 := by simp [p2wpkhScript, hl]
    have d2 : (p2wpkhScript kr.h160).drop 2 = kr.h160 := by simp [p2wpkhScript]
    have e2 : p2wpkhScript kr.h160 = [0, 20] ++ kr.h160 := rfl
    simp only [l22, d2, ← e2, Option.getD_none, Option.getD_some, hs, List.isEmpty_nil, Bool.true_and, wpkhOk, hjl,
      hash_same, ← hjh, hje, beq_self_eq_true]
    simp only [(by decide : ¬ ((22 : Nat) = 25)), false_and, ↓reduceIte, true_and]
    rw [← hje]
    exact ecdsaOk_intro C _ _ _ dl.1 (sign_verify_ecdsa j krj hj _)
  | p2sh k kr hk hb =>
    obtain ⟨_, _, _, hl', _⟩ := keyfacts k kr hk
    have hl := hl' hb
    obtain ⟨j, krj, hj, hje, hsi⟩ := signInput_p2sh H c _ (sigOf C S spent (skeleton t)) i k kr val hk hl hb
    obtain ⟨hjl, hjh, hjl20, _, hjs⟩ := keyfacts j krj hj
    rw [hsi]
    simp only [sigOf]
    obtain ⟨hs1, hs2⟩ := p2sh_shape kr.segH160 hl
    have dl := der_len j (C.witnessDigest (skeleton t) i (p2pkhScript krj.h160) val 1)
    have e2 : p2shScript kr.segH160 = [0xa9, 20] ++ kr.segH160 ++ [0x87] := rfl
    have hpp : parsePush ([22, 0, 20] ++ krj.h160) = some ([0, 20] ++ krj.h160, []) := by
      have := parsePush_push1 ([0, 20] ++ krj.h160) [] (by simp) (by simp; omega)
      simpa [push1, hjl20] using this
    simp only [hs1, hs2, ← e2, Option.getD_some, hpp]
    simp only [(by decide : ¬ ((23 : Nat) = 25)), (by decide : ¬ ((23 : Nat) = 22)), false_and, ↓reduceIte, true_and]
    have hd : ([0, 20] ++ krj.h160).drop 2 = krj.h160 := by simp
    have hlen : ([0, 20] ++ krj.h160).length = 22 := by simp [hjl20]
    simp only [hd, hlen, wpkhOk, hjl, hash_same, ← hjh, ← hjs hb, hje, beq_self_eq_true, Bool.true_and]
    exact ecdsaOk_intro C _ _ _ dl.1 (sign_verify_ecdsa j krj hj _)
  | p2tr k kr hk =>
    obtain ⟨hpl, _, _, _, _⟩ := keyfacts k kr hk
    have hl : ((kr.pub.drop 1).take 32).length = 32 := by simp; omega
    obtain ⟨adr, ha⟩ := Option.isSome_iff_exists.mp haddr
    obtain ⟨j, krj, hj, hje, hsi⟩ := signInput_p2tr H c _ (sigOf C S spent (skeleton t)) i k kr val hk hl adr ha
      (fun j => schnorr_len j _)
    rw [hsi]
    have hs : inp.scriptSig = [] := by
      rcases hss with h | h | h
      · exact h
      · simp [p2trScript] at h; omega
      · simp [p2trScript] at h; omega
    have l34 : (p2trScript ((kr.pub.drop 1).take 32)).length = 34 := by simp [p2trScript]; omega
    have d2 : (p2trScript ((kr.pub.drop 1).take 32)).drop 2 = (kr.pub.drop 1).take 32 := by simp [p2trScript]
    have e2 : p2trScript ((kr.pub.drop 1).take 32) = [0x51, 32] ++ (kr.pub.drop 1).take 32 := rfl
    simp only [l34, d2, ← e2, Option.getD_none, Option.getD_some, hs, List.isEmpty_nil, Bool.true_and]
    simp only [(by decide : ¬ ((34 : Nat) = 25)), (by decide : ¬ ((34 : Nat) = 22)),
      (by decide : ¬ ((34 : Nat) = 23)), false_and, ↓reduceIte, true_and]
    simp only [sigOf, schnorr_len, beq_self_eq_true, Bool.true_and]
    rw [← hje]
    exact sign_verify_schnorr j krj hj _

/-! ### the default change address pays back to the same own script -/

theorem outScript_fromPkScript_own (H : Addr.Hashes) (c : Cfg) (pubs : List Bytes) (scr : Bytes) (a : Addr.Addr)
    (hash_len : ∀ b, (H.hash160 b).length = 20) (pub_len : ∀ p ∈ pubs, p.length = 33)
    (ho : OwnScript c (keyTable H c.bech32 pubs) scr) (ha : Addr.fromPkScript H scr c.testnet = some a) :
    Addr.outScript a = some scr := by
  have keyfacts : ∀ (k : Nat) (kr : KeyRec), (keyTable H c.bech32 pubs)[k]? = some kr →
      kr.pub.length = 33 ∧ kr.h160.length = 20 ∧ (c.bech32 = false → kr.segH160.length = 20) := by
    intro k kr hk
    obtain ⟨p, hp, rfl⟩ := keyTable_getElem? H c.bech32 pubs k kr hk
    have hp33 : p.length = 33 := pub_len p (List.mem_of_getElem? hp)
    refine ⟨hp33, hash_len _, ?_⟩
    intro hb; rw [mkKey_seg_of_33 H _ p hp33]; simp [hb, hash_len]
  cases ho with
  | p2pkh k kr hk =>
    obtain ⟨_, hl, _⟩ := keyfacts k kr hk
    rw [fromPkScript_p2pkh H _ hl] at ha
    simp only [Option.some.injEq] at ha
    subst ha
    cases c.testnet <;> simp [Addr.outScript, verPubkey, p2pkhScript]
  | p2sh k kr hk hb =>
    obtain ⟨_, _, hl'⟩ := keyfacts k kr hk
    have hl := hl' hb
    rw [fromPkScript_p2sh H _ hl] at ha
    simp only [Option.some.injEq] at ha
    subst ha
    cases c.testnet <;> simp [Addr.outScript, verScript, p2shScript]
  | p2wpkh k kr hk =>
    obtain ⟨_, hl, _⟩ := keyfacts k kr hk
    unfold Addr.fromPkScript at ha
    simp only [isWitnessProgram_p2wpkh _ hl] at ha
    split at ha
    · simp at ha
    · split at ha
      · simp at ha
      · simp only [Option.some.injEq] at ha
        subst ha
        simp [Addr.outScript, p2wpkhScript, hl]
  | p2tr k kr hk =>
    obtain ⟨hpl, _, _⟩ := keyfacts k kr hk
    have hl : ((kr.pub.drop 1).take 32).length = 32 := by simp; omega
    unfold Addr.fromPkScript at ha
    simp only [isWitnessProgram_p2tr _ hl] at ha
    split at ha
    · simp at ha
    · split at ha
      · simp at ha
      · simp only [Option.some.injEq] at ha
        subst ha
        simp only [Addr.outScript, p2trScript]
        simp [hpl]

theorem changeAddr_default (H : Addr.Hashes) (c : Cfg) (ks : List KeyRec) (coins : List Coin) (a : Addr.Addr)
    (hc : c.change = none) (h : changeAddr H c ks coins = .ok a) :
    ∃ u, u ∈ coins ∧ owned ks u = true ∧ Addr.fromPkScript H u.script c.testnet = some a := by
  unfold changeAddr at h
  simp only [hc] at h
  cases hf : coins.find? (fun u => (pkscrToKey ks u.script).isSome) with
  | none => simp [hf] at h
  | some u =>
    simp only [hf] at h
    cases hp : Addr.fromPkScript H u.script c.testnet with
    | none => simp [hp] at h
    | some a' =>
      simp only [hp, Except.ok.injEq] at h
      subst h
      exact ⟨u, List.mem_of_find?_eq_some hf, by simpa [owned] using List.find?_some hf, hp⟩

end GocoinV.WalletTx
