/-
  Proofs.C19Run — the disk invariant holds for the fresh store, is preserved by every operation of the cached
  sub-language on a non-volatile store, and gives the reopen identity.
-/
import GocoinV.Proofs.C19Defrag2
namespace GocoinV.Proofs.C19
open GocoinV GocoinV.Qdb GocoinV.QdbSpec

variable {eg : Bool}

/-- "the data file stays below 4 GiB if a sync or a defrag happened now" -/
def SizeOK (db : DB) : Prop :=
  (checkDat db).lastPos + (syncPlan db.dataSeq db.index db.pending (checkDat db).lastPos).2.2.length < 2^32 ∧
  4 + (valsOf db.index).flatten.length < 2^32

theorem valsOf_of_absv (a b : DB) (h : absv a = absv b) : valsOf a.index = valsOf b.index := by
  have : ∀ d : DB, valsOf d.index = (absv d).map (fun x => x.2.1) := by
    intro d; simp [valsOf, absv, absE, absRec, List.map_map]
  rw [this, this, h]

/-- sync() preserves the invariant and the content, and leaves nothing pending -/
theorem sync_inv (db : DB) (inv : DiskInv db) (hs : SizeOK db) :
    DiskInv (sync db) ∧ absv (sync db) = absv db ∧ (sync db).pending = [] ∧ (sync db).opts = db.opts := by
  cases hp : db.pending.isEmpty with
  | true =>
    have : sync db = db := by unfold sync; simp [inv.nv, hp]
    rw [this]
    exact ⟨inv, rfl, by simpa using hp, rfl⟩
  | false =>
    obtain ⟨L, hL, invL, absL, pL, oL, _, _, _, _⟩ := sync_logWritten db inv hp hs.1
    rw [hL]
    split
    · have hwf : IndexWF L.eager L.index :=
        ⟨invL.cached.2, invL.wf, invL.nodup, by rw [valsOf_of_absv L db absL]; exact hs.2⟩
      obtain ⟨a, b, c⟩ := defrag_inv L invL.cached invL.nv hwf
      exact ⟨a, b.trans absL, c, (defrag_cached L invL.cached).opts.trans oL⟩
    · exact ⟨invL, absL, pL, oL⟩

/-! ### put / del -/

theorem memput_same (db : DB) (k : Key) (r : Rec) :
    ∃ e n m, memput db k r = { db with index := iset k r db.index, extra := e, need := n, maxSeq := m } := by
  unfold memput
  cases ilookup k db.index <;> dsimp only <;> (repeat' split) <;> exact ⟨_, _, _, rfl⟩

theorem memdel_same (db : DB) (k : Key) :
    ∃ e n, memdel db k = { db with index := ierase k db.index, extra := e, need := n } := by
  unfold memdel
  cases hl : ilookup k db.index with
  | none => exact ⟨db.extra, db.need, by rw [ierase_absent k db.index hl]⟩
  | some cur => dsimp only; split <;> exact ⟨_, _, rfl⟩

def pendingAdd (p : List Key) (k : Key) : List Key := if p.contains k then p else p ++ [k]

theorem addPending_same (db : DB) (k : Key) : addPending db k = { db with pending := pendingAdd db.pending k } := by
  unfold addPending pendingAdd
  split <;> rfl

theorem mem_pendingAdd (p : List Key) (k j : Key) : j ∈ pendingAdd p k ↔ j = k ∨ j ∈ p := by
  unfold pendingAdd
  split
  · rename_i h
    have hk : k ∈ p := by simpa using h
    constructor
    · exact Or.inr
    · rintro (rfl | h') <;> assumption
  · simp [or_comm]

theorem nodup_pendingAdd (p : List Key) (k : Key) (h : p.Nodup) : (pendingAdd p k).Nodup := by
  unfold pendingAdd
  split
  · exact h
  · rename_i hk
    have hk' : k ∉ p := by simpa using hk
    exact List.nodup_append.mpr ⟨h, by simp, by intro a ha b hb; simp at hb; subst hb; exact fun e => hk' (e ▸ ha)⟩

/-- changing the record of key `k` in memory and marking `k` pending keeps the invariant -/
theorem inv_change (db : DB) (inv : DiskInv db) (k : Key) (hk : k < 2^64) (idx' : List (Key × Rec))
    (e n m : Nat)
    (hother : ∀ j, j ≠ k → ilookup j idx' = ilookup j db.index)
    (hc : AllCached db.eager idx') (hwf : ∀ kr ∈ idx', RecWF kr) (hnd : (Keys idx').Nodup)
    (hkeys : ∀ j ∈ Keys idx', j = k ∨ j ∈ Keys db.index) :
    DiskInv { db with index := idx', extra := e, need := n, maxSeq := m, pending := pendingAdd db.pending k } := by
  constructor
  · exact ⟨inv.cached.1, hc⟩
  · exact inv.nv
  · exact hwf
  · exact hnd
  · exact nodup_pendingAdd _ _ inv.pnodup
  · intro j hj
    rcases (mem_pendingAdd _ _ _).mp hj with rfl | h
    · exact hk
    · exact inv.pkeys j h
  · exact inv.ver
  · exact inv.verlt
  · exact inv.dseq
  · exact inv.logst
  · exact inv.log1
  · exact inv.log2
  · intro j hj
    have hj' : j ≠ k ∧ j ∉ db.pending := by
      constructor
      · intro e'; exact hj ((mem_pendingAdd _ _ _).mpr (Or.inl e'))
      · intro e'; exact hj ((mem_pendingAdd _ _ _).mpr (Or.inr e'))
    show (ilookup j (diskIndex db.fs)).map core = (ilookup j idx').map core
    rw [hother j hj'.1]
    exact inv.clean j hj'.2
  · intro j r hj hr
    have hj' : j ≠ k ∧ j ∉ db.pending := by
      constructor
      · intro e'; exact hj ((mem_pendingAdd _ _ _).mpr (Or.inl e'))
      · intro e'; exact hj ((mem_pendingAdd _ _ _).mpr (Or.inr e'))
    have hr' : ilookup j db.index = some r := by rw [← hother j hj'.1]; exact hr
    exact inv.files j r hj'.2 hr'
  · exact inv.dflags
  · exact inv.dat1
  · exact inv.dat2
  · exact inv.dreads

/-! ### operations that only change flags -/

def noFlags (r : Rec) : Option Bytes × Nat × Nat × Nat := (r.data, r.seq, r.pos, r.len)

theorem inv_flags (db : DB) (inv : DiskInv db) (idx' : List (Key × Rec))
    (hsame : ∀ j, (ilookup j idx').map noFlags = (ilookup j db.index).map noFlags)
    (hc : AllCached db.eager idx') (hwf : ∀ kr ∈ idx', RecWF kr) (hkeys : Keys idx' = Keys db.index) :
    DiskInv { db with index := idx' } := by
  have hcore : ∀ j, (ilookup j idx').map core = (ilookup j db.index).map core := by
    intro j
    have := congrArg (Option.map (fun (x : Option Bytes × Nat × Nat × Nat) => (x.2.1, x.2.2.1, x.2.2.2))) (hsame j)
    rw [Option.map_map, Option.map_map] at this
    exact this
  constructor
  · exact ⟨inv.cached.1, hc⟩
  · exact inv.nv
  · exact hwf
  · show (Keys idx').Nodup; rw [hkeys]; exact inv.nodup
  · exact inv.pnodup
  · exact inv.pkeys
  · exact inv.ver
  · exact inv.verlt
  · exact inv.dseq
  · exact inv.logst
  · exact inv.log1
  · exact inv.log2
  · intro j hj
    show (ilookup j (diskIndex db.fs)).map core = (ilookup j idx').map core
    rw [hcore j]; exact inv.clean j hj
  · intro j r hj hr
    have h1 := hsame j
    rw [show ilookup j idx' = some r from hr] at h1
    cases hm : ilookup j db.index with
    | none => rw [hm] at h1; simp at h1
    | some r0 =>
      rw [hm] at h1
      simp only [Option.map_some, Option.some.injEq, noFlags, Prod.mk.injEq] at h1
      obtain ⟨f, h2, h3⟩ := inv.files j r0 hj hm
      refine ⟨f, by rw [h1.2.1]; exact h2, ?_⟩
      unfold ReadsBack at h3 ⊢
      rw [h1.1, h1.2.2.1, h1.2.2.2]
      exact h3
  · exact inv.dflags
  · exact inv.dat1
  · exact inv.dat2
  · exact inv.dreads

theorem applyBF_lt (fl res : Nat) (h : fl < 2^32) : applyBrowsingFlags fl res < 2^32 := by
  have hs : ∀ x bit, (bit = 1 ∨ bit = 2) → x < 2^32 → setFlag x bit < 2^32 := by
    intro x bit hb hx
    unfold setFlag
    split
    · exact hx
    · rename_i hn
      have hn' : (x / bit) % 2 = 0 := (hasFlag_false x bit).mp (by simpa using hn)
      rcases hb with rfl | rfl <;> omega
  have hcl : ∀ x bit, x < 2^32 → clrFlag x bit < 2^32 := by
    intro x bit hx
    unfold clrFlag
    split <;> omega
  unfold applyBrowsingFlags
  have hA : (if hasFlag res NO_BROWSE = true then setFlag fl NO_BROWSE
      else if hasFlag res YES_BROWSE = true then clrFlag fl NO_BROWSE else fl) < 2^32 := by
    split
    · exact hs _ _ (Or.inl rfl) h
    · split
      · exact hcl _ _ h
      · exact h
  dsimp only
  split
  · exact hs _ _ (Or.inr rfl) hA
  · split
    · exact hcl _ _ hA
    · exact hA

/-! ### every operation of the cached sub-language keeps the invariant -/

theorem inv_noSync (db : DB) (inv : DiskInv db) (b : Bool) : DiskInv { db with noSync := b } :=
  ⟨inv.cached, inv.nv, inv.wf, inv.nodup, inv.pnodup, inv.pkeys, inv.ver, inv.verlt, inv.dseq, inv.logst,
   inv.log1, inv.log2, inv.clean, inv.files, inv.dflags, inv.dat1, inv.dat2, inv.dreads⟩

/-- size and width side conditions of one operation (the data file stays below 4 GiB, keys are 64-bit,
    flags 32-bit) -/
def OpFits (db : DB) : Op → Prop
  | .put k v => k < 2^64 ∧ v.length < 2^32 ∧ SizeOK (addPending (memput db k (newRec v 0)) k)
  | .putExt k v f => k < 2^64 ∧ v.length < 2^32 ∧ f < 2^32 ∧ SizeOK (addPending (memput db k (newRec v f)) k)
  | .del k => k < 2^64 ∧ SizeOK (addPending (memdel db k) k)
  | .sync => SizeOK { db with noSync := false }
  | .defrag _ => SizeOK db
  | _ => True

theorem ilookup_mapKV {α β : Type} (g : Key → α → β) (k : Key) (l : List (Key × α)) :
    ilookup k (l.map fun kr => (kr.1, g kr.1 kr.2)) = (ilookup k l).map (g k) := by
  induction l with
  | nil => rfl
  | cons h t ih =>
    obtain ⟨j, q⟩ := h
    by_cases hj : j = k
    · subst hj; simp [ilookup]
    · simp only [List.map_cons, ilookup, hj, ↓reduceIte, ih]

theorem afterChange_inv (M : DB) (k : Key) (hM : DiskInv (addPending M k)) (hs : SizeOK (addPending M k))
    (hv : M.volatile = false) :
    DiskInv (afterChange M k) := by
  unfold afterChange
  rw [if_neg (by simp [hv])]
  split
  · exact (sync_inv _ hM hs).1
  · exact hM

theorem putExt_addPending_inv (db : DB) (inv : DiskInv db) (k : Key) (v : Bytes) (f : Nat) (hk : k < 2^64)
    (hv : v.length < 2^32) (hf : f < 2^32) (hnc : hasFlag f (ncOf db.eager) = false) :
    DiskInv (addPending (memput db k (newRec v f)) k) := by
  obtain ⟨e, n, m, hmp⟩ := memput_same db k (newRec v f)
  have hrec : RecCached db.eager (newRec v f) ∧ RecWF (k, newRec v f) := by
    refine ⟨⟨rfl, hnc⟩, hk, hf, ?_⟩
    show u32 v.length = v.length
    exact Nat.mod_eq_of_lt hv
  rw [addPending_same, hmp]
  apply inv_change db inv k hk
  · intro j hj
    rw [ilookup_iset]
    have : ¬ k = j := fun e' => hj e'.symm
    simp [this]
  · exact allCached_iset inv.cached.2 k _ hrec.1
  · intro kr hkr
    rcases mem_iset k _ db.index kr hkr with h | h
    · rw [h]; exact hrec.2
    · exact inv.wf kr h
  · exact nodup_iset k _ db.index inv.nodup
  · intro j hj
    rw [keys_iset] at hj
    split at hj
    · exact Or.inr hj
    · rcases List.mem_append.mp hj with h | h
      · exact Or.inr h
      · simp at h; exact Or.inl h

theorem del_addPending_inv (db : DB) (inv : DiskInv db) (k : Key) (hk : k < 2^64) :
    DiskInv (addPending (memdel db k) k) := by
  obtain ⟨e, n, hmd⟩ := memdel_same db k
  rw [addPending_same, hmd]
  exact inv_change db inv k hk (ierase k db.index) e n db.maxSeq
    (by
      intro j hj
      rw [ilookup_ierase _ _ _ inv.nodup]
      have : ¬ k = j := fun e' => hj e'.symm
      simp [this])
    (allCached_ierase inv.cached.2 k)
    (fun kr hkr => inv.wf kr (mem_ierase k db.index kr hkr))
    (nodup_ierase k db.index inv.nodup)
    (fun j hj => Or.inr (keys_ierase_sub k db.index j hj))

theorem putExt_inv (db : DB) (inv : DiskInv db) (k : Key) (v : Bytes) (f : Nat) (hk : k < 2^64)
    (hv : v.length < 2^32) (hf : f < 2^32) (hnc : hasFlag f (ncOf db.eager) = false)
    (hs : SizeOK (addPending (memput db k (newRec v f)) k)) : DiskInv (putExt db k v f) := by
  unfold putExt
  rw [if_neg (notFailed inv.cached)]
  obtain ⟨e, n, m, hmp⟩ := memput_same db k (newRec v f)
  have hrec : RecCached db.eager (newRec v f) ∧ RecWF (k, newRec v f) := by
    refine ⟨⟨rfl, hnc⟩, hk, hf, ?_⟩
    show u32 v.length = v.length
    exact Nat.mod_eq_of_lt hv
  have hM : DiskInv (addPending (memput db k (newRec v f)) k) := by
    rw [addPending_same, hmp]
    apply inv_change db inv k hk
    · intro j hj
      rw [ilookup_iset]
      have : ¬ k = j := fun e' => hj e'.symm
      simp [this]
    · exact allCached_iset inv.cached.2 k _ hrec.1
    · intro kr hkr
      rcases mem_iset k _ db.index kr hkr with h | h
      · rw [h]; exact hrec.2
      · exact inv.wf kr h
    · exact nodup_iset k _ db.index inv.nodup
    · intro j hj
      rw [keys_iset] at hj
      split at hj
      · exact Or.inr hj
      · rcases List.mem_append.mp hj with h | h
        · exact Or.inr h
        · simp at h; exact Or.inl h
  exact afterChange_inv _ k hM hs (by rw [hmp]; exact inv.nv)

theorem del_inv (db : DB) (inv : DiskInv db) (k : Key) (hk : k < 2^64)
    (hs : SizeOK (addPending (memdel db k) k)) : DiskInv (del db k) := by
  unfold del
  rw [if_neg (notFailed inv.cached)]
  obtain ⟨e, n, hmd⟩ := memdel_same db k
  have hM : DiskInv (addPending (memdel db k) k) := by
    rw [addPending_same, hmd]
    have := inv_change db inv k hk (ierase k db.index) e n db.maxSeq
      (by
        intro j hj
        rw [ilookup_ierase _ _ _ inv.nodup]
        have : ¬ k = j := fun e' => hj e'.symm
        simp [this])
      (allCached_ierase inv.cached.2 k)
      (fun kr hkr => inv.wf kr (mem_ierase k db.index kr hkr))
      (nodup_ierase k db.index inv.nodup)
      (fun j hj => Or.inr (keys_ierase_sub k db.index j hj))
    exact this
  exact afterChange_inv _ k hM hs (by rw [hmd]; exact inv.nv)

theorem get_inv (db : DB) (inv : DiskInv db) (k : Key) : DiskInv (Qdb.get db k).1 := by
  unfold Qdb.get
  rw [if_neg (notFailed inv.cached)]
  cases hl : ilookup k db.index with
  | none => exact inv
  | some r =>
    have hr := allCached_lookup inv.cached.2 k r hl
    simp only [loadrec_cached db.fs r hr]
    apply inv_flags db inv
    · intro j
      rw [ilookup_iset]
      by_cases hj : k = j
      · subst hj; simp [hl, noFlags]
      · simp [hj]
    · exact allCached_iset inv.cached.2 k _ ⟨hr.1, applyBF_keeps _ _ _ hr.2 (yesCache_ok _)⟩
    · intro kr hkr
      rcases mem_iset k _ db.index kr hkr with h | h
      · have hk := inv.wf (k, r) (ilookup_key_pair k r db.index hl)
        rw [h]; exact ⟨hk.1, applyBF_lt r.flags YES_CACHE hk.2.1, hk.2.2⟩
      · exact inv.wf kr h
    · rw [keys_iset]
      simp [ilookup_key_mem k r db.index hl]

theorem applyFlags_inv (db : DB) (inv : DiskInv db) (k : Key) (fl : Nat) (hf : hasFlag fl (ncOf db.eager) = false) :
    DiskInv (applyFlags db k fl) := by
  unfold applyFlags
  rw [if_neg (notFailed inv.cached)]
  cases hl : ilookup k db.index with
  | none => exact inv
  | some r =>
    have hr := allCached_lookup inv.cached.2 k r hl
    apply inv_flags db inv
    · intro j
      rw [ilookup_iset]
      by_cases hj : k = j
      · subst hj; simp [hl, noFlags]
      · simp [hj]
    · exact allCached_iset inv.cached.2 k _ ⟨hr.1, applyBF_keeps _ _ _ hr.2 hf⟩
    · intro kr hkr
      rcases mem_iset k _ db.index kr hkr with h | h
      · have hk := inv.wf (k, r) (ilookup_key_pair k r db.index hl)
        rw [h]; exact ⟨hk.1, applyBF_lt r.flags fl hk.2.1, hk.2.2⟩
      · exact inv.wf kr h
    · rw [keys_iset]
      simp [ilookup_key_mem k r db.index hl]

def browseG (w : List (Key × Nat)) (vs : Option (List Key)) (k : Key) (r : Rec) : Rec :=
  if skipB false vs r.flags k then r else { r with flags := applyBrowsingFlags r.flags (walkRes w k) }

theorem browseRec_eq (w : List (Key × Nat)) (vs : Option (List Key)) (kr : Key × Rec) :
    browseRec false w vs kr = (kr.1, browseG w vs kr.1 kr.2) := by
  unfold browseRec browseG
  split <;> rfl

theorem browse_inv (db : DB) (inv : DiskInv db) (w : List (Key × Nat)) (hw : WalkOK db.eager w) :
    DiskInv (browse db w).1 := by
  obtain ⟨h1, _⟩ := browseGen_cached false db w inv.cached hw
  have hc := (browse_cached db w inv.cached hw).1
  unfold browse at hc ⊢
  rw [h1] at hc ⊢
  generalize vsOf false db w = vs at hc ⊢
  have hmap : db.index.map (browseRec false w vs) = db.index.map (fun kr => (kr.1, browseG w vs kr.1 kr.2)) := by
    apply List.map_congr_left
    intro kr _
    exact browseRec_eq w vs kr
  rw [hmap] at hc ⊢
  apply inv_flags db inv
  · intro j
    rw [ilookup_mapKV]
    cases ilookup j db.index with
    | none => rfl
    | some r =>
      simp only [Option.map_some, Option.some.injEq]
      unfold browseG noFlags
      split <;> rfl
  · exact hc.2
  · intro kr hkr
    obtain ⟨x, hx, rfl⟩ := List.mem_map.mp hkr
    obtain ⟨a, b, c⟩ := inv.wf x hx
    unfold browseG
    split
    · exact ⟨a, b, c⟩
    · exact ⟨a, applyBF_lt x.2.flags (walkRes w x.1) b, c⟩
  · unfold Keys
    rw [List.map_map]
    rfl

theorem step_inv (db : DB) (inv : DiskInv db) (op : Op) (ok : OpOK db.eager op) (fits : OpFits db op) :
    DiskInv (step db op) := by
  cases op with
  | put k v =>
    obtain ⟨a, b, c⟩ := fits
    exact putExt_inv db inv k v 0 a b (by decide) (zeroFlags_ok _) c
  | putExt k v f =>
    obtain ⟨a, b, c, d⟩ := fits
    exact putExt_inv db inv k v f a b c ok d
  | del k => exact del_inv db inv k fits.1 fits.2
  | get k => exact get_inv db inv k
  | browse w => exact browse_inv db inv w ok
  | applyFlags k fl => exact applyFlags_inv db inv k fl ok
  | defrag f =>
    show DiskInv (defragOp db f).1
    unfold defragOp
    rw [if_neg (notFailed inv.cached)]
    rw [if_neg (by simp [inv.nv])]
    dsimp only
    split
    · exact (defrag_inv db inv.cached inv.nv ⟨inv.cached.2, inv.wf, inv.nodup, fits.2⟩).1
    · exact inv
  | sync =>
    show DiskInv (syncOp db)
    unfold syncOp
    rw [if_neg (notFailed inv.cached)]
    rw [if_neg (by simp [inv.nv])]
    exact (sync_inv _ (inv_noSync db inv false) fits).1
  | noSync =>
    show DiskInv (noSyncOp db)
    unfold noSyncOp
    rw [if_neg (notFailed inv.cached)]
    rw [if_neg (by simp [inv.nv])]
    exact inv_noSync db inv true
  | reopen a b c => exact absurd ok (by simp [OpOK])

/-- side conditions along a whole run -/
def RunFits : DB → List Op → Prop
  | _, [] => True
  | db, op :: t => OpFits db op ∧ RunFits (step db op) t

theorem run_inv (ops : List Op) (db : DB) (inv : DiskInv db) (ok : ∀ op ∈ ops, OpOK db.eager op) (fits : RunFits db ops) :
    DiskInv (run db ops) := by
  induction ops generalizing db with
  | nil => exact inv
  | cons op t ih =>
    exact ih (step db op) (step_inv db inv op (ok op List.mem_cons_self) fits.1)
      (fun o ho => by rw [step_eager db op inv.cached (ok op List.mem_cons_self)]; exact ok o (List.mem_cons_of_mem _ ho))
      fits.2

/-- the fresh non-volatile store on an empty directory satisfies the invariant -/
theorem fresh_inv (load : Bool) (opts : Opts) : DiskInv (openDB {} false load opts eg) := by
  have e : openDB {} false load opts eg = { fs := {}, volatile := false, opts := opts, dataSeq := 1, eager := eg } := by
    cases load <;> rfl
  rw [e]
  constructor
  · exact ⟨rfl, by intro kr h; cases h⟩
  · rfl
  · intro kr h; cases h
  · exact List.nodup_nil
  · exact List.nodup_nil
  · intro k h; cases h
  · rfl
  · show (0 : Nat) < 2^32; decide
  · show (1 : Nat) < 2^32; decide
  · exact ⟨([] : List LogEntry), fun e he => (by cases he), Or.inl ⟨rfl, rfl⟩⟩
  · intro _; rfl
  · intro h; cases h
  · intro k _; rfl
  · intro k r _ h; cases h
  · intro kr h; cases h
  · intro h; cases h
  · intro _ kr h; cases h
  · intro kr h; cases h

end GocoinV.Proofs.C19
