/-
  Proofs.C07Chain — the specification side of "the unspent set equals the replay of the tip's chain":
  well-formed block universes, explicit chains (tip first), `rp` (replay of an explicit chain), the link
  between `rp` and the model's executable `replay`, and the set-level facts about commitU / undoU.
  Core Lean only.
-/
import GocoinV.Proofs.C07
namespace GocoinV.Proofs.C07
open GocoinV.Persist

/-- same coins (as sets) -/
def SameSet (a b : List Coin) : Prop := ∀ c, c ∈ a ↔ c ∈ b

theorem SameSet.refl (a : List Coin) : SameSet a a := fun _ => Iff.rfl
theorem SameSet.symm {a b : List Coin} (h : SameSet a b) : SameSet b a := fun c => (h c).symm
theorem SameSet.trans {a b c : List Coin} (h1 : SameSet a b) (h2 : SameSet b c) : SameSet a c :=
  fun x => (h1 x).trans (h2 x)

theorem sameSet_iff (a b : List Coin) : sameSet a b = true ↔ SameSet a b := by
  simp only [sameSet, Bool.and_eq_true, List.all_eq_true, List.contains_eq_mem, decide_eq_true_eq, SameSet]
  constructor
  · rintro ⟨h1, h2⟩ c; exact ⟨h1 c, h2 c⟩
  · intro h; exact ⟨fun c hc => (h c).1 hc, fun c hc => (h c).2 hc⟩

theorem mem_commitU (u : List Coin) (b : Block) (c : Coin) :
    c ∈ commitU u b ↔ (c ∈ u ∧ c ∉ b.spends) ∨ c ∈ b.creates := by
  simp [commitU]

theorem mem_undoU (u : List Coin) (b : Block) (back : List Coin) (c : Coin) :
    c ∈ undoU u b back ↔ (c ∈ u ∧ c ∉ b.creates) ∨ c ∈ back := by
  simp only [undoU, List.mem_append, List.mem_filter, List.contains_eq_mem, Bool.not_eq_true',
    decide_eq_false_iff_not]
  constructor
  · rintro (h | ⟨h, _⟩)
    · exact Or.inl h
    · exact Or.inr h
  · rintro (h | h)
    · exact Or.inl h
    · by_cases hc : c ∈ u ∧ c ∉ b.creates
      · exact Or.inl hc
      · exact Or.inr ⟨h, hc⟩

theorem commitU_congr {u u' : List Coin} (h : SameSet u u') (b : Block) : SameSet (commitU u b) (commitU u' b) := by
  intro c; rw [mem_commitU, mem_commitU, h c]

theorem undoU_congr {u u' : List Coin} (h : SameSet u u') (b : Block) (back : List Coin) :
    SameSet (undoU u b back) (undoU u' b back) := by
  intro c; rw [mem_undoU, mem_undoU, h c]

theorem validOn_congr {u u' : List Coin} (h : SameSet u u') (b : Block) : validOn u b = validOn u' b := by
  simp only [validOn, List.contains_eq_mem]
  congr 1
  funext c
  simp [h c]

/-! ### explicit chains -/

/-- replay of an explicit chain (tip first) -/
def rp : List Block → List Coin
  | [] => []
  | b :: rest => commitU (rp rest) b

def headId : List Block → BlockId
  | [] => 0
  | b :: _ => b.id

/-- `path` (tip first) is a chain of blocks of `bs` from genesis: linked by parent ids, heights 1, 2, …, every block
    valid on the replay of the chain below it -/
def ChainOK (bs : List Block) : List Block → Prop
  | [] => True
  | b :: rest => b ∈ bs ∧ b.parent = headId rest ∧ b.height = rest.length + 1 ∧ validOn (rp rest) b = true ∧ ChainOK bs rest

/-- well-formed block universe: ids are non-zero and identify the block, a block's height is its parent's plus one
    (genesis = id 0, height 0), the coins a block creates are not unspent in the replay of its parent's chain, and every
    block is valid on (spends only coins of) the replay of its parent's chain (invalid blocks on a side branch lead to
    DeleteBranch, which Model/Persist.lean does not model).  All fields are decidable. -/
structure WF (bs : List Block) : Prop where
  idNZ : ∀ b ∈ bs, b.id ≠ 0
  uniq : ∀ b ∈ bs, ∀ b' ∈ bs, b.id = b'.id → b = b'
  height : ∀ b ∈ bs, (b.parent = 0 ∧ b.height = 1) ∨ ∃ p ∈ bs, p.id = b.parent ∧ b.height = p.height + 1
  fresh : ∀ b ∈ bs, ∀ c ∈ b.creates, c ∉ replay bs b.parent
  valid : ∀ b ∈ bs, validOn (replay bs b.parent) b = true

theorem ChainOK.mem {bs : List Block} : ∀ {path : List Block}, ChainOK bs path → ∀ b ∈ path, b ∈ bs
  | [], _, _, hb => by cases hb
  | x :: rest, h, b, hb => by
    rcases List.mem_cons.1 hb with hb | hb
    · subst hb; exact h.1
    · exact ChainOK.mem h.2.2.2.2 b hb

theorem ChainOK.drop {bs : List Block} : ∀ (k : Nat) {path : List Block}, ChainOK bs path → ChainOK bs (path.drop k)
  | 0, _, h => h
  | _ + 1, [], _ => trivial
  | k + 1, _ :: rest, h => ChainOK.drop k (path := rest) h.2.2.2.2

theorem ChainOK.height_mem {bs : List Block} : ∀ {path : List Block}, ChainOK bs path → ∀ b ∈ path, 1 ≤ b.height ∧ b.height ≤ path.length
  | [], _, _, hb => by cases hb
  | x :: rest, h, b, hb => by
    rcases List.mem_cons.1 hb with hb | hb
    · subst hb; rw [h.2.2.1]; simp
    · have := ChainOK.height_mem h.2.2.2.2 b hb
      simp only [List.length_cons]; omega

/-- the blocks of a chain have pairwise different heights, hence the chain is no longer than the universe -/
theorem ChainOK.nodup {bs : List Block} : ∀ {path : List Block}, ChainOK bs path → path.Nodup
  | [], _ => List.nodup_nil
  | x :: rest, h => by
    refine List.nodup_cons.2 ⟨?_, ChainOK.nodup h.2.2.2.2⟩
    intro hx
    have := (ChainOK.height_mem h.2.2.2.2 x hx).2
    rw [h.2.2.1] at this; omega

/-- the height of a block that sits on top of a chain -/
theorem height_on {bs : List Block} (hwf : WF bs) {path : List Block} (hc : ChainOK bs path) {b : Block}
    (hb : b ∈ bs) (hp : b.parent = headId path) : b.height = path.length + 1 := by
  rcases hwf.height b hb with ⟨h0, h1⟩ | ⟨p, hpm, hpi, hh⟩
  · cases path with
    | nil => simpa using h1
    | cons x rest => exact absurd (hp.symm.trans h0 : x.id = 0) (hwf.idNZ x hc.1)
  · cases path with
    | nil => exact absurd (hpi.trans hp) (hwf.idNZ p hpm)
    | cons x rest =>
      have : p = x := hwf.uniq p hpm x hc.1 (hpi.trans hp)
      subst this
      rw [hh, hc.2.2.1]; rfl

/-! ### `replay` (the model's executable definition) of the head of a chain is `rp` of the chain -/

theorem findBlock_of {bs : List Block} (hwf : WF bs) {b : Block} (hb : b ∈ bs) : findBlock bs b.id = some b := by
  unfold findBlock
  cases hf : bs.find? (fun x => x.id == b.id) with
  | none =>
    rw [List.find?_eq_none] at hf
    exact absurd (by simp) (hf b hb)
  | some x =>
    have hx := List.mem_of_find?_eq_some hf
    have hid : x.id = b.id := by simpa using List.find?_some hf
    rw [hwf.uniq x hx b hb hid]

theorem chainOf_path {bs : List Block} (hwf : WF bs) : ∀ (path : List Block), ChainOK bs path →
    ∀ (fuel : Nat) (acc : List Block), path.length ≤ fuel → chainOf bs fuel (headId path) acc = path.reverse ++ acc
  | [], _, fuel, acc, _ => by
    cases fuel with
    | zero => rfl
    | succ f => simp [chainOf, headId]
  | b :: rest, h, fuel, acc, hf => by
    cases fuel with
    | zero => simp at hf
    | succ f =>
      have hnz : b.id ≠ 0 := hwf.idNZ b h.1
      simp only [chainOf, headId, beq_iff_eq, hnz, if_false, findBlock_of hwf h.1]
      rw [h.2.1, chainOf_path hwf rest h.2.2.2.2 f (b :: acc) (by simp at hf; omega)]
      simp

theorem foldl_commitU_rev : ∀ (path : List Block), path.reverse.foldl commitU [] = rp path
  | [] => rfl
  | b :: rest => by
    rw [List.reverse_cons, List.foldl_append, foldl_commitU_rev rest]; rfl

theorem replay_eq_rp {bs : List Block} (hwf : WF bs) {path : List Block} (hc : ChainOK bs path) :
    replay bs (headId path) = rp path := by
  unfold replay
  have hlen : path.length ≤ bs.length + 1 := by
    have := List.Nodup.length_le_of_subset (ChainOK.nodup hc) (fun b hb => ChainOK.mem hc b hb)
    omega
  rw [chainOf_path hwf path hc _ [] hlen, List.append_nil, foldl_commitU_rev]

theorem valid_on {bs : List Block} (hwf : WF bs) {path : List Block} (hc : ChainOK bs path) {b : Block}
    (hb : b ∈ bs) (hp : b.parent = headId path) : validOn (rp path) b = true := by
  have := hwf.valid b hb
  rwa [hp, replay_eq_rp hwf hc] at this

/-- undoing the top block of a chain with ITS OWN undo data gives back the replay of the rest -/
theorem undo_top {bs : List Block} (hwf : WF bs) {b : Block} {rest : List Block} (hc : ChainOK bs (b :: rest))
    {u : List Coin} (hu : SameSet u (rp (b :: rest))) : SameSet (undoU u b b.spends) (rp rest) := by
  have hfresh : ∀ c ∈ b.creates, c ∉ rp rest := by
    intro c hcm
    have := hwf.fresh b hc.1 c hcm
    rwa [hc.2.1, replay_eq_rp hwf hc.2.2.2.2] at this
  exact (undoU_congr hu b b.spends).trans (undo_own_commit' (rp rest) b hc.2.2.2.1 hfresh)

end GocoinV.Proofs.C07
