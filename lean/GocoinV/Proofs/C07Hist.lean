/-
  Proofs.C07Hist — the restart keeps / re-establishes the invariant, whole histories keep it, and what
  NewChainExt makes of ANY crash prefix of ANY history.  Core Lean only.
-/
import GocoinV.Proofs.C07Run
namespace GocoinV.Proofs.C07
open GocoinV.Persist

local macro "rf[" n:term ", " id:term "]" : term => `(List.find? (fun (x : BRec) => x.id == $id) (Node.recs $n))

variable {P : Snap → Prop} {base : Disk} {T : List BlockId} {Q : List Block} {s : St}

/-! ### NewChainExt -/

def safeEff : Effect → Prop
  | .removeUndoTmp | .removeTmp _ => True
  | _ => False

theorem safe_ok (d : Disk) (e : Effect) (h : safeEff e) : EffOK P d e := by
  cases e <;> simp [safeEff] at h <;> trivial

theorem applyAll_safe : ∀ (es : List LEffect) (d : Disk), DiskInv P d → (∀ e ∈ es, safeEff e.1) → DiskInv P (applyAll d es)
  | [], _, h, _ => h
  | e :: es, d, h, hs => by
    rw [applyAll_cons]
    exact applyAll_safe es _ (apply_inv h e.1 (safe_ok d e.1 (hs e (by simp)))) (fun x hx => hs x (by simp [hx]))

theorem loadSnap_good {d : Disk} (hd : DiskInv P d) {sn : Snap} (h : loadSnap d = some sn) : GoodSnap P d sn := by
  unfold loadSnap at h
  split at h
  · rename_i x hx; cases h; exact hd.dbGood _ hx
  · exact hd.oldGood _ h

theorem find_idx_some (l : List IdxRec) (id : BlockId) (h : id ∈ l.map (·.id)) :
    (List.find? (fun (x : BRec) => x.id == id) (l.map (fun r => ({ id := r.id, trusted := r.trusted, onDisk := true } : BRec)))).isSome := by
  rw [List.find?_isSome]
  simp only [List.mem_map] at h
  obtain ⟨r, hr, e⟩ := h
  exact ⟨_, List.mem_map_of_mem hr, by simp [e]⟩

theorem find_idx_mem (l : List IdxRec) (id : BlockId) (r : BRec)
    (h : List.find? (fun (x : BRec) => x.id == id) (l.map (fun r => ({ id := r.id, trusted := r.trusted, onDisk := true } : BRec))) = some r) :
    r.onDisk = true ∧ id ∈ l.map (·.id) := by
  have hm := List.mem_of_find?_eq_some h
  have hid : r.id = id := by simpa using List.find?_some h
  simp only [List.mem_map] at hm
  obtain ⟨x, hx, rfl⟩ := hm
  exact ⟨rfl, by simp only [List.mem_map]; exact ⟨x, hx, hid⟩⟩

/-- the node NewChainExt builds from a good directory -/
theorem fresh_node {d1 : Disk} (hd1 : DiskInv P d1) (n : Node)
    (hrecs : n.recs = d1.idx.map (fun r => ({ id := r.id, trusted := r.trusted, onDisk := true } : BRec)))
    (htree : n.tree = d1.idx.map (fun r => ({ id := r.id, parent := r.parent, height := r.height } : TNode)))
    (hmem : n.mem = []) (htip : n.tip = 0 ∨ n.tip ∈ ids d1) : NodeInv n (ids d1) [] (· = 0) [] := by
  constructor
  · intro id r hr _; rw [hrecs] at hr; exact (find_idx_mem _ _ _ hr).2
  · intro id r hr ho; rw [hrecs] at hr; rw [(find_idx_mem _ _ _ hr).1] at ho; cases ho
  · intro b hb; cases hb
  · intro id hid; rw [hrecs]; exact find_idx_some _ _ hid
  · rw [hrecs]; exact htip.imp (fun x => x) (find_idx_some _ _)
  · intro t ht
    rw [htree] at ht
    simp only [List.mem_map] at ht
    obtain ⟨r, hr, rfl⟩ := ht
    right; rw [hrecs]; exact find_idx_some _ _ (by simp only [List.mem_map]; exact ⟨r, hr, rfl⟩)
  · intro t ht
    rw [htree] at ht
    simp only [List.mem_map] at ht
    obtain ⟨r, hr, rfl⟩ := ht
    rw [hrecs]; exact (hd1.idxClosed r hr).imp (fun x => x) (find_idx_some _ _)
  · intro b hb; rw [hmem] at hb; cases hb
  · intro id hid; cases hid
  · trivial

/-- NewChainExt on a good directory: it does not panic; it comes up at the snapshot the directory holds (or at
    genesis with the empty set when it holds none); the node it builds satisfies the invariant -/
theorem openNode_inv {d : Disk} (hd : DiskInv P d) (bigs : List Coin) (skip : Nat) :
    ∃ s1, openNode d bigs skip = .ok s1 ∧ InvQ ⟨P, d, (· = 0), [], [], []⟩ s1 ∧ s1.err = none ∧
      ((loadSnap d = none ∧ s1.n.tip = 0 ∧ s1.n.utxo = [] ∧ s1.n.lastHeight = 0) ∨
       (∃ sn, loadSnap d = some sn ∧ s1.n.tip = sn.tip ∧ s1.n.utxo = sn.coins ∧ s1.n.lastHeight = sn.height)) ∧
      inTree s1.n s1.n.tip = true ∧ s1.n.skip = skip := by
  have hd1 := recover_inv hd
  have hf := recover_fields d
  have hsn := recover_snap d
  have hrecs : ((recoverUnspent d).1.idx.filter (fun r => !r.invalid)) = (recoverUnspent d).1.idx := by
    rw [List.filter_eq_self]; intro r hr; simp [hd1.idxValid r hr]
  have htree := loadTree_all hd1
  have hls : loadSnap (recoverUnspent d).1 = loadSnap d := loadSnap_of _ _ hf.1 hf.2.1
  -- the history of the re-opening process so far: only removals
  have hhist : ∀ k, DiskInv P (applyAll d ((recoverUnspent d).2.1.take k)) := by
    intro k
    apply applyAll_safe _ _ hd
    intro e he
    have he := List.mem_of_mem_take he
    simp only [recoverUnspent, List.mem_append, List.mem_singleton, List.mem_map] at he
    rcases he with he | ⟨t, _, he⟩
    · rw [he]; trivial
    · rw [← he]; trivial
  have hsnapNone : ∀ n : Node, n.saving = none → (n.dirty = false → loadSnap (recoverUnspent d).1 = some ⟨n.tip, n.lastHeight, n.utxo⟩ ∨
      (loadSnap (recoverUnspent d).1 = none ∧ n.tip = 0 ∧ n.lastHeight = 0 ∧ n.utxo = [])) → SnapInv n (recoverUnspent d).1 :=
    fun n hs hc => ⟨fun sn k hk => (by rw [hs] at hk; cases hk), hc⟩
  unfold openNode
  simp only [hrecs, htree]
  cases hl : (recoverUnspent d).2.2 with
  | none =>
    have hl' : loadSnap d = none := by rw [← hsn, hl]
    refine ⟨_, rfl, ⟨rfl, hhist, ?_, ?_, rfl⟩, rfl, Or.inl ⟨hl', rfl, rfl, rfl⟩, rfl, rfl⟩
    · exact fresh_node hd1 _ rfl rfl rfl (Or.inl rfl)
    · exact hsnapNone _ rfl (fun _ => Or.inr ⟨by rw [hls, hl'], rfl, rfl, rfl⟩)
  | some sn =>
    have hl' : loadSnap d = some sn := by rw [← hsn, hl]
    have hg := loadSnap_good hd1 (by rw [hls]; exact hl')
    have hcheck : (sn.tip != 0 && !((recoverUnspent d).1.idx.map (fun r => ({ id := r.id, parent := r.parent, height := r.height } : TNode))).any (·.id == sn.tip)) = false := by
      rcases hg.2 with h0 | h0
      · simp [h0]
      · simp only [ids, List.mem_map] at h0
        obtain ⟨r, hr, e⟩ := h0
        simp only [Bool.and_eq_false_imp, Bool.not_eq_false', List.any_eq_true, List.mem_map]
        intro _
        exact ⟨_, ⟨r, hr, rfl⟩, by simp [e]⟩
    simp only [hcheck, Bool.false_eq_true, if_false]
    refine ⟨_, rfl, ⟨rfl, hhist, ?_, ?_, rfl⟩, rfl, Or.inr ⟨sn, hl', rfl, rfl, rfl⟩, ?_, rfl⟩
    · exact fresh_node hd1 _ rfl rfl rfl hg.2
    · exact hsnapNone _ rfl (fun _ => Or.inl (by rw [hls, hl']))
    · unfold inTree
      rcases hg.2 with h0 | h0
      · simp [h0]
      · simp only [ids, List.mem_map] at h0
        obtain ⟨r, hr, e⟩ := h0
        simp only [Bool.or_eq_true, beq_iff_eq, List.any_eq_true, List.mem_map]
        exact Or.inr ⟨_, ⟨r, hr, rfl⟩, by simp [e]⟩

/-! ### the client's recovery loop -/

theorem abortSave_recs (s : St) : (abortSave s).n.recs = s.n.recs := by
  unfold abortSave; split <;> rfl

theorem feedPath_inv : ∀ (p : List BlockId) (s : St) (Q : List Block), InvQ ⟨P, base, (· = 0), T, Q, Q⟩ s →
    ∃ q, InvQ ⟨P, base, (· = 0), T, q, q⟩ (feedPath s p)
  | [], _, Q, h => ⟨Q, h⟩
  | id :: rest, s, Q, h => by
    unfold feedPath
    split
    · exact ⟨Q, h⟩
    · rename_i herr
      split
      · exact ⟨Q, h.fail _⟩
      · rename_i b hb
        have herr' : (abortSave s).err = none := by
          rw [abortSave_err]
          cases hx : s.err with
          | none => rfl
          | some v => simp [hx] at herr
        have hp : b.parent = 0 ∨ (rf[(abortSave s).n, b.parent]).isSome := by
          rw [abortSave_recs]
          exact (h.disk.datParent b (List.mem_of_find?_eq_some hb)).imp (fun x => x) (h.node.idxRec _)
        obtain ⟨q, h1⟩ := commitBlock_inv (abortSave_inv h) b herr' hp (fun i hi => Or.inl hi)
        exact feedPath_inv rest _ q h1

theorem clientRecover_inv (h : InvQ ⟨P, base, (· = 0), T, Q, Q⟩ s) :
    ∃ q, InvQ ⟨P, base, (· = 0), T, q, q⟩ (clientRecover s) := by
  unfold clientRecover
  simp only []
  split
  · exact ⟨Q, h⟩
  · split
    · exact ⟨Q, h.fail _⟩
    · exact feedPath_inv _ _ Q h

/-- a state produced by a restart on the running node's directory continues the running node's history -/
theorem rebase {s s2 : St} {q : List Block} (hs : Hist ⟨P, base, (· = 0), [], Q, Q⟩ s)
    (h2 : InvQ ⟨P, s.d, (· = 0), [], q, q⟩ s2) (n' : Node) (f : Bool)
    (h1 : n'.recs = s2.n.recs) (h2' : n'.tip = s2.n.tip) (h3 : n'.tree = s2.n.tree) (h4 : n'.mem = s2.n.mem)
    (h5 : n'.utxo = s2.n.utxo) (h6 : n'.lastHeight = s2.n.lastHeight) (h7 : n'.dirty = s2.n.dirty)
    (h8 : n'.saving = s2.n.saving) (h9 : n'.queue = s2.n.queue) :
    InvQ ⟨P, base, (· = 0), [], q, q⟩ { s2 with es := s.es ++ s2.es, foreign := f, n := n' } := by
  have hb := (h2.setNode n' h1 h2' h3 h4 h5 h6 h7 h8 h9)
  refine ⟨?_, ?_, hb.node, hb.snap, hb.qeq⟩
  · show s2.d = applyAll base (s.es ++ s2.es)
    rw [applyAll_append, ← hs.hist]; exact h2.hist
  · intro k
    show DiskInv P (applyAll base ((s.es ++ s2.es).take k))
    rw [List.take_append, applyAll_append]
    by_cases hk : k ≤ s.es.length
    · have : k - s.es.length = 0 := by omega
      rw [this, List.take_zero, applyAll_nil]; exact hs.pref k
    · rw [List.take_of_length_le (by omega), ← hs.hist]; exact h2.pref _

/-! ### one operation, whole histories -/

theorem step_inv (h : InvQ ⟨P, base, (· = 0), [], Q, Q⟩ s) (hP : P ⟨s.n.tip, s.n.lastHeight, s.n.utxo⟩) (op : Op) :
    ∃ q, InvQ ⟨P, base, (· = 0), [], q, q⟩ (step s op) := by
  cases op with
  | submit b => exact submit_inv h b
  | idle => exact idle_inv h hP
  | close => exact close_inv h hP
  | skip k => exact ⟨Q, h.setNode _ rfl rfl rfl rfl rfl rfl rfl rfl rfl⟩
  | pause b => exact ⟨Q, h.setNode _ rfl rfl rfl rfl rfl rfl rfl rfl rfl⟩
  | hurry =>
    simp only [step]
    split
    · exact ⟨Q, h⟩
    · exact ⟨Q, hurrySave_inv h⟩
  | reopen =>
    simp only [step]
    split
    · exact ⟨Q, h⟩
    · unfold recover
      obtain ⟨s1, ho, h1, _, _, _, _⟩ := openNode_inv h.disk s.n.bigs 0
      rw [ho]
      simp only []
      obtain ⟨q, h2⟩ := clientRecover_inv h1
      split
      · exact ⟨Q, (h.fail _).setForeign _⟩
      · rename_i s' heq
        split at heq
        · cases heq
        · cases heq
          exact ⟨q, rebase h.toHist h2 _ _ rfl rfl rfl rfl rfl rfl rfl rfl rfl⟩

theorem foldl_step_inv : ∀ (ops : List Op) (s : St) (Q : List Block), InvQ ⟨P, base, (· = 0), [], Q, Q⟩ s →
    (∀ j, j < ops.length → P ⟨((ops.take j).foldl step s).n.tip, ((ops.take j).foldl step s).n.lastHeight, ((ops.take j).foldl step s).n.utxo⟩) →
    ∃ q, InvQ ⟨P, base, (· = 0), [], q, q⟩ (ops.foldl step s)
  | [], _, Q, h, _ => ⟨Q, h⟩
  | op :: rest, s, _, h, hP => by
    obtain ⟨q, h1⟩ := step_inv h (hP 0 (by simp)) op
    exact foldl_step_inv rest _ q h1 (fun j hj => by
      have := hP (j + 1) (by simp; omega)
      simpa using this)

theorem init_inv (bigs : List Coin) : InvQ ⟨P, {}, (· = 0), [], [], []⟩ { n := { bigs := bigs }, d := {} } := by
  refine ⟨rfl, ?_, ?_, ?_, rfl⟩
  · intro k; simp only [List.take_nil]; exact DiskInv.empty P
  · constructor <;> simp [ids]
    trivial
  · exact ⟨fun sn k hk => (by cases hk), fun _ => Or.inr ⟨rfl, rfl, rfl, rfl⟩⟩

/-- "a (tip, unspent set) pair the running node held at an operation boundary" -/
def PastState (bigs : List Coin) (ops : List Op) (sn : Snap) : Prop :=
  ∃ j, j ≤ ops.length ∧ (run bigs (ops.take j)).n.tip = sn.tip ∧ (run bigs (ops.take j)).n.utxo = sn.coins ∧
    (run bigs (ops.take j)).n.lastHeight = sn.height

theorem run_inv (bigs : List Coin) (ops : List Op) :
    ∃ q, InvQ ⟨PastState bigs ops, {}, (· = 0), [], q, q⟩ (run bigs ops) := by
  unfold run
  apply foldl_step_inv ops _ [] (init_inv bigs)
  intro j hj
  exact ⟨j, by omega, rfl, rfl, rfl⟩

/-! ### the two end results -/

/-- NewChainExt on the directory left by a crash after ANY k effects of ANY history -/
theorem crash_reopen' (bigs : List Coin) (ops : List Op) (k : Nat) :
    ∃ s1, openNode (applyAll {} ((run bigs ops).es.take k)) bigs 0 = .ok s1 ∧
      ((s1.n.tip = 0 ∧ s1.n.utxo = [] ∧ s1.n.lastHeight = 0) ∨ PastState bigs ops ⟨s1.n.tip, s1.n.lastHeight, s1.n.utxo⟩) ∧
      inTree s1.n s1.n.tip = true ∧
      (∀ r ∈ s1.d.idx, (∃ b ∈ s1.d.dat, b.id = r.id) ∧ r.invalid = false ∧ (r.parent = 0 ∨ ∃ r' ∈ s1.d.idx, r'.id = r.parent)) ∧
      (∀ b ∈ s1.d.dat, b.parent = 0 ∨ ∃ r ∈ s1.d.idx, r.id = b.parent) := by
  obtain ⟨q, h⟩ := run_inv bigs ops
  have hd : DiskInv (PastState bigs ops) (applyAll {} ((run bigs ops).es.take k)) := h.pref k
  obtain ⟨s1, ho, h1, _, hcase, hin, _⟩ := openNode_inv hd bigs 0
  have hd1 : DiskInv (PastState bigs ops) s1.d := h1.disk
  have memids : ∀ x, x ∈ ids s1.d → ∃ r ∈ s1.d.idx, r.id = x := by
    intro x hx; simpa [ids] using hx
  refine ⟨s1, ho, ?_, hin, ?_, ?_⟩
  · rcases hcase with ⟨_, h0, h1', h2'⟩ | ⟨sn, hl, ht, hu, hh⟩
    · exact Or.inl ⟨h0, h1', h2'⟩
    · right; rw [ht, hu, hh]; exact (loadSnap_good hd hl).1
  · intro r hr
    refine ⟨hd1.datCovers r.id (by simp only [ids, List.mem_map]; exact ⟨r, hr, rfl⟩), hd1.idxValid r hr, ?_⟩
    exact (hd1.idxClosed r hr).imp (fun x => x) (memids _)
  · intro b hb
    exact (hd1.datParent b hb).imp (fun x => x) (memids _)

theorem close_err_some (s : St) (h : s.err.isSome = true) : close s = s := by
  unfold close; simp [h]

theorem hurrySave_dirty (s : St) (h : s.n.saving.isSome = true) : (hurrySave s).n.dirty = false := by
  unfold hurrySave
  split
  · rename_i hn; rw [hn] at h; cases h
  · rfl

theorem startSave_true_dirty (s : St) (h : ¬ s.n.saving.isSome = true) : (startSave s true).n.dirty = false := by
  unfold startSave
  rw [if_neg h]
  simp only [Bool.not_true, Bool.and_false, Bool.false_and, Bool.false_eq_true, if_false]
  rfl

theorem close_clean (s : St) (h : s.err = none) : (close s).n.dirty = false := by
  unfold close
  rw [if_neg (by simp [h])]
  simp only []
  split
  · split
    · rename_i hs; exact hurrySave_dirty _ hs
    · rename_i hs; exact startSave_true_dirty _ hs
  · rename_i hd; simpa using hd

/-- NewChainExt after a clean shutdown: exactly the node's tip, unspent set (same list) and height -/
theorem clean_restart_reopen' (bigs : List Coin) (ops : List Op) (herr : (run bigs (ops ++ [.close])).err = none) :
    ∃ s1, openNode (run bigs (ops ++ [.close])).d bigs 0 = .ok s1 ∧
      s1.n.tip = (run bigs (ops ++ [.close])).n.tip ∧ s1.n.utxo = (run bigs (ops ++ [.close])).n.utxo ∧
      s1.n.lastHeight = (run bigs (ops ++ [.close])).n.lastHeight := by
  obtain ⟨q, h⟩ := run_inv bigs (ops ++ [.close])
  have hrun : run bigs (ops ++ [.close]) = close (run bigs ops) := by
    simp [run, List.foldl_append, step]
  have herr0 : (run bigs ops).err = none := by
    cases hx : (run bigs ops).err with
    | none => rfl
    | some v =>
      rw [hrun, close_err_some _ (by rw [hx]; rfl), hx] at herr; cases herr
  have hdirty : (run bigs (ops ++ [.close])).n.dirty = false := by rw [hrun]; exact close_clean _ herr0
  obtain ⟨s1, ho, _, _, hcase, _, _⟩ := openNode_inv h.disk bigs 0
  refine ⟨s1, ho, ?_⟩
  rcases h.snap.cleanOK hdirty with hl | ⟨hl, h1, h2, h3⟩
  · rcases hcase with ⟨hn, _⟩ | ⟨sn, hs, a1, a2, a3⟩
    · rw [hn] at hl; cases hl
    · rw [hs] at hl; cases hl; exact ⟨a1, a2, a3⟩
  · rcases hcase with ⟨_, a1, a2, a3⟩ | ⟨sn, hs, _⟩
    · exact ⟨a1.trans h1.symm, a2.trans h3.symm, a3.trans h2.symm⟩
    · rw [hs] at hl; cases hl

end GocoinV.Proofs.C07
