/-
  Proofs.C06Tree — the block tree of the chain model as a partial function `getNode c : id ⇀ node`:
  how the list operations of the model (modNode / append / filter) act on it, and the consequences of the
  well-formedness invariant `TreeWF` (Spec/ChainReplay): heights, ancestors (`Desc`), branches (`Linked`),
  every height below a node is inhabited (so heights are below the number of nodes).
-/
import GocoinV.Spec.ChainReplay
import GocoinV.Proofs.C06Path
namespace GocoinV.ChainTree
open GocoinV.UtxoOps

-- ------------------------------------------------------------------------------------------ getNode and the list operations

theorem getNode_nodes {c c' : Chain} (h : c'.nodes = c.nodes) (x : Nat) : getNode c' x = getNode c x := by
  unfold getNode; rw [h]

theorem getNode_mem {c : Chain} {x : Nat} {n : Node} (h : getNode c x = some n) : n ∈ c.nodes :=
  List.mem_of_find?_eq_some h

theorem getNode_modNode_eq (c : Chain) (id x : Nat) (f : Node → Node) (hf : ∀ m, (f m).id = m.id) :
    getNode (modNode c id f) x = (getNode c x).map (fun n => if n.id == id then f n else n) := by
  unfold getNode modNode
  simp only
  rw [List.find?_map]
  congr 1
  congr 1
  funext m
  simp only [Function.comp]
  by_cases h : (m.id == id) = true
  · simp only [h, if_true, hf]
  · simp only [h, Bool.false_eq_true, if_false]

theorem getNode_append_eq (c : Chain) (n : Node) (x : Nat) :
    getNode { c with nodes := c.nodes ++ [n] } x =
      match getNode c x with
      | some m => some m
      | none => if n.id == x then some n else none := by
  unfold getNode
  simp only [List.find?_append]
  cases List.find? (fun n => n.id == x) c.nodes with
  | some m => rfl
  | none => simp [List.find?_cons]; split <;> simp_all

theorem getNode_filter_eq (c : Chain) (q : Nat → Bool) (x : Nat) :
    getNode { c with nodes := c.nodes.filter (fun m => q m.id) } x = if q x then getNode c x else none := by
  unfold getNode
  simp only [List.find?_filter]
  by_cases hq : q x = true
  · simp only [hq, if_true]
    congr 1
    funext m
    by_cases hm : (m.id == x) = true
    · have : m.id = x := by simpa using hm
      simp [this, hq]
    · simp [hm]
  · simp only [hq, Bool.false_eq_true, if_false]
    rw [List.find?_eq_none]
    intro m _
    by_cases hm : (m.id == x) = true
    · have : m.id = x := by simpa using hm
      simp [this, hq]
    · simp [hm]

-- ------------------------------------------------------------------------------------------ consequences of TreeWF

theorem headId_eq (c : Chain) (p : List PE) : headId c p = headR c.root p := by cases p <;> rfl

theorem TreeWF.height_pos {U : List Block} {c : Chain} (w : TreeWF U c) {x : Nat} {n : Node}
    (h : getNode c x = some n) (hx : x ≠ c.root) : n.height ≥ 1 := by
  obtain ⟨p, _, hh, _⟩ := w.par x n h hx; omega

theorem TreeWF.root_of_height0 {U : List Block} {c : Chain} (w : TreeWF U c) {x : Nat} {n : Node}
    (h : getNode c x = some n) (h0 : n.height = 0) : x = c.root := by
  apply Classical.byContradiction
  intro hx
  have := w.height_pos h hx
  omega

theorem Desc.trans {c : Chain} {a b x : Nat} (h1 : Desc c a b) (h2 : Desc c b x) : Desc c a x := by
  induction h2 with
  | refl => exact h1
  | step hn hx _ ih => exact Desc.step hn hx ih

theorem Desc.parent {c : Chain} {x : Nat} {n : Node} (hn : getNode c x = some n) (hx : x ≠ c.root) :
    Desc c n.parent x := Desc.step hn hx Desc.refl

theorem Desc.root_only {c : Chain} {a : Nat} (h : Desc c a c.root) : a = c.root := by
  cases h with
  | refl => rfl
  | step _ hx _ => exact absurd rfl hx

/-- an ancestor is in the tree, not higher, and at the same height only if it is the node itself -/
theorem Desc.height {U : List Block} {c : Chain} (w : TreeWF U c) {a x : Nat} (h : Desc c a x) :
    ∀ nx, getNode c x = some nx → ∃ na, getNode c a = some na ∧ na.height ≤ nx.height ∧ (na.height = nx.height → a = x) := by
  induction h with
  | refl => intro nx hx; exact ⟨nx, hx, Nat.le_refl _, fun _ => rfl⟩
  | @step x n hn hx _ ih =>
    intro nx hnx
    rw [hn] at hnx; cases hnx
    obtain ⟨p, hp, hh, _⟩ := w.par x n hn hx
    obtain ⟨na, hna, hle, _⟩ := ih p hp
    exact ⟨na, hna, by omega, fun he => by omega⟩

/-- a proper descendant passes through a child of the ancestor -/
theorem Desc.child_split {c : Chain} {a x : Nat} (h : Desc c a x) (hne : a ≠ x) :
    ∃ ch n, getNode c ch = some n ∧ n.parent = a ∧ ch ≠ c.root ∧ Desc c ch x := by
  induction h with
  | refl => exact absurd rfl hne
  | @step x n hn hx hd ih =>
    by_cases hp : a = n.parent
    · exact ⟨x, n, hn, hp.symm, hx, Desc.refl⟩
    · obtain ⟨ch, m, hm, hmp, hcr, hdd⟩ := ih hp
      exact ⟨ch, m, hm, hmp, hcr, Desc.step hn hx hdd⟩

/-- a node that is in the block store has its data -/
theorem TreeWF.stored_has_data {U : List Block} {c : Chain} (w : TreeWF U c) {x : Nat} {n : Node} {s : Stored}
    (hn : getNode c x = some n) (hs : alookup x c.store = some s) : n.txCount ≠ 0 := by
  intro h0
  rw [w.hdr x n hn h0] at hs; cases hs

/-- the block of a node with data: in `U`, same parent / bits / transaction count, stored with its transactions -/
theorem TreeWF.blkData {U : List Block} {c : Chain} (w : TreeWF U c) {x : Nat} {n : Node}
    (hn : getNode c x = some n) (hx : x ≠ c.root) (hd : n.txCount ≠ 0) :
    ∃ b ∈ U, b.id = x ∧ b.parent = n.parent ∧ b.bits = n.bits ∧ n.txCount = b.txs.length ∧
      ∃ s, alookup x c.store = some s ∧ s.txs = b.txs := by
  obtain ⟨b, hb, h1, h2, h3, h4⟩ := w.blk x n hn hx
  obtain ⟨h5, s, h6, h7⟩ := h4 hd
  exact ⟨b, hb, h1, h2, h3, h5, s, h6, h7⟩

/-- the parent of a node with data has its data (or is the root) -/
theorem TreeWF.parent_has_data {U : List Block} {c : Chain} (w : TreeWF U c) {x : Nat} {n : Node}
    (hn : getNode c x = some n) (hx : x ≠ c.root) (hd : HasData c x n) :
    ∃ p, getNode c n.parent = some p ∧ HasData c n.parent p := by
  rcases hd with h | h
  · exact absurd h hx
  · exact w.anc x n hn hx h

/-- every ancestor of a node with data has its data -/
theorem Desc.has_data {U : List Block} {c : Chain} (w : TreeWF U c) {a x : Nat} (h : Desc c a x) :
    ∀ nx, getNode c x = some nx → HasData c x nx → ∀ na, getNode c a = some na → HasData c a na := by
  induction h with
  | refl => intro nx hx hd na ha; rw [hx] at ha; cases ha; exact hd
  | @step x n hn hx _ ih =>
    intro nx hnx hd na ha
    rw [hn] at hnx; cases hnx
    obtain ⟨p, hp, hpd⟩ := w.parent_has_data hn hx hd
    exact ih p hp hpd na ha

theorem Linked_no_root {U : List Block} {c : Chain} (w : TreeWF U c) {p : List PE} (h : Linked c p) :
    ∀ e ∈ p, e.id ≠ c.root := by
  induction p with
  | nil => intro e he; cases he
  | cons a rest ih =>
    intro e he
    rcases List.mem_cons.mp he with rfl | h2
    · obtain ⟨_, ⟨blk, hb, _⟩, _⟩ := h
      exact (w.store _ _ hb).1
    · exact ih h.2.2 e h2

/-- the head of a branch of length k is a node of height k -/
theorem Linked_head_height {U : List Block} {c : Chain} (w : TreeWF U c) {p : List PE} (h : Linked c p) :
    ∃ t, getNode c (headId c p) = some t ∧ t.height = p.length := by
  induction p with
  | nil => obtain ⟨r, hr, h0, _⟩ := w.root; exact ⟨r, hr, h0⟩
  | cons e rest ih =>
    obtain ⟨⟨n, hn, hnp⟩, ⟨blk, hb, _⟩, hl⟩ := h
    obtain ⟨t, ht, hth⟩ := ih hl
    obtain ⟨p, hp, hh, _⟩ := w.par e.id n hn (w.store _ _ hb).1
    rw [hnp, ht] at hp; cases hp
    exact ⟨n, hn, by simp only [List.length_cons]; omega⟩

theorem Linked_UChain {U : List Block} {c : Chain} (w : TreeWF U c) {p : List PE} (h : Linked c p) :
    UChain U c.root p := by
  induction p with
  | nil => trivial
  | cons e rest ih =>
    obtain ⟨⟨n, hn, hnp⟩, ⟨blk, hb, hbt⟩, hl⟩ := h
    obtain ⟨b, hbU, hid, hpar, _, _, s, hs, hst⟩ := w.blkData hn (w.store _ _ hb).1 (w.stored_has_data hn hb)
    rw [hb] at hs; cases hs
    exact ⟨⟨b, hbU, hid, by rw [← hst, hbt], by rw [hpar, hnp, headId_eq]⟩, ih hl⟩

/-- every node of the tree THAT HAS ITS DATA is the head of a branch (of stored blocks) whose length is its height -/
theorem branch_exists {U : List Block} {c : Chain} (w : TreeWF U c) :
    ∀ (h x : Nat) (n : Node), getNode c x = some n → HasData c x n → n.height = h →
      ∃ p, Linked c p ∧ headId c p = x ∧ p.length = h := by
  intro h
  induction h with
  | zero => intro x n hn _ h0; exact ⟨[], trivial, (w.root_of_height0 hn h0).symm, rfl⟩
  | succ h ih =>
    intro x n hn hdat hh
    have hx : x ≠ c.root := by
      intro e
      obtain ⟨r, hr, h0, _⟩ := w.root
      rw [e, hr] at hn; cases hn; omega
    obtain ⟨p, hp, hph, _⟩ := w.par x n hn hx
    obtain ⟨p', hp', hpd⟩ := w.parent_has_data hn hx hdat
    rw [hp] at hp'; cases hp'
    obtain ⟨q, hq, hqh, hql⟩ := ih n.parent p hp hpd (by omega)
    have htc : n.txCount ≠ 0 := hdat.resolve_left hx
    obtain ⟨b, _, _, _, _, _, s, hs, _⟩ := w.blkData hn hx htc
    exact ⟨⟨x, s.txs⟩ :: q, ⟨⟨n, hn, hqh.symm⟩, ⟨s, hs, rfl⟩, hq⟩, rfl, by simp only [List.length_cons, hql]⟩

/-- an ancestor-or-self of the head of a branch splits the branch -/
theorem path_split {c : Chain} {a : Nat} : ∀ (path : List PE), Linked c path → Desc c a (headId c path) →
    ∃ pre post, path = pre ++ post ∧ headId c post = a ∧ (∀ e ∈ pre, e.id ≠ a) := by
  intro path
  induction path with
  | nil =>
    intro _ hd
    exact ⟨[], [], rfl, (Desc.root_only hd).symm, fun _ he => by cases he⟩
  | cons e rest ih =>
    intro hl hd
    by_cases hea : e.id = a
    · exact ⟨[], e :: rest, rfl, hea, fun _ he => by cases he⟩
    · obtain ⟨⟨n, hn, hnp⟩, _, hl2⟩ := hl
      have hd' : Desc c a (headId c rest) := by
        cases hd with
        | refl => exact absurd rfl hea
        | step hn' _ hd2 =>
          have hn'' : getNode c e.id = some _ := hn'
          rw [hn] at hn''; cases hn''
          rw [← hnp]; exact hd2
      obtain ⟨pre, post, hpp, hh, hne⟩ := ih hl2 hd'
      refine ⟨e :: pre, post, by rw [hpp]; rfl, hh, ?_⟩
      intro x hx
      rcases List.mem_cons.mp hx with rfl | h2
      · exact hea
      · exact hne x h2

theorem range_sub_length : ∀ (h : Nat) (l : List Nat), (∀ k, k ≤ h → k ∈ l) → h < l.length := by
  intro h
  induction h with
  | zero =>
    intro l hl
    have := hl 0 (Nat.le_refl _)
    cases l with
    | nil => cases this
    | cons _ _ => simp
  | succ h ih =>
    intro l hl
    have hm := hl (h + 1) (Nat.le_refl _)
    have := ih (l.erase (h + 1)) (fun k hk => (List.mem_erase_of_ne (by omega)).mpr (hl k (by omega)))
    rw [List.length_erase_of_mem hm] at this
    have : l.length ≥ 1 := by cases l with | nil => cases hm | cons _ _ => simp
    omega

theorem heights_inhabited {U : List Block} {c : Chain} (w : TreeWF U c) :
    ∀ (h x : Nat) (n : Node), getNode c x = some n → n.height = h → ∀ k, k ≤ h → k ∈ c.nodes.map (·.height) := by
  intro h
  induction h with
  | zero =>
    intro x n hn h0 k hk
    have : k = 0 := by omega
    subst this
    exact List.mem_map.mpr ⟨n, getNode_mem hn, h0⟩
  | succ h ih =>
    intro x n hn hh k hk
    by_cases hk2 : k = h + 1
    · subst hk2; exact List.mem_map.mpr ⟨n, getNode_mem hn, hh⟩
    · have hx : x ≠ c.root := by
        intro e
        obtain ⟨r, hr, h0, _⟩ := w.root
        rw [e, hr] at hn; cases hn; omega
      obtain ⟨p, hp, hph, _⟩ := w.par x n hn hx
      exact ih n.parent p hp (by omega) k (by omega)

/-- **heights are below the number of nodes** (every level below a node is inhabited) -/
theorem height_lt_length {U : List Block} {c : Chain} (w : TreeWF U c) {x : Nat} {n : Node}
    (hn : getNode c x = some n) : n.height < c.nodes.length := by
  have := range_sub_length n.height (c.nodes.map (·.height)) (heights_inhabited w n.height x n hn rfl)
  simpa using this

end GocoinV.ChainTree
