/-
  Proofs.C12Seed4 — save + reload keeps every pooled record (helper for Props/C12 `reload_keeps_every_record`).
  Core Lean only.
-/
import GocoinV.Proofs.C12Inv
namespace GocoinV.Mempool

/-- the pool of `reload K s` is the pool part of `reloadBase` (the rejected records are added behind it and do not
    touch TransactionsToSend) -/
theorem reload_pool (K : Keys) (s : State) : (reload K s).pool = reloadPool K s := by
  rw [reload_eq]
  have h : ∀ st, st.pool = reloadPool K s → (s.ring.foldl (reloadRej K s) st).pool = reloadPool K s := by
    intro st hst
    apply foldl_inv (fun st => st.pool = reloadPool K s) (reloadRej K s) _ s.ring st hst
    intro st slot hst
    unfold reloadRej
    split
    · exact hst
    · split
      · exact hst
      · exact (rejAdd_core K st _).1.trans hst
  exact h _ rfl

theorem reload_pool_keys (K : Keys) (s : State) : (reload K s).pool.map Prod.fst = s.pool.map Prod.fst := by
  rw [reload_pool]; exact reloadPool_keys K s

theorem reload_pool_txs (K : Keys) (s : State) :
    (reload K s).pool.map (fun p => p.2.tx) = s.pool.map (fun p => p.2.tx) := by
  rw [reload_pool]
  unfold reloadPool
  rw [List.map_map]
  apply List.map_congr_left
  intro p _
  exact reloadRec_tx K s p.1 p.2

end GocoinV.Mempool
