/-
  Proofs.C04Final — assembling `connect_sound`: the context-free checks, the coinbase step, the final tests of
  commitTxs, and `abs (applyChanges …) = view of the final locals`.
-/
import GocoinV.Proofs.C04Sim2
import GocoinV.Proofs.C04Checks
namespace GocoinV.Proofs.C04
open GocoinV GocoinV.Connect
open GocoinV.Spec.Connect (Coin Utxo absGet absList Acc connectTxs connectBlock addOuts outSum subsidy seqLockOk)

/-! ### script verdicts: commitTxs succeeds only if every input script verified -/

theorem procInputs_scriptBad (cfg : Cfg) (db : DB) (b : Block) (ins : List TxIn) (s s' : St) (a a' : Nat)
    (h : procInputs cfg db b ins s a = .ok (s', a')) : s'.scriptBad = s.scriptBad := by
  induction ins generalizing s a with
  | nil =>
    simp only [procInputs, Except.ok.injEq, Prod.mk.injEq] at h
    obtain ⟨h1, _⟩ := h
    subst h1; rfl
  | cons i r ih =>
    unfold procInputs at h
    cases hp : procInput cfg db b i s a with
    | error e => simp [hp] at h
    | ok q =>
      obtain ⟨s1, a1⟩ := q
      simp only [hp] at h
      obtain ⟨_, _, _, f4⟩ := procInput_fields cfg db b i s s1 a a1 hp
      exact (ih s1 a1 h).trans f4

theorem procTx_scriptBad (cfg : Cfg) (db : DB) (b : Block) (isCb : Bool) (tx : Tx) (s s' : St)
    (h : procTx cfg db b isCb tx s = .ok s') :
    s'.scriptBad = (s.scriptBad || (!isCb && tx.ins.any (fun i => !i.scriptOk))) := by
  unfold procTx at h
  cases h1 : txInputs cfg db b isCb tx s with
  | error e => simp [h1] at h
  | ok q =>
    obtain ⟨s1, a⟩ := q
    simp only [h1] at h
    cases h2 : settle cfg isCb s1 a (sumOuts tx.outs) with
    | error e => simp [h2] at h
    | ok s2 =>
      simp only [h2, Except.ok.injEq] at h
      obtain ⟨_, o2⟩ := settle_other cfg isCb s1 s2 a _ h2
      subst h
      simp only []
      rw [o2]
      unfold txInputs at h1
      cases isCb with
      | true =>
        simp only [↓reduceIte] at h1
        split at h1
        · cases h1
        · simp only [Except.ok.injEq, Prod.mk.injEq] at h1
          obtain ⟨e1, _⟩ := h1
          subst e1; simp
      | false =>
        simp only [Bool.false_eq_true, ↓reduceIte] at h1
        split at h1
        · cases h1
        · rename_i sp a0 hp
          simp only [Except.ok.injEq, Prod.mk.injEq] at h1
          obtain ⟨e1, _⟩ := h1
          subst e1
          have := procInputs_scriptBad cfg db b tx.ins _ sp 0 a0 hp
          simp only [] at this ⊢
          rw [this]; simp

theorem procTxs_scripts (cfg : Cfg) (db : DB) (b : Block) (txs : List Tx) (s s' : St)
    (h : procTxs cfg db b false txs s = .ok s') (hb : s'.scriptBad = false) :
    s.scriptBad = false ∧ ∀ tx ∈ txs, ∀ i ∈ tx.ins, i.scriptOk = true := by
  induction txs generalizing s with
  | nil =>
    simp only [procTxs, Except.ok.injEq] at h
    subst h
    exact ⟨hb, by simp⟩
  | cons tx r ih =>
    unfold procTxs at h
    cases hp : procTx cfg db b false tx s with
    | error e => simp [hp] at h
    | ok s1 =>
      simp only [hp] at h
      obtain ⟨g1, g2⟩ := ih s1 h
      have := procTx_scriptBad cfg db b false tx s s1 hp
      rw [g1] at this
      simp only [Bool.not_false, Bool.true_and] at this
      have h3 : s.scriptBad = false ∧ tx.ins.any (fun i => !i.scriptOk) = false := by
        generalize s.scriptBad = x at this
        generalize tx.ins.any (fun i => !i.scriptOk) = y at this
        cases x <;> cases y <;> simp at this ⊢
      refine ⟨h3.1, ?_⟩
      intro t ht i hi
      simp only [List.mem_cons] at ht
      rcases ht with ht | ht
      · subst ht
        have := List.any_eq_false.mp h3.2 i hi
        simpa using this
      · exact g2 t ht i hi

/-! ### the coinbase step -/

theorem procTx_coinbase (db : DB) (b : Block) (cb : Tx) (s1 : St)
    (h : procTx Cfg.current db b true cb (St.init b) = .ok s1) :
    s1.deled = [] ∧ s1.blUnsp = [(cb.txid, (true, cb.outs.map some))]
    ∧ s1.sigops = u32 (4 * legacySigOps cb) ∧ s1.fees = 0 ∧ s1.sumOut = sumOuts cb.outs
    ∧ s1.sumIn = getBlockReward b.height ∧ s1.scriptBad = false := by
  unfold procTx at h
  cases h1 : txInputs Cfg.current db b true cb (St.init b) with
  | error e => simp [h1] at h
  | ok q =>
    obtain ⟨s0, a⟩ := q
    simp only [h1] at h
    unfold txInputs at h1
    simp only [↓reduceIte] at h1
    split at h1
    · cases h1
    · simp only [Except.ok.injEq, Prod.mk.injEq] at h1
      obtain ⟨e1, e2⟩ := h1
      subst e1; subst e2
      unfold settle at h
      have hmr : Cfg.current.moneyRange = true := rfl
      simp only [hmr, ↓reduceIte, Except.ok.injEq] at h
      subst h
      simp only [St.init, aSet, true_and]
      refine ⟨?_, trivial⟩
      have hw : WITNESS_SCALE_FACTOR = 4 := rfl
      rw [hw]; unfold u32; omega

/-! ### the result of UnspentDB.commit is the view of the final locals -/

theorem view_applyChanges (mtpOf : Nat → Nat) (db : DB) (b : Block) (s : St)
    (hn : (keys s.deled).Nodup) (hinj : ((keys s.blUnsp).map key8).Nodup)
    (hfree : ∀ k ∈ keys s.blUnsp, aGet db (key8 k) = none) (hmtp : mtpOf b.height = b.mtp) (op : OutPoint) :
    absGet mtpOf (applyChanges Cfg.current db b s) op = view mtpOf db b s op := by
  unfold applyChanges
  simp only [addList_eq]
  rw [foldl_dbAdd_abs mtpOf b s.blUnsp hinj _ (fun k hk => foldl_dbDel_none _ db _ (hfree k hk))]
  unfold view
  cases hbu : aGet s.blUnsp op.hash with
  | some ct =>
    obtain ⟨cb, t⟩ := ct
    have hk : op.hash ∈ keys s.blUnsp := by
      apply Classical.byContradiction
      intro hc; rw [(aGet_none_iff _ _).mpr hc] at hbu; cases hbu
    have hu : unspentGet Cfg.current db op = none := by
      cases hu : unspentGet Cfg.current db op with
      | none => rfl
      | some f =>
        obtain ⟨r, hr, _⟩ := unspentGet_slot db op f hu
        rw [hfree _ hk] at hr; cases hr
    simp only [hu, hmtp]
  | none =>
    simp only []
    rw [foldl_dbDel_abs mtpOf s.deled hn db op, absGet_unspentGet]
    cases hu : unspentGet Cfg.current db op with
    | none => simp
    | some f =>
      simp only [Option.map_some]

/-! ### the context-free checks, and the shape of connectBlock -/

theorem forM_ok_iff {α ε : Type} (l : List α) (f : α → Except ε Unit) :
    l.forM f = .ok () ↔ ∀ x ∈ l, f x = .ok () := by
  induction l with
  | nil => simp [pure, Except.pure]
  | cons a r ih =>
    have hc : (a :: r).forM f = (f a >>= fun _ => r.forM f) := rfl
    rw [hc]
    cases ha : f a with
    | error e => simp [bind, Except.bind, ha]
    | ok u => simp [bind, Except.bind, ha]; exact ih

theorem isNull_eq (p : OutPoint) : p.isNull = Spec.Connect.isNull p := by
  unfold OutPoint.isNull Spec.Connect.isNull
  cases h : p.hash.all (· = 0) <;> simp [h]

theorem isCoinBase_eq (tx : Tx) : tx.isCoinBase = Spec.Connect.isCoinBase tx := by
  unfold Tx.isCoinBase Spec.Connect.isCoinBase
  cases h : tx.ins with
  | nil => simp
  | cons i r =>
    cases r with
    | nil => simp [isNull_eq]
    | cons j r' => simp

theorem hasDup_of_nodup (l : List OutPoint) (h : l.Nodup) : Spec.Connect.hasDup l = false := by
  induction l with
  | nil => rfl
  | cons p r ih =>
    simp only [List.nodup_cons] at h
    unfold Spec.Connect.hasDup
    simp [ih h.2, h.1]

theorem checkTransaction_ok (tx : Tx) (h : checkTransaction Cfg.current tx = .ok ()) :
    tx.ins ≠ [] ∧ tx.outs ≠ [] ∧ u32 (tx.noWitSize * 4) ≤ MAX_BLOCK_WEIGHT ∧ checkOutValues tx.outs 0 = .ok ()
    ∧ (tx.isCoinBase = true → 2 ≤ (tx.ins.headD default).scriptSig.length ∧ (tx.ins.headD default).scriptSig.length ≤ 100)
    ∧ (tx.isCoinBase = false → tx.ins.any (·.prev.isNull) = false) := by
  unfold checkTransaction at h
  have hmr : Cfg.current.moneyRange = true := rfl
  by_cases h1 : tx.ins.isEmpty = true
  · simp [h1, bind, Except.bind, throw, throwThe, MonadExceptOf.throw] at h
  by_cases h2 : tx.outs.isEmpty = true
  · simp [h1, h2, bind, Except.bind, throw, throwThe, MonadExceptOf.throw, pure, Except.pure] at h
  by_cases h3 : u32 (tx.noWitSize * 4) > MAX_BLOCK_WEIGHT
  · simp [h1, h2, h3, bind, Except.bind, throw, throwThe, MonadExceptOf.throw, pure, Except.pure] at h
  cases h4 : checkOutValues tx.outs 0 with
  | error e => simp [h1, h2, h3, h4, hmr, bind, Except.bind, throw, throwThe, MonadExceptOf.throw, pure, Except.pure] at h
  | ok _ =>
    simp only [h1, h2, h3, h4, hmr, bind, Except.bind, pure, Except.pure, ↓reduceIte, Bool.false_eq_true] at h
    refine ⟨by simpa using h1, by simpa using h2, by omega, rfl, ?_, ?_⟩
    · intro hc
      simp only [hc, ↓reduceIte] at h
      by_cases h5 : (tx.ins.headD default).scriptSig.length < 2 ∨ (tx.ins.headD default).scriptSig.length > 100
      · rw [if_pos h5] at h; cases h
      · omega
    · intro hc
      simp only [hc, Bool.false_eq_true, ↓reduceIte] at h
      by_cases h5 : tx.ins.any (·.prev.isNull) = true
      · rw [if_pos h5] at h; cases h
      · simpa using h5

theorem checkTx_spec (tx : Tx) (h : checkTransaction Cfg.current tx = .ok ()) (hsz : tx.noWitSize * 4 < 2 ^ 32)
    (hnd : (tx.ins.map (·.prev)).Nodup) : Spec.Connect.checkTransaction tx = .ok () := by
  obtain ⟨h1, h2, h3, h4, h5, h6⟩ := checkTransaction_ok tx h
  have hw : MAX_BLOCK_WEIGHT = 4000000 := rfl
  have hu : u32 (tx.noWitSize * 4) = tx.noWitSize * 4 := by unfold u32; omega
  rw [hu, hw] at h3
  have ho := checkOut_spec tx.outs 0 (by decide) h4
  have hd := hasDup_of_nodup _ hnd
  unfold Spec.Connect.checkTransaction
  have h3' : ¬ tx.noWitSize * 4 > 4000000 := by omega
  simp only [h1, h2, h3', ho, hd, ↓reduceIte, bind, Except.bind, pure, Except.pure, Bool.not_true, Bool.false_eq_true]
  cases hc : tx.isCoinBase with
  | true =>
    rw [← isCoinBase_eq, hc]
    obtain ⟨q1, q2⟩ := h5 hc
    -- a coinbase has exactly one input
    unfold Tx.isCoinBase at hc
    cases hi : tx.ins with
    | nil => simp [hi] at hc
    | cons i r =>
      cases r with
      | cons j r' => simp [hi] at hc
      | nil =>
        rw [hi] at q1 q2
        simp only [List.headD_cons] at q1 q2
        have : ¬ (i.scriptSig.length < 2 ∨ i.scriptSig.length > 100) := by omega
        simp [this]
  | false =>
    rw [← isCoinBase_eq, hc]
    have := h6 hc
    simp only [Bool.false_eq_true, ↓reduceIte]
    have e : (tx.ins.any fun i => Spec.Connect.isNull i.prev) = false := by
      rw [← this]; congr 1; funext i; exact (isNull_eq _).symm
    simp [e]

theorem checkBlockTxs_ok (b : Block) (h : checkBlockTxs Cfg.current b = .ok ()) :
    ∃ cb rest, b.txs = cb :: rest ∧ cb.isCoinBase = true ∧ rest.any (·.isCoinBase) = false
      ∧ ∀ tx ∈ b.txs, checkTransaction Cfg.current tx = .ok ()
          ∧ isFinal tx b.height (if b.csv then b.mtp else b.time) = true := by
  unfold checkBlockTxs at h
  cases ht : b.txs with
  | nil => simp [ht, bind, Except.bind, throw, throwThe, MonadExceptOf.throw] at h
  | cons cb rest =>
    simp only [ht] at h
    by_cases h1 : cb.isCoinBase = true
    · by_cases h2 : rest.any (·.isCoinBase) = true
      · simp [h1, h2, bind, Except.bind, throw, throwThe, MonadExceptOf.throw, pure, Except.pure] at h
      · simp only [h1, h2, bind, Except.bind, pure, Except.pure, Bool.not_true, Bool.false_eq_true, ↓reduceIte] at h
        refine ⟨cb, rest, rfl, h1, by simpa using h2, ?_⟩
        have := (forM_ok_iff _ _).mp h
        intro tx htx
        have q := this tx htx
        cases hq : checkTransaction Cfg.current tx with
        | error e => simp [hq, bind, Except.bind] at q
        | ok _ =>
          refine ⟨rfl, ?_⟩
          simp only [hq] at q
          by_cases hf : isFinal tx b.height (if b.csv = true then b.mtp else b.time) = true
          · exact hf
          · simp [hf, throw, throwThe, MonadExceptOf.throw] at q
    · simp [h1, bind, Except.bind, throw, throwThe, MonadExceptOf.throw] at h

theorem forM_match_ok {α ε β : Type} (l : List α) (f : α → Except ε Unit) (r : β) (h : ∀ x ∈ l, f x = .ok ()) :
    (match l.forM f with
     | Except.error e => (Except.error e : Except ε β)
     | Except.ok _ => Except.ok r) = Except.ok r := by
  rw [(forM_ok_iff l f).mpr h]

theorem connectBlock_ok (u : Utxo) (b : Block) (cb : Tx) (rest : List Tx) (a : Acc)
    (ht : b.txs = cb :: rest) (h1 : Spec.Connect.isCoinBase cb = true) (h2 : rest.any Spec.Connect.isCoinBase = false)
    (h3 : ∀ tx ∈ b.txs, Spec.Connect.checkTransaction tx = .ok ()
            ∧ Spec.Connect.isFinalTx tx b.height (if b.csv then b.mtp else b.time) = true)
    (h4 : connectTxs b rest ⟨addOuts u cb.txid b true cb.outs 0, 0, 4 * Spec.Connect.legacySigOps cb⟩ = .ok a)
    (h5 : a.sigops ≤ 80000) (h6 : outSum cb ≤ subsidy b.height + a.fees) :
    connectBlock u b = .ok a.utxo := by
  unfold connectBlock
  have hforM : (b.txs.forM fun tx => do
      Spec.Connect.checkTransaction tx
      if !Spec.Connect.isFinalTx tx b.height (if b.csv then b.mtp else b.time) then throw Spec.Connect.Err.nonFinal) = .ok () := by
    apply (forM_ok_iff _ _).mpr
    intro tx htx
    obtain ⟨q1, q2⟩ := h3 tx htx
    simp [q1, q2, bind, Except.bind, pure, Except.pure]
  rw [ht] at hforM ⊢
  have h5' : ¬ a.sigops > 80000 := by omega
  have h6' : ¬ outSum cb > subsidy b.height + a.fees := by omega
  simp only [hforM]
  simp only [h1, h2, bind, Except.bind, pure, Except.pure, Bool.not_true, Bool.false_eq_true, ↓reduceIte, h4, h5', h6']


/-! ### assembling -/

theorem finalChecks_scripts (cfg : Cfg) (s0 s : St) (h : finalChecks cfg s0 = .ok s) : s0.scriptBad = false := by
  unfold finalChecks at h
  cases hs : s0.scriptBad with
  | false => rfl
  | true => simp [hs] at h

theorem nodup_of_map_nodup {α β : Type} (f : α → β) (l : List α) (h : (l.map f).Nodup) : l.Nodup := by
  induction l with
  | nil => simp
  | cons a r ih =>
    simp only [List.map_cons, List.nodup_cons] at h ⊢
    exact ⟨fun hm => h.1 (List.mem_map.mpr ⟨a, hm, rfl⟩), ih h.2⟩

theorem nodup_of_spentOps (txs : List Tx) (h : (spentOps txs).Nodup) : ∀ tx ∈ txs, (tx.ins.map (·.prev)).Nodup := by
  induction txs with
  | nil => simp
  | cons t r ih =>
    unfold spentOps at h
    simp only [List.flatMap_cons, List.nodup_append] at h
    intro tx htx
    simp only [List.mem_cons] at htx
    rcases htx with e | e
    · subst e; exact h.1
    · exact ih h.2.1 tx e

/-- The refinement, with the no-wrap fact about the consensus sigop cost still a hypothesis (`hcost`); it is
    discharged from the size bound in `Props.C04.connect_sound`.  The conclusion exposes the run of the sequential
    specification over the non-coinbase transactions: it STARTS from `4 * legacySigOps cb` (the coinbase's own input
    script and output scripts), and the number it ends with is the `SigopsCost` the code reports. -/
theorem connect_sound_core_sigops (mtpOf : Nat → Nat) (db : DB) (b : Block) (db' : DB) (so : Nat)
    (hwf : WF db)
    (hinj : ((b.txs.map (·.txid)).map key8).Nodup)
    (hbip30 : ∀ tx ∈ b.txs, aGet db (key8 tx.txid) = none)
    (hseq : b.csv = true → ∀ tx ∈ b.txs, 2 ≤ tx.version → ∀ i ∈ tx.ins, ∀ c : Coin,
        (absGet mtpOf db i.prev = some c ∨ (absGet mtpOf db i.prev = none ∧ c.height = b.height ∧ c.mtpPrev = b.mtp)) → seqLockOk b.height b.mtp i c = true)
    (hret : ∀ tx ∈ b.txs, txCountsAgree tx = true)
    (hheights : ∀ k r, aGet db k = some r → r.height ≤ b.height) (hb : b.height < 2 ^ 32)
    (hmtp : mtpOf b.height = b.mtp)
    (hsize : ∀ tx ∈ b.txs, tx.noWitSize * 4 < 2 ^ 32)
    (hcost : ∀ cb rest a, b.txs = cb :: rest →
        connectTxs b rest ⟨addOuts (absList mtpOf db) cb.txid b true cb.outs 0, 0, 4 * Spec.Connect.legacySigOps cb⟩ = .ok a →
        a.sigops < 2 ^ 32)
    (h : connect Cfg.current db b = .ok (db', so)) :
    ∃ cb rest a', b.txs = cb :: rest
      ∧ connectTxs b rest ⟨addOuts (absList mtpOf db) cb.txid b true cb.outs 0, 0, 4 * Spec.Connect.legacySigOps cb⟩ = .ok a'
      ∧ connectBlock (absList mtpOf db) b = .ok a'.utxo ∧ (∀ op, aGet a'.utxo op = absGet mtpOf db' op)
      ∧ so = a'.sigops ∧ a'.sigops ≤ 80000 := by
  unfold connect at h
  cases hc : checkBlockTxs Cfg.current b with
  | error e => simp [hc, bind, Except.bind] at h
  | ok _ =>
    cases hs : commitTxs Cfg.current db b with
    | error e => simp [hc, hs, bind, Except.bind] at h
    | ok s =>
      simp only [hc, hs, bind, Except.bind, pure, Except.pure, Except.ok.injEq, Prod.mk.injEq] at h
      obtain ⟨hdb', hso'⟩ := h
      obtain ⟨cb, rest, ht, hcb, hrest, hall⟩ := checkBlockTxs_ok b hc
      have hids : (b.txs.map (·.txid)).Nodup := nodup_of_map_nodup key8 _ hinj
      have hnd := commitTxs_nodup _ db b s hids hs
      obtain ⟨_, sf2, _, sf4⟩ := commitTxs_sums db b s hs
      have hsig80 := commitTxs_sigops _ db b s hs
      -- open commitTxs
      unfold commitTxs at hs
      cases hp : procTxs Cfg.current db b true b.txs (St.init b) with
      | error e => simp [hp] at hs
      | ok s0 =>
        simp only [hp] at hs
        have hsb := finalChecks_scripts _ s0 s hs
        obtain ⟨es, _, _⟩ := finalChecks_ok _ s0 s hs
        subst es
        rw [ht] at hp hnd hids hinj
        unfold procTxs at hp
        cases hp1 : procTx Cfg.current db b true cb (St.init b) with
        | error e => simp [hp1] at hp
        | ok s1 =>
          simp only [hp1] at hp
          obtain ⟨c1, c2, c3, c4, c5, c6, c7⟩ := procTx_coinbase db b cb s1 hp1
          obtain ⟨_, hscr⟩ := procTxs_scripts _ db b rest s1 s hp hsb
          simp only [List.tail_cons] at hnd
          have hndtx := nodup_of_spentOps rest hnd
          simp only [List.map_cons, List.nodup_cons] at hids
          have hmem : ∀ tx ∈ rest, tx ∈ b.txs := fun tx htx => by rw [ht]; exact List.mem_cons_of_mem _ htx
          have hcbmem : cb ∈ b.txs := by rw [ht]; simp
          -- per-transaction hypotheses
          have htxok : ∀ tx ∈ rest, TxOk mtpOf db b tx := by
            intro tx htx
            have hr := hret tx (hmem tx htx)
            refine ⟨?_, hr, (checkTransaction_ok tx (hall tx (hmem tx htx)).1).2.2.2.1, hbip30 tx (hmem tx htx)⟩
            intro i hi
            unfold txCountsAgree at hr
            simp only [Bool.and_eq_true, List.all_eq_true] at hr
            exact ⟨hscr tx htx i hi, fun c hc q1 q2 => hseq q1 tx (hmem tx htx) q2 i hi c hc, (hr.1 i hi).1.2, (hr.1 i hi).2⟩
          -- the state after the coinbase denotes the map with the coinbase outputs added
          have hrel0 : ∀ op, aGet (absList mtpOf db) op = view mtpOf db b (St.init b) op := by
            intro op
            rw [aGet_absList mtpOf db hwf, absGet_unspentGet]
            unfold view
            cases hu : unspentGet Cfg.current db op with
            | none => simp [St.init, aGet]
            | some f => simp [St.init, delMarked, aGet]
          have hinv1 : Inv mtpOf db b s1 (addOuts (absList mtpOf db) cb.txid b true cb.outs 0) := by
            refine ⟨?_, by rw [c1]; simp [keys]⟩
            exact rel_addOuts mtpOf db b (St.init b) s1 _ cb.txid true cb.outs hrel0 (by simp [St.init, keys])
              (hbip30 cb hcbmem) (by rw [c1]; rfl) (by rw [c2]; rfl)
          have hfresh : ∀ tx ∈ rest, tx.txid ∉ keys s1.blUnsp := by
            intro tx htx
            rw [c2]
            simp only [keys, List.map_cons, List.map_nil, List.mem_singleton]
            intro e
            exact hids.1 (List.mem_map.mpr ⟨tx, htx, e⟩)
          have hsig1 : s1.sigops = u32 (4 * Spec.Connect.legacySigOps cb) := by
            rw [c3, legacy_eq cb (hret cb hcbmem)]
          obtain ⟨a', k1, k2, k3, k4, k5, k6, k7, k8, k9⟩ :=
            procTxs_sim mtpOf db b rest s1 s ⟨addOuts (absList mtpOf db) cb.txid b true cb.outs 0, 0, 4 * Spec.Connect.legacySigOps cb⟩
              hheights hb hinv1 c4 (by rw [c4]; omega) hsig1 hfresh hids.2 htxok hp
          -- the final tests
          have hlt := hcost cb rest a' ht k1
          have hso : a'.sigops ≤ 80000 := by
            have hm : MAX_BLOCK_SIGOPS_COST = 80000 := rfl
            rw [k5, hm] at hsig80
            unfold u32 at hsig80
            omega
          obtain ⟨_, x2⟩ := checkOutValues_exact cb.outs 0 (by decide) (checkTransaction_ok cb (hall cb hcbmem).1).2.2.2.1
          simp only [Nat.zero_add] at x2
          have hcbout : outSum cb ≤ subsidy b.height + a'.fees := by
            have : s.sumOut = outSum cb := by rw [k8, c5]; unfold sumOuts; rw [x2]; rfl
            rw [← this, ← k3, ← reward_eq_subsidy]; exact sf4
          have hspecall : ∀ tx ∈ b.txs, Spec.Connect.checkTransaction tx = .ok ()
              ∧ Spec.Connect.isFinalTx tx b.height (if b.csv then b.mtp else b.time) = true := by
            intro tx htx
            obtain ⟨q1, q2⟩ := hall tx htx
            refine ⟨checkTx_spec tx q1 (hsize tx htx) ?_, by rw [← isFinal_eq]; exact q2⟩
            rw [ht] at htx
            simp only [List.mem_cons] at htx
            rcases htx with e | e
            · subst e
              unfold Tx.isCoinBase at hcb
              cases hi : tx.ins with
              | nil => simp
              | cons i r =>
                cases r with
                | nil => simp
                | cons j r' => simp [hi] at hcb
            · exact hndtx tx e
          have hrest' : rest.any Spec.Connect.isCoinBase = false := by
            rw [← hrest]; congr 1; funext t; exact (isCoinBase_eq t).symm
          have hcb' : Spec.Connect.isCoinBase cb = true := by rw [← isCoinBase_eq]; exact hcb
          have hsoeq : so = a'.sigops := by
            rw [← hso', k5]; unfold u32; omega
          refine ⟨cb, rest, a', ht, k1, connectBlock_ok _ b cb rest a' ht hcb' hrest' hspecall k1 hso hcbout, ?_, hsoeq, hso⟩
          intro op
          rw [k2.rel op, ← hdb']
          have hkeys : keys s.blUnsp = b.txs.map (·.txid) := by
            rw [k6, c2, ht]; simp [keys]
          symm
          apply view_applyChanges mtpOf db b s k2.dnodup
          · rw [hkeys, ht]; exact hinj
          · intro k hk
            rw [hkeys] at hk
            obtain ⟨tx, htx, e⟩ := List.mem_map.mp hk
            rw [← e]; exact hbip30 tx htx
          · exact hmtp


/-! ### the sigop accumulator of the specification is a running sum -/

open GocoinV.Spec.Connect (connectTx spendInputs) in
/-- starting one transaction from `k'` instead of `k` changes nothing but the final count, by the same amount -/
theorem connectTx_shift (b : Block) (tx : Tx) (u : Utxo) (f k k' : Nat) (a : Acc)
    (h : connectTx b tx ⟨u, f, k⟩ = .ok a) :
    ∃ c, a.sigops = k + c ∧ connectTx b tx ⟨u, f, k'⟩ = .ok ⟨a.utxo, a.fees, k' + c⟩ := by
  unfold connectTx at h ⊢
  cases hs : spendInputs b tx tx.ins ⟨u, 0, 0⟩ with
  | error e => simp [hs, bind, Except.bind] at h
  | ok r =>
    simp only [hs, bind, Except.bind, pure, Except.pure] at h ⊢
    repeat' split at h
    all_goals first
      | (cases h; done)
      | (simp only [Except.ok.injEq] at h
         subst h
         refine ⟨4 * Spec.Connect.legacySigOps tx + r.sigops, by simp only []; omega, ?_⟩
         simp_all [Nat.add_assoc])

open GocoinV.Spec.Connect (connectTx) in
theorem connectTxs_shift (b : Block) (txs : List Tx) (u : Utxo) (f k k' : Nat) (a : Acc)
    (h : connectTxs b txs ⟨u, f, k⟩ = .ok a) :
    ∃ c, a.sigops = k + c ∧ connectTxs b txs ⟨u, f, k'⟩ = .ok ⟨a.utxo, a.fees, k' + c⟩ := by
  induction txs generalizing u f k k' with
  | nil =>
    simp only [connectTxs, Except.ok.injEq] at h
    subst h
    exact ⟨0, rfl, rfl⟩
  | cons t r ih =>
    unfold connectTxs at h ⊢
    cases hp : connectTx b t ⟨u, f, k⟩ with
    | error e => simp [hp] at h
    | ok a1 =>
      simp only [hp] at h
      obtain ⟨c1, e1, g1⟩ := connectTx_shift b t u f k k' a1 hp
      simp only [g1]
      have h' : connectTxs b r ⟨a1.utxo, a1.fees, k + c1⟩ = .ok a := by rw [← e1]; exact h
      obtain ⟨c2, e2, g2⟩ := ih a1.utxo a1.fees (k + c1) (k' + c1) h'
      exact ⟨c1 + c2, by omega, by rw [g2]; simp [Nat.add_assoc]⟩

/-- consensus sigop count of the coinbase transaction's INPUT script(s) — Bitcoin's GetLegacySigOpCount reads the
    scriptSig of every input of every transaction, the coinbase's included -/
def cbScriptSigOps (cb : Tx) : Nat := (cb.ins.map fun i => Spec.Connect.sigOpCount i.scriptSig false).sum
/-- … and of its output scripts -/
def cbOutputSigOps (cb : Tx) : Nat := (cb.outs.map fun o => Spec.Connect.sigOpCount o.script false).sum

/-- `connect_sound_core_sigops` with the cost split into its three summands: 4 × the sigops of the coinbase input
    script, 4 × those of the coinbase outputs, and the cost `r.sigops` that the specification accumulates over the
    remaining transactions when started from 0. -/
theorem connect_sound_core_split (mtpOf : Nat → Nat) (db : DB) (b : Block) (db' : DB) (so : Nat)
    (hwf : WF db)
    (hinj : ((b.txs.map (·.txid)).map key8).Nodup)
    (hbip30 : ∀ tx ∈ b.txs, aGet db (key8 tx.txid) = none)
    (hseq : b.csv = true → ∀ tx ∈ b.txs, 2 ≤ tx.version → ∀ i ∈ tx.ins, ∀ c : Coin,
        (absGet mtpOf db i.prev = some c ∨ (absGet mtpOf db i.prev = none ∧ c.height = b.height ∧ c.mtpPrev = b.mtp)) → seqLockOk b.height b.mtp i c = true)
    (hret : ∀ tx ∈ b.txs, txCountsAgree tx = true)
    (hheights : ∀ k r, aGet db k = some r → r.height ≤ b.height) (hb : b.height < 2 ^ 32)
    (hmtp : mtpOf b.height = b.mtp)
    (hsize : ∀ tx ∈ b.txs, tx.noWitSize * 4 < 2 ^ 32)
    (hcost : ∀ cb rest a, b.txs = cb :: rest →
        connectTxs b rest ⟨addOuts (absList mtpOf db) cb.txid b true cb.outs 0, 0, 4 * Spec.Connect.legacySigOps cb⟩ = .ok a →
        a.sigops < 2 ^ 32)
    (h : connect Cfg.current db b = .ok (db', so)) :
    ∃ u', connectBlock (absList mtpOf db) b = .ok u' ∧ (∀ op, aGet u' op = absGet mtpOf db' op)
      ∧ ∃ cb rest r, b.txs = cb :: rest
          ∧ connectTxs b rest ⟨addOuts (absList mtpOf db) cb.txid b true cb.outs 0, 0, 0⟩ = .ok r
          ∧ so = 4 * cbScriptSigOps cb + 4 * cbOutputSigOps cb + r.sigops
          ∧ so ≤ 80000 := by
  obtain ⟨cb, rest, a', ht, k1, hcon, hrel, hso, h80⟩ :=
    connect_sound_core_sigops mtpOf db b db' so hwf hinj hbip30 hseq hret hheights hb hmtp hsize hcost h
  obtain ⟨c, e1, g1⟩ := connectTxs_shift b rest _ 0 (4 * Spec.Connect.legacySigOps cb) 0 a' k1
  refine ⟨a'.utxo, hcon, hrel, cb, rest, _, ht, g1, ?_, by omega⟩
  have hl : Spec.Connect.legacySigOps cb = cbScriptSigOps cb + cbOutputSigOps cb := rfl
  simp only []
  omega

/-- the refinement alone (the statement `connect_sound` had before its sigop part was made explicit) -/
theorem connect_sound_core (mtpOf : Nat → Nat) (db : DB) (b : Block) (db' : DB) (so : Nat)
    (hwf : WF db)
    (hinj : ((b.txs.map (·.txid)).map key8).Nodup)
    (hbip30 : ∀ tx ∈ b.txs, aGet db (key8 tx.txid) = none)
    (hseq : b.csv = true → ∀ tx ∈ b.txs, 2 ≤ tx.version → ∀ i ∈ tx.ins, ∀ c : Coin,
        (absGet mtpOf db i.prev = some c ∨ (absGet mtpOf db i.prev = none ∧ c.height = b.height ∧ c.mtpPrev = b.mtp)) → seqLockOk b.height b.mtp i c = true)
    (hret : ∀ tx ∈ b.txs, txCountsAgree tx = true)
    (hheights : ∀ k r, aGet db k = some r → r.height ≤ b.height) (hb : b.height < 2 ^ 32)
    (hmtp : mtpOf b.height = b.mtp)
    (hsize : ∀ tx ∈ b.txs, tx.noWitSize * 4 < 2 ^ 32)
    (hcost : ∀ cb rest a, b.txs = cb :: rest →
        connectTxs b rest ⟨addOuts (absList mtpOf db) cb.txid b true cb.outs 0, 0, 4 * Spec.Connect.legacySigOps cb⟩ = .ok a →
        a.sigops < 2 ^ 32)
    (h : connect Cfg.current db b = .ok (db', so)) :
    ∃ u', connectBlock (absList mtpOf db) b = .ok u' ∧ ∀ op, aGet u' op = absGet mtpOf db' op := by
  obtain ⟨cb, rest, a', _, _, hcon, hrel, _, _⟩ :=
    connect_sound_core_sigops mtpOf db b db' so hwf hinj hbip30 hseq hret hheights hb hmtp hsize hcost h
  exact ⟨a'.utxo, hcon, hrel⟩

end GocoinV.Proofs.C04
