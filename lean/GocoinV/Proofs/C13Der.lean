import GocoinV.Spec.Script
import GocoinV.Spec.Ecdsa
import GocoinV.Model.Sig
namespace GocoinV.Proofs.C13D
open GocoinV GocoinV.Model

theorem getD_append_lt (a b : Bytes) (i : Nat) (h : i < a.length) : (a ++ b).getD i 0 = a.getD i 0 := by
  simp [List.getD, List.getElem?_append_left h]

theorem parseBytes_facts (der : Bytes) (r s c : Nat) (h : Sig.parseBytes der = some (r, s, c)) :
    let lr := (der.getD 3 0).toNat
    let ls := (der.getD (lr + 5) 0).toNat
    5 ≤ der.length ∧ der.getD 0 0 = 0x30 ∧ lr ≠ 0 ∧ 5 + lr < der.length ∧ der.getD (lr + 4) 0 = 0x02 ∧
    ls ≠ 0 ∧ (der.getD 1 0).toNat = lr + ls + 4 ∧ lr + ls + 6 ≤ der.length ∧ der.getD 2 0 = 0x02 ∧
    r = beVal ((der.drop 4).take lr) ∧ s = beVal ((der.drop (6 + lr)).take ls) ∧ c = 6 + lr + ls := by
  unfold Sig.parseBytes at h
  split at h
  · simp at h
  · rename_i h1
    simp only [] at h
    split at h
    · simp at h
    · rename_i h2
      split at h
      · simp at h
      · rename_i h3
        simp only [Option.some.injEq, Prod.mk.injEq] at h
        simp only [not_or, Decidable.not_not, Nat.not_lt, Nat.not_le, ne_eq] at h1 h2 h3
        refine ⟨h1.1, h1.2, h2.1, by omega, h2.2.2, h3.1, h3.2.1, by omega, h3.2.2.2, h.1.symm, h.2.1.symm, h.2.2.symm⟩

/-- a trailing byte (the hash type) does not change what `ParseBytes` reads -/
theorem parseBytes_append (der : Bytes) (r s c : Nat) (ht : UInt8) (h : Sig.parseBytes der = some (r, s, c)) :
    Sig.parseBytes (der ++ [ht]) = some (r, s, c) := by
  obtain ⟨f1, f2, f3, f4, f5, f6, f7, f8, f9, f10, f11, hc⟩ := parseBytes_facts der r s c h
  generalize hlr : (der.getD 3 0).toNat = lr at *
  generalize hls : (der.getD (lr + 5) 0).toNat = ls at *
  have g0 := getD_append_lt der [ht] 0 (by omega)
  have g1 := getD_append_lt der [ht] 1 (by omega)
  have g2 := getD_append_lt der [ht] 2 (by omega)
  have g3 := getD_append_lt der [ht] 3 (by omega)
  have g4 := getD_append_lt der [ht] (lr + 4) (by omega)
  have g5 := getD_append_lt der [ht] (lr + 5) (by omega)
  have d1 : ((der ++ [ht]).drop 4).take lr = (der.drop 4).take lr := by
    rw [List.drop_append_of_le_length (by omega), List.take_append_of_le_length (by simp; omega)]
  have d2 : ((der ++ [ht]).drop (6 + lr)).take ls = (der.drop (6 + lr)).take ls := by
    rw [List.drop_append_of_le_length (by omega), List.take_append_of_le_length (by simp; omega)]
  unfold Sig.parseBytes
  simp only [g0, g1, g2, g3, hlr, g4, g5, hls, d1, d2, List.length_append, List.length_singleton]
  have c1 : ¬ (der.length + 1 < 5 ∨ der.getD 0 0 ≠ 0x30) := by
    intro h; rcases h with h | h
    · omega
    · exact h f2
  have c2 : ¬ (lr = 0 ∨ 5 + lr ≥ der.length + 1 ∨ der.getD (lr + 4) 0 ≠ 0x02) := by
    intro h; rcases h with h | h | h
    · exact f3 h
    · omega
    · exact h f5
  have c3 : ¬ (ls = 0 ∨ (der.getD 1 0).toNat ≠ lr + ls + 4 ∨ lr + ls + 6 > der.length + 1 ∨ der.getD 2 0 ≠ 0x02) := by
    intro h; rcases h with h | h | h | h
    · exact f6 h
    · exact h f7
    · omega
    · exact h f9
  rw [if_neg c1, if_neg c2, if_neg c3, ← f10, ← f11, hc]

/-- S as Core reads it from `sig‖hashtype` is the S `ParseBytes` returns -/
theorem derS_append (der : Bytes) (r s c : Nat) (ht : UInt8) (h : Sig.parseBytes der = some (r, s, c)) :
    ScriptSpec.derS (der ++ [ht]) = s := by
  obtain ⟨f1, f2, f3, f4, f5, f6, f7, f8, f9, f10, f11, hc⟩ := parseBytes_facts der r s c h
  unfold ScriptSpec.derS
  simp only []
  rw [getD_append_lt der [ht] 3 (by omega)]
  generalize hlr : (der.getD 3 0).toNat = lr at *
  have e5 : 5 + lr = lr + 5 := by omega
  rw [e5, getD_append_lt der [ht] (lr + 5) (by omega)]
  generalize hls : (der.getD (lr + 5) 0).toNat = ls at *
  rw [List.drop_append_of_le_length (by omega), List.take_append_of_le_length (by simp; omega), f11]


theorem u8_lt (a b : UInt8) : a < b ↔ a.toNat < b.toNat := UInt8.lt_iff_toNat_lt
theorem u8_ge (a b : UInt8) : a ≥ b ↔ a.toNat ≥ b.toNat := UInt8.le_iff_toNat_le
theorem u8_eq (a b : UInt8) : a = b ↔ a.toNat = b.toNat := ⟨fun h => by rw [h], fun h => UInt8.toNat_inj.mp h⟩

/-- BIP66 strict DER without the hash-type byte (C03's `isStrictDER`) is Core's `IsValidSignatureEncoding` of
    the signature with any hash-type byte appended -/
theorem strict_append (der : Bytes) (ht : UInt8) (h : Spec.Ecdsa.isStrictDER der = true) :
    ScriptSpec.isValidSignatureEncoding (der ++ [ht]) = true := by
  unfold Spec.Ecdsa.isStrictDER at h
  simp only [] at h
  split at h
  · simp at h
  rename_i c1
  split at h
  · simp at h
  rename_i c2
  split at h
  · simp at h
  rename_i c3
  split at h
  · simp at h
  rename_i c4
  split at h
  · simp at h
  rename_i c5
  split at h
  · simp at h
  rename_i c6
  split at h
  · simp at h
  rename_i c7
  split at h
  · simp at h
  rename_i c8
  simp only [not_or, not_and, Decidable.not_not, Nat.not_lt, Nat.not_le, ne_eq, u8_ge, u8_lt, u8_eq] at c1 c2 c3 c4 c5 c6 c7 c8
  generalize hlr : (der.getD 3 0).toNat = lr at *
  generalize hls : (der.getD (5 + lr) 0).toNat = ls at *
  have g0 := getD_append_lt der [ht] 0 (by omega)
  have g1 := getD_append_lt der [ht] 1 (by omega)
  have g2 := getD_append_lt der [ht] 2 (by omega)
  have g3 := getD_append_lt der [ht] 3 (by omega)
  have g4 := getD_append_lt der [ht] 4 (by omega)
  have g5 := getD_append_lt der [ht] 5 (by omega)
  have g6 := getD_append_lt der [ht] (5 + lr) (by omega)
  have g7 := getD_append_lt der [ht] (lr + 4) (by omega)
  have g8 := getD_append_lt der [ht] (lr + 6) (by omega)
  unfold ScriptSpec.isValidSignatureEncoding
  simp only [List.length_append, List.length_singleton, g0, g1, g2, g3, g4, g5, hlr, g6, hls, g7, g8]
  by_cases hls1 : ls > 1
  · have g9 := getD_append_lt der [ht] (lr + 7) (by omega)
    simp only [g9]
    simp [u8_eq] at *
    omega
  · simp [u8_eq] at *
    omega

end GocoinV.Proofs.C13D
