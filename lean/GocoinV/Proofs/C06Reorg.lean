/-
  Proofs.C06Reorg — the reorganisation machinery of the chain model (the mutual recursion MoveToBlock / ParseTillBlock /
  fall-back after a failure) under the invariants: it never panics, never runs out of the fuel `fuelOf` gives it, keeps
  "unspent map = replay of the active branch" (`PathOKH`) and the tree invariant (`TreeWF`), and ends either on its
  target with the tree untouched or — after a block failed to connect — on a maximum-work node of the remaining tree.
-/
import Mathlib.Tactic.Ring
import GocoinV.Proofs.C06Climb
import GocoinV.Proofs.C06FarthestS
import GocoinV.Proofs.C06MorePow
import GocoinV.Proofs.C06Delete
import GocoinV.Proofs.C06Ext
namespace GocoinV.ChainTree
open GocoinV.UtxoOps

-- ------------------------------------------------------------------------------------------ same tree, other fields

theorem Desc_same {c c' : Chain} (hr : c'.root = c.root) (hg : ∀ x, getNode c' x = getNode c x) {a x : Nat}
    (h : Desc c a x) : Desc c' a x := by
  induction h with
  | refl => exact Desc.refl
  | @step x n hn hx _ ih => exact Desc.step (by rw [hg]; exact hn) (by rw [hr]; exact hx) ih

theorem cumWorkN_same {c c' : Chain} (hr : c'.root = c.root) (hg : ∀ x, getNode c' x = getNode c x) :
    ∀ (f : Nat) (n : Node), cumWorkN c' f n = cumWorkN c f n := by
  intro f
  induction f with
  | zero => intro n; rfl
  | succ f ih =>
    intro n
    simp only [cumWorkN, hr, hg]
    split
    · rfl
    · cases getNode c n.parent with
      | none => rfl
      | some p => simp only [ih]

theorem W_same {c c' : Chain} (hr : c'.root = c.root) (hg : ∀ x, getNode c' x = getNode c x) (n : Node) :
    W c' n = W c n := by
  unfold W workOf; rw [cumWorkN_same hr hg]

/-- the tip is a maximum-work node among the nodes that have their data (rational form of `MaxWork`) -/
def MaxW (c : Chain) : Prop :=
  ∃ t, getNode c c.tip = some t ∧ ∀ x n, getNode c x = some n → HasData c x n → W c n ≤ W c t

theorem MaxW_iff {U : List Block} {c : Chain} (w : TreeWF U c) (hU : BlockTree c.root U) : MaxWork c ↔ MaxW c := by
  constructor
  · rintro ⟨t, ht, h⟩
    exact ⟨t, ht, fun x n hn hd => (workOf_not_gt_iff w hU hn ht).mp (h x n hn hd)⟩
  · rintro ⟨t, ht, h⟩
    exact ⟨t, ht, fun x n hn hd => (workOf_not_gt_iff w hU hn ht).mpr (h x n hn hd)⟩

/-- every node of `c'` is a node of `c` with the same transaction count: the reorganisation machinery creates no node and
    neither gives nor takes block data -/
def NodesSub (c c' : Chain) : Prop :=
  ∀ x n', getNode c' x = some n' → ∃ n, getNode c x = some n ∧ n'.txCount = n.txCount

theorem NodesSub.of_getNode {c c' : Chain} (hg : ∀ x, getNode c' x = getNode c x) : NodesSub c c' :=
  fun x n' h => ⟨n', by rw [← hg]; exact h, rfl⟩

theorem NodesSub.trans {a b c : Chain} (h1 : NodesSub a b) (h2 : NodesSub b c) : NodesSub a c := by
  intro x n' h
  obtain ⟨n, g1, g2⟩ := h2 x n' h
  obtain ⟨m, g3, g4⟩ := h1 x n g1
  exact ⟨m, g3, g2.trans g4⟩

/-- the nodes on a branch have their data -/
theorem Linked_has_data {U : List Block} {c : Chain} (w : TreeWF U c) {p : List PE} (h : Linked c p) :
    ∀ e ∈ p, ∀ n, getNode c e.id = some n → n.txCount ≠ 0 := by
  induction p with
  | nil => intro e he; cases he
  | cons a rest ih =>
    intro e he n hn
    rcases List.mem_cons.mp he with rfl | h2
    · obtain ⟨_, ⟨blk, hb, _⟩, _⟩ := h
      exact w.stored_has_data hn hb
    · exact ih h.2.2 e h2 n hn

/-- the tip of a state satisfying `PathOK` has its data (or is the root) -/
theorem tip_has_data {U : List Block} {c : Chain} (w : TreeWF U c) {fl : Nat} {path : List PE} (hp : PathOK c fl path)
    {t : Node} (ht : getNode c c.tip = some t) : HasData c c.tip t := by
  cases path with
  | nil => left; rw [hp.tip]; rfl
  | cons e rest =>
    right
    have : c.tip = e.id := hp.tip
    rw [this] at ht
    exact Linked_has_data w hp.linked e List.mem_cons_self t ht

/-- every block of a branch is a non-root node no higher than the branch is long -/
theorem Linked_mem_height {U : List Block} {c : Chain} (w : TreeWF U c) {p : List PE} (h : Linked c p) :
    ∀ e ∈ p, ∃ n, getNode c e.id = some n ∧ n.height ≤ p.length := by
  induction p with
  | nil => intro e he; cases he
  | cons a rest ih =>
    intro e he
    rcases List.mem_cons.mp he with rfl | h2
    · obtain ⟨t, ht, hth⟩ := Linked_head_height w h
      exact ⟨t, ht, by omega⟩
    · obtain ⟨n, hn, hh⟩ := ih h.2.2 e h2
      exact ⟨n, hn, by simp only [List.length_cons]; omega⟩

-- ------------------------------------------------------------------------------------------ equations of the loop

theorem parseTill_done (f : Nat) (c : Chain) (e : Nat) (h : c.tip = e) : parseTill (f + 1) c e = .ok c := by
  rw [parseTill]; simp [h, pure, Except.pure]

theorem parseTill_fail (f : Nat) (c : Chain) (e nx : Nat) (last en nxt : Node) (blk : Stored) (err : Err)
    (hne : c.tip ≠ e) (hlast : getNode c c.tip = some last) (hen : getNode c e = some en)
    (hpath : findPathTo c last en = .ok (some nx)) (hnxt : getNode c nx = some nxt) (htx : nxt.txCount ≠ 0)
    (hblk : alookup nx c.store = some blk)
    (herr : commitTxs c.utxo nxt.height (reward nxt.height) blk.trusted blk.txs = .error err) :
    parseTill (f + 1) c e = afterFail f (deleteBranch c nx) := by
  have h1 : (c.tip == e) = false := by simpa using hne
  have h2 : (nxt.txCount == 0) = false := by simpa using htx
  rw [parseTill]
  simp only [h1, Bool.false_eq_true, if_false, node!, hlast, hen, hnxt, bind, Except.bind, pure, Except.pure, hpath, h2, hblk, herr]

theorem afterFail_eq (f : Nat) (c : Chain) (r : Node) (hr : getNode c c.root = some r) :
    afterFail (f + 1) c = moveTo f c (farthestS c (c.nodes.length + 1) r).1 := by
  rw [afterFail]
  simp only [node!, hr, bind, Except.bind, pure, Except.pure]

-- ------------------------------------------------------------------------------------------ the three specifications

/-- ParseTillBlock(e) from a state satisfying the invariants, `e` a descendant-or-self of the tip THAT HAS ITS DATA, with
    enough fuel: no panic; invariants kept; ends on `e` with the tree untouched, or — after a failure — on a maximum-work
    node (among those with data); no node is created and no node's transaction count changes -/
def PSpec (U : List Block) (f : Nat) : Prop :=
  ∀ (c : Chain) (e : Nat) (en : Node) (path : List PE),
    TreeWF U c → PathOKH c 0 path → Ext c path → BlockTree c.root U → getNode c e = some en → HasData c e en →
    Desc c c.tip e →
    f ≥ (en.height - path.length) + 1 + c.nodes.length * (c.nodes.length + 4) →
    ∃ c' path', parseTill f c e = .ok c' ∧ TreeWF U c' ∧ PathOKH c' 0 path' ∧ c'.root = c.root ∧
      ((c'.tip = e ∧ c'.nodes = c.nodes) ∨ MaxW c') ∧ Ext c' path' ∧ Lost U c.root c c' ∧ NodesSub c c'

/-- the fall-back after a failure (FindFarthestNode from the root + MoveToBlock) -/
def ASpec (U : List Block) (f : Nat) : Prop :=
  ∀ (c : Chain) (path : List PE),
    TreeWF U c → PathOKH c 0 path → Ext c path → BlockTree c.root U →
    f ≥ c.nodes.length * (c.nodes.length + 4) + c.nodes.length + 2 →
    ∃ c' path', afterFail f c = .ok c' ∧ TreeWF U c' ∧ PathOKH c' 0 path' ∧ c'.root = c.root ∧ MaxW c' ∧
      Ext c' path' ∧ Lost U c.root c c' ∧ NodesSub c c'

/-- MoveToBlock(dst) for any node `dst` of the tree that has its data -/
def MSpec (U : List Block) (f : Nat) : Prop :=
  ∀ (c : Chain) (dst : Nat) (d : Node) (path : List PE),
    TreeWF U c → PathOKH c 0 path → Ext c path → BlockTree c.root U → getNode c dst = some d → HasData c dst d →
    f ≥ c.nodes.length * (c.nodes.length + 4) + c.nodes.length + 1 →
    ∃ c' path', moveTo f c dst = .ok c' ∧ TreeWF U c' ∧ PathOKH c' 0 path' ∧ c'.root = c.root ∧
      ((c'.tip = dst ∧ c'.nodes = c.nodes) ∨ MaxW c') ∧ Ext c' path' ∧ Lost U c.root c c' ∧ NodesSub c c'

theorem fuel_ineq (a b : Nat) (h : a < b) : a * (a + 4) + a + 2 ≤ b * (b + 4) := by
  have h1 : (a + 1) * (a + 5) ≤ b * (b + 4) := Nat.mul_le_mul h (by omega)
  have h2 : (a + 1) * (a + 5) = a * (a + 4) + a + 2 + (a + 3) := by ring
  omega

theorem parseStep_facts (c : Chain) (nx : Nat) (nxt : Node) (blk : Stored) (ch : Changes) (wu : Bool) :
    (parseStep c nx nxt blk ch wu).nodes = c.nodes ∧ (parseStep c nx nxt blk ch wu).root = c.root ∧
    (parseStep c nx nxt blk ch wu).store = aset nx { blk with trusted := true } c.store ∧
    (parseStep c nx nxt blk ch wu).tip = nx := by
  unfold parseStep
  exact ⟨(cbt_fields { c with store := aset nx { blk with trusted := true } c.store } nxt.height wu
      (blk.txs.map (·.txid)) ch).2.2.2,
    cbt_root { c with store := aset nx { blk with trusted := true } c.store } nxt.height wu (blk.txs.map (·.txid)) ch,
    cbt_store { c with store := aset nx { blk with trusted := true } c.store } nxt.height wu (blk.txs.map (·.txid)) ch,
    rfl⟩

theorem PSpec_step {U : List Block} (f : Nat) (ihP : PSpec U f) (ihA : ASpec U f) : PSpec U (f + 1) := by
  intro c e en path w hp hx hU he hed hd hf
  by_cases htip : c.tip = e
  · exact ⟨c, path, parseTill_done f c e htip, w, hp, rfl, Or.inl ⟨htip, rfl⟩, hx, Lost.of_getNode (fun _ => rfl),
      NodesSub.of_getNode (fun _ => rfl)⟩
  obtain ⟨hpo, t, ht, hth⟩ := hp
  obtain ⟨nx, nxt, hfp, hnxt, hpar, hnxr, hdx⟩ := findPathTo_spec w ht he hd htip
  have htx : nxt.txCount ≠ 0 := (Desc.has_data w hdx en he hed nxt hnxt).resolve_left hnxr
  obtain ⟨b, hbU, _, _, _, htc, s, hs, hst⟩ := w.blkData hnxt hnxr htx
  obtain ⟨pp, hpp, hph, _⟩ := w.par nx nxt hnxt hnxr
  rw [hpar, ht] at hpp; cases hpp
  have hh : nxt.height = path.length + 1 := by omega
  obtain ⟨na, hna, hle, _⟩ := Desc.height w hdx en he
  rw [hnxt] at hna; cases hna
  cases hct : commitTxs c.utxo nxt.height (reward nxt.height) s.trusted s.txs with
  | ok ch =>
    have hlk : Linked c (⟨nx, s.txs⟩ :: path) :=
      ⟨⟨nxt, hnxt, by rw [hpar]; exact hpo.tip⟩, ⟨s, hs, rfl⟩, hpo.linked⟩
    have hfr := (hU.fresh _ (Linked_UChain w hlk)).1
    obtain ⟨u, hru, heq⟩ := hpo.utxo
    have hfresh : ∀ t ∈ s.txs.map (·.txid), c.utxo.get t = none := fun t ht => by
      rw [heq t]; exact hfr u hru t ht
    obtain ⟨bp, hbl, _, hblen⟩ := branch_exists w en.height e en he hed rfl
    have hdep : en.height ≤ UnwindBufLen := by rw [← hblen]; exact hU.depth _ (Linked_UChain w hbl)
    have hdec : decide (nxt.height + UnwindBufLen ≥ en.height) = true := by
      rw [decide_eq_true_iff]; omega
    have hstep := parseTill_step f c e nx t en nxt s ch htip ht he hfp hnxt htx hs hct
    rw [hdec] at hstep
    have hpath2 := parseStep_path c 0 path hpo nx nxt s ch hnxt hpar hh hs hct hfresh
    have hfl : max 0 (path.length + 1 - UnwindBufLen) = 0 := by omega
    rw [hfl] at hpath2
    obtain ⟨hn2, hr2, hst2, ht2⟩ := parseStep_facts c nx nxt s ch true
    have hg2 : ∀ x, getNode (parseStep c nx nxt s ch true) x = getNode c x := fun x => getNode_nodes hn2 x
    have w2 : TreeWF U (parseStep c nx nxt s ch true) := by
      refine TreeWF_same w hr2 hg2 ?_
      intro k
      rw [hst2, alookup_aset_eq]
      by_cases hk : nx = k
      · subst hk; simp [hs]
      · simp [hk]
    have hp2 : PathOKH (parseStep c nx nxt s ch true) 0 (⟨nx, s.txs⟩ :: path) :=
      ⟨hpath2, nxt, by rw [ht2, hg2]; exact hnxt, by simp only [List.length_cons]; exact hh⟩
    have hx2 : Ext (parseStep c nx nxt s ch true) (⟨nx, s.txs⟩ :: path) := hx.connect nx s _ _ ch hs hct hst2
    obtain ⟨c', path', h1, h2, h3, h4, h5, h6, h7, h8⟩ := ihP (parseStep c nx nxt s ch true) e en _ w2 hp2 hx2 (by rw [hr2]; exact hU)
      (by rw [hg2]; exact he) (by unfold HasData at hed ⊢; rw [hr2]; exact hed) (by rw [ht2]; exact Desc_same hr2 hg2 hdx)
      (by rw [hn2]; simp only [List.length_cons]; omega)
    refine ⟨c', path', by rw [hstep]; exact h1, h2, h3, h4.trans hr2, ?_, h6,
      (Lost.of_getNode hg2).trans (by rw [hr2] at h7; exact h7), (NodesSub.of_getNode hg2).trans h8⟩
    rcases h5 with ⟨a, b⟩ | h5
    · exact Or.inl ⟨a, b.trans hn2⟩
    · exact Or.inr h5
  | error err =>
    have hfail := parseTill_fail f c e nx t en nxt s err htip ht he hfp hnxt htx hs hct
    obtain ⟨w2, hlen, keep, bk, skeep⟩ := deleteBranch_spec w hnxt hnxr
    have hf2 := deleteBranch_fields c nx
    have alive : ∀ x n, getNode c x = some n → n.height ≤ path.length → ¬ Desc c nx x := by
      intro x n hn hle hdd
      obtain ⟨na, hna, hle2, _⟩ := Desc.height w hdd n hn
      rw [hnxt] at hna; cases hna; omega
    have hpo2 : PathOK (deleteBranch c nx) 0 path := by
      refine PathOK_mono hpo hf2.2.2.2.2 hf2.2.2.1 hf2.1 hf2.2.1 hf2.2.2.2.1 ?_ ?_
      · intro e he n hn
        obtain ⟨m, hm, hmh⟩ := Linked_mem_height w hpo.linked e he
        rw [hn] at hm; cases hm
        obtain ⟨n', g1, g2, g3, _⟩ := keep e.id n hn (alive _ _ hn hmh)
        exact ⟨n', g1, g2, g3⟩
      · intro e he b0 hb0
        obtain ⟨m, hm, hmh⟩ := Linked_mem_height w hpo.linked e he
        exact ⟨b0, skeep e.id b0 hb0 (alive _ _ hm hmh), rfl⟩
    have htip2 : ∃ t', getNode (deleteBranch c nx) (deleteBranch c nx).tip = some t' ∧ t'.height = path.length := by
      obtain ⟨n', g1, _, g3, _⟩ := keep c.tip t ht (alive _ _ ht (by omega))
      exact ⟨n', by rw [hf2.2.2.1]; exact g1, by omega⟩
    have hfu := fuel_ineq _ _ hlen
    have hx2 : Ext (deleteBranch c nx) path := hx.deleteBranch w hnxt (fun e he => by
      obtain ⟨m, hm, hmh⟩ := Linked_mem_height w hpo.linked e he
      exact alive _ _ hm hmh)
    have hlost : Lost U c.root c (deleteBranch c nx) :=
      Lost.deleteBranch w hpo hnxt hnxr hpar s hs err (by rw [← hh]; exact hct)
    obtain ⟨c', path', h1, h2, h3, h4, h5, h6, h7, h8⟩ := ihA (deleteBranch c nx) path w2 ⟨hpo2, htip2⟩ hx2
      (by rw [hf2.2.2.2.2]; exact hU) (by omega)
    have hsub : NodesSub c (deleteBranch c nx) := fun x n' h => by
      obtain ⟨n, g1, _, _, _, g5⟩ := bk x n' h
      exact ⟨n, g1, g5⟩
    exact ⟨c', path', by rw [hfail]; exact h1, h2, h3, h4.trans hf2.2.2.2.2, Or.inr h5, h6,
      hlost.trans (by rw [hf2.2.2.2.2] at h7; exact h7), hsub.trans h8⟩

theorem ASpec_step {U : List Block} (f : Nat) (ihM : MSpec U f) : ASpec U (f + 1) := by
  intro c path w hp hx hU hf
  obtain ⟨r, hr, _, hrb⟩ := w.root
  obtain ⟨nL, hL, hLd, hmax⟩ := farthestS_spec w hU hr hrb
  obtain ⟨c', path', h1, h2, h3, h4, h5, h6, h7, h8⟩ := ihM c _ nL path w hp hx hU hL hLd (by omega)
  refine ⟨c', path', by rw [afterFail_eq f c r hr]; exact h1, h2, h3, h4, ?_, h6, h7, h8⟩
  rcases h5 with ⟨a, b⟩ | h5
  · have hg : ∀ x, getNode c' x = getNode c x := fun x => getNode_nodes b x
    refine ⟨nL, by rw [a, hg]; exact hL, fun x n hn hd => ?_⟩
    rw [W_same h4 hg, W_same h4 hg]
    exact hmax x n (by rw [← hg]; exact hn) (by unfold HasData at hd ⊢; rw [← h4]; exact hd)
  · exact h5

theorem MSpec_step {U : List Block} (f : Nat) (ihP : PSpec U f) : MSpec U (f + 1) := by
  intro c dst d path w hp hx hU hd hdd0 hf
  obtain ⟨hpo, lb, hlb, hlbh⟩ := hp
  have hlbd : HasData c c.tip lb := tip_has_data w hpo hlb
  obtain ⟨cur, h1, hcur, hdcur, hcurh, hcurd⟩ := climbChecked_spec w lb.height (d.height + 1) dst d hd hdd0 (by omega)
  obtain ⟨lb2, h2, hlb2, hdlb2, hlb2h, hlb2d⟩ := climbChecked_spec w cur.height (lb.height + 1) c.tip lb hlb hlbd (by omega)
  obtain ⟨anc, h3, hanc, hda1, hda2⟩ :=
    commonAnc_spec w (cur.height + 2) lb2.id cur.id lb2 cur hlb2 hcur hlb2d hcurd (by omega) (by omega)
  have hdt : Desc c anc.id c.tip := hda1.trans hdlb2
  have hdd : Desc c anc.id dst := hda2.trans hdcur
  obtain ⟨pre, post, hpp, hhead, hne⟩ := path_split path hpo.linked (by rw [← hpo.tip]; exact hdt)
  subst hpp
  obtain ⟨c1, hp1, hn1, hs1, hr1, hmv⟩ := moveTo_unwind f c 0 pre post dst d lb cur lb2 anc hpo (Nat.zero_le _) hd hlb
    h1 h2 h3 hhead.symm hne (by simp only [List.length_append] at hlbh; omega)
  have hg1 : ∀ x, getNode c1 x = getNode c x := fun x => getNode_nodes hn1 x
  have w1 : TreeWF U c1 := TreeWF_same w hr1 hg1 (fun k => by rw [hs1])
  obtain ⟨t1, ht1, ht1h⟩ := Linked_head_height w1 hp1.linked
  have hp1' : PathOKH c1 0 post := ⟨hp1, t1, by rw [hp1.tip]; exact ht1, ht1h⟩
  have hdh := height_lt_length w hd
  have hx1 : Ext c1 post := (hx.of_store_eq hs1).suffix
  obtain ⟨c', path', g1, g2, g3, g4, g5, g6, g7, g8⟩ := ihP c1 dst d post w1 hp1' hx1 (by rw [hr1]; exact hU) (by rw [hg1]; exact hd)
    (by unfold HasData at hdd0 ⊢; rw [hr1]; exact hdd0)
    (by rw [hp1.tip, headId_congr hr1, hhead]; exact Desc_same hr1 hg1 hdd) (by rw [hn1]; omega)
  refine ⟨c', path', by rw [hmv]; exact g1, g2, g3, g4.trans hr1, ?_, g6,
    (Lost.of_getNode hg1).trans (by rw [hr1] at g7; exact g7), (NodesSub.of_getNode hg1).trans g8⟩
  rcases g5 with ⟨a, b⟩ | g5
  · exact Or.inl ⟨a, b.trans hn1⟩
  · exact Or.inr g5

/-- **the reorganisation machinery is correct for every fuel that is large enough** -/
theorem reorg_specs (U : List Block) : ∀ f, PSpec U f ∧ ASpec U f ∧ MSpec U f := by
  intro f
  induction f with
  | zero =>
    refine ⟨?_, ?_, ?_⟩
    · intro c e en path _ _ _ _ _ _ _ hf; omega
    · intro c path _ _ _ _ hf; omega
    · intro c dst d path _ _ _ _ _ _ hf; omega
  | succ f ih =>
    exact ⟨PSpec_step f ih.1 ih.2.1, ASpec_step f ih.2.2, MSpec_step f ih.1⟩

end GocoinV.ChainTree
