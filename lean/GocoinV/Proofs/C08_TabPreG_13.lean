/- C08 table proof chunk (written once by Proofs/mk_c08_tab.py; static). -/
import GocoinV.Proofs.C08_TabDefs
import GocoinV.Gen.TablesPreG13
import GocoinV.Gen.TablesPreG12
namespace GocoinV.C08
open GocoinV.Gen

theorem preG_13 : chainOK (Secp.dbl Secp.G) ((pts Tables.preG12).getLastD none :: pts Tables.preG13) = true := by
  decide +kernel
theorem preG_13_ne : pts Tables.preG13 ≠ [] := by decide +kernel

end GocoinV.C08
