/-
  Proofs.C06FarthestS — `BlockTreeNode.findFarthestWithData` of the chain model (`farthestS`: FindFarthestNode restricted
  to children with `TxCount != 0`, fix c3d926ba; called on the root with fuel #nodes+1 by ParseTillBlock's fall-back)
  returns a node of the tree THAT HAS ITS DATA and whose cumulative work is maximal among all nodes that have their data.
  (`FindFarthestNode` itself, `farthest`, also returns header-only leaves: Proofs/C06Farthest.)
-/
import GocoinV.Proofs.C06Farthest
namespace GocoinV.ChainTree
open GocoinV.UtxoOps

/-- what `farthestS c f n` returns for the node `n` (id `x`, with data): a descendant `L` of `x` that has its data and is of
    maximal work among the descendants of `x` that have their data, and the sum of the difficulties from `n` down to `L` -/
def FarOKS (c : Chain) (x : Nat) (n : Node) (res : Nat × Q) : Prop :=
  ∃ nL, getNode c res.1 = some nL ∧ Desc c x res.1 ∧ HasData c res.1 nL ∧ res.2.den > 0 ∧
    res.2.val = W c nL - W c n + (difficulty n.bits).val ∧
    ∀ y m, getNode c y = some m → Desc c x y → HasData c y m → W c m ≤ W c nL

/-- a node without a child that has data -/
theorem farS_leaf {U : List Block} {c : Chain} (w : TreeWF U c) {x : Nat} {n : Node} (hn : getNode c x = some n)
    (hdat : HasData c x n) (hb : n.bits % 0x1000000 ≠ 0)
    (hno : ∀ z nch, getNode c z = some nch → nch.parent = x → z ≠ c.root → nch.txCount ≠ 0 → False) :
    FarOKS c x n (n.id, difficulty n.bits) := by
  have hid := getNode_id hn
  refine ⟨n, by rw [hid]; exact hn, by rw [hid]; exact Desc.refl, by rw [hid]; exact hdat,
    difficulty_den_pos _ hb, by simp, ?_⟩
  intro y m hm hd hmd
  by_cases hxy : x = y
  · subst hxy; rw [hn] at hm; cases hm; exact le_refl _
  · obtain ⟨z, nch, hz, hp, hzr, hdz⟩ := Desc.child_split hd hxy
    have hzd := Desc.has_data w hdz m hm hmd nch hz
    exact (hno z nch hz hp hzr (hzd.resolve_left hzr)).elim

/-- a node with children that have data: the best of those children's results, plus the node's own difficulty -/
theorem farS_node {U : List Block} {c : Chain} (w : TreeWF U c) (hU : BlockTree c.root U) {x : Nat} {n : Node}
    (hn : getNode c x = some n) (hb : n.bits % 0x1000000 ≠ 0) (g : Node → Nat × Q) (l : List Node)
    (hl : ∀ ch ∈ l, ∃ z, getNode c z = some ch ∧ z ≠ c.root ∧ ch.parent = x ∧ FarOKS c z ch (g ch))
    (hall : ∀ z nch, getNode c z = some nch → nch.parent = x → z ≠ c.root → nch.txCount ≠ 0 → nch ∈ l)
    (best : Nat × Q) (hbest : ∃ ch ∈ l, best = g ch) (hmax : ∀ ch ∈ l, (g ch).2.val ≤ best.2.val) :
    FarOKS c x n (best.1, best.2.add (difficulty n.bits)) := by
  obtain ⟨cb, hcb, rfl⟩ := hbest
  obtain ⟨zb, hzb, hzbr, hpb, nL, hL, hdL, hLd, hden, hval, hmaxb⟩ := hl cb hcb
  have hpb' : getNode c cb.parent = some n := by rw [hpb]; exact hn
  have hWb := (W_step w hU hzb hzbr hpb').1
  have hdx : Desc c x (g cb).1 := by
    have := Desc.parent hzb hzbr
    rw [hpb] at this
    exact Desc.trans this hdL
  have hdn := difficulty_den_pos _ hb
  refine ⟨nL, hL, hdx, hLd, Q.add_den_pos _ _ hden hdn, ?_, ?_⟩
  · show ((g cb).2.add (difficulty n.bits)).val = _
    rw [Q.val_add _ _ hden hdn, hval]; linarith
  · intro y m hm hd hmd
    by_cases hxy : x = y
    · subst hxy
      exact W_mono w hU hdx nL m hL hm
    · obtain ⟨z, nch, hz, hp, hzr, hdz⟩ := Desc.child_split hd hxy
      have hzd := Desc.has_data w hdz m hm hmd nch hz
      have hin := hall z nch hz hp hzr (hzd.resolve_left hzr)
      obtain ⟨z', hz', hzr', hp', nL', hL', _, _, _, hval', hmax'⟩ := hl nch hin
      have e : z' = z := by rw [← getNode_id hz', getNode_id hz]
      subst e
      have hp'' : getNode c nch.parent = some n := by rw [hp]; exact hn
      have hW := (W_step w hU hz hzr hp'').1
      have h1 := hmax' y m hm hdz hmd
      have h2 := hmax nch hin
      linarith

theorem farthestS_sub {U : List Block} {c : Chain} (w : TreeWF U c) (hU : BlockTree c.root U) (H : Nat)
    (hH : ∀ y m, getNode c y = some m → m.height < H) :
    ∀ (f x : Nat) (n : Node), getNode c x = some n → HasData c x n → n.bits % 0x1000000 ≠ 0 → n.height + f ≥ H →
      FarOKS c x n (farthestS c f n) := by
  intro f
  induction f with
  | zero =>
    intro x n hn _ _ hf
    have := hH x n hn
    omega
  | succ f ih =>
    intro x n hn hdat hb hf
    have hchild : ∀ ch ∈ (n.childs.filterMap (getNode c)).filter (fun m => m.txCount != 0),
        ∃ z, getNode c z = some ch ∧ z ≠ c.root ∧ ch.parent = x ∧ FarOKS c z ch (farthestS c f ch) := by
      intro ch hch
      obtain ⟨hch1, hch2⟩ := List.mem_filter.mp hch
      have htc : ch.txCount ≠ 0 := by simpa using hch2
      obtain ⟨z, hz, hzc⟩ := List.mem_filterMap.mp hch1
      obtain ⟨hzr, n', hn', hpar⟩ := w.childs x n hn z hz
      rw [hzc] at hn'; cases hn'
      obtain ⟨p, hp, hph, _⟩ := w.par z ch hzc hzr
      rw [hpar, hn] at hp; cases hp
      exact ⟨z, hzc, hzr, hpar, ih z ch hzc (Or.inr htc) (node_bits_ok w hU hzc hzr) (by omega)⟩
    have hall : ∀ z nch, getNode c z = some nch → nch.parent = x → z ≠ c.root → nch.txCount ≠ 0 →
        nch ∈ (n.childs.filterMap (getNode c)).filter (fun m => m.txCount != 0) := by
      intro z nch hz hp hzr htc
      obtain ⟨p, hp', _, hzin⟩ := w.par z nch hz hzr
      rw [hp, hn] at hp'; cases hp'
      exact List.mem_filter.mpr ⟨List.mem_filterMap.mpr ⟨z, hzin, hz⟩, by simpa using htc⟩
    rw [farthestS]
    split
    · next hk =>
      rw [hk] at hall
      exact farS_leaf w hn hdat hb (fun z nch hz hp hzr htc => by cases hall z nch hz hp hzr htc)
    · next c0 rest hk =>
      rw [hk] at hall hchild
      have hden : ∀ ch ∈ c0 :: rest, (farthestS c f ch).2.den > 0 := by
        intro ch hch
        obtain ⟨_, _, _, _, _, _, _, _, h, _⟩ := hchild ch hch
        exact h
      obtain ⟨h1, _, h3, h4⟩ := foldl_best (farthestS c f)
        (fun acc ch => let r := farthestS c f ch; if r.2.gt acc.2 then r else acc) (fun _ _ => rfl) rest
        (farthestS c f c0) (hden c0 List.mem_cons_self) (fun ch h => hden ch (List.mem_cons_of_mem _ h))
      refine farS_node w hU hn hb (farthestS c f) (c0 :: rest) hchild hall _ ?_ ?_
      · rcases h1 with h1 | ⟨ch, hch, h1⟩
        · exact ⟨c0, List.mem_cons_self, h1⟩
        · exact ⟨ch, List.mem_cons_of_mem _ hch, h1⟩
      · intro ch hch
        rcases List.mem_cons.mp hch with rfl | hch
        · exact h3
        · exact h4 ch hch

/-- **findFarthestWithData from the root returns a node WITH DATA of maximum work among the nodes with data**: the
    fall-back target of ParseTillBlock is always a block that can be connected (it and, by `TreeWF.anc`, every ancestor has
    its data), and no node that has its data has more cumulative work (ties: the first child with data wins). -/
theorem farthestS_spec {U : List Block} {c : Chain} (w : TreeWF U c) (hU : BlockTree c.root U) {r : Node}
    (hr : getNode c c.root = some r) (hrb : r.bits % 0x1000000 ≠ 0) :
    ∃ nL, getNode c (farthestS c (c.nodes.length + 1) r).1 = some nL ∧
      HasData c (farthestS c (c.nodes.length + 1) r).1 nL ∧
      ∀ x n, getNode c x = some n → HasData c x n → W c n ≤ W c nL := by
  obtain ⟨nL, hL, _, hLd, _, _, hmax⟩ := farthestS_sub w hU c.nodes.length (fun y m hm => height_lt_length w hm)
    (c.nodes.length + 1) c.root r hr (Or.inl rfl) hrb (by omega)
  exact ⟨nL, hL, hLd, fun x n hn hd => hmax x n hn (Desc_root_all w hn) hd⟩

end GocoinV.ChainTree
