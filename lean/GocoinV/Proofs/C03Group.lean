/-
  Proofs.C03Group — own ECDSA signatures verify and recover, from the group law of the reference
  curve Base/Secp.

  `SecpGroupLaw` is the ONE package of group-law facts used: `Secp.add` is closed, commutative and
  associative on curve points. (Neutral element, inverses and n·G = ∞ are proved here directly.)
  Proofs/C03Curve.lean discharges it from Mathlib's `WeierstrassCurve.Affine.Point` group.
-/
import GocoinV.Proofs.C03Field
import Mathlib.GroupTheory.OrderOfElement
namespace GocoinV.Proofs.C03
open GocoinV GocoinV.Secp GocoinV.Model GocoinV.Model.Sig

/-- the point is ∞ or satisfies y² = x³ + 7 with coordinates below p -/
def OnC (P : Point) : Prop := onCurve P = true

/-- The group law of the reference curve, as far as C03 needs it. -/
class SecpGroupLaw : Prop where
  add_closed : ∀ P Q, OnC P → OnC Q → OnC (add P Q)
  add_comm : ∀ P Q, OnC P → OnC Q → add P Q = add Q P
  add_assoc : ∀ P Q R, OnC P → OnC Q → OnC R → add (add P Q) R = add P (add Q R)

theorem add_none_right (P : Point) : add P none = P := by
  cases P <;> rfl

theorem neg_onC (P : Point) (h : OnC P) : OnC (neg P) := by
  cases P with
  | none => exact h
  | some q =>
    obtain ⟨x, y⟩ := q
    unfold OnC at *
    obtain ⟨hx, hy, heq⟩ := (onCurve_iff x y).mp h
    show onCurve (some (x, (p - y) % p)) = true
    rw [onCurve_iff]
    refine ⟨hx, Nat.mod_lt _ p_pos, ?_⟩
    rw [ZMod.natCast_mod, Nat.cast_sub (by omega), ZMod.natCast_self, zero_sub, neg_sq]
    exact heq

theorem add_neg_self (P : Point) (h : OnC P) : add P (neg P) = none := by
  cases P with
  | none => rfl
  | some q =>
    obtain ⟨x, y⟩ := q
    have hy0 := onCurve_y_ne_zero x y h
    obtain ⟨hx, hy, _⟩ := (onCurve_iff x y).mp h
    have hpodd : p % 2 = 1 := by decide
    have hne : y ≠ (p - y) % p := by
      rw [Nat.mod_eq_of_lt (by omega)]; omega
    simp only [neg, add, ↓reduceIte, hne]

/-- curve points as a type -/
def CurvePt := {P : Point // OnC P}

instance : Zero CurvePt := ⟨⟨none, rfl⟩⟩
instance [L : SecpGroupLaw] : Add CurvePt := ⟨fun P Q => ⟨add P.1 Q.1, L.add_closed _ _ P.2 Q.2⟩⟩
instance : Neg CurvePt := ⟨fun P => ⟨neg P.1, neg_onC _ P.2⟩⟩

instance instGroup [L : SecpGroupLaw] : AddCommGroup CurvePt where
  add_assoc P Q R := Subtype.ext (L.add_assoc _ _ _ P.2 Q.2 R.2)
  zero_add P := Subtype.ext (by show add none P.1 = P.1; cases P.1 <;> rfl)
  add_zero P := Subtype.ext (add_none_right P.1)
  neg_add_cancel P := Subtype.ext (by
    show add (neg P.1) P.1 = none
    rw [L.add_comm _ _ (neg_onC _ P.2) P.2]; exact add_neg_self _ P.2)
  add_comm P Q := Subtype.ext (L.add_comm _ _ P.2 Q.2)
  nsmul := nsmulRec
  zsmul := zsmulRec

section
variable [L : SecpGroupLaw]

theorem val_add (P Q : CurvePt) : (P + Q).1 = add P.1 Q.1 := rfl
omit L in
theorem val_zero : (0 : CurvePt).1 = none := rfl
omit L in
theorem val_neg (P : CurvePt) : (-P).1 = neg P.1 := rfl

omit L in
theorem dbl_eq_add (P : Point) : dbl P = add P P := by
  cases P with
  | none => rfl
  | some q => obtain ⟨x, y⟩ := q; simp [add]

/-- the double-and-add loop computes 2^i·acc + (k mod 2^i)·P -/
theorem mulAux_nsmul (P : CurvePt) : ∀ (i k : Nat) (acc : CurvePt),
    mulAux P.1 i k acc.1 = ((2 ^ i) • acc + (k % 2 ^ i) • P).1 := by
  intro i
  induction i with
  | zero => intro k acc; simp [mulAux, Nat.mod_one]
  | succ i ih =>
    intro k acc
    simp only [mulAux]
    have hk : k % 2 ^ (i + 1) = k % 2 ^ i + 2 ^ i * (if k.testBit i then 1 else 0) := by
      rw [Nat.testBit_eq_decide_div_mod_eq]
      have h1 : k % 2 ^ (i + 1) = k % 2 ^ i + 2 ^ i * (k / 2 ^ i % 2) := by
        rw [Nat.pow_succ, Nat.mod_mul]
      rcases Nat.mod_two_eq_zero_or_one (k / 2 ^ i) with h | h <;> simp [h1, h]
    by_cases hb : k.testBit i
    · simp only [hb, ↓reduceIte] at hk ⊢
      have e : add (dbl acc.1) P.1 = (acc + acc + P).1 := by rw [dbl_eq_add]; rfl
      rw [e, ih k (acc + acc + P), hk]
      congr 1
      rw [pow_succ, mul_nsmul, two_nsmul, add_nsmul, smul_add, smul_add, _root_.mul_one]
      abel
    · simp only [hb, Bool.false_eq_true, ↓reduceIte] at hk ⊢
      have e : dbl acc.1 = (acc + acc).1 := by rw [dbl_eq_add]; rfl
      rw [e, ih k (acc + acc), hk]
      congr 1
      rw [pow_succ, mul_nsmul, two_nsmul, smul_add, mul_zero, add_zero]

/-- the reference scalar multiplication is the k-fold sum -/
theorem mul_eq_nsmul (k : Nat) (P : CurvePt) : mul k P.1 = (k • P).1 := by
  unfold mul
  have h := mulAux_nsmul P (k.log2 + 1) k 0
  rw [val_zero] at h
  rw [h, smul_zero, zero_add, Nat.mod_eq_of_lt Nat.lt_log2_self]

/-- the generator as a curve point -/
def Gc : CurvePt := ⟨G, by unfold OnC; decide +kernel⟩

omit L in
theorem mul_n_G : mul n G = none := by decide +kernel

theorem order_G : n • Gc = 0 := Subtype.ext (by rw [← mul_eq_nsmul]; exact mul_n_G)

theorem nsmul_G_congr (a b : Nat) (h : (a : ZMod n) = (b : ZMod n)) : a • Gc = b • Gc := by
  have hm : a % n = b % n := (mod_eq_iff_cast n a b).mpr h
  have red : ∀ c : Nat, c • Gc = (c % n) • Gc := by
    intro c
    conv_lhs => rw [← Nat.mod_add_div c n]
    rw [add_nsmul, mul_nsmul, order_G, smul_zero, add_zero]
  rw [red a, red b, hm]

theorem mul_G (k : Nat) : mul k G = (k • Gc).1 := mul_eq_nsmul k Gc

/-- a·(d·G) + b·G = (d·a + b)·G -/
theorem lin_G (a d b : Nat) : add (mul a (mul d G)) (mul b G) = ((d * a + b) • Gc).1 := by
  rw [mul_G d, mul_eq_nsmul a, mul_G b, ← val_add, ← mul_nsmul, ← add_nsmul]

theorem neg_smul_G (k : Nat) (hk : k ≤ n) : (n - k) • Gc = -(k • Gc) := by
  apply eq_neg_of_add_eq_zero_left
  rw [← add_nsmul, Nat.sub_add_cancel hk, order_G]

/-- x-coordinate of (n−k)·G equals that of k·G -/
theorem mul_neg_G (k x y : Nat) (hk : k ≤ n) (h : mul k G = some (x, y)) :
    ((n - k) • Gc).1 = some (x, (p - y) % p) := by
  rw [neg_smul_G k hk, val_neg, ← mul_G, h]; rfl

end

/-! ### what `sign` returns -/

theorem sign_spec (d m k r s recid : Nat) (h : sign d m k = some (r, s, recid)) :
    0 < k ∧ k < n ∧ ∃ x y, mul k G = some (x, y) ∧ r = x % n ∧
      modInvN k * ((x % n * d % n + m) % n) % n ≠ 0 ∧
      ((s = modInvN k * ((x % n * d % n + m) % n) % n ∧
          recid = (if x ≥ n then 2 else 0) ||| (if y % 2 = 1 then 1 else 0)) ∨
       (s = n - modInvN k * ((x % n * d % n + m) % n) % n ∧
          recid = ((if x ≥ n then 2 else 0) ||| (if y % 2 = 1 then 1 else 0)) ^^^ 1)) := by
  unfold sign at h
  split at h
  · simp at h
  · rename_i hk
    split at h
    · simp at h
    · rename_i x y hxy
      dsimp only at h
      split at h
      · simp at h
      · rename_i hs0
        refine ⟨by omega, by omega, x, y, hxy, ?_⟩
        have hlt : modInvN k * ((x % n * d % n + m) % n) % n < n := Nat.mod_lt _ n_pos
        generalize modInvN k * ((x % n * d % n + m) % n) % n = s0 at *
        generalize ((if x ≥ n then 2 else 0) ||| (if y % 2 = 1 then 1 else 0)) = rec0 at *
        have hxx : ∀ a : Nat, a ^^^ 1 ^^^ 1 = a := by
          intro a; rw [Nat.xor_assoc]; simp
        by_cases a : s0 % 2 = 1 <;> by_cases b : (if s0 % 2 = 1 then n - s0 else s0) > halfOrder <;>
          simp only [a, ↓reduceIte] at h b <;>
          simp only [b, ↓reduceIte, Option.some.injEq, Prod.mk.injEq] at h <;>
          obtain ⟨rfl, rfl, rfl⟩ := h
        · exact ⟨rfl, hs0, Or.inl ⟨by omega, hxx _⟩⟩
        · exact ⟨rfl, hs0, Or.inr ⟨rfl, rfl⟩⟩
        · exact ⟨rfl, hs0, Or.inr ⟨rfl, rfl⟩⟩
        · exact ⟨rfl, hs0, Or.inl ⟨rfl, rfl⟩⟩

/-! ### field identities behind ECDSA -/

theorem cast_ne_zero_of_lt (a : Nat) (h0 : 0 < a) (hl : a < n) : (a : ZMod n) ≠ 0 := by
  rw [Ne, ZMod.natCast_eq_zero_iff]
  intro hd
  exact absurd (Nat.le_of_dvd h0 hd) (by omega)

theorem fld_verify {F : Type} [Field F] (K T S r d m : F) (hT : T = r * d + m) (hS : S = K⁻¹ * T)
    (hS0 : S ≠ 0) : d * (S⁻¹ * r) + S⁻¹ * m = K := by
  have hT0 : T ≠ 0 := by rintro rfl; simp at hS; exact hS0 hS
  subst hS
  have e : d * ((K⁻¹ * T)⁻¹ * r) + (K⁻¹ * T)⁻¹ * m = K * (T⁻¹ * (r * d + m)) := by
    rw [mul_inv, inv_inv]; ring
  rw [e, ← hT, inv_mul_cancel₀ hT0, _root_.mul_one]

theorem fld_recover {F : Type} [Field F] (K T S r d m : F) (hT : T = r * d + m) (hS : S = K⁻¹ * T)
    (hK : K ≠ 0) (hr : r ≠ 0) : K * (r⁻¹ * S) + -(r⁻¹ * m) = d := by
  subst hS hT
  field_simp
  ring

end GocoinV.Proofs.C03
