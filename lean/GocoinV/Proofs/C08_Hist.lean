/-
  Proofs.C08_Hist — operation sequences on point objects (Model.GroupHist) and several callers of InvVar at once
  (Model.GroupSched).

    * `afterSetXYZ_ok`: what XY.SetXYZ leaves in its ARGUMENT is an admissible triple (magnitudes 1, Z = 1) for the SAME
      point, and it is `SetXY` of the result — so converting the object again, or computing on with it, is computing
      with the point it was.
    * `step_ok` / `run_ok`: every call of a history keeps "every register within the contract" and commutes with
      the reference machine on points (`HOp.ref`), by the per-operation theorems of C08_Group / C08_MultGenFull / C08_Api.
    * `thread_alone`: with a private number every caller of InvVar is where it would be alone, under every schedule.
-/
import GocoinV.Model.GroupHist
import GocoinV.Model.GroupSched
import GocoinV.Proofs.C08_Api

namespace GocoinV.C08
open GocoinV.Gen.Field5x52 GocoinV.Gen GocoinV.Proofs.C03

/-! ### the argument of SetXYZ -/

theorem afterSetXYZ_eq (a : XYZ) : XYZ.afterSetXYZ a = XYZ.ofXY (XY.ofXYZ a) := by
  cases a; rfl

/-- `XY.SetXYZ` leaves in its argument an admissible triple for the same point -/
theorem afterSetXYZ_ok (a : XYZ) (ha : a.ok) :
    (XYZ.afterSetXYZ a).ok ∧ (XYZ.afterSetXYZ a).inf = a.inf ∧ (XYZ.afterSetXYZ a).toPoint = a.toPoint := by
  obtain ⟨sx, sy, si⟩ := ofXYZ_S a ha
  have hxy : (XY.ofXYZ a).ok := ⟨mag_mono sx.1 (by decide), mag_mono sy.1 (by decide)⟩
  obtain ⟨h1, h2⟩ := ofXY_ok (XY.ofXYZ a) hxy
  rw [afterSetXYZ_eq]
  refine ⟨h1, si, ?_⟩
  rw [h2]
  unfold XY.toPoint XYZ.toPoint
  rw [si, sx.2, sy.2]

/-! ### histories -/

def Regs.ok (r : Regs) : Prop := (∀ a ∈ r.J, a.ok) ∧ (∀ b ∈ r.A, b.ok)

/-- the points the registers stand for -/
def Regs.points (r : Regs) : PRegs := ⟨r.J.map XYZ.toPoint, r.A.map XY.toPoint⟩

theorem setJ_ok {r r' : Regs} {k : Nat} {v : XYZ} (hr : r.ok) (hv : v.ok) (h : setJ r k v = some r') :
    r'.ok ∧ setPJ r.points k v.toPoint = some r'.points := by
  unfold setJ at h
  split at h
  · rename_i hk
    injection h with h
    subst h
    refine ⟨⟨fun a ha => ?_, hr.2⟩, ?_⟩
    · rcases List.mem_or_eq_of_mem_set ha with h | h
      · exact hr.1 a h
      · rw [h]; exact hv
    · unfold setPJ Regs.points
      simp only [List.length_map, hk, if_true, List.map_set]
  · exact absurd h (by simp)

theorem setA_ok {r r' : Regs} {k : Nat} {v : XY} (hr : r.ok) (hv : v.ok) (h : setA r k v = some r') :
    r'.ok ∧ setPA r.points k v.toPoint = some r'.points := by
  unfold setA at h
  split at h
  · rename_i hk
    injection h with h
    subst h
    refine ⟨⟨hr.1, fun a ha => ?_⟩, ?_⟩
    · rcases List.mem_or_eq_of_mem_set ha with h | h
      · exact hr.2 a h
      · rw [h]; exact hv
    · unfold setPA Regs.points
      simp only [List.length_map, hk, if_true, List.map_set]
  · exact absurd h (by simp)

theorem getJ_points (r : Regs) (i : Nat) : r.points.J[i]? = (r.J[i]?).map XYZ.toPoint := by
  unfold Regs.points; simp

theorem getA_points (r : Regs) (i : Nat) : r.points.A[i]? = (r.A[i]?).map XY.toPoint := by
  unfold Regs.points; simp

theorem getJ_ok {r : Regs} (hr : r.ok) {i : Nat} {a : XYZ} (h : r.J[i]? = some a) : a.ok :=
  hr.1 a (List.mem_of_getElem? h)

theorem getA_ok {r : Regs} (hr : r.ok) {i : Nat} {a : XY} (h : r.A[i]? = some a) : a.ok :=
  hr.2 a (List.mem_of_getElem? h)

theorem ecmultGen_okP (s : Nat) : (ecmultGen s).ok ∧ (ecmultGen s).toPoint = Secp.mul (s % 2 ^ 256) Secp.G :=
  ⟨(ecmultGen_ref s).1, ecmultGen_mul s⟩

/-- one call: the contract is kept and the points follow the group law -/
theorem step_ok (o : HOp) (hl : o.law = true) (r r' : Regs) (hr : r.ok) (h : o.step r = some r') :
    r'.ok ∧ o.ref r.points = some r'.points := by
  cases o with
  | dbl i k =>
    simp only [HOp.step] at h
    simp only [HOp.ref, getJ_points]
    cases hi : r.J[i]? with
    | none => rw [hi] at h; exact absurd h (by simp)
    | some a =>
      rw [hi] at h
      obtain ⟨h1, h2⟩ := double_ok a (getJ_ok hr hi)
      obtain ⟨g1, g2⟩ := setJ_ok hr h1 h
      exact ⟨g1, by simpa [h2] using g2⟩
  | add i j k =>
    simp only [HOp.step] at h
    simp only [HOp.ref, getJ_points]
    cases hi : r.J[i]? with
    | none => rw [hi] at h; exact absurd h (by simp)
    | some a =>
      cases hj : r.J[j]? with
      | none => rw [hi, hj] at h; exact absurd h (by simp)
      | some b =>
        rw [hi, hj] at h
        obtain ⟨h1, h2⟩ := add_ok a b (getJ_ok hr hi) (getJ_ok hr hj)
        obtain ⟨g1, g2⟩ := setJ_ok hr h1 h
        exact ⟨g1, by simpa [h2] using g2⟩
  | addxy i j k =>
    simp only [HOp.step] at h
    simp only [HOp.ref, getJ_points, getA_points]
    cases hi : r.J[i]? with
    | none => rw [hi] at h; exact absurd h (by simp)
    | some a =>
      cases hj : r.A[j]? with
      | none => rw [hi, hj] at h; exact absurd h (by simp)
      | some b =>
        rw [hi, hj] at h
        obtain ⟨h1, h2⟩ := addXY_ok a b (getJ_ok hr hi) (getA_ok hr hj)
        obtain ⟨g1, g2⟩ := setJ_ok hr h1 h
        exact ⟨g1, by simpa [h2] using g2⟩
  | neg i k =>
    simp only [HOp.step] at h
    simp only [HOp.ref, getJ_points]
    cases hi : r.J[i]? with
    | none => rw [hi] at h; exact absurd h (by simp)
    | some a =>
      rw [hi] at h
      obtain ⟨h1, h2⟩ := neg_ok a (getJ_ok hr hi)
      obtain ⟨g1, g2⟩ := setJ_ok hr h1 h
      exact ⟨g1, by simpa [h2] using g2⟩
  | negxy i k =>
    simp only [HOp.step] at h
    simp only [HOp.ref, getA_points]
    cases hi : r.A[i]? with
    | none => rw [hi] at h; exact absurd h (by simp)
    | some a =>
      rw [hi] at h
      obtain ⟨h1, h2⟩ := negXY_ok a (getA_ok hr hi)
      obtain ⟨g1, g2⟩ := setA_ok hr h1 h
      exact ⟨g1, by simpa [h2] using g2⟩
  | setxyz i k =>
    simp only [HOp.step] at h
    simp only [HOp.ref, getJ_points]
    cases hi : r.J[i]? with
    | none => rw [hi] at h; exact absurd h (by simp)
    | some a =>
      rw [hi] at h
      simp only [] at h
      have ha := getJ_ok hr hi
      obtain ⟨sx, sy, si⟩ := ofXYZ_S a ha
      have hxy : (XY.ofXYZ a).ok := ⟨mag_mono sx.1 (by decide), mag_mono sy.1 (by decide)⟩
      have hpt : (XY.ofXYZ a).toPoint = a.toPoint := by
        unfold XY.toPoint XYZ.toPoint
        rw [si, sx.2, sy.2]
      obtain ⟨f1, _, f3⟩ := afterSetXYZ_ok a ha
      cases hs : setA r k (XY.ofXYZ a) with
      | none => rw [hs] at h; exact absurd h (by simp)
      | some r1 =>
        rw [hs] at h
        obtain ⟨g1, g2⟩ := setA_ok hr hxy hs
        obtain ⟨k1, k2⟩ := setJ_ok g1 f1 h
        refine ⟨k1, ?_⟩
        rw [hpt] at g2
        rw [f3] at k2
        simp only [Option.map_some, g2, k2]
  | setxy i k =>
    simp only [HOp.step] at h
    simp only [HOp.ref, getA_points]
    cases hi : r.A[i]? with
    | none => rw [hi] at h; exact absurd h (by simp)
    | some a =>
      rw [hi] at h
      obtain ⟨h1, h2⟩ := ofXY_ok a (getA_ok hr hi)
      obtain ⟨g1, g2⟩ := setJ_ok hr h1 h
      exact ⟨g1, by simpa [h2] using g2⟩
  | gen s k =>
    simp only [HOp.step] at h
    simp only [HOp.ref]
    obtain ⟨h1, h2⟩ := ecmultGen_okP s
    obtain ⟨g1, g2⟩ := setJ_ok hr h1 h
    exact ⟨g1, by simpa [h2] using g2⟩
  | lam i k => exact absurd hl (by simp [HOp.law])
  | mult i na ng k => exact absurd hl (by simp [HOp.law])

theorem run_ok (ops : List HOp) (hl : ∀ o ∈ ops, o.law = true) (r r' : Regs) (hr : r.ok) (h : run ops r = some r') :
    r'.ok ∧ refRun ops r.points = some r'.points := by
  induction ops generalizing r with
  | nil =>
    simp only [run] at h
    injection h with h
    subst h
    exact ⟨hr, rfl⟩
  | cons o os ih =>
    simp only [run] at h
    cases hs : o.step r with
    | none => rw [hs] at h; exact absurd h (by simp)
    | some r1 =>
      rw [hs] at h
      obtain ⟨g1, g2⟩ := step_ok o (hl o (List.mem_cons_self ..)) r r1 hr hs
      obtain ⟨k1, k2⟩ := ih (fun o ho => hl o (List.mem_cons_of_mem _ ho)) r1 g1 h
      refine ⟨k1, ?_⟩
      simp only [refRun, g2, k2]

/-! ### several callers of InvVar -/

namespace InvSched

theorem stepTh_private_cell (cell : Nat) (t : Th) : (stepTh false cell t).2 = cell := by
  unfold stepTh
  simp only [Bool.false_eq_true, if_false]
  split
  · rfl
  · split
    · rfl
    · split <;> rfl

theorem stepTh_private_indep (c1 c2 : Nat) (t : Th) : (stepTh false c1 t).1 = (stepTh false c2 t).1 := by
  unfold stepTh
  simp only [Bool.false_eq_true, if_false]
  split
  · rfl
  · split
    · rfl
    · split <;> rfl

theorem alone_succ' (t : Th) (n : Nat) : alone t (n + 1) = (stepTh false 0 (alone t n)).1 := by
  induction n generalizing t with
  | zero => rfl
  | succ n ih =>
    show alone (stepTh false 0 t).1 (n + 1) = _
    rw [ih]
    rfl

/-- with a private number, after any schedule every caller is where it would be had it made its own steps alone -/
theorem thread_alone (ts : List Th) (cell : Nat) (sched : List Nat) (i : Nat) (t : Th) (h : ts[i]? = some t) :
    (run false ⟨cell, ts⟩ sched).ths[i]? = some (alone t (sched.count i)) := by
  induction sched generalizing ts cell t with
  | nil => simpa [run, alone] using h
  | cons j js ih =>
    unfold run
    rw [List.foldl_cons]
    change (run false (step false ⟨cell, ts⟩ j) js).ths[i]? = _
    unfold step
    cases hj : ts[j]? with
    | none =>
      simp only [hj]
      have hne : j ≠ i := by
        intro e; rw [e] at hj; rw [hj] at h; exact absurd h (by simp)
      rw [ih ts cell t h, List.count_cons]
      simp [hne]
    | some u =>
      simp only [hj]
      by_cases e : j = i
      · subst e
        rw [hj] at h
        injection h with h
        subst h
        have hlt : j < ts.length := by
          rcases Nat.lt_or_ge j ts.length with hl | hl
          · exact hl
          · rw [List.getElem?_eq_none hl] at hj; exact absurd hj (by simp)
        have hset : (ts.set j (stepTh false cell u).1)[j]? = some (stepTh false cell u).1 := by
          rw [List.getElem?_set_self hlt]
        rw [ih _ _ _ hset, List.count_cons]
        simp only [beq_self_eq_true, if_true]
        rw [stepTh_private_indep cell 0 u]
        rfl
      · have hset : (ts.set j (stepTh false cell u).1)[i]? = some t := by
          rw [List.getElem?_set_ne e]; exact h
        rw [ih _ _ _ hset, List.count_cons]
        simp [e]

/-- alone, three steps: load, invert, store — the result is the modular inverse of the caller's own value -/
theorem alone_three (v : Nat) : (alone (Th.init v) 3).out = Secp.invMod v P ∧ (alone (Th.init v) 3).pc = 3 := by
  simp [alone, stepTh, Th.init]

theorem alone_done (t : Th) (h : t.pc = 3) (n : Nat) : alone t n = t := by
  induction n with
  | zero => rfl
  | succ n ih =>
    show alone (stepTh false 0 t).1 n = t
    have : (stepTh false 0 t).1 = t := by
      unfold stepTh; simp [h]
    rw [this, ih]

theorem alone_add (t : Th) (m n : Nat) : alone t (m + n) = alone (alone t m) n := by
  induction m generalizing t with
  | zero => simp [alone]
  | succ m ih =>
    rw [Nat.succ_add]
    show alone (stepTh false 0 t).1 (m + n) = alone (alone (stepTh false 0 t).1 m) n
    exact ih _

/-- a caller that made at least its three steps holds the inverse of its own value -/
theorem alone_ge_three (v n : Nat) (h : 3 ≤ n) : (alone (Th.init v) n).out = Secp.invMod v P := by
  obtain ⟨k, rfl⟩ := Nat.exists_eq_add_of_le h
  rw [alone_add, alone_done _ (alone_three v).2]
  exact (alone_three v).1

theorem count_finish (n i : Nat) (h : i < n) : 3 ≤ (finish n).count i := by
  induction n with
  | zero => exact absurd h (Nat.not_lt_zero _)
  | succ k ih =>
    unfold finish
    rw [List.count_append]
    by_cases e : i = k
    · subst e; simp
    · have := ih (by omega)
      omega

theorem step_length (sh : Bool) (s : St) (i : Nat) : (step sh s i).ths.length = s.ths.length := by
  unfold step
  split
  · rfl
  · simp

theorem run_length (sh : Bool) (s : St) (sched : List Nat) : (run sh s sched).ths.length = s.ths.length := by
  induction sched generalizing s with
  | nil => rfl
  | cons j js ih =>
    unfold run
    rw [List.foldl_cons]
    change (run sh (step sh s j) js).ths.length = _
    rw [ih, step_length]

/-- with a private number, whatever the interleaving: once everybody has returned, every caller holds the inverse of
    its own value -/
theorem finished_outs (vs : List Nat) (sched : List Nat) :
    (run false (start vs) (sched ++ finish vs.length)).ths.map (·.out) = vs.map fun v => Secp.invMod v P := by
  apply List.ext_getElem?
  intro i
  rw [List.getElem?_map, List.getElem?_map]
  by_cases hi : i < vs.length
  · have hv : (vs.map Th.init)[i]? = some (Th.init vs[i]) := by
      rw [List.getElem?_map, List.getElem?_eq_getElem hi]; rfl
    unfold start
    rw [thread_alone _ 0 _ i _ hv, List.getElem?_eq_getElem hi]
    simp only [Option.map_some]
    rw [alone_ge_three]
    rw [List.count_append]
    have := count_finish vs.length i hi
    omega
  · have h1 : vs[i]? = none := List.getElem?_eq_none (by omega)
    have h2 : (run false (start vs) (sched ++ finish vs.length)).ths[i]? = none := by
      apply List.getElem?_eq_none
      rw [run_length]
      unfold start
      simp only [List.length_map]
      omega
    rw [h1, h2]
    rfl

end InvSched
end GocoinV.C08
