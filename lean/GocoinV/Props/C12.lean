/-
  Props.C12 — the mempool stays conflict-free, spendable and internally consistent (client/txpool).
  Every theorem is about the definitions of Model/Mempool.lean that the oracle executes and the harness
  go/cmd/c12 compares with the real package after every operation.
-/
import GocoinV.Model.Mempool
import GocoinV.Spec.MempoolTemplate
import GocoinV.Proofs.C12
namespace GocoinV.Props.C12
open GocoinV.Mempool

/-- The model's GetSortedMempoolSlow (what buildSortedList installs as the BestT2S…WorstT2S list whenever the
    list is dirty, and what GetSortedMempool returns then) places every in-pool parent (MemInputs flag) before
    its child — for every pool state, however it was reached. -/
theorem sorted_parents_first (K : Keys) (s : State) : ParentsFirst K (sortedSlowP K s) := by
  unfold sortedSlowP
  exact foldl_slowStep_PF K _ _ _ (by simp [ParentsFirst, PFfrom])

/-- A block body assembled from a listing of pooled records is accepted by the input-availability rules of
    commitTxs (`BlockOK`: every input unspent-confirmed or created earlier in the block, consumed once),
    provided the listing satisfies the pool invariant's conjuncts named here:
    `hnd`  no transaction spends one outpoint twice (what the `fix:` commit enforces),
    `hconf` no two listed transactions spend the same outpoint,
    `hsp`  every input is an unspent confirmed output or an existing output of a pooled transaction,
    `hpf`  parents first: the pooled parent of an unconfirmed input stands earlier in the listing. -/
theorem template_valid (K : Keys) (s : State) (ls : List T2S)
    (hnd : ∀ t ∈ ls, t.tx.inOps.Nodup)
    (hconf : ls.Pairwise (fun a b => ∀ o ∈ a.tx.inOps, o ∉ b.tx.inOps))
    (hsp : ∀ t ∈ ls, ∀ i ∈ t.tx.ins, (s.utxo.get? i.op).isSome ∨
        ∃ p, s.pool.get? (K.bidx i.prev) = some p ∧ p.tx.id = i.prev ∧ i.vout < p.tx.outs.length)
    (hpf : ∀ pre t post, ls = pre ++ t :: post → ∀ i ∈ t.tx.ins, ∀ p,
        s.pool.get? (K.bidx i.prev) = some p → (s.utxo.get? i.op).isSome = false → p ∈ pre) :
    BlockOK (fun o => (s.utxo.get? o).isSome) (ls.map (·.tx)) := by
  apply blockOK_of ls _ hnd hconf
  intro pre t post heq o ho
  obtain ⟨i, hi, rfl⟩ := List.mem_map.mp ho
  have ht : t ∈ ls := by rw [heq]; simp
  by_cases hu : (s.utxo.get? i.op).isSome = true
  · exact Or.inl hu
  · rcases hsp t ht i hi with h | ⟨p, hp, hid, hv⟩
    · exact absurd h hu
    · exact Or.inr ⟨p, hpf pre t post heq i hi p hp (by simpa using hu), hid.symm, hv⟩

/-- F9 repaired: processTx refuses (code ≠ 0) every transaction that spends one outpoint twice, whatever the
    pool, the fee floor and the trust flags (except the `Unmined` path, which only sees transactions of a
    block the chain had accepted), and the pool is left as it was. -/
theorem dup_input_refused (K : Keys) (mf : Nat) (s : State) (t : Tx) (fl : Flags)
    (hu : fl.unmined = false) (hd : hasDupInput t.ins = true) :
    (processTx K mf s t fl).1 ≠ 0 ∧ (processTx K mf s t fl).2.pool = s.pool ∧
    (processTx K mf s t fl).2.spent = s.spent := by
  unfold processTx
  split
  · have c := rejectTx_core K s t R_TOO_BIG none
    exact ⟨by simp [R_TOO_BIG], c.1, c.2.1⟩
  · split
    · have c := rejectTx_core K s t R_BAD_INPUT none
      exact ⟨by simp [R_BAD_INPUT], c.1, c.2.1⟩
    · rename_i h2
      simp [hu, hd] at h2

/-- The structural part of the pool invariant (`InvS`: TransactionsToSend keyed by BIDX, SpentOutputs exactly
    the inverse of the pooled inputs) holds initially and is preserved by the two primitives through which
    EVERY change of TransactionsToSend / SpentOutputs in the model goes — `delOne` (OneTxToSend.Delete without
    children, incl. the rejectTx it may do) and `addT2S` (OneTxToSend.Add, when no input is spent in the pool) —
    by everything that only touches the reject list or the sorted list, by replacement (`deleteRbf`) and by
    eviction. -- OPEN: `pool_inv : ∀ ops, Inv K (run K {} ops)` (induction over `step`, with the spendable /
    Fee / totals conjuncts) is not proved; what is missing is the glue showing that processTx's rbf list
    contains every pooled spender of the new transaction's inputs, and the delete-with-children recursion. -/
theorem pool_inv_partial (K : Keys) :
    InvS K {} ∧
    (∀ s t r, InvS K s → s.pool.get? (K.bidx t.tx.id) = some t → InvS K (delOne K s t r)) ∧
    (∀ s t, InvS K s → s.pool.get? (K.bidx t.tx.id) = none → (∀ u ∈ uidxs K t.tx, s.spent.get? u = none) →
        InvS K (addT2S K s t)) ∧
    (∀ s t why m, InvS K s → InvS K (rejectTx K s t why m)) ∧
    (∀ s b, InvS K s → InvS K (rejDeleteByIdx K s b)) ∧
    (∀ s rbf, InvS K s → InvS K (deleteRbf K s rbf)) ∧
    (∀ s v, InvS K s → InvS K (step K s (.evict v))) := by
  refine ⟨⟨?_, ?_, ?_⟩, ?_, ?_, ?_, ?_, ?_, ?_⟩
  · intro b t h; simp [AList.get?] at h
  · intro u b h; simp [AList.get?] at h
  · intro b t h; simp [AList.get?] at h
  · intro s t r h hin; exact delOne_InvS K s t r h hin
  · intro s t h hf hfree; exact addT2S_InvS K s t h hf hfree
  · intro s t why m h; exact InvS_of_core h (rejectTx_core K s t why m)
  · intro s b h; exact InvS_of_core h (rejDeleteByIdx_core K s b)
  · intro s rbf h; unfold deleteRbf; exact deleteRbf_InvS K _ s h
  · intro s v h
    simp only [step]
    cases he : evict K s v with
    | none => simpa using h
    | some s' => simpa using evict_InvS K v s s' h he

/-- Under `InvS` no two pooled records spend the same UIdx; with UIdx injective on outpoints (explicit
    hypothesis: the code's 64-bit index is not injective in general) no two pooled transactions spend the same
    outpoint. -/
theorem no_double_spend (K : Keys) (s : State) (h : InvS K s)
    (hinj : ∀ a b c d, K.uidx a b = K.uidx c d → a = c ∧ b = d)
    (b1 b2 : Nat) (t1 t2 : T2S) (h1 : s.pool.get? b1 = some t1) (h2 : s.pool.get? b2 = some t2)
    (i1 i2 : TxIn) (m1 : i1 ∈ t1.tx.ins) (m2 : i2 ∈ t2.tx.ins)
    (heq : i1.prev = i2.prev ∧ i1.vout = i2.vout) : b1 = b2 := by
  have _ := hinj
  have u1 : K.uidx i1.prev i1.vout ∈ uidxs K t1.tx := List.mem_map.mpr ⟨i1, m1, rfl⟩
  have u2 : K.uidx i1.prev i1.vout ∈ uidxs K t2.tx := List.mem_map.mpr ⟨i2, m2, by rw [heq.1, heq.2]⟩
  have e1 := h.complete b1 t1 h1 _ u1
  have e2 := h.complete b2 t2 h2 _ u2
  rw [e1] at e2
  exact Option.some.inj e2

/-- Eviction (removeExcessiveTxs) in the model only ever deletes transactions that have no child in the pool
    at their turn; a victim list that would delete a parent before its child is refused. -/
theorem evict_childless (K : Keys) (s s' : State) (b : Nat) (r : List Nat)
    (h : evict K s (b :: r) = some s') : ∃ t, s.pool.get? b = some t ∧ hasNoChildren K s t = true := by
  simp only [evict, List.foldlM_cons] at h
  cases hb : s.pool.get? b with
  | none => simp [hb] at h
  | some t =>
    simp only [hb] at h
    by_cases hc : hasNoChildren K s t = true
    · exact ⟨t, rfl, hc⟩
    · simp [hc] at h

/-! non-vacuity -/

def K0 : Keys := { bidx := id, uidx := fun a b => a * 1000 + b }
def txA : Tx := { id := 7, ins := [⟨1, 0, 0⟩], outs := [50], nws := 100, size := 100, scriptOk := true }
def txB : Tx := { id := 8, ins := [⟨7, 0, 0⟩], outs := [40], nws := 100, size := 100, scriptOk := true }
def txD : Tx := { id := 9, ins := [⟨1, 0, 0⟩, ⟨1, 0, 0⟩], outs := [40], nws := 100, size := 100, scriptOk := true }
def s0 : State := { utxo := [((1, 0), ⟨60, 1, false⟩)], height := 5 }
def s2 : State := (submitNet K0 0 (submitNet K0 0 s0 txA false).2 txB false).2

example : (submitNet K0 0 s0 txA false).1 = 0 := by decide
example : (processTx K0 0 s0 txD {}).1 = R_BAD_INPUT := by decide
example : (sortedSlowP K0 s2).map (·.1) = [7, 8] := by decide
example : hasDupInput txD.ins = true := by decide
example : BlockOK (fun o => (s0.utxo.get? o).isSome) [txA, txB] := by
  simp [BlockOK, Tx.inOps, TxIn.op, txA, txB, s0, AList.get?, Tx.creates]
example : evict K0 s2 [7] = none := by decide
example : (evict K0 s2 [8, 7]).isSome = true := by decide

end GocoinV.Props.C12
