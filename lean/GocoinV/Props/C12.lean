import GocoinV.Model.Mempool
namespace GocoinV.Props.C12
end GocoinV.Props.C12
