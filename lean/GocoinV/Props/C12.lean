/-
  Props.C12 — the mempool stays conflict-free, spendable and internally consistent (client/txpool).
  Every theorem is about the definitions of Model/Mempool.lean that the oracle executes and the harness
  go/cmd/c12 compares with the real package after every operation. The theorems are stated for arbitrary index functions
  `K : Keys`; the oracle executes `K = realKeys` (BIDX = bytes 0..7 of the txid, UIdx = bytes 24..31 xor the low 32 bits of
  the output index). That the key hypotheses (`Univ`, `Univ2`) are satisfiable for `realKeys` is `key_hypotheses_realKeys`
  below, and the non-vacuity instances of `section real` run every central theorem at `K = realKeys` over 256-bit txids.
  (Until the second audit `Univ2.uidx_play` ranged over all output indexes and was unsatisfiable for `realKeys`.)
-/
import GocoinV.Model.Mempool
import GocoinV.Spec.MempoolTemplate
import GocoinV.Proofs.C12
import GocoinV.Proofs.C12Inv
import GocoinV.Proofs.C12Rbf
import GocoinV.Proofs.C12Sort
import GocoinV.Proofs.C12Compose
import GocoinV.Proofs.C12SortRun
import GocoinV.Proofs.C12Chain
import GocoinV.Proofs.C12RejAdm
import GocoinV.Proofs.C12Example
import GocoinV.Proofs.C12Resync
import GocoinV.Proofs.C12Load
import GocoinV.Proofs.C12PanicFlags
import GocoinV.Proofs.C12PanicRbf
import GocoinV.Proofs.C12PanicSort
import GocoinV.Proofs.C12PanicUndo
import GocoinV.Proofs.C12Wrap
import GocoinV.Proofs.C12Seed4
import GocoinV.Proofs.C12Toy
import GocoinV.Proofs.C12Real
import GocoinV.Proofs.C12Fuel
import GocoinV.Proofs.C12Maturity
import GocoinV.Proofs.C12Example2
namespace GocoinV.Props.C12
open GocoinV.Mempool

/-- The model's GetSortedMempoolSlow (what buildSortedList installs as the BestT2S…WorstT2S list whenever the
    list is dirty, and what GetSortedMempool returns then) places every in-pool parent (MemInputs flag) before
    its child — for every pool state, however it was reached. -/
-- (the composition with the pool invariant is `template_from_pool` below)
theorem sorted_parents_first (K : Keys) (s : State) : ParentsFirst K (sortedSlowP K s) := by
  unfold sortedSlowP
  exact foldl_slowStep_PF K _ _ _ (by simp [ParentsFirst, PFfrom])

/-- Completeness of the model's GetSortedMempoolSlow: the listing contains every pooled record exactly once —
    for every pool state whose key list has no duplicates and in which every flagged (MemInputs) parent of a
    pooled record is itself pooled, the spending relation being acyclic (`rank` decreases towards parents; a txid
    is a hash over the txids it spends). The fuel of the model's recursion (pool size + 1) is shown sufficient. -/
theorem sorted_complete (K : Keys) (s : State) (rank : Nat → Nat) (hn : (s.pool.map Prod.fst).Nodup)
    (hpar : ∀ b t, (b, t) ∈ s.pool → ∀ k ∈ memParents K t, (∃ t', (k, t') ∈ s.pool) ∧ rank k < rank b) :
    (sortedSlow K s).Nodup ∧ ∀ b, b ∈ sortedSlow K s ↔ b ∈ s.pool.map Prod.fst :=
  sortedSlow_complete K s rank hn hpar

/-- A block body assembled from a listing of pooled records is accepted by the input-availability rules of
    commitTxs (`BlockOK`: every input unspent-confirmed or created earlier in the block, consumed once),
    provided the listing satisfies the pool invariant's conjuncts named here:
    `hnd`  no transaction spends one outpoint twice (what the `fix:` commit enforces),
    `hconf` no two listed transactions spend the same outpoint,
    `hsp`  every input is an unspent confirmed output or an existing output of a pooled transaction,
    `hpf`  parents first: the pooled parent of an unconfirmed input stands earlier in the listing. -/
theorem template_valid (K : Keys) (s : State) (ls : List T2S)
    (hnd : ∀ t ∈ ls, t.tx.inOps.Nodup)
    (hconf : ls.Pairwise (fun a b => ∀ o ∈ a.tx.inOps, o ∉ b.tx.inOps))
    (hsp : ∀ t ∈ ls, ∀ i ∈ t.tx.ins, (s.utxo.get? i.op).isSome ∨
        ∃ p, s.pool.get? (K.bidx i.prev) = some p ∧ p.tx.id = i.prev ∧ i.vout < p.tx.outs.length)
    (hpf : ∀ pre t post, ls = pre ++ t :: post → ∀ i ∈ t.tx.ins, ∀ p,
        s.pool.get? (K.bidx i.prev) = some p → (s.utxo.get? i.op).isSome = false → p ∈ pre) :
    BlockOK (fun o => (s.utxo.get? o).isSome) (ls.map (·.tx)) := by
  apply blockOK_of ls _ hnd hconf
  intro pre t post heq o ho
  obtain ⟨i, hi, rfl⟩ := List.mem_map.mp ho
  have ht : t ∈ ls := by rw [heq]; simp
  by_cases hu : (s.utxo.get? i.op).isSome = true
  · exact Or.inl hu
  · rcases hsp t ht i hi with h | ⟨p, hp, hid, hv⟩
    · exact absurd h hu
    · exact Or.inr ⟨p, hpf pre t post heq i hi p hp (by simpa using hu), hid.symm, hv⟩

/-- F9 repaired: processTx refuses (code ≠ 0) every transaction that spends one outpoint twice, whatever the
    pool, the fee floor and the trust flags (except the `Unmined` path, which only sees transactions of a
    block the chain had accepted), and the pool is left as it was. -/
theorem dup_input_refused (K : Keys) (mf : Nat) (s : State) (t : Tx) (fl : Flags)
    (hu : fl.unmined = false) (hd : hasDupInput t.ins = true) :
    (processTx K mf s t fl).1 ≠ 0 ∧ (processTx K mf s t fl).2.pool = s.pool ∧
    (processTx K mf s t fl).2.spent = s.spent := by
  unfold processTx
  split
  · have c := rejectTx_core K s t R_TOO_BIG none
    exact ⟨by simp [R_TOO_BIG], c.1, c.2.1⟩
  · split
    · have c := rejectTx_core K s t R_BAD_INPUT none
      exact ⟨by simp [R_BAD_INPUT], c.1, c.2.1⟩
    · rename_i h2
      simp [hu, hd] at h2

/-- The structural part of the pool invariant holds after EVERY history of operations (the quantifier of the
    property: submissions from peers / trusted peers / the local wallet incl. replacements and orphans resolved by
    txAccepted, connected blocks, undone blocks, tip moves, expiry with children, size-limit eviction, re-sorting,
    BlockCommitInProgress, save + reload), started from the empty pool:
    `InvS` = TransactionsToSend is keyed by the BIDX of its records ∧ every SpentOutputs entry points to a pooled
    record having that input ∧ every input of every pooled record is in SpentOutputs under that record's key —
    i.e. SpentOutputs is exactly the inverse of the pooled inputs, hence no two pooled records share an input index.
    Hypotheses (`Univ`), all about the set `W` of transactions occurring in the history, none about the pool:
    BIDX does not collide on their txids; the UIdx of one of their inputs equals the UIdx of an output slot of one
    of them only if the input names that transaction; a txid determines the transaction; every transaction has
    an input; the spending relation is acyclic (`rank`).
    The further conjuncts (spendable inputs with MemInputs, nothing pooled confirmed, Fee/Volume, weight total) are
    `pool_inv` below; they need the chain side as hypotheses on the history. -/
theorem pool_inv_struct (K : Keys) (W : Tx → Prop) (rank : TxId → Nat) (U : Univ K W rank) (ops : List Op)
    (hW : ∀ op ∈ ops, ∀ t ∈ op.txs, W t) : InvS K (run K {} ops) :=
  (run_InvR U ops {} (InvR_init K W) hW).str

/-- ... and each single operation keeps it, from any state that satisfies the carried invariant `InvR`
    (InvS ∧ the pool list has no duplicate key ∧ every transaction stored in the pool, the rejected list and the
    undo stack belongs to `W`). -/
theorem pool_inv_step (K : Keys) (W : Tx → Prop) (rank : TxId → Nat) (U : Univ K W rank) (s : State) (op : Op)
    (h : InvR K W s) (hW : ∀ t ∈ op.txs, W t) : InvR K W (step K s op) :=
  step_InvR U s op h hW

/-- Conflict-freedom over all histories: in every reachable state two pooled records that have an input with the
    same UIdx are the same record (same key). With UIdx injective on the outpoints in play this is "no two pooled
    transactions spend the same output". -/
theorem pool_conflict_free (K : Keys) (W : Tx → Prop) (rank : TxId → Nat) (U : Univ K W rank) (ops : List Op)
    (hW : ∀ op ∈ ops, ∀ t ∈ op.txs, W t) (b1 b2 : Nat) (t1 t2 : T2S)
    (h1 : (run K {} ops).pool.get? b1 = some t1) (h2 : (run K {} ops).pool.get? b2 = some t2)
    (i1 i2 : TxIn) (m1 : i1 ∈ t1.tx.ins) (m2 : i2 ∈ t2.tx.ins)
    (heq : K.uidx i1.prev i1.vout = K.uidx i2.prev i2.vout) : b1 = b2 := by
  have h := pool_inv_struct K W rank U ops hW
  have u1 : K.uidx i1.prev i1.vout ∈ uidxs K t1.tx := List.mem_map.mpr ⟨i1, m1, rfl⟩
  have u2 : K.uidx i1.prev i1.vout ∈ uidxs K t2.tx := List.mem_map.mpr ⟨i2, m2, heq.symm⟩
  have e1 := h.complete b1 t1 h1 _ u1
  have e2 := h.complete b2 t2 h2 _ u2
  rw [e1] at e2
  exact Option.some.inj e2

/-- The repaired replacement rule (3rd `fix:` commit): processTx refuses (BAD_INPUT, pool untouched) a transaction
    one of whose in-pool parents is on its own rbf list, whatever the flags, whenever the input loop succeeds. -/
theorem replaced_parent_refused (K : Keys) (mf : Nat) (s : State) (t : Tx) (fl : Flags) (a : Acc)
    (h1 : (!fl.unmined && decide (t.weight > s.cfg.maxTxWeight)) = false)
    (h2 : (!fl.unmined && hasDupInput t.ins) = false)
    (ha : t.ins.foldlM (inputStep K s fl) ({} : Acc) = .ok a)
    (hr : spendsReplaced K t.ins a.frommem a.rbf = true) :
    (processTx K mf s t fl).1 = R_BAD_INPUT ∧ (processTx K mf s t fl).2.pool = s.pool ∧
    (processTx K mf s t fl).2.spent = s.spent := by
  unfold processTx
  simp only [h1, h2, ha, hr, if_true, Bool.false_eq_true, if_false]
  have c := rejectTx_core K s t R_BAD_INPUT none
  exact ⟨trivial, c.1, c.2.1⟩

/-- Under `InvS` two pooled records that have an input naming the same outpoint are the same record: no two pooled
    transactions spend the same outpoint. (No injectivity of UIdx is needed for this direction: equal outpoints have equal
    UIdx. The former hypothesis `hinj` — UIdx injective on ALL pairs — was unused and, for `realKeys`, unsatisfiable.) -/
theorem no_double_spend (K : Keys) (s : State) (h : InvS K s)
    (b1 b2 : Nat) (t1 t2 : T2S) (h1 : s.pool.get? b1 = some t1) (h2 : s.pool.get? b2 = some t2)
    (i1 i2 : TxIn) (m1 : i1 ∈ t1.tx.ins) (m2 : i2 ∈ t2.tx.ins)
    (heq : i1.prev = i2.prev ∧ i1.vout = i2.vout) : b1 = b2 := by
  have u1 : K.uidx i1.prev i1.vout ∈ uidxs K t1.tx := List.mem_map.mpr ⟨i1, m1, rfl⟩
  have u2 : K.uidx i1.prev i1.vout ∈ uidxs K t2.tx := List.mem_map.mpr ⟨i2, m2, by rw [heq.1, heq.2]⟩
  have e1 := h.complete b1 t1 h1 _ u1
  have e2 := h.complete b2 t2 h2 _ u2
  rw [e1] at e2
  exact Option.some.inj e2

/-- Eviction (removeExcessiveTxs) in the model only ever deletes transactions that have no child in the pool
    at their turn; a victim list that would delete a parent before its child is refused. -/
theorem evict_childless (K : Keys) (s s' : State) (b : Nat) (r : List Nat)
    (h : evict K s (b :: r) = some s') : ∃ t, s.pool.get? b = some t ∧ hasNoChildren K s t = true := by
  simp only [evict, List.foldlM_cons] at h
  cases hb : s.pool.get? b with
  | none => simp [hb] at h
  | some t =>
    simp only [hb] at h
    by_cases hc : hasNoChildren K s t = true
    · exact ⟨t, rfl, hc⟩
    · simp [hc] at h

/-- GetSortedMempoolRBF (the listing the property observes): merging the sorted list `l` with the CPFP fee packages
    `pks` (pkgs.go, `mergeRBF` = the two nested loops incl. `anyIn`) yields a listing without duplicates, of exactly
    the transactions of `l`, with every pooled transaction after its flagged in-pool parents — provided `l` is such
    a listing of the whole pool and every package passes `pkgOK` (no duplicates, members pooled, closed under
    flagged parents with parents first; this is what the harness has the model check on gocoin's FeePackages
    before every comparison of the two listings). -/
theorem rbf_listing_valid (K : Keys) (s : State) (l : List Nat) (pks : List Pkg)
    (hn : l.Nodup) (hl : pfKeys K s [] l = true) (hall : ∀ b t, s.pool.get? b = some t → b ∈ l)
    (hp : ∀ pk ∈ pks, pkgOK K s pk = true) :
    (mergeRBF s l pks []).Nodup ∧ (∀ b, b ∈ mergeRBF s l pks [] ↔ b ∈ l) ∧
    pfKeys K s [] (mergeRBF s l pks []) = true := by
  have hl' := (pfKeys_iff K s l []).mp hl
  have _ := hn
  obtain ⟨h1, h2⟩ := mergeRBF_listed K s l hl' l [] pks [] (by simp)
    (fun pk hpk => pkgOK_fits K s l hall pk (hp pk hpk)) ⟨List.nodup_nil, by simp, trivial⟩ (by simp)
  exact ⟨h1.nodup, fun b => ⟨h1.sub b, h2 b⟩, (pfKeys_iff K s _ []).mpr h1.pf⟩

/-- THE POOL INVARIANT OVER ALL HISTORIES (conjuncts (a)–(c) of DESIGN §6 C12). Start from an empty pool over an
    arbitrary confirmed set `u0` (`genesis`), apply ANY history `ops` of the modelled operations (submissions from
    peers / trusted peers / the wallet incl. replacement and orphan resolution, connected blocks, undone blocks, tip
    moves, expiry with children, eviction, re-sorting, BlockCommitInProgress, save + reload). If the process is alive
    in the final state (`panicked = false`: no Go panic / os.Exit was reached — the flag is sticky, so none was
    reached on the way either), then `PoolInv` holds there:
    (a) every input of a pooled transaction is an existing output of a pooled transaction (MemInputs flag set) or an
        unspent confirmed output (flag clear); MemInputs is nil or one flag per input and MemInputCnt counts the flags;
    (b) nothing pooled is confirmed: no unspent confirmed output carries a pooled txid and no connected block
        contains a pooled transaction (with (a): nothing pooled conflicts with the chain);
    (c) Volume = Σ input values and Fee + Σ output values = Volume in the code's uint64 arithmetic (`ν` = the value
        of an outpoint), no pooled transaction spends an outpoint twice, TransactionsToSendWeight = Σ weights
        (sizes are fields of the modelled transaction, hence exact by construction);
    plus the structural part (`pool_inv_struct`).
    Hypotheses. `Univ2`, about the set `W` of transactions of the history only: `Univ` (above), BIDX does not collide on
    the txids in play (`Play`: ids of the transactions and of the outputs their inputs name), UIdx does not collide on the
    pairs (txid in play, output index in play) — `VPlay`: the `vout` of an input of the history or an index into the
    outputs of one of its transactions; NOT all naturals: the code's UIdx reads 32 bits of the index —, no transaction of
    the history has an output in `u0`, `ν` gives the output values. Satisfiable for `realKeys`: `key_hypotheses_realKeys`.
    `alive` also covers the model's own iteration budget for the txAccepted loop (`txAccFuel`; the Go loop is unbounded):
    a run in which it ran out has the flag set and is outside this theorem — `orphan_budget_irrelevant` shows that an
    alive run is the run of the unbounded loop.
    `ValidRun`, about the blocks of the history only (fourth pass; it reads nothing but the confirmed set and the undo
    stack of the state each `block` operation is applied to): every connected block body is `BlockValid` = `BlockOK`
    (every input unspent-confirmed or created earlier in the block, consumed once) ∧ its txids are new (not confirmed,
    BIP30/34) ∧ pairwise different. Nothing is required of `undo` operations. The chain-side facts the pool needs
    (`ConnectSound` / `UndoCommitTxs`, formerly hypotheses) are DERIVED for the model's own chain simulation
    connectUtxo / disconnectUtxo from this predicate (`chain_sim_sound` below, Proofs/C12Chain*.lean). -/
theorem pool_inv (K : Keys) (W : Tx → Prop) (rank : TxId → Nat) (u0 : UT) (ν : OutPoint → Nat)
    (U : Univ2 K W rank u0 ν) (cfg : Cfg) (h0 : Nat) (ops : List Op)
    (hW : ∀ op ∈ ops, ∀ t ∈ op.txs, W t) (hv : ValidRun K u0 (genesis cfg u0 h0) ops)
    (alive : (run K (genesis cfg u0 h0) ops).panicked = false) :
    PoolInv K ν (run K (genesis cfg u0 h0) ops) := by
  have ha := admRun_genesis U cfg h0 ops hW hv
  have f := run_full U ops _ (full_genesis U cfg h0) hW ha
  exact PoolInv.of_good f.chain (f.good alive)

/-- The model's chain simulation is sound for valid blocks (what `pool_inv` formerly assumed): from the chain-side history
    invariant `ChainInv` (it implies `ChainOK`), connecting a `BlockValid` body yields `ConnectSound` and `ChainInv`
    again; disconnecting the last block yields `UndoCommitTxs` and `ChainInv` again, with no hypothesis on the block. -/
theorem chain_sim_sound (K : Keys) (W : Tx → Prop) (rank : TxId → Nat) (u0 : UT) (ν : OutPoint → Nat)
    (U : Univ2 K W rank u0 ν) (s : State) (hc : ChainInv u0 ν s) :
    (∀ h txs, BlockValid u0 s txs → (∀ t ∈ txs, W t) →
      ConnectSound u0 ν s (connectUtxo s h txs) txs ∧ ChainInv u0 ν (connectUtxo s h txs)) ∧
    (∀ s' txs, disconnectUtxo s = some (s', txs) → UndoCommitTxs u0 ν s s' txs ∧ ChainInv u0 ν s') :=
  ⟨fun h txs hb hW => connect_sound_model U s h txs hc hb hW, fun s' txs hd => undo_sound_model s s' txs hc hd⟩

/-- … and every single operation keeps the carried invariant (`Full` = structural invariant ∧ consistent chain side ∧
    the pool invariant whenever the process is alive), from any state, given the operation is admissible there. -/
theorem pool_inv_full_step (K : Keys) (W : Tx → Prop) (rank : TxId → Nat) (u0 : UT) (ν : OutPoint → Nat)
    (U : Univ2 K W rank u0 ν) (s : State) (op : Op) (h : Full K W u0 ν s) (hW : ∀ t ∈ op.txs, W t)
    (ha : AdmOp u0 ν s op) : Full K W u0 ν (step K s op) :=
  step_full U s op h hW ha

/-- THE INVARIANT OF THE INCREMENTALLY MAINTAINED SORTED LIST over all histories (fourth pass). In every state reached
    from the empty pool by ANY history of the modelled operations with valid blocks in which the process is alive, if the
    BestT2S…WorstT2S list is not dirty (i.e. it is what GetSortedMempool returns without rebuilding) then `SortOK` holds:
    the SortRank values strictly increase from BestT2S to WorstT2S and stay inside uint64 (hence no two list elements
    share a SortRank, and findWorstParent's `>` finds the LAST flagged parent on the list); the list holds exactly the
    keys of TransactionsToSend (no duplicates follow from the ranks); no element standing after a record is one of its
    flagged (MemInputs) parents; no record is its own flagged parent.
    The proof goes through AddToSort (findWorstParent by SortRank, insertDownFromHere, insertBefore, fixIndex with its
    four cases, reindexDown incl. its overflow exit, reindexEverything, adjustSortIndexStep), DelFromSort,
    buildSortedList and every operation that reaches them.
    Hypothesis `nowrap`: the model's ghost flag `rankWrap` is clear. The flag is set, since the last rebuild of the list,
    exactly where the Go code computes a SortRank without a guard and the computation left uint64 or met a step of 0:
    the append at the end of insertDownFromHere (`WorstT2S.SortRank + sortIndexStep`, needs > 2^62/sortIndexStep ≈ 2.4
    million consecutive appends without a rebuild), sortIndexStep = 0 or sortIndexStep/16 = 0 (more than 2^55 pooled
    transactions), SORT_START + n·step ≥ 2^64 in reindexEverything / buildSortedList (impossible for the step
    adjustSortIndexStep computes; not proved). These are outside every run the harness can make; they are not claimed. -/
theorem sorted_list_inv (K : Keys) (W : Tx → Prop) (rank : TxId → Nat) (u0 : UT) (ν : OutPoint → Nat)
    (U : Univ2 K W rank u0 ν) (cfg : Cfg) (h0 : Nat) (ops : List Op)
    (hW : ∀ op ∈ ops, ∀ t ∈ op.txs, W t) (hv : ValidRun K u0 (genesis cfg u0 h0) ops)
    (alive : (run K (genesis cfg u0 h0) ops).panicked = false)
    (clean : (run K (genesis cfg u0 h0) ops).sortDirty = false)
    (nowrap : (run K (genesis cfg u0 h0) ops).rankWrap = false) :
    SortOK K (run K (genesis cfg u0 h0) ops) := by
  have ha := admRun_genesis U cfg h0 ops hW hv
  exact run_sort U ops _ (full_genesis U cfg h0) (sort_genesis K cfg u0 h0) hW ha alive clean nowrap

/-- … and each single operation keeps it (with the carried pool invariant `Full`). -/
theorem sorted_list_inv_step (K : Keys) (W : Tx → Prop) (rank : TxId → Nat) (u0 : UT) (ν : OutPoint → Nat)
    (U : Univ2 K W rank u0 ν) (s : State) (op : Op) (h : Full K W u0 ν s) (hW : ∀ t ∈ op.txs, W t)
    (ha : AdmOp u0 ν s op) (q : SortInvP K s) : SortInvP K (step K s op) :=
  step_sort U s op h hW ha q

/-- (e) THE COMPOSITION: in every state reached by a history with valid blocks in which the process is alive, the block
    body built from the listing of GetSortedMempoolRBF (`sortedRBF`: the sorted list merged with fee packages that pass
    `pkgOK`) is accepted by the input-availability rules of commitTxs (`BlockOK` against the confirmed set of that
    state): `pool_inv` + `sorted_complete` + `sorted_parents_first` (dirty list: GetSortedMempoolSlow) or
    `sorted_list_inv` (non-dirty list: the incrementally maintained one) + `rbf_listing_valid` supply exactly the four
    hypotheses of `template_valid`. The former hypothesis `hsorted` about the non-dirty list is gone; what remains is
    `nowrap` (see `sorted_list_inv`), needed only when the list is not dirty. -/
theorem template_from_pool (K : Keys) (W : Tx → Prop) (rank : TxId → Nat) (u0 : UT) (ν : OutPoint → Nat)
    (U : Univ2 K W rank u0 ν) (cfg : Cfg) (h0 : Nat) (ops : List Op)
    (hW : ∀ op ∈ ops, ∀ t ∈ op.txs, W t) (hv : ValidRun K u0 (genesis cfg u0 h0) ops)
    (alive : (run K (genesis cfg u0 h0) ops).panicked = false) (pks : List Pkg)
    (hp : ∀ pk ∈ pks, pkgOK K (run K (genesis cfg u0 h0) ops) pk = true)
    (nowrap : (run K (genesis cfg u0 h0) ops).sortDirty = false → (run K (genesis cfg u0 h0) ops).rankWrap = false) :
    BlockOK (fun o => ((run K (genesis cfg u0 h0) ops).utxo.get? o).isSome)
      ((recsOf (run K (genesis cfg u0 h0) ops) (sortedRBF K (run K (genesis cfg u0 h0) ops) pks)).map (·.tx)) := by
  have ha := admRun_genesis U cfg h0 ops hW hv
  have f := run_full U ops _ (full_genesis U cfg h0) hW ha
  have q := run_sort U ops _ (full_genesis U cfg h0) (sort_genesis K cfg u0 h0) hW ha
  generalize run K (genesis cfg u0 h0) ops = s at *
  have g := f.good alive
  -- the sorted list is a duplicate-free complete parents-first listing
  have hl : (getSorted K s).Nodup ∧ pfKeys K s [] (getSorted K s) = true ∧
      ∀ b t, s.pool.get? b = some t → b ∈ getSorted K s := by
    unfold getSorted
    cases hd : s.sortDirty with
    | true =>
      simp only [if_true]
      obtain ⟨l1, l2, l3⟩ := sortedSlow_listing U s g
      exact ⟨l1, (pfKeys_iff K s _ []).mpr l3, l2⟩
    | false =>
      simp only [Bool.false_eq_true, if_false]
      exact sortOK_listing U s g (q alive hd (nowrap hd))
  obtain ⟨r1, _, r3⟩ := rbf_listing_valid K s (getSorted K s) pks hl.1 hl.2.1 hl.2.2 hp
  have pf := (pfKeys_iff K s _ []).mp r3
  exact template_valid K s (recsOf s (sortedRBF K s pks)) (listing_hnd s g _) (listing_hconf s g _ r1)
    (listing_hsp s g _) (listing_hpf s g _ pf)

/-- blocks of valid histories carry pairwise different BIDX (txids of `W` are separated by BIDX) -/
theorem blocksDistinct_of_valid (K : Keys) (W : Tx → Prop) (rank : TxId → Nat) (u0 : UT) (U : Univ K W rank) :
    ∀ (ops : List Op) (s : State), (∀ op ∈ ops, ∀ t ∈ op.txs, W t) → ValidRun K u0 s ops → BlocksDistinct K ops := by
  intro ops
  induction ops with
  | nil => intro s _ _ op hop; cases hop
  | cons o r ih =>
    intro s hW hv op hop h txs mf e
    rcases List.mem_cons.mp hop with rfl | hop
    · subst e
      have hb : BlockValid u0 s txs := hv.1
      have hWt : ∀ t ∈ txs, W t := fun t ht => hW _ List.mem_cons_self t (by simpa [Op.txs] using ht)
      show ((txs.map fun t => K.bidx t.id)).Pairwise (· ≠ ·)
      rw [List.pairwise_map]
      refine List.Pairwise.imp_of_mem ?_ hb.2.2
      intro a b ha hb' hne hk
      exact hne (U.bidx_inj a b (hWt a ha) (hWt b hb') hk)
    · exact ih (step K s o) (fun o' ho' => hW o' (List.mem_cons_of_mem _ ho')) hv.2 op hop h txs mf e

/-- (d) THE REJECT INDEXES OVER ALL HISTORIES (fourth pass): in every state reached from the empty pool by any history
    with valid blocks in which the process is alive, `RejInv` holds: TransactionsRejected has no duplicate key and is
    keyed by the BIDX of its records; the TRIdxArray ring holds every rejected key exactly once and nothing else; a
    record keeps its transaction iff reason ≥ 200, has Waiting4 iff reason = NO_TXOU, none without data;
    RejectedSpentOutputs lists under each UIdx exactly (membership) the data-carrying records having an input with that
    UIdx, no empty lists; WaitingForInputs lists under each BIDX exactly the records waiting for it, duplicate-free,
    no empty lists, keyed by the BIDX of its TxID; nothing is both pooled and rejected. Consequently the reject-related
    panic branches of the model (rejEvictOldest: ring slot without record; txAccepted: empty list / missing record /
    record without data) are unreachable (`rejEvictOldest_panicked`, `txAcceptedAuxP_indep` in Proofs/C12RejPanic).
    Extra hypothesis: the ring has at least 2 slots (with 1 slot, model and Go code alike evict in Add the record just
    added and then index it). Not covered: multiplicities in RejectedSpentOutputs (membership only), equality of
    Waiting4 with OneWaitingList.TxID beyond their BIDX, the byte counters / limitRejectedSizeIfNeeded (not modelled). -/
theorem reject_index_inv (K : Keys) (W : Tx → Prop) (rank : TxId → Nat) (u0 : UT) (ν : OutPoint → Nat)
    (U : Univ2 K W rank u0 ν) (cfg : Cfg) (h0 : Nat) (hcap : 2 ≤ cfg.ringCap) (ops : List Op)
    (hW : ∀ op ∈ ops, ∀ t ∈ op.txs, W t) (hv : ValidRun K u0 (genesis cfg u0 h0) ops)
    (alive : (run K (genesis cfg u0 h0) ops).panicked = false) :
    RejInv K (run K (genesis cfg u0 h0) ops) :=
  rejInv_all_histories U cfg h0 hcap ops hW (admRun_genesis U cfg h0 ops hW hv)
    (blocksDistinct_of_valid K W rank u0 U.base ops _ hW hv) alive

/-- Fee exactness in ℕ: when the input values of a pooled transaction do not overflow uint64 (always the case for
    real coins), Fee = Σ inputs − Σ outputs exactly. -/
theorem fee_exact (K : Keys) (ν : OutPoint → Nat) (s : State) (h : PoolInv K ν s) (b : Nat) (t : T2S)
    (hb : s.pool.get? b = some t) : t.fee = sumν ν t.tx.ins 0 - sumU64 t.tx.outs := by
  obtain ⟨h1, h2⟩ := h.fee b t hb
  omega

/-- WHAT THE 4th `fix:` COMMIT ACHIEVES (BlockUndone → removeUnspendableCoinbaseSpends; second audit: first half of the
    formerly OPEN maturity statement). Undo the last block (its height `h`) from any state with the carried invariants
    `Full`, the operation being admissible (`AdmOp`: `UndoCommitTxs`, derived from `ValidRun` for plain histories). If the
    process is alive afterwards, NO pooled record has a confirmed (MemInputs flag clear) input that a block of height `h`
    — the next block — cannot spend: each such input exists in the confirmed set and, if it is a coinbase output, has
    `h - its height ≥ COINBASE_MATURITY` (uint32 arithmetic as in the Go code). Before the fix the put-back state kept a
    pooled spend of a coinbase that had matured exactly with the undone block. -/
theorem undo_leaves_no_immature_spend (K : Keys) (W : Tx → Prop) (rank : TxId → Nat) (u0 : UT) (ν : OutPoint → Nat)
    (U : Univ2 K W rank u0 ν) (s s' : State) (txs : List Tx) (h mf : Nat) (f : Full K W u0 ν s)
    (hd : disconnectUtxo s = some (s', txs)) (ha : AdmOp u0 ν s (.undo h mf))
    (alive : (step K s (.undo h mf)).panicked = false) :
    ∀ b t, (step K s (.undo h mf)).pool.get? b = some t → unspendableAt (step K s (.undo h mf)) h t = false := by
  have e : step K s (.undo h mf) = blockUndoneAt K mf s' h txs := by simp only [step, hd]
  rw [e] at alive ⊢
  exact blockUndoneAt_clean U mf s s' h txs hd f.chain f.good f.inv (ha s' txs hd) alive

-- OPEN: coinbase maturity of the template OVER ALL HISTORIES. `BlockOK` has no maturity rule and the model's blocks carry no
-- coinbase (coinbase coins exist only in the initial set `u0`, with their flag and height). Proved: the state right after
-- an undo is clean (`undo_leaves_no_immature_spend`), and processTx's admission test at both sides of the boundary
-- (`input_boundaries`). NOT proved: that the two compose along a history (`tip` monotone between undos, the coin heights
-- of `connectUtxo`) to "in every reachable alive state no pooled transaction spends a coinbase the next block cannot
-- spend": tested by the harness only (corpus:coinbase-undo, corpus:coinbase-boundary, coinbases aged 98..101 in the random
-- histories, op:undo-bare, template validated by the node at every state).

/-- MAP-ITERATION ORDER IS AN INPUT. The Go code walks maps in two places whose order shows in the state (the batch of
    REPLACED records entering the reject ring; ties of sort.Slice in GetSortedMempoolSlow). The oracle adopts the observed
    order with two edits that are NOT `step`s: `ringorder` (the occupied ring slots get a permutation of their content,
    zeroed slots stay) and `setorder` (the non-dirty sorted list becomes a parents-first permutation of the pool keys, ranks
    as after a rebuild, ghost flag as in reindexEverything). Both edits preserve every carried invariant: `Full` (structural
    invariant ∧ chain side ∧ PoolInv when alive), `RejInv`, and the sorted-list invariant `SortInvP`. -/
theorem resync_step_inv (K : Keys) (W : Tx → Prop) (rank : TxId → Nat) (u0 : UT) (ν : OutPoint → Nat)
    (U : Univ2 K W rank u0 ν) (s s' : State) (ks : List Nat)
    (h : ringorder s ks = some s' ∨ setorder K s ks = some s')
    (f : Full K W u0 ν s) (r : RejInv K s) (q : SortInvP K s) :
    Full K W u0 ν s' ∧ RejInv K s' ∧ SortInvP K s' := by
  rcases h with h | h
  · exact ⟨ringorder_full h f, ringorder_rejInv h r, ringorder_sort h q⟩
  · exact ⟨setorder_full h f, setorder_rejInv h r, setorder_sort U h f.good⟩

/-- … hence the three invariants hold along every trajectory of operations INTERLEAVED with resync edits (`rrun` over
    `Move` = op | ring ks | sort ks | init k j, what the oracle really executes; `init` is a refused MempoolLoad /
    InitMempool, see `refused_load_inv`), provided each operation is admissible in the state it
    is applied to (`RAdm`: its transactions are in `W`, `AdmOp`, `UndoOK` — for plain runs these are derived from `ValidRun`
    by `admRun_genesis` / `undoOK_of_full`; FOR RESYNCED TRAJECTORIES THEY ARE HYPOTHESES: `AdmOp` of a `block` is the
    semantic `ConnectSound`, of an `undo` `UndoCommitTxs`, and `UndoOK` of an `undo` is `UndoFresh` — not derived from
    `BlockValid` here; for every other operation all three are `True`). A trajectory without edits is a `run` (`rrun_ops`). -/
theorem resync_run_inv (K : Keys) (W : Tx → Prop) (rank : TxId → Nat) (u0 : UT) (ν : OutPoint → Nat)
    (U : Univ2 K W rank u0 ν) (ms : List Move) (s : State) (ha : RAdm K W u0 ν s ms)
    (f : Full K W u0 ν s) (r : RejInv K s) (q : SortInvP K s) :
    Full K W u0 ν (rrun K s ms) ∧ RejInv K (rrun K s ms) ∧ SortInvP K (rrun K s ms) :=
  rrun_inv U ms s ha f r q

/-- … and for trajectories WITHOUT `undo` the admissibility hypothesis `RAdm` is derived, from the genesis state, from the
    validity of the blocks alone (`RValid`: every `block` move carries a `BlockValid` body in the state it is applied to,
    no `undo` move; Proofs/C12Example2 `radm_of_valid`: the resync edits and refused loads leave the chain side alone, so
    `ConnectSound` follows as in plain runs). Hence: along every undo-free trajectory of operations, resync edits, refused
    loads and purges with valid blocks, started from the empty pool over any confirmed set, `Full`, `RejInv` and the
    sorted-list invariant hold. (For trajectories WITH undos `UndoCommitTxs` / `UndoFresh` remain hypotheses of
    `resync_run_inv`.) -/
theorem resync_run_inv_valid (K : Keys) (W : Tx → Prop) (rank : TxId → Nat) (u0 : UT) (ν : OutPoint → Nat)
    (U : Univ2 K W rank u0 ν) (cfg : Cfg) (h0 : Nat) (hcap : 2 ≤ cfg.ringCap) (ms : List Move)
    (hW : ∀ m ∈ ms, ∀ o, m = .op o → ∀ t ∈ o.txs, W t) (hv : C12Ex2.RValid K u0 (genesis cfg u0 h0) ms) :
    Full K W u0 ν (rrun K (genesis cfg u0 h0) ms) ∧ RejInv K (rrun K (genesis cfg u0 h0) ms) ∧
    SortInvP K (rrun K (genesis cfg u0 h0) ms) :=
  rrun_inv U ms _ (C12Ex2.radm_of_valid U ms _ (chainInv_genesis U cfg h0) hW hv) (full_genesis U cfg h0)
    (rejInv_genesis K cfg u0 h0 hcap) (sort_genesis K cfg u0 h0)

/-- REFUSED LOAD. MempoolLoad (disk.go) fills TransactionsToSend, SpentOutputs and the reject structures while it reads
    mempool.dmp; when a read fails (the file was cut short by a crash during MempoolSave, is damaged, was written for
    another tip, or is missing) it jumps to `fatal_error`, calls InitMempool() again and returns false, and the node
    goes on (client/main.go ignores the result). `loadRefused K s k j` is the state it leaves when the file written from
    `s` is cut after `k` pool records (`j = none`) or after the pool section and `j` rejected records (`j = some n`).
    For all cut positions and every state `s` satisfying `Full` and `RejInv`:
    (1) that state satisfies `Full` (structural invariant ∧ chain side ∧ PoolInv when alive), `RejInv` and `SortInvP`;
    (2) it is the freshly initialised pool `initMempool s` over the unchanged configuration and chain side — the cut
        position shows at most in the sticky panic flag (raised iff OneTxRejected.Add panicked while the rejected records
        were read; for `j = none` it is literally `initMempool s`, `loadRefused_eq_none`);
    (3) TransactionsToSend, SpentOutputs, TransactionsRejected, the reject ring, WaitingForInputs, RejectedSpentOutputs
        and the sorted list are empty, SortListDirty = false.
    Hence (with `resync_run_inv`, whose `Move` now has `init`) the invariants hold along every trajectory in which refused
    loads (crash-truncated / damaged / foreign-tip / missing mempool.dmp) or the text-UI command `mempool purge`
    (InitMempool() alone = `init k none`) occur between operations. What half-loaded state the second InitMempool()
    wipes out, and that it matters, is `partial_load_counterexample` below. -/
theorem refused_load_inv (K : Keys) (W : Tx → Prop) (u0 : UT) (ν : OutPoint → Nat) (s : State) (k : Nat)
    (j : Option Nat) (f : Full K W u0 ν s) (r : RejInv K s) :
    (Full K W u0 ν (loadRefused K s k j) ∧ RejInv K (loadRefused K s k j) ∧ SortInvP K (loadRefused K s k j)) ∧
    loadRefused K s k j = { initMempool s with panicked := (loadPartial K s k j).panicked } ∧
    ((loadRefused K s k j).pool = [] ∧ (loadRefused K s k j).spent = [] ∧ (loadRefused K s k j).rej = [] ∧
     (loadRefused K s k j).ring = [] ∧ (loadRefused K s k j).waiting = [] ∧ (loadRefused K s k j).rejSpent = [] ∧
     (loadRefused K s k j).sorted = [] ∧ (loadRefused K s k j).sortDirty = false) :=
  ⟨loadRefused_inv s k j f r, loadRefused_eq K s k j, rfl, rfl, rfl, rfl, rfl, rfl, rfl, rfl⟩

/-- A LISTING TAKEN WHILE A BLOCK COMMIT IS IN PROGRESS. Between BlockCommitInProgress(true) and (false) the chain calls
    BlockUndone / BlockMined once per block and TxMutex is free in between and afterwards: another thread of the node (RPC
    getblocktemplate, web / text UI) can list the pool there. While SortingDisabled is set AddToSort / DelFromSort do not
    touch the BestT2S…WorstT2S list, they only raise SortListDirty — so the listing is right only because buildSortedList
    (the model's `.resort`) rebuilds a dirty list WHATEVER SortingDisabled says: after it the list is not dirty and holds
    exactly GetSortedMempoolSlow's result when it was dirty; the flag changes nothing else in the result. In the history
    theorems `.commitFlag`, `.block`, `.undo` and `.resort` are independent operations, so `sorted_list_inv` /
    `template_from_pool` already speak about listings taken inside a commit (`… .commitFlag true, .block …, .resort, …`);
    the harness now drives the real code through these states (a listing after every BlockMined / BlockUndone callback). -/
theorem listing_during_commit (K : Keys) (s : State) :
    (step K s .resort).sortDirty = false ∧
    (step K s .resort).sorted = getSorted K s ∧
    (step K s .resort).sortDisabled = s.sortDisabled ∧
    step K { s with sortDisabled := true } .resort = { step K s .resort with sortDisabled := true } := by
  show (buildSorted K s).sortDirty = false ∧ (buildSorted K s).sorted = getSorted K s ∧
    (buildSorted K s).sortDisabled = s.sortDisabled ∧
    buildSorted K { s with sortDisabled := true } = { buildSorted K s with sortDisabled := true }
  unfold buildSorted getSorted
  cases hd : s.sortDirty with
  | true => exact ⟨rfl, rfl, rfl, rfl⟩
  | false => exact ⟨by simp [hd], by simp, by simp, by simp [hd]⟩

/-- PANIC BRANCHES PROVED UNREACHABLE (beyond the reject-related ones of `reject_index_inv`). In a state satisfying the
    carried invariants:
    (1) `mined()` (minedFlags: `IIdx` = -1, MemInputs nil) does not raise the flag, for a pooled record, under PGood;
    (2) `unmined()` (unminedFlags: `IIdx` = -1) does not, under the structural invariant InvS alone;
    (3) the input loop of processTx never exits with the nil-dereference code R_PANIC (rbfStep: SpentOutputs names a key
        that is not pooled; a descendant from GetAllChildren that is not pooled), under InvS;
    (4) AddToSort's `parent == nil` branch is not taken when every flagged parent of the new record is pooled (what
        `accept_pre` establishes at the call site in processTx: `accept_add_panicked` in Proofs/C12PanicSort), the
        fall-through of fixIndex (`FixFall`, the latent nil dereference after ~800 000 consecutive head insertions)
        being excluded by hypothesis.
    NOT proved (they remain covered only by the hypothesis `alive`): the model's iteration budget of the txAccepted loop
    (`txAcceptedAux` at fuel 0 — not a Go panic at all: the Go loop is unbounded; `txAccFuel` = Σ over the rejected records
    of 2 + #inputs, + |pool| + 4 is argued, not proved, to suffice; see `orphan_budget_irrelevant`, `deep_orphan_drains`);
    BlockUndone's os.Exit(1) for a whole block — one
    iteration is `undoneStep_no_exit` in Proofs/C12PanicUndo, under hypotheses `BlockValid` does not give (inputs restored
    or created earlier in the block, no double spend inside the block, Σ outputs ≤ Σ inputs); Delete's recursion fuel
    (delWithChildren at fuel 0); `FixFall`. -/
theorem panic_branches_unreachable (K : Keys) (W : Tx → Prop) (rank : TxId → Nat) (u0 : UT) (ν : OutPoint → Nat)
    (U : Univ2 K W rank u0 ν) (s : State) :
    (∀ t, ChainOK u0 ν s → PGood K W u0 ν s → s.pool.get? (K.bidx t.tx.id) = some t →
        (minedFlags K s t).panicked = s.panicked) ∧
    (InvS K s → ∀ t, (unminedFlags K s t).panicked = s.panicked) ∧
    (InvS K s → ∀ (fl : Flags) (ins : List TxIn) (a : Acc) (e : Exit),
        ins.foldlM (inputStep K s fl) a = .error e → e.code ≠ R_PANIC) ∧
    (∀ b t, (∀ p ∈ memParents K t, (s.pool.get? p).isSome = true) →
        ¬ FixFall (insState s b (insJ K s t)) (s.sorted.take (insJ K s t)).getLast? (s.sorted.drop (insJ K s t)).head? →
        (addToSort K s b t).panicked = s.panicked) :=
  ⟨fun t hc h hin => minedFlags_panicked_good U t s hc h hin,
   fun h t => (unminedFlags_panicked h t).1,
   fun h fl ins a e he => inputs_no_panic h fl ins a e he,
   fun b t hpar hfix => addToSort_panicked K s b t hpar hfix⟩

/-- THE FEE-RATE PRODUCTS. The model computes `4000*fee < weight*minFee`, `totfees*vsize ≥ fee*totvsize`, isFirstTxBetter
    (`better`) and the package comparison of GetSortedMempoolRBF in ℕ; the Go code in uint64. A product of a factor below
    2^44 (fees: ≈ 175 000 BTC) and a factor below 2^20 (weights, vsizes and their sums; 4000) equals its uint64 value, so
    under that bound `better` is the wrapped comparison the code performs. Outside the bound the model is NOT the code. -/
theorem fee_products_nowrap (a b : T2S) (ha : a.fee < 2 ^ 44) (hb : b.fee < 2 ^ 44)
    (wa : a.tx.weight < 2 ^ 20) (wb : b.tx.weight < 2 ^ 20) :
    better a b = decide ((a.fee * b.tx.weight) % U64 > (b.fee * a.tx.weight) % U64) ∧
    ∀ x y : Nat, x < 2 ^ 44 → y < 2 ^ 20 → (x * y) % U64 = x * y :=
  ⟨better_eq_wrapped a b ha hb wa wb, fun x y hx hy => mul_nowrap x y hx hy⟩

/-- THE KEY HYPOTHESES ARE SATISFIABLE FOR THE CODE'S OWN KEYS (second audit). For a universe `W` whose txids in play
    differ pairwise in bytes 0..7 (their BIDX) and in bytes 28..31 (`hi32`: the half of the UIdx word the output index
    cannot reach), and whose output indexes in play are below 2^32 (the wire format has no others), `realKeys` — the
    keys the oracle executes — satisfies the collision hypotheses of `Univ` (`bidx_inj`, `uidx_inj`) and of `Univ2`
    (`bidx_play`, `uidx_play`); the other fields of `Univ` / `Univ2` do not mention the keys. Real txids are hash values:
    the two conditions fail for a pair of txids with probability 2^-64 resp. 2^-32 (a collision makes gocoin itself
    confuse the two transactions; the theorems do not cover that). The second conjunct records why `uidx_play` cannot
    be asked for all naturals: `uidx a 0 = uidx a 2^32` for every txid. -/
theorem key_hypotheses_realKeys (W : Tx → Prop)
    (hlo : ∀ a b, Play W a → Play W b → a % 2 ^ 64 = b % 2 ^ 64 → a = b)
    (hhi : ∀ a b, Play W a → Play W b → hi32 a = hi32 b → a = b)
    (hv : ∀ v, VPlay W v → v < 2 ^ 32) :
    ((∀ a b, W a → W b → realKeys.bidx a.id = realKeys.bidx b.id → a.id = b.id) ∧
     (∀ c t, W c → W t → ∀ i ∈ c.ins, ∀ v, realKeys.uidx i.prev i.vout = realKeys.uidx t.id v → i.prev = t.id) ∧
     (∀ a b, Play W a → Play W b → realKeys.bidx a = realKeys.bidx b → a = b) ∧
     (∀ a b v w, Play W a → Play W b → VPlay W v → VPlay W w → realKeys.uidx a v = realKeys.uidx b w →
       a = b ∧ v = w)) ∧
    ∀ a : TxId, realKeys.uidx a 0 = realKeys.uidx a (2 ^ 32) :=
  ⟨realKeys_collision_free W hlo hhi hv, realKeys_not_injective_on_all_indexes⟩

/-- THE ITERATION BUDGET OF THE ORPHAN LOOP DOES NOT SHOW IN AN ALIVE RUN. gocoin's txAccepted loops without a bound;
    the model's `txAcceptedAux` carries a budget (`txAccFuel s`) and raises `panicked` when it runs out. If the loop
    started with budget `n` ends alive, every larger budget `m` yields the very same state: the state an alive run
    reaches is the state of the unbounded loop, the budget only decides whether the model answers. (That the budget
    always suffices is NOT proved; when it does not, the oracle's state has the flag set and the harness reports a
    mismatch with the real code.) -/
theorem orphan_budget_irrelevant (K : Keys) (mf : Nat) (n m : Nat) (hle : n ≤ m) (s : State) (recs : List Nat) (d : Nat)
    (h : (txAcceptedAux K mf n s recs d).panicked = false) :
    txAcceptedAux K mf m s recs d = txAcceptedAux K mf n s recs d :=
  txAcceptedAux_fuel_le K mf n m hle s recs d h

/-- THE DEEP-ORPHAN FAMILY OF THE SECOND AUDIT (by evaluation of the model's own `run`). A chain X ← P1 ← … ← P20 of
    unconfirmed transactions and an orphan O with 20 inputs, one output of every Pi; O arrives first, then P1 … P20 (each
    an orphan of its predecessor), then the root X. gocoin pools all 22. So does the model: nothing stays rejected or
    waiting, the process is alive; the loop started by X needs 54 iterations (53 are not enough), the budget is 87. The
    budget the model had before (2·(|rej|+|pool|)+4 = 48) ran out and — then silently — left P20 and O rejected, a state
    gocoin never reaches (`Deep.old_budget_short`). With the parents arriving in reverse order (chain of 8) everything is
    pooled as well. The harness now generates this family on the real code (corpus:deep-orphan, gen:deep-orphan). -/
theorem deep_orphan_drains :
    ((run Deep.K0 Deep.s0 (Deep.ops 20)).pool.length = 22 ∧ (run Deep.K0 Deep.s0 (Deep.ops 20)).rej = [] ∧
     (run Deep.K0 Deep.s0 (Deep.ops 20)).waiting = [] ∧ (run Deep.K0 Deep.s0 (Deep.ops 20)).panicked = false ∧
     txAccFuel (Deep.sPre 20) = 87 ∧
     (txAcceptedAux Deep.K0 0 53 (Deep.sPre 20) [100] 0).panicked = true ∧
     (txAcceptedAux Deep.K0 0 54 (Deep.sPre 20) [100] 0).panicked = false) ∧
    (2 * ((Deep.sPre 20).rej.length + (Deep.sPre 20).pool.length) + 4 = 48 ∧
     (txAcceptedAux Deep.K0 0 48 (Deep.sPre 20) [100] 0).panicked = true) ∧
    ((run Deep.K0 Deep.s0 (Deep.opsRev 8)).pool.length = 10 ∧ (run Deep.K0 Deep.s0 (Deep.opsRev 8)).rej = [] ∧
     (run Deep.K0 Deep.s0 (Deep.opsRev 8)).panicked = false) :=
  ⟨Deep.drains20, Deep.old_budget_short, Deep.drains8_rev⟩

/-- usif.LoadRawTx ON A TRANSACTION THAT IS ALREADY POOLED ("make as own"): `submitLocal` answers 1000 + why and the only
    change to the pool is the `Local` flag of that record — the transaction stored under every key, SpentOutputs, the
    sorted list with its ranks, the reject side, the weight total and the panic flag are what they were after the
    preceding DeleteRejectedByIdx. (The invariants are carried through this branch by `markLocal_same` /
    `markLocal_good` / `markLocal_sort` / `markLocal_shrink`.) -/
theorem local_on_pooled_marks_only (K : Keys) (s : State) (id : TxId) :
    (markLocal K s id).spent = s.spent ∧ (markLocal K s id).rej = s.rej ∧ (markLocal K s id).ring = s.ring ∧
    (markLocal K s id).waiting = s.waiting ∧ (markLocal K s id).rejSpent = s.rejSpent ∧
    (markLocal K s id).sorted = s.sorted ∧ (markLocal K s id).ranks = s.ranks ∧
    (markLocal K s id).sortDirty = s.sortDirty ∧ (markLocal K s id).weightTotal = s.weightTotal ∧
    (markLocal K s id).panicked = s.panicked ∧
    ∀ b, ((markLocal K s id).pool.get? b).map (fun r => (r.tx, r.fee, r.volume, r.mem, r.memCnt, r.final)) =
         (s.pool.get? b).map (fun r => (r.tx, r.fee, r.volume, r.mem, r.memCnt, r.final)) := by
  unfold markLocal
  cases h : s.pool.get? (K.bidx id) with
  | none => exact ⟨rfl, rfl, rfl, rfl, rfl, rfl, rfl, rfl, rfl, rfl, fun _ => rfl⟩
  | some r =>
    refine ⟨rfl, rfl, rfl, rfl, rfl, rfl, rfl, rfl, rfl, rfl, ?_⟩
    intro b
    show ((s.pool.set (K.bidx id) { r with loc := true }).get? b).map _ = (s.pool.get? b).map _
    by_cases e : b = K.bidx id
    · rw [e, AList.get?_set_self, h]; rfl
    · rw [AList.get?_set_other _ _ _ _ e]

/-- THE TWO INPUT BOUNDARIES OF processTx (decision logic of one iteration of the input loop, stated outright; the second
    audit's surviving mutants sat exactly here). For an input whose UIdx nobody in the pool spends:
    (1) confirmed coin, not the Unmined path: the input is refused CB_INMATURE iff the coin is a coinbase output and
        `Last.BlockHeight()+1 - coin height < COINBASE_MATURITY` — 99 confirmations refused, 100 accepted — otherwise it is
        taken with the coin's value and MemInputs flag false;
    (2) pooled parent: `vout ≥ len(parent outputs)` (in particular `vout = len`) is refused BAD_INPUT; a smaller `vout` is
        taken with that output's value and flag true when the sender is trusted or AllowMemInputs is on, and refused
        NOT_MINED otherwise.
    The constants are the model's copies (compared with chain.COINBASE_MATURITY and the package's TX_REJECTED_* by the
    harness at start-up, oracle command `consts`); the harness drives the real code on both sides of both boundaries
    (corpus:coinbase-boundary, corpus:vout-boundary, corpus:no-mem-inputs and the random streams). -/
theorem input_boundaries (K : Keys) (s : State) (fl : Flags) (a : Acc) (i : TxIn)
    (hs : s.spent.get? (K.uidx i.prev i.vout) = none) :
    (∀ c, fl.unmined = false → s.pool.get? (K.bidx i.prev) = none → s.utxo.get? (i.prev, i.vout) = some c →
      (c.coinbase = true ∧ s.height + 1 - c.height < COINBASE_MATURITY →
        inputStep K s fl a i = .error ⟨R_CB_INMATURE, true, none⟩) ∧
      (¬ (c.coinbase = true ∧ s.height + 1 - c.height < COINBASE_MATURITY) →
        ∃ a', inputStep K s fl a i = .ok a' ∧ a'.vals = a.vals ++ [c.value] ∧ a'.frommem = a.frommem ++ [false])) ∧
    (∀ par, s.pool.get? (K.bidx i.prev) = some par →
      (par.tx.outs.length ≤ i.vout → inputStep K s fl a i = .error ⟨R_BAD_INPUT, true, none⟩) ∧
      (i.vout < par.tx.outs.length → (fl.trusted = true ∨ s.cfg.allowMem = true) →
        ∃ a', inputStep K s fl a i = .ok a' ∧ a'.vals = a.vals ++ [par.tx.outs.getD i.vout 0] ∧
          a'.frommem = a.frommem ++ [true]) ∧
      (i.vout < par.tx.outs.length → fl.trusted = false → s.cfg.allowMem = false →
        inputStep K s fl a i = .error ⟨R_NOT_MINED, true, none⟩)) := by
  constructor
  · intro c hu hp hc
    unfold inputStep
    simp only [hs, hp, hc, hu, bind, Except.bind, pure, Except.pure]
    constructor
    · rintro ⟨h1, h2⟩
      simp [h1, h2, throw, throwThe, MonadExceptOf.throw]
    · intro h
      by_cases h1 : c.coinbase = true
      · have h2 : ¬ s.height + 1 - c.height < COINBASE_MATURITY := fun h2 => h ⟨h1, h2⟩
        simp [h1, h2]
      · simp [h1]
  · intro par hp
    unfold inputStep
    simp only [hs, hp, bind, Except.bind, pure, Except.pure]
    refine ⟨?_, ?_, ?_⟩
    · intro h
      simp [h, throw, throwThe, MonadExceptOf.throw]
    · intro h ht
      have h' : ¬ i.vout ≥ par.tx.outs.length := by omega
      rcases ht with ht | ht <;> simp [h', ht]
    · intro h ht hm
      have h' : ¬ i.vout ≥ par.tx.outs.length := by omega
      simp [h', ht, hm, throw, throwThe, MonadExceptOf.throw]

/-! non-vacuity -/

def K0 : Keys := { bidx := id, uidx := fun a b => a * 1000 + b }
def txD : Tx := { id := 9, ins := [⟨1, 0, 0⟩, ⟨1, 0, 0⟩], outs := [40], nws := 100, size := 100, scriptOk := true }
def s0 : State := { utxo := [((1, 0), ⟨60, 1, false⟩)], height := 5 }
def s2 : State := (submitNet K0 0 (submitNet K0 0 s0 txA false).2 txB false).2

/-- a second spend of the coin (1,0) that txA spends -/
def txA2 : Tx := { id := 12, ins := [⟨1, 0, 0⟩], outs := [30], nws := 100, size := 100, scriptOk := true }
def txL : Tx := { id := 13, ins := [⟨2, 0, 0⟩], outs := [55], nws := 100, size := 100, scriptOk := true }
/-- two confirmed coins (1,0), (2,0); txL (spends (2,0)) and then txA (spends (1,0)) pooled: the record of txA comes
    first in `sL.pool`, i.e. in the file written from `sL` -/
def sL : State := (submitNet K0 0 (submitNet K0 0
  { utxo := [((1, 0), ⟨60, 1, false⟩), ((2, 0), ⟨60, 1, false⟩)], height := 5 } txL false).2 txA false).2

/-- WHY THE SECOND InitMempool() IS NEEDED (a concrete instance, checked by evaluation). `sL` pools txL (id 13, spends
    the confirmed coin (2,0)) and txA (id 7, spends (1,0)); SpentOutputs = {(1,0) ↦ 7, (2,0) ↦ 13}. A mempool.dmp written
    from `sL` and cut after its first pool record leaves MempoolLoad, at the `goto fatal_error`, in the half-loaded state
    `loadPartial K0 sL 1 none`: txA is in TransactionsToSend, SpentOutputs is still empty (it is rebuilt only after the
    whole pool section). If the node went on from THERE, the conflicting spend txA2 (id 12, spends (1,0) too) would be
    accepted (code 0, no panic) NEXT TO txA: the pool then holds 12 and 7, both with the input (1,0) — two pooled
    transactions spending the same output, the very thing C12 excludes. From the state the code really leaves,
    `loadRefused K0 sL 1 none` (after the second InitMempool()), the same submission leaves a pool holding only 12; and on
    the complete `sL` it is handled as a replacement of txA (pool 12, 13). -/
theorem partial_load_counterexample :
    sL.pool.map (·.1) = [7, 13] ∧ sL.spent = [(1000, 7), (2000, 13)] ∧ sL.panicked = false ∧
    (loadPartial K0 sL 1 none).pool.map (·.1) = [7] ∧ (loadPartial K0 sL 1 none).spent = [] ∧
    (submitNet K0 0 (loadPartial K0 sL 1 none) txA2 false).1 = 0 ∧
    (submitNet K0 0 (loadPartial K0 sL 1 none) txA2 false).2.panicked = false ∧
    (submitNet K0 0 (loadPartial K0 sL 1 none) txA2 false).2.pool.map
      (fun p => (p.1, p.2.tx.ins.map fun i => (i.prev, i.vout))) = [(12, [(1, 0)]), (7, [(1, 0)])] ∧
    (submitNet K0 0 (loadRefused K0 sL 1 none) txA2 false).1 = 0 ∧
    (submitNet K0 0 (loadRefused K0 sL 1 none) txA2 false).2.pool.map (·.1) = [12] ∧
    (submitNet K0 0 sL txA2 false).1 = 0 ∧ (submitNet K0 0 sL txA2 false).2.pool.map (·.1) = [12, 13] := by
  decide

/-! a block undone while the sorted list is live (text-UI `undo slow`) -/

/-- pays 1 for 400 weight units: a poor fee rate -/
def txT : Tx := { id := 20, ins := [⟨1, 0, 0⟩], outs := [59], nws := 100, size := 100, scriptOk := true }
/-- stays in the pool: the child's OTHER unconfirmed parent -/
def txP : Tx := { id := 21, ins := [⟨2, 0, 0⟩], outs := [50], nws := 100, size := 100, scriptOk := true }
/-- spends output 0 of txT and output 0 of txP, pays 49: a much better fee rate than txT's -/
def txKid : Tx := { id := 22, ins := [⟨20, 0, 0⟩, ⟨21, 0, 0⟩], outs := [60], nws := 100, size := 100, scriptOk := true }
def sU0 : State := { utxo := [((1, 0), ⟨60, 1, false⟩), ((2, 0), ⟨60, 1, false⟩)], height := 5 }
/-- txP pooled; block 6 confirms txT; the child txKid of both arrives; a listing is taken (list clean) -/
def sU1 : State := run K0 sU0 [.submitNet txP false 0, .block 6 [txT] 0, .tip 6, .submitNet txKid false 0, .resort]
/-- block 6 is undone with sorting enabled (SortingDisabled = false: UndoLastBlock without BlockCommitInProgress(true)) -/
def sU2 : State := step K0 sU1 (.undo 6 0)

/-- THE DIRTY MARK OF unmined() IS LOAD-BEARING, ALSO FOR A CHILD WHOSE MemInputs WAS ALREADY ALLOCATED (a concrete
    instance, checked by evaluation of the model's own `step`). txP (id 21) is pooled, block 6 confirms txT (id 20, poor
    fee rate), then txKid (id 22) arrives: it spends txT's output (confirmed) and txP's (pooled) - its MemInputs is
    [false, true], allocated - and pays a much better rate than txT. After a listing the BestT2S…WorstT2S list is clean:
    [21, 22]. Now block 6 is undone while SortingDisabled is false (the text-UI command `undo slow`, or any direct caller
    of BlockUndone): processTx puts txT back and AddToSort inserts it into the live list BY ITS OWN RATE - below its child:
    the raw list is [21, 22, 20], child 22 BEFORE parent 20. unmined() then sets txKid's flag for that input ([true, true],
    MemInputCnt 2) and raises SortListDirty. Only that mark makes the next listing (`.resort` = buildSortedList) rebuild
    the list to [21, 20, 22], parents first. `sorted_list_inv` speaks about non-dirty lists: it is the mark that keeps
    the wrong raw list out of its scope, in exactly this history class - a block undone with sorting enabled, the child
    having another unconfirmed parent - which the harness now drives on the real code (corpus:undo-sorting-on, `undo slow`
    in the random histories). -/
theorem unmined_dirty_mark_needed :
    sU1.sortDisabled = false ∧ sU1.sortDirty = false ∧ sU1.sorted = [21, 22] ∧
    (sU1.pool.get? 22).map (fun t => (t.mem, t.memCnt)) = some ([false, true], 1) ∧
    sU2.panicked = false ∧ sU2.pool.map (·.1) = [22, 20, 21] ∧
    (sU2.pool.get? 22).map (fun t => (t.mem, t.memCnt)) = some ([true, true], 2) ∧
    sU2.sorted = [21, 22, 20] ∧ sU2.sortDirty = true ∧
    (step K0 sU2 .resort).sortDirty = false ∧ (step K0 sU2 .resort).sorted = [21, 20, 22] := by
  decide

/-! save + reload and the age of the records -/

/-- SAVE + RELOAD KEEPS EVERY POOLED RECORD. MempoolSave writes every record of TransactionsToSend and MempoolLoad puts
    every record of a complete file back (`reload`): the keys of the pool and the transaction of every record are
    unchanged, for every state. The model has no clock: a record's age (Lastseen) plays no part in `reload` - a record
    leaves the pool because of its age only through `expire` (expireOldTxs), which deletes it WITH all its descendants
    (`load_filter_counterexample` below shows why the loader must not filter on its own). The harness drives the real
    loader with records aged to both sides of TXPool.ExpireInDays (corpus:aged-reload, ageing in the random histories)
    and compares the reloaded pool with this model. -/
theorem reload_keeps_every_record (K : Keys) (s : State) :
    (reload K s).pool.map (·.1) = s.pool.map (·.1) ∧
    (reload K s).pool.map (fun p => p.2.tx) = s.pool.map (fun p => p.2.tx) :=
  ⟨reload_pool_keys K s, reload_pool_txs K s⟩

/-- txA (id 7, spends the confirmed coin (1,0)) and its child txB (id 8, spends txA's output 0) pooled -/
def sF : State := run K0 sU0 [.submitNet txA false 0, .submitNet txB false 0]

/-- WHY THE LOADER MUST NOT DROP SINGLE RECORDS (a concrete instance, checked by evaluation). `sF` pools txA (7) and its
    child txB (8, MemInputs [true]). (1) `reload` keeps both, the flag recovered. (2) The load of the same file with the
    record of txA left out (say, because txA alone is past its expiry time) is `reload` of the pool without key 7: it
    holds txB alone, its MemInputs cleared by the recovery loop (no pooled parent found: the slice is set to nil, i.e.
    the input now counts as a confirmed one), SpentOutputs still maps (7,0) to txB - and the confirmed set has no (7,0):
    an input that is neither an unspent confirmed output nor an output of a pooled transaction, which C12 excludes.
    (3) What expiry does instead: `expire` of txA removes txA AND txB; reloading that leaves the pool empty. -/
theorem load_filter_counterexample :
    sF.pool.map (fun p => (p.1, p.2.mem)) = [(8, [true]), (7, [])] ∧
    (reload K0 sF).pool.map (fun p => (p.1, p.2.mem, p.2.memCnt)) = [(8, [true], 1), (7, [], 0)] ∧
    (reload K0 { sF with pool := sF.pool.filter fun p => p.1 != 7 }).pool.map (fun p => (p.1, p.2.mem, p.2.memCnt))
      = [(8, [], 0)] ∧
    (reload K0 { sF with pool := sF.pool.filter fun p => p.1 != 7 }).spent = [(7000, 8)] ∧
    (reload K0 { sF with pool := sF.pool.filter fun p => p.1 != 7 }).utxo.get? (7, 0) = none ∧
    (expire K0 sF [7]).pool = [] ∧ (reload K0 (expire K0 sF [7])).pool = [] := by
  decide

/-! the chain's block callback and the node's sync state -/

/-- WHY THE CHAIN'S "BLOCK CONNECTED" CALLBACK MUST REACH THE POOL FOR EVERY BLOCK, WHATEVER THE NODE'S SYNC STATE (a
    concrete instance, checked by evaluation). The model's `.block` step is `blockMined ∘ connectUtxo`: chain side and pool
    side of one commit; client/main.go `blockMined` (installed as the chain's BlockMinedCB by client/init.go) is what joins
    them in the node, and it is called with blocks whose `LastKnownHeight` is anything from 0 to hundreds of blocks above
    the block (header-first catch-up with a pool loaded from mempool.dmp). `sL` pools txA (id 7, spends the confirmed coin
    (1,0)) and txL (id 13). When a block holding txA is committed on the chain side ALONE (`connectUtxo`, the callback
    returning before txpool.BlockMined), txA stays pooled although (1,0) is gone from the confirmed set and txA's own
    output (7,0) is confirmed: an input that is neither an unspent confirmed output nor an output of a pooled transaction,
    and a pooled transaction that duplicates the active chain - both excluded by C12. The full step leaves txL alone, with
    SpentOutputs = {(2,0) ↦ 13}. The harness drives this joint on the real client (go/cmd/c12/realclient.go). -/
theorem block_hook_skipped_counterexample :
    sL.pool.map (·.1) = [7, 13] ∧
    (connectUtxo sL 6 [txA]).pool.map (·.1) = [7, 13] ∧
    (connectUtxo sL 6 [txA]).utxo.get? (1, 0) = none ∧
    ((connectUtxo sL 6 [txA]).utxo.get? (7, 0)).isSome = true ∧
    (step K0 sL (.block 6 [txA] 0)).pool.map (·.1) = [13] ∧
    (step K0 sL (.block 6 [txA] 0)).spent = [(2000, 13)] ∧
    (step K0 sL (.block 6 [txA] 0)).panicked = false := by
  decide

example : (submitNet K0 0 s0 txA false).1 = 0 := by decide
example : (processTx K0 0 s0 txD {}).1 = R_BAD_INPUT := by decide
example : (sortedSlowP K0 s2).map (·.1) = [7, 8] := by decide
example : hasDupInput txD.ins = true := by decide
example : BlockOK (fun o => (s0.utxo.get? o).isSome) [txA, txB] := by
  simp [BlockOK, Tx.inOps, TxIn.op, txA, txB, s0, AList.get?, Tx.creates]
example : evict K0 s2 [7] = none := by decide

/-! the coinbase boundary and the sweep after an undo (what `input_boundaries` and `undo_leaves_no_immature_spend` are about),
    by evaluation: the coinbase output (1,0) of block 12 is refused at tip 110 (99 confirmations), accepted at tip 111 (100);
    undoing block 111 sweeps that spend (it would need height 112) while the block's own transaction is put back -/
def txM1 : Tx := { id := 30, ins := [⟨2, 0, 0⟩], outs := [55], nws := 100, size := 100, scriptOk := true }
def txS1 : Tx := { id := 31, ins := [⟨1, 0, 0⟩], outs := [55], nws := 100, size := 100, scriptOk := true }
def sC0 : State := { utxo := [((1, 0), ⟨60, 12, true⟩), ((2, 0), ⟨60, 1, false⟩)], height := 110 }
def sC1 : State := run K0 sC0 [.block 111 [txM1] 0, .tip 111, .submitNet txS1 false 0]
example : (submitNet K0 0 sC0 txS1 false).1 = R_CB_INMATURE ∧ sC1.pool.map (·.1) = [31] ∧
    (step K0 sC1 (.undo 111 0)).pool.map (·.1) = [30] ∧ (step K0 sC1 (.undo 111 0)).panicked = false := by decide

-- `orphan_budget_irrelevant` on the deep-orphan family: 54 iterations end alive, so the budget 87 gives the same state
example : txAcceptedAux Deep.K0 0 87 (Deep.sPre 20) [100] 0 = txAcceptedAux Deep.K0 0 54 (Deep.sPre 20) [100] 0 :=
  orphan_budget_irrelevant Deep.K0 0 54 87 (by decide) _ _ _ Deep.drains20.2.2.2.2.2.2
-- `input_boundaries` on the coinbase of block 12 at tip 110 (99 confirmations: refused) and on txB's parent txA (vout = 1 =
-- number of outputs of the pooled txA: refused BAD_INPUT; vout 0 taken with flag true)
example : inputStep K0 sC0 {} {} ⟨1, 0, 0⟩ = .error ⟨R_CB_INMATURE, true, none⟩ :=
  ((input_boundaries K0 sC0 {} {} ⟨1, 0, 0⟩ (by decide)).1 ⟨60, 12, true⟩ rfl (by decide) (by decide)).1 (by decide)
example : inputStep K0 (submitNet K0 0 s0 txA false).2 {} {} ⟨7, 1, 0⟩ = .error ⟨R_BAD_INPUT, true, none⟩ :=
  ((input_boundaries K0 (submitNet K0 0 s0 txA false).2 {} {} ⟨7, 1, 0⟩ (by decide)).2
    { tx := txA, fee := 10, volume := 60, mem := [], memCnt := 0, loc := false, final := false } (by decide)).1 (by decide)

/-- a universe for which the hypotheses of `pool_inv_struct` hold, and a history over it that fills the pool -/
def K2 : Keys := { bidx := id, uidx := fun a _ => a }
def ops2 : List Op := [.tip 5, .submitNet txB false 0, .submitNet txA false 0, .resort, .reload, .expire [8]]
example : InvS K2 (run K2 {} ops2) := by
  have univ2 : Univ K2 W2 id := by
    refine ⟨?_, ?_, ?_, ?_, ?_⟩
    · intro a b _ _ h; exact h
    · intro c t _ _ i _ v h; exact h
    · intro a b ha hb h
      rcases ha with rfl | rfl <;> rcases hb with rfl | rfl <;> first | rfl | (simp [txA, txB] at h)
    · intro a ha; rcases ha with rfl | rfl <;> simp [txA, txB]
    · intro a ha i hi
      rcases ha with rfl | rfl <;> simp [txA, txB] at hi <;> subst hi <;> decide
  apply pool_inv_struct K2 W2 id univ2 ops2
  intro op ho t ht
  simp only [ops2, List.mem_cons, List.not_mem_nil, or_false] at ho
  rcases ho with rfl | rfl | rfl | rfl | rfl | rfl <;> simp [Op.txs] at ht <;> simp [W2, ht]
example : ((run K2 { utxo := [((1, 0), ⟨60, 1, false⟩)] } ops2).pool.map (·.1)) = [7] := by decide
-- two families joined by a child: the package rooted at 9 overlaps the already listed 7, 8 and is skipped
def txE : Tx := { id := 9, ins := [⟨2, 0, 0⟩], outs := [1], nws := 100, size := 100, scriptOk := true }
def txF : Tx := { id := 11, ins := [⟨8, 0, 0⟩, ⟨9, 0, 0⟩], outs := [1], nws := 100, size := 100, scriptOk := true }
def s4 : State :=
  (submitNet K0 0 (submitNet K0 0 { s2 with utxo := ((2, 0), ⟨10, 1, false⟩) :: s2.utxo } txE false).2 txF false).2
def pk9 : Pkg := { txs := [9, 7, 8, 11], fee := 69, weight := 1600 }
def pk7 : Pkg := { txs := [7, 8, 9, 11], fee := 69, weight := 1600 }
example : (sortedSlow K0 s4).Nodup ∧ ∀ b, b ∈ sortedSlow K0 s4 ↔ b ∈ s4.pool.map Prod.fst := by
  have H : ∀ p ∈ s4.pool, ∀ k ∈ memParents K0 p.2, (s4.pool.any fun q => q.1 = k) = true ∧ k < p.1 := by decide
  apply sorted_complete K0 s4 id (by decide)
  intro b t h k hk
  obtain ⟨h1, h2⟩ := H (b, t) h k hk
  obtain ⟨q, hq, e⟩ := List.any_eq_true.mp h1
  have hk' : q.1 = k := by simpa using e
  exact ⟨⟨q.2, hk' ▸ hq⟩, h2⟩
example : sortedSlow K0 s4 = [7, 8, 9, 11] := by decide
example : getSorted K0 s4 = [7, 8, 11, 9] ∨ getSorted K0 s4 = [7, 8, 9, 11] := by decide
example : pkgOK K0 s4 pk9 = true ∧ pkgOK K0 s4 pk7 = true := by decide
example : sortedRBF K0 s4 [pk7, pk9] = [7, 8, 9, 11] := by decide
-- the replacement that spends its own victim's output: a <- b pooled, c spends a's input and b's output
def txC : Tx := { id := 10, ins := [⟨1, 0, 0⟩, ⟨8, 0, 0⟩], outs := [1], nws := 100, size := 100, scriptOk := true }
example : (processTx K0 0 s2 txC {}).1 = R_BAD_INPUT := by decide
example : (processTx K0 0 s2 txC { trusted := true, loc := true }).1 = R_BAD_INPUT := by decide
example : (evict K0 s2 [8, 7]).isSome = true := by decide

/-- a universe, an initial confirmed set and a value oracle for which the hypotheses of `pool_inv` hold, and an
    admissible history over it that fills the pool (chain of two) -/
def ops3 : List Op := [.tip 5, .submitNet txB false 0, .submitNet txA false 0, .resort, .reload]

example : PoolInv K3 ν3 (run K3 (genesis {} u3 0) ops3) := by
  apply pool_inv K3 W2 id u3 ν3 univ3 {} 0 ops3
  · intro op ho t ht
    simp only [ops3, List.mem_cons, List.not_mem_nil, or_false] at ho
    rcases ho with rfl | rfl | rfl | rfl | rfl <;> simp [Op.txs] at ht <;> simp [W2, ht]
  · simp [ops3, ValidRun, ValidOp]
  · decide
example : ((run K3 (genesis {} u3 0) ops3).pool.map (·.1)) = [8, 7] ∨ ((run K3 (genesis {} u3 0) ops3).pool.map (·.1)) = [7, 8] := by decide
example : BlockOK (fun o => ((run K3 (genesis {} u3 0) ops3).utxo.get? o).isSome)
    ((recsOf (run K3 (genesis {} u3 0) ops3) (sortedRBF K3 (run K3 (genesis {} u3 0) ops3) [])).map (·.tx)) := by
  refine template_from_pool K3 W2 id u3 ν3 univ3 {} 0 ops3 ?_ ?_ ?_ [] ?_ ?_
  · intro op ho t ht
    simp only [ops3, List.mem_cons, List.not_mem_nil, or_false] at ho
    rcases ho with rfl | rfl | rfl | rfl | rfl <;> simp [Op.txs] at ht <;> simp [W2, ht]
  · simp [ops3, ValidRun, ValidOp]
  · decide
  · intro pk hpk; simp at hpk
  · intro _; decide
example : (recsOf (run K3 (genesis {} u3 0) ops3) (sortedRBF K3 (run K3 (genesis {} u3 0) ops3) [])).map (·.tx.id) = [7, 8] := by
  decide

/-- an incremental (non-dirty) list: the child txB is inserted below its parent txA by AddToSort -/
def ops4 : List Op := [.tip 5, .submitNet txA false 0, .submitNet txB false 0]
example : SortOK K3 (run K3 (genesis {} u3 0) ops4) := by
  apply sorted_list_inv K3 W2 id u3 ν3 univ3 {} 0 ops4
  · intro op ho t ht
    simp only [ops4, List.mem_cons, List.not_mem_nil, or_false] at ho
    rcases ho with rfl | rfl | rfl <;> simp [Op.txs] at ht <;> simp [W2, ht]
  · simp [ops4, ValidRun, ValidOp]
  · decide
  · decide
  · decide
example : (run K3 (genesis {} u3 0) ops4).sorted = [7, 8] ∧ (run K3 (genesis {} u3 0) ops4).sortDirty = false := by decide
example : RejInv K3 (run K3 (genesis {} u3 0) ops3) := by
  apply reject_index_inv K3 W2 id u3 ν3 univ3 {} 0 (by decide) ops3
  · intro op ho t ht
    simp only [ops3, List.mem_cons, List.not_mem_nil, or_false] at ho
    rcases ho with rfl | rfl | rfl | rfl | rfl <;> simp [Op.txs] at ht <;> simp [W2, ht]
  · simp [ops3, ValidRun, ValidOp]
  · decide
-- refused loads: on the state after `ops3` (txA, txB pooled) with every cut position; and inside a trajectory — a
-- refused load between two submissions of txA (the second one is accepted again: the pool was emptied)
example : ∀ k j, Full K3 W2 u3 ν3 (loadRefused K3 (run K3 (genesis {} u3 0) ops3) k j) ∧
    RejInv K3 (loadRefused K3 (run K3 (genesis {} u3 0) ops3) k j) ∧
    SortInvP K3 (loadRefused K3 (run K3 (genesis {} u3 0) ops3) k j) := by
  have hW : ∀ op ∈ ops3, ∀ t ∈ op.txs, W2 t := by
    intro op ho t ht
    simp only [ops3, List.mem_cons, List.not_mem_nil, or_false] at ho
    rcases ho with rfl | rfl | rfl | rfl | rfl <;> simp [Op.txs] at ht <;> simp [W2, ht]
  have hv : ValidRun K3 u3 (genesis {} u3 0) ops3 := by simp [ops3, ValidRun, ValidOp]
  have f := run_full univ3 ops3 _ (full_genesis univ3 {} 0) hW (admRun_genesis univ3 {} 0 ops3 hW hv)
  have r := reject_index_inv K3 W2 id u3 ν3 univ3 {} 0 (by decide) ops3 hW hv (by decide)
  intro k j
  exact (refused_load_inv K3 W2 u3 ν3 _ k j f r).1
def ms5 : List Move := [.op (.tip 5), .op (.submitNet txA false 0), .init 1 none, .op (.submitNet txA false 0)]
example : Full K3 W2 u3 ν3 (rrun K3 (genesis {} u3 0) ms5) ∧ RejInv K3 (rrun K3 (genesis {} u3 0) ms5) ∧
    SortInvP K3 (rrun K3 (genesis {} u3 0) ms5) := by
  refine resync_run_inv K3 W2 id u3 ν3 univ3 ms5 _ ?_ (full_genesis univ3 {} 0) (rejInv_genesis K3 {} u3 0 (by decide))
    (sort_genesis K3 {} u3 0)
  simp [ms5, RAdm, AdmOp, UndoOK, Op.txs, W2]
example : (rrun K3 (genesis {} u3 0) (ms5.take 2)).pool.map (·.1) = [7] ∧
    (rrun K3 (genesis {} u3 0) (ms5.take 3)).pool.map (·.1) = [] ∧
    (rrun K3 (genesis {} u3 0) ms5).pool.map (·.1) = [7] := by decide
example : ChainInv u3 ν3 (genesis {} u3 0) := chainInv_genesis univ3 {} 0
example : BlockValid u3 (genesis {} u3 0) [txA, txB] := by
  refine ⟨?_, ?_, ?_⟩
  · simp [BlockOK, Tx.inOps, TxIn.op, txA, txB, u3, genesis, inU, AList.get?, Tx.creates]
  · intro t ht
    simp only [List.mem_cons, List.not_mem_nil, or_false] at ht
    rcases ht with rfl | rfl <;> simp [Conf, genesis, u3, txA, txB, AList.get?]
  · simp [txA, txB]


/-! ### a history with blocks, an undo, expiry, eviction and a fee package (Proofs/C12Example.lean)
  `opsX` = tip 5, submit D, E, F, J, block 6 [D] (pooled D mined, its child E stays), undo 6 (D back, E re-flagged), resort,
  block 6 [F, J], tip 6, submit A, B, C (CPFP: fees 1 / 40 / 5), G, expire [D] (takes E along), BlockCommitInProgress,
  evict [G] (succeeds), resort, submit H (incremental insertion). `ValidRun` needs `BlockValid` of both block bodies in the
  states they are applied to (`validX`); the package [A, B, C] beats H in GetSortedMempoolRBF. -/
section rich
open GocoinV.Props.C12Ex

example : PoolInv KX νX (run KX (genesis {} uX 0) opsX) :=
  pool_inv KX WX id uX νX univX {} 0 opsX hWX validX aliveX
example : SortOK KX (run KX (genesis {} uX 0) opsX) :=
  sorted_list_inv KX WX id uX νX univX {} 0 opsX hWX validX aliveX cleanX wrapX
example : RejInv KX (run KX (genesis {} uX 0) opsX) :=
  reject_index_inv KX WX id uX νX univX {} 0 (by decide) opsX hWX validX aliveX
example : BlockOK (fun o => ((run KX (genesis {} uX 0) opsX).utxo.get? o).isSome)
    ((recsOf (run KX (genesis {} uX 0) opsX) (sortedRBF KX (run KX (genesis {} uX 0) opsX) pksX)).map (·.tx)) :=
  template_from_pool KX WX id uX νX univX {} 0 opsX hWX validX aliveX pksX pkgsX nowrapX
-- the package matters: with it the listing starts with A, B, C; without it H comes first
example : sortedRBF KX (run KX (genesis {} uX 0) opsX) pksX = [7, 8, 9, 14] ∧
    sortedRBF KX (run KX (genesis {} uX 0) opsX) [] = [14, 7, 8, 9] := by decide
-- the block removed the pooled D, the undo put it back, the eviction was a real one
example : ((sAt 5).pool.map (·.1)).contains 10 = true ∧ ((sAt 6).pool.map (·.1)).contains 10 = false ∧
    ((sAt 7).pool.map (·.1)).contains 10 = true ∧ (evict KX (sAt 16) [13]).isSome = true := by decide
-- resync edits on that state: a ring permutation / a list permutation are accepted, and keep the invariants
example : (ringorder (run KX (genesis {} uX 0) opsX) []).isSome = true ∧
    (setorder KX (run KX (genesis {} uX 0) opsX) [14, 7, 8, 9]).isSome = true := by decide
-- the panic-branch theorem applies to that state (its first conjunct, for the pooled A)
example : ∀ t, (run KX (genesis {} uX 0) opsX).pool.get? (KX.bidx t.tx.id) = some t →
    (minedFlags KX (run KX (genesis {} uX 0) opsX) t).panicked = (run KX (genesis {} uX 0) opsX).panicked := by
  have ha := admRun_genesis univX {} 0 opsX hWX validX
  have f := run_full univX opsX _ (full_genesis univX {} 0) hWX ha
  intro t ht
  exact (panic_branches_unreachable KX WX id uX νX univX _).1 t f.chain (f.good aliveX) ht
-- `undo_leaves_no_immature_spend` applies to the undo of that history (state after 6 operations, block [D] undone)
example : ∃ s' txs, disconnectUtxo (sAt 6) = some (s', txs) ∧ txs = [tD] ∧
    ∀ b t, (step KX (sAt 6) (.undo 6 0)).pool.get? b = some t → unspendableAt (step KX (sAt 6) (.undo 6 0)) 6 t = false := by
  have hW6 : ∀ op ∈ opsX.take 6, ∀ t ∈ op.txs, WX t := fun op ho => hWX op (List.mem_of_mem_take ho)
  have v6 : ValidRun KX uX (genesis {} uX 0) (opsX.take 6) :=
    ⟨trivial, trivial, trivial, trivial, trivial, validX.2.2.2.2.2.1, trivial⟩
  have a6 := admRun_genesis univX {} 0 (opsX.take 6) hW6 v6
  have f : Full KX WX uX νX (sAt 6) := run_full univX (opsX.take 6) _ (full_genesis univX {} 0) hW6 a6
  have a7 := admRun_genesis univX {} 0 opsX hWX validX
  have ha : AdmOp uX νX (sAt 6) (.undo 6 0) := a7.2.2.2.2.2.2.1
  cases hd : disconnectUtxo (sAt 6) with
  | none => exact absurd hd (by decide)
  | some p =>
    obtain ⟨s', txs⟩ := p
    refine ⟨s', txs, rfl, ?_, ?_⟩
    · have : (disconnectUtxo (sAt 6)).map (·.2) = some [tD] := by decide
      rw [hd] at this
      exact Option.some.inj this
    · exact undo_leaves_no_immature_spend KX WX id uX νX univX (sAt 6) s' txs 6 0 f hd ha (by decide)
example : better { tx := tB, fee := 40, volume := 50, mem := [true], memCnt := 1, loc := false, final := false }
    { tx := tA, fee := 1, volume := 100, mem := [], memCnt := 0, loc := false, final := false } = true := by decide
end rich

/-! ### the central theorems AT THE KEYS THE ORACLE EXECUTES (`realKeys`), over 256-bit txids (Proofs/C12Example2.lean)
  `opsR` (17 operations, reject ring of 3 slots): A ← B pooled, V refused (overspend, record without data), M pooled, resort,
  A2 REPLACES A (RBF: A and B leave as REPLACED records, the ring evicts V), C child of A2, orphan O (NO_TXOU, waits for a
  txid nobody has), `submitLocal` L, TRUSTED submit T (spends a mature coinbase), `submitLocal` A2 again (already pooled:
  LoadRawTx's "make as own", code 1001, Local set), block 501 [M] (the pooled M mined), tip, resort, save + RELOAD, resort.
  In the FINAL state the rejected list and the ring are NOT empty: O (202, data, Waiting4) and A (213 REPLACED, data);
  WaitingForInputs and RejectedSpentOutputs are non-empty; two ring evictions happened on the way. `msR` (22 moves) is that
  history behind a refused load (`init`), with a real `ring` edit (the two REPLACED records swapped — it changes which one
  the ring evicts later) and a real `sort` edit (a tie of the sorted list swapped). -/
section real
open GocoinV.Props.C12Ex2

example : Univ2 realKeys WR rankR uR νR := univR
example : PoolInv realKeys νR (run realKeys (genesis cfgR uR 0) opsR) :=
  pool_inv realKeys WR rankR uR νR univR cfgR 0 opsR hWR validR aliveR
example : SortOK realKeys (run realKeys (genesis cfgR uR 0) opsR) :=
  sorted_list_inv realKeys WR rankR uR νR univR cfgR 0 opsR hWR validR aliveR cleanR wrapR
example : RejInv realKeys (run realKeys (genesis cfgR uR 0) opsR) :=
  reject_index_inv realKeys WR rankR uR νR univR cfgR 0 capR opsR hWR validR aliveR
example : BlockOK (fun o => ((run realKeys (genesis cfgR uR 0) opsR).utxo.get? o).isSome)
    ((recsOf (run realKeys (genesis cfgR uR 0) opsR)
      (sortedRBF realKeys (run realKeys (genesis cfgR uR 0) opsR) pksR)).map (·.tx)) :=
  template_from_pool realKeys WR rankR uR νR univR cfgR 0 opsR hWR validR aliveR pksR pkgsR nowrapR
example : Full realKeys WR uR νR (rrun realKeys (genesis cfgR uR 0) msR) ∧ RejInv realKeys (rrun realKeys (genesis cfgR uR 0) msR) ∧
    SortInvP realKeys (rrun realKeys (genesis cfgR uR 0) msR) :=
  resync_run_inv realKeys WR rankR uR νR univR msR _ radmR (full_genesis univR cfgR 0)
    (rejInv_genesis realKeys cfgR uR 0 capR) (sort_genesis realKeys cfgR uR 0)
example : Full realKeys WR uR νR (rrun realKeys (genesis cfgR uR 0) msR) ∧ RejInv realKeys (rrun realKeys (genesis cfgR uR 0) msR) ∧
    SortInvP realKeys (rrun realKeys (genesis cfgR uR 0) msR) :=
  resync_run_inv_valid realKeys WR rankR uR νR univR cfgR 0 capR msR hWmR rvalidR
-- the key hypotheses of that universe come from `key_hypotheses_realKeys`
example : ∀ a b v w, Play WR a → Play WR b → VPlay WR v → VPlay WR w → realKeys.uidx a v = realKeys.uidx b w →
    a = b ∧ v = w :=
  (key_hypotheses_realKeys WR (fun a b ha hb => loR a (playR a ha) b (playR b hb))
    (fun a b ha hb => hiR a (playR a ha) b (playR b hb)) vplayR).1.2.2.2
-- the final state: reject list and ring non-empty (an orphan with Waiting4 and a REPLACED record), pool of four
example : (run realKeys (genesis cfgR uR 0) opsR).rej.map (fun p => (p.2.id, p.2.reason, p.2.tx.isSome, p.2.waiting4)) =
      [(idO, 202, true, some idZ), (idA, 213, true, none)] ∧
    (run realKeys (genesis cfgR uR 0) opsR).ring = [some (realKeys.bidx idA), some (realKeys.bidx idO)] ∧
    (run realKeys (genesis cfgR uR 0) opsR).pool.map (fun p => (p.2.tx.id, p.2.loc)) =
      [(idA2, true), (idT, false), (idL, true), (idC, false)] := by decide
-- the replacement, the ring evictions, LoadRawTx on the pooled A2
example : (submitNet realKeys 0 (sR 6) xA2 false).1 = 0 ∧
    (sR 6).pool.map (·.2.tx.id) = [idM, idB, idA] ∧ (sR 7).pool.map (·.2.tx.id) = [idA2, idM] ∧
    (sR 6).rej.has (realKeys.bidx idV) = true ∧ (sR 7).rej.has (realKeys.bidx idV) = false ∧
    (submitLocal realKeys 0 (sR 11) xA2).1 = 1001 ∧
    ((sR 11).pool.get? (realKeys.bidx idA2)).map (·.loc) = some false ∧
    ((sR 12).pool.get? (realKeys.bidx idA2)).map (·.loc) = some true := by decide
end real

end GocoinV.Props.C12
