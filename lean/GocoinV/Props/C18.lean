/-
  Props.C18 — bytes from untrusted peers never crash or wedge the node: theorems about the model of
  the PARSING LAYER of client/network (Model/NetParse.lean), as tied to the current source by
  Gen/NetFacts.lean (Model/NetParseFacts.lean compares the regenerated handler skeletons, Run's
  command table and maxmsgsize with the copy the model was written against).

  Scope (partial by design, DESIGN §6 C18): the theorems speak about length guards, CompactSize
  reads, every index / slice expression on the payload with Go's 64-bit wrap-around, the locks held
  at each exit and the iteration count of every loop. What lies behind the parser (peer database,
  header acceptance, mempool matching, block queue, AEAD decryption) is NOT modelled.
-/
import GocoinV.Model.NetParse
import GocoinV.Model.NetParseFacts
import GocoinV.Model.NetParseLocks
import GocoinV.Proofs.C18
import GocoinV.Proofs.C18State
import GocoinV.Proofs.C18Expire
import GocoinV.Proofs.C09
namespace GocoinV.Props.C18
open GocoinV GocoinV.NetParse

/-- CENTRAL. For every command and every payload within the per-command size limit of
    core.go maxmsgsize (regenerated from the source), the parsing layer of the handler Run
    dispatches to does not panic, holds no lock when it returns, and runs at most
    |payload| + 262141 loop iterations (1·|pl| + b; the constant is cmpctblock's: 1 + scnt + pcnt for the
    short-id and prefilled loops plus pcnt + scnt for the second pass over col.Txs, each count at
    most 65535 because its CompactSize may take at most 3 bytes: 1 + 2·(65535 + 65535)). `E` supplies what the parser asks of its surroundings; the only
    assumption is that the transaction-size function never reports more bytes than it was given. -/
theorem handler_total (E : Env) (hts : ∀ b, E.txSize b ≤ b.length) (cmd : String) (pl : Bytes)
    (hl : pl.length ≤ Gen.NetFacts.maxMsgSize cmd) :
    (parse E cmd pl).out.isPanic = false ∧ (parse E cmd pl).locks = [] ∧
      (parse E cmd pl).steps ≤ pl.length + 262141 := by
  have := maxMsgSize_le cmd
  exact parse_total E hts cmd pl (by omega)

example : ∃ E : Env, ∀ b, E.txSize b ≤ b.length :=
  ⟨⟨fun _ => 0, fun _ => none, none, false, false, none, false, false⟩, fun _ => Nat.zero_le _⟩

/-- the same with the transaction-size function of C09's wire model (lib/btc TxSize after its
    `fix:`), for which the assumption is proved: no hypothesis left but the size limit. -/
theorem handler_total_wire (ntx pend : Option Nat) (a b t o : Bool) (newTx : Bytes → Option (Nat × Nat)) (cmd : String) (pl : Bytes)
    (hl : pl.length ≤ Gen.NetFacts.maxMsgSize cmd) :
    let E : Env := ⟨Wire.txSize, newTx, ntx, a, b, pend, t, o⟩
    (parse E cmd pl).out.isPanic = false ∧ (parse E cmd pl).locks = [] ∧
      (parse E cmd pl).steps ≤ pl.length + 262141 :=
  handler_total ⟨Wire.txSize, newTx, ntx, a, b, pend, t, o⟩ wire_txSize_le cmd pl hl

/-- non-vacuity: a well-formed inv of one entry is within the limit and is parsed (not merely rejected) -/
example : (parse ⟨Wire.txSize, fun _ => none, none, false, false, none, false, false⟩ "inv" ([1, 2, 0, 0, 0] ++ List.replicate 32 7)).out.isPanic = false ∧
    (([1, 2, 0, 0, 0] ++ List.replicate 32 7 : Bytes).length ≤ Gen.NetFacts.maxMsgSize "inv") := by decide +kernel

/-- non-vacuity for the two state-dependent branches the oracle is driven through by the harness: a getdata that
    meets 1 799 964 postponed bytes is appended when it brings 36 more and refused when it brings 72; a getmpdone
    from the holder of the getmp ticket is read (empty / 00 = over, anything else = more) -/
example :
    (parse ⟨Wire.txSize, fun _ => none, none, false, false, some 1799964, false, false⟩ "getdata" (1 :: List.replicate 36 0)).out.accepted
      = some ("getdata-appended", [1800000], []) ∧
    (parse ⟨Wire.txSize, fun _ => none, none, false, false, some 1799964, false, false⟩ "getdata" (2 :: List.replicate 72 0)).out.rejected
      = some "GetDataTooBigA" := by
  decide +kernel
example :
    (parse ⟨Wire.txSize, fun _ => none, none, false, false, none, false, true⟩ "getmpdone" []).out.accepted = some ("getmpdone", [0], []) := by decide +kernel
example : (parse ⟨Wire.txSize, fun _ => none, none, false, false, none, false, true⟩ "getmpdone" [0]).out.accepted = some ("getmpdone", [0], []) := by decide +kernel
example : (parse ⟨Wire.txSize, fun _ => none, none, false, false, none, false, true⟩ "getmpdone" [7, 0]).out.accepted = some ("getmpdone", [1], []) := by decide +kernel

/-- FetchMessage (header, length limit, encrypted flag, checksum) never panics and holds no lock at
    exit, for any wire bytes and any connection state. -/
theorem fetch_total (E : FetchEnv) (w : Bytes) :
    (fetchMessage E w).out.isPanic = false ∧ (fetchMessage E w).locks = [] :=
  (fetchMessage_total E w).1

/-- HandleVersion, current guard: total for every payload below 2^62 bytes. -/
theorem version_total (pl : Bytes) (hl : pl.length < 2^62) :
    (handleVersion pl).out.isPanic = false ∧ (handleVersion pl).locks = [] :=
  (handleVersion_total pl hl).1

/-- a 94-byte version message: protocol 70015, services NETWORK|SEGWIT|NETWORK_LIMITED, a non-zero nonce,
    the agent string "/test:1/", height 200000 and the relay byte -/
def wVersionOk : Bytes :=
  [0x7f, 0x11, 0x01, 0x00] ++ [0x09, 0x04, 0, 0, 0, 0, 0, 0] ++ List.replicate 60 0 ++ [1, 2, 3, 4, 5, 6, 7, 8] ++
  [8, 0x2f, 0x74, 0x65, 0x73, 0x74, 0x3a, 0x31, 0x2f] ++ [0x40, 0x0d, 0x03, 0x00] ++ [1]

/-- non-vacuity: that payload satisfies the hypothesis, runs through all three optional fields
    (agent, height, relay) and is ACCEPTED with the fields parsed -/
example : wVersionOk.length = 94 ∧ wVersionOk.length < 2^62 ∧
    (handleVersion wVersionOk).out.accepted =
      some ("version", [70015, 1033, 0, 0, 200000, 1, 0], [[1, 2, 3, 4, 5, 6, 7, 8], [0x2f, 0x74, 0x65, 0x73, 0x74, 0x3a, 0x31, 0x2f]]) := by
  decide +kernel

/-- ProcessInv, current guard: total, and the loop runs exactly the announced number of entries
    (steps ≤ |pl| + 1). -/
theorem inv_total (pl : Bytes) (hl : pl.length < 2^62) :
    (processInv pl).out.isPanic = false ∧ (processInv pl).locks = [] ∧ (processInv pl).steps ≤ pl.length + 1 :=
  ⟨(processInv_total pl hl).1.1, (processInv_total pl hl).1.2, (processInv_total pl hl).2⟩

/-- non-vacuity: a one-entry inv satisfies the hypothesis and is accepted after one iteration -/
example : (([1, 2, 0, 0, 0] ++ List.replicate 32 7 : Bytes).length < 2^62) ∧
    (processInv ([1, 2, 0, 0, 0] ++ List.replicate 32 7)).out.accepted = some ("inv", [1], [[2, 0, 0, 0] ++ List.replicate 32 7]) ∧
    (processInv ([1, 2, 0, 0, 0] ++ List.replicate 32 7)).steps = 2 := by decide +kernel

/-- ProcessGetBlockTxn, current (unsigned) index check: total for every block size and payload; the
    differential-index loop terminates within the unread bytes. -/
theorem getblocktxn_total (ntx : Option Nat) (pl : Bytes) :
    (processGetBlockTxn ntx pl).out.isPanic = false ∧ (processGetBlockTxn ntx pl).locks = [] ∧
      (processGetBlockTxn ntx pl).steps ≤ pl.length + 2 :=
  ⟨(processGetBlockTxn_total ntx pl).1.1, (processGetBlockTxn_total ntx pl).1.2, (processGetBlockTxn_total ntx pl).2⟩

/-- ProcessCmpctBlock - short-id loop, prefilled loop AND the second pass over col.Txs that reads the short
    ids back from the payload under txpool.TxMutex -, current index check: total, no lock left, at most
    1 + 2·(65535 + 65535) iterations. -/
theorem cmpctblock_total (txSize : Bytes → Nat) (hts : ∀ b, txSize b ≤ b.length) (pl : Bytes) (hl : pl.length < 2^62) :
    (processCmpctBlock txSize pl).out.isPanic = false ∧ (processCmpctBlock txSize pl).locks = [] ∧
      (processCmpctBlock txSize pl).steps ≤ 262141 :=
  ⟨(processCmpctBlock_total txSize hts pl hl).1.1, (processCmpctBlock_total txSize hts pl hl).1.2,
   (processCmpctBlock_total txSize hts pl hl).2⟩

def tenOrNothing (b : Bytes) : Nat := if 10 ≤ b.length then 10 else 0

/-- a cmpctblock with two short ids and one prefilled transaction at index 1 (slots: sid, prefilled, sid) -/
def wCmpctOk : Bytes :=
  List.replicate 88 0 ++ [2] ++ [1, 1, 1, 1, 1, 1] ++ [2, 2, 2, 2, 2, 2] ++ [1] ++ [1] ++ List.replicate 10 9

/-- non-vacuity: on that payload all three loops run to the end (1 + 2 + 1 + 3 steps) and it is accepted -/
example : (processCmpctBlock tenOrNothing wCmpctOk).out.accepted = some ("cmpctblock", [2, 1, 1, 10], []) ∧
    (processCmpctBlock tenOrNothing wCmpctOk).steps = 7 ∧ wCmpctOk.length < 2^62 ∧
    (∀ b, tenOrNothing b ≤ b.length) := by
  refine ⟨by decide +kernel, by decide +kernel, by decide +kernel, ?_⟩
  intro b; unfold tenOrNothing; split <;> omega

/-- UNREACHABILITY of cblk.go's `panic("Tx idx … is missing")` (whitelisted in the lock scan,
    NetParseLocks.panicUnreachable). The second pass as such: from the state the first loop leaves -
    the map `seen` holds every short id of pl[base : base+6·scnt], that region lies inside the payload -
    and with at most `scnt` slots of col.Txs not prefilled, neither the read-back slice
    `pl[shortidx_idx:shortidx_idx+6]` nor the lookup can fail, so txpool.TxMutex is released. (That
    ProcessCmpctBlock reaches the second pass in exactly such a state - prefilled indices strictly
    increasing and below the slot count, hence exactly scnt free slots - is part of `cmpctblock_total`.) -/
theorem cmpctblock_panic_unreachable (pl : Bytes) (hl : pl.length < 2^62) (seen : List Bytes) (base : Int) (scnt : Nat)
    (h0 : 0 ≤ base) (hin : base + 6 * (scnt : Int) ≤ pl.length)
    (hseen : ∀ j : Nat, j < scnt → sub pl (base + 6 * (j : Int)) (base + 6 * (j : Int) + 6) ∈ seen)
    (slots : List Bool) (hc : slots.count false ≤ scnt) (st : Nat) :
    (secondPass pl pl.length seen slots base st).out.isPanic = false ∧
      (secondPass pl pl.length seen slots base st).locks = [] ∧
      (secondPass pl pl.length seen slots base st).steps ≤ st + slots.length := by
  have := secondPass_good pl pl.length (by omega) seen base scnt h0 hin
    (fun j hj a ha => by subst ha; exact hseen j hj) slots 0 base st (by omega) (by omega)
  exact ⟨this.1.1, this.1.2, this.2⟩

/-- non-vacuity of the hypotheses, and the panic site is live in the model: with the map the first loop
    builds the pass succeeds, with an empty map the very same pass panics WITH TxMutex HELD -/
example :
    let pl : Bytes := [1, 1, 1, 1, 1, 1, 2, 2, 2, 2, 2, 2]
    (∀ j : Nat, j < 2 → sub pl (0 + 6 * (j : Int)) (0 + 6 * (j : Int) + 6) ∈ [[2, 2, 2, 2, 2, 2], [1, 1, 1, 1, 1, 1]]) ∧
    (secondPass pl 12 [[2, 2, 2, 2, 2, 2], [1, 1, 1, 1, 1, 1]] [false, true, false] 0 1).out.accepted = some ("cmpctblock", [], []) ∧
    (secondPass pl 12 [] [false, true, false] 0 1).out.panicSite = some "ProcessCmpctBlock:Tx idx missing" ∧
    (secondPass pl 12 [] [false, true, false] 0 1).locks = [Lock.tx] := by
  refine ⟨?_, by decide +kernel, by decide +kernel, by decide +kernel⟩
  intro j hj
  match j, hj with
  | 0, _ => decide
  | 1, _ => decide

/-- UNREACHABILITY of core.go FetchMessage's `panic("ERROR: hdr_len > 24 …")` under c.Mutex (whitelisted in
    the lock scan), for the header loop as modelled by `hdrReads` (the loop condition and the slice handed to the
    socket are source facts of the regenerated skeleton, second conjunct): over any run of reads that keeps the
    net.Conn.Read contract - ASSUMED, not checkable here: 0 ≤ n ≤ len(buf) = 24 - hdr_len, through common.SockRead
    which only shortens the buffer - starting anywhere at or below 24, hdr_len never passes 24. `hdrReads` is not
    run by the oracle: the harness's wire stream feeds complete and cut frames through the real loop, whose
    socket stub keeps the contract. -/
theorem fetch_hdrlen_panic_unreachable (reads : List Nat) (hdrLen : Nat) (h : hdrLen ≤ 24)
    (hc : readsWithin reads hdrLen = true) :
    (∃ hl, hdrReads reads hdrLen = some hl ∧ hl ≤ 24) ∧
    ("for: ; c.recv.hdr_len < 24; " ∈ Gen.NetFacts.FetchMessage ∧
     "slice: c.recv.hdr[c.recv.hdr_len:24]" ∈ Gen.NetFacts.FetchMessage ∧
     "guard: !(c.recv.hdr_len > 24)" ∈ Gen.NetFacts.FetchMessage) := by
  refine ⟨?_, by decide +kernel⟩
  induction reads generalizing hdrLen with
  | nil => exact ⟨hdrLen, rfl, h⟩
  | cons n rs ih =>
    unfold hdrReads
    unfold readsWithin at hc
    by_cases h24 : hdrLen ≥ 24
    · simp only [h24, ↓reduceIte]; exact ⟨hdrLen, rfl, h⟩
    · simp only [h24, decide_false, Bool.false_or, Bool.and_eq_true, decide_eq_true_eq, ↓reduceIte] at hc ⊢
      have : ¬ hdrLen + n > 24 := by omega
      simp only [this, ↓reduceIte]
      exact ih (hdrLen + n) (by omega) hc.2

/-- non-vacuity: 20 bytes, then the last 4 - within the contract, the header is complete; a read that returns 5
    bytes for the 4-byte slice breaks the contract and is exactly what the panic is there for -/
example : readsWithin [20, 4] 0 = true ∧ hdrReads [20, 4] 0 = some 24 ∧
    readsWithin [20, 5] 0 = false ∧ hdrReads [20, 5] 0 = none := by decide

/-- ProcessBlockTxn transaction loop: total, terminates within the payload. -/
theorem blocktxn_total (txSize : Bytes → Nat) (hts : ∀ b, txSize b ≤ b.length) (pl : Bytes) (hl : pl.length < 2^62) :
    (processBlockTxn txSize pl).out.isPanic = false ∧ (processBlockTxn txSize pl).locks = [] ∧
      (processBlockTxn txSize pl).steps ≤ pl.length + 2 :=
  ⟨(processBlockTxn_total txSize hts pl hl).1.1, (processBlockTxn_total txSize hts pl hl).1.2, (processBlockTxn_total txSize hts pl hl).2⟩

example : ∀ b : Bytes, Wire.txSize b ≤ b.length := wire_txSize_le

/-! ### the pre-fix guards: the property was FALSE (witnesses replayed on the real code by the
     harness before the `fix:` commits; keys in known_findings.txt) -/

def wVersion : Bytes := List.replicate 80 0 ++ [2, 0]
def wInv : Bytes := [0xff, 1, 0, 0, 0, 0, 0, 0, 0x40] ++ List.replicate 36 0
/-- cnt = 0x0e38e38e38e38e3a: 36·cnt ≡ 40 (mod 2^64) (what the harness computes as wrapCount 36 40) -/
def wInvLocked : Bytes := [0xff, 0x3a, 0x8e, 0xe3, 0x38, 0x8e, 0xe3, 0x38, 0x0e] ++ List.replicate 40 0
def wGbt : Bytes := List.replicate 32 0xab ++ [1, 0xff, 0, 0, 0, 0, 0, 0, 0, 0x80]
def wCmpct : Bytes := List.replicate 88 0 ++ [0, 2, 1] ++ List.replicate 10 9 ++ [1] ++ List.replicate 10 9
def wFetch : Bytes := [0xf9, 0xbe, 0xb4, 0xd9] ++ [0x76] ++ List.replicate 11 0 ++ [10, 0, 0, 0x80] ++ List.replicate 4 0
def fenv : FetchEnv := ⟨[0xf9, 0xbe, 0xb4, 0xd9], fun _ => 1024, fun _ => [0, 0, 0, 0], false, false⟩

/-- HandleVersion with the guard `len(pl) < 80+le`: the 82-byte payload with pl[80]=2 panics on
    `pl[of:of+le]` WHILE c.Mutex IS HELD (no deferred unlock): the lock stays held. -/
theorem version_old_counterexample :
    (handleVersionG false wVersion).out.isPanic = true ∧ (handleVersionG false wVersion).locks = [Lock.conn] := by
  decide +kernel

/-- ProcessInv with the guard `len(pl) != of+36*cnt` in wrapping arithmetic: cnt = 2^62+1 passes and
    the second iteration slices past the payload. -/
theorem inv_old_counterexample : (processInvG false wInv).out.isPanic = true := by decide +kernel

/-- … and with 36·cnt ≡ 40 the panic happens on `pl[of+4:of+36]`, inside c.Mutex. -/
theorem inv_old_counterexample_locked :
    (processInvG false wInvLocked).out.isPanic = true ∧ (processInvG false wInvLocked).locks = [Lock.conn] := by
  decide +kernel

/-- ProcessGetBlockTxn with `int(idx) >= len(Txs)`: index 2^63 is negative as int, passes, and
    `Txs[idx]` is out of range. -/
theorem getblocktxn_old_counterexample : (processGetBlockTxnG false (some 5) wGbt).out.isPanic = true := by
  decide +kernel

/-- ProcessCmpctBlock with the range check before `idx += exp`: two prefilled entries with
    differential index 1 write slot 3 of 2. -/
theorem cmpctblock_old_counterexample : (processCmpctBlockG false tenOrNothing wCmpct).out.isPanic = true := by
  decide +kernel

/-- FetchMessage reading `c.aesData.nonceSize` before checking that a key exists: a header whose
    length field has bit 31 set panics before the handshake. -/
theorem fetch_old_counterexample : (fetchMessageG false fenv wFetch).out.isPanic = true := by decide +kernel

/-- the same six witnesses under the CURRENT guards: refused with a reason, no lock held. -/
theorem witnesses_now_rejected :
    (handleVersion wVersion).out.isPanic = false ∧ (handleVersion wVersion).locks = [] ∧
    (processInv wInv).out.isPanic = false ∧ (processInv wInvLocked).out.isPanic = false ∧
    (processInv wInvLocked).locks = [] ∧
    (processGetBlockTxn (some 5) wGbt).out.isPanic = false ∧
    (processCmpctBlock tenOrNothing wCmpct).out.isPanic = false ∧
    (fetchMessage fenv wFetch).out.isPanic = false := by decide +kernel

/-- the source facts the model was WRITTEN AGAINST are the ones regenerated from the current source in this
    run: skeletons of the handlers repaired by C18's fixes, Run's command table and gate, Run's inline `authack` case.
    (All 27 lists are compared in Model/NetParseFacts.lean, which this module imports.) A skeleton is, in source
    order and canonical spelling: every `if` / guard / `for` / switch condition, every index / slice on the peer's
    bytes, Lock / Unlock / return, decoder and penalty calls, and - since the second audit - every assignment to a
    local whose value reaches a guard, a loop condition or such an index (`asg:`: offset arithmetic, which result of
    a decoder goes where, an update before or after the test that follows) and every reset of a field to nil
    (`set:`). What the lists do NOT pin: assignments to fields and to locals that feed only non-leaving `if`s,
    arguments of calls that are not in the decoder / penalty list, anything three or more unexported calls deep, and
    the MEANING of a fact - the model is a hand translation, and an edit that moves a fact is an alarm to re-read
    it, not a proof obligation about it. The differential run is the tie for all of that. -/
theorem source_facts_current :
    Gen.NetFacts.HandleVersion = Expected.HandleVersion ∧ Gen.NetFacts.ProcessInv = Expected.ProcessInv ∧
    Gen.NetFacts.ProcessGetBlockTxn = Expected.ProcessGetBlockTxn ∧
    Gen.NetFacts.ProcessCmpctBlock = Expected.ProcessCmpctBlock ∧
    Gen.NetFacts.ProcessBlockTxn = Expected.ProcessBlockTxn ∧ Gen.NetFacts.FetchMessage = Expected.FetchMessage ∧
    Gen.NetFacts.dispatch = Expected.dispatch ∧ Gen.NetFacts.runGate = Expected.runGate ∧
    Gen.NetFacts.inline_authack = Expected.inline_authack :=
  ⟨facts_HandleVersion, facts_ProcessInv, facts_ProcessGetBlockTxn, facts_ProcessCmpctBlock, facts_ProcessBlockTxn,
   facts_FetchMessage, facts_dispatch, facts_runGate, facts_inline_authack⟩

/-- WHAT THE COMPILER IS TOLD. The four `@[csimp]` lemmas of Model/NetParse.lean make the compiled oracle run
    the linear `…Fast` forms (the unread rest of the payload is carried along instead of `pl.drop offs` per
    element) in place of the loops the theorems above are about. This theorem IS the conjunction of those
    four csimp statements, proved by the csimp lemmas themselves, so the axiom audit of Props.C18 covers
    exactly the equalities the compiler trusts. -/
theorem fast_loops_agree :
    @shortIdLoop = @shortIdLoopFast ∧ @prefilledLoop = @prefilledLoopFast ∧
    @blockTxnLoop = @blockTxnLoopFast ∧ @secondPass = @secondPassFast :=
  ⟨shortIdLoop_eq_fast, prefilledLoop_eq_fast, blockTxnLoop_eq_fast, secondPass_eq_fast⟩

/-- the same pointwise, with the `…Fast` forms unfolded to the rest-carrying loops -/
theorem fast_loops_agree_pointwise (fixed : Bool) (txSize : Bytes → Nat) (pl : Bytes) (n total : Int) (k : Nat) (offs exp : Int)
    (seen : List Bytes) (acc : List Nat) (sl : List Bool) (st : Nat) :
    blockTxnLoop txSize pl n k offs acc st = blockTxnLoopR txSize n k (pl.drop offs.toNat) offs acc st ∧
    shortIdLoop pl n k offs seen st = shortIdLoopR n k (pl.drop offs.toNat) offs seen st ∧
    prefilledLoop fixed txSize pl n total k offs exp acc st =
      prefilledLoopR fixed txSize pl n total k (pl.drop offs.toNat) offs exp acc st ∧
    secondPass pl n seen sl offs st = secondPassR n seen sl (pl.drop offs.toNat) offs st := by
  obtain ⟨h1, h2, h3, h4⟩ := fast_loops_agree
  rw [h1, h2, h3, h4]
  exact ⟨rfl, rfl, rfl, rfl⟩

/-- LOCK DISCIPLINE of the current source. gen_c18 reduces every function of the ten client/network
    files the property anchors (≈ 95 functions: all message handlers, Run, Tick, SendRawMsg, SendInvs,
    NetRouteInvExt, GetStats …) to its lock trace; the lock-set scan of Model/NetParseLocks finds on
    the regenerated traces: no return / end of function with a lock taken there still held (unless its
    Unlock is deferred), no `break` / `continue` / `goto` leaving with a changed lock set, no second
    Lock of a held mutex, no Unlock of an unheld one, no call - while a mutex is held - of a function of
    these files that locks the same mutex itself (through its receiver, e.g. `c.DoS()` under c.Mutex, or
    a package-level mutex; one level deep: the callee's own trace), and every access to InvDone.Map,
    PendingInvs, c.InvStore, GetBlockInProgress deletes, peersdb.PeerDB.Put/Del and the statistics map
    `counters` (every mention of the field and every call of a counter helper - a method that touches the
    map without locking, `Gen.NetFacts.counterHelpers`) inside the span of its lock. (Per function and path-insensitive; beyond that one level, locks taken inside callees are
    not followed.) -/
theorem lock_discipline_current : NetParse.Locks.complaints Gen.NetFacts.lockTraces = [] := by decide +kernel

/-- what the whitelist `NetParseLocks.panicUnreachable` hides from the previous theorem, exactly: the
    UNFILTERED scan of the current source has two complaints, both an explicit panic between a Lock and its
    non-deferred Unlock, and the whitelist names for each the theorem above that proves it unreachable
    (`cmpctblock_panic_unreachable` with `cmpctblock_total`; `fetch_hdrlen_panic_unreachable`, which assumes
    the net.Conn.Read contract). -/
theorem explicit_panics_under_lock :
    NetParse.Locks.complaintsRaw Gen.NetFacts.lockTraces =
      ["OneConnection.FetchMessage: panic with c.Mutex held",
       "OneConnection.ProcessCmpctBlock: panic with txpool.TxMutex held"] ∧
    NetParse.Locks.panicUnreachable =
      [("OneConnection.ProcessCmpctBlock", "txpool.TxMutex", "GocoinV.Props.C18.cmpctblock_panic_unreachable"),
       ("OneConnection.FetchMessage", "c.Mutex", "GocoinV.Props.C18.fetch_hdrlen_panic_unreachable")] := by
  decide +kernel

/-- the shared accesses the traces are known to contain (so that a renamed field cannot silently
    empty the list the previous theorem speaks about). Locals appear under their canonical number
    (`$1` = the connection NetRouteInvExt walks over); the unexported worker of the getdata handler is not
    named, and a handler may keep such an access in a helper: `accessVia f …` = the access is in f itself or in a
    function f calls directly (`callGraph`). -/
theorem shared_accesses_tracked :
    NetParse.Locks.accessVia "OneConnection.ProcessGetData" "c.InvStore(…)" "c.Mutex" = true ∧
    NetParse.Locks.accessVia "OneConnection.ProcessInv" "c.InvStore(…)" "c.Mutex" = true ∧
    NetParse.Locks.accessVia "OneConnection.SendInvs" "c.InvStore(…)" "c.Mutex" = true ∧
    NetParse.Locks.accessVia "OneConnection.ProcessNewHeader" "c.InvStore(…)" "c.Mutex" = true ∧
    ("NetRouteInvExt", "$1.InvDone.Map", "$1.Mutex") ∈ Gen.NetFacts.sharedAccesses ∧
    ("NetRouteInvExt", "$1.PendingInvs", "$1.Mutex") ∈ Gen.NetFacts.sharedAccesses ∧
    NetParse.Locks.accessVia "OneConnection.ParseAddr" "peersdb.PeerDB.Put" "peersdb" = true ∧
    64 ≤ Gen.NetFacts.lockTraces.length := by decide +kernel

/-- the same for the statistics map `counters` (second audit, /repo fix 6fde6594): its reader GetStats and Tick's
    reset, the handler the fix repaired, and the paths every message takes (FetchMessage, SendRawMsg, Misbehave) are
    among the tagged accesses, at least 20 in all; the two counter helpers (methods that touch the map without
    locking - found by that shape, the names are only stated here) are not traced themselves but checked at every
    call site; the locking variant is traced and holds the mutex around its access. -/
theorem counters_tracked :
    ("OneConnection.GetStats", "c.counters", "c.Mutex") ∈ Gen.NetFacts.sharedAccesses ∧
    ("OneConnection.Tick", "c.counters", "c.Mutex") ∈ Gen.NetFacts.sharedAccesses ∧
    ("OneConnection.ProcessBlockTxn", "c.cntInc(…)", "c.Mutex") ∈ Gen.NetFacts.sharedAccesses ∧
    ("OneConnection.Misbehave", "c.cntInc(…)", "c.Mutex") ∈ Gen.NetFacts.sharedAccesses ∧
    ("OneConnection.FetchMessage", "c.cntAdd(…)", "c.Mutex") ∈ Gen.NetFacts.sharedAccesses ∧
    ("OneConnection.SendRawMsg", "c.cntAdd(…)", "c.Mutex") ∈ Gen.NetFacts.sharedAccesses ∧
    (Gen.NetFacts.sharedAccesses.filter (fun a => a.2.1 == "c.counters" || a.2.1 == "c.cntInc(…)" || a.2.1 == "c.cntAdd(…)")).length ≥ 20 ∧
    Gen.NetFacts.counterHelpers = ["OneConnection.cntAdd", "OneConnection.cntInc"] ∧
    Gen.NetFacts.counterHelpers.all (fun h => !Gen.NetFacts.lockTraces.any (·.1 == h)) = true ∧
    ("OneConnection.cntLockInc", "c.counters", "c.Mutex") ∈ Gen.NetFacts.sharedAccesses := by decide +kernel

/-- the call edges the previous theorem speaks about are really in the regenerated facts: SendRawMsg's
    overflow path calls DoS, which locks the connection's mutex (so SendRawMsg must have released it),
    and the handlers reach SendRawMsg / DoS / Misbehave from Run. -/
theorem call_locks_tracked :
    ("OneConnection.SendRawMsg", "OneConnection.DoS", "c.Mutex") ∈ Gen.NetFacts.callLocks ∧
    ("OneConnection.Run", "OneConnection.SendRawMsg", "c.Mutex") ∈ Gen.NetFacts.callLocks ∧
    ("OneConnection.ProcessBlockTxn", "OneConnection.Misbehave", "c.Mutex") ∈ Gen.NetFacts.callLocks ∧
    ("DoNetwork", "OneConnection.MutexSetBool", "$1.Mutex") ∈ Gen.NetFacts.callLocks ∧
    ("OneConnection.SendGetMP", "OneConnection.cntLockInc", "c.Mutex") ∈ Gen.NetFacts.callLocks ∧
    ("OneConnection.ExpireHeadersAndGetData", "OneConnection.cntLockInc", "c.Mutex") ∈ Gen.NetFacts.callLocks ∧
    150 ≤ Gen.NetFacts.callLocks.length := by decide +kernel

/-- THE DEFECT THE SECOND AUDIT FOUND, on the traces of the source as it was: before /repo fix 6fde6594
    ProcessBlockTxn counted `BlkTxnNoBIP` / `BlkTxnNoCOL` after `c.Mutex.Unlock()` and SendGetMP counted
    `GetMPHold` with no lock (cntInc writes the map `counters` unlocked by contract), while GetStats ranges over
    that map under c.Mutex: the scan of those two traces - regenerated verbatim from the parent commit - reports
    each of the three counts; the repaired shapes pass, and the locking variant called with the mutex held is a
    self-deadlock the scan reports too. On the real code the harness shows the consequence: a 33-byte `blocktxn`
    for a block that is not in progress, repeated while the UI reads the statistics, ends the process with
    "fatal error: concurrent map iteration and map write" (go/cmd/c18/stats.go, directed history 0). -/
theorem counters_unlocked_counterexample :
    NetParse.Locks.scanFrom [] NetParse.Locks.oldProcessBlockTxn =
      ["shared access without c.Mutex", "shared access without c.Mutex"] ∧
    NetParse.Locks.scanFrom [] NetParse.Locks.oldSendGetMP = ["shared access without c.Mutex"] ∧
    NetParse.Locks.scanFrom [] NetParse.Locks.shapeCountThenUnlock = [] ∧
    NetParse.Locks.scanFrom [] NetParse.Locks.shapeCountLocking = [] ∧
    NetParse.Locks.scanFrom [] NetParse.Locks.shapeCountLockingHeld =
      ["call of a function that locks c.Mutex while it is held"] ∧
    (Gen.NetFacts.lockTraces.lookup "OneConnection.ProcessBlockTxn").map (NetParse.Locks.scanFrom []) = some [] ∧
    (Gen.NetFacts.lockTraces.lookup "OneConnection.SendGetMP").map (NetParse.Locks.scanFrom []) = some [] := by
  decide +kernel

/-- the scan is not vacuous: it accepts the current shapes of ParseAddr's database-full path and of
    processGetData's InvStore, and rejects `continue` with the peers-database lock held, InvStore
    outside c.Mutex, a return between Lock and Unlock, and - with every exit covered by a deferred
    Unlock - a call of a function that locks the held mutex again (accepted when the mutex was released
    before the call, as SendRawMsg's overflow path does); it rejects an explicit panic between Lock and a
    non-deferred Unlock and accepts it when the Unlock is deferred; and the whitelist removes one complaint
    of the named function only (a second panic under the same lock, or the same shape in another function,
    is still reported). -/
theorem lock_scan_discriminates :
    NetParse.Locks.scanFrom [] NetParse.Locks.shapeGoto = [] ∧
    NetParse.Locks.scanFrom [] NetParse.Locks.shapeContinue = ["continue with a changed lock set: peersdb held"] ∧
    NetParse.Locks.scanFrom [] NetParse.Locks.shapeStoreLocked = [] ∧
    NetParse.Locks.scanFrom [] NetParse.Locks.shapeStoreBare = ["shared access without c.Mutex"] ∧
    NetParse.Locks.scanFrom [] NetParse.Locks.shapeReturnHeld = ["return with c.Mutex held"] ∧
    NetParse.Locks.scanFrom [] NetParse.Locks.shapeCallUnlocked = [] ∧
    NetParse.Locks.scanFrom [] NetParse.Locks.shapeCallDeferred =
      ["call of a function that locks c.Mutex while it is held"] ∧
    NetParse.Locks.scanFrom [] NetParse.Locks.shapePanicHeld = ["panic with TxMutex held"] ∧
    NetParse.Locks.scanFrom [] NetParse.Locks.shapePanicDeferred = [] ∧
    NetParse.Locks.dropProved "OneConnection.ProcessCmpctBlock"
      ["panic with txpool.TxMutex held", "panic with txpool.TxMutex held", "panic with c.Mutex held"] =
      ["panic with txpool.TxMutex held", "panic with c.Mutex held"] ∧
    NetParse.Locks.dropProved "OneConnection.ProcessBlockTxn" ["panic with txpool.TxMutex held"] =
      ["panic with txpool.TxMutex held"] := by decide +kernel

/-! ### state that outlives one message (Model/NetParseState.lean) -/

/-- EVERY assignment to a map-typed field of the connection object (counters, GetBlockInProgress, InvDone.Map) in
    client/network - regenerated from the source in this run - stores a freshly made map: no function
    "releases" such a map by storing nil (or a value the translator cannot classify). -/
theorem conn_maps_never_nil :
    ∀ a ∈ Gen.NetFacts.connMapAssigns, NetParse.State.keeps a.2.2 = true := by decide +kernel

/-- every function that creates a connection object (the constructor NewConnection) gives each map that any function
    stores entries into an UNCONDITIONAL `make` (top level of its body): a new connection starts with its maps, whatever
    the configuration says when the peer connects. -/
theorem conn_maps_constructed :
    ∀ w ∈ Gen.NetFacts.connMapWrites,
      NetParse.State.ctorMakes Gen.NetFacts.connCtorMakes Gen.NetFacts.connCtors w.2 = true := by decide +kernel

/-- CONFIGURATION HISTORIES. Start from the state the constructor leaves (`ctorMakes`: a map is there iff every
    function creating a connection object makes it unconditionally - regenerated from the source) and let any sequence
    of functions of client/network run on the connection, each of its assignments to the map field executing or
    not - whatever run-time switch of the configuration (common.NoCounters …), counter or clock its guard reads,
    i.e. under every history of the operator switching things on and off before the peer connects and between Ticks
    and messages: no function that stores an entry (cntInc / cntAdd / cntLockInc under c.Mutex in FetchMessage,
    Misbehave, SendRawMsg …; InvStore; GetBlockData / ProcessCmpctBlock) ever meets a nil map, and a map that has
    a writer is still there afterwards. Rests on the regenerated facts: `connMapAssigns` (all `make`:
    conn_maps_never_nil - an assignment to a struct containing the map, `*x = T{…}` or a taken address would show up
    there as `enclosing` / `addr`), `connMapWrites`, `connCtors` / `connCtorMakes`. -/
theorem conn_maps_total (field : String) (h : NetParse.State.Hist) :
    let start := NetParse.State.ctorMakes Gen.NetFacts.connCtorMakes Gen.NetFacts.connCtors field
    (NetParse.State.runHist Gen.NetFacts.connMapAssigns Gen.NetFacts.connMapWrites field h start).isSome = true ∧
    (NetParse.State.written Gen.NetFacts.connMapWrites field = true →
      NetParse.State.runHist Gen.NetFacts.connMapAssigns Gen.NetFacts.connMapWrites field h start = some true) := by
  intro start
  cases hw : NetParse.State.written Gen.NetFacts.connMapWrites field with
  | false => exact ⟨NetParse.State.runHist_unwritten _ _ field hw h start, by intro x; cases x⟩
  | true =>
    obtain ⟨w, hm, he⟩ := NetParse.State.written_mem _ field hw
    have hs : start = true := by
      have := conn_maps_constructed w hm
      rw [he] at this
      exact this
    have := NetParse.State.runHist_keep Gen.NetFacts.connMapAssigns Gen.NetFacts.connMapWrites field conn_maps_never_nil h
    rw [hs]
    exact ⟨by rw [this]; rfl, fun _ => this⟩

/-- non-vacuity of the premise and of the start state: `counters` has writers and starts as a map; a constructor that
    makes the counters only while they are switched on (`if !NoCounters { c.counters = make }` - the fact becomes
    `false`) starts them nil, and the first counting function panics -/
example :
    NetParse.State.written Gen.NetFacts.connMapWrites "counters" = true ∧
    NetParse.State.ctorMakes Gen.NetFacts.connCtorMakes Gen.NetFacts.connCtors "counters" = true ∧
    NetParse.State.ctorMakes [("NewConnection", "counters", false)] ["NewConnection"] "counters" = false ∧
    NetParse.State.runHist Gen.NetFacts.connMapAssigns Gen.NetFacts.connMapWrites "counters"
      [("OneConnection.cntInc", [])] false = none := by decide +kernel

/-- the facts the two previous theorems speak about are there: the three maps, Tick's re-allocation of the
    counters, the three counter writers, and the model can tell the difference - with Tick storing `nil`
    instead (the "do not keep an empty map per peer while counters are off" edit) the history
    Tick (switch on), then any counting function (switch off again) panics; with the current facts it does not. -/
theorem conn_maps_tracked :
    Gen.NetFacts.connMapFields = ["GetBlockInProgress", "InvDone.Map", "X.Counters", "counters"] ∧
    ("OneConnection.Tick", "counters", "make") ∈ Gen.NetFacts.connMapAssigns ∧
    ("NewConnection", "counters", "make") ∈ Gen.NetFacts.connMapAssigns ∧
    Gen.NetFacts.connCtors = ["NewConnection"] ∧
    ("NewConnection", "counters", true) ∈ Gen.NetFacts.connCtorMakes ∧
    NetParse.State.keeps "enclosing" = false ∧ NetParse.State.keeps "addr" = false ∧
    ("OneConnection.cntInc", "counters") ∈ Gen.NetFacts.connMapWrites ∧
    ("OneConnection.cntAdd", "counters") ∈ Gen.NetFacts.connMapWrites ∧
    ("OneConnection.cntLockInc", "counters") ∈ Gen.NetFacts.connMapWrites ∧
    ("OneConnection.InvStore", "InvDone.Map") ∈ Gen.NetFacts.connMapWrites ∧
    NetParse.State.runHist (NetParse.State.withKind Gen.NetFacts.connMapAssigns "OneConnection.Tick" "counters" "nil")
      Gen.NetFacts.connMapWrites "counters" [("OneConnection.Tick", [true]), ("OneConnection.cntInc", [])] true = none ∧
    NetParse.State.runHist Gen.NetFacts.connMapAssigns
      Gen.NetFacts.connMapWrites "counters" [("OneConnection.Tick", [true]), ("OneConnection.cntInc", [])] true = some true := by
  decide +kernel

/-- TRUSTED BLOCKS. chain.PostCheckBlock's front with btc.Block.BuildTxListExt behind it never panics - for any
    bytes a peer sends behind the header, any transaction decoder that reports no more bytes than it was given
    (`Within`; otherwise the slice `bl.Raw[offs:offs+n]` is out of range - second example below), and whether or not
    the block carries the Trusted mark (for which the coinbase tests, `len(bl.Txs) == 0` among them, are skipped): the
    merkle computation's `mtr[len(mtr)-1]` always has at least one element, because BuildTxListExt's head refuses a
    txn_count of zero. ENTRY CONDITION, built into the model and NOT proved here: the block object's transaction
    list has not been built (bl.Txs == nil, bl.TxCount == 0) - true after btc.NewBlockHeader, and restored by each
    failure path of the three callers; those resets are source facts of the regenerated skeletons
    (`postcheck_entry_resets_current`), what they restore is observed by the harness only (corrupt-assembly scenario). -/
theorem postcheck_total (newTx : Bytes → Option Nat) (hw : NetParse.State.Within newTx) (trusted : Bool) (raw : Bytes)
    (cbOk merkleOk : Bool) :
    (NetParse.State.postCheck true newTx trusted raw cbOk merkleOk).isPanic = false :=
  NetParse.State.postCheck_total newTx hw trusted raw cbOk merkleOk

/-- the hypothesis holds for the decoder the oracle runs (C09's wire model of btc.NewTx) … -/
theorem postcheck_total_wire (trusted : Bool) (raw : Bytes) (cbOk merkleOk : Bool) :
    (NetParse.State.postCheck true (fun b => (Wire.decodeTx b).map (·.2)) trusted raw cbOk merkleOk).isPanic = false := by
  apply postcheck_total
  intro b n h
  cases hd : Wire.decodeTxFull b with
  | none => simp [Wire.decodeTx, hd] at h
  | some d =>
    simp only [Wire.decodeTx, hd, Option.map_some, Option.some.injEq] at h
    obtain ⟨rest, hb, hc, _, _⟩ := Wire.decodeTxFull_spec hd
    have hl := congrArg List.length hb
    simp only [List.length_append] at hl
    omega

/-- … and is needed: a decoder that claims 200 bytes of a 20-byte rest makes the loop's slice panic; the trivial
    decoder (always `none`) satisfies it -/
example :
    NetParse.State.postCheck true (fun _ => some 200) false (List.replicate 80 0x11 ++ [1] ++ List.replicate 19 0) true true =
      .panic "BuildTxListExt: bl.Raw[offs:offs+n]" ∧
    NetParse.State.Within (fun _ => none) := ⟨by decide +kernel, by intro b n h; cases h⟩

/-- the resets that re-establish postcheck_total's entry condition after a failed attempt are in the regenerated
    skeletons of the three callers (dropping one - leaving the stale, shortened transaction list on a block object
    that will be tried again - moves a fact) -/
theorem postcheck_entry_resets_current :
    "set: $6.Block.Txs = nil" ∈ Gen.NetFacts.netBlockReceived ∧
    "set: $3.Block.Txs = nil" ∈ Gen.NetFacts.ProcessCmpctBlock ∧
    "set: $10.Block.Txs = nil" ∈ Gen.NetFacts.ProcessBlockTxn := by decide +kernel

/-- … and that test is what it hangs on: with the head testing the offset only (as Block.UpdateContent, the
    other decoder of the same field, does) an 80-byte header followed by txn_count = 0 and padding - sendable
    by any peer that knows the public header of a pending trusted block - reaches CalcMerkle with no hashes;
    the same bytes are refused under the current head, and refused cleanly for an untrusted block either way. -/
theorem postcheck_count_guard_counterexample :
    NetParse.State.postCheck false (fun _ => none) true NetParse.State.wEmptyBlock true true =
      .panic "CalcMerkle: index out of range [-1]" ∧
    NetParse.State.postCheck true (fun _ => none) true NetParse.State.wEmptyBlock true true = .err "bad-blk-length" ∧
    NetParse.State.postCheck false (fun _ => none) false NetParse.State.wEmptyBlock true true = .err "bad-cb-missing" := by
  decide +kernel

/-- the two skeletons `postCheck` was written against are the ones regenerated from lib/btc and lib/chain now -/
theorem block_front_facts_current :
    Gen.NetFacts.BuildTxListHead = Expected.BuildTxListHead ∧ Gen.NetFacts.PostCheckFront = Expected.PostCheckFront :=
  ⟨facts_BuildTxListHead, facts_PostCheckFront⟩

-- OPEN (not modelled, hence not stated): "whole handler" totality including the backend —
-- ProcessNewHeader / PostCheckBlock / mempool matching (incl. ProcessCmpctBlock's two "Same short ID - abort"
-- returns between the prefilled loop and the second pass) / peer database; and the send-buffer
-- pause path of processGetData (the loop that STARTS a pause; appending to a pending buffer is modelled). The statement above is about the parsing layer only.
-- OPEN: lock ORDER between functions (deadlock freedom across threads) and freedom from data races on
-- fields other than the ones gen_c18 tags as shared accesses; the lock scan is per function and
-- path-insensitive, and follows calls ONE level (a direct callee that locks a mutex its caller holds);
-- a callee that reaches the caller's mutex two levels down or through a walk over the connection list
-- is not found. These are only exercised dynamically (fulldb stream, slow-reader stream, concurrent
-- child process).
-- OPEN (not modelled): the send path (SendRawMsg ring buffer, overflow ban) and btc.BuildTxListExt's
-- worker hand-over; both are covered by the differential run only (slow-reader stream; block bodies cut
-- at every transaction boundary, run in a child process).

/-! ### expire_misbehave (core.go), the once-a-second walk over the connection's penalty history
    (Model/NetParseExpire.lean; not peer bytes, but the same thread: a panic here ends the connection thread) -/

/-- NO INDEX OUT OF RANGE in expire_misbehave: for every clock value, every counter value and every history
    (any length, any numbers in the records) the function of the source returns - none of
    `c.misbehave_history[idx][0]`, `c.misbehave_history[idx][1]` after `idx++`, `c.misbehave_history[idx:]`
    is out of range, and the loop ends within len(history) iterations. No hypotheses. -/
theorem expire_total (now mis : Int) (hist : Expire.Hist) : Expire.expire now mis hist ≠ none := by
  rcases Expire.expire_cases now mis hist with h | h | ⟨k, s, _, _, h⟩ <;> rw [h] <;> simp

/-- the history after expire_misbehave is the history before with its first k records dropped (a suffix):
    nothing is reordered, rewritten or added, so its length never grows. -/
theorem expire_history_suffix (now mis mis' : Int) (hist hist' : Expire.Hist)
    (h : Expire.expire now mis hist = some (mis', hist')) :
    (∃ k, hist' = hist.drop k) ∧ hist'.length ≤ hist.length := by
  have key : ∃ k, hist' = hist.drop k := by
    rcases Expire.expire_cases now mis hist with e | e | ⟨k, s, _, _, e⟩ <;> rw [e] at h <;>
      simp only [Option.some.injEq, Prod.mk.injEq] at h
    · exact ⟨0, by rw [← h.2]; rfl⟩
    · exact ⟨hist.length, by rw [← h.2]; simp⟩
    · exact ⟨k, h.2.symm⟩
  obtain ⟨k, hk⟩ := key
  exact ⟨⟨k, hk⟩, by rw [hk, List.length_drop]; omega⟩

/-- non-vacuity of `expire_history_suffix`: one record, one hour and a second later - everything is forgotten -/
example : Expire.expire 1700003601 100 [(61696, 100)] = some (0, []) := by decide +kernel

/-- what the order `sub += hist[idx][1]; idx++` IN FRONT OF the `idx+1 == len` test does (a seeded change of
    round 5, `expireG true`): a history of exactly one record (time 1700000000, low 16 bits 61696), looked at
    3601 s later, indexes misbehave_history[1] of a one-element slice - the loop ends in `panic`, where the
    order of the source forgets the record and returns. -/
theorem expire_moved_counterexample :
    Expire.loopG true 1700003601 [(61696, 100)] 2 0 0 = .panic ∧
    Expire.expireG true 1700003601 100 [(61696, 100)] = none ∧
    Expire.expireG false 1700003601 100 [(61696, 100)] = some (0, []) := by decide +kernel

/-- WHAT THE SOURCE DOES WITH THE WEIGHTS (a fact about the unchanged code, stated so that nobody reads the
    model as "takes off the expired points"): `idx++` comes before `sub += …[idx][1]`, so the amount taken off
    is the weight of the records that STAY up to the first live one, not of the ones that go. Two penalties,
    100 points at 1700000000 and 7 points at 1700003000, counter 107; at 1700003601 the first record is
    dropped, 7 is subtracted, and the counter stays at 100 with one live record of 7 points. -/
theorem expire_forgets_next_weight_counterexample :
    Expire.expire 1700003601 107 [(61696, 100), (64696, 7)] = some (100, [(64696, 7)]) := by decide +kernel

/-- the skeleton of expire_misbehave that Model/NetParseExpire.lean was written against (the guards, the
    position of `idx++` against the `idx+1 == len` test, the reset to nil, the return) is the one regenerated
    from core.go in this run. NOT pinned by the list: the `sub +=` statement (no guard reads `sub`) and the
    final `c.misbehave -= sub` / re-slice; the harness family on the real function is the tie for those. -/
theorem expire_facts_current : Gen.NetFacts.expire_misbehave = Expected.expire_misbehave := facts_expire_misbehave

end GocoinV.Props.C18
