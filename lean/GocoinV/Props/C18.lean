import GocoinV.Model.NetParse
import GocoinV.Model.NetParseFacts
namespace GocoinV.Props.C18
open GocoinV GocoinV.NetParse

end GocoinV.Props.C18
