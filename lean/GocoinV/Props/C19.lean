import GocoinV.Model.Qdb
namespace GocoinV.Props.C19
end GocoinV.Props.C19
