/-
  Props.C19 — property theorems for C19 (lib/others/qdb behaves as a durable map). Theorems ONLY; helper
  lemmas live in GocoinV/Proofs/C19*.lean. Every theorem is about the definitions of GocoinV.Model.Qdb that
  oracle_c19 executes and go/cmd/c19 compares with the real package.
-/
import GocoinV.Proofs.C19
namespace GocoinV.Props.C19
open GocoinV GocoinV.Qdb GocoinV.QdbSpec GocoinV.Proofs.C19

/-- Refinement, cached sub-language. For EVERY sequence of Put / PutExt / Del / Get / Browse / ApplyFlags /
    Defrag / Sync / NoSync (any thresholds, volatile or not, forced or automatic sync and defrag inside)
    that never sets the NO_CACHE flag, started on a store whose records are all in memory, the store never
    fails (no os.Exit, no panic) and its content — keys, values and browsing flags — is exactly what the same
    sequence produces on the in-memory map `QdbSpec.mstep`; Get, Browse and Count after the sequence return
    what the map returns. (The file system never influences an observation in this sub-language.) -/
theorem qdb_refines_map_partial (db : DB) (ops : List Op) (h : Cached db) (ok : ∀ op ∈ ops, OpOK op) :
    (run db ops).failed = none ∧
    absv (run db ops) = mrun (absv db) ops ∧
    (∀ k, (Qdb.get (run db ops) k).2 = mget (mrun (absv db) ops) k) ∧
    (∀ w, WalkOK w → (browse (run db ops) w).2 = mbrowseOut (mrun (absv db) ops)) ∧
    count (run db ops) = mcount (mrun (absv db) ops) := by
  obtain ⟨hc, ha⟩ := run_cached ops db h ok
  refine ⟨hc.1, ha, ?_, ?_, ?_⟩
  · intro k; rw [← ha]; exact (get_cached _ k hc).2.2
  · intro w hw; rw [← ha]; exact (browse_cached _ w hc hw).2.2
  · rw [← ha]; simp [count, mcount, absv]

-- OPEN: qdb_refines_map — the same statement for ALL operation sequences, i.e. including NO_CACHE records
--   (whose values are read back from the data files: needs the invariant "every record without data in
--   memory points into an existing <seq>.dat whose bytes [pos,pos+len) are the value, and later writes only
--   append") and including `Op.reopen` (needs the parse∘serialise round trip of index snapshot + log).
--   These parts are covered by the correspondence run only.

/-- non-vacuity: a fresh store on an empty directory is cached, and a sequence with forced sync (MaxPending 0),
    overwrite, delete, NO_BROWSE flag, forced defrag is in the sub-language -/
example : Cached (openDB {} false true { maxPending := 0 }) ∧
    (∀ op ∈ [Op.put 1 [1, 2], .putExt 2 [3] NO_BROWSE, .put 1 [], .del 2, .defrag true, .sync, .get 1], OpOK op) := by
  constructor
  · exact ⟨by decide, by intro kr hkr; cases hkr⟩
  · intro op hop
    simp only [List.mem_cons, List.not_mem_nil, or_false] at hop
    rcases hop with rfl | rfl | rfl | rfl | rfl | rfl | rfl <;> simp [OpOK] <;> decide

end GocoinV.Props.C19
