/-
  Props.C19 — property theorems for C19 (lib/others/qdb behaves as a durable map). Theorems ONLY; helper
  lemmas live in GocoinV/Proofs/C19*.lean. Every theorem is about the definitions of GocoinV.Model.Qdb that
  oracle_c19 executes and go/cmd/c19 compares with the real package.
-/
import GocoinV.Proofs.C19
import GocoinV.Proofs.C19Effects
import GocoinV.Proofs.C19Reopen
import GocoinV.Proofs.C19Run
import GocoinV.Proofs.C19Crash
import GocoinV.Proofs.C19Run2
import GocoinV.Proofs.C19Run3
import GocoinV.Proofs.C19Hist
import GocoinV.Proofs.C19Vol
import GocoinV.Proofs.C19Lazy
import GocoinV.Proofs.C19Lz
import GocoinV.Proofs.C19Bound
import GocoinV.Proofs.C19Order
import GocoinV.Proofs.C19Chunk
import GocoinV.Proofs.C19Abort
import GocoinV.Proofs.C19Flags
import GocoinV.Gen.QdbFacts
namespace GocoinV.Props.C19
open GocoinV GocoinV.Qdb GocoinV.QdbSpec GocoinV.Proofs.C19


/-- The constants and guard shapes the hand-written model uses are the ones that stand in the source RIGHT
    NOW (Gen/QdbFacts.lean is regenerated from lib/others/qdb on every run): flag bits, default options,
    both bufio buffer sizes, `freerec` frees only on-disk records, `loadlog` rejects an unreadable header,
    `defrag` clears PendingRecords, Browse / BrowseAll apply the walk result's flags and release the record before
    BR_ABORT can end the browse (the model's `browseStep` does both for every visited record, the aborting one
    included). -/
theorem model_matches_source_facts :
    NO_BROWSE = Gen.QdbFacts.NO_BROWSE ∧ NO_CACHE = Gen.QdbFacts.NO_CACHE ∧ BR_ABORT = Gen.QdbFacts.BR_ABORT ∧
    YES_CACHE = Gen.QdbFacts.YES_CACHE ∧ YES_BROWSE = Gen.QdbFacts.YES_BROWSE ∧
    ({} : Opts) = { defragPerc := Gen.QdbFacts.DefaultDefragPercentVal, forcedPerc := Gen.QdbFacts.DefaultForcedDefragPerc,
                    maxPending := Gen.QdbFacts.DefaultMaxPending, maxPendingNoSync := Gen.QdbFacts.DefaultMaxPendingNoSync } ∧
    bufSize = Gen.QdbFacts.defragBufSize ∧ bufSize = Gen.QdbFacts.idxBufSize ∧ Gen.QdbFacts.KeySize = 8 ∧
    Gen.QdbFacts.freerecChecksDatpos = true ∧ Gen.QdbFacts.loadlogRejectsHeaderError = true ∧
    Gen.QdbFacts.defragClearsPending = true ∧ Gen.QdbFacts.browseAppliesBeforeAbort = true ∧
    Gen.QdbFacts.sharedLockOnlyAroundReads = true := by decide

/-- GET IS NOT READ-ONLY (why the lock discipline is part of the tie). Every statement of this file is about calls made
    one after the other; the store is used by many goroutines through one lock, and the calls are one after the other
    because every entry point holds that lock exclusively. A reader/writer lock keeps this only when whatever runs under
    the shared lock writes nothing (source fact `sharedLockOnlyAroundReads`, regenerated from lib/others/qdb on every run
    and restated in model_matches_source_facts). A look-up does write: in the model `Qdb.get` returns a NEW store — on the
    witness below (one record on disk, not in memory, flagged NO_CACHE, as sync() leaves it) Get loads the record's bytes
    into the index and clears NO_CACHE, so neither the record nor its flag word is what it was; Count, in contrast, is a
    function of the store that returns only a number. Two Gets that overlap would both perform these writes (and the
    Seek + Read on the shared descriptor behind `loadrec`), which no statement here covers; the harness makes concurrent
    calls (`par`) and holds the replies to the same calls made in order. -/
theorem get_is_not_read_only :
    let db := run (openDB {} false true {}) [.putExt 1 [0xaa, 0xbb] NO_CACHE, .sync]
    ilookup 1 db.index = some { data := none, seq := 1, pos := 4, len := 2, flags := NO_CACHE } ∧
    ilookup 1 (Qdb.get db 1).1.index = some { data := some [0xaa, 0xbb], seq := 1, pos := 4, len := 2, flags := 0 } ∧
    (Qdb.get db 1).2 = some [0xaa, 0xbb] ∧ (Qdb.get db 1).1.index ≠ db.index := by decide

/-- Refinement, cached sub-language. For EVERY sequence of Put / PutExt / Del / Get / Browse / ApplyFlags /
    Defrag / Sync / NoSync (any thresholds, volatile or not, forced or automatic sync and defrag inside)
    that never sets the NO_CACHE flag, started on a store whose records are all in memory, the store never
    fails (no os.Exit, no panic) and its content — keys, values and browsing flags — is exactly what the same
    sequence produces on the in-memory map `QdbSpec.mstep`; Get, Browse and Count after the sequence return
    what the map returns (Browse: `mbrowseOutW w` — the entries not flagged NO_BROWSE, up to the record at which the
    walk function answers BR_ABORT; without such an answer that is `mbrowseOut`: mbrowseOutW_noAbort).
    (The file system never influences an observation in this sub-language.) -/
theorem qdb_refines_map_partial (db : DB) (ops : List Op) (he : db.eager = false) (h : Cached db)
    (ok : ∀ op ∈ ops, OpOK false op) :
    (run db ops).failed = none ∧
    absv (run db ops) = mrun (absv db) ops ∧
    (∀ k, (Qdb.get (run db ops) k).2 = mget (mrun (absv db) ops) k) ∧
    (∀ w, WalkOK false w → (browse (run db ops) w).2 = mbrowseOutW w (mrun (absv db) ops)) ∧
    count (run db ops) = mcount (mrun (absv db) ops) := by
  have ok' : ∀ op ∈ ops, OpOK db.eager op := by rw [he]; exact ok
  obtain ⟨hc, ha⟩ := run_cached ops db h ok'
  have hre : (run db ops).eager = false := (run_eager ops db h ok').trans he
  refine ⟨hc.1, ha, ?_, ?_, ?_⟩
  · intro k; rw [← ha]; exact (get_cached _ k hc).2.2
  · intro w hw; rw [← ha]; exact (browse_cached _ w hc (by rw [hre]; exact hw)).2.2
  · rw [← ha]; simp [count, mcount, absv]

-- (qdb_refines_map_partial speaks about keys, values AND flags as a list, for histories without reopen of stores that do
--   not use NO_CACHE. The statement for ALL operation sequences — NO_CACHE flags, lazy loading, reopens in both modes,
--   crashes — is `qdb_refines_map` below, at the level of what Get / Browse / Count return.)

/-- non-vacuity: a fresh store on an empty directory is cached, and a sequence with forced sync (MaxPending 0),
    overwrite, delete, NO_BROWSE flag, forced defrag is in the sub-language -/
example : Cached (openDB {} false true { maxPending := 0 }) ∧
    (∀ op ∈ [Op.put 1 [1, 2], .putExt 2 [3] NO_BROWSE, .put 1 [], .del 2, .defrag true, .sync, .get 1], OpOK false op) := by
  constructor
  · exact ⟨by decide, by intro kr hkr; cases hkr⟩
  · intro op hop
    simp only [List.mem_cons, List.not_mem_nil, or_false] at hop
    rcases hop with rfl | rfl | rfl | rfl | rfl | rfl | rfl <;> simp [OpOK] <;> decide

/-- The directory in the model state is always the replay of the recorded effect list: after opening any
    directory `fs0` and running ANY operation sequence (including reopen), applying all recorded effects to
    `fs0` gives exactly the directory the model is in. Hence `crashFS fs0 db n` for `n ≤ |effs|` are exactly
    the directories that exist between two file operations of the run — the crash states. -/
theorem fs_is_replay_of_effects (fs0 : FS) (vol load : Bool) (opts : Opts) (ops : List Op) :
    crashFS fs0 (run (openDB fs0 vol load opts) ops) (run (openDB fs0 vol load opts) ops).effs.length =
      (run (openDB fs0 vol load opts) ops).fs := by
  obtain ⟨es, h1, h2⟩ := replays_run ops (openDB fs0 vol load opts)
  unfold crashFS
  rw [List.take_length, h2, h1, List.map_append, applyAll_append, ← openDB_replays]

/-- One 24-byte index record (key, datpos, datlen, DataSeq, flags — as written by addtolog and writedatfile)
    decodes to the same fields, whatever follows it. -/
theorem index_record_roundtrip (k : Key) (r : Rec) (rest : Bytes) (h : RecFits k r) :
    decRec (encRec k r ++ rest) = (k, strip r) := decRec_encRec k r rest h

/-- The index log: `loadlog`'s parser applied to any sequence of entries as `sync` writes them (24-byte
    put entries with datpos ≠ 0, 12-byte delete markers) returns exactly those entries, in order. -/
theorem index_log_roundtrip (es : List LogEntry) (h : ∀ e ∈ es, EntryFits e) :
    parseLog (encLog es).length (encLog es) = es.map stripE :=
  parseLog_encLog es h _ (encLog_length_ge es)

/-- The index snapshot: a file `seq ++ records ++ FFFFFFFF ++ seq ++ "FINI"` passes `read_and_check_file`
    with that sequence number and `loaddat`'s loop reads back exactly the records. -/
theorem index_snapshot_roundtrip (ver : Nat) (recs : List (Key × Rec)) (hv : ver < 2^32)
    (h : ∀ kr ∈ recs, RecFits kr.1 kr.2) :
    checkIdxFile (some (snapBytes ver recs)) = some (ver, snapBytes ver recs) ∧
    snapshotRecs (snapBytes ver recs) = recs.map fun kr => (kr.1, strip kr.2) :=
  ⟨checkIdxFile_snapBytes ver recs hv, snapshotRecs_snapBytes ver recs h⟩

/-- `writedatfile` (through its 1 MiB bufio.Writer, whatever the number of records) leaves in the OTHER
    index slot a complete snapshot of the in-memory index under the next sequence number, and leaves no
    log and no older snapshot; data files are untouched. -/
theorem writedatfile_writes_complete_snapshot (db : DB) :
    idxFile (writedatfile db).fs (1 - db.datIdx) = some (snapBytes (u32 (db.verSeq + 1)) db.index) ∧
    otherIdx (writedatfile db).fs (1 - db.datIdx) = none ∧
    (writedatfile db).fs.log = none ∧ (writedatfile db).fs.dats = db.fs.dats := by
  obtain ⟨a, b, c, d, _⟩ := writedatfile_disk db
  exact ⟨a, b, c, d⟩

/-- Reopen identity, snapshot path. For a store whose records are in memory (no NO_CACHE), with distinct
    keys < 2^64, flags < 2^32, datlen = length of the value and all values fitting one data file:
    (a) non-volatile: Defrag(true), Close, NewDBExt(LoadData) — in any mode and with any options — gives a
        store that has not failed and holds exactly the same keys, values and flags;
    (b) volatile with unsaved changes: Close, NewDBExt(LoadData) does the same.
    The proof goes through the real file contents: data file layout written through bufio, index snapshot
    with trailer, removal of log / old snapshot / old data files, `loadneweridx`, `loaddat`, `loadlog`,
    `cleanupold` and `load`. -/
theorem reopen_after_close_identity_partial (db : DB) (h : Cached db) (hwf : IndexWF db.eager db.index)
    (vol : Bool) (opts : Opts) :
    (db.volatile = false →
      (run db [.defrag true, .reopen vol true opts]).failed = none ∧
      absv (run db [.defrag true, .reopen vol true opts]) = absv db) ∧
    (db.volatile = true → db.noSync = true →
      (run db [.reopen vol true opts]).failed = none ∧
      absv (run db [.reopen vol true opts]) = absv db) := by
  obtain ⟨o1, o2, o3⟩ := open_after_defrag db h hwf vol opts
  constructor
  · intro hv
    have hd : step db (.defrag true) = defrag db := by
      show (defragOp db true).1 = defrag db
      unfold defragOp
      rw [if_neg (notFailed h)]
      simp [hv]
    obtain ⟨c1, c2⟩ := close_after_defrag_nonvolatile db h hv
    show (step (step db (.defrag true)) (.reopen vol true opts)).failed = none ∧
      absv (step (step db (.defrag true)) (.reopen vol true opts)) = absv db
    rw [hd]
    have heq : (close (defrag db)).eager = db.eager :=
      (close_eager (defrag db) (defrag_cached db h).cached).trans (defrag_cached db h).eager
    show (match (close (defrag db)).failed with
      | some _ => close (defrag db)
      | none => { openDB (close (defrag db)).fs vol true opts (close (defrag db)).eager with
                  effs := (close (defrag db)).effs ++ (openDB (close (defrag db)).fs vol true opts (close (defrag db)).eager).effs }).failed = none ∧
      absv (match (close (defrag db)).failed with
      | some _ => close (defrag db)
      | none => { openDB (close (defrag db)).fs vol true opts (close (defrag db)).eager with
                  effs := (close (defrag db)).effs ++ (openDB (close (defrag db)).fs vol true opts (close (defrag db)).eager).effs }) = absv db
    rw [c1, c2, heq]
    exact ⟨o2, o3⟩
  · intro hv hn
    have hk := defrag_cached db h
    have hc : (close db).failed = none ∧ (close db).fs = (defrag db).fs := by
      unfold close
      rw [if_neg (notFailed h)]
      simp only [hv, hn, ↓reduceIte, hk.cached.1]
      exact ⟨trivial, trivial⟩
    show (match (close db).failed with
      | some _ => close db
      | none => { openDB (close db).fs vol true opts (close db).eager with
                  effs := (close db).effs ++ (openDB (close db).fs vol true opts (close db).eager).effs }).failed = none ∧
      absv (match (close db).failed with
      | some _ => close db
      | none => { openDB (close db).fs vol true opts (close db).eager with
                  effs := (close db).effs ++ (openDB (close db).fs vol true opts (close db).eager).effs }) = absv db
    rw [hc.1, hc.2, close_eager db h]
    exact ⟨o2, o3⟩

/-- Refinement at the level of values, for EVERY history of the extended sub-language. Start on an empty directory
    (non-volatile, any LoadData / options) and run ANY sequence of Put / PutExt / Del / Get / Browse / ApplyFlags /
    Defrag / Sync / NoSync that never sets NO_CACHE AND of Close + NewDBExt(non-volatile, LoadData, any options) —
    with all the automatic syncs and forced defrags the thresholds cause — under the side conditions `RunFits2`
    (keys are 64-bit, flags 32-bit, the data file stays below 4 GiB, data-file sequence numbers do not wrap).
    Then the store never fails (no os.Exit, no panic, every reopen succeeds), `Get k` returns, for every key,
    exactly what the in-memory map holds (`vrun`: only Put / PutExt / Del change it; a reopen changes nothing;
    it is the value-level view of the list-level map `mrun`), and `Count` is the number of keys of that map.
    The proof carries two invariants through every operation and re-establishes them after every reopen:
    "snapshot + log entries describe every key that is not pending, its bytes are where the index says, data files
    only grow", and "the other index slot is not a valid snapshot / holds the previous one; nothing on disk refers
    to a data-file number above the current one". -/
theorem qdb_refines_map_values_partial (load : Bool) (opts : Opts) (ops : List Op)
    (ok : ∀ op ∈ ops, OpOK2 false op) (fits : RunFits2 (openDB {} false load opts) ops) :
    (run (openDB {} false load opts) ops).failed = none ∧
    (∀ k, (Qdb.get (run (openDB {} false load opts) ops) k).2 = vrun (fun _ => none) ops k) ∧
    (∀ k, mget (mrun [] ops) k = vrun (fun _ => none) ops k) ∧
    count (run (openDB {} false load opts) ops) = mcount (mrun [] ops) := by
  obtain ⟨h3, hv⟩ := run_inv3' ops _ (fresh_inv3 (eg := false) load opts) (ok2_fresh load opts ops ok) fits
  have hv0 : vals (openDB {} false load opts) = fun _ => none := by
    funext k; cases load <;> rfl
  rw [hv0] at hv
  obtain ⟨mnd, mv⟩ := mrun_vals ops [] (by simp [Keys])
  have mv' : ∀ k, mget (mrun [] ops) k = vrun (fun _ => none) ops k := mv
  refine ⟨h3.inv.cached.1, fun k => ?_, mv', ?_⟩
  · rw [(get_cached _ k h3.inv.cached).2.2]
    exact hv k
  · -- Count: the index and the map have distinct keys and the same key set
    unfold count mcount
    apply length_eq_of_same_keys _ _ h3.inv.nodup mnd
    intro k
    have h1 := hv k
    rw [vals_eq] at h1
    have h2 := mv' k
    unfold mget at h2
    have e1 : (ilookup k (run (openDB {} false load opts) ops).index).isSome =
        (vrun (fun _ => none) ops k).isSome := by rw [← h1]; simp
    have e2 : (ilookup k (mrun [] ops)).isSome = (vrun (fun _ => none) ops k).isSome := by rw [← h2]; simp
    rw [e1, e2]

/-- Reopen identity, every history (snapshot AND log path): after any history as above, Close + NewDBExt
    (non-volatile, LoadData, any options) leaves every key with exactly the value it had. -/
theorem reopen_after_close_identity_nonvolatile_partial (load : Bool) (opts : Opts) (ops : List Op)
    (ok : ∀ op ∈ ops, OpOK2 false op) (fits : RunFits2 (openDB {} false load opts) ops) (opts' : Opts)
    (hfit : OpFits2 (run (openDB {} false load opts) ops) (.reopen false true opts')) :
    (step (run (openDB {} false load opts) ops) (.reopen false true opts')).failed = none ∧
    ∀ k, vals (step (run (openDB {} false load opts) ops) (.reopen false true opts')) k =
         vals (run (openDB {} false load opts) ops) k := by
  obtain ⟨h3, _⟩ := run_inv3' ops _ (fresh_inv3 (eg := false) load opts) (ok2_fresh load opts ops ok) fits
  obtain ⟨a, b⟩ := reopen_inv3 _ h3 opts' hfit.1 hfit.2
  exact ⟨a.inv.cached.1, b⟩

/-- non-vacuity: automatic sync at every change (MaxPending 0), overwrite, delete, forced defrag, a reopen in the
    middle, more changes, a second reopen -/
example :
    let ops := [Op.put 1 [1, 2], .put 2 [], .put 1 [9], .del 2, .defrag true, .reopen false true {},
                .putExt 3 [7] NO_BROWSE, .sync, .reopen false true { maxPending := 0 }, .put 2 [4]]
    (∀ op ∈ ops, OpOK2 false op) ∧ RunFits2 (openDB {} false true { maxPending := 0 }) ops := by
  refine ⟨?_, ?_⟩
  · intro op hop
    simp only [List.mem_cons, List.not_mem_nil, or_false] at hop
    rcases hop with rfl | rfl | rfl | rfl | rfl | rfl | rfl | rfl | rfl | rfl <;> simp [OpOK2, OpOK] <;> decide
  · simp only [RunFits2, OpFits2, OpFits, SizeOK]
    decide

-- (The full statements are `qdb_refines_map` and `qdb_durable` below; the `_partial` theorems are kept because they
--   state more about special cases: flags as part of the abstract state, explicit effect lists of sync()/defrag().)

/-- Durability across a crash anywhere inside sync() / Close. Take any reachable state of a non-volatile store
    (empty directory, any cached-sub-language history, side conditions as above) with pending changes. sync()
    performs the file operations `syncEffs db`: [create <seq>.dat, write its header,] one Write per pending
    record, [create qdbidx.log, write its header,] ONE Write of all collected index entries. Then:
    (a) for EVERY n smaller than the number of these operations, the directory that exists after the first n
        of them reopens (LoadData) without failure, and every key has exactly the value it has when the
        directory from before sync() is reopened — its last synced value; no value that was never written, no
        half-written record, whatever has already been appended to the data file;
    (b) after the last operation the directory reopens without failure and every key has exactly the value of
        the in-memory map (all pending changes became durable together);
    (c) the directory after the last operation is the one the model continues with. -/
theorem qdb_durable_sync_partial (load : Bool) (opts : Opts) (ops : List Op)
    (ok : ∀ op ∈ ops, OpOK2 false op) (fits : RunFits2 (openDB {} false load opts) ops)
    (hsz : SizeOK (run (openDB {} false load opts) ops))
    (hp : (run (openDB {} false load opts) ops).pending.isEmpty = false) (vol' : Bool) (opts' : Opts) :
    let db := run (openDB {} false load opts) ops
    (∀ n, n < (syncEffs db).length →
      (openDB (db.fs.applyAll ((syncEffs db).take n)) vol' true opts').failed = none ∧
      ∀ k, (ilookup k (openDB (db.fs.applyAll ((syncEffs db).take n)) vol' true opts').index).map valOf =
           (ilookup k (openDB db.fs vol' true opts').index).map valOf) ∧
    ((openDB (db.fs.applyAll (syncEffs db)) vol' true opts').failed = none ∧
      ∀ k, (ilookup k (openDB (db.fs.applyAll (syncEffs db)) vol' true opts').index).map valOf =
           vrun (fun _ => none) ops k) ∧
    (∃ L, sync db = (if L.extra > mul64 L.opts.forcedPerc L.need / 100 then defrag L else L) ∧
      L.fs = db.fs.applyAll (syncEffs db)) := by
  intro db
  obtain ⟨h3, hv⟩ := run_inv3' ops _ (fresh_inv3 (eg := false) load opts) (ok2_fresh load opts ops ok) fits
  have hv0 : vals (openDB {} false load opts) = fun _ => none := by
    funext k; cases load <;> rfl
  rw [hv0] at hv
  have inv : DiskInv db := h3.inv
  have hdbe : db.eager = false :=
    (run_eager2 ops _ (fresh_inv3 (eg := false) load opts) (ok2_fresh load opts ops ok) fits).trans (fresh_eager load opts)
  have hR0 : DirReadable false db.fs := fun kr hkr => ⟨by have := inv.dflags kr hkr; rw [hdbe] at this; exact this, inv.dreads kr hkr⟩
  obtain ⟨_, hold⟩ := open_readable db.fs hR0 vol' opts'
  obtain ⟨L, hL, h3L, absL, pL, _, hfsL, _, _, hLe0⟩ := sync_logWritten3 db h3 hp hsz
  have invL := h3L.inv
  refine ⟨?_, ?_, L, hL, hfsL⟩
  · intro n hn
    obtain ⟨hR, hV⟩ := sync_prefix db inv n hn
    rw [hdbe] at hR
    obtain ⟨o1, o2⟩ := open_readable _ hR vol' opts'
    refine ⟨o1, fun k => ?_⟩
    rw [o2 k, hV k, ← hold k]
  · rw [← hfsL]
    have hLe : L.eager = false := hLe0.trans hdbe
    obtain ⟨o1, o2⟩ := open_of_inv L invL pL vol' opts'
    rw [hLe] at o1 o2
    refine ⟨o1, fun k => ?_⟩
    rw [o2 k, ← vals_eq, ← hv k]
    unfold vals
    rw [absL]

/-- non-vacuity of qdb_durable_sync_partial: default thresholds, a sync and a reopen in the middle, then three
    pending changes (put, overwrite, delete of a synced key); sync() then has 5 file operations (new data file and
    its header, two data writes, one log write) -/
example :
    let ops := [Op.put 1 [1, 2], .put 2 [5], .sync, .reopen false true {}, .put 3 [], .put 1 [9, 9, 9], .del 2]
    let db := run (openDB {} false true {}) ops
    (∀ op ∈ ops, OpOK2 false op) ∧ RunFits2 (openDB {} false true {}) ops ∧ SizeOK db ∧ db.pending.isEmpty = false ∧
    (syncEffs db).length = 5 := by
  refine ⟨?_, ?_, ?_, ?_, ?_⟩
  · intro op hop
    simp only [List.mem_cons, List.not_mem_nil, or_false] at hop
    rcases hop with rfl | rfl | rfl | rfl | rfl | rfl | rfl <;> simp [OpOK2, OpOK]
  · simp only [RunFits2, OpFits2, OpFits, SizeOK]
    decide
  · simp only [SizeOK]
    decide
  · decide
  · decide

/-- Durability across a crash anywhere inside defrag() (forced or automatic, incl. writedatfile and cleanupold).
    Take any reachable state of a non-volatile store (empty directory, cached-sub-language history, side
    conditions as above; additionally the data-file sequence number does not wrap and the index snapshot —
    16 + 24 bytes per record — fits the 1 MiB bufio buffer, i.e. at most 43 690 records, so that it reaches its
    file with one Write). Let `es` be the file operations defrag() performs (new data file and its contents in
    whatever chunks bufio produces, new index file, its contents, removal of the log, of the old index file and
    of the unused data files). Then for EVERY n the directory that exists after the first n of them reopens
    (LoadData) without failure and, for ALL keys at once, it holds either the content the directory had before
    defrag() — the last synced values — or the complete in-memory content. Never a mixture, never a value that
    was not written. -/
theorem qdb_durable_defrag_partial (load : Bool) (opts : Opts) (ops : List Op)
    (ok : ∀ op ∈ ops, OpOK2 false op) (fits : RunFits2 (openDB {} false load opts) ops)
    (hsz : SizeOK (run (openDB {} false load opts) ops))
    (hseq : (run (openDB {} false load opts) ops).dataSeq + 1 < 2^32)
    (hsmall : 16 + 24 * (run (openDB {} false load opts) ops).index.length ≤ bufSize)
    (vol' : Bool) (opts' : Opts) :
    let db := run (openDB {} false load opts) ops
    ∃ es, (defrag db).effs = db.effs ++ es ∧ ∀ n,
      (openDB (db.fs.applyAll ((es.map (·.2)).take n)) vol' true opts').failed = none ∧
      ((∀ k, (ilookup k (openDB (db.fs.applyAll ((es.map (·.2)).take n)) vol' true opts').index).map valOf =
             (ilookup k (openDB db.fs vol' true opts').index).map valOf) ∨
       (∀ k, (ilookup k (openDB (db.fs.applyAll ((es.map (·.2)).take n)) vol' true opts').index).map valOf =
             vrun (fun _ => none) ops k)) := by
  intro db
  obtain ⟨h3, hv⟩ := run_inv3' ops _ (fresh_inv3 (eg := false) load opts) (ok2_fresh load opts ops ok) fits
  have hv0 : vals (openDB {} false load opts) = fun _ => none := by
    funext k; cases load <;> rfl
  rw [hv0] at hv
  have hready : DefragReady db := defragReady_of_inv3 db h3 hsz hseq (by
    rw [snapBytes_length, layout_length]; exact hsmall)
  obtain ⟨es, he, hall⟩ := defrag_prefix db hready
  have hdbe : db.eager = false :=
    (run_eager2 ops _ (fresh_inv3 (eg := false) load opts) (ok2_fresh load opts ops ok) fits).trans (fresh_eager load opts)
  have hrd := hready.readable
  rw [hdbe] at hrd
  obtain ⟨_, hold⟩ := open_readable db.fs hrd vol' opts'
  refine ⟨es, he, fun n => ?_⟩
  obtain ⟨hR, hV⟩ := hall n
  have hRr := hR.readable
  rw [hdbe] at hRr
  obtain ⟨o1, o2⟩ := open_readable _ hRr vol' opts'
  refine ⟨o1, ?_⟩
  rcases hV with hV | hV
  · exact Or.inl (fun k => by rw [o2 k, hV k, ← hold k])
  · exact Or.inr (fun k => by rw [o2 k, hV k, ← vals_eq, hv k])

/-- Durability for EVERY history that CONTINUES after crashes, volatile and non-volatile mode (central theorem,
    stated bounds below). A history is a list of items: an operation of the sub-language — Put / PutExt / Del / Get /
    Browse / ApplyFlags / Defrag / Sync / NoSync without NO_CACHE, and Close + NewDBExt(volatile or non-volatile,
    LoadData, any options) — or a CRASH: the process dies inside an operation `o` after ANY number `n` of its file
    operations (`Model.Qdb.crashDir`: inside sync(), inside a forced or automatic defrag() incl. writedatfile() and
    cleanupold(), inside Close of either mode, inside the clean-up NewDBExt itself performs — removal of the older
    index file, of a discarded log, of unused data files), followed by ANY number of recovery attempts that die
    inside NewDBExt after `ms` of its file operations (`recrash`), followed by a NewDBExt(volatile or non-volatile,
    LoadData, any options) that completes; then the history goes on, with further crashes.
    Start: NewDBExt(non-volatile) on an empty directory. Bounds (`HFits`): keys 64-bit, flags 32-bit, data file
    < 4 GiB, sequence numbers do not wrap (`OpFits3`, `maxSeq`), and at every item the index snapshot (16 + 24 bytes
    per record) is at most the 1 MiB bufio buffer, i.e. at most 43 690 records (`DFits`). Then:
    (1) the store never fails — every NewDBExt on every crash directory succeeds (no os.Exit, no panic);
    (2) Get returns, for every key, the in-memory map `vals db`; Count is the number of keys of that map;
    (3) the pair (in-memory map, durable map = what a reopen of the current directory finds) follows the
        durable-map specification `DurOK`: operations act on the in-memory map as on a plain map; the durable map
        stays or becomes the complete in-memory map, and it MUST become it at Close+reopen and, for a non-volatile
        store, at Sync and Defrag(true); after a crash the store continues with — for ALL keys at once — the durable
        map from before the interrupted operation or the complete map after it, and that is durable;
    (4) hence no value is ever invented: whatever a key holds at the end, in memory or durably, was written by a
        Put / PutExt of the history (`durOK_origin`).
    NewDBExt re-establishes the invariants (`Inv3`, for a volatile store `VInv`) on every crash directory, also when
    `loadlog` discards the log (empty log left between os.Create and the header write; previous version's log left
    by a crash in defrag). -/
theorem qdb_durable_partial (load : Bool) (opts : Opts) (H : List HItem)
    (ok : ∀ i ∈ H, HOK false i) (fits : HFits (openDB {} false load opts) H) :
    let db := hrun (openDB {} false load opts) H
    db.failed = none ∧
    (∀ k, (Qdb.get db k).2 = vals db k) ∧
    (∃ ks : List Key, ks.Nodup ∧ (∀ k, k ∈ ks ↔ (vals db k).isSome = true) ∧ count db = ks.length) ∧
    DurOK false (fun _ => none) (fun _ => none) H (vals db) (diskValue db.fs) ∧
    (∀ k v, (vals db k = some v ∨ diskValue db.fs k = some v) → ∃ i ∈ H, writes (itemOp i) k v) := by
  intro db
  obtain ⟨h3, hd⟩ := hrun_dur H _ (Or.inl (fresh_inv3 (eg := false) load opts)) (hok_fresh load opts H ok) fits
  have hv0 : vals (openDB {} false load opts) = fun _ => none := by
    funext k; cases load <;> rfl
  have hd0 : diskValue (openDB {} false load opts).fs = fun _ => none := by
    funext k; cases load <;> rfl
  have hm0 : (openDB {} false load opts).volatile = false := by cases load <;> rfl
  rw [hv0, hd0, hm0] at hd
  refine ⟨h3.cached.1, fun k => (get_cached _ k h3.cached).2.2, ?_, hd, fun k v hv => ?_⟩
  · refine ⟨Keys db.index, h3.nodup, fun k => ?_, by simp [count, Keys]⟩
    rw [vals_eq, Option.isSome_map]
    exact (ilookup_isSome_iff k db.index).symm
  · rcases durOK_origin H _ _ _ _ _ hd k v hv with r | r | r
    · cases r
    · cases r
    · exact r

/-- non-vacuity of qdb_durable_partial: a synced put, an overwrite, a crash inside Sync after 2 of its file
    operations with one failed recovery attempt, more changes, a crash inside a forced defrag after 4 file operations
    recovered in VOLATILE mode, a volatile session (reopen volatile, a change, Close = defrag, reopen non-volatile), a crash inside the NewDBExt
    of a Close+reopen (after all of Close's and one of NewDBExt's file operations) -/
example :
    let H := [HItem.op (.put 1 [1, 2]), .op .sync, .op (.put 1 [9]), .crash .sync 2 [1] false {}, .op (.put 2 [4]),
              .crash (.defrag true) 4 [] true { maxPending := 0 }, .op (.reopen true true {}), .op (.put 3 [7]),
              .op (.reopen false true {}), .op (.del 1), .crash (.reopen false true {}) 4 [0, 1] false {}]
    (∀ i ∈ H, HOK false i) ∧ HFits (openDB {} false true {}) H := by
  refine ⟨?_, ?_⟩
  · intro i hi
    simp only [List.mem_cons, List.not_mem_nil, or_false] at hi
    rcases hi with rfl | rfl | rfl | rfl | rfl | rfl | rfl | rfl | rfl | rfl | rfl <;>
      simp [HOK, itemOp, OpOK3, OpOK]
  · simp only [HFits, OpFits3, OpFits, SizeOK, dFits_iff]
    decide

/-- Browse after ANY history of the sub-language, reopens (both modes) and crashes included: Browse (with a walk
    function that never asks for NO_CACHE; it may answer BR_ABORT) shows only true entries — every (key, value) it
    visits is the in-memory map's — and it shows every entry whose browsing flag in memory does not say NO_BROWSE and
    which the walk function's BR_ABORT answers do not cut off (`skipB … = false`; without a BR_ABORT answer: every
    entry not flagged NO_BROWSE). (Which flags a record carries after a reopen is decided by what was persisted with it:
    the flags at its last sync or defrag.) -/
theorem browse_after_history_partial (load : Bool) (opts : Opts) (H : List HItem)
    (ok : ∀ i ∈ H, HOK false i) (fits : HFits (openDB {} false load opts) H) (w : List (Key × Nat)) (hw : WalkOK false w) :
    let db := hrun (openDB {} false load opts) H
    (∀ kv ∈ (browse db w).2, vals db kv.1 = some kv.2) ∧
    (∀ k v f, ilookup k (absv db) = some (v, f) → skipB false (mvisitSet false (absv db) w) f k = false →
      (k, v) ∈ (browse db w).2) ∧
    (NoAbort w → ∀ k v f, ilookup k (absv db) = some (v, f) → hasFlag f NO_BROWSE = false → (k, v) ∈ (browse db w).2) := by
  intro db
  obtain ⟨h3, _⟩ := hrun_dur H _ (Or.inl (fresh_inv3 (eg := false) load opts)) (hok_fresh load opts H ok) fits
  have hdbe : db.eager = false :=
    (hrun_eager H _ (Or.inl (fresh_inv3 (eg := false) load opts)) (hok_fresh load opts H ok) fits).trans
      (fresh_eager load opts)
  have hb : (browse db w).2 = mbrowseOutW w (absv db) := (browse_cached db w h3.cached (by rw [hdbe]; exact hw)).2.2
  have hnd : (Keys (absv db)).Nodup := by rw [keys_absv]; exact h3.nodup
  rw [hb]
  refine ⟨mbrowseOutV_sound _ _ hnd, fun k v f hl hs => mbrowseOutV_complete _ _ k v f hl hs, fun hna k v f hl hf => ?_⟩
  rw [mbrowseOutW_noAbort w hna]
  unfold mbrowseOut
  exact List.mem_filterMap.mpr ⟨(k, v, f), ilookup_key_pair k (v, f) _ hl, by simp [hf]⟩

/-- Lazily loaded records, first access. After ANY history of the sub-language (both modes, crashes included; bounds
    as in qdb_durable_partial, plus the size bounds of a Close now), Close and then NewDBExt in ANY mode with
    LoadData = FALSE: Close does not fail, the open does not fail and holds no record data in memory, and for EVERY
    key the first Get does not fail and returns exactly the in-memory map's value from before the Close — `loadrec`
    finds the data file and reads the record's bytes. (`lazy_open_get` states the same for every openable directory,
    in particular for every crash directory, and in volatile mode too; the continuation of a history on a store
    that holds not-loaded records is qdb_refines_map / qdb_durable.) -/
theorem lazy_reopen_first_get_partial (load : Bool) (opts : Opts) (H : List HItem)
    (ok : ∀ i ∈ H, HOK false i) (fits : HFits (openDB {} false load opts) H)
    (hs : SizeOK (hrun (openDB {} false load opts) H)) (hd : DFits (hrun (openDB {} false load opts) H))
    (vol' : Bool) (opts' : Opts) (k : Key) :
    let db := hrun (openDB {} false load opts) H
    (close db).failed = none ∧
    (openDB (close db).fs vol' false opts').failed = none ∧
    (Qdb.get (openDB (close db).fs vol' false opts') k).1.failed = none ∧
    (Qdb.get (openDB (close db).fs vol' false opts') k).2 = vals db k := by
  intro db
  obtain ⟨h3, _⟩ := hrun_dur H _ (Or.inl (fresh_inv3 (eg := false) load opts)) (hok_fresh load opts H ok) fits
  have c : Closed db := by
    rcases h3 with h | h
    · exact nclose db h hs hd
    · exact vclose db h hs.2 hd
  have hdbe : db.eager = false :=
    (hrun_eager H _ (Or.inl (fresh_inv3 (eg := false) load opts)) (hok_fresh load opts H ok) fits).trans
      (fresh_eager load opts)
  obtain ⟨a, b, d⟩ := lazy_open_get (close db).fs vol' opts' c.ok k
  rw [hdbe] at a b d
  exact ⟨c.failed, a, b, d.trans (c.vals k)⟩

/-- REFINEMENT, the whole operation language (central theorem). A history is any list of: Put / PutExt / Del / Get /
    Browse / ApplyFlags with ANY 32-bit flags — NO_CACHE included: `freerec` and sync() drop a record's data once it is
    on disk, `loadrec` reads it back from the data file, `load` skips such records — Defrag(false/true) / Sync / NoSync,
    Close + NewDBExt in ANY mode (volatile or not) with ANY LoadData and any options (`OpOK5`), and CRASHES after any
    number of file operations of any of these (inside sync(), defrag() incl. writedatfile()/cleanupold(), Close of either
    mode, NewDBExt's own clean-up), any number of recovery attempts that die inside NewDBExt, and a completing
    NewDBExt(any mode, LoadData) — after which the history goes on. Start: NewDBExt(non-volatile, any LoadData) on an
    empty directory.
    The statement is relative to the EAGER GHOST `g`: the same model run on the same history (every NewDBExt loading at
    once: `twin H`) with the ghost field `eager` set, which makes `freerec` / sync() / `load` test a flag bit that no
    32-bit flag word has — the ghost keeps every record in memory while writing exactly the same bytes (the flags are
    the same). Bounds, along the ghost run (`HFits`): keys 64-bit, data file < 4 GiB, sequence numbers do not wrap,
    index snapshot at most the 1 MiB bufio buffer (43 690 records). Then the real store `a` and the ghost never part:
    `a` never fails (no "file not found" exit in loadrec, no nil dereference in sync(), every NewDBExt on every crash
    directory succeeds), both are in the SAME directory and have performed the SAME file operations, and
    Get of every key returns the in-memory map `vals g` (what an in-memory map gives on the same history — the first
    component of the specification `DurOK`, on which operations act by `vstep`), Browse (walk results: ANY 32-bit word, BR_ABORT included — `WalkOK5`; the order of the walk list stands for Go's map order when an answer aborts: Model.Qdb.visitSet, every_abort_order_is_a_walk_list) shows exactly what the ghost's
    Browse shows — which is the map's: qdb_browse_is_map — and Count is the ghost's. -/
theorem qdb_refines_map (load : Bool) (opts : Opts) (H : List HItem)
    (ok : ∀ i ∈ H, HOK5 i) (fits : HFits (openDB {} false load opts true) (twin H)) :
    let a := hrun (openDB {} false load opts) H
    let g := hrun (openDB {} false load opts true) (twin H)
    a.failed = none ∧ a.fs = g.fs ∧ a.effs = g.effs ∧
    (∀ k, (Qdb.get a k).1.failed = none ∧ (Qdb.get a k).2 = vals g k) ∧
    (∀ w, WalkOK5 w → (browse a w).2 = (browse g w).2) ∧ count a = count g ∧
    (∃ ks : List Key, ks.Nodup ∧ (∀ k, k ∈ ks ↔ (vals g k).isSome = true) ∧ count a = ks.length) := by
  intro a g
  have hT0 : Twin (openDB {} false load opts) (openDB {} false load opts true) := by
    refine Or.inl ⟨?_, fresh_inv3 (eg := true) load opts⟩
    have e1 : openDB {} false load opts false = { fs := {}, volatile := false, opts := opts, dataSeq := 1, eager := false } := by
      cases load <;> rfl
    have e2 : openDB {} false load opts true = { fs := {}, volatile := false, opts := opts, dataSeq := 1, eager := true } := by
      cases load <;> rfl
    rw [e1, e2]
    exact ⟨rfl, trivial, (fun _ _ h _ => by cases h), (fun _ _ h _ => by cases h), rfl⟩
  have hT : Twin a g := twin_run H _ _ hT0 ok fits
  obtain ⟨o1, o2, o3, o4, o5, o6⟩ := hT.observe
  refine ⟨o1, o2, o3, o4, fun w hw => o5 w hw, o6, Keys g.index, hT.sinv.nodup, fun k => ?_,
    by rw [o6]; simp [count, Keys]⟩
  rw [vals_eq, Option.isSome_map]
  exact (ilookup_isSome_iff k g.index).symm

/-- DURABILITY, the whole operation language (central theorem; histories, ghost and bounds as in qdb_refines_map; crash
    model: process kill at system-call boundaries — a completed file operation survives entirely, an interrupted one has
    not happened; `diskValue F` is what NewDBExt finds in directory F: durable_map_is_reopen). The pair (in-memory map `vals g` — what Get of the real store returns, durable map = what a
    reopen of the REAL store's current directory finds) follows the durable-map specification `DurOK` along the
    history: operations act on the in-memory map as on a plain map; the durable map stays or becomes the complete
    in-memory map, and it MUST become it at Close+reopen and, for a non-volatile store, at Sync and Defrag(true); a
    crash inside any operation — after ANY number of its file operations — leaves a directory that NewDBExt opens
    without error (also after further crashes inside NewDBExt) and in which ALL keys hold the durable map from before
    the interrupted operation or ALL keys hold the complete map after it; the store continues from there. Hence no
    value is ever invented: whatever a key holds at the end, in memory or durably, was written by a Put / PutExt of
    the history. -/
theorem qdb_durable (load : Bool) (opts : Opts) (H : List HItem)
    (ok : ∀ i ∈ H, HOK5 i) (fits : HFits (openDB {} false load opts true) (twin H)) :
    let a := hrun (openDB {} false load opts) H
    let g := hrun (openDB {} false load opts true) (twin H)
    a.failed = none ∧
    DurOK false (fun _ => none) (fun _ => none) (twin H) (vals g) (diskValue a.fs) ∧
    (∀ k v, (vals g k = some v ∨ diskValue a.fs k = some v) → ∃ i ∈ twin H, writes (itemOp i) k v) := by
  intro a g
  obtain ⟨o1, o2, _⟩ := qdb_refines_map load opts H ok fits
  have hok : ∀ i ∈ twin H, HOK (openDB {} false load opts true).eager i := by
    rw [openDB_eager]; exact hok_twin H ok
  obtain ⟨_, hd⟩ := hrun_dur (twin H) _ (Or.inl (fresh_inv3 (eg := true) load opts)) hok fits
  have hv0 : vals (openDB {} false load opts true) = fun _ => none := by
    funext k; cases load <;> rfl
  have hd0 : diskValue (openDB {} false load opts true).fs = fun _ => none := by
    funext k; cases load <;> rfl
  have hm0 : (openDB {} false load opts true).volatile = false := by cases load <;> rfl
  rw [hv0, hd0, hm0] at hd
  have hfs : a.fs = g.fs := o2
  refine ⟨o1, by rw [hfs]; exact hd, fun k v hv => ?_⟩
  rw [hfs] at hv
  rcases durOK_origin (twin H) _ _ _ _ _ hd k v hv with r | r | r
  · cases r
  · cases r
  · exact r

/-- non-vacuity of qdb_refines_map / qdb_durable: a NO_CACHE record, a sync that drops it, a Get that reads it back,
    a lazy reopen (automatic sync at every change from then on), ApplyFlags NO_CACHE, a Browse whose walk function asks
    for NO_BROWSE|NO_CACHE|BR_ABORT (7) at the first record it is shown, an overwrite of a not-loaded record, a forced defrag, a VOLATILE session with lazy loading, a
    crash inside a Sync while records are not in memory -/
example :
    let H := [HItem.op (.putExt 1 [1, 2] NO_CACHE), .op (.put 2 [5]), .op .sync, .op (.get 1),
              .op (.reopen false false { maxPending := 0 }), .op (.applyFlags 2 NO_CACHE), .op (.browse [(2, 7), (1, NO_CACHE)]),
              .op (.put 2 [6, 6]), .op (.defrag true), .op (.reopen true false {}), .op (.put 1 [8]),
              .op (.reopen false true {}), .crash .sync 1 [] false {}]
    (∀ i ∈ H, HOK5 i) ∧ HFits (openDB {} false true {} true) (twin H) := by
  refine ⟨?_, ?_⟩
  · intro i hi
    simp only [List.mem_cons, List.not_mem_nil, or_false] at hi
    rcases hi with rfl | rfl | rfl | rfl | rfl | rfl | rfl | rfl | rfl | rfl | rfl | rfl | rfl <;>
      simp [HOK5, itemOp, OpOK5, WalkOK5, NO_CACHE, BR_ABORT, hasFlag]
  · show HFits (openDB {} false true {} true)
      [HItem.op (.putExt 1 [1, 2] NO_CACHE), .op (.put 2 [5]), .op .sync, .op (.get 1),
       .op (.reopen false true { maxPending := 0 }), .op (.applyFlags 2 NO_CACHE), .op (.browse [(2, 7), (1, NO_CACHE)]),
       .op (.put 2 [6, 6]), .op (.defrag true), .op (.reopen true true {}), .op (.put 1 [8]),
       .op (.reopen false true {}), .crash .sync 1 [] false {}]
    simp only [HFits, OpFits3, OpFits, SizeOK, dFits_iff]
    decide

/-- the walk results the theorems allow: every 32-bit word, BR_ABORT (value 4) alone or together with any other bit -/
example : OpOK5 (.browse [(1, 4)]) ∧ OpOK5 (.browse [(1, 0xFFFFFFFF)]) ∧ OpOK5 (.browse [(1, 5), (2, 0x80000007)]) ∧
    ¬ OpOK5 (.browse [(1, 0x100000000)]) := by
  refine ⟨?_, ?_, ?_, fun h => absurd (h (1, 0x100000000) List.mem_cons_self) (by decide)⟩ <;>
  · intro kf hkf
    simp only [List.mem_cons, List.not_mem_nil, or_false] at hkf
    rcases hkf with rfl | rfl <;> decide

/-- BROWSE, the whole operation language (histories, ghost and bounds exactly as in qdb_refines_map — NO_CACHE flags,
    lazy loading, both modes, crashes and recoveries included). `absv g` is the in-memory map WITH the browsing flags
    (key ↦ (value, flags); `vals g k = mget (absv g) k` is its value part — the map qdb_refines_map and qdb_durable speak
    about). For every walk function that returns 32-bit words (BR_ABORT included), Browse of the REAL store
    (a) visits exactly the entries of that map whose flag word does not say NO_BROWSE and which lie before the point at
        which the walk function answers BR_ABORT (`mbrowseOutW w`; what that point is: browse_abort_visit_set), each
        with its value — in particular records that are not in memory are read back from the data file correctly;
    (b) soundness: every (key, value) it shows is the map's;
    (c) completeness: every entry that is not skipped (flag word without NO_BROWSE, not cut off by a BR_ABORT answer)
        is shown;
    (d) when no answer carries BR_ABORT that is every entry whose flag word does not say NO_BROWSE (`mbrowseOut`).
    (Which flag word a record carries after a reopen is what was persisted with it at its last sync / defrag.) -/
theorem qdb_browse_is_map (load : Bool) (opts : Opts) (H : List HItem)
    (ok : ∀ i ∈ H, HOK5 i) (fits : HFits (openDB {} false load opts true) (twin H)) (w : List (Key × Nat)) (hw : WalkOK5 w) :
    let a := hrun (openDB {} false load opts) H
    let g := hrun (openDB {} false load opts true) (twin H)
    (browse a w).2 = mbrowseOutW w (absv g) ∧
    (∀ kv ∈ (browse a w).2, vals g kv.1 = some kv.2) ∧
    (∀ k v f, ilookup k (absv g) = some (v, f) → skipB false (mvisitSet false (absv g) w) f k = false →
      (k, v) ∈ (browse a w).2) ∧
    (NoAbort w → (browse a w).2 = mbrowseOut (absv g) ∧
      ∀ k v f, ilookup k (absv g) = some (v, f) → hasFlag f NO_BROWSE = false → (k, v) ∈ (browse a w).2) := by
  intro a g
  obtain ⟨_, _, _, _, o5, _⟩ := qdb_refines_map load opts H ok fits
  have hok : ∀ i ∈ twin H, HOK (openDB {} false load opts true).eager i := by
    rw [openDB_eager]; exact hok_twin H ok
  obtain ⟨h3, _⟩ := hrun_dur (twin H) _ (Or.inl (fresh_inv3 (eg := true) load opts)) hok fits
  have hge : g.eager = true :=
    (hrun_eager (twin H) _ (Or.inl (fresh_inv3 (eg := true) load opts)) hok fits).trans (openDB_eager {} false load opts)
  have hb : (browse g w).2 = mbrowseOutW w (absv g) :=
    (browse_cached g w h3.cached (by rw [hge]; exact fun kf hkf => hasFlag_big32 kf.2 (hw kf hkf))).2.2
  have hnd : (Keys (absv g)).Nodup := by rw [keys_absv]; exact h3.nodup
  have e : (browse a w).2 = mbrowseOutW w (absv g) := (o5 w hw).trans hb
  refine ⟨e, ?_, ?_, fun hna => ⟨by rw [e, mbrowseOutW_noAbort w hna], fun k v f hl hf => ?_⟩⟩
  · rw [e]; exact mbrowseOutV_sound _ _ hnd
  · rw [e]; exact fun k v f hl hs => mbrowseOutV_complete _ _ k v f hl hs
  · rw [e, mbrowseOutW_noAbort w hna]
    unfold mbrowseOut
    exact List.mem_filterMap.mpr ⟨(k, v, f), ilookup_key_pair k (v, f) _ hl, by simp [hf]⟩

/-- WHAT BR_ABORT MEANS (the visit set of a Browse / BrowseAll on an index or a map; `eligible`: the key is present and —
    for Browse — its flag word does not say NO_BROWSE). `visitSet = none` — everything eligible is visited — exactly when
    no eligible record's answer carries BR_ABORT. `visitSet = some (k :: t)`: the answer for `k` carries BR_ABORT, `k`
    and the keys of `t` are eligible and no answer for a key of `t` carries it: the browse hands exactly these records
    to the walk function, `k` last, and stops. -/
theorem browse_abort_visit_set {α : Type} (flagsOf : α → Nat) (all : Bool) (idx : List (Key × α)) (w : List (Key × Nat)) :
    match visitSet flagsOf all idx w with
    | none => ∀ k, eligible flagsOf all idx k = true → hasFlag (walkRes w k) BR_ABORT = false
    | some l => ∃ k t, l = k :: t ∧ eligible flagsOf all idx k = true ∧ hasFlag (walkRes w k) BR_ABORT = true ∧
        ∀ k' ∈ t, eligible flagsOf all idx k' = true ∧ hasFlag (walkRes w k') BR_ABORT = false := by
  have h := visitSet_char flagsOf all idx w
  cases hv : visitSet flagsOf all idx w with
  | none => rw [hv] at h; exact h
  | some l => rw [hv] at h; exact h

/-- EVERY STOPPING POINT GO'S MAP ORDER CAN PRODUCE IS COVERED. For a walk function (`walkRes w0`) and any sequence of
    distinct eligible keys `init ++ [last]` in which the answer for `last` is the first to carry BR_ABORT — i.e. any
    way the real Browse can run into an abort, whatever order Go's map iteration takes — the walk list that names
    these keys first, in that order, has the same answers and exactly that visit set. The theorems above hold for every
    walk list, hence for every such run; the harness builds this list from the order observed on the real store. -/
theorem every_abort_order_is_a_walk_list {α : Type} (flagsOf : α → Nat) (all : Bool) (idx : List (Key × α))
    (w0 : List (Key × Nat)) (init : List Key) (last : Key)
    (hnd : (init ++ [last]).Nodup) (hel : ∀ k ∈ init ++ [last], eligible flagsOf all idx k = true)
    (hna : ∀ k ∈ init, hasFlag (walkRes w0 k) BR_ABORT = false) (hab : hasFlag (walkRes w0 last) BR_ABORT = true) :
    let w := (init ++ [last]).map (fun k => (k, walkRes w0 k)) ++ w0
    (∀ k, walkRes w k = walkRes w0 k) ∧ visitSet flagsOf all idx w = some (last :: init.reverse) :=
  Proofs.C19.every_abort_order_is_a_walk_list flagsOf all idx w0 init last hnd hel hna hab

/-- non-vacuity of every_abort_order_is_a_walk_list: on the index {1, 2 (hidden), 3, 4} a Browse that Go's map order leads
    through 3, then 1, then 4 — the walk function answers BR_ABORT|NO_BROWSE for 4 and for 1 it would answer YES_CACHE —
    satisfies the four hypotheses (distinct, eligible, no abort before, abort at the last), and the walk list built from
    that order has exactly that visit set -/
example :
    let idx : List (Key × Rec) := [(1, newRec [1] 0), (2, newRec [2] NO_BROWSE), (3, newRec [3] 0), (4, newRec [4] 0)]
    let w0 : List (Key × Nat) := [(4, 5), (1, 8), (2, 4)]
    ([3, 1] ++ [4]).Nodup ∧ (∀ k ∈ [3, 1] ++ [4], eligible Rec.flags false idx k = true) ∧
    (∀ k ∈ [3, 1], hasFlag (walkRes w0 k) BR_ABORT = false) ∧ hasFlag (walkRes w0 4) BR_ABORT = true ∧
    visitSet Rec.flags false idx (([3, 1] ++ [4]).map (fun k => (k, walkRes w0 k)) ++ w0) = some [4, 1, 3] := by
  decide

/-- A BR_ABORT ANSWER TAKES ITS FLAGS ALONG (histories, ghost and bounds as in qdb_refines_map). The in-memory map after
    a Browse is `mbrowseState`: the walk function's answer is applied to the flag word of every VISITED entry and of no
    other; and when the browse stops at `k`, whatever else the aborting answer carries (NO_BROWSE, YES_BROWSE, NO_CACHE,
    YES_CACHE) is applied to `k` too. THIS STATEMENT IS ABOUT THE GHOST'S STATE (`absv (browse g w).1`); what the REAL store
    shows after such a Browse — not failed, every later Browse and Get answer from that map — is qdb_browse_then_observe.
    (Across Close + NewDBExt the flag word survives only if the record is persisted afterwards:
    flag_change_not_durable_counterexample.) -/
theorem qdb_browse_abort_applies_answer (load : Bool) (opts : Opts) (H : List HItem)
    (ok : ∀ i ∈ H, HOK5 i) (fits : HFits (openDB {} false load opts true) (twin H)) (w : List (Key × Nat)) (hw : WalkOK5 w) :
    let g := hrun (openDB {} false load opts true) (twin H)
    absv (browse g w).1 = mbrowseState (absv g) w ∧
    (∀ k v f, ilookup k (absv g) = some (v, f) → ilookup k (absv (browse g w).1) =
      some (v, if skipB false (mvisitSet false (absv g) w) f k then f else applyBrowsingFlags f (walkRes w k))) ∧
    (∀ k t v f, mvisitSet false (absv g) w = some (k :: t) → ilookup k (absv g) = some (v, f) →
      hasFlag (walkRes w k) BR_ABORT = true ∧
      ilookup k (absv (browse g w).1) = some (v, applyBrowsingFlags f (walkRes w k))) := by
  intro g
  have hok : ∀ i ∈ twin H, HOK (openDB {} false load opts true).eager i := by
    rw [openDB_eager]; exact hok_twin H ok
  obtain ⟨h3, _⟩ := hrun_dur (twin H) _ (Or.inl (fresh_inv3 (eg := true) load opts)) hok fits
  have hge : g.eager = true :=
    (hrun_eager (twin H) _ (Or.inl (fresh_inv3 (eg := true) load opts)) hok fits).trans (openDB_eager {} false load opts)
  have hs : absv (browse g w).1 = mbrowseState (absv g) w :=
    (browse_cached g w h3.cached (by rw [hge]; exact fun kf hkf => hasFlag_big32 kf.2 (hw kf hkf))).2.1
  refine ⟨hs, fun k v f hl => ?_, fun k t v f hvs hl => ?_⟩
  · rw [hs]; exact mbrowseState_lookup _ w k v f hl
  · rw [hs]; exact abort_answer_flags_applied _ w k t v f hvs hl

/-- non-vacuity / a worked case: on the map {1 ↦ [1], 2 ↦ [2], 3 ↦ [3]} a walk function answering NO_BROWSE|BR_ABORT
    for key 2 first shows key 2 only, hides it from then on, and leaves 1 and 3 alone; answering bare BR_ABORT for an
    absent key (9) and for a hidden key aborts nothing -/
example :
    let m : M := [(1, ([1], 0)), (2, ([2], 0)), (3, ([3], 0))]
    mvisitSet false m [(2, 5), (1, 0)] = some [2] ∧
    mbrowseOutW [(2, 5), (1, 0)] m = [(2, [2])] ∧
    mbrowseOutW [] (mbrowseState m [(2, 5), (1, 0)]) = [(1, [1]), (3, [3])] ∧
    mbrowseOutW [(9, 4), (2, 4)] (mbrowseState m [(2, 5), (1, 0)]) = [(1, [1]), (3, [3])] ∧
    mvisitSet false m [(1, 16), (3, 4), (2, 4)] = some [3, 1] := by
  decide

/-- THE DURABLE MAP IS WHAT NewDBExt FINDS (link between `diskValue`, in which qdb_durable states durability, and the
    model's real open). After any history as in qdb_refines_map / qdb_durable, take the directory the REAL store is in
    and call NewDBExt on it in ANY mode with ANY LoadData and any options (bound: the data-file numbers found on disk do
    not wrap — the same bound `HFits` states for every recovery). Then NewDBExt does not fail, and for every key the
    first Get does not fail and returns exactly `diskValue a.fs k` (with LoadData = false `loadrec` reads it from the
    data file; with LoadData = true NO_CACHE records are skipped by `load` and read back on demand likewise). The
    ghost's NewDBExt holds `diskValue a.fs` as its in-memory map. `a.fs` is the directory of a COMPLETED history — when
    the history ends with a crash item, the directory AFTER the completing (LoadData = true) NewDBExt of that item and its
    removals. The RAW crash directory, opened directly in any mode with any LoadData: crash_directory_reopen. -/
theorem durable_map_is_reopen (load : Bool) (opts : Opts) (H : List HItem)
    (ok : ∀ i ∈ H, HOK5 i) (fits : HFits (openDB {} false load opts true) (twin H))
    (vol' load' : Bool) (opts' : Opts)
    (hmax : (openIndex { fs := (hrun (openDB {} false load opts) H).fs, volatile := vol', opts := opts', eager := true }).maxSeq + 1 < 2^32) :
    let a := hrun (openDB {} false load opts) H
    (openDB a.fs vol' load' opts').failed = none ∧
    (∀ k, (Qdb.get (openDB a.fs vol' load' opts') k).1.failed = none ∧
          (Qdb.get (openDB a.fs vol' load' opts') k).2 = diskValue a.fs k) ∧
    (∀ k, vals (openDB a.fs vol' true opts' true) k = diskValue a.fs k) := by
  intro a
  obtain ⟨_, hfs, _⟩ := qdb_refines_map load opts H ok fits
  have hok : ∀ i ∈ twin H, HOK (openDB {} false load opts true).eager i := by
    rw [openDB_eager]; exact hok_twin H ok
  obtain ⟨h3, _⟩ := hrun_dur (twin H) _ (Or.inl (fresh_inv3 (eg := true) load opts)) hok fits
  have hge : (hrun (openDB {} false load opts true) (twin H)).eager = true :=
    (hrun_eager (twin H) _ (Or.inl (fresh_inv3 (eg := true) load opts)) hok fits).trans (openDB_eager {} false load opts)
  have hO : OpenOK true a.fs := by
    have hg : OpenOK (hrun (openDB {} false load opts true) (twin H)).eager
        (hrun (openDB {} false load opts true) (twin H)).fs := by
      rcases h3 with h | h
      · exact openOK_of_inv _ h.inv
      · obtain ⟨P, hP, _⟩ := h.gh
        exact openOK_of_inv (ghost _ P) hP.inv
    rw [hge] at hg
    show OpenOK true (hrun (openDB {} false load opts) H).fs
    rw [hfs]
    exact hg
  have hT := open_twin a.fs vol' load' opts' false [] hO hmax
  obtain ⟨t1, _, _, t4, _⟩ := hT.observe
  have hv : ∀ k, vals (openDB a.fs vol' true opts' true) k = diskValue a.fs k := by
    intro k
    rw [vals_eq]
    exact (open_readable a.fs hO.readable vol' opts').2 k
  refine ⟨t1, fun k => ?_, hv⟩
  obtain ⟨u1, u2⟩ := t4 k
  exact ⟨u1, u2.trans (hv k)⟩

/-- non-vacuity of durable_map_is_reopen: a history with a NO_CACHE record, a lazy session and a crash inside Sync is in
    the language and within the bounds, and the bound `hmax` on the directory it ends in holds for a volatile NewDBExt -/
example :
    let H := [HItem.op (.putExt 1 [1, 2] NO_CACHE), .op (.put 2 [5]), .op .sync, .op (.reopen false false {}),
              .op (.put 2 [6]), .crash .sync 3 [] false {}]
    (∀ i ∈ H, HOK5 i) ∧ HFits (openDB {} false true {} true) (twin H) ∧
    (openIndex { fs := (hrun (openDB {} false true {}) H).fs, volatile := true, opts := {}, eager := true }).maxSeq + 1 < 2^32 := by
  refine ⟨?_, ?_, by decide⟩
  · intro i hi
    simp only [List.mem_cons, List.not_mem_nil, or_false] at hi
    rcases hi with rfl | rfl | rfl | rfl | rfl | rfl <;> simp [HOK5, itemOp, OpOK5, NO_CACHE]
  · show HFits (openDB {} false true {} true)
      [HItem.op (.putExt 1 [1, 2] NO_CACHE), .op (.put 2 [5]), .op .sync, .op (.reopen false true {}),
       .op (.put 2 [6]), .crash .sync 3 [] false {}]
    simp only [HFits, OpFits3, OpFits, SizeOK, dFits_iff]
    decide

/-- THE RAW CRASH DIRECTORY (no recovery in between). After any history as in qdb_refines_map / qdb_durable the process
    dies inside a further operation `o` after ANY number `n` of its file operations, and any number of recovery attempts
    die inside NewDBExt (`ms`). Call NewDBExt on THAT directory in ANY mode with ANY LoadData — in particular
    LoadData = false, so that nothing is read before the first Get (bounds: those of `o` as in `HFits`, and the data-file
    numbers found in the directory do not wrap). Then NewDBExt does not fail; for every key the first Get does not fail and
    returns `diskValue` of that directory; and that durable map is — for ALL keys at once — the durable map from before
    `o` or the complete in-memory map after `o` (`vstep (vals g) o`): never a mixture, never an invented value. -/
theorem crash_directory_reopen (load : Bool) (opts : Opts) (H : List HItem)
    (ok : ∀ i ∈ H, HOK5 i) (fits : HFits (openDB {} false load opts true) (twin H))
    (o : Op) (oko : OpOK5 o) (n : Nat) (ms : List Nat) (ropts : Opts)
    (f1 : OpFits3 (hrun (openDB {} false load opts true) (twin H)) (twinOp o))
    (f2 : DFits (preSync (hrun (openDB {} false load opts true) (twin H)) (twinOp o)))
    (vol' load' : Bool) (opts' : Opts)
    (hmax : (openIndex { fs := recrash ropts (crashDir (hrun (openDB {} false load opts) H) o n) ms,
                         volatile := vol', opts := opts', eager := true }).maxSeq + 1 < 2^32) :
    let a := hrun (openDB {} false load opts) H
    let g := hrun (openDB {} false load opts true) (twin H)
    let F := recrash ropts (crashDir a o n) ms
    (openDB F vol' load' opts').failed = none ∧
    (∀ k, (Qdb.get (openDB F vol' load' opts') k).1.failed = none ∧
          (Qdb.get (openDB F vol' load' opts') k).2 = diskValue F k) ∧
    ((∀ k, diskValue F k = diskValue a.fs k) ∨ (∀ k, diskValue F k = vstep (vals g) o k)) := by
  intro a g F
  have hT0 : Twin (openDB {} false load opts) (openDB {} false load opts true) := by
    refine Or.inl ⟨?_, fresh_inv3 (eg := true) load opts⟩
    have e1 : openDB {} false load opts false = { fs := {}, volatile := false, opts := opts, dataSeq := 1, eager := false } := by
      cases load <;> rfl
    have e2 : openDB {} false load opts true = { fs := {}, volatile := false, opts := opts, dataSeq := 1, eager := true } := by
      cases load <;> rfl
    rw [e1, e2]
    exact ⟨rfl, trivial, (fun _ _ h _ => by cases h), (fun _ _ h _ => by cases h), rfl⟩
  have hT : Twin a g := twin_run H _ _ hT0 ok fits
  obtain ⟨hO, hAll⟩ := crash_dir_openOK a g hT o oko f1 f2 n ms ropts
  have hTw := open_twin F vol' load' opts' false [] hO hmax
  obtain ⟨t1, _, _, t4, _⟩ := hTw.observe
  have hv : ∀ k, vals (openDB F vol' true opts' true) k = diskValue F k := by
    intro k
    rw [vals_eq]
    exact (open_readable F hO.readable vol' opts').2 k
  refine ⟨t1, fun k => ?_, hAll⟩
  obtain ⟨u1, u2⟩ := t4 k
  exact ⟨u1, u2.trans (hv k)⟩

/-- non-vacuity of crash_directory_reopen: after a synced put and an overwrite, the process dies inside Sync after 2 of
    its file operations (data written, index log not), one recovery attempt dies too; the hypotheses hold for a LAZY
    volatile NewDBExt on that directory -/
example :
    let H := [HItem.op (.putExt 1 [1, 2] NO_CACHE), .op .sync, .op (.put 1 [9])]
    let g := hrun (openDB {} false true {} true) (twin H)
    (∀ i ∈ H, HOK5 i) ∧ HFits (openDB {} false true {} true) (twin H) ∧ OpOK5 .sync ∧
    OpFits3 g (twinOp .sync) ∧ DFits (preSync g (twinOp .sync)) ∧
    (openIndex { fs := recrash {} (crashDir (hrun (openDB {} false true {}) H) .sync 2) [1],
                 volatile := true, opts := {}, eager := true }).maxSeq + 1 < 2^32 := by
  refine ⟨?_, ?_, trivial, ?_, ?_, by decide⟩
  · intro i hi
    simp only [List.mem_cons, List.not_mem_nil, or_false] at hi
    rcases hi with rfl | rfl | rfl <;> simp [HOK5, itemOp, OpOK5, NO_CACHE]
  · show HFits (openDB {} false true {} true) [HItem.op (.putExt 1 [1, 2] NO_CACHE), .op .sync, .op (.put 1 [9])]
    simp only [HFits, OpFits3, OpFits, SizeOK, dFits_iff]
    decide
  · show OpFits3 _ Op.sync
    simp only [OpFits3, OpFits, SizeOK]
    decide
  · rw [dFits_iff]
    decide

/-- OBSERVATION — the stated bound "index snapshot ≤ 1 MiB" (16 + 24·n ≤ 2^20, i.e. n ≤ 43 690 records) is NEEDED, and
    this is the exact condition under which the durability claim fails beyond it. writedatfile sends the snapshot
    through a 1 MiB bufio.Writer; with more than 43 690 records the first Write that reaches the file carries the first
    2^20 bytes, which end 12 bytes into record number 43 690 (counting from 0): its key and its datpos. If that record's
    key is (VersionSequence << 32) | 0xFFFFFFFF and its datpos is 0x494E4946 (the bytes "FINI"; a position ≈ 1.23 GB into
    the data file), these 2^20 bytes ARE byte for byte the complete snapshot of the first 43 690 records only:
    `read_and_check_file` accepts them, `loaddat` reads the first 43 690 records — a crash between the first and the
    second Write of writedatfile then leaves a directory whose newest valid index lacks every record from number 43 690
    on (and the log, of the previous version, is discarded). No such crash directory exists within the bound (there the
    snapshot reaches the file with ONE Write: qdb_durable). client/peersdb allows 70 000 records, i.e. it can leave the
    bound; its records are at most 807 bytes, so its data file stays below 57 MB and no datpos can be 0x494E4946: the
    condition cannot arise there (manifest: observation, not a finding). -/
theorem snapshot_cut_at_buffer_boundary_observation (ver : Nat) (hv : ver < 2^32) (pre post : List (Key × Rec)) (r : Rec)
    (hn : pre.length = 43690) (hp : r.pos = 0x494E4946) (hfit : ∀ kr ∈ pre, RecFits kr.1 kr.2) :
    let full := snapBytes ver (pre ++ (ver * 2^32 + 0xFFFFFFFF, r) :: post)
    16 + 24 * pre.length = bufSize ∧
    full.take bufSize = snapBytes ver pre ∧
    checkIdxFile (some (full.take bufSize)) = some (ver, snapBytes ver pre) ∧
    snapshotRecs (full.take bufSize) = pre.map fun kr => (kr.1, strip kr.2) := by
  intro full
  have hb : 16 + 24 * pre.length = bufSize := by rw [hn]; decide
  have ht : full.take bufSize = snapBytes ver pre := by
    rw [← hb]; exact snapBytes_take ver pre post r hp
  refine ⟨hb, ht, ?_, ?_⟩
  · rw [ht]; exact checkIdxFile_snapBytes ver pre hv
  · rw [ht]; exact snapshotRecs_snapBytes ver pre hfit

/-- The same OBSERVATION at the level of the MODEL's writedatfile (bufio.Writer modelled exactly): if the index holds at
    position 43 690 a record with key (new VersionSequence << 32) | 0xFFFFFFFF and datpos 0x494E4946, then the file
    operations of writedatfile START with: create the new index file; ONE Write of exactly the complete snapshot of the
    first 43 690 records (the buffer ran full 12 bytes into that record). The directory after these two operations — a
    crash point — holds in the new slot a file that `read_and_check_file` accepts under the new version
    (snapshot_cut_at_buffer_boundary_observation), although 1 + |post| records are missing from it. -/
theorem writedatfile_first_write_observation (db : DB) (pre post : List (Key × Rec)) (r : Rec)
    (hidx : db.index = pre ++ (u32 (db.verSeq + 1) * 2^32 + 0xFFFFFFFF, r) :: post)
    (hn : pre.length = 43690) (hp : r.pos = 0x494E4946) :
    (∃ rest, (writedatfile db).effs = db.effs ++
      [("qdb.writedatfile:created", .createIdx (1 - db.datIdx)),
       ("qdb.writedatfile:written", .appendIdx (1 - db.datIdx) (snapBytes (u32 (db.verSeq + 1)) pre))] ++ rest) ∧
    idxFile (db.fs.applyAll [.createIdx (1 - db.datIdx), .appendIdx (1 - db.datIdx) (snapBytes (u32 (db.verSeq + 1)) pre)])
      (1 - db.datIdx) = some (snapBytes (u32 (db.verSeq + 1)) pre) ∧
    checkIdxFile (some (snapBytes (u32 (db.verSeq + 1)) pre)) = some (u32 (db.verSeq + 1), snapBytes (u32 (db.verSeq + 1)) pre) :=
  ⟨writedatfile_first_write db pre post r hidx hn hp, idxFile_create_append _ _ _,
   checkIdxFile_snapBytes _ pre (Nat.mod_lt _ (by decide))⟩

/-- non-vacuity of the observation: such record lists exist; and the bound of the central theorems allows exactly
    43 690 records -/
example : (∃ (pre : List (Key × Rec)) (r : Rec), pre.length = 43690 ∧ r.pos = 0x494E4946 ∧ (∀ kr ∈ pre, RecFits kr.1 kr.2)) ∧
    16 + 24 * 43690 ≤ bufSize ∧ ¬ (16 + 24 * 43691 ≤ bufSize) :=
  ⟨⟨List.replicate 43690 (0, { data := none, seq := 1, pos := 4, len := 0, flags := 0 }),
    { data := none, seq := 1, pos := 0x494E4946, len := 0, flags := 0 }, List.length_replicate, rfl,
    fun kr h => by rw [List.eq_of_mem_replicate h]; exact ⟨by decide, by decide, by decide, by decide, by decide⟩⟩,
   by decide, by decide⟩

/-- MAP ITERATION ORDER, the part that is proved. writedatfile writes the snapshot in the order in which Go iterates the
    index map (arbitrary; list order in the model). For ANY other order of the same records (distinct keys, fields in
    range) the snapshot file passes `read_and_check_file` just the same and `loaddat` gives EVERY key the same record:
    what NewDBExt rebuilds from a snapshot does not depend on writedatfile's iteration order. (NOT proved: independence
    of the order in which sync() and defrag() write the DATA of several records — another order puts the records at
    other file positions, so the index entries themselves differ; the central theorems cover the list order only.) -/
theorem snapshot_record_order_irrelevant (ver : Nat) (hv : ver < 2^32) (recs recs' : List (Key × Rec))
    (hp : recs.Perm recs') (hnd : (recs.map (·.1)).Nodup) (hfit : ∀ kr ∈ recs, RecFits kr.1 kr.2)
    (db : DB) (hdb : db.index = []) :
    checkIdxFile (some (snapBytes ver recs')) = some (ver, snapBytes ver recs') ∧
    ∀ k, ilookup k (memputAll db (snapshotRecs (snapBytes ver recs'))).index =
         ilookup k (memputAll db (snapshotRecs (snapBytes ver recs))).index :=
  ⟨checkIdxFile_snapBytes ver recs' hv, loaddat_order ver recs recs' hp hnd hfit db hdb⟩

/-- non-vacuity: two records in both orders -/
example : [(1, newRec [1] 0), (2, newRec [] 1)].Perm [(2, newRec [] 1), (1, newRec [1] 0)] ∧
    ([(1, newRec [1] 0), (2, newRec [] 1)].map (·.1)).Nodup := ⟨List.Perm.swap _ _ _, by decide⟩

/-- non-vacuity of writedatfile_first_write_observation: a store whose index has 43 690 records and then the record with
    key (1 << 32) | 0xFFFFFFFF (VersionSequence 0 → 1) and datpos 0x494E4946, followed by one more record -/
example : ∃ (db : DB) (pre post : List (Key × Rec)) (r : Rec),
    db.index = pre ++ (u32 (db.verSeq + 1) * 2^32 + 0xFFFFFFFF, r) :: post ∧ pre.length = 43690 ∧ r.pos = 0x494E4946 ∧
    post.length = 1 :=
  ⟨{ fs := {}, index := List.replicate 43690 (0, { data := none, seq := 1, pos := 4, len := 0, flags := 0 }) ++
       (u32 (0 + 1) * 2^32 + 0xFFFFFFFF, { data := none, seq := 1, pos := 0x494E4946, len := 0, flags := 0 }) ::
       [(7, { data := none, seq := 1, pos := 4, len := 0, flags := 0 })] },
   List.replicate 43690 (0, { data := none, seq := 1, pos := 4, len := 0, flags := 0 }),
   [(7, { data := none, seq := 1, pos := 4, len := 0, flags := 0 })],
   { data := none, seq := 1, pos := 0x494E4946, len := 0, flags := 0 }, rfl, List.length_replicate, rfl, rfl⟩

/-- CRASH-FREE HISTORIES AGAINST THE PLAIN MAP (corollary of qdb_refines_map + qdb_durable; no ghost in the conclusion).
    For every sequence `ops` of operations of the whole language (any 32-bit flags, NO_CACHE and BR_ABORT included,
    Close + NewDBExt in any mode with any LoadData), started by NewDBExt(non-volatile) on an empty directory (bounds
    `HFits` as before): the store does not fail, Get of every key does not fail and returns exactly what the same
    sequence leaves in an in-memory map — `vrun`: Put / PutExt set the key, Del removes it, nothing else changes a
    value; it is the value part of the list-level map `mrun` with `mstep` — and Count is the number of keys of that map. -/
theorem qdb_is_map_crash_free (load : Bool) (opts : Opts) (ops : List Op)
    (ok : ∀ o ∈ ops, OpOK5 o) (fits : HFits (openDB {} false load opts true) (twin (ops.map HItem.op))) :
    let a := run (openDB {} false load opts) ops
    a.failed = none ∧
    (∀ k, (Qdb.get a k).1.failed = none ∧ (Qdb.get a k).2 = vrun (fun _ => none) ops k) ∧
    (∀ k, mget (mrun [] ops) k = vrun (fun _ => none) ops k) ∧
    (∃ ks : List Key, ks.Nodup ∧ (∀ k, k ∈ ks ↔ (vrun (fun _ => none) ops k).isSome = true) ∧ count a = ks.length) ∧
    count a = mcount (mrun [] ops) := by
  intro a
  have okH : ∀ i ∈ ops.map HItem.op, HOK5 i := by
    intro i hi
    obtain ⟨o, ho, rfl⟩ := List.mem_map.mp hi
    exact ok o ho
  obtain ⟨r1, _, _, r4, _, _, ks, k1, k2, k3⟩ := qdb_refines_map load opts (ops.map HItem.op) okH fits
  obtain ⟨_, d2, _⟩ := qdb_durable load opts (ops.map HItem.op) okH fits
  rw [hrun_ops] at r1 r4 k3
  have hv : vals (hrun (openDB {} false load opts true) (twin (ops.map HItem.op))) = vrun (fun _ => none) ops := by
    rw [twin_ops] at d2 ⊢
    rw [durOK_crashfree _ _ _ _ _ _ d2, vrun_twinOp]
  rw [hv] at r4 k2
  obtain ⟨mnd, mv⟩ := mrun_vals ops [] (by simp [Keys])
  have mv' : ∀ k, mget (mrun [] ops) k = vrun (fun _ => none) ops k := mv
  refine ⟨r1, r4, mv', ⟨ks, k1, k2, k3⟩, ?_⟩
  -- Count against the list-level map: the ghost's index and `mrun [] ops` have distinct keys and the same key set
  obtain ⟨_, _, _, _, _, r6, _⟩ := qdb_refines_map load opts (ops.map HItem.op) okH fits
  rw [hrun_ops] at r6
  have hok : ∀ i ∈ twin (ops.map HItem.op), HOK (openDB {} false load opts true).eager i := by
    rw [openDB_eager]; exact hok_twin _ okH
  obtain ⟨h3, _⟩ := hrun_dur (twin (ops.map HItem.op)) _ (Or.inl (fresh_inv3 (eg := true) load opts)) hok fits
  rw [r6]
  unfold count mcount
  apply length_eq_of_same_keys _ _ h3.nodup mnd
  intro k
  have h1 : vals (hrun (openDB {} false load opts true) (twin (ops.map HItem.op))) k = vrun (fun _ => none) ops k := by
    rw [hv]
  rw [vals_eq] at h1
  have h2 := mv' k
  unfold mget at h2
  have e1 : (ilookup k (hrun (openDB {} false load opts true) (twin (ops.map HItem.op))).index).isSome =
      (vrun (fun _ => none) ops k).isSome := by rw [← h1]; simp
  have e2 : (ilookup k (mrun [] ops)).isSome = (vrun (fun _ => none) ops k).isSome := by rw [← h2]; simp
  rw [e1, e2]

/-- non-vacuity of qdb_is_map_crash_free: NO_CACHE put, sync, lazy reopen, flag change, aborting Browse, overwrite,
    forced defrag, a volatile lazy session -/
example :
    let ops := [Op.putExt 1 [1, 2] NO_CACHE, .put 2 [5], .sync, .get 1, .reopen false false { maxPending := 0 },
                .applyFlags 2 NO_CACHE, .browse [(2, 7), (1, NO_CACHE)], .put 2 [6, 6], .defrag true, .reopen true false {},
                .put 1 [8], .del 2, .reopen false true {}]
    (∀ o ∈ ops, OpOK5 o) ∧ HFits (openDB {} false true {} true) (twin (ops.map HItem.op)) := by
  refine ⟨?_, ?_⟩
  · intro o ho
    simp only [List.mem_cons, List.not_mem_nil, or_false] at ho
    rcases ho with rfl | rfl | rfl | rfl | rfl | rfl | rfl | rfl | rfl | rfl | rfl | rfl | rfl <;>
      simp [OpOK5, WalkOK5, NO_CACHE]
  · show HFits (openDB {} false true {} true)
      [HItem.op (.putExt 1 [1, 2] NO_CACHE), .op (.put 2 [5]), .op .sync, .op (.get 1),
       .op (.reopen false true { maxPending := 0 }), .op (.applyFlags 2 NO_CACHE), .op (.browse [(2, 7), (1, NO_CACHE)]),
       .op (.put 2 [6, 6]), .op (.defrag true), .op (.reopen true true {}), .op (.put 1 [8]), .op (.del 2),
       .op (.reopen false true {})]
    simp only [HFits, OpFits3, OpFits, SizeOK, dFits_iff]
    decide

/-- A BROWSE AND WHAT FOLLOWS IT, FOR THE REAL STORE (qdb_browse_abort_applies_answer speaks about the ghost's state; this
    is the same fact observed on the real store). After any history H as in qdb_refines_map, run Browse with ANY walk
    function `w` (32-bit answers, BR_ABORT included; bounds `HFits` for H followed by that Browse). Then the real store has
    not failed after the Browse, and from then on it answers as the in-memory map `mbrowseState (absv g) w` — the map
    before the Browse in which exactly the VISITED entries, the aborting one included, got the walk function's answer
    applied to their flag word: every later Browse (any walk function `w'`) shows `mbrowseOutW w'` of that map, and Get
    returns its values (unchanged by the Browse). -/
theorem qdb_browse_then_observe (load : Bool) (opts : Opts) (H : List HItem) (w : List (Key × Nat))
    (ok : ∀ i ∈ H ++ [HItem.op (.browse w)], HOK5 i)
    (fits : HFits (openDB {} false load opts true) (twin (H ++ [HItem.op (.browse w)])))
    (w' : List (Key × Nat)) (hw' : WalkOK5 w') :
    let a := hrun (openDB {} false load opts) H
    let g := hrun (openDB {} false load opts true) (twin H)
    (browse a w).1.failed = none ∧
    (browse (browse a w).1 w').2 = mbrowseOutW w' (mbrowseState (absv g) w) ∧
    (∀ k, (Qdb.get (browse a w).1 k).1.failed = none ∧ (Qdb.get (browse a w).1 k).2 = vals g k) := by
  intro a g
  have hw : WalkOK5 w := ok (.op (.browse w)) (List.mem_append_right _ List.mem_cons_self)
  have okH : ∀ i ∈ H, HOK5 i := fun i hi => ok i (List.mem_append_left _ hi)
  have htw : twin (H ++ [HItem.op (.browse w)]) = twin H ++ [HItem.op (.browse w)] := by
    unfold twin; rw [List.map_append]; rfl
  have fitsH : HFits (openDB {} false load opts true) (twin H) := by
    rw [htw] at fits
    exact (hfits_append _ _ _ fits).1
  have ea : hrun (openDB {} false load opts) (H ++ [HItem.op (.browse w)]) = (browse a w).1 := by
    rw [hrun_append]; rfl
  have eg : hrun (openDB {} false load opts true) (twin (H ++ [HItem.op (.browse w)])) = (browse g w).1 := by
    rw [htw, hrun_append]; rfl
  obtain ⟨r1, _, _, r4, _⟩ := qdb_refines_map load opts _ ok fits
  obtain ⟨b1, _⟩ := qdb_browse_is_map load opts _ ok fits w' hw'
  obtain ⟨s1, _⟩ := qdb_browse_abort_applies_answer load opts H okH fitsH w hw
  rw [ea] at r1 r4 b1
  rw [eg] at r4 b1
  refine ⟨r1, ?_, fun k => ?_⟩
  · rw [b1, s1]
  · obtain ⟨u1, u2⟩ := r4 k
    refine ⟨u1, u2.trans ?_⟩
    show mget (absv (browse g w).1) k = mget (absv g) k
    rw [s1]
    exact mget_mbrowseState _ w k

/-- A FLAG CHANGE TOUCHES MEMORY ONLY. ApplyFlags, Browse / BrowseAll (whatever the walk function answers) and Get (which
    clears NO_CACHE: YES_CACHE) perform no file operation and mark nothing pending: directory, effect list and
    PendingRecords are exactly as before, for every state of the store. So a later sync() writes no index entry for the
    record unless a Put made the key pending; only a defrag — which rewrites every record — persists the new flag word. -/
theorem flag_change_touches_memory_only (db : DB) (k : Key) (fl : Nat) (w : List (Key × Nat)) :
    ((applyFlags db k fl).fs = db.fs ∧ (applyFlags db k fl).effs = db.effs ∧ (applyFlags db k fl).pending = db.pending) ∧
    ((browse db w).1.fs = db.fs ∧ (browse db w).1.effs = db.effs ∧ (browse db w).1.pending = db.pending) ∧
    ((browseAll db w).1.fs = db.fs ∧ (browseAll db w).1.effs = db.effs ∧ (browseAll db w).1.pending = db.pending) ∧
    ((Qdb.get db k).1.fs = db.fs ∧ (Qdb.get db k).1.effs = db.effs ∧ (Qdb.get db k).1.pending = db.pending) :=
  ⟨applyFlags_keeps db k fl, browseGen_keeps false db w, browseGen_keeps true db w, get_keeps db k⟩

/-- THE FLAG WORD AFTER NewDBExt IS THE PERSISTED ONE. For EVERY directory `F`, every mode, every LoadData and all options:
    when NewDBExt does not fail, every record it holds carries exactly the flag word of the key's newest index entry on
    disk — `diskIndex F`: the records of the newest valid snapshot (written by the last defrag), overridden by the
    entries of the index log (written by sync() for the keys that were pending) — and a key without such an entry is
    absent. Together with flag_change_touches_memory_only: flag word after a reopen = flag word at the record's last
    persist. (That NewDBExt does not fail after any history: qdb_refines_map, crash_directory_reopen.) -/
theorem flags_after_open_are_the_persisted_flags (F : FS) (vol load : Bool) (opts : Opts)
    (h : (openDB F vol load opts).failed = none) (k : Key) :
    (ilookup k (openDB F vol load opts).index).map (·.flags) = (ilookup k (diskIndex F)).map (·.flags) :=
  open_flags (eg := false) F vol load opts h k

/-- non-vacuity of flags_after_open_are_the_persisted_flags: the directory left by PutExt(1, NO_BROWSE), Sync,
    ApplyFlags(1, YES_BROWSE), Close opens without failure, lazily too -/
example :
    let F := (run (openDB {} false true {}) [.putExt 1 [0xaa] NO_BROWSE, .sync, .applyFlags 1 YES_BROWSE, .reopen false true {}]).fs
    (openDB F false false {}).failed = none ∧ (openDB F true true {}).failed = none := by decide

/-- KNOWN FINDING flag-change-not-durable — the property's first sentence ("any sequence of put, …, flag changes, sync, …,
    close and reopen … is indistinguishable from the same sequence on an in-memory map") is FALSE of the unchanged code for
    browsing flags across Close + NewDBExt. Two witnesses, both inside the operation language and the bounds of
    qdb_refines_map (`OpOK5`, `HFits`), replayed on the real package by the harness (corpus flag-change-not-durable-hide /
    -show), `mrun` being the in-memory map with flags (`mstep`: a reopen changes nothing):
    (hide) Put(1, aa); Sync; ApplyFlags(1, NO_BROWSE); Sync — up to here store and map agree: Browse shows nothing —
           then Close + NewDBExt: Browse of the store shows key 1 again, the map still hides it;
    (show) PutExt(1, aa, NO_BROWSE); Sync; ApplyFlags(1, YES_BROWSE); Sync — both show key 1 — then Close + NewDBExt: the
           store hides key 1 again, the map shows it.
    Values are not affected (Get = the map's value in both). Cause: flag_change_touches_memory_only — the explicit Sync
    after the flag change has nothing pending and writes nothing; rule: flags_after_open_are_the_persisted_flags. -/
theorem flag_change_not_durable_counterexample :
    let hide := [Op.put 1 [0xaa], .sync, .applyFlags 1 NO_BROWSE, .sync, .reopen false true {}]
    let shw := [Op.putExt 1 [0xaa] NO_BROWSE, .sync, .applyFlags 1 YES_BROWSE, .sync, .reopen false true {}]
    let db0 := openDB {} false true {}
    -- before the reopen the store is the map
    (browse (run db0 (hide.take 4)) []).2 = mbrowseOut (mrun [] (hide.take 4)) ∧
    (browse (run db0 (shw.take 4)) []).2 = mbrowseOut (mrun [] (shw.take 4)) ∧
    -- after it, it is not
    (browse (run db0 hide) []).2 = [(1, [0xaa])] ∧ mbrowseOut (mrun [] hide) = [] ∧
    (browse (run db0 shw) []).2 = [] ∧ mbrowseOut (mrun [] shw) = [(1, [0xaa])] ∧
    -- values agree
    (Qdb.get (run db0 hide) 1).2 = mget (mrun [] hide) 1 ∧ (Qdb.get (run db0 shw) 1).2 = mget (mrun [] shw) 1 ∧
    -- the second Sync had nothing to write
    (run db0 (hide.take 4)).fs = (run db0 (hide.take 2)).fs ∧
    -- both histories are histories of the central theorems
    (∀ o ∈ hide ++ shw, OpOK5 o) ∧
    HFits (openDB {} false true {} true) (twin (hide.map HItem.op)) ∧
    HFits (openDB {} false true {} true) (twin (shw.map HItem.op)) := by
  refine ⟨by decide, by decide, by decide, by decide, by decide, by decide, by decide, by decide, by decide, ?_, ?_, ?_⟩
  · intro o ho
    simp only [List.cons_append, List.nil_append, List.mem_cons, List.not_mem_nil, or_false] at ho
    rcases ho with rfl | rfl | rfl | rfl | rfl | rfl | rfl | rfl | rfl | rfl <;>
      simp [OpOK5, NO_BROWSE, YES_BROWSE]
  · show HFits (openDB {} false true {} true)
      [HItem.op (.put 1 [0xaa]), .op .sync, .op (.applyFlags 1 NO_BROWSE), .op .sync, .op (.reopen false true {})]
    simp only [HFits, OpFits3, OpFits, SizeOK, dFits_iff]
    decide
  · show HFits (openDB {} false true {} true)
      [HItem.op (.putExt 1 [0xaa] NO_BROWSE), .op .sync, .op (.applyFlags 1 YES_BROWSE), .op .sync, .op (.reopen false true {})]
    simp only [HFits, OpFits3, OpFits, SizeOK, dFits_iff]
    decide

-- OPEN (outside the statements above, see the manifest): (i) index snapshots larger than the 1 MiB bufio buffer, i.e.
--   more than 43 690 records (`DFits.small` — a stated bound of qdb_refines_map / qdb_durable; beyond it the property is
--   false in principle under the exact condition of snapshot_cut_at_buffer_boundary_observation; the data file has no
--   such bound: defrag's data writer is analysed for any number of chunks); (ii) browsing flags across Close + NewDBExt are NOT those
--   of an in-memory map: KNOWN FINDING flag_change_not_durable_counterexample; what they are instead is proved
--   (flags_after_open_are_the_persisted_flags + flag_change_touches_memory_only), and qdb_browse_is_map speaks about the
--   flag word the ghost — i.e. the store — holds; (iii) BrowseAll (in the model, the oracle and the harness — `browseall <walk>`,
--   `peek` — with the lemmas of Proofs/C19* stated for Browse and BrowseAll alike, but not an `Op` of the theorems),
--   GetNoMutex, Flush and the WalkFunction of NewDBExt are outside the theorems' operation language (BR_ABORT is inside:
--   `WalkOK5` is any 32-bit word, the order of the walk list stands for Go's map order); (iv) the completing NewDBExt of a crash
--   item loads the data (`hstep .crash` passes LoadData = true; recovery attempts that themselves die, `recrash`, are
--   non-volatile NewDBExt calls — the file operations of NewDBExt depend neither on the mode nor on LoadData); a
--   NewDBExt with any LoadData on the directory of a completed history is durable_map_is_reopen, on a raw crash directory
--   crash_directory_reopen; (v) the crash model is PROCESS KILL AT SYSTEM-CALL BOUNDARIES: every
--   completed file operation survives entirely, an interrupted one has not happened. A write(2) torn inside (SIGKILL
--   between two pages of a multi-page write, power loss, reordering by the file system) is outside it; (vi) Go's map
--   iteration order is the list order of the model (one of the n! write orders of every multi-record sync / defrag; for
--   the snapshot writer the order is proved irrelevant: snapshot_record_order_irrelevant).

/-- non-vacuity of reopen_after_close_identity_partial: a two-record store -/
example : IndexWF false [(1, (newRec [1, 2, 3] 0)), (2 ^ 64 - 1, (newRec [] NO_BROWSE))] := by
  refine ⟨?_, ?_, by decide, by decide⟩
  · intro kr h
    simp only [List.mem_cons, List.not_mem_nil, or_false] at h
    rcases h with rfl | rfl <;> exact ⟨rfl, by decide⟩
  · intro kr h
    simp only [List.mem_cons, List.not_mem_nil, or_false] at h
    rcases h with rfl | rfl <;> exact ⟨by decide, by decide, by decide⟩

end GocoinV.Props.C19
