/-
  Props.C08 — property theorems for C08 (secp256k1 field and group arithmetic equals the
  mathematical definition). Every theorem is about the GENERATED definitions of
  `GocoinV.Gen.Field5x52` (regenerated from lib/secp256k1/field_5x52.go on every run) — the same
  definitions the oracle executes and the harness compares limb-for-limb with the Go functions.
  `Fe.val a` is the integer the five limbs stand for, `Fe.mag a m` libsecp256k1's magnitude
  contract (limb i ≤ 2·m·(2^52−1), top limb ≤ 2·m·(2^48−1)), `P` the constant `TheCurve.p`.
-/
import GocoinV.Proofs.C08_Field
import GocoinV.Proofs.C08_Primes
import GocoinV.Proofs.C08_TabAll

namespace GocoinV.Props.C08
open GocoinV.C08 GocoinV.Gen.Field5x52 GocoinV.Gen

/-- `Field.SetAdd`: for ALL limb vectors within magnitudes m1, m2 (m1+m2 ≤ 32) no limb wraps around,
    the value of the result is exactly the sum of the values, and its magnitude is m1+m2. -/
theorem setAdd_spec (r a : Fe) (m1 m2 : Nat) (hr : r.mag m1) (ha : a.mag m2) (hm : m1 + m2 ≤ 32) :
    (setAdd r a).val = r.val + a.val ∧ (setAdd r a).mag (m1 + m2) :=
  setAdd_val r a m1 m2 hr ha hm

example : (setAdd ⟨1, 2, 3, 4, 5⟩ ⟨2^53, 0, 0, 0, 1⟩).val = (⟨1, 2, 3, 4, 5⟩ : Fe).val + (⟨2^53, 0, 0, 0, 1⟩ : Fe).val := by decide

/-- `Field.MulInt`: for ALL limb vectors of magnitude m and factors k with m·k ≤ 32 the value is
    multiplied by k exactly (no wrap-around) and the magnitude becomes m·k. -/
theorem mulInt_spec (r : Fe) (m k : Nat) (hr : r.mag m) (hm : m * k ≤ 32) :
    (mulInt r k).val = r.val * k ∧ (mulInt r k).mag (m * k) :=
  mulInt_val r m k hr hm

example : (mulInt ⟨2^52 - 1, 7, 0, 0, 2^48 - 1⟩ 8).val = (⟨2^52 - 1, 7, 0, 0, 2^48 - 1⟩ : Fe).val * 8 := by decide

/-- `Field.Negate(m)`: for ALL limb vectors of magnitude ≤ m (m ≤ 31) the subtraction
    2(m+1)·p_limb − a_limb never underflows, result + a = 2(m+1)·p exactly (so the result is −a mod p),
    and the result has magnitude m+1. -/
theorem negate_spec (a : Fe) (m : Nat) (ha : a.mag m) (hm : m ≤ 31) :
    (negate a m).val + a.val = 2 * (m + 1) * P ∧ (negate a m).mag (m + 1) :=
  negate_val a m ha hm

example : (negate ⟨5, 0, 0, 0, 0⟩ 1).val + 5 = 4 * P := by decide

/-- `Field.Normalize`: for ALL limb vectors of magnitude ≤ 32 (every limb ≤ 64·(2^52−1)) the result has
    canonical limbs (52/52/52/52/48 bits) and its value is exactly `value mod p` — in particular < p, also on
    the edge where the low 256 bits lie in [p, 2^256) (the `t0 ≥ 0xFFFFEFFFFFC2F` branch). -/
theorem normalize_spec (r : Fe) (h : r.mag 32) :
    (normalize r).val = r.val % P ∧ (normalize r).canon :=
  normalize_val r h

example : (normalize ⟨0xFFFFEFFFFFC2F, 0xFFFFFFFFFFFFF, 0xFFFFFFFFFFFFF, 0xFFFFFFFFFFFFF, 0xFFFFFFFFFFFF⟩).val = 0 := by decide

/-- The field characteristic written in `secp256k1.go` (`TheCurve.p`, regenerated) is prime
    (Pratt certificate through Mathlib's `lucas_primality`; powers evaluated in the kernel). -/
theorem p_prime : Nat.Prime P := by
  rw [P_eq]; exact secp_p_prime

/-- The group order written in `secp256k1.go` (`TheCurve.Order`, regenerated) is prime. -/
theorem n_prime : Nat.Prime CurveConsts.order := by
  have h : CurveConsts.order = 0xFFFFFFFFFFFFFFFFFFFFFFFFFFFFFFFEBAAEDCE6AF48A03BBFD25E8CD0364141 := by decide
  rw [h]; exact secp_n_prime

theorem pts_getD (l : List (List Nat)) (i : Nat) (hi : i < l.length) :
    (pts l).getD i none = ptOfLimbs (l.getD i []) := by
  simp [pts, List.getD_eq_getElem?_getD, hi]

/-- EVERY entry of the regenerated table `pre_g` (all 4096): entry i is `G + i·(2G)`, i.e. the odd multiple
    (2i+1)·G, computed with the reference affine group law `GocoinV.Secp` by repeated addition. -/
theorem preG_spec (i : Nat) (hi : i < 4096) :
    ptOfLimbs (Tables.preGAt i) = addSteps (Secp.dbl Secp.G) Secp.G i := by
  have hlen : Tables.preGAll.length = 4096 := by decide +kernel
  have hhead : (pts Tables.preGAll).head? = some Secp.G := by decide +kernel
  have := chain_spec (Secp.dbl Secp.G) Secp.G (pts Tables.preGAll) preG_chain hhead i
    (by simp [pts, hlen, hi])
  rw [pts_getD _ _ (by omega)] at this
  exact this

/-- EVERY entry of `pre_g_128` (all 4096): entry i is `2^128·G + i·(2·2^128·G)` = (2i+1)·2^128·G, where
    2^128·G is 128 reference doublings of G. -/
theorem preG128_spec (i : Nat) (hi : i < 4096) :
    ptOfLimbs (Tables.preG128At i) = addSteps (Secp.dbl g128) g128 i := by
  have hlen : Tables.preG128All.length = 4096 := by decide +kernel
  have hhead : (pts Tables.preG128All).head? = some g128 := by decide +kernel
  have := chain_spec (Secp.dbl g128) g128 (pts Tables.preG128All) preG128_chain hhead i
    (by simp [pts, hlen, hi])
  rw [pts_getD _ _ (by omega)] at this
  exact this

/-- The comb table `prec` (64 rows × 16, all 1024 entries): row 0 starts at G; inside a row every entry is
    the previous one plus the row's first entry B_j (so the row is B_j, 2B_j, …, 16B_j); row j+1 starts at the
    last entry of row j (B_{j+1} = 16·B_j); nothing is left over. Hence prec[j][i] = (i+1)·16^j·G. -/
theorem prec_spec : precRowsOK 64 Secp.G (pts Tables.precAll) = true := prec_rows

/-- `fin` is minus the sum of the 64 row bases, −Σ_j 16^j·G (the correction `ECmultGen` adds last). -/
theorem fin_spec : ptOfLimbs Tables.fin = Secp.neg (headsSum 64 (pts Tables.precAll) none) := fin_neg_sum

end GocoinV.Props.C08
