/-
  Props.C08 — property theorems for C08 (secp256k1 field and group arithmetic equals the
  mathematical definition). Every theorem is about the GENERATED definitions of
  `GocoinV.Gen.Field5x52` (regenerated from lib/secp256k1/field_5x52.go on every run) — the same
  definitions the oracle executes and the harness compares limb-for-limb with the Go functions.
  `Fe.val a` is the integer the five limbs stand for, `Fe.mag a m` libsecp256k1's magnitude
  contract (limb i ≤ 2·m·(2^52−1), top limb ≤ 2·m·(2^48−1)), `P` the constant `TheCurve.p`.
-/
import GocoinV.Proofs.C08_Field
import GocoinV.Proofs.C08_Bytes
import GocoinV.Proofs.C08_Primes
import GocoinV.Proofs.C08_TabAll
import GocoinV.Proofs.C08_Sqr
import GocoinV.Proofs.C08_MultGen
import GocoinV.Proofs.C08_Scalar
import GocoinV.Proofs.C08_MultGenFull
import GocoinV.Proofs.C08_Ecmult
import GocoinV.Proofs.C08_EcmultFull
import GocoinV.Proofs.C08_Lift
import GocoinV.Proofs.C08_Examples
import GocoinV.Proofs.C08_Api
import GocoinV.Proofs.C08_Hist

namespace GocoinV.Props.C08
open GocoinV.C08 GocoinV.Gen.Field5x52 GocoinV.Gen GocoinV.Proofs.C03

/-- `Field.SetAdd`: for ALL limb vectors within magnitudes m1, m2 (m1+m2 ≤ 32) no limb wraps around,
    the value of the result is exactly the sum of the values, and its magnitude is m1+m2. -/
theorem setAdd_spec (r a : Fe) (m1 m2 : Nat) (hr : r.mag m1) (ha : a.mag m2) (hm : m1 + m2 ≤ 32) :
    (setAdd r a).val = r.val + a.val ∧ (setAdd r a).mag (m1 + m2) :=
  setAdd_val r a m1 m2 hr ha hm

example : (setAdd ⟨1, 2, 3, 4, 5⟩ ⟨2^53, 0, 0, 0, 1⟩).val = (⟨1, 2, 3, 4, 5⟩ : Fe).val + (⟨2^53, 0, 0, 0, 1⟩ : Fe).val := by decide

/-- `Field.MulInt`: for ALL limb vectors of magnitude m and factors k with m·k ≤ 32 the value is
    multiplied by k exactly (no wrap-around) and the magnitude becomes m·k. -/
theorem mulInt_spec (r : Fe) (m k : Nat) (hr : r.mag m) (hm : m * k ≤ 32) :
    (mulInt r k).val = r.val * k ∧ (mulInt r k).mag (m * k) :=
  mulInt_val r m k hr hm

example : (mulInt ⟨2^52 - 1, 7, 0, 0, 2^48 - 1⟩ 8).val = (⟨2^52 - 1, 7, 0, 0, 2^48 - 1⟩ : Fe).val * 8 := by decide

/-- `Field.Negate(m)`: for ALL limb vectors of magnitude ≤ m (m ≤ 31) the subtraction
    2(m+1)·p_limb − a_limb never underflows, result + a = 2(m+1)·p exactly (so the result is −a mod p),
    and the result has magnitude m+1. -/
theorem negate_spec (a : Fe) (m : Nat) (ha : a.mag m) (hm : m ≤ 31) :
    (negate a m).val + a.val = 2 * (m + 1) * P ∧ (negate a m).mag (m + 1) :=
  negate_val a m ha hm

example : (negate ⟨5, 0, 0, 0, 0⟩ 1).val + 5 = 4 * P := by decide

/-- `Field.Normalize`: for ALL limb vectors of magnitude ≤ 32 (every limb ≤ 64·(2^52−1)) the result has
    canonical limbs (52/52/52/52/48 bits) and its value is exactly `value mod p` — in particular < p, also on
    the edge where the low 256 bits lie in [p, 2^256) (the `t0 ≥ 0xFFFFEFFFFFC2F` branch). -/
theorem normalize_spec (r : Fe) (h : r.mag 32) :
    (normalize r).val = r.val % P ∧ (normalize r).canon :=
  normalize_val r h

example : (normalize ⟨0xFFFFEFFFFFC2F, 0xFFFFFFFFFFFFF, 0xFFFFFFFFFFFFF, 0xFFFFFFFFFFFFF, 0xFFFFFFFFFFFF⟩).val = 0 := by decide

/-- `Field.Mul` (generated from field_5x52.go, bits.Mul64/Add64 pairs as written): for ALL limb vectors of
    magnitude ≤ 8 (libsecp256k1's contract for mul) none of the 128-bit accumulators `(hi, lo)` overflows,
    the value of the result is congruent to the product of the values modulo p, and the result has
    magnitude 1 (limbs 0–3 below 2^52, top limb at most 2·(2^48−1)). -/
theorem mul_spec (a b : Fe) (ha : a.mag 8) (hb : b.mag 8) :
    (mul a b).val % P = a.val * b.val % P ∧ (mul a b).mag 1 :=
  mul_val a b ha hb

example : (mul ⟨2^56 - 16, 2^56 - 16, 2^56 - 16, 2^56 - 16, 2^52 - 16⟩ ⟨2^56 - 16, 2^56 - 16, 2^56 - 16, 2^56 - 16, 2^52 - 16⟩).val % P
    = (⟨2^56 - 16, 2^56 - 16, 2^56 - 16, 2^56 - 16, 2^52 - 16⟩ : Fe).val * (⟨2^56 - 16, 2^56 - 16, 2^56 - 16, 2^56 - 16, 2^52 - 16⟩ : Fe).val % P := by
  decide

/-- `Field.Sqr` (generated): for ALL limb vectors of magnitude ≤ 8 no accumulator overflows, the value of
    the result is congruent to the square of the value modulo p, and the result has magnitude 1. -/
theorem sqr_spec (a : Fe) (ha : a.mag 8) :
    (sqr a).val % P = a.val * a.val % P ∧ (sqr a).mag 1 :=
  sqr_val a ha

example : (sqr ⟨2^56 - 16, 7, 2^56 - 16, 0, 2^52 - 16⟩).val % P
    = (⟨2^56 - 16, 7, 2^56 - 16, 0, 2^52 - 16⟩ : Fe).val * (⟨2^56 - 16, 7, 2^56 - 16, 0, 2^52 - 16⟩ : Fe).val % P := by
  decide

/-- `Field.SetB32`: for ALL 32-byte inputs the limbs are canonical and their value is the big-endian
    integer of the bytes (`a i` is byte i of the slice). -/
theorem setB32_spec (a : Nat → Nat) (h : ∀ i, a i < 256) :
    (setB32 a).val = a 31 + a 30 * 2^8 + a 29 * 2^16 + a 28 * 2^24 + a 27 * 2^32 + a 26 * 2^40 + a 25 * 2^48
      + a 24 * 2^56 + a 23 * 2^64 + a 22 * 2^72 + a 21 * 2^80 + a 20 * 2^88 + a 19 * 2^96 + a 18 * 2^104
      + a 17 * 2^112 + a 16 * 2^120 + a 15 * 2^128 + a 14 * 2^136 + a 13 * 2^144 + a 12 * 2^152 + a 11 * 2^160
      + a 10 * 2^168 + a 9 * 2^176 + a 8 * 2^184 + a 7 * 2^192 + a 6 * 2^200 + a 5 * 2^208 + a 4 * 2^216
      + a 3 * 2^224 + a 2 * 2^232 + a 1 * 2^240 + a 0 * 2^248 ∧ (setB32 a).canon :=
  setB32_val a h

example : (setB32 (fun i => if i = 31 then 7 else 0)).val = 7 := by decide

/-- Round trip bytes → limbs → bytes: `GetB32(SetB32(b)) = b` for ALL 32-byte strings. -/
theorem getB32_setB32 (a : Nat → Nat) (h : ∀ i, a i < 256) :
    getB32 (setB32 a) = [a 0, a 1, a 2, a 3, a 4, a 5, a 6, a 7, a 8, a 9, a 10, a 11, a 12, a 13, a 14, a 15, a 16, a 17, a 18, a 19, a 20, a 21, a 22, a 23, a 24, a 25, a 26, a 27, a 28, a 29, a 30, a 31] :=
  getB32_setB32' a h

/-- Round trip limbs → bytes → limbs: `SetB32(GetB32(a)) = a` for ALL canonical limb vectors
    (`bytesFn l` is the index function of the byte list). -/
theorem setB32_getB32 (a : Fe) (h : a.canon) : setB32 (bytesFn (getB32 a)) = a :=
  setB32_getB32' a h

example : setB32 (bytesFn (getB32 ⟨5, 6, 7, 8, 9⟩)) = ⟨5, 6, 7, 8, 9⟩ := by decide

/-- `Field.Equals` is equality of the limb vectors; on normalised elements (canonical limbs) that is
    equality of values (`canon_val_inj`). -/
theorem equals_iff (a b : Fe) : equals a b = true ↔ a = b := equals_iff' a b

/-- two elements with canonical limbs and the same value are the same limb vector -/
theorem canonical_unique (a b : Fe) (ha : a.canon) (hb : b.canon) (h : a.val = b.val) : a = b :=
  canon_val_inj a b ha hb h

/-- `Field.IsZero` holds exactly for the all-zero limb vector, i.e. value 0 (callers normalise first). -/
theorem isZero_iff (a : Fe) : isZero a = true ↔ a.val = 0 := isZero_iff' a

/-- `Field.IsOdd` is the parity of the value of the limb vector (callers normalise first). -/
theorem isOdd_iff (a : Fe) : isOdd a = true ↔ a.val % 2 = 1 := isOdd_iff' a

/-- The field characteristic written in `secp256k1.go` (`TheCurve.p`, regenerated) is prime
    (Pratt certificate through Mathlib's `lucas_primality`; powers evaluated in the kernel). -/
theorem p_prime : Nat.Prime P := by
  rw [P_eq]; exact secp_p_prime

/-- The group order written in `secp256k1.go` (`TheCurve.Order`, regenerated) is prime. -/
theorem n_prime : Nat.Prime CurveConsts.order := by
  have h : CurveConsts.order = 0xFFFFFFFFFFFFFFFFFFFFFFFFFFFFFFFEBAAEDCE6AF48A03BBFD25E8CD0364141 := by decide
  rw [h]; exact secp_n_prime

/-- EVERY entry of the regenerated table `pre_g` (all 4096): entry i is `G + i·(2G)`, i.e. the odd multiple
    (2i+1)·G, computed with the reference affine group law `GocoinV.Secp` by repeated addition. -/
theorem preG_spec (i : Nat) (hi : i < 4096) :
    ptOfLimbs (Tables.preGAt i) = addSteps (Secp.dbl Secp.G) Secp.G i := by
  have hlen : Tables.preGAll.length = 4096 := by decide +kernel
  have hhead : (pts Tables.preGAll).head? = some Secp.G := by decide +kernel
  have := chain_spec (Secp.dbl Secp.G) Secp.G (pts Tables.preGAll) preG_chain hhead i
    (by simp [pts, hlen, hi])
  rw [pts_getD _ _ (by omega)] at this
  exact this

/-- EVERY entry of `pre_g_128` (all 4096): entry i is `2^128·G + i·(2·2^128·G)` = (2i+1)·2^128·G, where
    2^128·G is 128 reference doublings of G. -/
theorem preG128_spec (i : Nat) (hi : i < 4096) :
    ptOfLimbs (Tables.preG128At i) = addSteps (Secp.dbl g128) g128 i := by
  have hlen : Tables.preG128All.length = 4096 := by decide +kernel
  have hhead : (pts Tables.preG128All).head? = some g128 := by decide +kernel
  have := chain_spec (Secp.dbl g128) g128 (pts Tables.preG128All) preG128_chain hhead i
    (by simp [pts, hlen, hi])
  rw [pts_getD _ _ (by omega)] at this
  exact this

/-- The comb table `prec` (64 rows × 16, all 1024 entries): row 0 starts at G; inside a row every entry is
    the previous one plus the row's first entry B_j (so the row is B_j, 2B_j, …, 16B_j); row j+1 starts at the
    last entry of row j (B_{j+1} = 16·B_j); nothing is left over. Hence prec[j][i] = (i+1)·16^j·G. -/
theorem prec_spec : precRowsOK 64 Secp.G (pts Tables.precAll) = true := prec_rows

/-- `fin` is minus the sum of the 64 row bases, −Σ_j 16^j·G (the correction `ECmultGen` adds last). -/
theorem fin_spec : ptOfLimbs Tables.fin = Secp.neg (headsSum 64 (pts Tables.precAll) none) := fin_neg_sum

/-! ### the field F_p = ZMod P, `Fe.z a` = residue of the value, `FeS a m v` = "magnitude ≤ m and residue v" -/

/-- `Field.Inv` (addition chain of field.go over the generated Mul/Sqr): for ALL inputs of magnitude ≤ 8 the
    result is the inverse in F_p (0 ↦ 0; it is a^(p−2), exponent bookkeeping checked link by link), magnitude 1. -/
theorem inv_spec (a : Fe) (m : Nat) (ha : a.mag m) (hm : m ≤ 8) : FeS (inv a) 1 (a.z)⁻¹ := inv_S a m ha hm

/-- `Field.Sqrt`: for ALL inputs of magnitude ≤ 8 the result is a^((p+1)/4) in F_p, magnitude 1; … -/
theorem sqrt_spec (a : Fe) (m : Nat) (ha : a.mag m) (hm : m ≤ 8) : FeS (sqrt a) 1 (a.z ^ ((P + 1) / 4)) :=
  sqrt_pow a m ha hm

/-- … and whenever the input is a square r² in F_p, `Sqrt(a)`² = a. -/
theorem sqrt_is_root (a : Fe) (m : Nat) (ha : a.mag m) (hm : m ≤ 8) (r : F) (hr : r * r = a.z) :
    (sqrt a).z * (sqrt a).z = a.z := by
  rw [(sqrt_pow a m ha hm).2]; exact sqrt_sq a.z r hr

example : ∃ r : F, r * r = (setInt 4).z := ⟨2, by rw [(FeS.ofInt 4 (by decide)).2]; norm_num⟩

/-- `XYZ.Double` (Model.Group over the generated limb functions) against the reference affine law `Secp.dbl`
    under (X,Y,Z) ↦ (X/Z², Y/Z³): for EVERY input within the group-layer INPUT contract `XYZ.ok` = everything the Go
    functions admit (X, Y, Z each of magnitude ≤ 8, the contract of the Mul/Sqr every coordinate is handed to —
    non-normalised operands such as value + 15·p included —, Z ≠ 0 for finite points) the result is within the contract
    and stands for the double; ∞ ↦ ∞ and points with y = 0 ↦ ∞. -/
theorem double_correct (a : XYZ) (h : a.ok) :
    (XYZ.double a).ok ∧ (XYZ.double a).toPoint = Secp.dbl a.toPoint := double_ok a h

/-- `XYZ.Double` over its FULL input contract (Y is only normalised: any magnitude ≤ 32), with the OUTPUT contract:
    the result is the input with Infinity set, or a finite point with X ≤ 6, Y ≤ 4, Z ≤ 2 (`XYZ.okOut`). -/
theorem double_correct_full (a : XYZ) (hx : a.x.mag 8) (hy : a.y.mag 32) (hz : a.z.mag 8) (hz0 : a.inf = false → a.z.z ≠ 0) :
    (XYZ.double a = { a with inf := true } ∨ (XYZ.double a).okOut) ∧ (XYZ.double a).toPoint = Secp.dbl a.toPoint :=
  double_full a hx hy hz hz0

example : (⟨setInt 1, setInt 2, setInt 1, false⟩ : XYZ).x.mag 8 ∧ (⟨setInt 1, setInt 2, setInt 1, false⟩ : XYZ).y.mag 32 := by decide

/-- `XYZ.Add` (Jacobian + Jacobian) is the reference addition `Secp.add`, for EVERY pair of inputs within the
    contract: ∞ + Q = Q, P + ∞ = P, equal affine x and equal y → `Double`, equal x and different y (P + (−P)) → ∞,
    otherwise the chord formula; the result is again within the contract. -/
theorem add_correct (a b : XYZ) (ha : a.ok) (hb : b.ok) :
    (XYZ.add a b).ok ∧ (XYZ.add a b).toPoint = Secp.add a.toPoint b.toPoint := add_ok a b ha hb

/-- `XYZ.AddXY` (Jacobian + affine), same statement; affine contract `XY.ok` = both coordinates magnitude ≤ 8
    (b.X and b.Y are handed to Mul). -/
theorem addXY_correct (a : XYZ) (b : XY) (ha : a.ok) (hb : b.ok) :
    (XYZ.addXY a b).ok ∧ (XYZ.addXY a b).toPoint = Secp.add a.toPoint b.toPoint := addXY_ok a b ha hb

/-! Finite, kernel-checked instances of `add_correct` / `addXY_correct` (hypotheses discharged, reference side evaluated):
    `gJ` = SetXY(pre_g[0]) stands for G, `g3J` = SetXY(pre_g[1]) for 3·G (limbs of the embedded table, Z = 1),
    `XYZ.neg gJ` for −G, `infJ` = gJ with the Infinity flag. -/

/-- distinct points (chord): G + 3G is the finite point 4·G -/
example : (XYZ.add gJ g3J).ok ∧ (XYZ.add gJ g3J).toPoint = Secp.mul 4 Secp.G ∧ Secp.mul 4 Secp.G ≠ none := by
  have h := add_correct gJ g3J gJ_Rp.1 g3J_Rp.1
  rw [gJ_toPoint, g3J_toPoint, ref_G_add_3G.1] at h
  exact ⟨h.1, h.2, ref_G_add_3G.2.1⟩
/-- doubling inside Add: G + G = 2·G (finite) -/
example : (XYZ.add gJ gJ).ok ∧ (XYZ.add gJ gJ).toPoint = Secp.mul 2 Secp.G ∧ Secp.mul 2 Secp.G ≠ none := by
  have h := add_correct gJ gJ gJ_Rp.1 gJ_Rp.1
  rw [gJ_toPoint, ref_G_add_G.1, ref_G_add_G.2.1] at h
  exact ⟨h.1, h.2, ref_G_add_G.2.2⟩
/-- inverse: G + (−G) = ∞ -/
example : (XYZ.add gJ (XYZ.neg gJ)).ok ∧ (XYZ.add gJ (XYZ.neg gJ)).toPoint = none := by
  have hn := neg_ok gJ gJ_Rp.1
  have h := add_correct gJ (XYZ.neg gJ) gJ_Rp.1 hn.1
  rw [hn.2, gJ_toPoint, ref_G_add_negG.1] at h
  exact h
/-- ∞ + G = G and G + ∞ = G -/
example : (XYZ.add infJ gJ).toPoint = Secp.G ∧ (XYZ.add gJ infJ).toPoint = Secp.G := by
  have h1 := (add_correct infJ gJ infJ_Rp.1 gJ_Rp.1).2
  have h2 := (add_correct gJ infJ gJ_Rp.1 infJ_Rp.1).2
  rw [infJ_Rp.2, gJ_toPoint] at h1 h2
  exact ⟨h1, h2⟩
/-- ∞ + ∞ = ∞ -/
example : (XYZ.add infJ infJ).toPoint = none := by
  have h := (add_correct infJ infJ infJ_Rp.1 infJ_Rp.1).2
  rwa [infJ_Rp.2] at h

/-- AddXY, distinct points: G + 3G (affine table entry pre_g[1]) = 4·G -/
example : (XYZ.addXY gJ (preGXY 1)).ok ∧ (XYZ.addXY gJ (preGXY 1)).toPoint = Secp.mul 4 Secp.G := by
  have h := addXY_correct gJ (preGXY 1) gJ_Rp.1 preGXY1_RpA.1
  rw [gJ_toPoint, preGXY1_RpA.2, ← mul_G, ref_G_add_3G.1] at h
  exact h
/-- AddXY, doubling case: G + G (affine pre_g[0]) = 2·G -/
example : (XYZ.addXY gJ (preGXY 0)).ok ∧ (XYZ.addXY gJ (preGXY 0)).toPoint = Secp.mul 2 Secp.G := by
  have h := addXY_correct gJ (preGXY 0) gJ_Rp.1 preGXY0_RpA.1
  rw [gJ_toPoint, preGXY0_RpA.2, show Gc.1 = Secp.G from rfl, ref_G_add_G.1, ref_G_add_G.2.1] at h
  exact h
/-- AddXY, inverse case: G + (−G) (affine, `XY.Neg` of pre_g[0]) = ∞ -/
example : (XYZ.addXY gJ (XY.neg (preGXY 0))).toPoint = none := by
  have hn := negXY_ok (preGXY 0) preGXY0_RpA.1
  have h := (addXY_correct gJ (XY.neg (preGXY 0)) gJ_Rp.1 hn.1).2
  rw [hn.2, gJ_toPoint, preGXY0_RpA.2, show Gc.1 = Secp.G from rfl, ref_G_add_negG.1] at h
  exact h
/-- AddXY, ∞ + G = G and G + (affine ∞) = G -/
example : (XYZ.addXY infJ (preGXY 0)).toPoint = Secp.G ∧
    (XYZ.addXY gJ { preGXY 0 with inf := true }).toPoint = Secp.G := by
  have h1 := (addXY_correct infJ (preGXY 0) infJ_Rp.1 preGXY0_RpA.1).2
  have h2 := (addXY_correct gJ { preGXY 0 with inf := true } gJ_Rp.1 preGXY0_RpA.1).2
  rw [infJ_Rp.2, preGXY0_RpA.2] at h1
  rw [gJ_toPoint, XY.toPoint_inf rfl] at h2
  exact ⟨h1, h2⟩
/-- Double on a finite on-curve operand: 2·G -/
example : (XYZ.double gJ).ok ∧ (XYZ.double gJ).toPoint = Secp.mul 2 Secp.G := by
  have h := double_correct gJ gJ_Rp.1
  rw [gJ_toPoint, ref_G_add_G.2.1] at h
  exact h

/-- `XYZ.Neg` over the FULL input contract of the Go function: X and Z are only copied (NO hypothesis on them), Y is
    normalised before `Negate(1)`, so EVERY Y within `Normalize`'s contract is admitted — magnitude ≤ 32, which
    contains every Y that Mul/Sqr accept (≤ 8) and every Y the library produces (≤ 4): X, Z and the Infinity flag
    are unchanged, the new Y has magnitude ≤ 2, and the triple stands for the negated point. (A `Negate(Y, m)`
    without the normalisation is wrong for Y of magnitude > m: this statement is what excludes it.) -/
theorem neg_correct (a : XYZ) (hy : a.y.mag 32) :
    (XYZ.neg a).x = a.x ∧ (XYZ.neg a).z = a.z ∧ (XYZ.neg a).inf = a.inf ∧ (XYZ.neg a).y.mag 2 ∧
    (XYZ.neg a).toPoint = Secp.neg a.toPoint := neg_full a hy

example : (⟨setInt 1, ⟨64 * (2^52 - 1), 0, 0, 0, 64 * (2^48 - 1)⟩, setInt 1, false⟩ : XYZ).y.mag 32 := by decide

/-- corollary in contract form (what the `ECmult` loop uses): `XYZ.ok` is kept -/
theorem neg_keeps_contract (a : XYZ) (ha : a.ok) : (XYZ.neg a).ok ∧ (XYZ.neg a).toPoint = Secp.neg a.toPoint := neg_ok a ha

/-- `XY.Neg` (affine; `ECmult` applies it to pre_g / pre_g_128 entries) over its FULL input contract: X copied,
    any Y of magnitude ≤ 32. -/
theorem negXY_correct (b : XY) (hy : b.y.mag 32) :
    (XY.neg b).x = b.x ∧ (XY.neg b).inf = b.inf ∧ (XY.neg b).y.mag 2 ∧ (XY.neg b).toPoint = Secp.neg b.toPoint :=
  negXY_full b hy

theorem negXY_keeps_contract (b : XY) (hb : b.ok) : (XY.neg b).ok ∧ (XY.neg b).toPoint = Secp.neg b.toPoint := negXY_ok b hb

/-- `XYZ.SetXY` -/
theorem ofXY_correct (b : XY) (hb : b.ok) : (XYZ.ofXY b).ok ∧ (XYZ.ofXY b).toPoint = b.toPoint := ofXY_ok b hb

example : (XYZ.ofXY (precXY 0 0)).ok := (ofXY_ok _ (precXY_ok 0 0 (by decide))).1

/-- pointwise form of the comb table (corollary of `prec_spec`): prec[j][i] = B_j + i·B_j with B_0 = G,
    B_{j+1} = B_j + 15·B_j, all by repeated reference addition — i.e. (i+1)·16^j·G. -/
theorem prec_pointwise (j i : Nat) (hj : j < 64) (hi : i < 16) :
    ptOfLimbs (Tables.precAt (j * 16 + i)) = addSteps (precBase j) (precBase j) i := prec_pointwise' j i hj hi

/-- `ECmultGen(a)` for EVERY a, step 1: the result is within the contract and stands for the reference sum
    (…((T_0 + T_1) + T_2) + … + T_63) + fin of the table points T_j = prec[j][digit_j(a)] selected by the 64 hex
    digits of a (64 applications of `addXY_correct`, table entries within the affine contract by evaluation). -/
theorem ecmultGen_sum (a : Nat) : (ecmultGen a).ok ∧ (ecmultGen a).toPoint = ecmultGenRef a := ecmultGen_ref a

/-- `ECmultGen(a) = (a mod 2^256)·G` for EVERY natural number a (0, n, values above n and 2^256−1 included):
    the Jacobian result of the 64×16 comb over `prec` plus `fin` stands for the reference scalar multiple.
    Uses: `ecmultGen_sum`, `prec_pointwise` (T_j = (d_j+1)·16^j·G), `fin_spec` (fin = −Σ 16^j·G) and the abelian group
    structure of the reference law on curve points (Proofs/C03Curve: Mathlib's Weierstrass group law).
    A NEGATIVE `*Number` (the Go signature admits one, no caller in gocoin passes one) is outside the statement and is
    neither modelled nor run. -/
theorem ecmultGen_correct (a : Nat) : (ecmultGen a).toPoint = Secp.mul (a % 2 ^ 256) Secp.G := ecmultGen_mul a

/-- `ecmult_wnaf` as used by `ECmult` (w ≥ 2, |a| ≤ 2^128, either sign): the digit list represents a
    (Σ dᵢ·2^i = a), every digit is 0 or odd with |d| < 2^(w−1), and there are at most 129 digits — the fixed
    `[129]int` array is never overrun (`wnaf` returns `some`). -/
theorem wnaf_sound (a : Int) (w : Nat) (hw : 2 ≤ w) (ha1 : -(2 : Int) ^ 128 ≤ a) (ha2 : a ≤ 2 ^ 128) :
    ∃ ds, wnaf a w = some ds ∧ valD ds = a ∧ (∀ d ∈ ds, Dig w d) ∧ ds.length ≤ 129 := wnaf_ok a w hw ha1 ha2

example : ∃ ds, wnaf (-7) 5 = some ds ∧ valD ds = -7 ∧ (∀ d ∈ ds, Dig 5 d) ∧ ds.length ≤ 129 :=
  wnaf_sound (-7) 5 (by decide) (by norm_num) (by norm_num)

/-- the general form: |a| ≤ 2^L (L < 400) gives a correct wNAF of at most L+1 digits -/
theorem wnaf_sound_general (a : Int) (w : Nat) (hw : 2 ≤ w) (L : Nat) (hL : L < 400)
    (ha1 : -(2 : Int) ^ L ≤ a) (ha2 : a ≤ 2 ^ L) :
    valD (wnafAux w 400 a 0 []) = a ∧ (∀ d ∈ wnafAux w 400 a 0 [], Dig w d) ∧ (wnafAux w 400 a 0 []).length ≤ L + 1 :=
  wnafAux_run a w hw L hL ha1 ha2

/-- `XYZ.ECmult` cannot run into the Go index panic (the model's `none`): for EVERY point, EVERY integer na
    and every ng < 2^256 the four wNAF expansions (λ-split halves of na, 128-bit halves of ng) fit. -/
theorem ecmult_no_panic (a : XYZ) (na : Int) (ng : Nat) (hng : ng < 2 ^ 256) : (ecmult a na ng).isSome = true :=
  ecmult_isSome a na ng hng

/-- `XYZ.ECmult(a, na, ng)` (the r = na·A + ng·G of signature verification) for EVERY Jacobian input within the
    input contract `XYZ.ok` (X, Y, Z of magnitude ≤ 8: also operands that are not normalised and not produced by the
    library, for which `precomp`'s pre_a[0] = A and its negation are used as they are) that lies on the curve (`OnC`; ∞ included), EVERY integer na and every ng < 2^256: no panic, the
    result is within the contract and stands for  na1·A + na_lam·A' + ng·G  in the abelian group of curve points,
    where (na1, na_lam) = split_exp(na) and A' is the curve point `mul_lambda` makes of A (x ↦ β·x).
    Followed through: GLV split, four wNAF expansions (`wnaf_sound`), `precomp` tables of odd multiples of A and A',
    the tables pre_g / pre_g_128 (every entry), and the interleaved double-and-add loop (`Rp r R` = "r is within
    the contract and stands for R"). -/
theorem ecmult_sum_correct (a : XYZ) (ha : a.ok) (hA : OnC a.toPoint) (na : Int) (ng : Nat) (hng : ng < 2 ^ 256) :
    ∃ (r : XYZ) (A A' : CurvePt), A.1 = a.toPoint ∧ Rp (XYZ.mulLambda a) A' ∧ ecmult a na ng = some r ∧
      Rp r ((splitExp na).1 • A + (splitExp na).2 • A' + ng • Gc) := ecmult_sum a ha hA na ng hng

/-- `ECmult` = na·A + ng·G, PARTIAL: under the two consequences of #E(F_p) = n for the point A, which are stated as
    explicit hypotheses and NOT proved: n·A = 0 (Lagrange) and mul_lambda(A) = λ·A (the endomorphism
    (x,y) ↦ (β·x, y) acts on the cyclic group of order n as multiplication by λ). For A = k·G both are decidable facts
    about G; here they are assumptions. Scalars 0, n, above n and negative na are covered (na is any integer). -/
theorem ecmult_correct_partial (a : XYZ) (ha : a.ok) (hA : OnC a.toPoint) (na : Int) (ng : Nat) (hng : ng < 2 ^ 256)
    (hn : ((CurveConsts.order : Nat) : Int) • mkPt a.toPoint hA = 0)
    (hl : ∀ A' : CurvePt, Rp (XYZ.mulLambda a) A' → A' = ((CurveConsts.lambda : Nat) : Int) • mkPt a.toPoint hA) :
    ∃ r, ecmult a na ng = some r ∧ Rp r (na • mkPt a.toPoint hA + ng • Gc) :=
  ecmult_mul a ha hA na ng hng hn hl

/-- NON-TRIVIAL instance of `ecmult_correct_partial`: at A = G (held as SetXY(pre_g[0]), a finite on-curve operand) BOTH
    hypotheses are discharged — n·G = ∞ is C03's `generator_order` (`order_G`), mul_lambda(G) = λ·G is the kernel
    evaluation `Secp.mul λ G = (β·Gx mod p, Gy)` (`mul_lambda_G`) — so  ECmult(G, na, ng) = na·G + ng·G  for EVERY
    integer na (0, n, above n, negative) and every ng < 2^256, with no hypothesis left. -/
theorem ecmult_correct_at_G (na : Int) (ng : Nat) (hng : ng < 2 ^ 256) :
    ∃ r, ecmult gJ na ng = some r ∧ Rp r (na • Gc + ng • Gc) := by
  have h := ecmult_correct_partial gJ gJ_Rp.1 gJ_onC na ng hng gJ_order gJ_lambda
  rwa [gJ_mkPt] at h

/-- the hypotheses of `ecmult_correct_partial` are satisfiable by a finite point (A = G) -/
example : ∃ (a : XYZ) (ha : a.ok) (hA : OnC a.toPoint), a.inf = false ∧ a.toPoint = Secp.G ∧
    ((CurveConsts.order : Nat) : Int) • mkPt a.toPoint hA = 0 ∧
    (∀ A' : CurvePt, Rp (XYZ.mulLambda a) A' → A' = ((CurveConsts.lambda : Nat) : Int) • mkPt a.toPoint hA) :=
  ⟨gJ, gJ_Rp.1, gJ_onC, rfl, gJ_toPoint, gJ_order, gJ_lambda⟩

/-- scalars n and 0 on the finite operand G: n·G + 0·G = ∞ -/
example : ∃ r, ecmult gJ (CurveConsts.order : Nat) 0 = some r ∧ r.toPoint = none := by
  obtain ⟨r, h1, h2⟩ := ecmult_correct_at_G (CurveConsts.order : Nat) 0 (by norm_num)
  refine ⟨r, h1, ?_⟩
  rw [h2.2, zero_nsmul, add_zero, natCast_zsmul]
  exact congrArg Subtype.val order_G

example : ∃ r, ecmult { x := setInt 0, y := setInt 0, z := setInt 0, inf := true } 5 7 = some r :=
  (ecmult_sum _ ⟨by decide, by decide, by decide, fun h => by simp at h⟩ (by rfl) 5 7 (by norm_num)).elim
    fun r h => h.elim fun _ h => h.elim fun _ h => ⟨r, h.2.2.1⟩

/-- `XYZ.precomp(w)` (the definition the oracle's `precomp` op runs against `VerifPrecompXYZ`): for EVERY operand within
    the contract standing for a curve point A, entry i (i < 2^(w−2)) is within the contract and stands for (2i+1)·A. -/
theorem precomp_correct (a : XYZ) (A : CurvePt) (ha : Rp a A) (w i : Nat) (hi : i < 2 ^ (w - 2)) :
    Rp ((XYZ.precomp a w).getD i default) ((2 * i + 1) • A) := precomp_TabJ ha w i hi

example : Rp ((XYZ.precomp gJ 5).getD 7 default) (15 • Gc) := precomp_correct gJ Gc gJ_Rp 5 7 (by decide)

/-- `Number.rsh_x` (oracle op `rshx`) for EVERY integer of either sign and every width: the returned word and the
    shifted receiver recompose the number, x = rest·2^bits + word with 0 ≤ word < 2^bits. -/
theorem rshX_sound (x : Int) (bits : Nat) :
    x = (rshX x bits).2 * 2 ^ bits + (rshX x bits).1 ∧ 0 ≤ (rshX x bits).1 ∧ (rshX x bits).1 < 2 ^ bits := rshX_spec x bits

/-- `Number.split` on non-negative numbers (oracle op `split`; `ECmult` splits ng at bit 128): a = lo + hi·2^bits, lo < 2^bits. -/
theorem split_sound (a bits : Nat) :
    a = (split a bits).1 + (split a bits).2 * 2 ^ bits ∧ (split a bits).1 < 2 ^ bits := split_spec a bits

/-- `XY.SetXO` (decompression, x-only lifting, the core of ParsePubkey 02/03 and DecompressPoint): for EVERY x of
    magnitude ≤ 8 (x goes into Sqr and Mul) the result keeps x, y is fully normalised; if x³+7 is a square in F_p the point is on the curve,
    and (for y ≠ 0, which always holds on secp256k1) y has the requested parity. -/
theorem setXO_correct (x : Fe) (odd : Bool) (hx : x.mag 8) :
    (XY.setXO x odd).x = x ∧ (XY.setXO x odd).inf = false ∧ (XY.setXO x odd).ok ∧ (XY.setXO x odd).y.normd ∧
    (∀ r : F, r * r = x.z ^ 3 + 7 →
      (XY.setXO x odd).y.z * (XY.setXO x odd).y.z = x.z ^ 3 + 7 ∧
      ((XY.setXO x odd).y.z ≠ 0 → (((XY.setXO x odd).y.val % 2 = 1) ↔ odd = true))) := setXO_ok x odd hx

/-- `XY.IsValid` decides the curve equation exactly (both coordinates of magnitude ≤ 8) -/
theorem isValid_correct (a : XY) (ha : a.ok) :
    XY.isValid a = true ↔ (a.inf = false ∧ a.y.z * a.y.z = a.x.z ^ 3 + 7) := isValid_iff a ha

/-- `Number.split_exp` (GLV decomposition) for EVERY integer a: r1 + r2·λ ≡ a (mod n) … -/
theorem split_exp_sound (a : Int) :
    ((splitExp a).1 + (splitExp a).2 * (CurveConsts.lambda : Int) - a) % (CurveConsts.order : Int) = 0 :=
  splitExp_sound a

/-- … and |r1|, |r2| < 2^128 (so each half fits the 129-slot wNAF array). -/
theorem split_exp_bound (a : Int) :
    -340282366920938463463374607431768211456 < (splitExp a).1 ∧ (splitExp a).1 < 340282366920938463463374607431768211456 ∧
    -340282366920938463463374607431768211456 < (splitExp a).2 ∧ (splitExp a).2 < 340282366920938463463374607431768211456 :=
  splitExp_bound a

/-! ### the byte-string API: BaseMultiply / BaseMultiplyAdd / Multiply (ec.go) with SetXYZ, GetPublicKey, ParsePubkey

  `Model.GroupApi` mirrors the three functions as they are SINCE the `fix:` commit for the findings
  api-basemultiply-identity / api-multiply-identity / api-basemultiplyadd-identity: `if r.Infinity { return false }`
  between the multiplication (and AddXY) and SetXYZ + GetPublicKey. `ApiRes.refused` = the function returns false,
  `.ok out` = true with `out` written, `.panic` = a Go panic. `apiRef Q unc` is what the reference point Q demands:
  refused for ∞, otherwise 02/03 ‖ x (33-byte buffer) or 04 ‖ x ‖ y (65-byte buffer). -/

/-- `GetB32` of canonical limbs is the 32-byte big-endian encoding of their value (both directions) -/
theorem getB32_is_big_endian (a : Fe) (h : a.canon) : getB32 a = toB32 a.val ∧ GocoinV.C08.beVal (getB32 a) = a.val :=
  ⟨getB32_eq_toB32 a h, beVal_getB32 a h⟩

example : getB32 ⟨5, 6, 7, 8, 9⟩ = toB32 (Fe.val ⟨5, 6, 7, 8, 9⟩) := (getB32_is_big_endian _ (by decide)).1

/-- `Field.InvVar` (Normalize, GetB32, big.Int.ModInverse — modelled by the reference `Secp.invMod` —, SetBytes) is
    the inverse in F_p (0 ↦ 0) for EVERY input within Normalize's contract; the result has magnitude 1. -/
theorem invVar_correct (a : Fe) (m : Nat) (ha : a.mag m) (hm : m ≤ 32) : FeS (invVar a) 1 (a.z)⁻¹ :=
  invVar_S a m ha hm

example : FeS (invVar (setInt 2)) 1 ((2 : Nat) : F)⁻¹ := by
  have h := invVar_correct (setInt 2) 1 (FeS.ofInt 2 (by decide)).1 (by decide)
  rwa [(FeS.ofInt 2 (by decide)).2] at h

/-- `XY.SetXYZ` (Jacobian → affine) for EVERY operand within the contract: the result is an admissible affine
    operand (both coordinates of magnitude 1), carries the Infinity flag over, and stands for the same point. -/
theorem setXYZ_correct (a : XYZ) (ha : a.ok) :
    (XY.ofXYZ a).ok ∧ (XY.ofXYZ a).inf = a.inf ∧ (XY.ofXYZ a).toPoint = a.toPoint := by
  obtain ⟨sx, sy, si⟩ := ofXYZ_S a ha
  refine ⟨⟨mag_mono sx.1 (by decide), mag_mono sy.1 (by decide)⟩, si, ?_⟩
  unfold XY.toPoint XYZ.toPoint
  rw [si, sx.2, sy.2]

example : (XY.ofXYZ gJ).toPoint = Secp.G := by rw [(setXYZ_correct gJ gJ_Rp.1).2.2, gJ_toPoint]

/-- `XY.GetPublicKey`: for coordinates of ANY magnitude ≤ 32 standing for the residues X, Y it writes 02/03 ‖ X (parity
    of the canonical Y) resp. 04 ‖ X ‖ Y — the bytes depend on the residues only, never on the representation. -/
theorem getPublicKey_correct (pk : XY) (mx my : Nat) (hx : pk.x.mag mx) (hy : pk.y.mag my) (hmx : mx ≤ 32) (hmy : my ≤ 32)
    (unc : Bool) :
    XY.getPublicKey pk unc =
      (if unc then 4 :: (toB32 pk.x.z.val ++ toB32 pk.y.z.val)
       else (if pk.y.z.val % 2 = 0 then 2 else 3) :: toB32 pk.x.z.val) :=
  getPublicKey_S pk mx my _ _ (FeS.self hx) (FeS.self hy) hmx hmy unc

example : XY.getPublicKey (preGXY 0) false = 2 :: toB32 CurveConsts.gx := by decide +kernel

/-- The common tail of the three API functions (`if r.Infinity { return false }`, SetXYZ, GetPublicKey, `return true`)
    on EVERY Jacobian point within the contract: it answers false exactly when r stands for the point at infinity and
    otherwise true with the SEC1 bytes of the affine point r stands for. No stale coordinate is ever serialised. -/
theorem api_tail_correct (r : XYZ) (hr : r.ok) (unc : Bool) : apiFinish r unc = apiRef r.toPoint unc :=
  apiFinish_spec r hr unc

example : apiFinish infJ false = .refused ∧ apiFinish gJ false = .ok (2 :: toB32 CurveConsts.gx) := by decide +kernel

/-- `BaseMultiply(k, out)` for EVERY scalar byte string (k = its big-endian value, any length; `ECmultGen` reads the
    low 256 bits): false when (k mod 2²⁵⁶)·G = ∞, otherwise true with the SEC1 bytes of (k mod 2²⁵⁶)·G. UNCONDITIONAL. -/
theorem baseMultiply_correct (k : Nat) (unc : Bool) :
    baseMultiply k unc = apiRef (Secp.mul (k % 2 ^ 256) Secp.G) unc := baseMultiply_spec k unc

/-- … and the refusals are exactly the scalars ≡ 0 mod n (after the cut to 256 bits): 0, n, 2²⁵⁶, 2²⁵⁶ + n, …
    (the former finding api-basemultiply-identity: `true` with the bytes 034f355b…71aa for 0 and n). -/
theorem baseMultiply_refuses_iff (k : Nat) (unc : Bool) :
    baseMultiply k unc = .refused ↔ (k % 2 ^ 256) % CurveConsts.order = 0 := by
  rw [baseMultiply_correct, apiRef_refused_iff]
  exact mul_G_none_iff' _

/-- the witnesses of the former finding, through the theorem and — for 0 and 1 — by kernel evaluation of the model -/
example : baseMultiply 0 false = .refused ∧ baseMultiply CurveConsts.order false = .refused ∧
    baseMultiply (2 ^ 256) true = .refused ∧ baseMultiply (2 ^ 256 + CurveConsts.order) false = .refused ∧
    baseMultiply 1 false ≠ .refused :=
  ⟨(baseMultiply_refuses_iff _ _).2 (by decide), (baseMultiply_refuses_iff _ _).2 (by decide),
   (baseMultiply_refuses_iff _ _).2 (by decide), (baseMultiply_refuses_iff _ _).2 (by decide),
   fun h => absurd ((baseMultiply_refuses_iff _ _).1 h) (by decide)⟩
example : baseMultiply 0 false = .refused ∧ baseMultiply 1 false = .ok (2 :: toB32 CurveConsts.gx) := by decide +kernel

/-- Whatever `XY.ParsePubkey` accepts (33 bytes 02/03 ‖ x, or 65 bytes 04/06/07 ‖ x ‖ y) is an admissible affine operand,
    finite, ON THE CURVE, with canonical x = the big-endian value of bytes 1..32, and that value is below p
    (non-canonical encodings x ≥ p are refused). -/
theorem parsePubkey_sound (xy : List Nat) (hb : ∀ b ∈ xy, b < 256) (pk : XY) (h : XY.parsePubkey xy = some pk) :
    pk.ok ∧ pk.inf = false ∧ OnC pk.toPoint ∧ pk.x.canon ∧ pk.x.val = GocoinV.C08.beVal ((xy.drop 1).take 32) ∧
      GocoinV.C08.beVal ((xy.drop 1).take 32) < P := parsePubkey_ok xy hb pk h

example : ∃ pk, XY.parsePubkey gBytes = some pk ∧ pk.toPoint = Secp.G := ⟨_, parse_G, preGXY0_RpA.2⟩
/-- x = p + 1 (a non-canonical encoding of x = 1) and a 33-byte string with tag 04 are refused -/
example : XY.parsePubkey (2 :: toB32 (P + 1)) = none ∧ XY.parsePubkey (4 :: toB32 1) = none := by decide +kernel

/-- `BaseMultiplyAdd(xy, k, out)`: false when xy does not parse; for a key that parses to pk: false when
    (k mod 2²⁵⁶)·G + pk = ∞ (the former finding api-basemultiplyadd-identity: `true` with the bytes of −G for
    (G, n−1)), otherwise true with the SEC1 bytes of that sum. For EVERY byte string xy and every scalar. -/
theorem baseMultiplyAdd_correct (xy : List Nat) (hb : ∀ b ∈ xy, b < 256) (k : Nat) (unc : Bool) :
    (XY.parsePubkey xy = none → baseMultiplyAdd xy k unc = .refused) ∧
    (∀ pk, XY.parsePubkey xy = some pk →
      baseMultiplyAdd xy k unc = apiRef (Secp.add (Secp.mul (k % 2 ^ 256) Secp.G) pk.toPoint) unc) :=
  ⟨baseMultiplyAdd_none xy k unc, fun pk hp => baseMultiplyAdd_spec xy hb k unc pk hp⟩

/-- at the operand G (02 ‖ Gx): BaseMultiplyAdd(G, k) answers for (k mod 2²⁵⁶ + 1)·G, and refuses exactly when
    k mod 2²⁵⁶ + 1 ≡ 0 mod n — the witness (G, n−1) of the former finding included -/
theorem baseMultiplyAdd_at_G (k : Nat) (unc : Bool) :
    baseMultiplyAdd gBytes k unc = apiRef (Secp.mul (k % 2 ^ 256 + 1) Secp.G) unc ∧
    (baseMultiplyAdd gBytes k unc = .refused ↔ (k % 2 ^ 256 + 1) % CurveConsts.order = 0) := by
  refine ⟨baseMultiplyAdd_G k unc, ?_⟩
  rw [baseMultiplyAdd_G, apiRef_refused_iff]
  exact mul_G_none_iff' _

example : baseMultiplyAdd gBytes (CurveConsts.order - 1) false = .refused ∧ baseMultiplyAdd gBytes 0 false ≠ .refused :=
  ⟨(baseMultiplyAdd_at_G _ _).2.2 (by decide), fun h => absurd ((baseMultiplyAdd_at_G _ _).2.1 h) (by decide)⟩

/-- `Multiply(xy, k, out)`, PARTIAL in the same sense as `ecmult_correct_partial`: for a key that parses to pk, under
    the two consequences of #E(F_p) = n for that point stated as hypotheses (n·A = 0; mul_lambda(A) = λ·A), the call
    never panics, answers false when k·pk = ∞ (the former finding api-multiply-identity: `true` with the operand's own
    bytes for k = 0, n) and otherwise true with the SEC1 bytes of k·pk — for every scalar k (any byte length).
    A key that does not parse is refused without any hypothesis. -/
theorem multiply_correct_partial (xy : List Nat) (hb : ∀ b ∈ xy, b < 256) (k : Nat) (unc : Bool) :
    (XY.parsePubkey xy = none → multiply xy k unc = .refused) ∧
    (∀ pk (_ : XY.parsePubkey xy = some pk) (hA : OnC (XYZ.ofXY pk).toPoint),
      ((CurveConsts.order : Nat) : Int) • mkPt (XYZ.ofXY pk).toPoint hA = 0 →
      (∀ A' : CurvePt, Rp (XYZ.mulLambda (XYZ.ofXY pk)) A' →
        A' = ((CurveConsts.lambda : Nat) : Int) • mkPt (XYZ.ofXY pk).toPoint hA) →
      multiply xy k unc = apiRef (Secp.mul k pk.toPoint) unc) :=
  ⟨multiply_none xy k unc, fun pk hp hA hn hl => multiply_spec xy hb k unc pk hp hA hn hl⟩

/-- the hypotheses of `multiply_correct_partial` are satisfiable: the key 02 ‖ Gx parses to pre_g[0], for which both
    facts are theorems (`gJ_order`, `gJ_lambda`) -/
example : ∃ pk, XY.parsePubkey gBytes = some pk ∧ ∃ hA : OnC (XYZ.ofXY pk).toPoint,
    ((CurveConsts.order : Nat) : Int) • mkPt (XYZ.ofXY pk).toPoint hA = 0 ∧
    (∀ A' : CurvePt, Rp (XYZ.mulLambda (XYZ.ofXY pk)) A' →
      A' = ((CurveConsts.lambda : Nat) : Int) • mkPt (XYZ.ofXY pk).toPoint hA) :=
  ⟨preGXY 0, parse_G, gJ_onC, gJ_order, gJ_lambda⟩

/-- … and at the operand G with NO hypothesis left: Multiply(G, k) answers for k·G for every k, and refuses exactly
    the multiples of n (0, n, 2n, … of any byte length) -/
theorem multiply_at_G (k : Nat) (unc : Bool) :
    multiply gBytes k unc = apiRef (Secp.mul k Secp.G) unc ∧
    (multiply gBytes k unc = .refused ↔ k % CurveConsts.order = 0) := by
  refine ⟨multiply_G k unc, ?_⟩
  rw [multiply_G, apiRef_refused_iff]
  exact mul_G_none_iff' _

example : multiply gBytes 0 false = .refused ∧ multiply gBytes CurveConsts.order false = .refused ∧
    multiply gBytes (3 * CurveConsts.order) true = .refused ∧ multiply gBytes 1 false ≠ .refused :=
  ⟨(multiply_at_G _ _).2.2 (by decide), (multiply_at_G _ _).2.2 (by decide), (multiply_at_G _ _).2.2 (by decide),
   fun h => absurd ((multiply_at_G _ _).2.1 h) (by decide)⟩

/-! ### operation SEQUENCES on objects: what a call leaves in its operands, registers used again

  The Go methods work on objects the caller keeps. All group operations only READ their operands — except `XY.SetXYZ`,
  which rescales its Jacobian argument in place. `XYZ.afterSetXYZ` (Model.GroupHist) is that in-place effect statement
  by statement; `run` executes a history of calls on a file of Jacobian / affine registers (result register and operand
  may coincide), `refRun` the same history on points of the reference group law. Tied by the harness stream `hist`
  (go/cmd/c08/history.go: the real calls on the SAME objects from first to last, every register judged after every call). -/

/-- What `XY.SetXYZ(a)` leaves in its ARGUMENT, for EVERY operand within the contract: an admissible triple (it is exactly
    `SetXY` of the affine result: coordinates of magnitude 1, Z = 1) with the same Infinity flag that stands for the SAME
    point. The caller's object can be converted again and computed with as if nothing had happened — this is the
    statement a SetXYZ that inverts a.Z but leaves a.X, a.Y unscaled violates. -/
theorem setXYZ_keeps_operand (a : XYZ) (ha : a.ok) :
    XYZ.afterSetXYZ a = XYZ.ofXY (XY.ofXYZ a) ∧ (XYZ.afterSetXYZ a).ok ∧ (XYZ.afterSetXYZ a).inf = a.inf ∧
    (XYZ.afterSetXYZ a).toPoint = a.toPoint :=
  ⟨afterSetXYZ_eq a, afterSetXYZ_ok a ha⟩

example : (XYZ.afterSetXYZ (XYZ.double gJ)).toPoint = Secp.mul 2 Secp.G := by
  have h := double_ok gJ gJ_Rp.1
  rw [(setXYZ_keeps_operand _ h.1).2.2.2, h.2, gJ_toPoint]; decide +kernel

/-- … so publishing the same object twice gives the same point twice -/
theorem setXYZ_twice (a : XYZ) (ha : a.ok) :
    (XY.ofXYZ (XYZ.afterSetXYZ a)).toPoint = (XY.ofXYZ a).toPoint ∧ (XY.ofXYZ (XYZ.afterSetXYZ a)).inf = (XY.ofXYZ a).inf := by
  obtain ⟨_, h2, h3, h4⟩ := setXYZ_keeps_operand a ha
  obtain ⟨_, i1, p1⟩ := setXYZ_correct a ha
  obtain ⟨_, i2, p2⟩ := setXYZ_correct _ h2
  exact ⟨by rw [p2, h4, p1], by rw [i2, h3, i1]⟩

example : (XYZ.double gJ).ok := (double_ok gJ gJ_Rp.1).1

/-- ALL operation sequences respecting the contract: start from registers within the input contract (X, Y, Z ≤ 8 /
    X, Y ≤ 8, Z ≠ 0 for finite points), run ANY history of Double / Add / AddXY / Neg / XY.Neg / SetXYZ / SetXY /
    ECmultGen calls whose result and operand registers are chosen freely (results over operands, objects converted and
    used again, …). Then every call finds its operands within the contract again, and afterwards EVERY register — the
    results, the operands, the bystanders — stands for the point the reference group law gives for it. (mul_lambda and
    ECmult are run by the same machine and by the harness; their meaning as multiples is `ecmult_sum_correct` /
    `ecmult_correct_partial`, under the hypotheses stated there.) -/
theorem history_correct (ops : List HOp) (hl : ∀ o ∈ ops, o.law = true) (r r' : Regs) (hr : r.ok)
    (h : run ops r = some r') : r'.ok ∧ refRun ops r.points = some r'.points :=
  run_ok ops hl r r' hr h

example : ∃ r', run [.dbl 0 0, .setxyz 0 0, .addxy 0 0 0, .setxyz 0 0] ⟨[gJ], [preGXY 0]⟩ = some r' ∧
    refRun [.dbl 0 0, .setxyz 0 0, .addxy 0 0 0, .setxyz 0 0] (Regs.points ⟨[gJ], [preGXY 0]⟩) = some r'.points := by
  have hr : Regs.ok ⟨[gJ], [preGXY 0]⟩ :=
    ⟨fun a ha => by rw [List.mem_singleton.1 ha]; exact gJ_Rp.1, fun b hb => by rw [List.mem_singleton.1 hb]; exact preGXY0_RpA.1⟩
  refine ⟨_, rfl, (history_correct _ (by decide) _ _ hr rfl).2⟩

/-! ### several callers at once: no writable package-level state

  All the definitions above are functions of the call's arguments. The Go functions are, as long as the package keeps
  no package-level variable that is written after initialisation. That structural fact is REGENERATED from the source
  on every run (go/cmd/gen_c08/shared.go, go/types: every function of lib/secp256k1 except init / init_contants, and
  every func literal in a package-level initialiser). What the analysis FOLLOWS from a package-level variable to a
  write: local aliases (also made later in the text than the use), `&x` handed to callees of the package (their
  parameters are analysed), receivers, index / field / slice / `*` / conversion / type assertion / type switch /
  channel receive / comma-ok forms, range variables of reference kind, results of methods of foreign types
  (big.Int.Bits), plain func literals held by a never re-assigned package-level func variable. What it does NOT follow
  is REPORTED as a write instead of being assumed harmless: a call through any other function value kept in
  package-level state, a method value bound to it, a reference returned / stored / sent / passed to an unknown callee.
  What it cannot see at all: state behind `unsafe`, `reflect`, cgo / assembly, memory reachable only through the
  ARGUMENTS (two callers who share an object are outside the statement), state inside other packages' functions
  (math/big, crypto/sha256 are taken to keep none), and a `sync.Pool` / sync-typed variable counts as synchronised.
  gen_c08 runs the analysis on 26 synthetic ways of hoisting InvVar's scratch number first (selftest.go) and refuses to
  generate if one is not reported. The harness stream `conc` looks for the failing input. -/

/-- No function of lib/secp256k1 writes a package-level variable (TheCurve, the precomputed tables, BigInt1, … are only
    read after init), as far as the analysis described above follows references; the statement is about the regenerated
    list, its link to the source is that analysis (trusted, self-tested), not a proof about Go. -/
theorem package_keeps_no_writable_state : Gen.C08Shared.globalsWritten = [] := by decide

/-- `Field.InvVar` — the one place where the field code goes through math/big, under every Jacobian → affine
    conversion — at step level (load n := v; n := n⁻¹ mod p; store), for ANY number of callers under ANY interleaving
    of their steps, with the variant the source has (`Gen.C08Shared.invScratchShared`: is a value written by InvVar
    package-level?): once all callers have returned, each holds exactly `invVar` of its OWN argument.
    With `invScratchShared = false` every caller of this toy machine owns its three cells, so the induction is easy: the
    whole content is the regenerated Bool (and `shared_scratch_not_schedule_independent` shows it matters). -/
theorem concurrent_inversions_schedule_independent (as : List Fe) (sched : List Nat) :
    InvSched.results as sched = as.map invVar := by
  have hs : Gen.C08Shared.invScratchShared = false := by decide
  unfold InvSched.results
  simp only [hs]
  have h := InvSched.finished_outs (as.map InvSched.argVal) sched
  rw [List.length_map] at h
  have e : ∀ l : List InvSched.Th, l.map (fun t => Fe.ofNat t.out) = (l.map (·.out)).map Fe.ofNat := by
    intro l; rw [List.map_map]; rfl
  rw [e, h, List.map_map, List.map_map]
  apply List.map_congr_left
  intro a _
  rfl

/-- … and the hypothesis is needed: with ONE number shared by all callers (the hoisted variant) the interleaving
    load₀ load₁ invert₀ store₀ hands caller 0 the inverse of caller 1's value. -/
theorem shared_scratch_not_schedule_independent :
    ((InvSched.run true (InvSched.start [2, 3]) [0, 1, 0, 0]).ths.map (·.out)).head? = some (Secp.invMod 3 P) ∧
    Secp.invMod 3 P ≠ Secp.invMod 2 P := by
  decide +kernel

/-
  OPEN (covered by the differential run only — go/cmd/c08 compares the hand group model limb-for-limb with the
  Go code and evaluates the statements on the real code against math/big):

  -- OPEN: ecmult_correct without hypotheses on A: `ecmult_sum_correct` is proved unconditionally; turning
  --   na1·A + na_lam·A' into na·A needs n·A = 0 and A' = λ·A (`ecmult_correct_partial` assumes them); both follow
  --   from #E(F_p) = n, which is not proved (explicit hypothesis by design). At A = G both are discharged
  --   (`ecmult_correct_at_G`: n·G = ∞ is C03's generator_order, mul_lambda(G) = λ·G one kernel evaluation); for a
  --   general A = k·G the second one would need "the endomorphism is additive", which is not proved either.
  -- OPEN: multiply_correct without hypotheses on the operand (same two facts as ecmult_correct; discharged at G:
  --   `multiply_at_G`). `big.Int.ModInverse` inside Field.InvVar is MODELLED by the reference `Secp.invMod` (Fermat),
  --   tied by the oracle op `invvar`; the parity clause of ParsePubkey (02 ↦ even y, 03 ↦ odd y) is `setXO_correct`'s,
  --   not restated in `parsePubkey_sound`.
  -- OPEN (input contract wider than the theorem): `XYZ.AddXY` only normalises a.Y, so the Go code also admits a.Y of
  --   magnitude 9..32 there; `addXY_correct` is stated for a.Y ≤ 8 (then the result, which may be a copy of `a`,
  --   is again an admissible operand). Neg and Double are stated for Y ≤ 32 (`neg_correct`, `double_correct_full`);
  --   Add and ECmult hand every coordinate to Mul, so ≤ 8 is their full contract.
  -- NOT COVERED: field_10x26.go (not compiled on 64-bit platforms).
-/

end GocoinV.Props.C08
