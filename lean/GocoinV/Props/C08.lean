/-
  Props.C08 — property theorems for C08 (secp256k1 field and group arithmetic equals the
  mathematical definition). Every theorem is about the GENERATED definitions of
  `GocoinV.Gen.Field5x52` (regenerated from lib/secp256k1/field_5x52.go on every run) — the same
  definitions the oracle executes and the harness compares limb-for-limb with the Go functions.
  `Fe.val a` is the integer the five limbs stand for, `Fe.mag a m` libsecp256k1's magnitude
  contract (limb i ≤ 2·m·(2^52−1), top limb ≤ 2·m·(2^48−1)), `P` the constant `TheCurve.p`.
-/
import GocoinV.Proofs.C08_Field

namespace GocoinV.Props.C08
open GocoinV.C08 GocoinV.Gen.Field5x52

/-- `Field.SetAdd`: for ALL limb vectors within magnitudes m1, m2 (m1+m2 ≤ 32) no limb wraps around,
    the value of the result is exactly the sum of the values, and its magnitude is m1+m2. -/
theorem setAdd_spec (r a : Fe) (m1 m2 : Nat) (hr : r.mag m1) (ha : a.mag m2) (hm : m1 + m2 ≤ 32) :
    (setAdd r a).val = r.val + a.val ∧ (setAdd r a).mag (m1 + m2) :=
  setAdd_val r a m1 m2 hr ha hm

example : (setAdd ⟨1, 2, 3, 4, 5⟩ ⟨2^53, 0, 0, 0, 1⟩).val = (⟨1, 2, 3, 4, 5⟩ : Fe).val + (⟨2^53, 0, 0, 0, 1⟩ : Fe).val := by decide

/-- `Field.MulInt`: for ALL limb vectors of magnitude m and factors k with m·k ≤ 32 the value is
    multiplied by k exactly (no wrap-around) and the magnitude becomes m·k. -/
theorem mulInt_spec (r : Fe) (m k : Nat) (hr : r.mag m) (hm : m * k ≤ 32) :
    (mulInt r k).val = r.val * k ∧ (mulInt r k).mag (m * k) :=
  mulInt_val r m k hr hm

example : (mulInt ⟨2^52 - 1, 7, 0, 0, 2^48 - 1⟩ 8).val = (⟨2^52 - 1, 7, 0, 0, 2^48 - 1⟩ : Fe).val * 8 := by decide

/-- `Field.Negate(m)`: for ALL limb vectors of magnitude ≤ m (m ≤ 31) the subtraction
    2(m+1)·p_limb − a_limb never underflows, result + a = 2(m+1)·p exactly (so the result is −a mod p),
    and the result has magnitude m+1. -/
theorem negate_spec (a : Fe) (m : Nat) (ha : a.mag m) (hm : m ≤ 31) :
    (negate a m).val + a.val = 2 * (m + 1) * P ∧ (negate a m).mag (m + 1) :=
  negate_val a m ha hm

example : (negate ⟨5, 0, 0, 0, 0⟩ 1).val + 5 = 4 * P := by decide

end GocoinV.Props.C08
