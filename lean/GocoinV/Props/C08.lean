/-
  Props.C08 — property theorems for C08 (secp256k1 field and group arithmetic equals the
  mathematical definition). Every theorem is about the GENERATED definitions of
  `GocoinV.Gen.Field5x52` (regenerated from lib/secp256k1/field_5x52.go on every run) — the same
  definitions the oracle executes and the harness compares limb-for-limb with the Go functions.
  `Fe.val a` is the integer the five limbs stand for, `Fe.mag a m` libsecp256k1's magnitude
  contract (limb i ≤ 2·m·(2^52−1), top limb ≤ 2·m·(2^48−1)), `P` the constant `TheCurve.p`.
-/
import GocoinV.Proofs.C08_Field
import GocoinV.Proofs.C08_Bytes
import GocoinV.Proofs.C08_Primes
import GocoinV.Proofs.C08_TabAll
import GocoinV.Proofs.C08_Sqr

namespace GocoinV.Props.C08
open GocoinV.C08 GocoinV.Gen.Field5x52 GocoinV.Gen

/-- `Field.SetAdd`: for ALL limb vectors within magnitudes m1, m2 (m1+m2 ≤ 32) no limb wraps around,
    the value of the result is exactly the sum of the values, and its magnitude is m1+m2. -/
theorem setAdd_spec (r a : Fe) (m1 m2 : Nat) (hr : r.mag m1) (ha : a.mag m2) (hm : m1 + m2 ≤ 32) :
    (setAdd r a).val = r.val + a.val ∧ (setAdd r a).mag (m1 + m2) :=
  setAdd_val r a m1 m2 hr ha hm

example : (setAdd ⟨1, 2, 3, 4, 5⟩ ⟨2^53, 0, 0, 0, 1⟩).val = (⟨1, 2, 3, 4, 5⟩ : Fe).val + (⟨2^53, 0, 0, 0, 1⟩ : Fe).val := by decide

/-- `Field.MulInt`: for ALL limb vectors of magnitude m and factors k with m·k ≤ 32 the value is
    multiplied by k exactly (no wrap-around) and the magnitude becomes m·k. -/
theorem mulInt_spec (r : Fe) (m k : Nat) (hr : r.mag m) (hm : m * k ≤ 32) :
    (mulInt r k).val = r.val * k ∧ (mulInt r k).mag (m * k) :=
  mulInt_val r m k hr hm

example : (mulInt ⟨2^52 - 1, 7, 0, 0, 2^48 - 1⟩ 8).val = (⟨2^52 - 1, 7, 0, 0, 2^48 - 1⟩ : Fe).val * 8 := by decide

/-- `Field.Negate(m)`: for ALL limb vectors of magnitude ≤ m (m ≤ 31) the subtraction
    2(m+1)·p_limb − a_limb never underflows, result + a = 2(m+1)·p exactly (so the result is −a mod p),
    and the result has magnitude m+1. -/
theorem negate_spec (a : Fe) (m : Nat) (ha : a.mag m) (hm : m ≤ 31) :
    (negate a m).val + a.val = 2 * (m + 1) * P ∧ (negate a m).mag (m + 1) :=
  negate_val a m ha hm

example : (negate ⟨5, 0, 0, 0, 0⟩ 1).val + 5 = 4 * P := by decide

/-- `Field.Normalize`: for ALL limb vectors of magnitude ≤ 32 (every limb ≤ 64·(2^52−1)) the result has
    canonical limbs (52/52/52/52/48 bits) and its value is exactly `value mod p` — in particular < p, also on
    the edge where the low 256 bits lie in [p, 2^256) (the `t0 ≥ 0xFFFFEFFFFFC2F` branch). -/
theorem normalize_spec (r : Fe) (h : r.mag 32) :
    (normalize r).val = r.val % P ∧ (normalize r).canon :=
  normalize_val r h

example : (normalize ⟨0xFFFFEFFFFFC2F, 0xFFFFFFFFFFFFF, 0xFFFFFFFFFFFFF, 0xFFFFFFFFFFFFF, 0xFFFFFFFFFFFF⟩).val = 0 := by decide

/-- `Field.Mul` (generated from field_5x52.go, bits.Mul64/Add64 pairs as written): for ALL limb vectors of
    magnitude ≤ 8 (libsecp256k1's contract for mul) none of the 128-bit accumulators `(hi, lo)` overflows,
    the value of the result is congruent to the product of the values modulo p, and the result has
    magnitude 1 (limbs 0–3 below 2^52, top limb at most 2·(2^48−1)). -/
theorem mul_spec (a b : Fe) (ha : a.mag 8) (hb : b.mag 8) :
    (mul a b).val % P = a.val * b.val % P ∧ (mul a b).mag 1 :=
  mul_val a b ha hb

example : (mul ⟨2^56 - 16, 2^56 - 16, 2^56 - 16, 2^56 - 16, 2^52 - 16⟩ ⟨2^56 - 16, 2^56 - 16, 2^56 - 16, 2^56 - 16, 2^52 - 16⟩).val % P
    = (⟨2^56 - 16, 2^56 - 16, 2^56 - 16, 2^56 - 16, 2^52 - 16⟩ : Fe).val * (⟨2^56 - 16, 2^56 - 16, 2^56 - 16, 2^56 - 16, 2^52 - 16⟩ : Fe).val % P := by
  decide

/-- `Field.Sqr` (generated): for ALL limb vectors of magnitude ≤ 8 no accumulator overflows, the value of
    the result is congruent to the square of the value modulo p, and the result has magnitude 1. -/
theorem sqr_spec (a : Fe) (ha : a.mag 8) :
    (sqr a).val % P = a.val * a.val % P ∧ (sqr a).mag 1 :=
  sqr_val a ha

example : (sqr ⟨2^56 - 16, 7, 2^56 - 16, 0, 2^52 - 16⟩).val % P
    = (⟨2^56 - 16, 7, 2^56 - 16, 0, 2^52 - 16⟩ : Fe).val * (⟨2^56 - 16, 7, 2^56 - 16, 0, 2^52 - 16⟩ : Fe).val % P := by
  decide

/-- `Field.SetB32`: for ALL 32-byte inputs the limbs are canonical and their value is the big-endian
    integer of the bytes (`a i` is byte i of the slice). -/
theorem setB32_spec (a : Nat → Nat) (h : ∀ i, a i < 256) :
    (setB32 a).val = a 31 + a 30 * 2^8 + a 29 * 2^16 + a 28 * 2^24 + a 27 * 2^32 + a 26 * 2^40 + a 25 * 2^48
      + a 24 * 2^56 + a 23 * 2^64 + a 22 * 2^72 + a 21 * 2^80 + a 20 * 2^88 + a 19 * 2^96 + a 18 * 2^104
      + a 17 * 2^112 + a 16 * 2^120 + a 15 * 2^128 + a 14 * 2^136 + a 13 * 2^144 + a 12 * 2^152 + a 11 * 2^160
      + a 10 * 2^168 + a 9 * 2^176 + a 8 * 2^184 + a 7 * 2^192 + a 6 * 2^200 + a 5 * 2^208 + a 4 * 2^216
      + a 3 * 2^224 + a 2 * 2^232 + a 1 * 2^240 + a 0 * 2^248 ∧ (setB32 a).canon :=
  setB32_val a h

example : (setB32 (fun i => if i = 31 then 7 else 0)).val = 7 := by decide

/-- Round trip bytes → limbs → bytes: `GetB32(SetB32(b)) = b` for ALL 32-byte strings. -/
theorem getB32_setB32 (a : Nat → Nat) (h : ∀ i, a i < 256) :
    getB32 (setB32 a) = [a 0, a 1, a 2, a 3, a 4, a 5, a 6, a 7, a 8, a 9, a 10, a 11, a 12, a 13, a 14, a 15, a 16, a 17, a 18, a 19, a 20, a 21, a 22, a 23, a 24, a 25, a 26, a 27, a 28, a 29, a 30, a 31] :=
  getB32_setB32' a h

/-- Round trip limbs → bytes → limbs: `SetB32(GetB32(a)) = a` for ALL canonical limb vectors
    (`bytesFn l` is the index function of the byte list). -/
theorem setB32_getB32 (a : Fe) (h : a.canon) : setB32 (bytesFn (getB32 a)) = a :=
  setB32_getB32' a h

example : setB32 (bytesFn (getB32 ⟨5, 6, 7, 8, 9⟩)) = ⟨5, 6, 7, 8, 9⟩ := by decide

/-- `Field.Equals` is equality of the limb vectors; on normalised elements (canonical limbs) that is
    equality of values (`canon_val_inj`). -/
theorem equals_iff (a b : Fe) : equals a b = true ↔ a = b := equals_iff' a b

/-- two elements with canonical limbs and the same value are the same limb vector -/
theorem canonical_unique (a b : Fe) (ha : a.canon) (hb : b.canon) (h : a.val = b.val) : a = b :=
  canon_val_inj a b ha hb h

/-- `Field.IsZero` holds exactly for the all-zero limb vector, i.e. value 0 (callers normalise first). -/
theorem isZero_iff (a : Fe) : isZero a = true ↔ a.val = 0 := isZero_iff' a

/-- `Field.IsOdd` is the parity of the value of the limb vector (callers normalise first). -/
theorem isOdd_iff (a : Fe) : isOdd a = true ↔ a.val % 2 = 1 := isOdd_iff' a

/-- The field characteristic written in `secp256k1.go` (`TheCurve.p`, regenerated) is prime
    (Pratt certificate through Mathlib's `lucas_primality`; powers evaluated in the kernel). -/
theorem p_prime : Nat.Prime P := by
  rw [P_eq]; exact secp_p_prime

/-- The group order written in `secp256k1.go` (`TheCurve.Order`, regenerated) is prime. -/
theorem n_prime : Nat.Prime CurveConsts.order := by
  have h : CurveConsts.order = 0xFFFFFFFFFFFFFFFFFFFFFFFFFFFFFFFEBAAEDCE6AF48A03BBFD25E8CD0364141 := by decide
  rw [h]; exact secp_n_prime

/-- EVERY entry of the regenerated table `pre_g` (all 4096): entry i is `G + i·(2G)`, i.e. the odd multiple
    (2i+1)·G, computed with the reference affine group law `GocoinV.Secp` by repeated addition. -/
theorem preG_spec (i : Nat) (hi : i < 4096) :
    ptOfLimbs (Tables.preGAt i) = addSteps (Secp.dbl Secp.G) Secp.G i := by
  have hlen : Tables.preGAll.length = 4096 := by decide +kernel
  have hhead : (pts Tables.preGAll).head? = some Secp.G := by decide +kernel
  have := chain_spec (Secp.dbl Secp.G) Secp.G (pts Tables.preGAll) preG_chain hhead i
    (by simp [pts, hlen, hi])
  rw [pts_getD _ _ (by omega)] at this
  exact this

/-- EVERY entry of `pre_g_128` (all 4096): entry i is `2^128·G + i·(2·2^128·G)` = (2i+1)·2^128·G, where
    2^128·G is 128 reference doublings of G. -/
theorem preG128_spec (i : Nat) (hi : i < 4096) :
    ptOfLimbs (Tables.preG128At i) = addSteps (Secp.dbl g128) g128 i := by
  have hlen : Tables.preG128All.length = 4096 := by decide +kernel
  have hhead : (pts Tables.preG128All).head? = some g128 := by decide +kernel
  have := chain_spec (Secp.dbl g128) g128 (pts Tables.preG128All) preG128_chain hhead i
    (by simp [pts, hlen, hi])
  rw [pts_getD _ _ (by omega)] at this
  exact this

/-- The comb table `prec` (64 rows × 16, all 1024 entries): row 0 starts at G; inside a row every entry is
    the previous one plus the row's first entry B_j (so the row is B_j, 2B_j, …, 16B_j); row j+1 starts at the
    last entry of row j (B_{j+1} = 16·B_j); nothing is left over. Hence prec[j][i] = (i+1)·16^j·G. -/
theorem prec_spec : precRowsOK 64 Secp.G (pts Tables.precAll) = true := prec_rows

/-- `fin` is minus the sum of the 64 row bases, −Σ_j 16^j·G (the correction `ECmultGen` adds last). -/
theorem fin_spec : ptOfLimbs Tables.fin = Secp.neg (headsSum 64 (pts Tables.precAll) none) := fin_neg_sum

/-
  OPEN (not proved; covered by the differential run only — go/cmd/c08 compares the generated `mul`/`sqr`
  and the hand group model limb-for-limb with the Go code and evaluates the statements below on the real
  code against math/big for the generated edge/random inputs):

  -- OPEN: theorem mul_spec (a b : Fe) (ha : a.mag 8) (hb : b.mag 8) :
  --   (mul a b).val % P = a.val * b.val % P ∧ (mul a b).mag 1
  --   (needs: every 128-bit accumulator (hi,lo) of the 19 partial products stays < 2^128 — interval
  --    lemma per accumulation step — and the congruence 2^260 ≡ R = 0x1000003D10 (mod p))
  -- OPEN: theorem sqr_spec (a : Fe) (ha : a.mag 8) : (sqr a).val % P = a.val * a.val % P ∧ (sqr a).mag 1
  -- OPEN: inv_spec / sqrt_spec for the addition chains `C08.inv`, `C08.sqrt` (follow from mul_spec/sqr_spec,
  --   p_prime and a^(p-2), a^((p+1)/4) exponent bookkeeping)
  -- OPEN: double_correct / add_correct / addXY_correct (Model.Group vs GocoinV.Secp.dbl/add incl. ∞, P+P,
  --   P+(−P)), magnitude contract of the group formulas
  -- OPEN: wnaf_sound (Σ dᵢ·2^i = a, digits odd, |dᵢ| < 2^(w−1), length ≤ 129 for |a| < 2^128),
  --   split_exp_sound (a ≡ r1 + r2·λ (mod n), |r1|,|r2| < 2^128)
  -- OPEN: ecmultGen_correct, ecmult_correct (the latter under the explicit hypothesis #E(F_p) = n)
  -- OPEN: prec pointwise form prec[j][i] = (i+1)·16^j·G as a corollary of `prec_spec` (row relations proved)
-/

end GocoinV.Props.C08
