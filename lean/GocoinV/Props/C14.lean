/-
  Props.C14 — property theorems for C14 (wallet keys: deterministic, BIP32 / BIP39). Theorems ONLY;
  helper lemmas live in GocoinV/Proofs/C14*.lean. Every theorem is about the definitions the oracle
  executes (Model/HD.lean, Model/Bip39.lean, Model/WalletKeys.lean) and holds for every instance of the
  hash functions (`C : WalletCrypto`).
-/
import GocoinV.Model.WalletKeys
import GocoinV.Proofs.C14Bip39
import GocoinV.Proofs.C14Bip39U
import GocoinV.Proofs.C14HD
import GocoinV.Proofs.C14Wallet
import GocoinV.Proofs.C14Curve
import GocoinV.Proofs.C14Norm
import GocoinV.Proofs.C14Wif
import GocoinV.Proofs.C14Getpass
import GocoinV.Proofs.C14Xpub
import GocoinV.Proofs.C14Lookup
import GocoinV.Proofs.C14Store
import GocoinV.Proofs.C14Examples
import GocoinV.Gen.WalletInputFacts
namespace GocoinV.Props.C14
open GocoinV Proofs.C14 HD WalletKeys

/-! ### the regenerated word list -/

/-- The regenerated BIP39 word list has exactly 2048 entries (so every 11-bit group indexes a word). -/
theorem words_length : Bip39.wordList.length = 2048 := wordList_length

/-- The word list is sorted: the keys (big-endian value of the word right-padded with zero bytes to
    8 bytes — the lexicographic order for words of ≤ 8 lower-case letters, which they all are) are
    strictly increasing. -/
theorem words_sorted :
    (Bip39.wordList.map wordKey).Pairwise (· < ·) ∧
    ∀ w ∈ Bip39.wordList, 3 ≤ w.length ∧ w.length ≤ 8 ∧ ∀ c ∈ w, 97 ≤ c.toNat ∧ c.toNat ≤ 122 := by
  refine ⟨strictInc_pairwise _ keys_inc, fun w hw => ?_⟩
  have := List.all_eq_true.mp words_shape w hw
  simp only [Bool.and_eq_true, decide_eq_true_eq, List.all_eq_true] at this
  exact ⟨this.1.1, this.1.2, this.2⟩

/-- No word occurs twice (so the Go map `wordMap` and "index in the list" agree). -/
theorem words_nodup : Bip39.wordList.Nodup := wordList_nodup

/-- The first four letters identify a word (BIP39's word-list requirement). -/
theorem words_prefix4_unique : (Bip39.wordList.map (·.take 4)).Nodup :=
  nodup_of_key_inc wordKey _ prefix_keys_inc

/-! ### BIP39 -/

/-- Round trip: for every entropy of 16, 20, 24, 28 or 32 bytes `NewMnemonic` succeeds and
    `EntropyFromMnemonic` of its result returns exactly that entropy (leading zero bytes included). -/
theorem bip39_roundtrip (C : WalletCrypto) (e : Bytes)
    (h : e.length = 16 ∨ e.length = 20 ∨ e.length = 24 ∨ e.length = 28 ∨ e.length = 32) :
    ∃ m, Bip39.newMnemonic C e = .ok m ∧ Bip39.entropyFromMnemonic C m = .ok e := by
  obtain ⟨cs, hl, h4, h8⟩ : ∃ cs, e.length = 4 * cs ∧ 4 ≤ cs ∧ cs ≤ 8 := ⟨e.length / 4, by omega, by omega, by omega⟩
  refine ⟨_, newMnemonic_sentence C e cs hl h4 h8, ?_⟩
  unfold sentence
  rw [entropy_of_digits C e cs _ hl (by omega) (checksumBits_lt C e cs h4 h8)]
  simp [checksumBits]

/-- non-vacuity: 16 zero bytes (BIP39 vector 1) satisfy the hypothesis -/
example : (List.replicate 16 (0 : UInt8)).length = 16 ∨ (List.replicate 16 (0 : UInt8)).length = 20 ∨
    (List.replicate 16 (0 : UInt8)).length = 24 ∨ (List.replicate 16 (0 : UInt8)).length = 28 ∨
    (List.replicate 16 (0 : UInt8)).length = 32 := by decide

/-- The checksum detects every change of the checksum bits: among the 2^cs sentences that spell the same
    entropy `e` (cs = |e|/4 checksum bits, `sentence e cs chk` has `chk` in the last cs bits of its last
    word) `EntropyFromMnemonic` accepts exactly the one whose bits are the first cs bits of SHA-256(e),
    and answers `ErrChecksumIncorrect` for all others. -/
theorem bip39_checksum_detects (C : WalletCrypto) (e : Bytes) (cs chk : Nat)
    (hl : e.length = 4 * cs) (h4 : 4 ≤ cs) (h8 : cs ≤ 8) (hchk : chk < 2 ^ cs) :
    (chk = checksumBits C e cs → Bip39.entropyFromMnemonic C (sentence e cs chk) = .ok e) ∧
    (chk ≠ checksumBits C e cs → Bip39.entropyFromMnemonic C (sentence e cs chk) = .error .checksum) := by
  unfold sentence
  rw [entropy_of_digits C e cs chk hl (by omega) hchk]
  constructor
  · intro h; simp [h, checksumBits]
  · intro h
    have : chk ≠ ((C.sha256 e).headD 0).toNat / 2 ^ (8 - cs) := h
    rw [if_pos this]

/-- non-vacuity of the hypotheses of `bip39_checksum_detects` -/
example : (List.replicate 16 (0 : UInt8)).length = 4 * 4 ∧ 4 ≤ 4 ∧ 4 ≤ 8 ∧ 3 < 2 ^ 4 := by decide

/-- Uniqueness (the strong form of "the checksum detects errors"): whatever `EntropyFromMnemonic`
    accepts is, word for word, the sentence that `NewMnemonic` generates for the entropy it returns. So a
    sentence in which any word was replaced, dropped, added or moved is accepted only if it happens to BE
    the generated sentence of some (other) entropy — there are no "almost valid" sentences, no accepted
    sentence with a word outside the list, and white space is the only freedom. -/
theorem bip39_accepts_only_generated (C : WalletCrypto) (m e : Bytes)
    (h : Bip39.entropyFromMnemonic C m = .ok e) :
    Bip39.newMnemonic C e = .ok (Bip39.joinSp (Bip39.fields m)) := by
  obtain ⟨cs, h4, h8, hl, hf⟩ := entropy_unique C m e h
  rw [newMnemonic_sentence C e cs hl h4 h8, hf]
  rfl

/-- non-vacuity: by `bip39_roundtrip` every generated sentence is accepted, so the hypothesis holds e.g.
    for the sentence of 16 zero bytes under any hash function -/
example (C : WalletCrypto) : ∃ m, Bip39.entropyFromMnemonic C m = .ok (List.replicate 16 0) := by
  obtain ⟨m, _, h⟩ := bip39_roundtrip C (List.replicate 16 0) (Or.inl (by simp))
  exact ⟨m, h⟩

/-- `MnemonicToByteArray` splits the sentence with `strings.Split(m, " ")` although the validity check in front
    of it (`EntropyFromMnemonic`) uses `strings.Fields` (observation 4 of the first report). The two agree on
    every sentence that is a single-space join of non-empty white-space-free words — which is what
    `NewMnemonic` produces — and on every sentence the wallet's bip39 = -1 branch hands over
    (`normalizeMnemonic`), so inside make_wallet the discrepancy cannot be reached. -/
theorem split_agrees_with_fields (ws : List Bytes) (hne : ws ≠ []) (h : ∀ w ∈ ws, noSpace w) (pass : Bytes) :
    Bip39.splitSp (Bip39.joinSp ws) = Bip39.fields (Bip39.joinSp ws) ∧
    (normalizeMnemonic pass = [] ∨
      Bip39.splitSp (normalizeMnemonic pass) = Bip39.fields (normalizeMnemonic pass)) :=
  ⟨by rw [splitSp_joinSp ws hne h, fields_joinSp ws h], normalize_split_eq_fields pass⟩

/-- non-vacuity -/
example : ([[97]] : List Bytes) ≠ [] ∧ ∀ w ∈ ([[97]] : List Bytes), noSpace w := by
  refine ⟨by decide, fun w hw => ?_⟩
  simp only [List.mem_singleton] at hw
  subst hw
  exact ⟨by decide, by decide⟩

/-- … and outside that set they differ: "a␣␣b" (two spaces) splits into three pieces, the middle one empty
    (`MnemonicToByteArray` then looks "" up in the word map and silently uses index 0), while
    `strings.Fields` sees two words. Reached only through the bip39 API, not through the wallet. -/
theorem split_differs_from_fields_witness :
    Bip39.splitSp [97, 32, 32, 98] = [[97], [], [98]] ∧ Bip39.fields [97, 32, 32, 98] = [[97], [98]] := by
  decide

/-! ### BIP32 -/

/-- `HDWallet.Child` on a private extended key IS BIP32's CKDpriv whenever CKDpriv is defined: for a
    well-formed private key (private version bytes, key = 00‖ser256(k), k ≢ 0 mod n) and any index
    i < 2³², if `CKDpriv((k,c),i) = (k',c')` (i.e. I_L < n and k' ≠ 0) then `Child` returns the extended
    key with key 00‖ser256(k'), chain code c', depth+1 (mod 256), child number i, the same version and
    the parent fingerprint HASH160(serP(k·G))[0:4]. No hypothesis about the curve: k·G is finite because
    G has order n (`Props.C03.generator_order`). -/
theorem ckd_priv_spec (C : WalletCrypto) (w : HDWallet) (k i k' : Nat) (c' : Bytes)
    (hw : PrivWF w k) (hi : i < 2 ^ 32) (hk0 : k % Secp.n ≠ 0)
    (hspec : Spec.Bip32.ckdPriv C.hmac512 k w.chCode i = some (k', c')) :
    child C w i = .ok { pfx := w.pfx, depth := (w.depth + 1) % 256, idx := i, chCode := c',
                        checksum := Spec.Bip32.fingerprint C.hash160 (Spec.Bip32.point k),
                        key := 0 :: Spec.Bip32.ser256 k' } := by
  obtain ⟨P, hP⟩ := mul_G_some k hk0
  rw [child_priv_eq C w k i P hw hi hP]
  have hk := hw.2.1
  unfold Spec.Bip32.ckdPriv at hspec
  simp only [Spec.Bip32.point, hP, Spec.Bip32.serP, Spec.Bip32.ser32, Spec.Bip32.parse256,
    List.cons_append, List.nil_append] at hspec
  rw [hk]
  by_cases h31 : i ≥ 2 ^ 31
  · simp only [h31, ↓reduceIte] at hspec ⊢
    split at hspec
    · simp at hspec
    · simp only [Option.some.injEq, Prod.mk.injEq] at hspec
      obtain ⟨rfl, rfl⟩ := hspec
      simp [Spec.Bip32.fingerprint, Spec.Bip32.point, hP, Spec.Bip32.serP, Spec.Bip32.ser256]
  · simp only [h31, ↓reduceIte] at hspec ⊢
    split at hspec
    · simp at hspec
    · simp only [Option.some.injEq, Prod.mk.injEq] at hspec
      obtain ⟨rfl, rfl⟩ := hspec
      simp [Spec.Bip32.fingerprint, Spec.Bip32.point, hP, Spec.Bip32.serP, Spec.Bip32.ser256]

/-- The deviation from BIP32, stated outright: `Child` on a well-formed private key NEVER skips an index.
    It returns a key for every i < 2³² — also when I_L ≥ n or (I_L + k) mod n = 0, where BIP32 says the
    index is invalid (probability ≈ 2⁻¹²⁷; recorded as an observation, not a finding). -/
theorem child_priv_never_skips (C : WalletCrypto) (w : HDWallet) (k i : Nat)
    (hw : PrivWF w k) (hi : i < 2 ^ 32) (hk0 : k % Secp.n ≠ 0) :
    ∃ w', child C w i = .ok w' := by
  obtain ⟨P, hP⟩ := mul_G_some k hk0
  exact ⟨_, child_priv_eq C w k i P hw hi hP⟩

/-- `HDWallet.Child` on a public extended key IS BIP32's CKDpub whenever CKDpub is defined: for a
    well-formed public key (public version bytes, key = serP(P)) and i < 2³¹, if
    `CKDpub((P,c),i) = (Q,c')` then `Child` returns key serP(Q), chain code c', depth+1, child number i,
    fingerprint HASH160(serP(P))[0:4]. The only requirement on P is that it is a point of the curve
    (`hP`, part of "well-formed public key"); that decompressing serP(P) gives P back is no longer a
    hypothesis (`parse_ser33`, from C03's `parsePubkey_ser33` / `parsePubkey_is_sec1`). -/
theorem ckd_pub_spec (C : WalletCrypto) (w : HDWallet) (i : Nat) (P Q : Nat × Nat) (c' : Bytes)
    (hw : PubWF w P) (hP : Secp.onCurve (some P) = true)
    (hspec : Spec.Bip32.ckdPub C.hmac512 (some P) w.chCode i = some (some Q, c')) :
    child C w i = .ok { pfx := w.pfx, depth := (w.depth + 1) % 256, idx := i, chCode := c',
                        checksum := Spec.Bip32.fingerprint C.hash160 (some P),
                        key := Spec.Bip32.serP (some Q) } := by
  have hk := hw.2.2
  unfold Spec.Bip32.ckdPub at hspec
  split at hspec
  · simp at hspec
  · rename_i h31
    simp only [Spec.Bip32.point, Spec.Bip32.serP, Spec.Bip32.ser32, Spec.Bip32.parse256, ← hk] at hspec
    split at hspec
    · simp at hspec
    · simp only [Option.some.injEq, Prod.mk.injEq] at hspec
      obtain ⟨hQ, rfl⟩ := hspec
      rw [child_pub_eq C w i P Q hw (by omega) (parse_ser33 P hP) hQ]
      simp [Spec.Bip32.fingerprint, Spec.Bip32.serP, hk]

/-- Public derivation commutes with private derivation: for a well-formed private key w (scalar k,
    k ≢ 0 mod n) and a NON-hardened index i < 2³¹, `Pub(Child(w,i)) = Child(Pub(w),i)` — both as results —
    with ONE exception, stated as the second alternative: when the child is the point at infinity (I_L + k ≡ 0
    mod n, the index BIP32 calls invalid; exactly the case of `child_pub_refuses_iff`) NEITHER side yields a key:
    the public side panics ("Invalid public key": `BaseMultiplyAdd` reports false at the point at infinity since
    the `fix:` commit for C08's api-basemultiplyadd-identity) and the private side holds the scalar 0, whose
    public key is nil (`.outside`). Before that commit both sides handed out stale coordinates.
    UNCONDITIONAL: the group-law facts the first version took as hypotheses — (a+k mod n)·G = a·G + k·G
    and parse(serP(P)) = P — are now theorems (`mul_add_mod_G`, `parse_ser33` in Proofs/C14Curve.lean,
    derived from C03's `reference_curve_group_law`, `generator_order` and `parsePubkey_ser33`). -/
theorem pub_commutes (C : WalletCrypto) (w : HDWallet) (k i : Nat)
    (hw : PrivWF w k) (hi : i < 2 ^ 31) (hk0 : k % Secp.n ≠ 0) :
    (child C w i >>= pub) = (pub w >>= fun pw => child C pw i) ∨
    ((child C w i >>= pub) = .error .outside ∧ (pub w >>= fun pw => child C pw i) = .error .panic) := by
  obtain ⟨P, hP⟩ := mul_G_some k hk0
  have hparse : Secp.parsePubkey (Secp.ser33 (some P)) = some P :=
    parse_ser33 P (by rw [← hP]; exact mul_G_onCurve k)
  have hadd : ∀ a : Nat, Secp.mul ((a + k) % Secp.n) Secp.G = Secp.add (Secp.mul a Secp.G) (Secp.mul k Secp.G) :=
    fun a => mul_add_mod_G a k
  have hi2 : i < 2 ^ 32 := Nat.lt_trans hi (by decide)
  have h31 : ¬ (i ≥ 2 ^ 31) := by omega
  rw [child_priv_eq C w k i P hw hi2 hP, pub_priv_eq w k P hw hP]
  simp only [h31, ↓reduceIte, bind, Except.bind]
  obtain ⟨hpriv, hk, hlt⟩ := hw
  obtain ⟨hpub', hnpriv'⟩ := private_publish w.pfx hpriv
  generalize hha : C.hmac512 w.chCode (Secp.ser33 (some P) ++ beBytes 4 i) = ha
  -- left: Pub of the child
  have hnpub : isPublicPfx w.pfx = false := by
    have : w.pfx ∈ Gen.HDConsts.setIsPrivateHDPrefix := by simpa [isPrivatePfx] using hpriv
    simp only [Gen.HDConsts.setIsPrivateHDPrefix, List.mem_cons, List.not_mem_nil, or_false] at this
    rcases this with h | h | h | h | h | h <;> rw [h] <;> decide
  have hkk : (beVal (ha.take 32) + k) % Secp.n < 2 ^ 256 :=
    Nat.lt_trans (Nat.mod_lt _ (by decide)) (by decide)
  have hval : beVal (beBytes 32 ((beVal (ha.take 32) + k) % Secp.n)) = (beVal (ha.take 32) + k) % Secp.n := by
    rw [beVal_beBytes]; exact Nat.mod_eq_of_lt (by simpa using hkk)
  have hsum := hadd (beVal (ha.take 32))
  rw [hP] at hsum
  -- right: Child of Pub
  unfold pub child
  simp only [hnpub, Bool.false_eq_true, ↓reduceIte, List.length_cons, beBytes_length,
    ne_eq, not_true_eq_false, List.drop_succ_cons, List.drop_zero, publicFromPrivate, hnpriv', hpub', hardenedFrom_eq,
    h31, ser33_length, false_or, Nat.not_le.mpr hi2, baseMultiplyAdd, hha]
  rw [hval, hsum]
  simp only [hparse]
  cases hsumv : Secp.add (Secp.mul (beVal (ha.take 32)) Secp.G) (some P) with
  | none => right; simp [serPoint]
  | some Q => left; simp [serPoint]

/-- non-vacuity of `PrivWF` / `k ≢ 0`: the extended key with scalar 1 -/
example : PrivWF { chCode := List.replicate 32 0, key := 0 :: Spec.Bip32.ser256 1, pfx := Gen.HDConsts.pfxPrivate,
                   idx := 0, checksum := [0, 0, 0, 0], depth := 0 } 1 ∧ 1 % Secp.n ≠ 0 := by
  refine ⟨⟨by decide, rfl, by decide⟩, by decide⟩

/-- non-vacuity of `PubWF` / `onCurve`: the public extended key holding G -/
example : PubWF { chCode := List.replicate 32 0, key := Secp.ser33 Secp.G, pfx := Gen.HDConsts.pfxPublic,
                  idx := 0, checksum := [0, 0, 0, 0], depth := 0 } (Secp.Gx, Secp.Gy) ∧
    Secp.onCurve (some (Secp.Gx, Secp.Gy)) = true := by
  refine ⟨⟨by decide, by decide, rfl⟩, by decide +kernel⟩

/-- non-vacuity of the `hspec` hypothesis of `ckd_priv_spec`: with a toy HMAC (constant 64 bytes 01)
    CKDpriv of the scalar 1 is defined for the hardened index 2³¹ -/
example : (Spec.Bip32.ckdPriv (fun _ _ => List.replicate 64 1) 1 (List.replicate 32 0) (2 ^ 31)).isSome = true := by
  decide +kernel

/-- The region where `Child` on a private key leaves the model, exactly: for a well-formed private key with
    scalar k and any i < 2³², `Child` is `.outside` (`PublicFromPrivate` returns nil — `BaseMultiply` reports
    false at the point at infinity since the `fix:` commit for C08's api-basemultiply-identity — and gocoin
    goes on deriving from the nil public key) IF AND ONLY IF k ≡ 0 mod n; otherwise it returns a key
    (`child_priv_never_skips`). So the "outside" marking of the private side is one residue class — the harness
    runs the real code there and judges it by the BIP32 reference only. -/
theorem child_priv_outside_iff (C : WalletCrypto) (w : HDWallet) (k i : Nat)
    (hw : PrivWF w k) (hi : i < 2 ^ 32) :
    child C w i = .error .outside ↔ k % Secp.n = 0 := by
  constructor
  · intro h
    apply Classical.byContradiction
    intro hk0
    obtain ⟨w', hw'⟩ := child_priv_never_skips C w k i hw hi hk0
    rw [hw'] at h; cases h
  · intro h
    exact child_priv_inf C w k i hw hi ((mul_G_none_iff k).mpr h)

/-- non-vacuity: the key with scalar 0 is well formed -/
example : PrivWF { chCode := List.replicate 32 0, key := 0 :: Spec.Bip32.ser256 0, pfx := Gen.HDConsts.pfxPrivate,
                   idx := 0, checksum := [0, 0, 0, 0], depth := 0 } 0 := ⟨by decide, rfl, by decide⟩

/-- The same for the public side: for the public extended key of the scalar k (key = serP(k·G), k ≢ 0) and
    a non-hardened i, `Child` PANICS ("HDWallet.Child(): Invalid public key") IF AND ONLY IF I_L + k ≡ 0 mod n
    (the sum is the point at infinity — BIP32 says "invalid, proceed with the next i"; `BaseMultiplyAdd` reports
    false there since the `fix:` commit for C08's finding api-basemultiplyadd-identity — before it, gocoin
    handed out stale coordinates (−G for k = 1) as the child key and the model marked the case `.outside`);
    otherwise it returns a key. -/
theorem child_pub_refuses_iff (C : WalletCrypto) (w : HDWallet) (k i : Nat) (P : Nat × Nat)
    (hw : PubWF w P) (hP : Secp.mul k Secp.G = some P) (hi : i < 2 ^ 31) :
    (child C w i = .error .panic ↔
      (beVal ((C.hmac512 w.chCode (w.key ++ beBytes 4 i)).take 32) + k) % Secp.n = 0) ∧
    ((beVal ((C.hmac512 w.chCode (w.key ++ beBytes 4 i)).take 32) + k) % Secp.n ≠ 0 → ∃ w', child C w i = .ok w') := by
  have hon : Secp.onCurve (some P) = true := by rw [← hP]; exact mul_G_onCurve k
  have hparse := parse_ser33 P hon
  have hiff := add_mul_G_none_iff (beVal ((C.hmac512 w.chCode (w.key ++ beBytes 4 i)).take 32)) k
  rw [hP] at hiff
  have hok : (beVal ((C.hmac512 w.chCode (w.key ++ beBytes 4 i)).take 32) + k) % Secp.n ≠ 0 →
      ∃ w', child C w i = .ok w' := by
    intro hne
    cases hQ : Secp.add (Secp.mul (beVal ((C.hmac512 w.chCode (w.key ++ beBytes 4 i)).take 32)) Secp.G) (some P) with
    | none => exact absurd (hiff.mp hQ) hne
    | some Q => exact ⟨_, child_pub_eq C w i P Q hw hi hparse hQ⟩
  refine ⟨⟨fun h => ?_, fun h => child_pub_inf C w i P hw hi hparse (hiff.mpr h)⟩, hok⟩
  apply Classical.byContradiction
  intro hne
  obtain ⟨w', hw'⟩ := hok hne
  rw [hw'] at h; cases h

/-- non-vacuity: the public key of the scalar 1 -/
example : PubWF { chCode := List.replicate 32 0, key := Secp.ser33 Secp.G, pfx := Gen.HDConsts.pfxPublic,
                  idx := 0, checksum := [0, 0, 0, 0], depth := 0 } (Secp.Gx, Secp.Gy) ∧
    Secp.mul 1 Secp.G = some (Secp.Gx, Secp.Gy) := ⟨⟨by decide, by decide, rfl⟩, by decide +kernel⟩

/-! ### extended public keys whose key bytes are no curve point (finding `xpub-noncanonical-x`, fixed) -/

/-- Import checks the point (BIP32: "verify whether the X coordinate in the public key data corresponds to a
    point on the curve"): whatever `StringWallet` accepts under a PUBLIC version has 33 key bytes that strict SEC1
    parsing reads as a point P of the curve — first byte 02/03, x < p, x³+7 a square. True of the code since the
    `fix:` commit (before, `ByteCheck` ignored `ParsePubkey`'s verdict and 02‖(p+1) was imported). -/
theorem xpub_import_is_curve_point (C : WalletCrypto) (s : Bytes) (w : HDWallet)
    (h : stringWallet C s = .ok w) (hpub : isPublicPfx w.pfx = true) :
    w.key.length = 33 ∧ ∃ P, Secp.parsePubkey w.key = some P ∧ Secp.onCurve (some P) = true := by
  obtain ⟨hl, P, hP⟩ := parseBytes_pub_point C _ w h hpub
  exact ⟨hl, P, hP, parse33_onCurve _ P hl hP⟩

/-- … and the refusal, stated on the bytes: 82 bytes with a public version whose key bytes do not parse are
    refused with "Invalid public key" — before the checksum is even looked at. -/
theorem xpub_noncanonical_refused (C : WalletCrypto) (dbin : Bytes) (hl : dbin.length = 82)
    (hpub : isPublicPfx (beVal (dbin.take 4)) = true)
    (hk : Secp.parsePubkey ((dbin.drop 45).take 33) = none) : parseBytes C dbin = .error .pubkey := by
  unfold parseBytes byteCheck
  simp [hl, hpub, hk]

/-- non-vacuity, and the witnesses of the finding: 02‖(p+1), 03‖(p+1), 02‖(2²⁵⁶−1) (x ≥ p; gocoin used to reduce
    x mod p and accept) and 02‖5 (x < p, x³+7 not a square) do not parse -/
example : Secp.parsePubkey (2 :: beBytes 32 (Secp.p + 1)) = none ∧ Secp.parsePubkey (3 :: beBytes 32 (Secp.p + 1)) = none ∧
    Secp.parsePubkey (2 :: beBytes 32 (2 ^ 256 - 1)) = none ∧ Secp.parsePubkey (2 :: beBytes 32 5) = none := by
  decide +kernel

/-- `Child` on a public extended key whose key bytes are no curve point derives NOTHING: it panics
    ("HDWallet.Child(): Invalid public key"). Before the `fix:` commit it returned a child whose key was 33 zero
    bytes, without any error. -/
theorem child_pub_invalid_panics (C : WalletCrypto) (w : HDWallet) (i : Nat)
    (hpub : isPublicPfx w.pfx = true) (hlen : w.key.length = 33) (hi : i < 2 ^ 31)
    (hk : Secp.parsePubkey w.key = none) : child C w i = .error .panic := by
  rw [child_pub_cases C w i hpub (public_not_private _ hpub) hlen hi, hk]

/-- non-vacuity: the extended public key holding 02‖(p+1) -/
example (C : WalletCrypto) :
    child C { chCode := List.replicate 32 0, key := 2 :: beBytes 32 (Secp.p + 1), pfx := Gen.HDConsts.pfxPublic,
              idx := 0, checksum := [0, 0, 0, 0], depth := 0 } 0 = .error .panic :=
  child_pub_invalid_panics C _ 0 (by decide) (by decide) (by decide) (by decide +kernel)

/-- Conversely, whenever `Child` on a public extended key (33 key bytes, non-hardened index) returns a key at all,
    the parent bytes parse as a curve point P, and the child key is serP(Q) for the FINITE curve point
    Q = I_L·G + P — which strict parsing reads back as Q. In particular the all-zero key is never returned. -/
theorem child_pub_result_is_point (C : WalletCrypto) (w w' : HDWallet) (i : Nat)
    (hpub : isPublicPfx w.pfx = true) (hlen : w.key.length = 33) (hi : i < 2 ^ 31)
    (h : child C w i = .ok w') :
    ∃ P Q, Secp.parsePubkey w.key = some P ∧
      Secp.add (Secp.mul (beVal ((C.hmac512 w.chCode (w.key ++ beBytes 4 i)).take 32)) Secp.G) (some P) = some Q ∧
      w'.key = Secp.ser33 (some Q) ∧ Secp.onCurve (some Q) = true ∧ Secp.parsePubkey w'.key = some Q := by
  rw [child_pub_cases C w i hpub (public_not_private _ hpub) hlen hi] at h
  cases hP : Secp.parsePubkey w.key with
  | none => rw [hP] at h; cases h
  | some P =>
    rw [hP] at h
    simp only [] at h
    cases hQ : Secp.add (Secp.mul (beVal ((C.hmac512 w.chCode (w.key ++ beBytes 4 i)).take 32)) Secp.G) (some P) with
    | none => rw [hQ] at h; cases h
    | some Q =>
      rw [hQ] at h
      simp only [Except.ok.injEq] at h
      have hon : Secp.onCurve (some Q) = true := by
        rw [← hQ]; exact add_onCurve _ _ (mul_G_onCurve _) (parse33_onCurve _ P hlen hP)
      subst h
      exact ⟨P, Q, rfl, hQ, rfl, hon, parse_ser33 Q hon⟩

/-- "Extended keys re-import to the same keys", closed under public derivation: if `StringWallet` imported the
    extended public key w and `Child(w, i)` (i < 2³¹) returned w', then w'.String() is importable and imports to
    exactly w'. (The finding's symptom was the opposite: an imported xpub whose child's own string was refused.)
    Needs only the output lengths of the hash functions. -/
theorem xpub_child_reimports (C : WalletCrypto) (s : Bytes) (w w' : HDWallet) (i : Nat)
    (hsha : ∀ b, (C.shaHash b).length = 32) (hmac : ∀ k m, (C.hmac512 k m).length = 64)
    (h160 : ∀ b, (C.hash160 b).length = 20)
    (himp : stringWallet C s = .ok w) (hpub : isPublicPfx w.pfx = true) (hi : i < 2 ^ 31)
    (h : child C w i = .ok w') : stringWallet C (HD.toString C w') = .ok w' := by
  obtain ⟨hlen, _⟩ := xpub_import_is_curve_point C s w himp hpub
  obtain ⟨P, Q, _, _, hkey, _, hparse⟩ := child_pub_result_is_point C w w' i hpub hlen hi h
  have hshape := h
  rw [child_pub_cases C w i hpub (public_not_private _ hpub) hlen hi] at hshape
  have hf : w'.pfx = w.pfx ∧ w'.depth = (w.depth + 1) % 256 ∧ w'.checksum = (C.hash160 w.key).take 4 ∧ w'.idx = i ∧
      w'.chCode = (C.hmac512 w.chCode (w.key ++ beBytes 4 i)).drop 32 := by
    cases hP : Secp.parsePubkey w.key with
    | none => rw [hP] at hshape; cases hshape
    | some P' =>
      rw [hP] at hshape
      simp only [] at hshape
      cases hQ' : Secp.add (Secp.mul (beVal ((C.hmac512 w.chCode (w.key ++ beBytes 4 i)).take 32)) Secp.G) (some P') with
      | none => rw [hQ'] at hshape; cases hshape
      | some Q' =>
        rw [hQ'] at hshape
        simp only [Except.ok.injEq] at hshape
        rw [← hshape]; exact ⟨rfl, rfl, rfl, rfl, rfl⟩
  obtain ⟨e1, e2, e3, e4, e5⟩ := hf
  refine stringWallet_toString C w' ⟨Or.inr (by rw [e1]; exact hpub), by rw [e2]; exact Nat.mod_lt _ (by decide), ?_, ?_, ?_, ?_, ?_⟩ hsha
    (b58RoundTrip_of_ne _ (by simp [serialize, serializeBody]))
  · rw [e3]; simp [h160]
  · rw [e4]; exact Nat.lt_trans hi (by decide)
  · rw [e5]; simp [hmac]
  · rw [hkey]; exact ser33_length Q
  · intro _ hn; rw [hparse] at hn; cases hn

/-- non-vacuity of `xpub_import_is_curve_point`, `child_pub_result_is_point` and `xpub_child_reimports`, jointly: with
    toy hash functions of the right output lengths (HMAC: I_L = 1, `Proofs.C14.toyC`) the extended public key holding G
    is imported from its own string, it is a public version with 33 key bytes, and `Child(·, 0)` returns a key (2·G) —
    all hypotheses of the three theorems hold together. -/
example : ∃ s w w', stringWallet toyC s = .ok w ∧ isPublicPfx w.pfx = true ∧ w.key.length = 33 ∧ (0 : Nat) < 2 ^ 31 ∧
    child toyC w 0 = .ok w' ∧ (∀ b, (toyC.shaHash b).length = 32) ∧ (∀ k m, (toyC.hmac512 k m).length = 64) ∧
    (∀ b, (toyC.hash160 b).length = 20) := by
  obtain ⟨w', hw'⟩ := ok_of_isSome _ toy_child_pub
  exact ⟨HD.toString toyC toyPub, toyPub, w', stringWallet_toString toyC toyPub toyPub_serWF toyC_lens.1
      (b58RoundTrip_of_ne _ (by simp [serialize, serializeBody])), by decide, by decide,
    by decide, hw', toyC_lens⟩

/-! ### the wallet's path walk and key list -/

/-- The path walk of `make_wallet` is iterated `Child` along the configured path: the wallet that
    generates the keys is `derive root (all elements but the last)`, and the remembered parent (used for
    hdsubs) is the wallet one element earlier together with that element. -/
theorem path_walk_spec (C : WalletCrypto) (xs : List Nat) (root w' : HDWallet) (prv' : Option (HDWallet × Nat))
    (h : walkPath C xs root none = .ok (w', prv')) :
    derive C root xs = .ok w' ∧ (xs = [] → prv' = none) ∧
    (xs ≠ [] → ∃ pw, prv' = some (pw, xs.getLast?.getD 0) ∧ derive C root xs.dropLast = .ok pw ∧
                 child C pw (xs.getLast?.getD 0) = .ok w') :=
  walkPath_spec C xs root w' none prv' h

/-- The wallet's path walk IS BIP32 private derivation along the path: for a well-formed private root
    (scalar k in 1..n−1), a path of indexes < 2³², if BIP32's iterated CKDpriv is defined along the whole
    path and yields (k', c'), then iterated `Child` (= `walkPath`, see `path_walk_spec`) yields the
    extended key with key 00‖ser256(k'), chain code c' and the same version. UNCONDITIONAL: that j·G is a
    finite point for 0 < j < n is C03's `generator_order` (imported through `mul_G_some`). -/
theorem derive_is_bip32 (C : WalletCrypto) (path : List Nat) (w : HDWallet) (k k' : Nat) (c' : Bytes)
    (hw : PrivWF w k) (hk : 0 < k ∧ k < Secp.n)
    (hpath : ∀ i ∈ path, i < 2 ^ 32)
    (hspec : Spec.Bip32.derivePriv C.hmac512 (k, w.chCode) path = some (k', c')) :
    ∃ w', derive C w path = .ok w' ∧ w'.key = 0 :: Spec.Bip32.ser256 k' ∧ w'.chCode = c' ∧ w'.pfx = w.pfx := by
  induction path generalizing w k with
  | nil =>
    simp only [Spec.Bip32.derivePriv, Option.some.injEq, Prod.mk.injEq] at hspec
    obtain ⟨rfl, rfl⟩ := hspec
    exact ⟨w, rfl, hw.2.1, rfl, rfl⟩
  | cons i t ih =>
    simp only [Spec.Bip32.derivePriv] at hspec
    cases hs : Spec.Bip32.ckdPriv C.hmac512 k w.chCode i with
    | none => simp [hs] at hspec
    | some kc =>
      obtain ⟨k1, c1⟩ := kc
      simp only [hs] at hspec
      have hk0 : k % Secp.n ≠ 0 := by rw [Nat.mod_eq_of_lt hk.2]; omega
      have hi := hpath i List.mem_cons_self
      have hchild := ckd_priv_spec C w k i k1 c1 hw hi hk0 hs
      have hr := ckdPriv_range _ _ _ _ _ _ hs
      have hw1 : PrivWF { pfx := w.pfx, depth := (w.depth + 1) % 256, idx := i, chCode := c1,
                          checksum := Spec.Bip32.fingerprint C.hash160 (Spec.Bip32.point k),
                          key := 0 :: Spec.Bip32.ser256 k1 } k1 :=
        ⟨hw.1, rfl, Nat.lt_trans hr.2 (by decide)⟩
      obtain ⟨w', e1, e2, e3, e4⟩ := ih _ k1 hw1 hr (fun x hx => hpath x (List.mem_cons_of_mem _ hx)) hspec
      exact ⟨w', by simp [derive, hchild, e1], e2, e3, e4⟩

/-- non-vacuity of `derive_is_bip32`'s hypotheses on a NON-EMPTY path: the private extended key with scalar 1
    (`toyPriv`, well-formed), the path [0'] (one hardened step, index 2³¹ < 2³²), toy HMAC with I_L = 1: BIP32's
    derivation is defined and gives scalar 2 -/
example : PrivWF toyPriv 1 ∧ 0 < 1 ∧ 1 < Secp.n ∧ (∀ i ∈ [2 ^ 31], i < 2 ^ 32) ∧
    Spec.Bip32.derivePriv toyC.hmac512 (1, toyPriv.chCode) [2 ^ 31] = some (2, List.replicate 32 0) :=
  ⟨⟨by decide, rfl, by decide⟩, by decide, by decide, by decide, toy_spec_derive⟩

/-- non-vacuity of `path_walk_spec`: the walk over the one-element path [0'] succeeds (and the empty one trivially) -/
example : (∃ r, walkPath toyC [2 ^ 31] toyPriv none = .ok r) ∧
    ∀ (C : WalletCrypto) (root : HDWallet), walkPath C [] root none = .ok (root, none) :=
  ⟨ok_of_isSome _ toy_walk, fun _ _ => rfl⟩

/-- The key list of one pass: exactly `keycnt` keys, the j-th being the key bytes of
    `Child(hdwal, (j + hdpath_last) mod 2³²)` — consecutive BIP32 children of the leaf account (uint32
    wrap-around made explicit: an index that runs past 2³¹−1 turns hardened, see the evidence notes). -/
theorem key_list_spec (C : WalletCrypto) (hdwal : HDWallet) (last : Nat) (pre : Bytes) (keycnt : Nat)
    (ks : List (Bytes × Bytes)) (h : type4Pass C hdwal last pre keycnt 0 = .ok ks) :
    ks.length = keycnt ∧ ∀ j (hj : j < ks.length), ∃ hd, child C hdwal ((j + last) % 2 ^ 32) = .ok hd ∧
      (ks[j]).1 = hd.key.drop 1 := by
  obtain ⟨h1, h2⟩ := type4Pass_spec C hdwal last pre keycnt 0 ks h
  refine ⟨h1, fun j hj => ?_⟩
  obtain ⟨hd, e1, e2⟩ := h2 j hj
  exact ⟨hd, by simpa using e1, e2⟩

/-- non-vacuity: a pass that lists ONE key (child 0 of the toy account) succeeds -/
example : ∃ ks, type4Pass toyC toyPriv 0 [] 1 0 = .ok ks := ok_of_isSome _ toy_pass1

/-- The uint32 wrap of `hdpath_last + i`, stated exactly (observation 2 of the first report). For a last
    path element `last` < 2³² and key number j < 2³¹, write b = last mod 2³¹ (the number printed in the
    label). The j-th key of a pass is `Child(hdwal, idx)` with idx = (j + last) mod 2³², its label is
    pre/‹(j + b) mod 2³²›[']  with the quote iff `last` is hardened, and
      * while j + b < 2³¹ the key is the BIP32 child the label names: idx = last + j, hardened iff `last` is;
      * from j = 2³¹ − b on (the index "runs past 2³¹−1"):
          – non-hardened `last`: idx = last + j ≥ 2³¹, i.e. the HARDENED child (last + j − 2³¹)' — while the
            label shows the number last + j ≥ 2³¹ without a quote (not a BIP32 path element);
          – hardened `last`: idx = j + b − 2³¹ < 2³¹, i.e. the NON-hardened children 0, 1, 2, … — while the
            label shows (j + b)' .
    The wallet accepts such configurations; BIP32 has no such path. -/
theorem key_index_wrap (C : WalletCrypto) (hdwal : HDWallet) (last : Nat) (pre : Bytes) (keycnt : Nat)
    (ks : List (Bytes × Bytes)) (h : type4Pass C hdwal last pre keycnt 0 = .ok ks)
    (hl : last < 2 ^ 32) (j : Nat) (hj : j < ks.length) (hj31 : j < 2 ^ 31) :
    (∃ hd, child C hdwal ((j + last) % 2 ^ 32) = .ok hd ∧ (ks[j]).1 = hd.key.drop 1) ∧
    (ks[j]).2 = pre ++ [47] ++ decStr ((j + last % 2 ^ 31) % 2 ^ 32) ++ (if last ≥ 2 ^ 31 then [39] else []) ∧
    (j + last % 2 ^ 31 < 2 ^ 31 → (j + last) % 2 ^ 32 = last + j ∧ ((j + last) % 2 ^ 32 ≥ 2 ^ 31 ↔ last ≥ 2 ^ 31)) ∧
    (j + last % 2 ^ 31 ≥ 2 ^ 31 → last < 2 ^ 31 → (j + last) % 2 ^ 32 = last + j ∧ (j + last) % 2 ^ 32 ≥ 2 ^ 31) ∧
    (j + last % 2 ^ 31 ≥ 2 ^ 31 → last ≥ 2 ^ 31 →
      (j + last) % 2 ^ 32 = j + last % 2 ^ 31 - 2 ^ 31 ∧ (j + last) % 2 ^ 32 < 2 ^ 31) := by
  obtain ⟨_, h2⟩ := key_list_spec C hdwal last pre keycnt ks h
  have hlab := type4Pass_label C hdwal last pre keycnt 0 ks h j hj
  rw [hardenedFrom_eq] at hlab
  refine ⟨h2 j hj, by simpa using hlab, ?_, ?_, ?_⟩ <;> omega

/-- non-vacuity of ALL hypotheses in the wrapped branch: last = 2³¹−1, two keys — the pass succeeds with 2 keys, and
    key j = 1 (< 2, < 2³¹) is the one whose index runs past 2³¹−1 -/
example : ∃ ks, type4Pass toyC toyPriv (2 ^ 31 - 1) [] 2 0 = .ok ks ∧ 2 ^ 31 - 1 < 2 ^ 32 ∧ 1 < ks.length ∧ 1 < 2 ^ 31 ∧
    1 + (2 ^ 31 - 1) % 2 ^ 31 ≥ 2 ^ 31 := by
  obtain ⟨ks, hks, hl⟩ := toy_pass_wrap'
  exact ⟨ks, hks, by decide, by omega, by decide, by decide⟩

/-- the arithmetic side conditions of the wrapped branches: last = 2³¹−1, key 1 and last = 2³²−1, key 1 -/
example : (1 + (2 ^ 31 - 1) % 2 ^ 31 ≥ 2 ^ 31 ∧ 2 ^ 31 - 1 < 2 ^ 31) ∧
    (1 + (2 ^ 32 - 1) % 2 ^ 31 ≥ 2 ^ 31 ∧ 2 ^ 32 - 1 ≥ 2 ^ 31 ∧ 2 ^ 32 - 1 < 2 ^ 32) := by decide

/-- hdsubs, one step: sub-account number `sub` re-derives the account from the remembered parent at index
    (prvidx + sub) mod 2³² — the element before the last one of the path advanced by `sub` — lists `keycnt`
    keys of it exactly like the first pass, and continues with sub+1. -/
theorem hdsubs_step_spec (C : WalletCrypto) (prvwal : HDWallet) (prvidx last keycnt k sub : Nat) (pre : Bytes)
    (ks : List (Bytes × Bytes)) (h : type4Subs C prvwal prvidx last keycnt (k + 1) sub pre = .ok ks) :
    ∃ acct ks0 rest, child C prvwal ((prvidx + sub) % 2 ^ 32) = .ok acct ∧
      type4Pass C acct last (subLabel pre prvidx sub) keycnt 0 = .ok ks0 ∧
      type4Subs C prvwal prvidx last keycnt k (sub + 1) (subLabel pre prvidx sub) = .ok rest ∧
      ks = ks0 ++ rest :=
  type4Subs_step C prvwal prvidx last keycnt k sub pre ks h

/-- non-vacuity of the hypothesis (k + 1 = 1: ONE further sub-account, one key in it): sub-account 1 of the toy parent
    is derived and listed -/
example : ∃ ks, type4Subs toyC toyPriv 0 0 1 (0 + 1) 1 [] = .ok ks := ok_of_isSome _ toy_subs

/-! ### round trips -/

/-- `StringWallet(w.Serialize())` at the byte level: for every well-formed extended key (known version
    bytes, depth < 256, 4-byte fingerprint, index < 2³², 32-byte chain code, 33-byte key that — for public
    versions — is a curve point) parsing the 82 serialized bytes returns exactly `w`. Needs only that the
    hash returns 32 bytes. -/
theorem serialize_roundtrip_bytes (C : WalletCrypto) (w : HDWallet) (hw : SerWF w)
    (hlen : ∀ b, (C.shaHash b).length = 32) : parseBytes C (serialize C w) = .ok w :=
  parseBytes_serialize C w hw hlen

/-- `StringWallet(w.String()) = w` for every well-formed extended key (Base58 layer included: the
    Base58 round trip is C15's theorem `Base58.decode_encode`, imported, not assumed). -/
theorem serialize_roundtrip (C : WalletCrypto) (w : HDWallet) (hw : SerWF w)
    (hlen : ∀ b, (C.shaHash b).length = 32) :
    stringWallet C (HD.toString C w) = .ok w :=
  stringWallet_toString C w hw hlen (b58RoundTrip_of_ne _ (by simp [serialize, serializeBody]))

/-- non-vacuity of `SerWF`: the private key with scalar 1 -/
example : SerWF { chCode := List.replicate 32 0, key := 0 :: Spec.Bip32.ser256 1, pfx := Gen.HDConsts.pfxPrivate,
                  idx := 0, checksum := [0, 0, 0, 0], depth := 0 } := by
  refine ⟨Or.inl (by decide), by decide, rfl, by decide, rfl, rfl, ?_⟩
  intro h; exact absurd h (by decide)

/-- WIF round trip: for a 32-byte key, any version byte, compressed or not: if `NewPrivateAddr` yields `pa`
    and `pa.String()` yields `s` then `DecodePrivateAddr(s)` yields exactly `pa` (same key, version, public
    key, hash). Base58 layer included (C15's `Base58.decode_encode`). -/
theorem wif_roundtrip (C : WalletCrypto) (key : Bytes) (ver : UInt8) (compr : Bool) (pa : PrivAddr) (s : Bytes)
    (hk : key.length = 32) (hlen : ∀ b, (C.shaHash b).length = 32)
    (hnew : newPrivateAddr C key ver compr = .ok pa) (hs : privAddrString C pa = .ok s) :
    decodePrivateAddr C s = .ok (.ok pa) := by
  refine wif_roundtrip_core C key ver compr pa s hk hlen hnew hs (fun b hb => b58RoundTrip_of_ne b ?_)
  intro hb0
  subst hb0
  -- the encoded payload is never empty, so `s` is not the encoding of the empty string
  unfold privAddrString at hs
  split at hs
  · simp only [Except.ok.injEq] at hs
    rw [← hs] at hb
    exact b58_encode_ne_nil _ (by simp) hb
  · split at hs
    · simp only [Except.ok.injEq] at hs
      rw [← hs] at hb
      exact b58_encode_ne_nil _ (by simp) hb
    · simp at hs

/-- non-vacuity: key 00…01 has a public key, so `NewPrivateAddr` succeeds -/
example : (publicFromPrivate (Spec.Bip32.ser256 1) true).isSome = true := by
  decide +kernel

/-- WIF IMPORT direction (holds since the `fix:` commit for finding `wif-flag-byte-unchecked`; before it, a
    38-byte payload with a flag byte other than 01 imported as the uncompressed record, whose `String()` is a
    different string): for EVERY string, if `DecodePrivateAddr(s)` yields the record `pa`, then `pa.String()`
    is exactly `s` and the key has 32 bytes. With `wif_roundtrip`: a string is importable as `pa` iff it is the
    export of `pa`. -/
theorem wif_import_is_export (C : WalletCrypto) (s : Bytes) (pa : PrivAddr)
    (h : decodePrivateAddr C s = .ok (.ok pa)) : privAddrString C pa = .ok s ∧ pa.key.length = 32 :=
  privAddrString_of_decode C s pa h

/-- hence two strings that import to the same key record (key, version, public key form, hash) are the same
    string: a key has exactly one importable spelling per compression choice and version byte. -/
theorem wif_import_unique (C : WalletCrypto) (s s' : Bytes) (pa : PrivAddr)
    (h : decodePrivateAddr C s = .ok (.ok pa)) (h' : decodePrivateAddr C s' = .ok (.ok pa)) : s = s' :=
  decodePrivateAddr_inj C s s' pa h h'

/-- non-vacuity of the two theorems above: by `wif_roundtrip` every exported string of a key with a public key
    (e.g. 00…01, example above) is accepted with a record. -/
example (C : WalletCrypto) (hlen : ∀ b, (C.shaHash b).length = 32) :
    ∃ s pa, decodePrivateAddr C s = .ok (.ok pa) := by
  have hp : (publicFromPrivate (Spec.Bip32.ser256 1) true).isSome = true := by decide +kernel
  obtain ⟨pb, hpb⟩ := Option.isSome_iff_exists.mp hp
  have hnew : newPrivateAddr C (Spec.Bip32.ser256 1) 0x80 true =
      .ok { key := Spec.Bip32.ser256 1, version := 0x80, addrVersion := 0x80 - 0x80, pubkey := pb, h160 := C.hash160 pb } := by
    simp [newPrivateAddr, hpb]
  have hpl := AddrWif.pub_length _ _ _ hpb
  refine ⟨Base58.encode ((0x80 : UInt8) :: (Spec.Bip32.ser256 1 ++ [1]) ++
      (C.shaHash ((0x80 : UInt8) :: (Spec.Bip32.ser256 1 ++ [1]))).take 4), _,
    wif_roundtrip C _ 0x80 true _ _ (by decide) hlen hnew ?_⟩
  simp [privAddrString, hpl]

/-! ### address ↔ signing key, determinism -/

/-- Every key record the wallet lists is internally consistent: the public key is the public key of the
    private key, the hash is its HASH160, the P2KH address is the Base58Check of (ver_pubkey, hash), the
    WIF is the encoding of that private key under ver_secret, and the address printed by `-l` is — per
    address type — the P2KH address, the P2SH-P2WPKH address of the hash, the P2WPKH program of the hash,
    or the P2TR program holding the x-only public key. -/
theorem address_is_listed_key (C : WalletCrypto) (c : Config) (kl : Bytes × Bytes) (r : KeyRec)
    (h : mkKeyRec C c kl = .ok r) :
    r.priv = kl.1 ∧ publicFromPrivate r.priv true = some r.pubkey ∧ r.h160 = C.hash160 r.pubkey ∧
    r.p2kh = addrStr C (some (.b58 (verPubkey c) r.h160 none)) ∧
    privAddrString C { key := r.priv, version := verSecret c, addrVersion := verPubkey c, pubkey := r.pubkey, h160 := r.h160 } = .ok r.wif ∧
    (c.atype = .p2kh → r.listed = r.p2kh) ∧
    (c.atype = .segwit → r.listed = addrStr C (some (.b58 (verScript c) (C.hash160 ([0, 20] ++ r.h160)) none))) ∧
    (c.atype = .bech32 → r.listed = addrStr C (Addr.fromPkScript C.hashes ([0, 20] ++ r.h160) c.testnet)) ∧
    (c.atype = .tap → r.listed = addrStr C (Addr.fromPkScript C.hashes ([0x51, 32] ++ r.pubkey.drop 1) c.testnet)) :=
  mkKeyRec_spec C c kl r h

/-- non-vacuity: with the toy hash functions the record of the key 00…01 is made (segwit mode) -/
example : ∃ r, mkKeyRec toyC toyCfg (Spec.Bip32.ser256 1, []) = .ok r := ok_of_isSome _ toy_keyrec

/-- The signer's lookup (`hash_to_key_idx`) for the hash of listed key i always finds a key: the FIRST
    index j ≤ i whose P2KH hash or segwit-slot hash equals that hash. (j = i unless two listed keys share a
    20-byte hash — stated honestly: the code returns the first match.) -/
theorem address_is_signing_key (C : WalletCrypto) (c : Config) (keys : List KeyRec) (i : Nat) (hi : i < keys.length) :
    ∃ j, ∃ hj : j < keys.length, j ≤ i ∧ hashToKeyIdx C c keys keys[i].h160 = some j ∧
      (keys[j].h160 = keys[i].h160 ∨ segwitH160 C c keys[j] = keys[i].h160) :=
  hashToKeyIdx_spec C c keys i hi

/-- The same for the P2SH-P2WPKH form (atype = segwit): `-dump <address>` / the signer look the key up by the
    script hash HASH160(0014‖h160) that the listed address of key i carries (`segwitH160`); `hash_to_key_idx`
    finds the first key j ≤ i that answers to that hash — as its P2SH hash or as its P2KH hash. -/
theorem address_is_signing_key_p2sh (C : WalletCrypto) (c : Config) (keys : List KeyRec) (i : Nat) (hi : i < keys.length) :
    ∃ j, ∃ hj : j < keys.length, j ≤ i ∧ hashToKeyIdx C c keys (segwitH160 C c keys[i]) = some j ∧
      (keys[j].h160 = segwitH160 C c keys[i] ∨ segwitH160 C c keys[j] = segwitH160 C c keys[i]) :=
  hashToKeyIdx_of_match C c keys _ i hi (Or.inr rfl)

/-- … and for the taproot form (atype = tap): the 32-byte program of the listed address of key i is its x-only
    public key (`address_is_listed_key`); `public_xo_to_key_idx` finds the first key j ≤ i with that x-only key. -/
theorem address_is_signing_key_tap (keys : List KeyRec) (i : Nat) (hi : i < keys.length) :
    ∃ j, ∃ hj : j < keys.length, j ≤ i ∧
      publicXoToKeyIdx keys ((keys[i].pubkey.drop 1).take 32) = some j ∧
      (keys[j].pubkey.drop 1).take 32 = (keys[i].pubkey.drop 1).take 32 :=
  publicXoToKeyIdx_spec keys i hi

/-- The dispatch of `address_to_key` on the parsed address, so that the three lookup theorems cover every form the
    wallet lists: a Base58 address (P2KH, P2SH) is looked up by its 20-byte hash, a witness program of 20 bytes by
    that program (the key hash), one of 32 bytes as an x-only key; any other program length ends the run. -/
theorem address_lookup_dispatch (C : WalletCrypto) (c : Config) (keys : List KeyRec) (addr : Bytes) :
    (∀ v h ck, Addr.fromString C.hashes addr = .ok (.b58 v h ck) →
      addressToKeyIdx C c keys addr = some (hashToKeyIdx C c keys h)) ∧
    (∀ hrp v prog, Addr.fromString C.hashes addr = .ok (.segwit hrp v prog) → prog.length = 20 →
      addressToKeyIdx C c keys addr = some (hashToKeyIdx C c keys prog)) ∧
    (∀ hrp v prog, Addr.fromString C.hashes addr = .ok (.segwit hrp v prog) → prog.length = 32 →
      addressToKeyIdx C c keys addr = some (publicXoToKeyIdx keys prog)) := by
  refine ⟨fun v h ck e => ?_, fun hrp v prog e hl => ?_, fun hrp v prog e hl => ?_⟩
  · simp [addressToKeyIdx, e]
  · simp [addressToKeyIdx, e, hl]
  · simp [addressToKeyIdx, e, hl]

/-- What `sign_tx` / `pkscr_to_key_idx` find for the output scripts of LISTED key i (the code since /repo ebf80672:
    each template against its own hash only). With 20-byte hashes: the P2PKH script `76 a9 14 h 88 ac` and the P2WPKH
    script `00 14 h` of its public-key hash find the first record j ≤ i with that public-key hash; the P2SH script
    `a9 14 H 87` of H = HASH160(00 14 h) finds — outside bech32/tap mode — the first j ≤ i whose own P2SH-P2WPKH hash
    is H, and NOTHING for any hash in bech32/tap mode (there segwit[] holds witness-program addresses); the P2TR script
    `51 20 x` finds the first j ≤ i with that x-only key. -/
theorem script_lookup_own_forms (C : WalletCrypto) (c : Config) (keys : List KeyRec) (i : Nat) (hi : i < keys.length)
    (hh : keys[i].h160.length = 20) (hp : keys[i].pubkey.length = 33) (hl : ∀ b, (C.hash160 b).length = 20) :
    (∃ j, ∃ hj : j < keys.length, j ≤ i ∧
      Store.scriptToKeyIdx C c keys (Store.p2pkhScr keys[i].h160) = some j ∧ keys[j].h160 = keys[i].h160) ∧
    (∃ j, ∃ hj : j < keys.length, j ≤ i ∧
      Store.scriptToKeyIdx C c keys (Store.p2wpkhScr keys[i].h160) = some j ∧ keys[j].h160 = keys[i].h160) ∧
    (bech32Mode c.atype = false → ∃ j, ∃ hj : j < keys.length, j ≤ i ∧
      Store.scriptToKeyIdx C c keys (Store.p2shScr (C.hash160 ([0, 20] ++ keys[i].h160))) = some j ∧
      C.hash160 ([0, 20] ++ keys[j].h160) = C.hash160 ([0, 20] ++ keys[i].h160)) ∧
    (bech32Mode c.atype = true → ∀ h : Bytes, h.length = 20 → Store.scriptToKeyIdx C c keys (Store.p2shScr h) = none) ∧
    (∃ j, ∃ hj : j < keys.length, j ≤ i ∧
      Store.scriptToKeyIdx C c keys (Store.p2trScr ((keys[i].pubkey.drop 1).take 32)) = some j ∧
      (keys[j].pubkey.drop 1).take 32 = (keys[i].pubkey.drop 1).take 32) := by
  refine ⟨?_, ?_, fun hm => ?_, fun hm h hlen => ?_, ?_⟩
  · rw [Store.scriptToKeyIdx_p2pkh C c keys _ hh]; exact pubhashToKeyIdx_spec keys i hi
  · rw [Store.scriptToKeyIdx_p2wpkh C c keys _ hh]; exact pubhashToKeyIdx_spec keys i hi
  · rw [Store.scriptToKeyIdx_p2sh C c keys _ (hl _)]; exact scripthashToKeyIdx_spec C c keys i hi hm
  · rw [Store.scriptToKeyIdx_p2sh C c keys _ hlen]; exact scripthashToKeyIdx_bech32 C c keys h hm
  · rw [Store.scriptToKeyIdx_p2tr C c keys _ (by simp [hp])]; exact publicXoToKeyIdx_spec keys i hi

/-- … and ONLY those (the statement of /repo fix ebf80672): whenever the script lookup attributes a script to record j,
    that script IS one of record j's own four output scripts — its P2PKH or P2WPKH script, outside bech32/tap mode its
    P2SH-P2WPKH script, or its P2TR script. A script that merely carries one of the wallet's hashes under another
    template (`a9 14 HASH160(pubkey) 87`, `00 14 <P2SH hash>`, 20 zero bytes in bech32 mode, `a9 <not 14> … 87`) is
    nobody's: the input stays unsigned and `-send` does not select it. For every hash-function instance. -/
theorem script_lookup_foreign_forms (C : WalletCrypto) (c : Config) (keys : List KeyRec) (scr : Bytes) (j : Nat)
    (e : Store.scriptToKeyIdx C c keys scr = some j) :
    ∃ hj : j < keys.length,
      scr = Store.p2pkhScr keys[j].h160 ∨ scr = Store.p2wpkhScr keys[j].h160 ∨
      (bech32Mode c.atype = false ∧ scr = Store.p2shScr (C.hash160 ([0, 20] ++ keys[j].h160))) ∨
      scr = Store.p2trScr ((keys[j].pubkey.drop 1).take 32) :=
  Store.scriptToKeyIdx_only_own C c keys scr j e

/-- non-vacuity of both (toy hashes: HASH160 b = 20 × first byte of b + 1): one record with 20-byte hash and 33-byte
    public key; its four own scripts find it (segwit mode), and the witnesses of ebf80672 — the key hash under the P2SH
    template, the P2SH hash under the P2WPKH and P2PKH templates, 20 zero bytes under all three in bech32 mode, a P2SH
    script without the 0x14 push — find nobody. -/
example :
    let C : WalletCrypto := { sha256 := id, shaHash := id, hash160 := (fun b => List.replicate 20 (b.headD 0 + 1)), hmac512 := fun _ b => b, pbkdf2 := fun _ b => b, scrypt := fun _ _ => none }
    let c (a : AType) : Config := { waltype := 3, hdpath := [], bip39wrds := 0, usescrypt := 0, hdsubs := 1, keycnt := 1, testnet := false, litecoin := false, atype := a, secretSeed := [] }
    let k : KeyRec := { priv := [7], pubkey := 2 :: List.replicate 32 9, h160 := List.replicate 20 5, wif := [], p2kh := [], listed := [], label := [], listLabel := [] }
    let sh : Bytes := C.hash160 ([0, 20] ++ k.h160)
    k.h160.length = 20 ∧ k.pubkey.length = 33 ∧ sh ≠ k.h160 ∧
    [Store.p2pkhScr k.h160, Store.p2wpkhScr k.h160, Store.p2shScr sh, Store.p2trScr (List.replicate 32 9)].map
        (Store.scriptToKeyIdx C (c .segwit) [k]) = [some 0, some 0, some 0, some 0] ∧
    [Store.p2shScr k.h160, Store.p2wpkhScr sh, Store.p2pkhScr sh, [0xa9, 0x15] ++ sh ++ [0x87]].map
        (Store.scriptToKeyIdx C (c .segwit) [k]) = [none, none, none, none] ∧
    [Store.p2shScr (List.replicate 20 0), Store.p2wpkhScr (List.replicate 20 0), Store.p2pkhScr (List.replicate 20 0),
     Store.p2shScr sh].map (Store.scriptToKeyIdx C (c .bech32) [k]) = [none, none, none, none] := by decide

/-! ### the key store over one invocation: "the private key the wallet LATER signs with"

`keys []*btc.PrivateAddr` lives as long as the process; `main()` strings several operations together in one run
(`-sign A -msg M -send …`: make_wallet, sign_message, make_wallet AGAIN — which appends a second copy of every record
behind the first —, then sign_tx), and every lookup returns a pointer into that list. Model/WalletKeysStore.lean. -/

/-- The facts about the CURRENT source the store model rests on, regenerated by gen_c14 (store.go) on every run:
    no function from which the process goes on holds (or reaches) a write to the key bytes of a stored record — the one
    writer, cleanExit, ends the process on every path (os.Exit last, no return statement) —; `keys` is only ever assigned
    by `keys = append(keys, rec)` in load_others and make_wallet; the index lookups return the first match;
    pkscr_to_key_idx dispatches the four templates — byte for byte the conditions of `Store.scriptToKeyIdx` — to
    pubhash / scripthash / pubhash / x-only lookups, and sign_tx calls those lookups and NOT hash_to_key_idx.
    What the extractor counts as a write is CONSERVATIVE but syntactic (see go/cmd/gen_c14/store.go): assignments,
    `*R = …`, `append(key, …)`, known writers in their written position, and key bytes or a record handed to ANY callee
    that is neither an allow-listed reader nor an analysable function of package wallet (closures, function literals,
    unknown library calls, helpers returning the bytes, composite literals, a buffer shared between loop iterations).
    It does NOT see: a write made inside an allow-listed reader or another package after an edit there, reflection /
    unsafe, key bytes passed on through channels, maps, package variables or fields of non-record structs, goroutines,
    and it does not pin the CONDITIONS inside the lookups (which hash a lookup compares) — for all of these the
    sessions of the harness (real binary, signatures judged by an independent verifier) are the only guard. -/
theorem key_store_source_facts :
    Gen.WalletKeyStoreFacts.keyWritersLive = [] ∧
    (∀ f ∈ Gen.WalletKeyStoreFacts.keyWritersDirect, f ∈ Gen.WalletKeyStoreFacts.processEnders) ∧
    (∀ f ∈ Gen.WalletKeyStoreFacts.keysAssigners, f ∈ ["load_others", "make_wallet"]) ∧
    Gen.WalletKeyStoreFacts.keysAssignsAreAppends = true ∧
    Gen.WalletKeyStoreFacts.lookupsReturnFirstMatch = true ∧
    Gen.WalletKeyStoreFacts.pkscrDispatch =
      ["len(scr)=25 scr[0]=118 scr[1]=169 scr[2]=20 scr[23]=136 scr[24]=172 -> pubhash_to_key_idx scr[3:23]",
       "len(scr)=23 scr[0]=169 scr[1]=20 scr[22]=135 -> scripthash_to_key_idx scr[2:22]",
       "len(scr)=22 scr[0]=0 scr[1]=20 -> pubhash_to_key_idx scr[2:]",
       "len(scr)=34 scr[0]=81 scr[1]=32 -> public_xo_to_key_idx scr[2:]"] ∧
    Gen.WalletKeyStoreFacts.signTxLookups =
      ["pubhash_to_key_idx", "public_to_key", "public_xo_to_key_idx", "scripthash_to_key_idx"] := by decide

/-- Every operation of a session signs / exports with the key of the listed address, whatever came before it in the
    same process: for ANY sequence of operations after the first make_wallet (further make_wallet calls, message
    signatures, transaction signatures, dumps, in any order and number), the records each operation uses — index and
    CURRENT key bytes — are exactly those the same operation finds in a list derived once and never touched
    (`pureUse`: `address_to_key` for messages and dumps — `address_is_signing_key*` —, the per-template script lookup
    of sign_tx for transaction inputs — `script_lookup_own_forms` / `script_lookup_foreign_forms` — on the fresh list),
    provided no function the session is made of writes a stored key (`Quiet wipers`: then `clobber` is the identity, so
    ALL the content about "nobody writes a stored key" sits in the generated constant `keyWritersLive = []`, see
    `key_store_source_facts` for what that extractor sees and does not see). The second make_wallet's copies never
    answer a lookup. `fresh` is the same for every make_wallet of the run: true for a password taken from the seed
    file; a TYPED password is asked for again by the second make_wallet and may differ — not modelled. -/
theorem session_signs_with_listed_key (wipers : List String) (hq : Store.Quiet wipers)
    (C : WalletCrypto) (c : Config) (fresh : List KeyRec) (junk : Bytes) (ops : List Store.Op) :
    (Store.run wipers C c fresh junk [] (.makeWallet :: ops)).2 = [] :: ops.map (Store.pureUse C c fresh) := by
  have h := (Store.run_quiet wipers hq C c fresh junk ops ([] ++ fresh) ⟨[], by simp, by simp⟩).1
  simp only [Store.run, Store.step]
  rw [h]

/-- … and this holds of the current source: the generated list of live key writers is quiet. -/
theorem session_signs_with_listed_key_now (C : WalletCrypto) (c : Config) (fresh : List KeyRec) (junk : Bytes)
    (ops : List Store.Op) :
    (Store.run Gen.WalletKeyStoreFacts.keyWritersLive C c fresh junk [] (.makeWallet :: ops)).2 =
      [] :: ops.map (Store.pureUse C c fresh) :=
  session_signs_with_listed_key _ (by unfold Store.Quiet; decide) C c fresh junk ops

/-- What the list looks like at any point of a quiet session: the fresh records repeated once per make_wallet call —
    so `-l` inside a combined run prints the list that many times (observed on the real binary), and the keys in it are
    the derived ones. -/
theorem session_store_is_repeated_list (wipers : List String) (hq : Store.Quiet wipers)
    (C : WalletCrypto) (c : Config) (fresh : List KeyRec) (junk : Bytes) (ops : List Store.Op) :
    (Store.run wipers C c fresh junk [] (.makeWallet :: ops)).1 =
      (List.replicate (ops.count .makeWallet + 1) fresh).flatten := by
  have h := (Store.run_quiet wipers hq C c fresh junk ops ([] ++ fresh) ⟨[], by simp, by simp⟩).2
  simp only [Store.run, Store.step]
  rw [h]
  simp [List.replicate_succ]

/-- The hypothesis is not decoration — the store model is sensitive to exactly the seeded class: if sign_message wipes
    the record it signed with, then in `make_wallet; sign_message A; make_wallet; sign_tx [script of A]` the
    transaction is signed with the junk, not with the key of A (first-match lookup still returns the first record). -/
example :
    let C : WalletCrypto := { sha256 := id, shaHash := id, hash160 := id, hmac512 := fun _ b => b, pbkdf2 := fun _ b => b, scrypt := fun _ _ => none }
    let c : Config := { waltype := 3, hdpath := [], bip39wrds := 0, usescrypt := 0, hdsubs := 1, keycnt := 1,
                        testnet := false, litecoin := false, atype := .bech32, secretSeed := [] }
    let k : KeyRec := { priv := [7], pubkey := [2, 9], h160 := List.replicate 20 5, wif := [], p2kh := [], listed := [], label := [], listLabel := [] }
    let scr : Bytes := [0x00, 0x14] ++ List.replicate 20 5
    (Store.run [] C c [k] [0xee] [] [.makeWallet, .signTx [scr], .makeWallet, .signTx [scr]]).2
        = [[], [some (0, [7])], [], [some (0, [7])]] ∧
    (Store.run ["sign_tx"] C c [k] [0xee] [] [.makeWallet, .signTx [scr], .makeWallet, .signTx [scr]]).2
        = [[], [some (0, [7])], [], [some (0, [0xee])]] := by decide


/-- Determinism. That equal inputs give equal wallets is true BY CONSTRUCTION of a model that is a function
    (that half is congruence and carries no content beyond "nothing else — time, randomness, environment — is an
    input of the model"; the evidence that the real binary behaves so is the harness running it twice). The part
    with content: scrypt, the one function the model treats as an opaque external oracle, is consulted at ONE
    point only — (the password `getpass` returned, usescrypt), and not at all when usescrypt = 0 or bip39 = −1 or
    the configuration is refused earlier. Two runs with equal configuration and seed file and ANY two scrypt oracles
    that agree on that single point produce the same result (same error or same mnemonic, extended keys and key
    records in the same order). The hash functions `C` are shared. `makeWallet C c f = makeWalletS C C.scrypt c
    (getpass c f)` by definition. -/
theorem deterministic (C : WalletCrypto) (sc1 sc2 : Bytes → Nat → Option Bytes) (c1 c2 : Config) (f1 f2 : Bytes)
    (hc : c1 = c2) (hf : f1 = f2)
    (hsc : ∀ p, getpass c1 f1 = some p → c1.usescrypt ≠ 0 → c1.bip39wrds ≠ -1 →
      sc1 p c1.usescrypt = sc2 p c1.usescrypt) :
    makeWalletS C sc1 c1 (getpass c1 f1) = makeWalletS C sc2 c2 (getpass c2 f2) := by
  subst hc hf
  exact makeWalletS_congr C sc1 sc2 c1 _ hsc

/-- non-vacuity / the link to the executed definition: `makeWallet` IS `makeWalletS` with the structure's own
    scrypt field, and two oracles that differ everywhere except at the queried point exist -/
example (C : WalletCrypto) (c : Config) (f : Bytes) : makeWallet C c f = makeWalletS C C.scrypt c (getpass c f) := rfl

/-- The password enters only through `getpass`: the `seed=` prefix followed by the first 1024 bytes of the
    seed file. -/
theorem getpass_spec (c : Config) (file : Bytes) (h : file ≠ []) :
    getpass c file = some (c.secretSeed ++ file.take 1024) := by
  unfold getpass
  simp [h]

/-- The interactive branch of `getpass`, stated outright as an IFF: a typed session succeeds with password
    `out` and saved bytes `sv` if and only if what was typed (one terminal read, trailing control bytes dropped)
    is not empty, was — in generation mode without `-1` — typed identically twice, `out` is the `seed=` prefix
    followed by what was typed, and `sv` (the bytes saved to the seed file: generation mode, no `-p`, answer "y")
    is what was typed WITHOUT the prefix. -/
theorem getpass_typed_spec (c : Config) (t : Typed) (out : Bytes) (sv : Option Bytes) :
    getpassTyped c t = .ok (out, sv) ↔
    (readPassword t.first ≠ [] ∧ out = c.secretSeed ++ readPassword t.first ∧
     (t.genMode = true → t.singleAsk = false → readPassword t.second = readPassword t.first) ∧
     sv = (if t.genMode ∧ !t.ask4pass ∧ t.save then some (readPassword t.first) else none)) := by
  constructor
  · exact getpassTyped_ok c t out sv
  · rintro ⟨hne, rfl, hsame, rfl⟩
    unfold getpassTyped
    have h0 : ¬ (readPassword t.first).length = 0 := fun h => hne (List.eq_nil_of_length_eq_zero h)
    have h1 : ¬ (t.genMode = true ∧ (!t.singleAsk) = true ∧ readPassword t.second ≠ readPassword t.first) := by
      rintro ⟨hg, hs, hd⟩
      exact hd (hsame hg (by simpa using hs))
    simp only [h0, ↓reduceIte, h1]

/-- the refusals of a typed session, exactly: nothing typed ⇒ "empty"; otherwise generation mode without `-1` and a
    different second entry ⇒ "mismatch" -/
theorem getpass_typed_refusals (c : Config) (t : Typed) :
    (readPassword t.first = [] → getpassTyped c t = .error .empty) ∧
    (readPassword t.first ≠ [] → t.genMode = true → t.singleAsk = false →
      readPassword t.second ≠ readPassword t.first → getpassTyped c t = .error .mismatch) := by
  constructor
  · intro h; unfold getpassTyped; simp [h]
  · intro hne hg hs hd
    unfold getpassTyped
    have h0 : ¬ (readPassword t.first).length = 0 := fun h => hne (List.eq_nil_of_length_eq_zero h)
    simp [h0, hg, hs, hd]

/-- "The same seed password and configuration produce the same ordered list of keys on every run", across the
    save-the-password path: if a typed session saved the file `f`, then the NEXT run (which finds `f` and goes
    through the seed-file branch, prepending the `seed=` prefix again) gets exactly the password of the typed
    run, and `make_wallet` yields exactly the same wallet (mnemonic, extended keys, every key record, in
    order) — for every configuration, prefix and hash-function instance. -/
theorem saved_password_same_wallet (C : WalletCrypto) (c : Config) (t : Typed) (out f : Bytes)
    (h : getpassTyped c t = .ok (out, some f)) :
    getpass c f = some out ∧ makeWallet C c f = makeWalletTyped C c t :=
  ⟨getpass_of_saved c t out f h, makeWallet_of_saved C c t out f h⟩

/-- non-vacuity: "pw\n" typed twice under `-l`, answer y, with a `seed=` prefix: saved file = "pw" -/
example :
    let c : Config := { waltype := 4, hdpath := [], bip39wrds := 0, usescrypt := 0, hdsubs := 1, keycnt := 1,
                        testnet := false, litecoin := false, atype := .p2kh, secretSeed := [0x53] }
    let t : Typed := { first := [0x70, 0x77, 10], second := [0x70, 0x77, 13, 10], singleAsk := false,
                       genMode := true, ask4pass := false, save := true }
    getpassTyped c t = .ok ([0x53, 0x70, 0x77], some [0x70, 0x77]) := by decide

/-- What two key generations inside ONE process share, as facts re-read from wallet/*.go on every run
    (go/cmd/gen_c14/inputs.go). The session theorems above take ONE list `fresh` for every make_wallet of a run, and the
    address theorems pair every record with ITS OWN segwit form; both rest on conventions of the Go code that are not
    logic of the model: (1) the configured `seed=` prefix is only ever declared, assigned as a whole, measured with
    len(), copied FROM, or compared with nil - so no buffer that make_wallet wipes after hashing (getpass's result) can
    share memory with it, and the second generation of a `-sign .. -send ..` run starts from the same prefix bytes as
    the first; (2) the list `segwit` is `make(.., len(keys))`, never appended to, and filled only at the index of a
    range over `keys` - slot i belongs to keys[i], a key without a segwit address (uncompressed import from .others)
    leaves ITS slot nil instead of shifting its neighbours. Syntactic and conservative: a rewrite into another shape
    flips a fact without a failing input; the harness families `seed-prefix` sessions and `.others` wallets look for the
    concrete input. -/
theorem generation_inputs_source_facts :
    Gen.WalletInputFacts.seedPrefixOtherUses = [] ∧ Gen.WalletInputFacts.segwitParallelToKeys = true := by decide

end GocoinV.Props.C14
