/-
  Props.C02 — property theorems for C02 (signature hashes equal the legacy, BIP143 and BIP341
  definitions; undefined taproot digests fail; the cache never changes a result). DESIGN.md §6 C02.

  Model = GocoinV.SigHash (Model/SigHash.lean, mirrors lib/btc/tx.go, lib/btc/taproot.go,
  lib/script/checker.go; executed by oracle_c02 and compared with the real code on every run).
  Spec  = GocoinV.Spec.SigHash (Spec/SigHash.lean, written from the BIP texts).
  All theorems hold for EVERY hash function `H` (they are equalities of preimages).

  Outside the model (no theorem speaks about it; go/cmd/c02 tests it with concurrent callers in a child process):
  the model is sequential — one digest request is one step (`hashLock` held for the whole body), and the tagged
  hashes (`btc.Hasher`, here `tagPrefix` / `H`) are pure functions of their input, so an implementation that hands
  the SAME hasher object to two goroutines, or publishes a cache field before it is filled, satisfies every theorem
  below and is caught only by the parallel streams (timing) and the race-detector child (go/cmd/c02/race.go). Which script code / code-separator position the interpreter
  passes at each executed CHECKSIG / CHECKMULTISIG is C01's model (Model/ScriptEval.lean); any per-input memo in
  `SigChecker` is code outside this model and is covered by the end-to-end streams (scripts with several checks).
-/
import GocoinV.Model.SigHash
import GocoinV.Spec.SigHash
import GocoinV.Proofs.C02Cache
import GocoinV.Proofs.C02Spec
import GocoinV.Proofs.C02Legacy
import GocoinV.Proofs.C02DelSig
import GocoinV.Proofs.C02Tail
import GocoinV.Proofs.C02Decode
import GocoinV.Proofs.C02Life
import GocoinV.Model.SigHashCaller
import GocoinV.Proofs.C02Caller
namespace GocoinV.Props.C02
open GocoinV GocoinV.SigHash
open GocoinV.Wire (Tx TxIn TxOut)

/-- a one-input transaction used by the non-vacuity example of `tail_irrelevant` -/
def exTx0 : Tx :=
  { version := 1, lockTime := 0, witness := none,
    ins := [{ prevHash := List.replicate 32 1, prevIdx := 0, scriptSig := [], sequence := 0xffffffff }],
    outs := [{ value := 1000, pkScript := [0x51] }] }

/-- Legacy: for every transaction, input index in range, 32-bit hash type and script code that decodes
    into operations, `SignatureHash` double-hashes exactly "the modified copy of the transaction (other
    scripts blanked, OP_CODESEPARATORs removed from the script code, sequences zeroed / outputs cut for
    NONE / SINGLE, one input for ANYONECANPAY) in the ordinary serialisation, followed by the 4-byte hash
    type" — and returns the constant `01 00…00` exactly where the original algorithm does (SIGHASH_SINGLE
    without a matching output). -/
theorem legacy_preimage_eq (H : Bytes → Bytes) (tx : Tx) (scriptCode : Bytes) (idx ht : Nat)
    (m : Spec.SigHash.SigMsg) (h : Spec.SigHash.legacy tx scriptCode idx ht = some m) :
    signatureHash H tx scriptCode idx ht =
      match m with
      | .one => .const one32
      | .msg pre => .hashed pre (H (H pre)) :=
  legacy_eq_spec H tx scriptCode idx ht m h

/-- the legacy specification is defined for every index in range and script code that decodes -/
theorem legacy_defined (tx : Tx) (scriptCode : Bytes) (idx ht : Nat) (hi : idx < tx.ins.length)
    (hp : (Spec.SigHash.parse scriptCode).isSome = true) :
    (Spec.SigHash.legacy tx scriptCode idx ht).isSome = true := by
  unfold Spec.SigHash.legacy
  have : ¬ idx ≥ tx.ins.length := by omega
  cases h : Spec.SigHash.parse scriptCode with
  | none => simp [h] at hp
  | some ops => simp only [this, ↓reduceIte]; split <;> rfl

/-- The two spec-level script decoders agree: C02's own parser (`Spec.SigHash.parse`, the one `Spec.legacy` and
    `Spec.findAndDelete` are defined with) fails on exactly the scripts for which C01's independently written
    reference parser (`ScriptSpec.parse`, Spec/Script.lean) reports a decode error. Built on the one-instruction
    lemma `Spec.SigHash.nextOp s = none ↔ ScriptSpec.parseOne s = none` + "same rest where both succeed"
    (Proofs/C02Decode.lean: `nextOp_none_iff`, `nextOp_parseOne`). -/
theorem decoders_agree (s : Bytes) : Spec.SigHash.parse s = none ↔ (ScriptSpec.parse s).2 = true :=
  Proofs.C02D.parse_none_iff s

/-- `tail_irrelevant` (DESIGN §6 C02 (d)), proved against C01's model of gocoin's interpreter
    (Model/ScriptEval.lean) and stated with C02's OWN parser: a script that does not decode in the sense of
    `Spec.SigHash.parse` (a truncated push anywhere) — i.e. exactly a script on which `Spec.legacy` defines no
    message — never evaluates to true: for every stack, flag set, signature version, execution data and EVERY
    oracle instance (also partial ones), `evalScript` returns false / an oracle request, never `ok`.
    What this does and does not say: it is a statement about the MODEL of the interpreter (C01's, tied to the real
    interpreter by C01's harness), not about gocoin's `SignatureHash`; that the script code handed to
    `SignatureHash` is a suffix of the executed script starting at an instruction boundary is C01's model of
    CHECKSIG / CODESEPARATOR and is covered by the next theorem only in the form "well-formed prefix ++ suffix". -/
theorem tail_irrelevant (O : Script.Oracles) (tx : Script.TxCtx) (flags : Nat) (p : Bytes)
    (stack : Script.Stack) (sv : Script.SigVersion) (ed : Script.ExecData)
    (h : Spec.SigHash.parse p = none) (s : Script.Stack) :
    Script.evalScript O tx flags p stack sv ed ≠ .ok s :=
  Proofs.C02T.evalScript_bad O tx flags p stack sv ed ((decoders_agree p).mp h) s

/-- … at an instruction boundary: if the executed script is `pre ++ sc` where `pre` consists of well-formed
    operations (e.g. everything up to and including the last executed OP_CODESEPARATOR) and the script code `sc`
    does not decode — the only place where gocoin's `break` (tail dropped) and the original serializer (part of
    the tail kept) can produce different preimages, and where `Spec.legacy` is undefined — then the evaluation of
    the whole script is already not `ok`: the difference cannot change a verdict. -/
theorem tail_irrelevant_at_boundary (O : Script.Oracles) (tx : Script.TxCtx) (flags : Nat) (pre sc : Bytes)
    (ops : List Bytes) (stack : Script.Stack) (sv : Script.SigVersion) (ed : Script.ExecData)
    (hpre : Spec.SigHash.parse pre = some ops) (hsc : Spec.SigHash.parse sc = none) (s : Script.Stack) :
    Script.evalScript O tx flags (pre ++ sc) stack sv ed ≠ .ok s :=
  tail_irrelevant O tx flags (pre ++ sc) stack sv ed (Proofs.C02D.parse_append_bad pre sc ops hpre hsc) s

/-- non-vacuity (kernel-checked): `OP_1 <push of 2 bytes, 1 present>` does not decode for C02's parser (hypothesis
    of `tail_irrelevant`), `Spec.legacy` is undefined on it, C01's parser reports the decode error too, and
    gocoin's `SignatureHash` model still returns a digest for it as script code (the tail is dropped) -/
example : Spec.SigHash.parse [0x51, 0x02, 0x01] = none ∧ (ScriptSpec.parse [0x51, 0x02, 0x01]).2 = true ∧
    Spec.SigHash.legacy exTx0 [0x51, 0x02, 0x01] 0 1 = none := by decide
example : ∃ pre d, signatureHash (fun b => b) exTx0 [0x51, 0x02, 0x01] 0 1 = .hashed pre d := ⟨_, _, rfl⟩
/-- … and the hypotheses of `tail_irrelevant_at_boundary`: `OP_1 OP_CODESEPARATOR` ++ `<truncated PUSHDATA1>` -/
example : Spec.SigHash.parse [0x51, 0xab] = some [[0x51], [0xab]] ∧ Spec.SigHash.parse [0x4c] = none := by decide

/-- Signature removal: for every script code that decodes into operations and every signature (any
    length: direct push below 76 bytes, PUSHDATA1 for 76..255, PUSHDATA2 for 256..65535, PUSHDATA4 above),
    gocoin's `delSig` returns exactly FindAndDelete(script, CScript() << sig): the script without the
    operations that are the canonical push of the signature, and the number of operations removed.
    (Model.delSig mirrors the code after fix acaf95d6; before it the pattern was `CompactSize(len)‖sig`,
    which is not a script push for len ≥ 76, so such a signature push was never removed.) -/
theorem delSig_eq_findAndDelete (wh sig : Bytes) (ops : List Bytes) (h : Spec.SigHash.parse wh = some ops) :
    Spec.SigHash.findAndDelete wh sig = some (delSig wh sig) := by
  unfold Spec.SigHash.findAndDelete
  rw [h, delSig_eq wh sig ops h]

/-- FindAndDelete is defined exactly on the scripts that decode (so the theorem above covers every case
    in which the specification says anything). -/
theorem findAndDelete_defined_iff (wh sig : Bytes) :
    (Spec.SigHash.findAndDelete wh sig).isSome = (Spec.SigHash.parse wh).isSome := by
  unfold Spec.SigHash.findAndDelete
  cases Spec.SigHash.parse wh <;> rfl

/-- BIP143: for every transaction, input index, script code, amount and 32-bit hash type for which
    BIP143 defines a message, and for every state of the cache reachable on this transaction object,
    `WitnessSigHash` feeds exactly the BIP143 message to the double hash. -/
theorem bip143_preimage_eq (H : Bytes → Bytes) (tx : Tx) (spent : List TxOut) (c : Cache)
    (hc : Cache.OK H tx spent c) (sc : Bytes) (amount idx ht : Nat) (pre : Bytes)
    (h : Spec.SigHash.bip143 (fun b => H (H b)) tx sc amount idx ht = some pre) :
    (witnessSigHash H tx c sc amount idx ht).1 = .hashed pre (H (H pre)) := by
  rw [(witnessSigHash_cache H tx spent c hc sc amount idx ht).1]
  exact witness_eq_spec H tx sc amount idx ht pre h

/-- BIP143 defines a message for every input index in range (so the theorem above is not vacuous). -/
theorem bip143_defined (dsha : Bytes → Bytes) (tx : Tx) (sc : Bytes) (amount idx ht : Nat)
    (hi : idx < tx.ins.length) : (Spec.SigHash.bip143 dsha tx sc amount idx ht).isSome = true := by
  unfold Spec.SigHash.bip143
  have : tx.ins[idx]? = some tx.ins[idx] := by simp [hi]
  simp [this]

/-- BIP341/BIP342: for every transaction with one spent output per input, input index in range, hash
    type byte, annex (present or not), key path or script path (leaf hash, code separator position)
    and every reachable cache state: where BIP341 defines the signature message, `TaprootSigHash`
    feeds exactly `SHA256(tag)‖SHA256(tag)‖0x00‖SigMsg‖ext` to the hash. -/
theorem bip341_preimage_eq (H : Bytes → Bytes) (tx : Tx) (spent : List TxOut) (c : Cache)
    (hs : spent.length = tx.ins.length) (hc : Cache.OK H tx spent c) (idx ht : Nat) (hi : idx < tx.ins.length)
    (annex : Option Bytes) (ext : Option Spec.SigHash.Ext) (pre : Bytes)
    (h : Spec.SigHash.bip341 H tx spent idx ht annex ext = some pre) :
    (taprootSigHash true H tx spent c (execDataOf H annex ext) idx ht ext.isSome).1 = .hashed pre (H pre) := by
  rw [(taprootSigHash_cache true H tx spent c (by omega) hc _ idx ht _).1, taproot_spec true H tx spent idx ht annex ext hs hi, h]

/-- Where BIP341 defines no digest (hash type outside {0,1,2,3,0x81,0x82,0x83}, SIGHASH_SINGLE without
    a matching output) `TaprootSigHash` returns no digest (`nil`), whatever the cache holds. -/
theorem bip341_undefined_is_nil (H : Bytes → Bytes) (tx : Tx) (spent : List TxOut) (c : Cache)
    (hs : spent.length = tx.ins.length) (hc : Cache.OK H tx spent c) (idx ht : Nat) (hi : idx < tx.ins.length)
    (annex : Option Bytes) (ext : Option Spec.SigHash.Ext)
    (h : Spec.SigHash.bip341 H tx spent idx ht annex ext = none) :
    (taprootSigHash true H tx spent c (execDataOf H annex ext) idx ht ext.isSome).1 = .undefined := by
  rw [(taprootSigHash_cache true H tx spent c (by omega) hc _ idx ht _).1, taproot_spec true H tx spent idx ht annex ext hs hi, h]
  rfl

/-- the hash type a Schnorr signature asks for: byte 65 if present, else SIGHASH_DEFAULT -/
def sigHashType (sig : Bytes) : Nat := if sig.length = 65 then (sig.getD 64 0).toNat else 0

/-- Undefined is failure: if BIP341 defines no digest for the hash type carried by the signature,
    `CheckSchnorrSignature` returns false — for every signature, public key, verification function
    `V` (= btc.SchnorrVerify), hash function and cache state. -/
theorem undefined_is_failure (V : Bytes → Bytes → Bytes → Bool) (H : Bytes → Bytes) (tx : Tx) (spent : List TxOut)
    (c : Cache) (hs : spent.length = tx.ins.length) (hc : Cache.OK H tx spent c) (idx : Nat) (hi : idx < tx.ins.length)
    (sig pubkey : Bytes) (annex : Option Bytes) (ext : Option Spec.SigHash.Ext)
    (h : Spec.SigHash.bip341 H tx spent idx (sigHashType sig) annex ext = none) :
    checkSchnorrSignature true V H tx spent c sig pubkey ext.isSome (execDataOf H annex ext) idx = some false := by
  have hu := bip341_undefined_is_nil H tx spent c hs hc idx (sigHashType sig) hi annex ext h
  unfold sigHashType at hu
  have hp : (schnorrPlan true H tx spent c sig pubkey ext.isSome (execDataOf H annex ext) idx).1 = .fail := by
    unfold schnorrPlan
    dsimp only
    generalize (if sig.length = 65 then (sig.getD 64 0).toNat else 0) = htv at hu ⊢
    by_cases h1 : sig.length ≠ 64 ∧ sig.length ≠ 65
    · rw [if_pos h1]
    · rw [if_neg h1]
      by_cases h2 : sig.length = 65 ∧ htv = 0
      · rw [if_pos h2]
      · rw [if_neg h2]
        generalize taprootSigHash true H tx spent c (execDataOf H annex ext) idx htv ext.isSome = r at hu ⊢
        obtain ⟨r1, r2⟩ := r
        simp only at hu
        subst hu
        rfl
  unfold checkSchnorrSignature
  rw [hp]

/-- Before the fix (`fixed = false`: `TaprootSigHash` returned 32 zero bytes) the statement above was
    FALSE: for the key-path spend below (one input, one output, hash type 0x04) BIP341 defines no digest,
    yet the verdict was whatever `SchnorrVerify` says about the signature against the all-zero message —
    a message that does not depend on the transaction. Replayed on the real code by the harness
    (corpus entry F1 in go/cmd/c02/e2e.go). -/
theorem undefined_is_failure_counterexample :
    ∃ (tx : Tx) (spent : List TxOut) (idx : Nat) (sig : Bytes),
      spent.length = tx.ins.length ∧ idx < tx.ins.length ∧
      (∀ H, Spec.SigHash.bip341 H tx spent idx (sigHashType sig) none none = none) ∧
      ∀ (V : Bytes → Bytes → Bytes → Bool) (H : Bytes → Bytes) (pubkey : Bytes),
        checkSchnorrSignature false V H tx spent {} sig pubkey false (execDataOf H none none) idx
          = some (V pubkey (sig.take 64) zero32) := by
  refine ⟨{ version := 2, ins := [{ prevHash := List.replicate 32 0x11, prevIdx := 0, scriptSig := [], sequence := 0xfffffffd }],
            outs := [{ value := 90000, pkScript := [0x51] }], witness := none, lockTime := 0 },
          [{ value := 100000, pkScript := 0x51 :: 0x20 :: List.replicate 32 0x77 }], 0,
          List.replicate 64 0xab ++ [4], rfl, by decide, ?_, ?_⟩
  · intro H
    simp [Spec.SigHash.bip341, Spec.SigHash.bip341Msg, sigHashType, Spec.SigHash.validTaprootHashType]
  · intro V H pubkey
    simp [checkSchnorrSignature, schnorrPlan, taprootSigHash]

/-- SIGHASH_DEFAULT must not be spelled out (BIP341: "if the signature has 65 bytes the hash type byte must not
    be 0x00"): a 65-byte signature whose last byte is 0x00 is refused - for every transaction, cache state,
    public key, execution data, input index (in range or not) and verification function, before any digest is
    asked for (the cache is left as it was). `undefined_is_failure` does not cover this case: BIP341 DOES define
    a digest for hash type 0, so its hypothesis is false here. -/
theorem explicit_default_hashtype_refused (fixed : Bool) (V : Bytes → Bytes → Bytes → Bool) (H : Bytes → Bytes) (tx : Tx)
    (spent : List TxOut) (c : Cache) (sig pubkey : Bytes) (tapscript : Bool) (ed : ExecData) (idx : Nat)
    (hl : sig.length = 65) (h0 : sig.getD 64 0 = 0) :
    checkSchnorrSignature fixed V H tx spent c sig pubkey tapscript ed idx = some false ∧
    (schnorrPlan fixed H tx spent c sig pubkey tapscript ed idx).2 = c := by
  have hp : schnorrPlan fixed H tx spent c sig pubkey tapscript ed idx = (.fail, c) := by
    unfold schnorrPlan
    dsimp only
    have h1 : ¬ (sig.length ≠ 64 ∧ sig.length ≠ 65) := fun h => h.2 hl
    have h2 : sig.length = 65 ∧ (if sig.length = 65 then (sig.getD 64 0).toNat else 0) = 0 := by
      refine ⟨hl, ?_⟩
      rw [if_pos hl, h0]
      rfl
    rw [if_neg h1, if_pos h2]
  unfold checkSchnorrSignature
  rw [hp]
  exact ⟨rfl, rfl⟩

/-- … and so is every signature that has neither 64 nor 65 bytes. -/
theorem schnorr_sig_size_refused (fixed : Bool) (V : Bytes → Bytes → Bytes → Bool) (H : Bytes → Bytes) (tx : Tx)
    (spent : List TxOut) (c : Cache) (sig pubkey : Bytes) (tapscript : Bool) (ed : ExecData) (idx : Nat)
    (hl : sig.length ≠ 64 ∧ sig.length ≠ 65) :
    checkSchnorrSignature fixed V H tx spent c sig pubkey tapscript ed idx = some false := by
  unfold checkSchnorrSignature schnorrPlan
  rw [if_pos hl]

-- explicit_default_hashtype_refused: such a signature exists, and with 64 bytes (hash type 0 implied) the same
-- request reaches the verification function with a digest
example : (List.replicate 64 (0xab : UInt8) ++ [0]).length = 65 ∧ (List.replicate 64 (0xab : UInt8) ++ [0]).getD 64 0 = 0 := by decide
example : ∃ pk s m, (schnorrPlan true (fun b => b) exTx0 [{ value := 1, pkScript := [0x51] }] {}
    (List.replicate 64 0xab) [2] false {} 0).1 = .verify pk s m := ⟨_, _, _, rfl⟩

/-- Cache transparency: for every finite sequence of digest requests (legacy, BIP143, taproot; any
    arguments, any order) on one transaction object starting from the empty cache, each result equals
    the result of the same request on a fresh object. (Requests are atomic: every function holds
    `hashLock` for its whole body, so concurrent callers reduce to some such sequence.) -/
theorem cache_transparent (fixed : Bool) (H : Bytes → Bytes) (tx : Tx) (spent : List TxOut)
    (hs : tx.ins.length ≤ spent.length) (calls : List Call) :
    (runCalls fixed H tx spent {} calls).1 = calls.map fun k => (step fixed H tx spent {} k).1 :=
  runCalls_cache fixed H tx spent hs calls {} (Cache.OK_empty H tx spent)

/-- Without one spent output per input the previous theorem is false, in the model as in the code: the
    pointer `tx.tapSingleHashes` is assigned before the loops that can panic, so after a recovered
    panic (evalScript recovers) the same object hands out a digest over all-zero hashes. -/
theorem cache_poisoned_after_panic :
    ∃ (tx : Tx) (k : Call), ∀ H : Bytes → Bytes,
      (step true H tx [] {} k).1 = .panic ∧
      (runCalls true H tx [] {} [k, k]).1 ≠ [.panic, .panic] := by
  refine ⟨{ version := 2, ins := [{ prevHash := [], prevIdx := 0, scriptSig := [], sequence := 0 }], outs := [],
            witness := none, lockTime := 0 }, .tap {} 0 2 false, ?_⟩
  intro H
  constructor
  · simp [step, taprootSigHash, tapSingleGet, tapSingleFill]
  · simp [runCalls, step, taprootSigHash, tapSingleGet, tapSingleFill, taprootTail]


/-! ### life cycle of the scratch struct across transaction objects (AllocVerVars / Clean) -/

/-- Histories over SEVERAL transaction objects. For every list of transaction objects (each with one spent output
    per input), every hash function and every finite history of `AllocVerVars()` (the caller then installs the
    object's spent outputs, by assignment or by `append`), `Clean()` and digest requests (legacy, BIP143, taproot;
    any arguments) on any of the objects, in any interleaving: with the code as written (`AllocVerVars` =
    `new(TxVerVars)`, `Clean` drops the pointer) every digest request returns what the same request returns on a
    fresh object of THAT transaction with an empty cache — nothing computed for one transaction object, before or
    after a `Clean`, reaches another. (`runLifeSpec` keeps no struct at all, only "object i is allocated"; a request
    on an object whose `TxVerVars` is nil is the legacy digest / a nil dereference on both sides.) -/
theorem lifecycle_transparent (H : Bytes → Bytes) (objs : List Obj)
    (hobjs : ∀ o ∈ objs, o.tx.ins.length ≤ o.spent.length) (evs : List Ev) :
    runLife freshAlloc H objs (World.init objs.length ()) evs
      = runLifeSpec H objs (List.replicate objs.length false) evs :=
  runLife_sim freshAlloc (fun _ => True) freshAlloc_blank H objs hobjs evs _ _ (Sim.init H objs _ ()) trivial

/-- The same for EVERY allocator discipline behind `AllocVerVars` / `Clean` (free list, pool, arena …) that, from
    its reachable states `I`, only ever hands out blank structs: recycling the struct is invisible exactly when
    what is handed out is indistinguishable from `new(TxVerVars)`. -/
theorem lifecycle_transparent_any_allocator {σ : Type} (A : Allocator σ) (I : σ → Prop) (hA : A.Blank I) (s0 : σ)
    (h0 : I s0) (H : Bytes → Bytes) (objs : List Obj)
    (hobjs : ∀ o ∈ objs, o.tx.ins.length ≤ o.spent.length) (evs : List Ev) :
    runLife A H objs (World.init objs.length s0) evs = runLifeSpec H objs (List.replicate objs.length false) evs :=
  runLife_sim A I hA H objs hobjs evs _ _ (Sim.init H objs _ s0) h0

/-- … in particular a free list whose `Clean` resets EVERY field of the struct it keeps. -/
theorem pool_full_reset_transparent (reset : VerVars → VerVars) (hr : ∀ v, reset v = {}) (H : Bytes → Bytes)
    (objs : List Obj) (hobjs : ∀ o ∈ objs, o.tx.ins.length ≤ o.spent.length) (evs : List Ev) :
    runLife (poolAlloc reset) H objs (World.init objs.length []) evs
      = runLifeSpec H objs (List.replicate objs.length false) evs :=
  lifecycle_transparent_any_allocator (poolAlloc reset) _ (poolAlloc_blank reset hr) []
    (by intro v hv; cases hv) H objs hobjs evs

/-- a reset that clears everything except `tapOutSingleHash` (BIP341 sha_outputs) -/
def forgetfulReset (v : VerVars) : VerVars := { cache := { tapOutSingle := v.cache.tapOutSingle }, spent := [] }

def lifeTxA : Tx :=
  { version := 2, lockTime := 0, witness := none,
    ins := [{ prevHash := List.replicate 32 1, prevIdx := 0, scriptSig := [], sequence := 0xffffffff }],
    outs := [{ value := 1000, pkScript := [0x51] }] }
def lifeTxB : Tx := { lifeTxA with outs := [{ value := 2000, pkScript := [0x52] }] }
def lifeObjs : List Obj :=
  [⟨lifeTxA, [{ value := 5000, pkScript := [0x51] }]⟩, ⟨lifeTxB, [{ value := 5000, pkScript := [0x51] }]⟩]
/-- digest on A, `A.Clean()`, `B.AllocVerVars()`, the same digest request on B -/
def lifeEvs : List Ev :=
  [.alloc 0 .assign, .call 0 (.tap {} 0 0x81 false), .clean 0, .alloc 1 .append, .call 1 (.tap {} 0 0x81 false)]

/-- The hypothesis "hands out blank structs only" cannot be dropped: with a free list whose reset forgets ONE cached
    field (`tapOutSingleHash`), the two-object history `lifeEvs` gives transaction B a taproot digest that commits
    to the outputs of the cleaned transaction A — for every hash function that tells the two output lists apart.
    (The harness drives such histories against the real `AllocVerVars` / `Clean`, go/cmd/c02/life.go.) -/
theorem pool_partial_reset_counterexample (H : Bytes → Bytes)
    (h : H (outputsBytes lifeTxA) ≠ H (outputsBytes lifeTxB)) :
    runLife (poolAlloc forgetfulReset) H lifeObjs (World.init 2 []) lifeEvs
      ≠ runLifeSpec H lifeObjs [false, false] lifeEvs := by
  intro he
  apply h
  simp [runLife, runLifeSpec, lifeStep, specStep, lifeEvs, lifeObjs, World.init, poolAlloc, forgetfulReset, step,
    taprootSigHash, taprootTail, lazyGet, lifeTxA, lifeTxB] at he
  simp [lifeTxA, lifeTxB]
  exact he.1

/-! ### the object in the hands of its caller: `Spent_outputs` filled one by one, workers asking for digests -/

/-- The caller's side of "whatever the order of calls". `commitTxs` makes `tx.Spent_outputs` with one nil entry per
    input, resolves the inputs one after the other (`store`) and lets a worker per input ask for digests (`req`,
    atomic under hashLock). For every transaction with one spent output per input, every hash function and EVERY
    interleaving of stores and requests in which each request is safe at the moment it runs — a legacy or BIP143
    request at any time (they do not read `Spent_outputs`), a taproot request with SIGHASH_ANYONECANPAY once its own
    input is stored, any other taproot request only after ALL inputs are stored (BIP341 commits to every spent amount
    and script) — each request returns what a fresh object holding all spent outputs returns (and so, by
    `bip341_preimage_eq` etc., the specified digest). -/
theorem caller_requests_sound (H : Bytes → Bytes) (tx : Tx) (spent : List TxOut) (hs : tx.ins.length ≤ spent.length)
    (evs : List CEv) (hd : disciplined spent.length 0 evs = true) :
    runCaller H tx spent {} evs = callerSpec H tx spent evs :=
  runCaller_disciplined H tx spent hs evs {} (Cache.OK_empty H tx spent) hd

/-- … in particular the code as written: the workers are started after the collecting loop, so whatever the requests
    and whatever order the scheduler runs them in, every one of them sees all spent outputs. -/
theorem collect_then_verify_sound (H : Bytes → Bytes) (tx : Tx) (spent : List TxOut) (hs : tx.ins.length ≤ spent.length)
    (ks : List Call) :
    runCaller H tx spent {} (collectThenVerify spent.length ks)
      = callerSpec H tx spent (collectThenVerify spent.length ks) :=
  caller_requests_sound H tx spent hs _ (disciplined_stores spent.length ks spent.length 0 (by omega))

def callerTx : Tx :=
  { version := 2, lockTime := 0, witness := none,
    ins := [{ prevHash := List.replicate 32 1, prevIdx := 0, scriptSig := [], sequence := 0xffffffff },
            { prevHash := List.replicate 32 1, prevIdx := 1, scriptSig := [], sequence := 0xffffffff }],
    outs := [{ value := 1000, pkScript := [0x51] }] }
def callerSpent : List TxOut := [{ value := 5000, pkScript := [0x51] }, { value := 6000, pkScript := [0x52] }]
/-- input 0 resolved, its worker (key path, SIGHASH_DEFAULT) runs, input 1 resolved, its worker runs -/
def earlyEvs : List CEv := [.store, .req (.tap {} 0 0 false), .store, .req (.tap {} 1 0 false)]

/-- The discipline cannot be dropped: a worker that is started as soon as ITS input is resolved asks for a taproot
    digest while a later entry of `Spent_outputs` is still nil. The request panics (key path: outside the
    interpreter's recover, the node dies) — and because `tx.tapSingleHashes` is published before it is filled, the
    worker of the LAST input, which runs when everything is stored, is handed a digest over all-zero
    sha_amounts / sha_scriptpubkeys / sha_sequences: a valid signature no longer verifies. For every hash function
    with 32-byte values that does not map the amounts to 32 zero bytes. (The harness drives whole blocks through the
    real `Chain.ProcessBlockTransactions`, go/cmd/c02/node.go, and such histories sequentially against the real
    digest functions, go/cmd/c02/caller.go.) -/
theorem early_worker_counterexample (H : Bytes → Bytes) (hlen : ∀ b, (H b).length = 32)
    (h : H (callerSpent.flatMap fun o => le64 o.value) ≠ zero32) :
    (runCaller H callerTx callerSpent {} earlyEvs)[1]? = some (some .panic) ∧
    (runCaller H callerTx callerSpent {} earlyEvs)[3]? ≠ (callerSpec H callerTx callerSpent earlyEvs)[3]? := by
  constructor
  · simp [runCaller, callerStep, earlyEvs, step, taprootSigHash, tapSingleGet, tapSingleFill, callerTx, callerSpent]
  · intro he
    apply h
    simp [runCaller, callerSpec, callerStep, earlyEvs, step, taprootSigHash, tapSingleGet, tapSingleFill, taprootTail,
      lazyGet, callerTx, callerSpent] at he
    simp only [callerSpent, List.flatMap_cons, List.flatMap_nil, List.append_nil]
    exact ((List.append_inj he.1 (by simp [zero32, hlen])).1).symm

/-! ### non-vacuity -/

/-- a transaction with two inputs and one output used by the examples -/
def exTx : Tx :=
  { version := 2, lockTime := 7, witness := none,
    ins := [{ prevHash := List.replicate 32 1, prevIdx := 0, scriptSig := [], sequence := 0xffffffff },
            { prevHash := List.replicate 32 2, prevIdx := 1, scriptSig := [], sequence := 5 }],
    outs := [{ value := 1000, pkScript := [0x51] }] }
def exSpent : List TxOut := [{ value := 5000, pkScript := [0x51] }, { value := 6000, pkScript := [] }]

-- legacy_preimage_eq / legacy_defined: the hypotheses are satisfiable, both outcomes occur
example : (Spec.SigHash.legacy exTx [0xab, 0x51, 0xab, 0xac] 0 1).isSome = true := by decide
example : Spec.SigHash.legacy exTx [0xab, 0x51, 0xab, 0xac] 1 3 = some .one := by decide
-- … and code separators really are removed (0xab inside push data is kept)
example : stripCodeSep [0xab, 0x51, 0x01, 0xab, 0xab, 0xac] = [0x51, 0x01, 0xab, 0xac] := by decide
-- bip143_preimage_eq: defined for an index in range
example : (Spec.SigHash.bip143 (fun b => b) exTx [0xac] 5000 1 0x83).isSome = true := by decide
-- bip341_preimage_eq: defined …
example : (Spec.SigHash.bip341 (fun b => b) exTx exSpent 0 0x83 (some [0x50]) (some ⟨[], 3⟩)).isSome = true := by decide
-- bip341_undefined_is_nil / undefined_is_failure: … and undefined (hash type 4; SINGLE on input 1 of 1 output)
example : Spec.SigHash.bip341 (fun b => b) exTx exSpent 0 4 none none = none := by decide
example : Spec.SigHash.bip341 (fun b => b) exTx exSpent 1 3 none none = none := by decide
-- delSig_eq_findAndDelete: a 76-byte signature pushed with PUSHDATA1 between two other operations is removed
-- (and a direct-push look-alike `4c‖sig` data is not touched when the signature is short)
example : Spec.SigHash.parse ([0x51] ++ (0x4c :: 76 :: List.replicate 76 7) ++ [0xac]) =
    some [[0x51], 0x4c :: 76 :: List.replicate 76 7, [0xac]] := by decide
example : delSig ([0x51] ++ (0x4c :: 76 :: List.replicate 76 7) ++ [0xac]) (List.replicate 76 7) = ([0x51, 0xac], 1) := by decide
example : delSig ([0x51] ++ (75 :: List.replicate 75 7) ++ [0xac]) (List.replicate 75 7) = ([0x51, 0xac], 1) := by decide
example : (delSig ((0x4d :: 0 :: 1 :: List.replicate 256 7) ++ [0xac]) (List.replicate 256 7)) = ([0xac], 1) := by decide +kernel
-- Cache.OK is satisfiable by a non-empty cache (the one left by a BIP143 request)
example : (witnessSigHash (fun b => b) exTx {} [0xac] 1 0 1).2.hashPrevouts.isSome = true := by decide
-- cache_transparent: its hypothesis holds for exTx / exSpent
example : exTx.ins.length ≤ exSpent.length := by decide

-- lifecycle_transparent / …_any_allocator / pool_full_reset_transparent: the hypothesis holds for lifeObjs, the
-- history really hands a struct from A to B (pool non-empty after the clean) and the last request is a digest
example : ∀ o ∈ lifeObjs, o.tx.ins.length ≤ o.spent.length := by decide
example : (runLife (poolAlloc fun _ => {}) (fun b => b) lifeObjs (World.init 2 []) lifeEvs).length = 5 := by decide
example : ∃ p d, (runLifeSpec (fun b => b) lifeObjs [false, false] lifeEvs).getLast? = some (some (.hashed p d)) :=
  ⟨_, _, rfl⟩
-- pool_partial_reset_counterexample: its hypothesis holds for the identity "hash"
example : (fun b : Bytes => b) (outputsBytes lifeTxA) ≠ (fun b : Bytes => b) (outputsBytes lifeTxB) := by decide

-- caller_requests_sound: a history with EARLY requests that is disciplined (BIP143 and an ANYONECANPAY taproot request
-- for the stored input before the second store), and `earlyEvs` is not
example : callerTx.ins.length ≤ callerSpent.length := by decide
example : disciplined 2 0 [.store, .req (.wit [0xac] 5000 0 1), .req (.tap {} 0 0x81 false), .store, .req (.tap {} 1 0 false)] = true := by decide
example : disciplined 2 0 earlyEvs = false := by decide
-- early_worker_counterexample: its hypotheses hold for a constant 32-byte "hash"
example : ∃ H : Bytes → Bytes, (∀ b, (H b).length = 32) ∧ H (callerSpent.flatMap fun o => le64 o.value) ≠ zero32 :=
  ⟨fun _ => List.replicate 32 1, by simp, by decide⟩

end GocoinV.Props.C02
