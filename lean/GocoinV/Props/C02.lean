/-
  Props.C02 — property theorems for C02 (signature hashes). See DESIGN.md §6 C02.
-/
import GocoinV.Model.SigHash
import GocoinV.Spec.SigHash
namespace GocoinV.Props.C02
open GocoinV GocoinV.SigHash

end GocoinV.Props.C02
