/-
  Props.C20 — the UTXO memory allocator (lib/others/memory) never corrupts or aliases live data.
  Property theorems about Model/Alloc.lean (the definitions oracle_c20 executes and go/cmd/c20
  compares with the real allocator) over the size-class table regenerated from slots.go/memory.go.
  The invariant `Inv` (Proofs/C20Inv.lean) says, for every reachable state:
    * every page header: brk ≤ cap, per-page free list duplicate-free and below brk; for every slot
      below brk "on the page's free list ↔ not live"; |free list| + used = brk; used + free = cap;
    * every class: page list duplicate-free and made of mapped pages of the class, pageCount = its length,
      global free list duplicate-free and = exactly the per-page free-list entries of the class's pages,
      the current page is a mapped page of the class with brk < cap;
    * every live allocation: its slot memory holds Data = slot+header, Len = requested size,
      Cap ≥ size (Cap + 24 = slot size of the page's class, or = mapped size for private mappings) and
      the value last written by the owner; shared ones lie below brk of a mapped page;
    * private mappings and shared pages never share an id; Allocs = number of live allocations;
    * no page is marked evacuating between operations.
  Two further invariants, proved for every reachable state in separate files:
    * `Cnt` (Proofs/C20Count.lean, theorem `counters_exact`): freeSlots[class] = Σ header.free over the
      class's pages, SharedMmaps = number of mapped shared pages, PrivateMmaps = number of private mappings,
      Bytes = pageSize · shared pages + Σ sizes of the private mappings (the model's `bytes` is a.Bytes
      without the pre-mapped pages waiting in the page cache; the harness subtracts them);
    * `Rep` (Proofs/C20Ptr.lean, theorems `rep_inv`, `pointer_reads_agree`): the pointer layer `State.heap`
      (node.prev/next/prevInPage/nextInPage, header.prev/next/freeList, lists/firstPage/lastPage — written by
      exactly the link writes of the Go code, the back-links being present iff the regenerated facts
      `Gen.MemClasses.lnk*` say the source has them) spells exactly the abstract lists.
  The step granularity itself — "one Malloc / Free call = one atomic step" — is a checked source fact too:
  go/cmd/gen_c20/locks.go extracts from Malloc and Free the expression that selects the class whose mutex is
  locked and the expression(s) that select the class whose lists / pages / counters are edited
  (`Gen.MemClasses.mallocLockSel`, `mallocEditSel`, `freeLockSel`, `freeEditSel`, `…LockBrackets`);
  `malloc_locks_own_class` / `free_locks_own_class` prove from these terms that the locked class is the edited
  class and is the class the model's step edits.  `…LockBrackets` covers the Allocator's per-class slices AND
  the fields of page headers / free-list nodes in mmap'd memory (moving `header.used++` behind `Unlock()`
  flips it to false).  A source that locks by another expression (e.g.
  `getSizeClass(sh.Cap)` in Free) regenerates another term and these theorems no longer compile.
-/
import GocoinV.Proofs.C20Once
import GocoinV.Proofs.C20Ptr
import GocoinV.Proofs.C20Count
import GocoinV.Proofs.C20Lock
import GocoinV.Proofs.C20Total
import GocoinV.Proofs.C20Clobber
import GocoinV.Proofs.C20Example
import GocoinV.Proofs.C20Node
namespace GocoinV.Props.C20
open GocoinV.Alloc GocoinV.Gen.MemClasses

/-- The generated size-class table is usable by the allocator: at most 255 classes (class index is a
byte), every slot (after `init()` added the slice header) holds the 32-byte free-list node, every
class has at least one and at most 65535 slots per page (`brk/used/free` are uint16), all slots of a
page lie inside the page, every slot size is ≤ MaxSharedSize (otherwise Free would munmap a shared
slot), and the node's `nextInPage` field starts exactly where the payload starts (so it never overlaps
the next slot). -/
theorem table_wf :
    nClasses ≤ 2 ^ classBits - 1 ∧ 0 < nClasses ∧
    (∀ c, c < nClasses → nodeSize ≤ slotSize c ∧ 1 ≤ capOf c ∧ capOf c < 2 ^ brkBits ∧
      capOf c < 2 ^ usedBits ∧ capOf c < 2 ^ freeBits ∧ headerSize + capOf c * slotSize c ≤ pageSize ∧
      slotSize c ≤ maxShared) ∧
    nodeNextInPageOff + 8 = nodeSize ∧ sliceHdrLen ≤ nodeNextInPageOff := by
  decide +kernel

/-- Every request that takes the shared path (size + 24 ≤ MaxSharedSize) is routed to an existing class
whose slot holds the slice header and the payload. -/
theorem class_fits (size : Nat) (h : size + sliceHdrLen ≤ maxShared) :
    classOf (size + sliceHdrLen) < nClasses ∧
    size + sliceHdrLen ≤ slotSize (classOf (size + sliceHdrLen)) :=
  classOf_spec _ h

/-- Slots of a page lie behind the header, inside the 1 MiB page, and two different slots of the same
page have disjoint byte ranges. -/
theorem slots_disjoint_inside_page (c i j : Nat) (hc : c < nClasses) (hi : i < capOf c) (hj : j < capOf c) :
    headerSize ≤ slotLo c i ∧ slotHi c i ≤ pageSize ∧ (i < j → slotHi c i ≤ slotLo c j) := by
  have t := (table_wf.2.2.1 c hc).2.2.2.2.2.1
  refine ⟨by simp [slotLo], ?_, ?_⟩
  · have : (i + 1) * slotSize c ≤ capOf c * slotSize c := Nat.mul_le_mul_right _ hi
    simp only [slotHi]; omega
  · intro hij
    have : (i + 1) * slotSize c ≤ j * slotSize c := Nat.mul_le_mul_right _ hij
    simp only [slotHi, slotLo]; omega

/-- One Malloc / Free / owner-write / DefragAllImproved step keeps the invariant (for a defrag pass: with
whatever evacuation order the model accepts as legal). -/
theorem step_inv {V : Type} (s s' : State V) (op : Op V) (inv : Inv s) (hr : step s op = .ok s') : Inv s' := by
  cases op with
  | malloc size =>
    simp only [step] at hr
    cases hm : malloc s size with
    | error e => simp [hm] at hr
    | ok r => obtain ⟨s2, a⟩ := r; simp only [hm] at hr; cases hr; exact (malloc_inv inv hm).1
  | free a => exact (free_inv inv hr).1
  | write a v => exact (write_inv inv hr).1
  | defrag ch => exact defragAll_inv inv hr

/-- Central invariant: every state reached from the empty allocator by any sequence of Malloc, Free of
live pointers, owner writes and defragmentation passes (= any interleaving of such calls from any number
of goroutines, each Malloc/Free being one atomic step under the mutex of the class it edits — a source fact
re-extracted on every run, see `malloc_locks_own_class` / `free_locks_own_class` below —, defrag running
exclusively) satisfies `Inv` (listed at the top of this file): live slots are distinct slots below brk of mapped
pages, returned slices have Len = size, Cap ≥ size, Data = slot + header, free lists hold exactly the
non-live slots, the counters equal the counted values, Allocs = number live. -/
theorem alloc_inv {V : Type} (ops : List (Op V)) (s : State V) (hr : run init ops = .ok s) : Inv s := by
  suffices H : ∀ (ops : List (Op V)) (s0 s : State V), Inv s0 →
      foldE step s0 ops = .ok s → Inv s from H ops init s init_inv hr
  intro ops
  induction ops with
  | nil => intro s0 s i h; simp only [foldE] at h; cases h; exact i
  | cons op rest ih =>
    intro s0 s i h
    simp only [foldE] at h
    cases hs : step s0 op with
    | error e => simp [hs] at h
    | ok s1 => simp only [hs] at h; exact ih s1 s (step_inv s0 s1 op i hs) h

/-- Malloc always succeeds in the model (mmap is assumed not to fail): it never dereferences a nil list
head or an unmapped page. -/
theorem malloc_never_fails {V : Type} (s : State V) (inv : Inv s) (size : Nat) :
    ∃ s' a, malloc s size = .ok (s', a) := malloc_total inv.g size

-- non-vacuity: the hypotheses of the theorems in this file are satisfiable and traces exist
-- (`Inv s`, a live allocation, successful Malloc / Free / write / defrag steps).  A relocating defragClass pass is
-- exhibited by `relocating_pass_witness` below (evaluated by simp; Std.HashMap does not reduce in the kernel);
-- relocating passes of `defragAll` (above the 12 MB trigger) come from the correspondence run, which feeds the
-- model the passes of the real allocator and counts the accepted ones (evidence `defrag:pass relocated=…`).
example : Inv (init : State Nat) := init_inv
example : ∃ s a, run (init : State Nat) [.malloc 10] = .ok s ∧ s.isLive a ∧ Inv s := by
  obtain ⟨s', a, h⟩ := malloc_total (init_inv (V := Nat)).g 10
  have hrun : run (init : State Nat) [.malloc 10] = .ok s' := by simp [run, foldE, step, h]
  refine ⟨s', a, hrun, ?_, alloc_inv _ _ hrun⟩
  have := (malloc_inv init_inv h).2.2
  simp [State.isLive, this, KMap.get?_set]
example : ∃ s a s2 s3, run (init : State Nat) [.malloc 200000] = .ok s ∧ s.isLive a ∧
    step s (.write a 5) = .ok s2 ∧ step s2 (.free a) = .ok s3 := by
  obtain ⟨s', a, h⟩ := malloc_total (init_inv (V := Nat)).g 200000
  have hrun : run (init : State Nat) [.malloc 200000] = .ok s' := by simp [run, foldE, step, h]
  have i1 := alloc_inv _ _ hrun
  have hl : s'.live.get? a = some ⟨200000, none⟩ := by
    rw [(malloc_inv init_inv h).2.2, KMap.get?_set, if_pos rfl]
  obtain ⟨m, hm, _⟩ := i1.g.live a _ hl
  have hw : ∃ s2, write s' a 5 = .ok s2 := by simp [write, hl, hm]
  obtain ⟨s2, hw⟩ := hw
  obtain ⟨i2, l0, _, hl2⟩ := write_inv i1 hw
  obtain ⟨s3, h3⟩ := free_total i2 (a := a) (by simp [State.isLive, hl2, KMap.get?_set])
  exact ⟨s', a, s2, s3, hrun, by simp [State.isLive, hl], hw, h3⟩
example : ∃ s', step (init : State Nat) (.defrag []) = .ok s' := by
  have hf : ∀ (l : List Nat) (s : State Nat), (∀ c, wantsDefrag s c = false) →
      foldE (fun s c => if wantsDefrag s c then defragClass s c (([] : List (Nat × List Nat)).lookup c |>.getD [])
        else if (([] : List (Nat × List Nat)).lookup c |>.getD []).isEmpty then .ok s else .error .illegalChoice) s l = .ok s := by
    intro l; induction l with
    | nil => intro s _; rfl
    | cons c r ih => intro s h; simp only [foldE, h c]; exact ih s h
  refine ⟨{ (init : State Nat) with relog := [] }, ?_⟩
  simp only [step, defragAll]
  exact hf _ _ (by intro c; simp [wantsDefrag, State.K, init])

/-! ### totality: the `.corrupt` exits of the model ("the Go code would dereference nil / an unmapped page
    here") are unreachable — for the defragmentation pass too -/

/-- defragClass never fails on an evacuation order its selection rule accepts.  `choiceOk s c ev`
(Proofs/C20Total.lean) is the decidable acceptance test of defragClass itself, written as one Boolean: no
non-full page or nothing to move ⇒ only the empty order; otherwise `legalChoice` (distinct non-full pages
whose `used` values are those of the sorted prefix the selection loop takes).  From `Inv s` and an accepted
order every exit `.corrupt` of beginEvac (page missing), moveNext (page missing / not evacuating / slot below
brk neither saved-free nor live), allocSlot (nil list head / unmapped page), evacPage and endEvac
(scan ≠ brk) is unreachable; a rejected order fails with `.illegalChoice` before the state is touched. -/
theorem defragClass_total {V : Type} (s : State V) (inv : Inv s) (c : Nat) (hc : c < nClasses) (ev : List Nat) :
    (choiceOk s c ev = true → ∃ s', defragClass s c ev = .ok s') ∧
    (choiceOk s c ev = false → defragClass s c ev = .error .illegalChoice) :=
  ⟨fun h => Alloc.defragClass_total hc inv h, fun h => defragClass_illegal h⟩

/-- A whole DefragAllImproved pass succeeds from every state satisfying `Inv` exactly when the offered
choice is accepted class after class (`PassLegal`: class c's order satisfies `classLegal` — the trigger
test plus `choiceOk` — in the state in which the pass reaches class c).  So the hypothesis
`defragAll s ch = .ok s'` of `step_inv`, `contents_preserved`, `relocate_only_live` is equivalent to "the
evacuation orders are the ones the selection rule allows"; it hides no reachable `.corrupt` exit. -/
theorem defragAll_total {V : Type} (s : State V) (inv : Inv s) (ch : List (Nat × List Nat)) :
    (∃ s', defragAll s ch = .ok s') ↔
      PassLegal ch ({ s with relog := [] } : State V) (List.range nClasses) := by
  rw [defragAll_eq]
  constructor
  · rintro ⟨s', h⟩; exact foldClass_legal _ _ s' h
  · intro h
    obtain ⟨s', e, _⟩ := foldClass_total (ch := ch) (List.range nClasses) _
      (fun x hx => List.mem_range.1 hx) (relogClear_inv inv) h
    exact ⟨s', e⟩

/-- Whatever evacuation orders are offered, a pass from a state satisfying `Inv` either succeeds or is
rejected as `.illegalChoice`: it never reaches `.corrupt` (nor any other error). -/
theorem defragAll_never_corrupt {V : Type} (s : State V) (inv : Inv s) (ch : List (Nat × List Nat)) :
    (∃ s', defragAll s ch = .ok s') ∨ defragAll s ch = .error .illegalChoice := by
  rw [defragAll_eq]
  exact foldClass_ok_or_illegal _ _ (fun x hx => List.mem_range.1 hx) (relogClear_inv inv)

/-- A started pass has no abort path, in the model AND in the source.  The model's pass has no step for "the OS
refused a fresh page while records were being moved": from a state satisfying `Inv` it ends in a state
satisfying `Inv` or is rejected, untouched, as `.illegalChoice`.  That mirrors the Go code only as long as the code
does not survive such a refusal half-way: from the statement that marks a page `evacuating` on, the free slots of
all selected pages are off every list, and only the end of the pass (pages unlinked and unmapped) repairs that.
`defragNoEarlyExit` is the regenerated source fact (go/cmd/gen_c20/abort.go) that in every function of
lib/others/memory that sets a header's `evacuating` flag no `return` follows that statement except the one that
closes the function body — the code's only other way out is `panic`, which stops the process (fail-stop; the
damaged state is never used).  An edit that turns the panic into a "graceful" early return makes the fact false
and this theorem stops compiling; the harness stream go/cmd/c20/fault.go (RLIMIT_AS follows the process size
during a pass, so mmap really fails) then looks for the concrete failing history. -/
theorem defrag_pass_has_no_abort_path {V : Type} (s : State V) (inv : Inv s) (ch : List (Nat × List Nat)) :
    defragNoEarlyExit = true ∧
    ((∃ s', defragAll s ch = .ok s' ∧ Inv s') ∨ defragAll s ch = .error .illegalChoice) := by
  refine ⟨by decide, ?_⟩
  rcases defragAll_never_corrupt s inv ch with ⟨s', h⟩ | h
  · exact .inl ⟨s', h, defragAll_inv inv h⟩
  · exact .inr h

-- non-vacuity: the hypothesis holds at the empty allocator (and at every reachable state: `alloc_inv`)
example : defragNoEarlyExit = true ∧
    ((∃ s', defragAll (init : State Nat) [] = .ok s' ∧ Inv s') ∨ defragAll (init : State Nat) [] = .error .illegalChoice) :=
  defrag_pass_has_no_abort_path init init_inv []

/-- An accepted choice always exists: from every state satisfying `Inv` there are evacuation orders (per class:
the non-full pages sorted by `used`, cut where the selection loop stops) with which the whole pass succeeds;
for a single class, some order satisfies `choiceOk`.  So `PassLegal` / `choiceOk` are satisfiable in every
reachable state — the defrag theorems are never vacuous for want of a legal order. -/
theorem accepted_choice_exists {V : Type} (s : State V) (inv : Inv s) :
    (∀ c, ∃ ev, choiceOk s c ev = true) ∧ ∃ ch s', defragAll s ch = .ok s' := by
  refine ⟨fun c => choiceOk_exists inv c, ?_⟩
  obtain ⟨ch, s', h⟩ := foldClass_exists (List.range nClasses) ({ s with relog := [] } : State V)
    List.nodup_range (fun x hx => List.mem_range.1 hx) (relogClear_inv inv)
  exact ⟨ch, s', by rw [defragAll_eq]; exact h⟩

/-- A trace whose operations are legal when issued — Free and owner writes name live pointers, defrag passes
offer accepted evacuation orders (`TraceLegal`, judged in the state each operation is issued in) — runs to
completion from every state satisfying `Inv`, and the final state satisfies `Inv`.  With `init_inv`: from the
empty allocator.  Hence `alloc_inv` / `rep_inv` / `counters_exact` (stated for `run init ops = .ok s`) apply to
every such trace. -/
theorem run_total {V : Type} (s : State V) (inv : Inv s) (ops : List (Op V)) (h : TraceLegal s ops) :
    ∃ s', run s ops = .ok s' ∧ Inv s' := run_total_aux ops s inv h

/-- Any trace at all, from the empty allocator: the run succeeds, or it stops at a caller error — Free / write
of a pointer that is not live (`.notLive`) or a rejected evacuation order (`.illegalChoice`).  The exits
`.corrupt`, `.pageReleaseBranch`, `.dispatchMismatch` are unreachable. -/
theorem run_never_corrupt {V : Type} (ops : List (Op V)) :
    (∃ s, run (init : State V) ops = .ok s) ∨ run (init : State V) ops = .error .notLive ∨
      run (init : State V) ops = .error .illegalChoice := run_ok_or_caller_aux ops init init_inv

-- non-vacuity: a legal trace with a Free of a live pointer and a (trivial) defrag pass; `PassLegal` is
-- satisfiable; a rejected order really is reported as `.illegalChoice`.
example : PassLegal ([] : List (Nat × List Nat)) ({ (init : State Nat) with relog := [] }) (List.range nClasses) :=
  (defragAll_total init init_inv []).1 (by
    have hf : ∀ (l : List Nat) (s : State Nat), (∀ c, wantsDefrag s c = false) →
        foldE (classStep []) s l = .ok s := by
      intro l; induction l with
      | nil => intro s _; rfl
      | cons c r ih => intro s h; simp only [foldE, classStep, h c]; exact ih s h
    exact ⟨_, by rw [defragAll_eq]; exact hf _ _ (by intro c; simp [wantsDefrag, State.K, init])⟩)
example : TraceLegal (init : State Nat) [.defrag [], .malloc 10] := by
  refine ⟨?_, fun _ _ => ⟨trivial, fun _ _ => trivial⟩⟩
  refine (defragAll_total init init_inv []).1 ?_
  have hf : ∀ (l : List Nat) (s : State Nat), (∀ c, wantsDefrag s c = false) →
      foldE (classStep []) s l = .ok s := by
    intro l; induction l with
    | nil => intro s _; rfl
    | cons c r ih => intro s h; simp only [foldE, classStep, h c]; exact ih s h
  exact ⟨_, by rw [defragAll_eq]; exact hf _ _ (by intro c; simp [wantsDefrag, State.K, init])⟩
example : ∃ (s : State Nat) (a : Addr), Inv s ∧ TraceLegal s [.free a, .malloc 5] := by
  obtain ⟨s', a, h⟩ := malloc_total (init_inv (V := Nat)).g 10
  have i1 := malloc_inv init_inv h
  have hl : s'.isLive a := by simp [State.isLive, i1.2.2, KMap.get?_set]
  exact ⟨s', a, i1.1, hl, fun _ _ => ⟨trivial, fun _ _ => trivial⟩⟩
example : choiceOk (init : State Nat) 0 [] = true ∧ choiceOk (init : State Nat) 0 [1] = false := by
  simp [choiceOk, State.K, init]

/-- A relocating defragClass pass, inside Lean (non-vacuity of the relocation branch of `relocate_step`,
`contents_preserved`, `relocate_only_live` and of `defragClass_total`).  From the empty allocator `Malloc(131040)`
reaches `s1` (class 49, 8 slots per page, the record in slot (page 1, slot 0)); defragClass of class 49 accepts the
evacuation order [page 1], relocates the record to (page 2, slot 0) — exactly one relocate call is logged, the
new slot is live with the same size and value and a correct slice header, the old one is not, page 1 is
unmapped — and both states satisfy `Inv`.  Evaluated by `simp` with the map laws (Std.HashMap does not reduce
in the kernel).  `s1` is below the 12 MB trigger of DefragAllImproved (`wantsDefrag`), so this is a pass of
defragClass, not of `defragAll`: a reachable state above the trigger needs a trace of > 200 operations;
such passes are exercised by the correspondence run only (evidence `defrag:pass relocated=…`). -/
theorem relocating_pass_witness :
    ∃ (s1 s' : State Nat), run init [.malloc 131040] = .ok s1 ∧ Inv s1 ∧
      choiceOk s1 49 [1] = true ∧ defragClass s1 49 [1] = .ok s' ∧ Inv s' ∧
      s'.relog = [(Addr.sh 1 0, Addr.sh 2 0)] ∧
      s1.live.get? (.sh 1 0) = some ⟨131040, none⟩ ∧
      s'.live.get? (.sh 2 0) = some ⟨131040, none⟩ ∧ s'.live.get? (.sh 1 0) = none ∧
      s'.pages.get? 1 = none ∧
      s'.mem.get? (.sh 2 0) = some ⟨some (.sh 2 0), 131040, 131040, none⟩ := by
  have hrun : run (init : State Nat) [.malloc 131040] = .ok exS1 := by
    simp [run, foldE, step, exS1_malloc]
  have i1 : Inv exS1 := alloc_inv _ _ hrun
  obtain ⟨f1, f2, f3, f4, f5⟩ := exS2_facts
  exact ⟨exS1, exS2, hrun, i1, exS1_choice, exS1_defrag, defragClass_inv (by decide) i1 exS1_defrag,
    f1, by simp [exS1, KMap.get?_set], f2, f3, f4, f5⟩

/-- Malloc never hands out memory that is live: the returned slot was not live before, it is a slot of
a mapped page below `brk ≤ cap` (hence inside the page, `slots_disjoint_inside_page`), or a fresh
private mapping. Together with `slots_disjoint_inside_page` no two live allocations overlap. -/
theorem malloc_fresh {V : Type} (s s' : State V) (size : Nat) (a : Addr) (inv : Inv s)
    (hr : malloc s size = .ok (s', a)) :
    ¬ s.isLive a ∧ s'.isLive a ∧
    (∀ p i, a = .sh p i → ∃ h, s'.pages.get? p = some h ∧ h.cls < nClasses ∧ i < h.brk ∧ h.brk ≤ capOf h.cls) := by
  obtain ⟨i1, i2, i3⟩ := malloc_inv inv hr
  have hl : s'.isLive a := by simp [State.isLive, i3, KMap.get?_set]
  refine ⟨i2, hl, ?_⟩
  intro p i e; subst e
  simp only [State.isLive] at hl
  cases hq : s'.live.get? (.sh p i) with
  | none => simp [hq] at hl
  | some l =>
    obtain ⟨m, _, _, _, _, _, h, g1, g2, _⟩ := i1.g.live _ l hq
    have ok := i1.g.pages p h g1
    exact ⟨h, g1, ok.cls_lt, g2, ok.brk_le⟩

/-- Shape of every live allocation's slice: Data points to this slot's payload, Len is the requested
size, Cap ≥ size, and the payload is what the owner wrote last. -/
theorem slice_shape {V : Type} (s : State V) (inv : Inv s) (a : Addr) (l : LiveRec V)
    (hl : s.live.get? a = some l) :
    ∃ m, s.mem.get? a = some m ∧ m.data = some a ∧ m.len = l.size ∧ l.size ≤ m.cap ∧ m.val = l.val := by
  obtain ⟨m, h1, h2, h3, h4, h5, _⟩ := inv.g.live a l hl
  exact ⟨m, h1, h2, h3, h5, h4⟩

/-- The free lists hold exactly the non-live slots below brk, the global list exactly the per-page
entries, and the header counters equal the counted values. -/
theorem free_lists_exact {V : Type} (s : State V) (inv : Inv s) (p : Nat) (h : Page)
    (hp : s.pages.get? p = some h) :
    (∀ i, i < h.brk → (i ∈ h.freeList ↔ ¬ s.isLive (.sh p i))) ∧
    (∀ i, (p, i) ∈ (s.K h.cls).glist ↔ i ∈ h.freeList) ∧
    h.freeList.Nodup ∧ h.freeList.length + h.used = h.brk ∧ h.used + h.free = capOf h.cls ∧
    h.brk ≤ capOf h.cls ∧ (s.K h.cls).pageCount = (s.K h.cls).plist.length ∧ p ∈ (s.K h.cls).plist := by
  have ok := inv.g.pages p h hp
  have okc := inv.g.classes h.cls
  have ne := ok.ne (inv.noEvac p h hp)
  refine ⟨ne.1, ?_, ok.fl_nodup, ne.2.1, ne.2.2, ok.brk_le, okc.count, ok.in_plist⟩
  intro i; rw [okc.gl_iff]
  constructor
  · rintro ⟨h0, a, _, _, d⟩; rw [hp] at a; cases a; exact d
  · intro d; exact ⟨h, hp, rfl, inv.noEvac p h hp, d⟩

/-- The uint16 header counters never wrap: they stay ≤ cap < 2^16 (so modelling them as naturals is exact).
NOT covered: the uint32 class counters `a.freeSlots[class]` / `a.pageCount[class]` are naturals in the model
and no theorem bounds them; freeSlots[class] ≤ pageCount·cap and a page is 1 MiB (2^pageSizeLog), so a wrap
needs 2^32 free slots of one class = at least 2^32·96 bytes ≈ 390 GB of mapped pages of that class — assumed
not to happen, stated here, proved nowhere. -/
theorem counters_fit {V : Type} (s : State V) (inv : Inv s) (p : Nat) (h : Page)
    (hp : s.pages.get? p = some h) : h.brk < 2 ^ brkBits ∧ h.used < 2 ^ usedBits ∧ h.free < 2 ^ freeBits := by
  obtain ⟨_, _, _, h4, h5, h6, _, _⟩ := free_lists_exact s inv p h hp
  have ok := inv.g.pages p h hp
  obtain ⟨_, _, t3, t4, t5, _⟩ := table_wf.2.2.1 h.cls ok.cls_lt
  refine ⟨?_, ?_, ?_⟩ <;> omega

/-- Allocs equals the number of live allocations. -/
theorem allocs_eq_live {V : Type} (s : State V) (inv : Inv s) : s.allocs = s.live.size := inv.allocs

/-- Free of a live pointer always succeeds in the model: it never reaches the "page is completely free"
branch of uintptrFreeShared (`used == 0`), never takes the wrong private/shared path, never touches an
unmapped page. -/
theorem free_never_fails {V : Type} (s : State V) (inv : Inv s) (a : Addr) (hl : s.isLive a) :
    ∃ s', free s a = .ok s' := free_total inv hl

/-- Malloc / Free / owner writes do not move or change other allocations: a live allocation that the
operation does not name stays live at the same address with the same size and last-written value. -/
theorem others_untouched {V : Type} (s s' : State V) (op : Op V) (inv : Inv s)
    (hr : step s op = .ok s') (a : Addr) (l : LiveRec V) (hl : s.live.get? a = some l)
    (hop : ∀ ch, op ≠ .defrag ch) (hf : op ≠ .free a) (hw : ∀ v, op ≠ .write a v) :
    s'.live.get? a = some l := by
  cases op with
  | malloc size =>
    simp only [step] at hr
    cases hm : malloc s size with
    | error e => simp [hm] at hr
    | ok r =>
      obtain ⟨s2, b⟩ := r; simp only [hm] at hr; cases hr
      obtain ⟨_, i2, i3⟩ := malloc_inv inv hm
      rw [i3, KMap.get?_set]; split
      · next e => subst e; simp [State.isLive, hl] at i2
      · exact hl
  | free b =>
    obtain ⟨_, _, i3⟩ := free_inv inv hr
    rw [i3, KMap.get?_del]; split
    · next e => subst e; exact absurd rfl hf
    · exact hl
  | write b v =>
    obtain ⟨_, l', _, i3⟩ := write_inv inv hr
    rw [i3, KMap.get?_set]; split
    · next e => subst e; exact absurd rfl (hw v)
    · exact hl
  | defrag ch => exact absurd rfl (hop ch)

/-- Contents preserved by every operation, defragmentation passes included, and relocate is invoked
exactly once per moved allocation: an allocation that is live before the step and is not the one being
freed / rewritten by its owner is live after the step with the same size and the same last-written
value — at the same address (and, for a defrag pass, no relocate call names it as old), or, for a defrag
pass only, at `a'` where relocate(a, a') was logged, no other logged call of the pass has `a` as old
(`a` occurs exactly once among the olds of the log) and `a` itself is no longer live.  The memory at
that address holds exactly that value, with Len = size, Cap ≥ size and Data = that slot's payload. -/
theorem contents_preserved {V : Type} (s s' : State V) (op : Op V) (inv : Inv s)
    (hr : step s op = .ok s') (a : Addr) (l : LiveRec V) (hl : s.live.get? a = some l)
    (hf : op ≠ .free a) (hw : ∀ v, op ≠ .write a v) :
    ∃ a' m, s'.live.get? a' = some l ∧
      ((a' = a ∧ ∀ ch, op = .defrag ch → ∀ n, (a, n) ∉ s'.relog) ∨
       ((∃ ch, op = .defrag ch) ∧ (a, a') ∈ s'.relog ∧ s'.live.get? a = none ∧
         (∀ n', (a, n') ∈ s'.relog → n' = a') ∧ (s'.relog.map Prod.fst).count a = 1)) ∧
      s'.mem.get? a' = some m ∧ m.val = l.val ∧ m.len = l.size ∧ l.size ≤ m.cap ∧ m.data = some a' := by
  have inv' := step_inv s s' op inv hr
  have fin : ∀ a', s'.live.get? a' = some l →
      ∃ m, s'.mem.get? a' = some m ∧ m.val = l.val ∧ m.len = l.size ∧ l.size ≤ m.cap ∧ m.data = some a' := by
    intro a' h1
    obtain ⟨m, g1, g2, g3, g4, g5⟩ := slice_shape s' inv' a' l h1
    exact ⟨m, g1, g5, g3, g4, g2⟩
  by_cases hd : ∃ ch, op = .defrag ch
  · obtain ⟨ch, e⟩ := hd
    subst e
    rcases defragAll_exactly_once inv hr a l hl with ⟨x, y⟩ | ⟨n, x1, x2, x3, x4, x5⟩
    · obtain ⟨m, hm⟩ := fin a x
      exact ⟨a, m, x, Or.inl ⟨rfl, fun _ _ => y⟩, hm⟩
    · obtain ⟨m, hm⟩ := fin n x2
      exact ⟨n, m, x2, Or.inr ⟨⟨ch, rfl⟩, x1, x3, x4, x5⟩, hm⟩
  · have hop : ∀ ch, op ≠ .defrag ch := fun ch e => hd ⟨ch, e⟩
    have x := others_untouched s s' op inv hr a l hl hop hf hw
    obtain ⟨m, hm⟩ := fin a x
    exact ⟨a, m, x, Or.inl ⟨rfl, fun ch e => absurd e (hop ch)⟩, hm⟩

/-- Every relocate call of a pass was for a live allocation and delivered it: for each logged
relocate(old,new), `old` was live before the pass with some record, after the pass `new` is live with
that record and `old` is not live; the `old`s of the log are pairwise different. -/
theorem relocate_only_live {V : Type} (s s' : State V) (ch : List (Nat × List Nat)) (inv : Inv s)
    (hr : defragAll s ch = .ok s') :
    (s'.relog.map Prod.fst).Nodup ∧
    ∀ o n, (o, n) ∈ s'.relog →
      ∃ l, s.live.get? o = some l ∧ s'.live.get? o = none ∧ s'.live.get? n = some l := by
  obtain ⟨B, o⟩ := defragAll_once inv hr
  exact ⟨o.olds_nodup, o.entry⟩

/-- One iteration of defragClass's slot loop (model `moveNext`) on an evacuating page of class c: the
invariant (`InvG` = `Inv` without "no page is evacuating") is kept, Allocs and the number of live
allocations are unchanged, and either nothing moved (the slot was on the saved free set; live set, log
and memory untouched) or exactly one live allocation `old = (pg, i)` moved: its record (size, last-written
value) is now at `new`, which was not live before; `old` is no longer live; no other live allocation
changed; memory of every allocation that was live is untouched; relocate(old,new) was logged exactly
once by this iteration.  By `InvG` of the new state (`LiveOk`) the memory at `new` holds the same value
with Len = size, Cap ≥ size and Data = new slot + header. -/
theorem relocate_step {V : Type} (s s' : State V) (c pg : Nat) (inv : InvG s) (hc : c < nClasses)
    (hcls : ∀ h, s.pages.get? pg = some h → h.evac = true → h.cls = c)
    (hr : moveNext s c pg = .ok s') :
    InvG s' ∧ s'.allocs = s.allocs ∧ s'.live.size = s.live.size ∧
    ((s'.live = s.live ∧ s'.relog = s.relog ∧ s'.mem = s.mem) ∨
     (∃ i new l, s.live.get? (.sh pg i) = some l ∧ ¬ s.isLive new ∧
        s'.relog = (.sh pg i, new) :: s.relog ∧
        s'.live.get? new = some l ∧ s'.live.get? (.sh pg i) = none ∧
        (∀ b, b ≠ new → b ≠ .sh pg i → s'.live.get? b = s.live.get? b) ∧
        (∀ b, s.isLive b → s'.mem.get? b = s.mem.get? b))) := by
  obtain ⟨a, b, c1, _, _, _, f⟩ := moveNext_invG inv hc hcls hr
  exact ⟨a, b, c1, f⟩

/-! ### the pointer layer (`State.heap`): doubly linked lists as the code stores them -/

/-- Representation invariant: in every state reached by any sequence of Malloc / Free / owner writes /
defragmentation passes, the pointer structure the code maintains — `a.lists[class]`, each free slot's
`node.prev/next` (global list) and `node.prevInPage/nextInPage` (per-page list), each page header's
`freeList` and `prev/next` (page chain), `firstPage/lastPage[class]` — spells exactly the abstract lists of the
model: following `next` from `lists[class]` visits exactly `glist`, following `nextInPage` from
`header.freeList` visits exactly the page's `freeList`, following `header.next` from `firstPage[class]`
visits exactly `plist` with `lastPage[class]` its last element, every `prev`/`prevInPage`/`header.prev` is
the predecessor (nil for the first node).  The link writes are the ones the Go source
contains (`Gen.MemClasses.lnk*`, regenerated on every run): the proof needs every back-link write
(`next.prev = p` reachable from Free, `next.prev = 0` in the pops reachable from Malloc and from
DefragAllImproved, the `prev`-direction writes of the removals reachable from DefragAllImproved) — without one of them this theorem does not compile. -/
theorem rep_inv {V : Type} (ops : List (Op V)) (s : State V) (hr : run init ops = .ok s) : Rep s := by
  suffices H : ∀ (ops : List (Op V)) (s0 s : State V), Inv s0 → Rep s0 →
      foldE step s0 ops = .ok s → Rep s from H ops init s init_inv init_rep hr
  intro ops
  induction ops with
  | nil => intro s0 s _ r h; simp only [foldE] at h; cases h; exact r
  | cons op rest ih =>
    intro s0 s i r h
    simp only [foldE] at h
    cases hs : step s0 op with
    | error e => simp [hs] at h
    | ok s1 => simp only [hs] at h; exact ih s1 s (step_inv s0 s1 op i hs) (step_rep i r hs) h

/-- One step keeps the representation invariant. -/
theorem rep_step {V : Type} (s s' : State V) (op : Op V) (inv : Inv s) (r : Rep s)
    (hr : step s op = .ok s') : Rep s' := step_rep inv r hr

/-- non-vacuity at a state with a mapped page and a live record (at `init` no page exists) -/
example : Inv exS1 ∧ Rep exS1 ∧ ∃ s', step exS1 (.malloc 131040) = .ok s' := by
  have i := alloc_inv _ _ exS1_run
  obtain ⟨s', a, h⟩ := malloc_never_fails exS1 i 131040
  exact ⟨i, rep_inv _ _ exS1_run, s', by simp [step, h]⟩

/-- What the code reads through pointers is what the list model says: `a.lists[class]` is the head of
`glist` (so the slot Malloc pops is the model's), walking `next` / `nextInPage` with enough fuel yields
`glist` / the page's free list (so the set `freeSlotsArr` that defragClass collects and the nodes it
unlinks are the model's `saved` / filtered entries), and the lists are consistently doubly linked: the
first node's back pointer is nil and `n.next.prev = n`, `n.nextInPage.prevInPage = n` for every node —
the property whose loss (a dropped `next.prev = p`) lets a later middle-of-list removal truncate the
global free list. -/
theorem pointer_reads_agree {V : Type} (s : State V) (r : Rep s) :
    (∀ c, (s.heap.C c).lists = (s.K c).glist.head?) ∧
    (∀ c f, (s.K c).glist.length ≤ f → walk (nxG s.heap) f (s.heap.C c).lists = (s.K c).glist) ∧
    (∀ p h f, s.pages.get? p = some h → h.freeList.length ≤ f →
      walk (nxP s.heap) f (s.heap.H p).freeList = h.freeList.map (Prod.mk p)) ∧
    (∀ c x, x ∈ (s.K c).glist →
      (pvG s.heap x = none ↔ (s.heap.C c).lists = some x) ∧
      (∀ y, nxG s.heap x = some y → y ∈ (s.K c).glist ∧ pvG s.heap y = some x) ∧
      (∀ y, pvG s.heap x = some y → y ∈ (s.K c).glist)) ∧
    (∀ p h i, s.pages.get? p = some h → i ∈ h.freeList →
      (pvP s.heap (p, i) = none ↔ (s.heap.H p).freeList = some (p, i)) ∧
      (∀ y, nxP s.heap (p, i) = some y → y.1 = p ∧ y.2 ∈ h.freeList ∧ pvP s.heap y = some (p, i))) := by
  refine ⟨fun c => (r.glob c).head, fun c f hf => (r.glob c).walk f hf, ?_, ?_, ?_⟩
  · intro p h f hp hf
    exact (r.page p h hp).walk f (by rw [List.length_map]; exact hf)
  · intro c x hx
    exact ⟨(r.glob c).pv_none_iff x hx,
      fun y hy => ⟨(r.glob c).nx_in x hx y hy, (r.glob c).back x hx y hy⟩,
      fun y hy => (r.glob c).pv_in x hx y hy⟩
  · intro p h i hp hi
    have hm : (p, i) ∈ h.freeList.map (Prod.mk p) := by simp [hi]
    refine ⟨(r.page p h hp).pv_none_iff _ hm, ?_⟩
    intro y hy
    have := mem_mk ((r.page p h hp).nx_in _ hm y hy)
    exact ⟨this.1, this.2, (r.page p h hp).back _ hm y hy⟩

/-- The page chain: `firstPage[class]` / `lastPage[class]` are the first / last element of the class's
page list, walking `header.next` from `firstPage` visits exactly the page list (what defragClass scans
to collect the non-full pages), and the chain is consistently doubly linked (`header.next.prev = header`,
the first page's `prev` is nil). -/
theorem page_chain_agrees {V : Type} (s : State V) (r : Rep s) :
    (∀ c, (s.heap.C c).first = (s.K c).plist.head? ∧ (s.heap.C c).last = (s.K c).plist.getLast?) ∧
    (∀ c f, (s.K c).plist.length ≤ f → walk (nxH s.heap) f (s.heap.C c).first = (s.K c).plist) ∧
    (∀ c p, p ∈ (s.K c).plist →
      (pvH s.heap p = none ↔ (s.heap.C c).first = some p) ∧
      (∀ q, nxH s.heap p = some q → q ∈ (s.K c).plist ∧ pvH s.heap q = some p)) :=
  ⟨fun c => ⟨(r.plist c).head, r.last c⟩, fun c f hf => (r.plist c).walk f hf,
   fun c p hp => ⟨(r.plist c).pv_none_iff p hp,
     fun q hq => ⟨(r.plist c).nx_in p hp q hq, (r.plist c).back p hp q hq⟩⟩⟩

example : Rep (init : State Nat) := init_rep

/-- The node writes of the pointer layer are contained in the `clobber` sets.  "A live allocation keeps its
bytes" (`contents_preserved`, `slice_shape`) is a statement about `State.mem`; the allocator writes `mem` only
through `clobber s.mem wr` in allocSlot / freeSlot / beginEvac, while the link writes themselves are the `setN`
calls inside hPop / hPush / hPurge on `State.heap`.  This theorem ties the two: in each primitive transition
every step is composed of, every slot y whose node (`heap.N y`: prev, next, prevInPage, nextInPage) is changed
by the heap operation holds `junk` in `mem` afterwards, i.e. it is in the `wr` list of that transition — the
lists are not too small.  (newPage / endEvac write page headers only: no node changes.)  `InvG` / `Rep` hold at
every such point of every reachable run (`alloc_inv`, `rep_inv` and the per-transition lemmas of
Proofs/C20Inv, C20Ptr).  Since a clobbered slot that is live would lose `LiveOk` (Data = slot), which `alloc_inv`
proves is kept, no node write ever lands in a live allocation. -/
theorem node_writes_clobbered {V : Type} (s : State V) (inv : InvG s) (r : Rep s) :
    (∀ c s' p i, allocSlot s c = .ok (s', p, i) →
      ∀ y, s'.heap.N y ≠ s.heap.N y → s'.mem.get? (.sh y.1 y.2) = some junk) ∧
    (∀ p i h, s.pages.get? p = some h →
      ∀ y, (freeSlot s p i h).heap.N y ≠ s.heap.N y → (freeSlot s p i h).mem.get? (.sh y.1 y.2) = some junk) ∧
    (∀ c pg s', beginEvac s c pg = .ok s' →
      ∀ y, s'.heap.N y ≠ s.heap.N y → s'.mem.get? (.sh y.1 y.2) = some junk) ∧
    (∀ c y, (newPage s c).heap.N y = s.heap.N y) ∧
    (∀ c pg s', endEvac s c pg = .ok s' → ∀ y, s'.heap.N y = s.heap.N y) :=
  ⟨fun _ _ _ _ hr y hy => allocSlot_writes_clobbered inv r hr y hy,
   fun _ _ _ hp y hy => freeSlot_writes_clobbered r hp y hy,
   fun _ _ _ hr y hy => beginEvac_writes_clobbered inv r hr y hy,
   fun c y => newPage_writes_none s c y,
   fun _ _ _ hr y => endEvac_writes_none hr y⟩

example : InvG (init : State Nat) ∧ Rep (init : State Nat) := ⟨init_invG, init_rep⟩
/-- Non-vacuity away from `init` (where allocSlot fails and no page exists): in the reachable state `exS1`
(Proofs/C20Example: one page of class 49 with one live record) the hypotheses hold, allocSlot and beginEvac
succeed; and in the reachable state after Malloc, Malloc, Free(1,0) a freeSlot of (1,1) really changes the node
of ANOTHER slot — `(1,0).prev` — which by the theorem holds `junk` afterwards. -/
example : (InvG exS1 ∧ Rep exS1) ∧ (∃ r, allocSlot exS1 49 = .ok r) ∧ (∃ s', beginEvac exS1 49 1 = .ok s') ∧
    (∃ h, exS1.pages.get? 1 = some h) ∧
    ∃ (s : State Nat) (h : Page), InvG s ∧ Rep s ∧ s.pages.get? 1 = some h ∧
      (freeSlot s 1 1 h).heap.N (1, 0) ≠ s.heap.N (1, 0) ∧
      (freeSlot s 1 1 h).mem.get? (.sh 1 0) = some junk := by
  obtain ⟨s, h, hr, hp, hn⟩ := exFree_changes_node
  have i := (alloc_inv _ _ hr).g
  have r := rep_inv _ _ hr
  exact ⟨⟨(alloc_inv _ _ exS1_run).g, rep_inv _ _ exS1_run⟩, exS1_allocSlot, exS1_beginEvac,
    by simp [exS1, KMap.get?_set], s, h, i, r, hp, hn,
    (node_writes_clobbered s i r).2.1 1 1 h hp (1, 0) hn⟩

/-- The allocator's accounting equals the counted values in every reachable state: Allocs = number of
live allocations, freeSlots[class] = Σ header.free over the pages of the class's page list, SharedMmaps =
number of mapped shared pages, PrivateMmaps = number of private mappings, Bytes = pageSize · (shared
pages) + Σ mapped sizes of the private mappings (`KMap.total`). -/
theorem counters_exact {V : Type} (ops : List (Op V)) (s : State V) (hr : run init ops = .ok s) :
    s.allocs = s.live.size ∧
    (∀ c, ((s.K c).freeSlots : Int) = ((s.K c).plist.map (freeOf s)).sum) ∧
    s.sharedMmaps = (s.pages.size : Int) ∧ s.privMmaps = (s.privs.size : Int) ∧
    s.bytes = ((pageSize * s.pages.size + s.privs.total : Nat) : Int) := by
  suffices H : ∀ (ops : List (Op V)) (s0 s : State V), Inv s0 → Cnt s0 →
      foldE step s0 ops = .ok s → Cnt s by
    have c := H ops init s init_inv init_cnt hr
    exact ⟨(alloc_inv ops s hr).allocs, c.fs, c.sm, c.pm, c.byt⟩
  intro ops
  induction ops with
  | nil => intro s0 s _ r h; simp only [foldE] at h; cases h; exact r
  | cons op rest ih =>
    intro s0 s i r h
    simp only [foldE] at h
    cases hs : step s0 op with
    | error e => simp [hs] at h
    | ok s1 => simp only [hs] at h; exact ih s1 s (step_inv s0 s1 op i hs) (step_cnt i r hs) h

/-- One step keeps the counter invariant. -/
theorem counters_step {V : Type} (s s' : State V) (op : Op V) (inv : Inv s) (cn : Cnt s)
    (hr : step s op = .ok s') : Cnt s' := step_cnt inv cn hr

example : Cnt (init : State Nat) := init_cnt
/-- non-vacuity at a state with a mapped page and a live record; counters there are 1 alloc, 1 shared mmap, 7 free slots -/
example : Inv exS1 ∧ Cnt exS1 ∧ (∃ s', step exS1 (.malloc 131040) = .ok s') ∧
    exS1.allocs = 1 ∧ exS1.sharedMmaps = 1 := by
  have i := alloc_inv _ _ exS1_run
  obtain ⟨_, c2, c3, c4, c5⟩ := counters_exact _ _ exS1_run
  obtain ⟨s', a, h⟩ := malloc_never_fails exS1 i 131040
  exact ⟨i, ⟨c2, c3, c4, c5⟩, ⟨s', by simp [step, h]⟩, rfl, rfl⟩

/-! ### the per-class mutex is the mutex of the class that is edited (checked source fact) -/

/-- Malloc on the shared path locks the mutex OF THE CLASS IT EDITS.  `mallocLockSel` is the index expression
of the `a.classMu[…].Lock()` reached from Malloc, `mallocEditSel` the index expression of every per-class slice
access of Malloc and of the package functions it calls (calls are followed, whatever the helpers are named), both
regenerated from the source on every run in the name-free normal form of go/cmd/gen_c20/canon.go;
`mallocLockBrackets` says that on every control path the mutex is locked at most once, all those accesses AND
every access to a field of a page header / free-list node (`H(…).f`, `N(…).f` in the normal form — used, brk,
free, freeList, evacuating, the link fields — or memory behind a pointer the translator cannot classify;
reads in conditions included; calls followed; nothing of it inside a goroutine started by a callee) happen
while it is held, the only exception being the read of the header's `class` byte that selects the mutex, and
Malloc is left with the mutex released.  Not pinned by the fact: the slot's own slice header (written by
Malloc after Unlock — the slot is the caller's by then), accesses through function values or from other
packages, and what the hardware does with the accesses (the memory model).  Both
terms denote the same class c, and c is exactly the class on which the model's Malloc step operates
(`allocLive … c`), so treating the call as one atomic step of class c (as `alloc_inv` and every op-sequence
theorem of this file does) is justified by the source, not by prose. -/
theorem malloc_locks_own_class {V : Type} (s : State V) (size : Nat) (h : size + sliceHdrLen ≤ maxShared) :
    mallocLockBrackets = true ∧
    ∃ c, c < nClasses ∧ selMalloc mallocLockSel size = some c ∧ selMalloc mallocEditSel size = some c ∧
      malloc s size = allocLive { s with allocs := s.allocs + 1 } c size (slotSize c - sliceHdrLen) none :=
  ⟨by decide, _, (classOf_spec _ h).1, selMalloc_good (by decide) size h, selMalloc_good (by decide) size h,
   malloc_shared_eq s size h⟩

/-- Free of a live shared allocation locks the mutex OF THE CLASS IT EDITS.  `freeLockSel` is the index
expression of the `a.classMu[…].Lock()` in Free, `freeEditSel` the index expression of every per-class slice
access reachable from Free (calls followed; regenerated from the source on every run), `freeLockBrackets` says
that on every control path the mutex is locked at most once, all those accesses and every access to page
header / node memory (as for `mallocLockBrackets`; Free reads `H(page p).class` before `Lock()` to choose the
mutex — the one permitted access outside) happen while it is held, and
Free is left with the mutex released.  In every reachable state (`Inv`) both terms denote the
class byte `h.cls` of the header of the page holding the slot; the model's Free step is `freeSlot … h`, which
edits the lists and counters of class `h.cls` and leaves every other class's state alone.  The proof accepts
the two selection terms known to be right (the page header's class byte, or `getSizeClass(Cap + sliceHdrLen)`
— by `Inv` a live slot's Cap + 24 is its class's slot size and `classOf_slotSize`); for any other term, e.g.
`getSizeClass(Cap)` (which is a different class for some slots: `classOf_cap_differs`), it does not compile. -/
theorem free_locks_own_class {V : Type} (s : State V) (inv : Inv s) (p i : Nat) (hl : s.isLive (.sh p i)) :
    freeLockBrackets = true ∧
    ∃ h, s.pages.get? p = some h ∧ h.cls < nClasses ∧
      selFree freeLockSel s (.sh p i) = some h.cls ∧ selFree freeEditSel s (.sh p i) = some h.cls ∧
      free s (.sh p i) =
        .ok (freeSlot { s with allocs := s.allocs - 1, live := s.live.del (.sh p i) } p i h) ∧
      ∀ c, c ≠ h.cls →
        (freeSlot { s with allocs := s.allocs - 1, live := s.live.del (.sh p i) } p i h).K c = s.K c := by
  simp only [State.isLive] at hl
  cases hq : s.live.get? (.sh p i) with
  | none => simp [hq] at hl
  | some l =>
    obtain ⟨h, g1, g2, g3⟩ := selFree_good (e := freeLockSel) (by decide) inv hq
    obtain ⟨h', g1', _, g3'⟩ := selFree_good (e := freeEditSel) (by decide) inv hq
    obtain ⟨h'', g1'', g4⟩ := free_shared_eq inv hq
    rw [g1] at g1' g1''; cases g1'; cases g1''
    exact ⟨by decide, h, g1, g2, g3, g3', g4, fun c hc => freeSlot_other _ p i h c hc⟩

example : (10 : Nat) + sliceHdrLen ≤ maxShared := by decide
example : ∃ (s : State Nat) (p i : Nat), Inv s ∧ s.isLive (.sh p i) := by
  obtain ⟨s', a, h⟩ := malloc_total (init_inv (V := Nat)).g 10
  have i1 := malloc_inv init_inv h
  have hl : s'.isLive a := by simp [State.isLive, i1.2.2, KMap.get?_set]
  have h2 := h
  rw [malloc_shared_eq _ _ (by decide)] at h2
  unfold allocLive at h2
  simp only [] at h2
  split at h2
  · cases h2
  · cases h2; exact ⟨_, _, _, i1.1, hl⟩

/-! ## The allocator as wired into the node (client/common/config.go)

`Model/AllocNode.lean`: the configuration state machine of the three wiring variables `common.Memory`,
`utxo.Memory_Malloc`, `utxo.Memory_Free`.  Its transitions consult the regenerated source facts
`Gen.MemWire.*` (go/cmd/gen_c20/wire.go: who writes the three variables and from where those writers are
reachable), so the statements below are about what the CURRENT source does on a run-time config change. -/

open AllocNode in
/-- The regenerated facts say: no writer of the wiring variables is reachable from `common.Reset` or from any
other run-time path, `InitConfig` runs once, and Malloc / Free are bound to the allocator stored in
`common.Memory`.  (When the source moves the wiring block into Reset(), re-creates the allocator in a command
handler, or binds Free to another allocator, this stops compiling.) -/
theorem node_wiring_facts : srcFacts.Stable := by unfold Facts.Stable; decide

open AllocNode in
/-- For every start-up mode and EVERY history of run-time operations afterwards (config changes through
`Reset()`, any other entry point, Malloc, Free, defragmentation, even a repeated InitConfig): Malloc and Free
stay bound to the same place; when the node has an allocator to report on (`common.Memory`), that allocator
is the one both are bound to, every live record was allocated by it, and its `Allocs` equals the number of live
records; when it has none, both are the Go-heap defaults and no record lives in an allocator. -/
theorem node_wiring_stable (useGoHeap : Bool) (ops : List Op) :
    Wired (run srcFacts (step srcFacts Node.empty (.initConfig useGoHeap)) ops) :=
  (wired_run srcFacts node_wiring_facts ops _ (started_init _ _) (wired_init _ node_wiring_facts _)).1

open AllocNode in
/-- "The allocator's count of live allocations always equals the number actually live", at the node: the
counter of the allocator the node reports on and defragments is the number of records handed out through
`utxo.Memory_Malloc` and not yet returned through `utxo.Memory_Free`, after any history. -/
theorem node_reported_allocs_exact (ops : List Op) :
    let s := run srcFacts (step srcFacts Node.empty (.initConfig false)) ops
    reportedAllocs s = some (s.live.length : Int) := by
  intro s
  have w := node_wiring_stable false ops
  have hr := (reporting_run srcFacts node_wiring_facts ops _ (started_init srcFacts false)).1
  have h0 : (step srcFacts Node.empty (.initConfig false)).reporting = some 0 := by
    simp [AllocNode.step, Node.empty, rewire]
  have hrep := w.rep
  rw [show (run srcFacts (step srcFacts Node.empty (.initConfig false)) ops).reporting = some 0 from hr.trans h0] at hrep
  show Option.map _ s.reporting = _
  rw [show s.reporting = some 0 from hr.trans h0]
  simp only [Option.map_some]
  exact congrArg some hrep.2.2.1

open AllocNode in
/-- The allocator created at start-up is never replaced: after any history `common.Memory`, the Malloc binding
and the Free binding are what InitConfig left. -/
theorem node_allocator_never_replaced (useGoHeap : Bool) (ops : List Op) :
    let s0 := step srcFacts Node.empty (.initConfig useGoHeap)
    let s := run srcFacts s0 ops
    s.reporting = s0.reporting ∧ s.mallocTo = s0.mallocTo ∧ s.freeTo = s0.freeTo :=
  reporting_run srcFacts node_wiring_facts ops _ (started_init _ _)

open AllocNode in
/-- Each fact is needed (so the theorems above are sensitive to the source): with a wiring block reachable
from Reset(), one config change after one Malloc leaves the reported allocator at Allocs = 0 with one record
live, and freeing that record drives it to −1 (Free accepts the foreign slot); the same through any other
run-time writer; with a second InitConfig; and with Free bound elsewhere than Malloc the count never falls. -/
theorem node_wiring_facts_needed :
    (∀ f : Facts, f.resetRewires = true → f.paired = true →
      let s := run f (step f Node.empty (.initConfig false)) [.malloc, .reset false]
      reportedAllocs s = some 0 ∧ s.live.length = 1 ∧
      reportedAllocs (step f s (.free 0)) = some (-1) ∧ (step f s (.free 0)).live.length = 0) ∧
    (∀ f : Facts, f.runtimeRewires = true → f.paired = true →
      let s := run f (step f Node.empty (.initConfig false)) [.malloc, .other false]
      reportedAllocs s = some 0 ∧ s.live.length = 1) ∧
    (∀ f : Facts, f.initOnce = false → f.paired = true →
      let s := run f (step f Node.empty (.initConfig false)) [.malloc, .initConfig false]
      reportedAllocs s = some 0 ∧ s.live.length = 1) ∧
    (∀ f : Facts, f.paired = false →
      let s := run f (step f Node.empty (.initConfig false)) [.malloc, .free 0]
      reportedAllocs s = some 1 ∧ s.live.length = 0) := by
  refine ⟨?_, ?_, ?_, ?_⟩ <;> intro f <;> rcases f with ⟨a, b, c, d⟩ <;>
    cases a <;> cases b <;> cases c <;> cases d <;> decide

end GocoinV.Props.C20
