/-
  Props.C20 — the UTXO memory allocator (lib/others/memory) never corrupts or aliases live data.
  Property theorems about Model/Alloc.lean (the definitions oracle_c20 executes and go/cmd/c20
  compares with the real allocator) over the size-class table regenerated from slots.go/memory.go.
-/
import GocoinV.Model.Alloc
namespace GocoinV.Props.C20
open GocoinV.Alloc GocoinV.Gen.MemClasses

/-- The generated size-class table is usable by the allocator: at most 255 classes (class index is a
byte), every slot (after `init()` added the slice header) holds the 32-byte free-list node, every
class has at least one and at most 65535 slots per page (`brk/used/free` are uint16), and the
node's `nextInPage` field starts exactly where the payload starts (so it never overlaps the next slot
or the slice header of a live neighbour). -/
theorem table_wf :
    nClasses ≤ 2 ^ classBits - 1 ∧ 0 < nClasses ∧
    (∀ c, c < nClasses → nodeSize ≤ slotSize c ∧ 1 ≤ capOf c ∧ capOf c < 2 ^ brkBits ∧
      capOf c < 2 ^ usedBits ∧ capOf c < 2 ^ freeBits ∧ headerSize + capOf c * slotSize c ≤ pageSize) ∧
    nodeNextInPageOff + 8 = nodeSize ∧ sliceHdrLen ≤ nodeNextInPageOff := by
  decide +kernel

end GocoinV.Props.C20
